/-
  C17 (fourth part) — "Equivalent ways of writing a query give the same answer": the identities that need a condition
  on the current value, INSIDE larger expressions, the condition being required in THIS RUN only; and `x[*]ρ` against
  `map(&e, x)[*]` for every right-hand side `ρ`.

    1. CONTEXT CLOSURE PER RUN (`Proofs/C17ELemmas.lean`: `Child`, `Visits`, `RunAgree.cong`,
       `context_closure_run_text`).  `closure_unfused_run`: `C[L⟨o⟩ρ]` against `C[L⟨o⟩ | [*]ρ]` for ALL FIVE openers —
       the slice included — and every right-hand side `ρ`, in every context `C`, on every document on which, wherever
       the sub-expression is evaluated in this run, the sliced value is not a string (`closure_unfused_arr`: is an array
       or null) and `ρ` maps null to null (automatic for a selector-shaped `ρ`: `closure_unfused_sel`).
       `closure_projection_follower_run` / `…_strict`: the same for `C[L⟨o⟩ρF]` against `C[L⟨o⟩ρ | [*]F]`.
       `slice_condition_needed`: on `{"foo": "abc"}` the two spellings differ, in a context too.  Examples: inside a call
       (the condition is on the document), inside a filter condition (on the elements of the filtered array), behind a
       guard `type(foo) == 'array' && …` (NO condition: the identity holds on every document).
       1b. `closure_projection_follower0_run`, `closure_unfused0_run` (leading projections `[0:2]ρ`, …),
       `closure_unfused_always` (a left operand that is never a string: no inspection of the run).
    3. `star_is_map_rhs_text`: `L[*]ρ` equals `map(&unrhs ρ, L)[*]` on text for EVERY right-hand side `ρ`, `unrhs ρ`
       (`Proofs/C17ELemmas.lean`) being `ρ` as an expression of its own: `x[*].[a, b]` / `map(&[a, b], x)[*]`,
       `x[*][0]` / `map(&[0], x)[*]`, `x[*].{k: v}` / `map(&{k: v}, x)[*]`, `x[*].a[0].b` / `map(&a[0].b, x)[*]`, …, as an
       IFF: the two searches have the same outcome exactly when `L` is an array or fails (`star_is_map_rhs_array`,
       `star_is_map_not_array`: null against a type error).
    2. `closure_star_is_map`: `C[L[*]ρ]` against `C[map(&e, L)[*]]` wherever `L` is an array in this run (behind the
       guard `type(x) == 'array' && …`: on every document); `closure_multiselect_concat`: `C[[e1, …, en]]` against
       `C[[[e1], …, [en]][]]` — the concatenation of the single selections, written as an expression — wherever no member
       is null in this run; `multiselect_flatten_text` at the top level; `multiselect_flatten_null`: the condition is
       needed (`[]` drops nulls).
-/
import Jmes.Proofs.C17ELemmas
namespace Jmes.C17E
open Jmes Jmes.Parser Jmes.Pratt Jmes.Grammar Jmes.C17 Jmes.C17B Jmes.C17C Jmes.C17C.Congr Jmes.C17C.Ctx
set_option linter.unusedSimpArgs false
set_option linter.unusedVariables false

/-! ## 1. Projections against their unprojected result piped into `[*]`, in context, per run -/

/-- a value that is an array or null is not a string, and neither is any slice of it -/
theorem noStr_of_arr_or_null (o : Opener) {v : Val} (h : v = .null ∨ ∃ t xs, v = .arr t xs) : o.noStr v :=
  Opener.noStr_of_not_str o (fun s hs => by
    rcases h with h | ⟨t, xs, h⟩ <;> rw [h] at hs <;> cases hs)

example : (Opener.slice none none none).noStr (.arr .plain [.null]) := noStr_of_arr_or_null _ (Or.inr ⟨_, _, rfl⟩)

/-- **"filter, flatten and slice projections equal their unprojected result piped into `[*]`" — inside any context, for
    all five openers, per run**: `C[L⟨o⟩ρ]` against `C[L⟨o⟩ | [*]ρ]` on the document `d`, provided that wherever the
    sub-expression `L⟨o⟩ρ` is evaluated in this run (`Visits`: on which current value `cur`, under which bindings `env`)
    `ρ` maps null to null and — for a slice opener — the slice of the value of `L` is not a string.  (No condition on
    states the run does not reach.) -/
theorem closure_unfused_run (C : Ctx) (o : Opener) {L ρ : PTree} (hLi : L.isIcur = false) (hρi : ρ.isIcur = false)
    {op : Token} (hop : op.type = .pipe)
    (h1 : WellPrec (C.fill (o.mk L ρ))) (h2 : WellPrec (C.fill (.bin op (o.mk L .icur) (.star .icur ρ)))) {e1 e2 : Bytes}
    (hl1 : Lexes e1 (Grammar.flatten (C.fill (o.mk L ρ))))
    (hl2 : Lexes e2 (Grammar.flatten (C.fill (.bin op (o.mk L .icur) (.star .icur ρ))))) (d : Val)
    (hrun : ∀ cur env, Visits d (erase (C.fill (o.mk L ρ))) d [] (erase (o.mk L ρ)) cur env →
      ieval d (erase ρ) .null env = .ok .null ∧ ∀ v, ieval d (erase L) cur env = .ok v → o.noStr v) :
    AgreeS (search e1 d) (search e2 d) := by
  refine agreeS_fill C h1 h2 hl1 hl2 (context_closure_run_text C h1 h2 (Opener.mk_not_icur o _ _) rfl hl1 hl2 d
    (fun cur env => ieval d (erase ρ) .null env = .ok .null ∧ ∀ v, ieval d (erase L) cur env = .ok v → o.noStr v)
    ?_ hrun)
  intro cur env hG
  have he : erase (.star .icur ρ) = .projectArrayCurrent (erase ρ) := by
    simp only [erase, GrammarF0.optNode_icur, GrammarF0.optNode_of_ne hρi, starNode]
  rw [Opener.erase_mk o hLi hρi, erase_bin, hop, Opener.erase_mk0 o hLi, he]
  exact unfused_node o _ _ (erase_not_slice L) d cur env hG.1 hG.2

/-- … for a selector-shaped right-hand side `ρ` the null condition holds by itself: the only condition left is the
    one on the sliced value -/
theorem closure_unfused_sel (C : Ctx) (o : Opener) {L ρ : PTree} (hLi : L.isIcur = false) (hρi : ρ.isIcur = false)
    (hρs : SelTree ρ) {op : Token} (hop : op.type = .pipe)
    (h1 : WellPrec (C.fill (o.mk L ρ))) (h2 : WellPrec (C.fill (.bin op (o.mk L .icur) (.star .icur ρ)))) {e1 e2 : Bytes}
    (hl1 : Lexes e1 (Grammar.flatten (C.fill (o.mk L ρ))))
    (hl2 : Lexes e2 (Grammar.flatten (C.fill (.bin op (o.mk L .icur) (.star .icur ρ))))) (d : Val)
    (hrun : ∀ cur env, Visits d (erase (C.fill (o.mk L ρ))) d [] (erase (o.mk L ρ)) cur env →
      ∀ v, ieval d (erase L) cur env = .ok v → o.noStr v) :
    AgreeS (search e1 d) (search e2 d) :=
  closure_unfused_run C o hLi hρi hop h1 h2 hl1 hl2 d fun cur env hv =>
    ⟨selector_null (erase_selector hρs) d env, hrun cur env hv⟩

/-- … "or better": wherever the sub-expression is evaluated in this run, the value of `L` **is an array or null** -/
theorem closure_unfused_arr (C : Ctx) (o : Opener) {L ρ : PTree} (hLi : L.isIcur = false) (hρi : ρ.isIcur = false)
    (hρs : SelTree ρ) {op : Token} (hop : op.type = .pipe)
    (h1 : WellPrec (C.fill (o.mk L ρ))) (h2 : WellPrec (C.fill (.bin op (o.mk L .icur) (.star .icur ρ)))) {e1 e2 : Bytes}
    (hl1 : Lexes e1 (Grammar.flatten (C.fill (o.mk L ρ))))
    (hl2 : Lexes e2 (Grammar.flatten (C.fill (.bin op (o.mk L .icur) (.star .icur ρ))))) (d : Val)
    (hrun : ∀ cur env, Visits d (erase (C.fill (o.mk L ρ))) d [] (erase (o.mk L ρ)) cur env →
      ∀ v, ieval d (erase L) cur env = .ok v → v = .null ∨ ∃ t xs, v = .arr t xs) :
    AgreeS (search e1 d) (search e2 d) :=
  closure_unfused_sel C o hLi hρi hρs hop h1 h2 hl1 hl2 d fun cur env hv v hL =>
    noStr_of_arr_or_null o (hrun cur env hv v hL)

/-- **"a projection followed by selectors equals piping the projected array into a new projection of those selectors"
    — inside any context, for all five openers, per run**: `C[L⟨o⟩ρF]` against `C[L⟨o⟩ρ | [*]F]`, the follower `F` mapping
    null to null and — for a slice opener — the slice of the value of `L` not being a string wherever the
    sub-expression is evaluated in this run -/
theorem closure_projection_follower_run (C : Ctx) (o : Opener) (F : Follower)
    {L ρ : PTree} (hLi : L.isIcur = false) (hρ : Rhs ρ) (hfit : F.Fits ρ) {op : Token} (hop : op.type = .pipe)
    (h1 : WellPrec (C.fill (o.mk L (F.app ρ))))
    (h2 : WellPrec (C.fill (.bin op (o.mk L ρ) (.star .icur (F.ext .icur))))) {e1 e2 : Bytes}
    (hl1 : Lexes e1 (Grammar.flatten (C.fill (o.mk L (F.app ρ)))))
    (hl2 : Lexes e2 (Grammar.flatten (C.fill (.bin op (o.mk L ρ) (.star .icur (F.ext .icur)))))) (d : Val)
    (hrun : ∀ cur env, Visits d (erase (C.fill (o.mk L (F.app ρ)))) d [] (erase (o.mk L (F.app ρ))) cur env →
      F.NullOK d env ∧ ∀ v, ieval d (erase L) cur env = .ok v → o.noStr v) :
    AgreeS (search e1 d) (search e2 d) := by
  refine agreeS_fill C h1 h2 hl1 hl2 (context_closure_run_text C h1 h2 (Opener.mk_not_icur o _ _) rfl hl1 hl2 d
    (fun cur env => F.NullOK d env ∧ ∀ v, ieval d (erase L) cur env = .ok v → o.noStr v) ?_ hrun)
  intro cur env hG
  rw [Opener.erase_mk o hLi (F.app_not_icur ρ), erase_bin, hop, Opener.erase_mk o hLi hρ.not_icur, erase_star_follower]
  exact follower_node o F hρ hfit d cur env hG.1 hG.2

/-- … for a follower that maps null to null by itself (every follower but `.R`; `.R` for a selector-shaped `R`) -/
theorem closure_projection_follower_strict (C : Ctx) (o : Opener) (F : Follower) (hF : F.Strict)
    {L ρ : PTree} (hLi : L.isIcur = false) (hρ : Rhs ρ) (hfit : F.Fits ρ) {op : Token} (hop : op.type = .pipe)
    (h1 : WellPrec (C.fill (o.mk L (F.app ρ))))
    (h2 : WellPrec (C.fill (.bin op (o.mk L ρ) (.star .icur (F.ext .icur))))) {e1 e2 : Bytes}
    (hl1 : Lexes e1 (Grammar.flatten (C.fill (o.mk L (F.app ρ)))))
    (hl2 : Lexes e2 (Grammar.flatten (C.fill (.bin op (o.mk L ρ) (.star .icur (F.ext .icur)))))) (d : Val)
    (hrun : ∀ cur env, Visits d (erase (C.fill (o.mk L (F.app ρ)))) d [] (erase (o.mk L (F.app ρ))) cur env →
      ∀ v, ieval d (erase L) cur env = .ok v → o.noStr v) :
    AgreeS (search e1 d) (search e2 d) :=
  closure_projection_follower_run C o F hLi hρ hfit hop h1 h2 hl1 hl2 d fun cur env hv =>
    ⟨hF.nullOK d env, hrun cur env hv⟩

section Examples
open Grammar.Ex
/-- the context `length(□)` -/
private def cLen : Ctx := .callA ⟨.unquotedIdentifier, bs "length"⟩ [] .hole []
/-- the right-hand side `.bar` -/
private def rbar : PTree := .dotId .icur (idt "bar")
/-- the opener `[0:2]` -/
private def sl02 : Opener := .slice (some (int "0")) (some (int "2")) none
/-- `foo[0:2].bar` -/
private def slFooBar : PTree := sl02.mk (idt "foo") rbar

/-- the node of `length(s)` -/
private theorem erase_cLen (s : PTree) : erase (cLen.fill s) = .call .length [erase s] := rfl
/-- the node of `foo[0:2].bar` -/
private theorem erase_slFooBar :
    erase slFooBar = .projectArray (.slice (.field (bs "foo")) 0 2) (.field (bs "bar")) := rfl
/-- `foo` on any current value -/
private theorem ieval_foo (d cur : Val) (env : Env) : ieval d (erase (idt "foo")) cur env = .ok (field (bs "foo") cur) := rfl

/-- **a slice projection inside a call**: `length(foo[0:2].bar)` / `length(foo[0:2] | [*].bar)` agree on every document
    whose `foo` is not a string (the argument is evaluated once, on the document) -/
example (d : Val) (hd : ∀ s, field (bs "foo") d ≠ .str s) :
    AgreeS (search (bs "length(foo[0:2].bar)") d) (search (bs "length(foo[0:2] | [*].bar)") d) :=
  closure_unfused_sel cLen sl02 (L := idt "foo") (ρ := rbar) (op := op .pipe "|") rfl rfl (.dot0 (.ident _ rfl)) rfl
    (by decide +kernel) (by decide +kernel) (by decide +kernel) (by decide +kernel) d (by
      intro cur env hv v hL
      rw [erase_cLen] at hv
      obtain ⟨hc, he⟩ := visits_call1 hv
      rw [hc, ieval_foo] at hL
      cases hL
      exact Opener.noStr_of_not_str _ hd)

/-- **… inside a filter condition**: `x[?foo[0:2].bar]` / `x[?foo[0:2] | [*].bar]` agree on every document in which no
    element of `x` has a string `foo` — the condition is evaluated on the elements of `x`, and only there -/
example (d : Val) (hd : ∀ y ∈ arrElems (field (bs "x") d), ∀ s, field (bs "foo") y ≠ .str s) :
    AgreeS (search (bs "x[?foo[0:2].bar]") d) (search (bs "x[?foo[0:2] | [*].bar]") d) :=
  closure_unfused_sel (.filtC (idt "x") .hole .icur) sl02 (L := idt "foo") (ρ := rbar) (op := op .pipe "|") rfl rfl
    (.dot0 (.ident _ rfl)) rfl
    (by decide +kernel) (by decide +kernel) (by decide +kernel) (by decide +kernel) d (by
      intro cur env hv v hL
      have hN : erase ((Ctx.filtC (idt "x") .hole .icur).fill slFooBar) = .filter (.field (bs "x")) (erase slFooBar) := rfl
      change Visits d (erase ((Ctx.filtC (idt "x") .hole .icur).fill slFooBar)) d [] (erase slFooBar) cur env at hv
      rw [hN] at hv
      obtain ⟨m, c1, e1, hc, hv'⟩ := hv.through (by rw [erase_slFooBar]; exact fun h => by cases h)
      rcases hc with ⟨rfl, rfl, rfl⟩ | ⟨rfl, rfl, a, ha, hx⟩
      · have := visits_field hv'
        rw [erase_slFooBar] at this
        cases this
      · obtain ⟨hc, -⟩ := hv'.self
        cases ha
        rw [hc, ieval_foo] at hL
        cases hL
        exact Opener.noStr_of_not_str _ (hd _ hx))
/-- `type(foo) == 'array'` -/
private def guard : PTree :=
  .bin (op .equal "==") (.call ⟨.unquotedIdentifier, bs "type"⟩ [idt "foo"]) (.atom ⟨.stringLiteral, bs "'array'"⟩)
/-- its node -/
private def gNode : INode := .binop .eq (.call .type [.field (bs "foo")]) (.lit (.str (bs "array")))
/-- the context `type(foo) == 'array' && (□)` -/
private def cGuard : Ctx := .binR (op .and "&&") guard (.paren .hole)
/-- the node of the guarded expression -/
private theorem erase_cGuard (s : PTree) : erase (cGuard.fill s) = .and gNode (erase s) := rfl

/-- where the guard is true, `foo` is an array -/
private theorem guard_true (d : Val) {a : Val} (h : ieval d gNode d [] = .ok a) (ht : isTrue a = true) :
    ∃ t xs, field (bs "foo") d = .arr t xs := by
  simp only [gNode, ieval, ievalList, Res.ok_bind, Res.pure_eq] at h
  cases hf : field (bs "foo") d with
  | arr t xs => exact ⟨t, xs, rfl⟩
  | _ => rw [hf] at h; first | (cases h; exact absurd ht (by decide +kernel)) | cases h

/-- **… behind a guard**: in `type(foo) == 'array' && (foo[0:2].bar)` the slice projection is evaluated only where the
    guard is true, that is, where `foo` is an array: the two spellings agree on EVERY document — though the slice
    identity itself fails on the documents whose `foo` is a string (`slice_condition_needed`) -/
example (d : Val) :
    AgreeS (search (bs "type(foo) == 'array' && (foo[0:2].bar)") d)
      (search (bs "type(foo) == 'array' && (foo[0:2] | [*].bar)") d) :=
  closure_unfused_arr cGuard sl02 (L := idt "foo") (ρ := rbar) (op := op .pipe "|") rfl rfl (.dot0 (.ident _ rfl)) rfl
    (by decide +kernel) (by decide +kernel) (by decide +kernel) (by decide +kernel) d (by
      intro cur env hv v hL
      change Visits d (erase (cGuard.fill slFooBar)) d [] (erase slFooBar) cur env at hv
      rw [erase_cGuard] at hv
      obtain ⟨m, c1, e1, hc, hv'⟩ := hv.through (by rw [erase_slFooBar]; exact fun h => by cases h)
      rcases hc with ⟨rfl, hc1, he1⟩ | ⟨rfl, hc1, he1, a, ha, ht⟩
      · exfalso
        rw [hc1, he1] at hv'
        obtain ⟨m, c1, e1, hc, hv2⟩ := hv'.through (by rw [erase_slFooBar]; exact fun h => by cases h)
        obtain ⟨rfl | rfl, hc2, he2⟩ := hc
        · obtain ⟨m, c1, e1, hc, hv3⟩ := hv2.through (by rw [erase_slFooBar]; exact fun h => by cases h)
          obtain ⟨hm, -, -⟩ := hc
          rw [List.mem_singleton.mp hm] at hv3
          have := visits_field hv3
          rw [erase_slFooBar] at this
          cases this
        · have := (hv2.leaf (n := .lit _) (fun _ _ _ h => h)).1
          rw [erase_slFooBar] at this
          cases this
      · obtain ⟨hc, -⟩ := hv'.self
        rw [hc, hc1, ieval_foo] at hL
        cases hL
        exact Or.inr (guard_true d ha ht))

/-- the document `{"foo": "abc"}` -/
private def docS : Val := .obj [(bs "foo", .str (bs "abc"))]
/-- `length(foo[0:2][0:1])` -/
private def tFused : PTree :=
  cLen.fill (sl02.mk (idt "foo") (.slice .icur (some (int "0")) (some (int "1")) none .icur))
/-- `length(foo[0:2] | [*][0:1])` -/
private def tPiped : PTree :=
  cLen.fill (.bin (op .pipe "|") (sl02.mk (idt "foo") .icur)
    (.star .icur (.slice .icur (some (int "0")) (some (int "1")) none .icur)))

/-- **the condition on the sliced value is needed, in a context too**: on `{"foo": "abc"}` the slice `foo[0:2]` is the
    string `"ab"`, which the fused form hands to its right-hand side whole (`"ab"[0:1]` is `"a"`, of length 1) while
    `| [*]` projects a string to null (and `length(null)` is a type error).  (Go: `1`, and "invalid type nil".) -/
theorem slice_condition_needed :
    search (bs "length(foo[0:2][0:1])") docS = .ok (.num (.int .i64 1)) ∧
    search (bs "length(foo[0:2] | [*][0:1])") docS = .err [Cat.invalidType] ∧
    ¬ Agree (search (bs "length(foo[0:2][0:1])") docS) (search (bs "length(foo[0:2] | [*][0:1])") docS) := by
  have a : search (bs "length(foo[0:2][0:1])") docS = .ok (.num (.int .i64 1)) := by
    rw [(text (t := tFused) (by decide +kernel) (by decide +kernel)).2 docS]; rfl
  have b : search (bs "length(foo[0:2] | [*][0:1])") docS = .err [Cat.invalidType] := by
    rw [(text (t := tPiped) (by decide +kernel) (by decide +kernel)).2 docS]; rfl
  refine ⟨a, b, fun h => ?_⟩
  rw [a, b] at h
  rcases h with ⟨v, _, h2⟩ | ⟨h1, _⟩
  · cases h2
  · cases h1
end Examples

/-! ## 3. `L[*]ρ` against `map(&e, L)[*]` for every right-hand side -/

/-- the identifier `map` -/
def mapTok : Token := ⟨.unquotedIdentifier, [0x6D, 0x61, 0x70]⟩

/-- the tree of `map(&E, L)[*]` -/
def mapStar (E L : PTree) : PTree := .star (.call mapTok [.ref E, L]) .icur

/-- `map` is the builtin that takes `&expression, array` -/
theorem lookup_map : Parser.lookupBuiltin [0x6D, 0x61, 0x70] = some (.mapArg .map) := by rfl

/-- `map(&E, L)[*]` is an expression when `E` and `L` are -/
theorem wp_mapStar {E L : PTree} (hE : WellPrec E) (hL : WellPrec L) : WellPrec (mapStar E L) := by
  have hE' : Grammar.wp false E = true := hE
  have hL' : Grammar.wp false L = true := hL
  have hcall : WellPrec (.call mapTok [.ref E, L]) := by
    show Grammar.wp false (.call mapTok [.ref E, L]) = true
    simp only [mapTok, Grammar.wp, lookup_map, argsOK, show (PTree.ref E).isRef = true from rfl, isRef_false hL', wpArgs, hE',
      wpArgs_cons hL', Bool.not_false, beq_self_eq_true, Bool.and_self]
  exact Opener.wp_mk0 (o := .star) (b := false) hcall (by decide : lvlBracket ≤ top) trivial

/-- its printing -/
theorem flatten_mapStar (E L : PTree) :
    Grammar.flatten (mapStar E L) =
      mapTok :: tLParen :: tAmp :: Grammar.flatten E ++ tComma :: Grammar.flatten L ++ [tRParen, tArrayStar] := by
  simp only [mapStar, Grammar.flatten, Grammar.flat, flatSep, List.cons_append, List.append_assoc, List.nil_append,
    List.append_nil]

/-- its node: the pruned `map` -/
theorem erase_mapStar (E L : PTree) : erase (mapStar E L) = .pruneArray (.map (erase E) (erase L)) := by
  simp only [mapStar, mapTok, erase, lookup_map, eraseL, callNode, GrammarF0.optNode_icur, starNode,
    GrammarF0.optNode_of_ne (show (PTree.call ⟨.unquotedIdentifier, [0x6D, 0x61, 0x70]⟩ [.ref E, L]).isIcur = false from rfl)]

/-- node level, every outcome of `x`: `x[*]r` and `map(&r, x)[*]` have the same outcome exactly when the value of `x` is
    an array, or `x` fails -/
theorem star_is_map_node_iff (root : Val) (x r : INode) (hx : x.isSlice = false) (cur : Val) (env : Env) :
    ieval root (.projectArray x r) cur env = ieval root (.pruneArray (.map r x)) cur env ↔
      ∀ v, ieval root x cur env = .ok v → ∃ t xs, v = .arr t xs := by
  cases hv : ieval root x cur env with
  | ok v =>
    cases v with
    | arr t xs =>
      exact ⟨fun _ v' h => (by cases h; exact ⟨t, xs, rfl⟩), fun _ => star_is_map_node root x r cur env t xs hv⟩
    | _ =>
      refine ⟨fun h => ?_, fun h => ?_⟩
      · simp only [ieval, hv, hx, Res.ok_bind, Res.pure_eq, projectArray, mapArray, errType, Bool.false_eq_true,
          if_false] at h
        cases h
      · obtain ⟨t, xs, h⟩ := h _ rfl
        cases h
  | _ =>
    refine ⟨fun _ v h => (by cases h), fun _ => ?_⟩
    simp only [ieval, hv]
    rfl

/-- **`L[*]ρ` equals `map(&e, L)[*]`, on text, for EVERY right-hand side `ρ`** — `.R`, `.[e1, …]`, `[n]`, `.{k: e, …}`,
    `.[*]`, a nested projection, and all their continuations — `e = unrhs ρ` being `ρ` as an expression of its own
    (`.[a, b] ↦ [a, b]`, `[0] ↦ [0]`, `.{k: v} ↦ {k: v}`, `.a[0].b ↦ a[0].b`).  The second text parses to the pruned `map`
    node over the SAME right-hand-side node; and on every document the two searches have the same outcome exactly when
    `L` evaluates to an array (or fails). -/
theorem star_is_map_rhs_text {L ρ : PTree} (hL : WellPrec L) (hLr : lvlBracket ≤ rlevel L) (hρ : Rhs ρ) {e1 e2 : Bytes}
    (h1 : Lexes e1 (Grammar.flatten L ++ [tArrayStar] ++ Grammar.flat true ρ))
    (h2 : Lexes e2 (mapTok :: tLParen :: tAmp :: Grammar.flatten (unrhs ρ) ++ tComma :: Grammar.flatten L ++
      [tRParen, tArrayStar])) :
    Parser.parse e1 = .ok (.projectArray (erase L) (erase ρ)) ∧
    Parser.parse e2 = .ok (.pruneArray (.map (erase ρ) (erase L))) ∧
    ∀ d, search e1 d = search e2 d ↔ ∀ v, evaluate (erase L) d = .ok v → ∃ t xs, v = .arr t xs := by
  have a := proj_text .star hL hLr trivial hρ (e := e1) h1
  obtain ⟨u1, u2, -⟩ := unrhs_spec ρ hρ.wp
  obtain ⟨hp, -⟩ := text (wp_mapStar u1 hL) (h2.congr (flatten_mapStar _ _).symm)
  rw [erase_mapStar, u2] at hp
  refine ⟨a.1, hp, fun d => ?_⟩
  rw [C17B.search_of_parse a.1, C17B.search_of_parse hp, evaluate_eq, evaluate_eq, evaluate_eq]
  exact star_is_map_node_iff d _ _ (erase_not_slice L) d []

/-- … on the documents where `L` is an array: equal outcomes -/
theorem star_is_map_rhs_array {L ρ : PTree} (hL : WellPrec L) (hLr : lvlBracket ≤ rlevel L) (hρ : Rhs ρ) {e1 e2 : Bytes}
    (h1 : Lexes e1 (Grammar.flatten L ++ [tArrayStar] ++ Grammar.flat true ρ))
    (h2 : Lexes e2 (mapTok :: tLParen :: tAmp :: Grammar.flatten (unrhs ρ) ++ tComma :: Grammar.flatten L ++
      [tRParen, tArrayStar]))
    (d : Val) {t : ATag} {xs : List Val} (hx : evaluate (erase L) d = .ok (.arr t xs)) : search e1 d = search e2 d :=
  ((star_is_map_rhs_text hL hLr hρ h1 h2).2.2 d).2 fun v hv => by rw [hx] at hv; cases hv; exact ⟨t, xs, rfl⟩

/-- … and where `L` is anything else the two differ: the projection is null, `map` is a type error -/
theorem star_is_map_not_array {L ρ : PTree} (hL : WellPrec L) (hLr : lvlBracket ≤ rlevel L) (hρ : Rhs ρ) {e1 e2 : Bytes}
    (h1 : Lexes e1 (Grammar.flatten L ++ [tArrayStar] ++ Grammar.flat true ρ))
    (h2 : Lexes e2 (mapTok :: tLParen :: tAmp :: Grammar.flatten (unrhs ρ) ++ tComma :: Grammar.flatten L ++
      [tRParen, tArrayStar]))
    (d : Val) {v : Val} (hv : evaluate (erase L) d = .ok v) (hna : ∀ t xs, v ≠ .arr t xs) :
    search e1 d = .ok .null ∧ search e2 d = .err [Cat.invalidType] := by
  obtain ⟨p1, p2, -⟩ := star_is_map_rhs_text hL hLr hρ h1 h2
  rw [C17B.search_of_parse p1, C17B.search_of_parse p2, evaluate_eq, evaluate_eq]
  rw [evaluate_eq] at hv
  have hs := erase_not_slice L
  cases v with
  | arr t xs => exact absurd rfl (hna t xs)
  | _ =>
    simp only [ieval, hv, hs, Res.ok_bind, Res.pure_eq, projectArray, mapArray, errType, Bool.false_eq_true, if_false]
    exact ⟨trivial, rfl⟩

section Examples
open Grammar.Ex
/-- the document `{"x": ys}` -/
private def xArr (ys : List Val) : Val := .obj [(bs "x", .arr .plain ys)]
/-- on it `x` is the array `ys` -/
private theorem x_arr (ys : List Val) : evaluate (erase (idt "x")) (xArr ys) = .ok (.arr .plain ys) := rfl

/-- **`x[*].[a, b]` / `map(&[a, b], x)[*]`** (a multi-select list), **`x[*][0]` / `map(&[0], x)[*]`** (an index),
    **`x[*].{k: a}` / `map(&{k: a}, x)[*]`** (a multi-select hash): equal on every document where `x` is an array -/
example (ys : List Val) : search (bs "x[*].[a, b]") (xArr ys) = search (bs "map(&[a, b], x)[*]") (xArr ys) :=
  star_is_map_rhs_array (L := idt "x") (ρ := .dotList .icur [idt "a", idt "b"]) (by decide) (by decide)
    ⟨by decide, by decide⟩ (by decide) (by decide +kernel) _ (x_arr ys)
example (ys : List Val) : search (bs "x[*][0]") (xArr ys) = search (bs "map(&[0], x)[*]") (xArr ys) :=
  star_is_map_rhs_array (L := idt "x") (ρ := .index .icur (int "0")) (by decide) (by decide)
    ⟨by decide, by decide⟩ (by decide) (by decide +kernel) _ (x_arr ys)
example (ys : List Val) : search (bs "x[*].{k: a}") (xArr ys) = search (bs "map(&{k: a}, x)[*]") (xArr ys) :=
  star_is_map_rhs_array (L := idt "x") (ρ := .dotHash .icur [(⟨.unquotedIdentifier, bs "k"⟩, idt "a")]) (by decide)
    (by decide) ⟨by decide, by decide⟩ (by decide) (by decide +kernel) _ (x_arr ys)
/-- longer right-hand sides: `x[*].a[0].b` / `map(&a[0].b, x)[*]`, a nested projection `x[*][*].c` / `map(&[*].c, x)[*]`,
    the one-member list `x[*].[a]` / `map(&[a], x)[*]` (no null check on either side: a null element gives `[null]`) -/
example (ys : List Val) : search (bs "x[*].a[0].b") (xArr ys) = search (bs "map(&a[0].b, x)[*]") (xArr ys) :=
  star_is_map_rhs_array (L := idt "x") (ρ := .dotId (.dotId .icur (.index (idt "a") (int "0"))) (idt "b")) (by decide)
    (by decide) ⟨by decide, by decide⟩ (by decide) (by decide +kernel) _ (x_arr ys)
example (ys : List Val) : search (bs "x[*][*].c") (xArr ys) = search (bs "map(&[*].c, x)[*]") (xArr ys) :=
  star_is_map_rhs_array (L := idt "x") (ρ := .star .icur (.dotId .icur (idt "c"))) (by decide)
    (by decide) ⟨by decide, by decide⟩ (by decide) (by decide +kernel) _ (x_arr ys)
example (ys : List Val) : search (bs "x[*].[a]") (xArr ys) = search (bs "map(&[a], x)[*]") (xArr ys) :=
  star_is_map_rhs_array (L := idt "x") (ρ := .dotList .icur [idt "a"]) (by decide) (by decide)
    ⟨by decide, by decide⟩ (by decide) (by decide +kernel) _ (x_arr ys)
/-- the parse of the second spelling, and a value: on `{"x": [{"a": 1, "b": 2}, null]}` both give `[[1, 2]]` -/
example : Parser.parse (bs "map(&[a, b], x)[*]") =
    .ok (.pruneArray (.map (.selectArrayCurrent [.field (bs "a"), .field (bs "b")]) (.field (bs "x")))) :=
  (star_is_map_rhs_text (L := idt "x") (ρ := .dotList .icur [idt "a", idt "b"]) (e1 := bs "x[*].[a, b]") (by decide)
    (by decide) ⟨by decide, by decide⟩ (by decide) (by decide +kernel)).2.1
example : search (bs "x[*].[a, b]")
      (xArr [.obj [(bs "a", .num (.jnum (bs "1"))), (bs "b", .num (.jnum (bs "2")))], .null]) =
    .ok (.arr .plain [.arr .plain [.num (.jnum (bs "1")), .num (.jnum (bs "2"))]]) := by
  rw [C17B.search_of_parse (star_is_map_rhs_text (L := idt "x") (ρ := .dotList .icur [idt "a", idt "b"])
    (e2 := bs "map(&[a, b], x)[*]") (by decide) (by decide) ⟨by decide, by decide⟩ (by decide) (by decide +kernel)).1]
  rfl
/-- where `x` is a string the two differ (Go: `null`, and "invalid type string when expecting array") -/
example : search (bs "x[*].[a, b]") (.obj [(bs "x", .str (bs "s"))]) = .ok .null ∧
    search (bs "map(&[a, b], x)[*]") (.obj [(bs "x", .str (bs "s"))]) = .err [Cat.invalidType] :=
  star_is_map_not_array (L := idt "x") (ρ := .dotList .icur [idt "a", idt "b"]) (by decide) (by decide)
    ⟨by decide, by decide⟩ (by decide) (by decide +kernel) _ (v := .str (bs "s")) rfl (fun _ _ h => by cases h)
end Examples

/-! ## 2. `star_is_map` and the multi-select concatenation, in context, per run -/

/-- **"for an array `x`, `x[*].e` equals `map(&e, x)` with nulls removed" — inside any context, per run**: `C[L[*]ρ]`
    against `C[map(&e, L)[*]]` (`e = unrhs ρ`, any right-hand side `ρ`) on the document `d`, provided that wherever the
    sub-expression `L[*]ρ` is evaluated in this run the value of `L` is an array.  (Where it is not, `map` is a type
    error and the projection null: `star_is_map_not_array`.) -/
theorem closure_star_is_map (C : Ctx) {L ρ : PTree} (hLi : L.isIcur = false) (hρ : Grammar.wp true ρ = true)
    (h1 : WellPrec (C.fill (.star L ρ))) (h2 : WellPrec (C.fill (mapStar (unrhs ρ) L))) {e1 e2 : Bytes}
    (hl1 : Lexes e1 (Grammar.flatten (C.fill (.star L ρ))))
    (hl2 : Lexes e2 (Grammar.flatten (C.fill (mapStar (unrhs ρ) L)))) (d : Val)
    (hrun : ∀ cur env, Visits d (erase (C.fill (.star L ρ))) d [] (erase (.star L ρ)) cur env →
      ∀ v, ieval d (erase L) cur env = .ok v → ∃ t xs, v = .arr t xs) :
    AgreeS (search e1 d) (search e2 d) := by
  refine agreeS_fill C h1 h2 hl1 hl2 (context_closure_run_text C h1 h2 rfl rfl hl1 hl2 d
    (fun cur env => ∀ v, ieval d (erase L) cur env = .ok v → ∃ t xs, v = .arr t xs) ?_ hrun)
  intro cur env hG
  have hρi := C17B.not_icur hρ
  have he : erase (.star L ρ) = .projectArray (erase L) (erase ρ) := Opener.erase_mk .star hLi hρi
  rw [he, erase_mapStar, (unrhs_spec ρ hρ).2.1]
  exact agree_of_eq ((star_is_map_node_iff d _ _ (erase_not_slice L) cur env).2 hG)

/-- the one-member arrays `[v]` of the values `vs` -/
def singles (vs : List Val) : List Val := vs.map fun v => .arr .plain [v]

/-- the single selections `[e]` of the members -/
theorem ievalList_singles (root : Val) : ∀ (fs : List INode) (cur : Val) (env : Env),
    ievalList root (fs.map .selectArraySingleCurrent) cur env = (ievalList root fs cur env >>= fun vs => .ok (singles vs))
  | [], _, _ => rfl
  | f :: fs, cur, env => by
    simp only [List.map_cons, ievalList, ieval, ievalList_singles root fs cur env, Res.bind_assoc, Res.ok_bind,
      Res.pure_eq, singles, List.map_cons]

/-- flattening one-member arrays drops the null members … -/
theorem flattenElems_singles : ∀ vs : List Val, flattenElems (singles vs) = vs.filter (fun v => !v.isNull)
  | [] => rfl
  | v :: vs => by
    have ih := flattenElems_singles vs
    simp only [singles, List.map_cons] at ih ⊢
    simp only [flattenElems, ih, List.filter_cons, List.filter_nil]
    cases v.isNull <;> rfl

/-- … and keeps all when there is none -/
theorem filter_nonnull_all : ∀ {vs : List Val}, (∀ v ∈ vs, v.isNull = false) → vs.filter (fun v => !v.isNull) = vs
  | [], _ => rfl
  | v :: vs, h => by
    simp only [List.filter_cons, h v List.mem_cons_self, Bool.not_false, if_true,
      filter_nonnull_all (vs := vs) fun w hw => h w (List.mem_cons_of_mem _ hw)]

/-- the flattened array is an ordinary one -/
theorem flattenTag_singles (vs : List Val) : flattenTag .plain (singles vs) = .plain := by
  unfold flattenTag
  have h1 : enum2 .plain (singles vs) = false := rfl
  rw [h1, Bool.false_or]
  split
  · rename_i h
    obtain ⟨x, hx, hp⟩ := List.any_eq_true.mp h
    obtain ⟨v, -, rfl⟩ := List.mem_map.mp hx
    cases hp
  · rfl

/-- **`[[v1], …, [vn]][]` is `[v1, …, vn]` without its nulls** -/
theorem flatten_singles (vs : List Val) :
    Jmes.flatten (.arr .plain (singles vs)) = .arr .plain (vs.filter (fun v => !v.isNull)) := by
  simp only [Jmes.flatten, flattenTag_singles, flattenElems_singles]

example : Jmes.flatten (.arr .plain (singles [.null, .bool true])) = .arr .plain [.bool true] := by
  rw [flatten_singles]; rfl

/-- **node level**: `[e1, …, en]` against `[[e1], …, [en]][]`, the concatenation of the single selections written as an
    expression: the same outcome, on every current value (null included), provided no member evaluates to null -/
theorem multiselect_flatten_node (root : Val) (fs : List INode) (hne : fs ≠ []) (cur : Val) (env : Env)
    (hG : ∀ vs, ievalList root fs cur env = .ok vs → ∀ v ∈ vs, v.isNull = false) :
    ieval root (listNode none fs) cur env =
      ieval root (.flatten (listNode none (fs.map .selectArraySingleCurrent))) cur env := by
  have key : ∀ (r : Res (List Val)), (∀ vs, r = .ok vs → ∀ v ∈ vs, v.isNull = false) →
      (r >>= fun vs => (Res.ok (.arr .plain vs) : Res Val)) =
        (r >>= fun vs => Res.ok (singles vs) >>= fun ws => (Res.ok (.arr .plain ws) : Res Val) >>= fun a => Res.ok (Jmes.flatten a)) := by
    intro r hr
    cases r with
    | ok vs => simp only [Res.ok_bind, flatten_singles, filter_nonnull_all (hr vs rfl)]
    | _ => rfl
  match fs, hne with
  | [f], _ =>
    simp only [List.map_cons, List.map_nil, listNode, ieval, Res.pure_eq, Res.bind_assoc, Res.ok_bind]
    have := key (ievalList root [f] cur env) hG
    simp only [ievalList, Res.bind_assoc, Res.ok_bind, Res.pure_eq, singles, List.map_cons, List.map_nil] at this
    exact this
  | f1 :: f2 :: fs, _ =>
    simp only [List.map_cons, listNode, ieval, Res.pure_eq]
    cases hn : cur.isNull
    · simp only [Bool.false_eq_true, if_false, Res.bind_assoc]
      have h := ievalList_singles root (f1 :: f2 :: fs) cur env
      simp only [List.map_cons] at h
      rw [h, Res.bind_assoc]
      exact key _ hG
    · simp only [if_true, Res.ok_bind]; rfl

/-- the single selections `[e]` of the members, as trees -/
def singleTrees (es : List PTree) : List PTree := es.map fun e => .multiList [e]

/-- their nodes: the one-member form, without a null check -/
theorem eraseL_singleTrees : ∀ es : List PTree, eraseL (singleTrees es) = (eraseL es).map .selectArraySingleCurrent
  | [] => rfl
  | e :: es => by
    have ih := eraseL_singleTrees es
    simp only [singleTrees, List.map_cons, eraseL] at ih ⊢
    rw [ih]
    rfl

/-- the tree of `[[e1], …, [en]][]` -/
def concatTree (es : List PTree) : PTree := .flat (.multiList (singleTrees es)) .icur

/-- its node: `flatten` of the multi-select of the single selections -/
theorem erase_concatTree (es : List PTree) :
    erase (concatTree es) = .flatten (listNode none ((eraseL es).map .selectArraySingleCurrent)) := by
  simp only [concatTree, erase, GrammarF0.optNode_icur,
    GrammarF0.optNode_of_ne (show (PTree.multiList (singleTrees es)).isIcur = false from rfl), flatNode, eraseL_singleTrees]

/-- a non-empty member list has a non-empty node list -/
theorem eraseL_ne_nil {es : List PTree} (h : es ≠ []) : eraseL es ≠ [] := by
  cases es with
  | nil => exact absurd rfl h
  | cons e es => simp [eraseL]

/-- **"`[e1, …, en]` equals the concatenation of the single selections `[ei]`" — as an identity between two expressions,
    inside any context, per run**: `C[[e1, …, en]]` against `C[[[e1], …, [en]][]]` (the language has no other way to
    write a concatenation: `[]` merges the one-member lists).  It holds on every current node, null included, provided
    that wherever the multi-select is evaluated in this run no member evaluates to null — `[]` drops nulls
    (`multiselect_flatten_null`). -/
theorem closure_multiselect_concat (C : Ctx) {es : List PTree} (hne : es ≠ [])
    (h1 : WellPrec (C.fill (.multiList es))) (h2 : WellPrec (C.fill (concatTree es))) {e1 e2 : Bytes}
    (hl1 : Lexes e1 (Grammar.flatten (C.fill (.multiList es))))
    (hl2 : Lexes e2 (Grammar.flatten (C.fill (concatTree es)))) (d : Val)
    (hrun : ∀ cur env, Visits d (erase (C.fill (.multiList es))) d [] (erase (.multiList es)) cur env →
      ∀ vs, ievalList d (eraseL es) cur env = .ok vs → ∀ v ∈ vs, v.isNull = false) :
    AgreeS (search e1 d) (search e2 d) := by
  refine agreeS_fill C h1 h2 hl1 hl2 (context_closure_run_text C h1 h2 rfl rfl hl1 hl2 d
    (fun cur env => ∀ vs, ievalList d (eraseL es) cur env = .ok vs → ∀ v ∈ vs, v.isNull = false) ?_ hrun)
  intro cur env hG
  rw [erase_concatTree]
  exact agree_of_eq (multiselect_flatten_node d (eraseL es) (eraseL_ne_nil hne) cur env hG)

/-- … at the top level: **`[e1, …, en]` and `[[e1], …, [en]][]` have the same outcome** on every document on which no
    member is null (the null document included) -/
theorem multiselect_flatten_text {es : List PTree} (hne : es ≠ [])
    (h1 : WellPrec (.multiList es)) (h2 : WellPrec (concatTree es)) {e1 e2 : Bytes}
    (hl1 : Lexes e1 (Grammar.flatten (.multiList es))) (hl2 : Lexes e2 (Grammar.flatten (concatTree es))) (d : Val)
    (hd : ∀ vs, ievalList d (eraseL es) d [] = .ok vs → ∀ v ∈ vs, v.isNull = false) :
    search e1 d = search e2 d := by
  rw [(text h1 hl1).2 d, (text h2 hl2).2 d, evaluate_eq, evaluate_eq, erase_concatTree]
  exact multiselect_flatten_node d (eraseL es) (eraseL_ne_nil hne) d [] hd

section Examples
open Grammar.Ex
/-- `x` on any current value -/
private theorem ieval_x (d cur : Val) (env : Env) : ieval d (erase (idt "x")) cur env = .ok (field (bs "x") cur) := rfl

/-- **`length(x[*].[a, b])` / `length(map(&[a, b], x)[*])`** agree on every document whose `x` is an array -/
example (d : Val) {t : ATag} {xs : List Val} (hd : field (bs "x") d = .arr t xs) :
    AgreeS (search (bs "length(x[*].[a, b])") d) (search (bs "length(map(&[a, b], x)[*])") d) :=
  closure_star_is_map cLen (L := idt "x") (ρ := .dotList .icur [idt "a", idt "b"]) rfl (by decide)
    (by decide +kernel) (by decide +kernel) (by decide +kernel) (by decide +kernel) d (by
      intro cur env hv v hL
      rw [erase_cLen] at hv
      obtain ⟨hc, -⟩ := visits_call1 hv
      rw [hc, ieval_x, hd] at hL
      cases hL
      exact ⟨t, xs, rfl⟩)

/-- `type(x) == 'array'` -/
private def guardX : PTree :=
  .bin (op .equal "==") (.call ⟨.unquotedIdentifier, bs "type"⟩ [idt "x"]) (.atom ⟨.stringLiteral, bs "'array'"⟩)
/-- its node -/
private def gxNode : INode := .binop .eq (.call .type [.field (bs "x")]) (.lit (.str (bs "array")))
/-- the context `type(x) == 'array' && □` -/
private def cGuardX : Ctx := .binR (op .and "&&") guardX .hole
/-- the node of the guarded expression -/
private theorem erase_cGuardX (s : PTree) : erase (cGuardX.fill s) = .and gxNode (erase s) := rfl
/-- where the guard is true, `x` is an array -/
private theorem guardX_true (d : Val) {a : Val} (h : ieval d gxNode d [] = .ok a) (ht : isTrue a = true) :
    ∃ t xs, field (bs "x") d = .arr t xs := by
  simp only [gxNode, ieval, ievalList, Res.ok_bind, Res.pure_eq] at h
  cases hf : field (bs "x") d with
  | arr t xs => exact ⟨t, xs, rfl⟩
  | _ => rw [hf] at h; first | (cases h; exact absurd ht (by decide +kernel)) | cases h
/-- `x[*].a` -/
private def starXA : PTree := .star (idt "x") (.dotId .icur (idt "a"))
/-- its node -/
private theorem erase_starXA : erase starXA = .projectArray (.field (bs "x")) (.field (bs "a")) := rfl

/-- **behind a guard the identity holds on EVERY document**: `type(x) == 'array' && x[*].a` /
    `type(x) == 'array' && map(&a, x)[*]` — the projection is evaluated only where `x` is an array; where it is not, both
    are `false`, although `x[*].a` alone would be null and `map(&a, x)[*]` alone a type error -/
example (d : Val) :
    AgreeS (search (bs "type(x) == 'array' && x[*].a") d) (search (bs "type(x) == 'array' && map(&a, x)[*]") d) :=
  closure_star_is_map cGuardX (L := idt "x") (ρ := .dotId .icur (idt "a")) rfl (by decide)
    (by decide +kernel) (by decide +kernel) (by decide +kernel) (by decide +kernel) d (by
      intro cur env hv v hL
      change Visits d (erase (cGuardX.fill starXA)) d [] (erase starXA) cur env at hv
      rw [erase_cGuardX] at hv
      obtain ⟨m, c1, e1, hc, hv'⟩ := hv.through (by rw [erase_starXA]; exact fun h => by cases h)
      rcases hc with ⟨rfl, hc1, he1⟩ | ⟨rfl, hc1, he1, a, ha, ht⟩
      · exfalso
        rw [hc1, he1] at hv'
        obtain ⟨m, c1, e1, hc, hv2⟩ := hv'.through (by rw [erase_starXA]; exact fun h => by cases h)
        obtain ⟨rfl | rfl, hc2, he2⟩ := hc
        · obtain ⟨m, c1, e1, hc, hv3⟩ := hv2.through (by rw [erase_starXA]; exact fun h => by cases h)
          obtain ⟨hm, -, -⟩ := hc
          rw [List.mem_singleton.mp hm] at hv3
          have := visits_field hv3
          rw [erase_starXA] at this
          cases this
        · have := (hv2.leaf (n := .lit _) (fun _ _ _ h => h)).1
          rw [erase_starXA] at this
          cases this
      · obtain ⟨hc, -⟩ := hv'.self
        rw [hc, hc1, ieval_x] at hL
        cases hL
        exact guardX_true d ha ht)

/-- **`length([a, b])` / `length([[a], [b]][])`** agree on every document whose `a` and `b` are not null -/
example (d : Val) (ha : (field (bs "a") d).isNull = false) (hb : (field (bs "b") d).isNull = false) :
    AgreeS (search (bs "length([a, b])") d) (search (bs "length([[a], [b]][])") d) :=
  closure_multiselect_concat cLen (es := [idt "a", idt "b"]) (by simp)
    (by decide +kernel) (by decide +kernel) (by decide +kernel) (by decide +kernel) d (by
      intro cur env hv vs hvs v hm
      rw [erase_cLen] at hv
      obtain ⟨hc, -⟩ := visits_call1 hv
      rw [hc] at hvs
      have : ievalList d (eraseL [idt "a", idt "b"]) d env = .ok [field (bs "a") d, field (bs "b") d] := rfl
      rw [this] at hvs
      cases hvs
      simp only [List.mem_cons, List.not_mem_nil, or_false] at hm
      rcases hm with rfl | rfl
      · exact ha
      · exact hb)

/-- at the top level: `[a, b]` and `[[a], [b]][]` are the same query on such documents … -/
example (d : Val) (ha : (field (bs "a") d).isNull = false) (hb : (field (bs "b") d).isNull = false) :
    search (bs "[a, b]") d = search (bs "[[a], [b]][]") d :=
  multiselect_flatten_text (es := [idt "a", idt "b"]) (by simp) (by decide) (by decide) (by decide) (by decide) d (by
    intro vs hvs v hm
    have : ievalList d (eraseL [idt "a", idt "b"]) d [] = .ok [field (bs "a") d, field (bs "b") d] := rfl
    rw [this] at hvs
    cases hvs
    simp only [List.mem_cons, List.not_mem_nil, or_false] at hm
    rcases hm with rfl | rfl
    · exact ha
    · exact hb)

/-- … **and not where a member is null**: on `{"a": null, "b": 1}` the multi-select is `[null, 1]`, the flattened single
    selections are `[1]` — `[]` drops the nulls of the lists it merges (Go: `[null,1]` and `[1]`) -/
theorem multiselect_flatten_null :
    search (bs "[a, b]") (.obj [(bs "a", .null), (bs "b", .num (.jnum (bs "1")))]) =
      .ok (.arr .plain [.null, .num (.jnum (bs "1"))]) ∧
    search (bs "[[a], [b]][]") (.obj [(bs "a", .null), (bs "b", .num (.jnum (bs "1")))]) =
      .ok (.arr .plain [.num (.jnum (bs "1"))]) := by
  refine ⟨?_, ?_⟩
  · rw [(text (t := .multiList [idt "a", idt "b"]) (by decide) (by decide)).2]; rfl
  · rw [(text (t := concatTree [idt "a", idt "b"]) (by decide) (by decide)).2]; rfl
end Examples

/-! ## 1b. Leading projections; a left operand that is never a string -/

/-- the same for a LEADING projection — `[*]ρF`, `*ρF`, `[]ρF`, `[?c]ρF`, `[a:b:c]ρF` with the implicit current node as
    left operand — against `⟨o⟩ρ | [*]F`, inside any context, per run: for a slice opener the current value itself must
    not slice to a string wherever the sub-expression is evaluated -/
theorem closure_projection_follower0_run (C : Ctx) (o : Opener) (F : Follower)
    {ρ : PTree} (hρ : Rhs ρ) (hfit : F.Fits ρ) {op : Token} (hop : op.type = .pipe)
    (h1 : WellPrec (C.fill (o.mk .icur (F.app ρ))))
    (h2 : WellPrec (C.fill (.bin op (o.mk .icur ρ) (.star .icur (F.ext .icur))))) {e1 e2 : Bytes}
    (hl1 : Lexes e1 (Grammar.flatten (C.fill (o.mk .icur (F.app ρ)))))
    (hl2 : Lexes e2 (Grammar.flatten (C.fill (.bin op (o.mk .icur ρ) (.star .icur (F.ext .icur)))))) (d : Val)
    (hrun : ∀ cur env, Visits d (erase (C.fill (o.mk .icur (F.app ρ)))) d [] (erase (o.mk .icur (F.app ρ))) cur env →
      F.NullOK d env ∧ o.noStr cur) :
    AgreeS (search e1 d) (search e2 d) := by
  refine agreeS_fill C h1 h2 hl1 hl2 (context_closure_run_text C h1 h2 (Opener.mk_not_icur o _ _) rfl hl1 hl2 d
    (fun cur env => F.NullOK d env ∧ o.noStr cur) ?_ hrun)
  intro cur env hG
  rw [erase_bin, hop, erase_star_follower]
  show Agree _ (ieval d (.pipe _ _) cur env)
  rw [dot_is_pipe, Opener.ieval_mk_icur, Opener.ieval_mk_icur, ← dot_is_pipe,
    Opener.erase_mk o atCur_not_icur (F.app_not_icur ρ), Opener.erase_mk o atCur_not_icur hρ.not_icur]
  exact follower_node o F (L := atCur) hρ hfit d cur env hG.1 (fun v hv => by
    rw [erase_atCur] at hv
    simp only [ieval] at hv
    cases hv
    exact hG.2)

/-- **a leading projection against its unprojected form piped into `[*]`**: `C[⟨o⟩ρ]` against `C[⟨o⟩ | [*]ρ]`
    (`[0:2].a` / `[0:2] | [*].a`, `[?c].a` / `[?c] | [*].a`, …), inside any context, per run -/
theorem closure_unfused0_run (C : Ctx) (o : Opener) {ρ : PTree} (hρi : ρ.isIcur = false)
    {op : Token} (hop : op.type = .pipe)
    (h1 : WellPrec (C.fill (o.mk .icur ρ))) (h2 : WellPrec (C.fill (.bin op (o.mk .icur .icur) (.star .icur ρ))))
    {e1 e2 : Bytes} (hl1 : Lexes e1 (Grammar.flatten (C.fill (o.mk .icur ρ))))
    (hl2 : Lexes e2 (Grammar.flatten (C.fill (.bin op (o.mk .icur .icur) (.star .icur ρ))))) (d : Val)
    (hrun : ∀ cur env, Visits d (erase (C.fill (o.mk .icur ρ))) d [] (erase (o.mk .icur ρ)) cur env →
      ieval d (erase ρ) .null env = .ok .null ∧ o.noStr cur) :
    AgreeS (search e1 d) (search e2 d) := by
  refine agreeS_fill C h1 h2 hl1 hl2 (context_closure_run_text C h1 h2 (Opener.mk_not_icur o _ _) rfl hl1 hl2 d
    (fun cur env => ieval d (erase ρ) .null env = .ok .null ∧ o.noStr cur) ?_ hrun)
  intro cur env hG
  have he : erase (.star .icur ρ) = .projectArrayCurrent (erase ρ) := by
    simp only [erase, GrammarF0.optNode_icur, GrammarF0.optNode_of_ne hρi, starNode]
  rw [erase_bin, hop, he]
  show Agree _ (ieval d (.pipe _ _) cur env)
  rw [dot_is_pipe, Opener.ieval_mk_icur, Opener.ieval_mk_icur, ← dot_is_pipe,
    Opener.erase_mk o atCur_not_icur hρi, Opener.erase_mk0 o atCur_not_icur, erase_atCur]
  exact unfused_node o _ _ rfl d cur env hG.1 (fun v hv => by
    simp only [ieval] at hv
    cases hv
    exact hG.2)

/-- when the left operand can never be a string — whatever the current value and the bindings: a multi-select, a
    projection, a call of `sort`, `keys`, `to_array`, … — the run need not be inspected -/
theorem closure_unfused_always (C : Ctx) (o : Opener) {L ρ : PTree} (hLi : L.isIcur = false) (hρi : ρ.isIcur = false)
    (hρs : SelTree ρ) {op : Token} (hop : op.type = .pipe)
    (h1 : WellPrec (C.fill (o.mk L ρ))) (h2 : WellPrec (C.fill (.bin op (o.mk L .icur) (.star .icur ρ)))) {e1 e2 : Bytes}
    (hl1 : Lexes e1 (Grammar.flatten (C.fill (o.mk L ρ))))
    (hl2 : Lexes e2 (Grammar.flatten (C.fill (.bin op (o.mk L .icur) (.star .icur ρ))))) (d : Val)
    (hL : ∀ cur env v, ieval d (erase L) cur env = .ok v → v = .null ∨ ∃ t xs, v = .arr t xs) :
    AgreeS (search e1 d) (search e2 d) :=
  closure_unfused_arr C o hLi hρi hρs hop h1 h2 hl1 hl2 d fun cur env _ => hL cur env

section Examples
open Grammar.Ex
/-- `length([a, b][0:1].c)` / `length([a, b][0:1] | [*].c)`: a multi-select is an array or null — on every document -/
example (d : Val) : AgreeS (search (bs "length([a, b][0:1].c)") d) (search (bs "length([a, b][0:1] | [*].c)") d) :=
  closure_unfused_always cLen (.slice (some (int "0")) (some (int "1")) none) (L := .multiList [idt "a", idt "b"])
    (ρ := .dotId .icur (idt "c")) (op := op .pipe "|") rfl rfl (.dot0 (.ident _ rfl)) rfl
    (by decide +kernel) (by decide +kernel) (by decide +kernel) (by decide +kernel) d (by
      intro cur env v hv
      have he : erase (.multiList [idt "a", idt "b"]) = .selectArrayCurrent [.field (bs "a"), .field (bs "b")] := rfl
      rw [he] at hv
      simp only [ieval, ievalList, Res.ok_bind, Res.pure_eq] at hv
      split at hv
      · cases hv; exact Or.inl rfl
      · cases hv; exact Or.inr ⟨_, _, rfl⟩)
/-- a leading slice: `x[*].[[0:2].a]`-like — here `length([0:2].a)` / `length([0:2] | [*].a)` on every document that is
    not a string -/
example (d : Val) (hd : ∀ s, d ≠ .str s) :
    AgreeS (search (bs "length([0:2].a)") d) (search (bs "length([0:2] | [*].a)") d) :=
  closure_unfused0_run cLen (.slice (some (int "0")) (some (int "2")) none) (ρ := .dotId .icur (idt "a"))
    (op := op .pipe "|") rfl rfl (by decide +kernel) (by decide +kernel) (by decide +kernel) (by decide +kernel) d (by
      intro cur env hv
      rw [erase_cLen] at hv
      obtain ⟨hc, -⟩ := visits_call1 hv
      rw [hc]
      exact ⟨rfl, Opener.noStr_of_not_str _ hd⟩)
end Examples

section Examples
open Grammar.Ex
/-- **`length(foo[0:2].bar[0])` / `length(foo[0:2].bar | [*][0])`**: a slice projection followed by an index, inside a
    call, on every document whose `foo` is not a string -/
example (d : Val) (hd : ∀ s, field (bs "foo") d ≠ .str s) :
    AgreeS (search (bs "length(foo[0:2].bar[0])") d) (search (bs "length(foo[0:2].bar | [*][0])") d) :=
  closure_projection_follower_strict cLen sl02 (.index (int "0")) trivial (L := idt "foo") (ρ := rbar)
    (op := op .pipe "|") rfl (rhs_dot1 ⟨by decide, by decide, by decide⟩) (Or.inr ⟨_, _, rfl, by decide, by decide⟩) rfl
    (by decide +kernel) (by decide +kernel) (by decide +kernel) (by decide +kernel) d (by
      intro cur env hv v hL
      rw [erase_cLen] at hv
      obtain ⟨hc, -⟩ := visits_call1 hv
      rw [hc, ieval_foo] at hL
      cases hL
      exact Opener.noStr_of_not_str _ hd)
/-- a leading slice projection followed by an index: `length([0:2].a[0])` / `length([0:2].a | [*][0])` -/
example (d : Val) (hd : ∀ s, d ≠ .str s) :
    AgreeS (search (bs "length([0:2].a[0])") d) (search (bs "length([0:2].a | [*][0])") d) :=
  closure_projection_follower0_run cLen sl02 (.index (int "0")) (ρ := .dotId .icur (idt "a"))
    (op := op .pipe "|") (rhs_dot1 ⟨by decide, by decide, by decide⟩) (Or.inr ⟨_, _, rfl, by decide, by decide⟩) rfl
    (by decide +kernel) (by decide +kernel) (by decide +kernel) (by decide +kernel) d (by
      intro cur env hv
      rw [erase_cLen] at hv
      obtain ⟨hc, -⟩ := visits_call1 hv
      rw [hc]
      exact ⟨Follower.nullOK_of_not_sel _ (fun _ h => by cases h) _ _, Opener.noStr_of_not_str _ hd⟩)
end Examples

end Jmes.C17E
