/-
  Property C14 — representation independence of numbers.

  "For every document and expression, replacing each number by another Go representation of the same
  mathematical value (json.Number, int, int8..int64, uint..uint64, float32/float64 when the value is exactly
  representable, decimal) leaves every result equal in value, as long as all intermediate values are exactly
  representable in each representation.  Comparisons, equality, sorting, truthiness, type() and integer-argument
  coercion treat all of them alike."

  Contents
   1. `Num.SameValue` (Jmes/Proofs/Repr.lean) and `Val.Equiv`: a partial equivalence relation, reflexive on the
      values all of whose numbers convert to a decimal other than NaN (`Val.Valued`).
   2. representation lemmas: every Go kind holding an integer `v` converts to a decimal of value `v`.
   3. the observers `equal`, `<`/`<=`/`>`/`>=`, `isTrue`, `type()`, `isNumber`, `intArg` depend on the value only.
   4. arithmetic (see below).
   5. `sort`, `max`, `min`.
   6. the recorded deviations: `to_string` prints the spelling; `float64(2^63)` as an integer argument.
-/
import Jmes.Proofs.Repr
namespace Jmes

/-! ## 1. equivalence of values up to the representation of numbers -/

mutual
/-- same shape, same strings / booleans / array tags / keys, numbers of the same value -/
def Val.Equiv : Val → Val → Prop
  | .null, .null => True
  | .bool a, .bool b => a = b
  | .str a, .str b => a = b
  | .num a, .num b => Num.SameValue a b
  | .arr t xs, .arr u ys => t = u ∧ Val.EquivL xs ys
  | .obj xs, .obj ys => Val.EquivF xs ys
  | .foreign a, .foreign b => a = b
  | _, _ => False
def Val.EquivL : List Val → List Val → Prop
  | [], [] => True
  | x :: xs, y :: ys => Val.Equiv x y ∧ Val.EquivL xs ys
  | _, _ => False
def Val.EquivF : List (Bytes × Val) → List (Bytes × Val) → Prop
  | [], [] => True
  | (k, x) :: xs, (l, y) :: ys => k = l ∧ Val.Equiv x y ∧ Val.EquivF xs ys
  | _, _ => False
end

mutual
/-- every number in the value converts to a decimal other than NaN -/
def Val.Valued : Val → Prop
  | .num a => a.Valued
  | .arr _ xs => Val.ValuedL xs
  | .obj kvs => Val.ValuedF kvs
  | _ => True
def Val.ValuedL : List Val → Prop
  | [] => True
  | x :: xs => Val.Valued x ∧ Val.ValuedL xs
def Val.ValuedF : List (Bytes × Val) → Prop
  | [] => True
  | (_, x) :: kvs => Val.Valued x ∧ Val.ValuedF kvs
end

namespace C14

deriving instance DecidableEq for Res

/-! ### reflexivity (on valued values), symmetry, transitivity -/

mutual
theorem equiv_refl : ∀ (x : Val), x.Valued → Val.Equiv x x
  | .null, _ => by simp [Val.Equiv]
  | .bool _, _ => by simp [Val.Equiv]
  | .str _, _ => by simp [Val.Equiv]
  | .num a, h => by simp only [Val.Equiv]; exact Num.SameValue.refl h
  | .arr t xs, h => by simp only [Val.Equiv, true_and]; exact equivL_refl xs h
  | .obj kvs, h => by simp only [Val.Equiv]; exact equivF_refl kvs h
  | .foreign _, _ => by simp [Val.Equiv]
theorem equivL_refl : ∀ (xs : List Val), Val.ValuedL xs → Val.EquivL xs xs
  | [], _ => by simp [Val.EquivL]
  | x :: xs, h => by
    simp only [Val.ValuedL] at h
    simp only [Val.EquivL]; exact ⟨equiv_refl x h.1, equivL_refl xs h.2⟩
theorem equivF_refl : ∀ (kvs : List (Bytes × Val)), Val.ValuedF kvs → Val.EquivF kvs kvs
  | [], _ => by simp [Val.EquivF]
  | (k, x) :: kvs, h => by
    simp only [Val.ValuedF] at h
    simp only [Val.EquivF, true_and]; exact ⟨equiv_refl x h.1, equivF_refl kvs h.2⟩
end

mutual
/-- conversely, whatever is related to something is valued: `Equiv` is a partial equivalence whose domain is
    `Valued` -/
theorem equiv_valued : ∀ (x y : Val), Val.Equiv x y → x.Valued
  | .null, _, _ => by simp [Val.Valued]
  | .bool _, _, _ => by simp [Val.Valued]
  | .str _, _, _ => by simp [Val.Valued]
  | .num a, y, h => by
    cases y <;> simp only [Val.Equiv] at h
    simp only [Val.Valued]; exact h.valued_left
  | .arr t xs, y, h => by
    cases y <;> simp only [Val.Equiv] at h
    simp only [Val.Valued]; exact equivL_valued xs _ h.2
  | .obj kvs, y, h => by
    cases y <;> simp only [Val.Equiv] at h
    simp only [Val.Valued]; exact equivF_valued kvs _ h
  | .foreign _, _, _ => by simp [Val.Valued]
theorem equivL_valued : ∀ (xs ys : List Val), Val.EquivL xs ys → Val.ValuedL xs
  | [], _, _ => by simp [Val.ValuedL]
  | x :: xs, ys, h => by
    cases ys <;> simp only [Val.EquivL] at h
    simp only [Val.ValuedL]; exact ⟨equiv_valued x _ h.1, equivL_valued xs _ h.2⟩
theorem equivF_valued : ∀ (xs ys : List (Bytes × Val)), Val.EquivF xs ys → Val.ValuedF xs
  | [], _, _ => by simp [Val.ValuedF]
  | (k, x) :: xs, ys, h => by
    cases ys with
    | nil => simp only [Val.EquivF] at h
    | cons p ys =>
      obtain ⟨l, y⟩ := p
      simp only [Val.EquivF] at h
      simp only [Val.ValuedF]; exact ⟨equiv_valued x _ h.2.1, equivF_valued xs _ h.2.2⟩
end

mutual
theorem equiv_symm : ∀ (x y : Val), Val.Equiv x y → Val.Equiv y x
  | .null, y, h => by cases y <;> simp_all [Val.Equiv]
  | .bool _, y, h => by cases y <;> simp_all [Val.Equiv]
  | .str _, y, h => by cases y <;> simp_all [Val.Equiv]
  | .num a, y, h => by
    cases y <;> simp only [Val.Equiv] at h ⊢
    exact h.symm
  | .arr t xs, y, h => by
    cases y <;> simp only [Val.Equiv] at h ⊢
    exact ⟨h.1.symm, equivL_symm xs _ h.2⟩
  | .obj kvs, y, h => by
    cases y <;> simp only [Val.Equiv] at h ⊢
    exact equivF_symm kvs _ h
  | .foreign _, y, h => by cases y <;> simp_all [Val.Equiv]
theorem equivL_symm : ∀ (xs ys : List Val), Val.EquivL xs ys → Val.EquivL ys xs
  | [], ys, h => by cases ys <;> simp_all [Val.EquivL]
  | x :: xs, ys, h => by
    cases ys <;> simp only [Val.EquivL] at h ⊢
    exact ⟨equiv_symm x _ h.1, equivL_symm xs _ h.2⟩
theorem equivF_symm : ∀ (xs ys : List (Bytes × Val)), Val.EquivF xs ys → Val.EquivF ys xs
  | [], ys, h => by cases ys <;> simp_all [Val.EquivF]
  | (k, x) :: xs, ys, h => by
    cases ys with
    | nil => simp only [Val.EquivF] at h
    | cons p ys =>
      obtain ⟨l, y⟩ := p
      simp only [Val.EquivF] at h ⊢
      exact ⟨h.1.symm, equiv_symm x _ h.2.1, equivF_symm xs _ h.2.2⟩
end

mutual
theorem equiv_trans : ∀ (x y z : Val), Val.Equiv x y → Val.Equiv y z → Val.Equiv x z
  | .null, y, z, h1, h2 => by cases y <;> cases z <;> simp_all [Val.Equiv]
  | .bool _, y, z, h1, h2 => by cases y <;> cases z <;> simp_all [Val.Equiv]
  | .str _, y, z, h1, h2 => by cases y <;> cases z <;> simp_all [Val.Equiv]
  | .num a, y, z, h1, h2 => by
    cases y <;> simp only [Val.Equiv] at h1
    cases z <;> simp only [Val.Equiv] at h2 ⊢
    exact h1.trans h2
  | .arr t xs, y, z, h1, h2 => by
    cases y <;> simp only [Val.Equiv] at h1
    cases z <;> simp only [Val.Equiv] at h2 ⊢
    exact ⟨h1.1.trans h2.1, equivL_trans xs _ _ h1.2 h2.2⟩
  | .obj kvs, y, z, h1, h2 => by
    cases y <;> simp only [Val.Equiv] at h1
    cases z <;> simp only [Val.Equiv] at h2 ⊢
    exact equivF_trans kvs _ _ h1 h2
  | .foreign _, y, z, h1, h2 => by cases y <;> cases z <;> simp_all [Val.Equiv]
theorem equivL_trans : ∀ (xs ys zs : List Val), Val.EquivL xs ys → Val.EquivL ys zs → Val.EquivL xs zs
  | [], ys, zs, h1, h2 => by cases ys <;> cases zs <;> simp_all [Val.EquivL]
  | x :: xs, ys, zs, h1, h2 => by
    cases ys <;> simp only [Val.EquivL] at h1
    cases zs <;> simp only [Val.EquivL] at h2 ⊢
    exact ⟨equiv_trans x _ _ h1.1 h2.1, equivL_trans xs _ _ h1.2 h2.2⟩
theorem equivF_trans : ∀ (xs ys zs : List (Bytes × Val)), Val.EquivF xs ys → Val.EquivF ys zs → Val.EquivF xs zs
  | [], ys, zs, h1, h2 => by cases ys <;> cases zs <;> simp_all [Val.EquivF]
  | (k, x) :: xs, ys, zs, h1, h2 => by
    cases ys with
    | nil => simp only [Val.EquivF] at h1
    | cons p ys =>
      obtain ⟨l, y⟩ := p
      cases zs with
      | nil => simp only [Val.EquivF] at h2
      | cons q zs =>
        obtain ⟨m, z⟩ := q
        simp only [Val.EquivF] at h1 h2 ⊢
        exact ⟨h1.1.trans h2.1, equiv_trans x _ _ h1.2.1 h2.2.1, equivF_trans xs _ _ h1.2.2 h2.2.2⟩
end

/-- `Equiv` is an equivalence relation on the valued values -/
theorem equiv_equivalence :
    (∀ x : Val, x.Valued → Val.Equiv x x) ∧ (∀ x y, Val.Equiv x y → Val.Equiv y x) ∧
    (∀ x y z, Val.Equiv x y → Val.Equiv y z → Val.Equiv x z) ∧ (∀ x y, Val.Equiv x y → x.Valued ∧ y.Valued) :=
  ⟨equiv_refl, equiv_symm, equiv_trans, fun x y h => ⟨equiv_valued x y h, equiv_valued y x (equiv_symm x y h)⟩⟩

-- `[1.50 (json.Number), "a"]` and `[1.5 (decimal), "a"]`
example : Val.Equiv (.arr .plain [.num (.jnum [0x31, 0x2E, 0x35, 0x30]), .str [0x61]])
    (.arr .plain [.num (.dec (.fin false 15 (-1))), .str [0x61]]) := by
  simp only [Val.Equiv, Val.EquivL, Num.SameValue, and_true, true_and]
  exact ⟨.fin false 15 (-1), .fin false 15 (-1), by decide, rfl, by decide⟩

/-! ## 3. the observers are functions of the value -/

/-- equivalent values are both numbers (with decimals of equal value) or both not numbers -/
theorem toDecimal_equiv {x x' : Val} (h : Val.Equiv x x') :
    (toDecimal x = none ∧ toDecimal x' = none) ∨
    ∃ d d', toDecimal x = some d ∧ toDecimal x' = some d' ∧ Dec.cmp d d' = some 0 := by
  cases x <;> cases x' <;> simp only [Val.Equiv] at h <;> try (exact .inl ⟨rfl, rfl⟩)
  exact .inr h

theorem equivL_length : ∀ {xs ys : List Val}, Val.EquivL xs ys → xs.length = ys.length
  | [], [], _ => rfl
  | [], _ :: _, h => by simp [Val.EquivL] at h
  | _ :: _, [], h => by simp [Val.EquivL] at h
  | _ :: xs, _ :: ys, h => by
    simp only [Val.EquivL] at h
    simp [equivL_length h.2]

theorem equivF_length : ∀ {xs ys : List (Bytes × Val)}, Val.EquivF xs ys → xs.length = ys.length
  | [], [], _ => rfl
  | [], _ :: _, h => by simp [Val.EquivF] at h
  | _ :: _, [], h => by simp [Val.EquivF] at h
  | (_, _) :: xs, (_, _) :: ys, h => by
    simp only [Val.EquivF] at h
    simp [equivF_length h.2.2]

theorem objLookup_equiv (k : Bytes) : ∀ {ys ys' : List (Bytes × Val)}, Val.EquivF ys ys' →
    (objLookup k ys = none ∧ objLookup k ys' = none) ∨
    ∃ y y', objLookup k ys = some y ∧ objLookup k ys' = some y' ∧ Val.Equiv y y'
  | [], [], _ => .inl ⟨rfl, rfl⟩
  | [], _ :: _, h => by simp [Val.EquivF] at h
  | _ :: _, [], h => by simp [Val.EquivF] at h
  | (l, y) :: ys, (l', y') :: ys', h => by
    simp only [Val.EquivF] at h
    obtain ⟨rfl, hy, hr⟩ := h
    simp only [objLookup]
    by_cases hk : k = l
    · simp only [hk, if_true]; exact .inr ⟨y, y', rfl, rfl, hy⟩
    · simp only [hk, if_false]; exact objLookup_equiv k hr

theorem isNull_equiv {y y' : Val} (h : Val.Equiv y y') : y.isNull = y'.isNull := by
  cases y <;> cases y' <;> simp only [Val.Equiv] at h <;> rfl

mutual
/-- **`==` depends on the values only** -/
theorem equal_congr : ∀ (x x' y y' : Val), Val.Equiv x x' → Val.Equiv y y' → equal x y = equal x' y'
  | .null, x', y, y', hx, hy => by
    cases x' <;> simp only [Val.Equiv] at hx
    simp only [equal]; exact isNull_equiv hy
  | .bool a, x', y, y', hx, hy => by
    cases x' <;> simp only [Val.Equiv] at hx
    subst hx
    cases y <;> cases y' <;> simp only [Val.Equiv] at hy <;> simp only [equal]
    rw [hy]
  | .str a, x', y, y', hx, hy => by
    cases x' <;> simp only [Val.Equiv] at hx
    subst hx
    cases y <;> cases y' <;> simp only [Val.Equiv] at hy <;> simp only [equal]
    rw [hy]
  | .num a, x', y, y', hx, hy => by
    cases x' <;> simp only [Val.Equiv] at hx
    obtain ⟨da, da', h1, h2, h3⟩ := hx
    simp only [equal, h1, h2]
    rcases toDecimal_equiv hy with ⟨e1, e2⟩ | ⟨d, d', e1, e2, e3⟩
    · simp only [e1, e2]
    · simp only [e1, e2]; exact Dec.equal_congr h3 e3
  | .arr t xs, x', y, y', hx, hy => by
    cases x' <;> simp only [Val.Equiv] at hx
    cases y <;> cases y' <;> simp only [Val.Equiv] at hy <;> simp only [equal]
    exact equalL_congr xs _ _ _ hx.2 hy.2
  | .obj kvs, x', y, y', hx, hy => by
    cases x' <;> simp only [Val.Equiv] at hx
    cases y <;> cases y' <;> simp only [Val.Equiv] at hy <;> simp only [equal]
    rw [equivF_length hx, equivF_length hy, equalF_congr kvs _ _ _ hx hy]
  | .foreign _, x', y, y', hx, hy => by
    cases x' <;> simp only [Val.Equiv] at hx
    simp only [equal]
theorem equalL_congr : ∀ (xs xs' ys ys' : List Val), Val.EquivL xs xs' → Val.EquivL ys ys' →
    equalL xs ys = equalL xs' ys'
  | [], xs', ys, ys', hx, hy => by
    cases xs' <;> simp only [Val.EquivL] at hx
    cases ys <;> cases ys' <;> simp only [Val.EquivL] at hy <;> simp only [equalL]
  | x :: xs, xs', ys, ys', hx, hy => by
    cases xs' <;> simp only [Val.EquivL] at hx
    cases ys <;> cases ys' <;> simp only [Val.EquivL] at hy <;> simp only [equalL]
    rw [equal_congr x _ _ _ hx.1 hy.1, equalL_congr xs _ _ _ hx.2 hy.2]
theorem equalF_congr : ∀ (xs xs' ys ys' : List (Bytes × Val)), Val.EquivF xs xs' → Val.EquivF ys ys' →
    equalF xs ys = equalF xs' ys'
  | [], xs', ys, ys', hx, hy => by
    cases xs' <;> simp only [Val.EquivF] at hx
    simp only [equalF]
  | (k, x) :: xs, xs', ys, ys', hx, hy => by
    cases xs' with
    | nil => simp only [Val.EquivF] at hx
    | cons p xs' =>
      obtain ⟨k', x'⟩ := p
      simp only [Val.EquivF] at hx
      obtain ⟨rfl, hx1, hx2⟩ := hx
      simp only [equalF]
      rw [equalF_congr xs _ _ _ hx2 hy]
      rcases objLookup_equiv k hy with ⟨e1, e2⟩ | ⟨y, y', e1, e2, e3⟩
      · simp only [e1, e2]
      · simp only [e1, e2]; rw [equal_congr x _ _ _ hx1 e3]
end

example : equal (.num (.int .u8 3)) (.num (.dec (.fin false 30 (-1)))) = true := by decide

/-- the four ordering operators: any comparison of decimals that respects value-equality -/
theorem cmpOp_congr (f : Dec → Dec → Bool)
    (hf : ∀ a a' b b', Dec.cmp a a' = some 0 → Dec.cmp b b' = some 0 → f a b = f a' b')
    {x x' y y' : Val} (hx : Val.Equiv x x') (hy : Val.Equiv y y') : cmpOp f x y = cmpOp f x' y' := by
  unfold cmpOp
  rcases toDecimal_equiv hx with ⟨e1, e2⟩ | ⟨d, d', e1, e2, e3⟩
  · simp only [e1, e2]
  · rcases toDecimal_equiv hy with ⟨g1, g2⟩ | ⟨c, c', g1, g2, g3⟩
    · simp only [e1, e2, g1, g2]
    · simp only [e1, e2, g1, g2]; rw [hf _ _ _ _ e3 g3]

theorem less_congr {x x' y y' : Val} (hx : Val.Equiv x x') (hy : Val.Equiv y y') : less x y = less x' y' :=
  cmpOp_congr _ (fun _ _ _ _ => Dec.less_congr) hx hy
theorem lessOrEqual_congr {x x' y y' : Val} (hx : Val.Equiv x x') (hy : Val.Equiv y y') :
    lessOrEqual x y = lessOrEqual x' y' := cmpOp_congr _ (fun _ _ _ _ => Dec.lessEq_congr) hx hy
theorem greater_congr {x x' y y' : Val} (hx : Val.Equiv x x') (hy : Val.Equiv y y') : greater x y = greater x' y' :=
  cmpOp_congr _ (fun _ _ _ _ => Dec.greater_congr) hx hy
theorem greaterOrEqual_congr {x x' y y' : Val} (hx : Val.Equiv x x') (hy : Val.Equiv y y') :
    greaterOrEqual x y = greaterOrEqual x' y' := cmpOp_congr _ (fun _ _ _ _ => Dec.greaterEq_congr) hx hy

example : (less (.num (.int .i8 (-3))) (.num (.jnum [0x2D, 0x32, 0x2E, 0x35]))).same (.bool true) = true := by decide

/-- a `json.Number` that converts to a decimal is not the empty text -/
theorem isTrue_valued {a : Num} (h : a.Valued) : isTrue (.num a) = true := by
  cases a with
  | jnum t =>
    obtain ⟨d, h1, _⟩ := h
    cases t with
    | nil => simp [toDecimal, Dec.parse] at h1
    | cons b t => simp [isTrue]
  | _ => rfl

/-- **truthiness** -/
theorem isTrue_congr {x x' : Val} (h : Val.Equiv x x') : isTrue x = isTrue x' := by
  cases x <;> cases x' <;> simp only [Val.Equiv] at h
  · rfl
  · rw [h]
  · rw [h]
  · rw [isTrue_valued h.valued_left, isTrue_valued h.valued_right]
  · next t xs u ys =>
    have := equivL_length h.2
    cases xs <;> cases ys <;> simp at this <;> simp [isTrue]
  · next xs ys =>
    have := equivF_length h
    cases xs <;> cases ys <;> simp at this <;> simp [isTrue]
  · rfl

/-- the empty `json.Number` is the one falsy number: it is excluded by `Valued` (it is not a number for
    `toDecimal`) -/
example : isTrue (.num (.jnum [])) = false ∧ ¬ (Num.jnum []).Valued := by
  refine ⟨rfl, ?_⟩
  rintro ⟨d, h, _⟩
  simp [toDecimal, Dec.parse] at h

/-- **`type()`** -/
theorem typeName_congr {x x' : Val} (h : Val.Equiv x x') : typeName x = typeName x' := by
  cases x <;> cases x' <;> simp only [Val.Equiv] at h <;> rfl

theorem isNumber_congr {x x' : Val} (h : Val.Equiv x x') : isNumber x = isNumber x' := by
  cases x <;> cases x' <;> simp only [Val.Equiv] at h <;> rfl

/-! ### integer-argument coercion -/

/-- `intArg` of a number is a function of its decimal -/
theorem intArg_num {a : Num} {d : Dec} (hg : a.Good) (h : toDecimal (.num a) = some d) :
    intArg (.num a) = match decToInt d with | .int i => .ok i | _ => errValue := by
  unfold intArg
  rw [toInt_eq_decToInt hg h, h]
  rcases Dec.decToInt_cases d with e | ⟨i, e⟩ <;> simp only [e]

/-- **integer-argument coercion treats all representations alike**: two well-formed numbers of the same value
    are both accepted as the same integer, or both rejected with the same error -/
theorem intArg_sameValue {a b : Num} (ha : a.Good) (hb : b.Good) (h : Num.SameValue a b) :
    intArg (.num a) = intArg (.num b) := by
  obtain ⟨da, db, h1, h2, h3⟩ := h
  rw [intArg_num ha h1, intArg_num hb h2,
    Dec.decToInt_congr (toDecimal_bounded ha h1) (toDecimal_bounded hb h2) h3]

theorem toInt_sameValue {a b : Num} (ha : a.Good) (hb : b.Good) (h : Num.SameValue a b) :
    toInt (.num a) = toInt (.num b) := by
  obtain ⟨da, db, h1, h2, h3⟩ := h
  rw [toInt_eq_decToInt ha h1, toInt_eq_decToInt hb h2,
    Dec.decToInt_congr (toDecimal_bounded ha h1) (toDecimal_bounded hb h2) h3]

/-- …for arbitrary equivalent values (non-numbers are rejected alike) -/
theorem intArg_congr {x x' : Val} (h : Val.Equiv x x') (hx : ∀ a, x = .num a → a.Good) (hx' : ∀ a, x' = .num a → a.Good) :
    intArg x = intArg x' := by
  cases x <;> cases x' <;> simp only [Val.Equiv] at h <;> try rfl
  exact intArg_sameValue (hx _ rfl) (hx' _ rfl) h

-- 7 as uint8, json.Number "7", "+7", "7.0", "0.7e1", decimal 70e-1, float64 7: all the integer 7
example : intArg (.num (.int .u8 7)) = .ok 7 ∧ intArg (.num (.jnum [0x37])) = .ok 7 ∧
    intArg (.num (.jnum [0x2B, 0x37])) = .ok 7 ∧ intArg (.num (.jnum [0x37, 0x2E, 0x30])) = .ok 7 ∧
    intArg (.num (.jnum [0x30, 0x2E, 0x37, 0x65, 0x31])) = .ok 7 ∧
    intArg (.num (.dec (.fin false 70 (-1)))) = .ok 7 ∧ intArg (.num (.f64 (.fin false 7 0))) = .ok 7 := by decide
-- 2^63 as uint64, json.Number, decimal: all "not an integer in range"
example : intArg (.num (.int .u64 (2 ^ 63))) = errValue ∧
    intArg (.num (.dec (.fin false (2 ^ 63) 0))) = errValue ∧
    intArg (.num (.jnum [0x39,0x32,0x32,0x33,0x33,0x37,0x32,0x30,0x33,0x36,0x38,0x35,0x34,0x37,0x37,0x35,0x38,0x30,0x38]))
      = errValue := by decide

/-- **Regression (FX27).**  `float64(2^63)` and `uint64(2^63)` hold the same value; before the repair the float was
    accepted as an integer argument (as `-2^63`: Go's float→int conversion on amd64, undefined by the language) while
    every other representation was rejected as "not an integer in range".  Now all representations are rejected.
    (`F64.Good` still excludes `2^63`; the exclusion is no longer needed for `intArg`.) -/
example : Num.SameValue (.f64 (.fin false 1 63)) (.int .u64 (2 ^ 63)) ∧
    intArg (.num (.f64 (.fin false 1 63))) = errValue ∧ intArg (.num (.int .u64 (2 ^ 63))) = errValue :=
  ⟨⟨_, _, rfl, rfl, by decide⟩, by decide, by decide⟩

/-! ## 2. representation lemmas: every Go kind holding the integer `v` converts to a decimal of value `v` -/

/-- the integer kinds -/
theorem toDecimal_int (k : IntKind) (v : Int) : toDecimal (.num (.int k v)) = some (Dec.ofInt v) := rfl

/-- `json.Number` with the canonical text of `v` -/
theorem toDecimal_jnum_int (v : Int) (hv : v.natAbs ≤ Dec.MAXSIG) :
    ∃ d, toDecimal (.num (.jnum (Json.intToBytes v))) = some d ∧ Dec.cmp (Dec.ofInt v) d = some 0 :=
  toDecimal_jnum_intToBytes v hv

/-- …more generally any text `strconv.ParseInt` accepts (optional sign, leading zeros allowed) -/
theorem toDecimal_jnum_parseInt {t : Bytes} {i : Int} (h : parseInt64 t = some i) :
    ∃ d, toDecimal (.num (.jnum t)) = some d ∧ Dec.cmp (Dec.ofInt i) d = some 0 := by
  obtain ⟨d, h1, _, h3⟩ := jnum_parseInt64 h
  exact ⟨d, by simp [toDecimal, h1], h3⟩

/-- `float64` / `float32` holding the integer `v` (`0 ≤ v < 2^53`, indeed any `v ≤ MAXSIG` the format can hold) -/
theorem toDecimal_f64_int (v : Nat) (hv : v < 2 ^ 53) :
    ∃ d, toDecimal (.num (.f64 (F64.mk false v 0))) = some d ∧ Dec.cmp (Dec.ofInt v) d = some 0 := by
  refine ⟨_, rfl, ?_⟩
  have := F64.toDec_mk_int false v (by have := F64.two53_le_MAXSIG; omega)
  simpa [Dec.intVal] using this

theorem toDecimal_f32_int (v : Nat) (hv : v < 2 ^ 24) :
    ∃ d, toDecimal (.num (.f32 (F64.mk false v 0))) = some d ∧ Dec.cmp (Dec.ofInt v) d = some 0 := by
  refine ⟨_, rfl, ?_⟩
  have := F64.toDec_mk_int false v (by have := F64.two53_le_MAXSIG; omega)
  simpa [Dec.intVal] using this

/-- a dyadic fraction `m·2^(-k)` held by a float is the decimal `m·5^k·10^(-k)` -/
theorem toDecimal_f64_dyadic (n : Bool) (m k : Nat) (hk : 0 < k) (hx : m * 5 ^ k ≤ Dec.MAXSIG) (hlo : k ≤ 6176) :
    ∃ d, toDecimal (.num (.f64 (.fin n m (-(k : Int))))) = some d ∧
      Dec.cmp d (.fin n (m * 5 ^ k) (-(k : Int))) = some 0 :=
  ⟨_, rfl, F64.toDec_dyadic n m k hk hx hlo⟩

/-- all the representations of one integer are `SameValue` -/
theorem sameValue_int_jnum (k : IntKind) (v : Int) (hv : v.natAbs ≤ Dec.MAXSIG) :
    Num.SameValue (.int k v) (.jnum (Json.intToBytes v)) := by
  obtain ⟨d, h1, h2⟩ := toDecimal_jnum_int v hv
  exact ⟨_, d, rfl, h1, h2⟩

theorem sameValue_int_f64 (k : IntKind) (v : Nat) (hv : v < 2 ^ 53) :
    Num.SameValue (.int k v) (.f64 (F64.mk false v 0)) := by
  obtain ⟨d, h1, h2⟩ := toDecimal_f64_int v hv
  exact ⟨_, d, rfl, h1, h2⟩

theorem sameValue_int_dec (k : IntKind) (v : Int) : Num.SameValue (.int k v) (.dec (Dec.ofInt v)) :=
  ⟨_, _, rfl, rfl, Dec.cmp_self (Dec.ofInt_ne_nan v)⟩

theorem sameValue_int_int (k k' : IntKind) (v : Int) : Num.SameValue (.int k v) (.int k' v) :=
  ⟨_, _, rfl, rfl, Dec.cmp_self (Dec.ofInt_ne_nan v)⟩

-- 300 as int16, uint64, json.Number "300", decimal 3e2, float64 75·2^2; 0.375 = 3·2^-3 = 375e-3
example : Num.SameValue (.int .i16 300) (.int .u64 300) ∧ Num.SameValue (.int .i16 300) (.jnum [0x33, 0x30, 0x30]) ∧
    Num.SameValue (.int .i16 300) (.dec (.fin false 3 2)) ∧ Num.SameValue (.int .i16 300) (.f64 (.fin false 75 2)) ∧
    Num.SameValue (.f64 (.fin false 3 (-3))) (.dec (.fin false 375 (-3))) :=
  ⟨sameValue_int_int _ _ _, ⟨_, .fin false 3 2, rfl, by decide, by decide⟩, ⟨_, _, rfl, rfl, by decide⟩,
   ⟨_, _, rfl, rfl, by decide⟩, ⟨_, _, rfl, rfl, by decide⟩⟩
example : F64.mk false 300 0 = .fin false 75 2 := by decide

/-! ## 4. arithmetic -/

/-- outcomes equal up to representation: the same error, or results of equal value -/
def ResEquiv (r r' : Res Val) : Prop :=
  (∃ c, r = .err c ∧ r' = .err c) ∨ (∃ v v', r = .ok v ∧ r' = .ok v' ∧ Val.Equiv v v')

theorem checkD_same {r r' : Dec} (h : Dec.Same r r') : ResEquiv (checkD r) (checkD r') := by
  rcases h with ⟨h1, h2⟩ | h
  · left
    refine ⟨[Cat.notANumber], ?_, ?_⟩
    · cases r <;> simp [Dec.isSpecial] at h1 <;> simp [checkD, errNaN, Dec.isInf, Dec.isNaN]
    · cases r' <;> simp [Dec.isSpecial] at h2 <;> simp [checkD, errNaN, Dec.isInf, Dec.isNaN]
  · cases r with
    | nan => simp [Dec.cmp_nan_left] at h
    | inf n =>
      have := Dec.isSpecial_of_cmp_zero_left h rfl
      subst this
      left; exact ⟨[Cat.notANumber], by simp [checkD, errNaN, Dec.isInf], by simp [checkD, errNaN, Dec.isInf]⟩
    | fin n c e =>
      obtain ⟨n', c', e', rfl⟩ := Dec.fin_of_cmp_zero_fin h
      right
      refine ⟨.num (.dec (.fin n c e)), .num (.dec (.fin n' c' e')), by simp [checkD, Dec.isInf, Dec.isNaN],
        by simp [checkD, Dec.isInf, Dec.isNaN], ?_⟩
      simp only [Val.Equiv]
      exact ⟨_, _, rfl, rfl, h⟩

/-- **the decimal path of the six arithmetic operators depends on the values only**: for two pairs of numbers of
    equal values, neither pair being a pair of floats, such that the exact result fits the format in both
    representations (`Fit`), both outcomes are the same error or results of equal value -/
theorem arith_decimal_congr (fop : F64 → F64 → F64) (dop : Dec → Dec → Dec) (Fit : Dec → Dec → Prop)
    (hd : ∀ {a a' b b' : Dec}, Dec.cmp a a' = some 0 → Dec.cmp b b' = some 0 → Fit a b → Fit a' b' →
      Dec.Same (dop a b) (dop a' b'))
    {a a' b b' : Num} (ha : Num.SameValue a a') (hb : Num.SameValue b b')
    (hnf : toFloatPair (.num a) (.num b) = none) (hnf' : toFloatPair (.num a') (.num b') = none)
    (hfit : ∀ da db, toDecimal (.num a) = some da → toDecimal (.num b) = some db → Fit da db)
    (hfit' : ∀ da db, toDecimal (.num a') = some da → toDecimal (.num b') = some db → Fit da db) :
    ResEquiv (arith fop dop (.num a) (.num b)) (arith fop dop (.num a') (.num b')) := by
  obtain ⟨da, da', h1, h2, h3⟩ := ha
  obtain ⟨db, db', g1, g2, g3⟩ := hb
  simp only [arith, hnf, hnf', h1, h2, g1, g2]
  exact checkD_same (hd h3 g3 (hfit _ _ h1 g1) (hfit' _ _ h2 g2))

section
variable {a a' b b' : Num} (ha : Num.SameValue a a') (hb : Num.SameValue b b')
  (hnf : toFloatPair (.num a) (.num b) = none) (hnf' : toFloatPair (.num a') (.num b') = none)
include ha hb hnf hnf'

theorem add_congr
    (hfit : ∀ da db, toDecimal (.num a) = some da → toDecimal (.num b) = some db → Dec.AddFits da db)
    (hfit' : ∀ da db, toDecimal (.num a') = some da → toDecimal (.num b') = some db → Dec.AddFits da db) :
    ResEquiv (add (.num a) (.num b)) (add (.num a') (.num b')) :=
  arith_decimal_congr _ _ Dec.AddFits Dec.add_congr ha hb hnf hnf' hfit hfit'

theorem subtract_congr
    (hfit : ∀ da db, toDecimal (.num a) = some da → toDecimal (.num b) = some db → Dec.AddFits da db.neg)
    (hfit' : ∀ da db, toDecimal (.num a') = some da → toDecimal (.num b') = some db → Dec.AddFits da db.neg) :
    ResEquiv (subtract (.num a) (.num b)) (subtract (.num a') (.num b')) :=
  arith_decimal_congr _ _ (fun x y => Dec.AddFits x y.neg) Dec.sub_congr ha hb hnf hnf' hfit hfit'

theorem multiply_congr
    (hfit : ∀ da db, toDecimal (.num a) = some da → toDecimal (.num b) = some db → Dec.MulFits da db)
    (hfit' : ∀ da db, toDecimal (.num a') = some da → toDecimal (.num b') = some db → Dec.MulFits da db) :
    ResEquiv (multiply (.num a) (.num b)) (multiply (.num a') (.num b')) :=
  arith_decimal_congr _ _ Dec.MulFits Dec.mul_congr ha hb hnf hnf' hfit hfit'

theorem divide_congr
    (hfit : ∀ da db, toDecimal (.num a) = some da → toDecimal (.num b) = some db → Dec.QuoFits da db)
    (hfit' : ∀ da db, toDecimal (.num a') = some da → toDecimal (.num b') = some db → Dec.QuoFits da db) :
    ResEquiv (divide (.num a) (.num b)) (divide (.num a') (.num b')) :=
  arith_decimal_congr _ _ Dec.QuoFits Dec.quo_congr ha hb hnf hnf' hfit hfit'

theorem integerDivide_congr
    (hfit : ∀ da db, toDecimal (.num a) = some da → toDecimal (.num b) = some db → Dec.IDivFits da db)
    (hfit' : ∀ da db, toDecimal (.num a') = some da → toDecimal (.num b') = some db → Dec.IDivFits da db) :
    ResEquiv (integerDivide (.num a) (.num b)) (integerDivide (.num a') (.num b')) :=
  arith_decimal_congr _ _ Dec.IDivFits Dec.idiv_congr ha hb hnf hnf' hfit hfit'

theorem modulo_congr
    (hfit : ∀ da db, toDecimal (.num a) = some da → toDecimal (.num b) = some db → Dec.ModFits da db)
    (hfit' : ∀ da db, toDecimal (.num a') = some da → toDecimal (.num b') = some db → Dec.ModFits da db) :
    ResEquiv (modulo (.num a) (.num b)) (modulo (.num a') (.num b')) :=
  arith_decimal_congr _ _ Dec.ModFits Dec.mod_congr ha hb hnf hnf' hfit hfit'
end

/-- a value with at most 34 significant digits and an exponent in range fits -/
theorem fits_of_lt {c : Nat} {e : Int} (hc : c ≤ Dec.MAXSIG) (hlo : Dec.EMIN ≤ e) (hhi : e ≤ Dec.EMAX) : Dec.Fits c e := by
  by_cases h0 : c = 0
  · exact .inl h0
  · exact .inr ⟨c, 0, by simp, h0, hc, by simpa using hlo, by simpa using hhi⟩

-- 1.50 (json.Number) + 2 (uint8)  vs  1.5 (decimal) + 2.0 (json.Number): both 3.5
example : (match add (.num (.jnum [0x31, 0x2E, 0x35, 0x30])) (.num (.int .u8 2)),
      add (.num (.dec (.fin false 15 (-1)))) (.num (.jnum [0x32, 0x2E, 0x30])) with
    | .ok (.num (.dec d)), .ok (.num (.dec d')) => Dec.cmp d d' == some 0 && Dec.cmp d (.fin false 35 (-1)) == some 0
    | _, _ => false) = true := by decide

-- the theorem applies to that pair (non-vacuity of the hypotheses)
example : ResEquiv (add (.num (.jnum [0x31, 0x2E, 0x35, 0x30])) (.num (.int .u8 2)))
    (add (.num (.dec (.fin false 15 (-1)))) (.num (.jnum [0x32, 0x2E, 0x30]))) := by
  have e1 : toDecimal (.num (.jnum [0x31, 0x2E, 0x35, 0x30])) = some (.fin false 15 (-1)) := by decide
  have e2 : toDecimal (.num (.jnum [0x32, 0x2E, 0x30])) = some (.fin false 2 0) := by decide
  have e3 : toDecimal (.num (.int .u8 2)) = some (.fin false 2 0) := by decide
  refine add_congr ⟨_, _, e1, rfl, by decide⟩ ⟨_, _, e3, e2, by decide⟩ rfl rfl ?_ ?_
  · intro da db h1 h2
    rw [e1] at h1; rw [e3] at h2; cases h1; cases h2
    exact fits_of_lt (by decide) (by decide) (by decide)
  · intro da db h1 h2
    rw [e2] at h2; cases h1; cases h2
    exact fits_of_lt (by decide) (by decide) (by decide)

/-! ### float pairs: the binary64 path is exact on small integers

  When both operands are floats the evaluator computes in binary64.  "As long as all intermediate values are exactly
  representable": for floats holding integers whose sum / difference / product fits in 53 bits (in particular
  `|a|, |b| < 2^26`), `F64.add`/`sub`/`mul` return the float holding the exact result (`F64.roundPos_exact`), whose
  decimal value is that of the decimal computation. -/

theorem float_add_exact (a b : Int) (h : (a + b).natAbs < 2 ^ 53) :
    add (.num (.f64 (F64.ofInt a))) (.num (.f64 (F64.ofInt b))) = .ok (.num (.f64 (F64.ofInt (a + b)))) := by
  simp only [add, arith, toFloatPair, toFloat, F64.add_ofInt a b h]
  unfold F64.ofInt F64.mk checkF
  split <;> simp [F64.isInf, F64.isNaN]

theorem float_sub_exact (a b : Int) (h : (a - b).natAbs < 2 ^ 53) :
    subtract (.num (.f64 (F64.ofInt a))) (.num (.f64 (F64.ofInt b))) = .ok (.num (.f64 (F64.ofInt (a - b)))) := by
  simp only [subtract, arith, toFloatPair, toFloat, F64.sub_ofInt a b h]
  unfold F64.ofInt F64.mk checkF
  split <;> simp [F64.isInf, F64.isNaN]

theorem float_mul_exact (a b : Int) (ha : a ≠ 0) (hb : b ≠ 0) (h : (a * b).natAbs < 2 ^ 53) :
    multiply (.num (.f64 (F64.ofInt a))) (.num (.f64 (F64.ofInt b))) = .ok (.num (.f64 (F64.ofInt (a * b)))) := by
  simp only [multiply, arith, toFloatPair, toFloat, F64.mul_ofInt a b ha hb h]
  unfold F64.ofInt F64.mk checkF
  split <;> simp [F64.isInf, F64.isNaN]

/-- the float results have the value of the exact integer results, i.e. of the decimal computation on any other
    representation of the same integers -/
theorem float_add_value (a b : Int) (h : (a + b).natAbs < 2 ^ 53) :
    Num.SameValue (.f64 (F64.ofInt (a + b))) (.int .i64 (a + b)) :=
  ⟨_, _, rfl, rfl, Dec.cmp_zero_symm (F64.toDec_ofInt _ (by have := F64.two53_le_MAXSIG; omega))⟩

theorem float_mul_value (a b : Int) (ha : a.natAbs < 2 ^ 26) (hb : b.natAbs < 2 ^ 26) :
    ∃ f, F64.mul (F64.ofInt a) (F64.ofInt b) = f ∧ Dec.cmp (Dec.ofInt (a * b)) f.toDec = some 0 :=
  ⟨_, rfl, F64.mul_ofInt_value a b (F64.natAbs_mul_lt_of_lt_two26 ha hb)⟩

example : F64.ofInt 6 = .fin false 3 1 ∧ F64.mul (F64.ofInt 6) (F64.ofInt (-7)) = F64.ofInt (-42) ∧
    F64.add (F64.ofInt 6) (F64.ofInt (-7)) = F64.ofInt (-1) ∧ F64.sub (F64.ofInt 6) (F64.ofInt 6) = F64.ofInt 0 := by
  decide

/-! ## 5. `max`, `min`, `sort` -/

/-- element-wise equal values -/
def DecsSame : List Dec → List Dec → Prop
  | [], [] => True
  | d :: ds, d' :: ds' => Dec.cmp d d' = some 0 ∧ DecsSame ds ds'
  | _, _ => False

theorem allStrings_equiv : ∀ {xs xs' : List Val}, Val.EquivL xs xs' → allStrings xs = allStrings xs'
  | [], [], _ => rfl
  | [], _ :: _, h => by simp [Val.EquivL] at h
  | _ :: _, [], h => by simp [Val.EquivL] at h
  | x :: xs, x' :: xs', h => by
    simp only [Val.EquivL] at h
    have ih := allStrings_equiv h.2
    cases x <;> cases x' <;> simp only [Val.Equiv, false_and] at h <;> simp only [allStrings] <;>
      try rw [ih, h.1]

theorem allDecimals_equiv : ∀ {xs xs' : List Val}, Val.EquivL xs xs' →
    (allDecimals xs = none ∧ allDecimals xs' = none) ∨
    ∃ ds ds', allDecimals xs = some ds ∧ allDecimals xs' = some ds' ∧ DecsSame ds ds'
  | [], [], _ => .inr ⟨[], [], rfl, rfl, trivial⟩
  | [], _ :: _, h => by simp [Val.EquivL] at h
  | _ :: _, [], h => by simp [Val.EquivL] at h
  | x :: xs, x' :: xs', h => by
    simp only [Val.EquivL] at h
    rcases toDecimal_equiv h.1 with ⟨e1, e2⟩ | ⟨d, d', e1, e2, e3⟩
    · left; simp [allDecimals, e1, e2]
    · rcases allDecimals_equiv h.2 with ⟨g1, g2⟩ | ⟨ds, ds', g1, g2, g3⟩
      · left; simp [allDecimals, e1, e2, g1, g2]
      · right
        exact ⟨d :: ds, d' :: ds', by simp [allDecimals, e1, g1], by simp [allDecimals, e2, g2], e3, g3⟩

theorem decsOrderFree_of_same : ∀ {ds ds' : List Dec}, DecsSame ds ds' → decsOrderFree ds = true
  | [], [], _ => rfl
  | [], _ :: _, h => by simp [DecsSame] at h
  | _ :: _, [], h => by simp [DecsSame] at h
  | d :: ds, d' :: ds', h => by
    simp only [DecsSame] at h
    have ih := decsOrderFree_of_same h.2
    have hd : d.isNaN = false := by
      cases d <;> simp [Dec.isNaN]
      simp [Dec.cmp_nan_left] at h
    simp only [decsOrderFree, List.any_cons, hd, Bool.false_or] at ih ⊢
    exact ih

theorem maxDec_congr : ∀ {ds ds' : List Dec} {m m' : Dec}, Dec.cmp m m' = some 0 → DecsSame ds ds' →
    Dec.cmp (maxDec m ds) (maxDec m' ds') = some 0
  | [], [], _, _, hm, _ => hm
  | [], _ :: _, _, _, _, h => by simp [DecsSame] at h
  | _ :: _, [], _, _, _, h => by simp [DecsSame] at h
  | d :: ds, d' :: ds', m, m', hm, h => by
    simp only [DecsSame] at h
    simp only [maxDec, Dec.greater_congr h.1 hm]
    split
    · exact maxDec_congr h.1 h.2
    · exact maxDec_congr hm h.2

theorem minDec_congr : ∀ {ds ds' : List Dec} {m m' : Dec}, Dec.cmp m m' = some 0 → DecsSame ds ds' →
    Dec.cmp (minDec m ds) (minDec m' ds') = some 0
  | [], [], _, _, hm, _ => hm
  | [], _ :: _, _, _, _, h => by simp [DecsSame] at h
  | _ :: _, [], _, _, _, h => by simp [DecsSame] at h
  | d :: ds, d' :: ds', m, m', hm, h => by
    simp only [DecsSame] at h
    simp only [minDec, Dec.less_congr h.1 hm]
    split
    · exact minDec_congr h.1 h.2
    · exact minDec_congr hm h.2

/-- the number branch of `max` / `min` -/
def extremeTail (pick : Dec → List Dec → Dec) (t : ATag) (xs : List Val) : Res Val :=
  match allDecimals xs with
  | some (d :: ds) => if enum2 t xs && !decsOrderFree (d :: ds) then .nondet else .ok (.num (.dec (pick d ds)))
  | _ => errType

theorem resEquiv_errType : ResEquiv errType errType := .inl ⟨_, rfl, rfl⟩

theorem extremeTail_congr (pick : Dec → List Dec → Dec)
    (hp : ∀ {ds ds' : List Dec} {m m' : Dec}, Dec.cmp m m' = some 0 → DecsSame ds ds' →
      Dec.cmp (pick m ds) (pick m' ds') = some 0)
    (t : ATag) {xs xs' : List Val} (h : Val.EquivL xs xs') :
    ResEquiv (extremeTail pick t xs) (extremeTail pick t xs') := by
  unfold extremeTail
  rcases allDecimals_equiv h with ⟨g1, g2⟩ | ⟨ds, ds', g1, g2, g3⟩
  · simp only [g1, g2]; exact resEquiv_errType
  · simp only [g1, g2]
    cases ds with
    | nil => cases ds' with
      | nil => exact resEquiv_errType
      | cons _ _ => simp [DecsSame] at g3
    | cons d ds => cases ds' with
      | nil => simp [DecsSame] at g3
      | cons d' ds' =>
        simp only [decsOrderFree_of_same g3, decsOrderFree_of_same (ds := d' :: ds') (ds' := d :: ds)
          (by
            simp only [DecsSame] at g3 ⊢
            refine ⟨Dec.cmp_zero_symm g3.1, ?_⟩
            have : ∀ {a b : List Dec}, DecsSame a b → DecsSame b a := by
              intro a
              induction a with
              | nil => intro b hb; cases b <;> simp_all [DecsSame]
              | cons x a ih =>
                intro b hb
                cases b with
                | nil => simp [DecsSame] at hb
                | cons y b => simp only [DecsSame] at hb ⊢; exact ⟨Dec.cmp_zero_symm hb.1, ih hb.2⟩
            exact this g3.2),
          Bool.not_true, Bool.and_false, Bool.false_eq_true, if_false]
        simp only [DecsSame] at g3
        right
        refine ⟨_, _, rfl, rfl, ?_⟩
        simp only [Val.Equiv]
        exact ⟨_, _, rfl, rfl, hp g3.1 g3.2⟩

theorem arrayMax_tail (t : ATag) (x : Val) (rest : List Val) (hx : ∀ s, x ≠ .str s) :
    arrayMax (.arr t (x :: rest)) = extremeTail maxDec t (x :: rest) := by
  cases x <;> first | rfl | exact absurd rfl (hx _)

theorem arrayMin_tail (t : ATag) (x : Val) (rest : List Val) (hx : ∀ s, x ≠ .str s) :
    arrayMin (.arr t (x :: rest)) = extremeTail minDec t (x :: rest) := by
  cases x <;> first | rfl | exact absurd rfl (hx _)

theorem equiv_not_str {x x' : Val} (h : Val.Equiv x x') (hx : ∀ s, x ≠ .str s) : ∀ s, x' ≠ .str s := by
  intro s e; subst e
  cases x <;> simp only [Val.Equiv] at h
  exact hx _ rfl

/-- **`max` on equivalent arrays**: the same error or maxima of equal value -/
theorem arrayMax_congr {x x' : Val} (h : Val.Equiv x x') : ResEquiv (arrayMax x) (arrayMax x') := by
  cases x <;> cases x' <;> simp only [Val.Equiv] at h <;> try exact resEquiv_errType
  next t xs u xs' =>
  obtain ⟨rfl, h⟩ := h
  cases xs with
  | nil => cases xs' with
    | nil => exact .inr ⟨.null, .null, rfl, rfl, by simp [Val.Equiv]⟩
    | cons _ _ => simp [Val.EquivL] at h
  | cons x0 rest => cases xs' with
    | nil => simp [Val.EquivL] at h
    | cons x0' rest' =>
      by_cases hs : ∃ s, x0 = .str s
      · obtain ⟨s, rfl⟩ := hs
        simp only [Val.EquivL] at h
        cases x0' <;> simp only [Val.Equiv, false_and] at h
        obtain ⟨rfl, h⟩ := h
        simp only [arrayMax, allStrings_equiv h]
        cases allStrings rest' with
        | none => exact resEquiv_errType
        | some ss => exact .inr ⟨_, _, rfl, rfl, by simp [Val.Equiv]⟩
      · have hx : ∀ s, x0 ≠ .str s := fun s e => hs ⟨s, e⟩
        have hx' := equiv_not_str (by simp only [Val.EquivL] at h; exact h.1) hx
        rw [arrayMax_tail t x0 rest hx, arrayMax_tail t x0' rest' hx']
        exact extremeTail_congr maxDec maxDec_congr t h

/-- **`min` on equivalent arrays** -/
theorem arrayMin_congr {x x' : Val} (h : Val.Equiv x x') : ResEquiv (arrayMin x) (arrayMin x') := by
  cases x <;> cases x' <;> simp only [Val.Equiv] at h <;> try exact resEquiv_errType
  next t xs u xs' =>
  obtain ⟨rfl, h⟩ := h
  cases xs with
  | nil => cases xs' with
    | nil => exact .inr ⟨.null, .null, rfl, rfl, by simp [Val.Equiv]⟩
    | cons _ _ => simp [Val.EquivL] at h
  | cons x0 rest => cases xs' with
    | nil => simp [Val.EquivL] at h
    | cons x0' rest' =>
      by_cases hs : ∃ s, x0 = .str s
      · obtain ⟨s, rfl⟩ := hs
        simp only [Val.EquivL] at h
        cases x0' <;> simp only [Val.Equiv, false_and] at h
        obtain ⟨rfl, h⟩ := h
        simp only [arrayMin, allStrings_equiv h]
        cases allStrings rest' with
        | none => exact resEquiv_errType
        | some ss => exact .inr ⟨_, _, rfl, rfl, by simp [Val.Equiv]⟩
      · have hx : ∀ s, x0 ≠ .str s := fun s e => hs ⟨s, e⟩
        have hx' := equiv_not_str (by simp only [Val.EquivL] at h; exact h.1) hx
        rw [arrayMin_tail t x0 rest hx, arrayMin_tail t x0' rest' hx']
        exact extremeTail_congr minDec minDec_congr t h

-- max of [2 (uint8), 2.50 (json.Number), 1e0 (decimal)] is 2.5
example : (match arrayMax (.arr .plain [.num (.int .u8 2), .num (.jnum [0x32, 0x2E, 0x35, 0x30]), .num (.dec (.fin false 1 0))]) with
    | .ok (.num (.dec d)) => d == .fin false 25 (-1) | _ => false) = true := by decide

/-! ### `sort` -/

/-- the number branch of `sort` -/
def sortTail (xs : List Val) : Res Val :=
  match allDecimals xs with
  | some ds =>
    let sorted := (xs.zip ds).mergeSort (fun a b => Dec.compare a.2 b.2 ≤ 0)
    if hasAmbiguousTie sorted then .nondet else .ok (.arr .plain (sorted.map Prod.fst))
  | none => errType

theorem sortArray_tail (t : ATag) (x : Val) (rest : List Val) (hx : ∀ s, x ≠ .str s) :
    sortArray (.arr t (x :: rest)) = sortTail (x :: rest) := by
  cases x <;> first | rfl | exact absurd rfl (hx _)

/-- an element with its sort key, in the two representations -/
def PairRel (p q : Val × Dec) : Prop := Val.Equiv p.1 q.1 ∧ Dec.cmp p.2 q.2 = some 0

theorem zipRel : ∀ {xs xs' : List Val} {ds ds' : List Dec}, Val.EquivL xs xs' → DecsSame ds ds' →
    ∃ L : List ((Val × Dec) × (Val × Dec)), L.map Prod.fst = xs.zip ds ∧ L.map Prod.snd = xs'.zip ds' ∧
      ∀ p ∈ L, PairRel p.1 p.2
  | [], [], _, _, _, _ => ⟨[], by simp, by simp, by simp⟩
  | [], _ :: _, _, _, h, _ => by simp [Val.EquivL] at h
  | _ :: _, [], _, _, h, _ => by simp [Val.EquivL] at h
  | _ :: _, _ :: _, [], [], _, _ => ⟨[], by simp, by simp, by simp⟩
  | _ :: _, _ :: _, [], _ :: _, _, h => by simp [DecsSame] at h
  | _ :: _, _ :: _, _ :: _, [], _, h => by simp [DecsSame] at h
  | x :: xs, x' :: xs', d :: ds, d' :: ds', h, g => by
    simp only [Val.EquivL] at h
    simp only [DecsSame] at g
    obtain ⟨L, l1, l2, l3⟩ := zipRel h.2 g.2
    refine ⟨((x, d), (x', d')) :: L, by simp [l1], by simp [l2], ?_⟩
    intro p hp
    rcases List.mem_cons.mp hp with rfl | hp
    · exact ⟨h.1, g.1⟩
    · exact l3 p hp

/-- sorting the two representations by their keys permutes them in the same way -/
theorem sorted_rel {L : List ((Val × Dec) × (Val × Dec))} (hL : ∀ p ∈ L, PairRel p.1 p.2) :
    ∃ S : List ((Val × Dec) × (Val × Dec)), (∀ p ∈ S, PairRel p.1 p.2) ∧
      S.map Prod.fst = (L.map Prod.fst).mergeSort (fun a b => decide (Dec.compare a.2 b.2 ≤ 0)) ∧
      S.map Prod.snd = (L.map Prod.snd).mergeSort (fun a b => decide (Dec.compare a.2 b.2 ≤ 0)) := by
  refine ⟨L.mergeSort (fun p q => decide (Dec.compare p.1.2 q.1.2 ≤ 0)), ?_, ?_, ?_⟩
  · intro p hp; exact hL p (List.mem_mergeSort.mp hp)
  · exact List.map_mergeSort (r := fun p q => decide (Dec.compare p.1.2 q.1.2 ≤ 0))
      (s := fun a b => decide (Dec.compare a.2 b.2 ≤ 0)) (f := Prod.fst) (l := L) (fun _ _ _ _ => rfl)
  · have hc : L.mergeSort (fun p q => decide (Dec.compare p.1.2 q.1.2 ≤ 0)) =
        L.mergeSort (fun p q => decide (Dec.compare p.2.2 q.2.2 ≤ 0)) := by
      apply mergeSort_congr
      intro a ha b hb
      simp only [Dec.compare_congr (hL a ha).2 (hL b hb).2]
    rw [hc]
    exact List.map_mergeSort (r := fun p q => decide (Dec.compare p.2.2 q.2.2 ≤ 0))
      (s := fun a b => decide (Dec.compare a.2 b.2 ≤ 0)) (f := Prod.snd) (l := L) (fun _ _ _ _ => rfl)

theorem equivL_of_rel : ∀ (S : List ((Val × Dec) × (Val × Dec))), (∀ p ∈ S, PairRel p.1 p.2) →
    Val.EquivL ((S.map Prod.fst).map Prod.fst) ((S.map Prod.snd).map Prod.fst)
  | [], _ => by simp [Val.EquivL]
  | p :: S, h => by
    simp only [List.map_cons, Val.EquivL]
    exact ⟨(h p (List.mem_cons_self ..)).1, equivL_of_rel S (fun q hq => h q (List.mem_cons_of_mem _ hq))⟩

theorem equivL_strs : ∀ (ss : List Bytes), Val.EquivL (ss.map Val.str) (ss.map Val.str)
  | [] => by simp [Val.EquivL]
  | s :: ss => by simp only [List.map_cons, Val.EquivL, Val.Equiv, true_and]; exact equivL_strs ss

theorem sortTail_congr {xs xs' : List Val} (h : Val.EquivL xs xs') :
    sortTail xs = .nondet ∨ sortTail xs' = .nondet ∨ ResEquiv (sortTail xs) (sortTail xs') := by
  unfold sortTail
  rcases allDecimals_equiv h with ⟨g1, g2⟩ | ⟨ds, ds', g1, g2, g3⟩
  · simp only [g1, g2]; exact .inr (.inr resEquiv_errType)
  · obtain ⟨L, l1, l2, l3⟩ := zipRel h g3
    obtain ⟨S, s1, s2, s3⟩ := sorted_rel l3
    rw [l1] at s2
    rw [l2] at s3
    simp only [g1, g2, ← s2, ← s3]
    by_cases t1 : hasAmbiguousTie (S.map Prod.fst) = true
    · left; simp [t1]
    · by_cases t2 : hasAmbiguousTie (S.map Prod.snd) = true
      · right; left; simp [t2]
      · right; right; right
        refine ⟨_, _, by simp only [t1]; rfl, by simp only [t2]; rfl, ?_⟩
        simp only [Val.Equiv, true_and]
        exact equivL_of_rel S s1

/-- **`sort` on equivalent arrays**: unless the model declines because of a tie between values that are equal but
    not identical (the order Go's unstable sort leaves them in is unspecified — and whether two numbers are
    *identical* does depend on their representation), the results are the same error or element-wise equivalent
    arrays. -/
theorem sortArray_congr {x x' : Val} (h : Val.Equiv x x') :
    sortArray x = .nondet ∨ sortArray x' = .nondet ∨ ResEquiv (sortArray x) (sortArray x') := by
  cases x <;> cases x' <;> simp only [Val.Equiv] at h <;> try exact .inr (.inr resEquiv_errType)
  next t xs u xs' =>
  obtain ⟨rfl, h⟩ := h
  cases xs with
  | nil => cases xs' with
    | nil => exact .inr (.inr (.inr ⟨_, _, rfl, rfl, by simp [Val.Equiv, Val.EquivL]⟩))
    | cons _ _ => simp [Val.EquivL] at h
  | cons x0 rest => cases xs' with
    | nil => simp [Val.EquivL] at h
    | cons x0' rest' =>
      by_cases hs : ∃ s, x0 = .str s
      · obtain ⟨s, rfl⟩ := hs
        have h' := h
        simp only [Val.EquivL] at h
        cases x0' <;> simp only [Val.Equiv, false_and] at h
        obtain ⟨rfl, h⟩ := h
        right; right
        simp only [sortArray]
        rw [allStrings_equiv h']
        cases allStrings (.str s :: rest') with
        | none => exact resEquiv_errType
        | some ss =>
          refine .inr ⟨_, _, rfl, rfl, ?_⟩
          simp only [Val.Equiv, true_and]
          exact equivL_strs _
      · have hx : ∀ s, x0 ≠ .str s := fun s e => hs ⟨s, e⟩
        have hx' := equiv_not_str (by simp only [Val.EquivL] at h; exact h.1) hx
        rw [sortArray_tail t x0 rest hx, sortArray_tail t x0' rest' hx']
        exact sortTail_congr h

theorem mergeSort_pair {α} (a b : α) (le : α → α → Bool) :
    [a, b].mergeSort le = if le a b then [a, b] else [b, a] := by
  simp [List.mergeSort, List.MergeSort.Internal.splitInTwo]
  split <;> simp_all

-- `[2 (uint8), 1.5 (json.Number)]` and `[2.0 (decimal), 1.50 (decimal)]` are equivalent, and both sort
example : Val.Equiv (.arr .plain [.num (.int .u8 2), .num (.jnum [0x31, 0x2E, 0x35])])
      (.arr .plain [.num (.dec (.fin false 20 (-1))), .num (.dec (.fin false 150 (-2)))]) ∧
    (∃ v, sortArray (.arr .plain [.num (.int .u8 2), .num (.jnum [0x31, 0x2E, 0x35])]) = .ok v) ∧
    (∃ v, sortArray (.arr .plain [.num (.dec (.fin false 20 (-1))), .num (.dec (.fin false 150 (-2)))]) = .ok v) := by
  refine ⟨?_, ?_, ?_⟩
  · simp only [Val.Equiv, Val.EquivL, Num.SameValue, and_true, true_and]
    exact ⟨⟨_, _, rfl, rfl, by decide⟩, ⟨.fin false 15 (-1), _, by decide, rfl, by decide⟩⟩
  · have e : Dec.parse [0x31, 0x2E, 0x35] = .ok (.fin false 15 (-1)) := by decide
    have h : decide ((Dec.ofInt 2).compare (Dec.fin false 15 (-1)) ≤ 0) = false := by decide
    simp only [sortArray, allDecimals, e, toDecimal, Option.map, List.zip, List.zipWith, mergeSort_pair, h]
    exact ⟨_, rfl⟩
  · have h : decide ((Dec.fin false 20 (-1)).compare (Dec.fin false 150 (-2)) ≤ 0) = false := by decide
    simp only [sortArray, allDecimals, toDecimal, Option.map, List.zip, List.zipWith, mergeSort_pair, h]
    exact ⟨_, rfl⟩

/-- the caveat is real: `[1 (int8), 1 (int8)]` sorts, `[1 (int8), 1.0 (decimal)]` (the same values) is declined as a
    tie between non-identical values -/
example : (∃ v, sortArray (.arr .plain [.num (.int .i8 1), .num (.int .i8 1)]) = .ok v) ∧
    sortArray (.arr .plain [.num (.int .i8 1), .num (.dec (.fin false 10 (-1)))]) = .nondet := by
  constructor
  · have h : decide ((Dec.ofInt 1).compare (Dec.ofInt 1) ≤ 0) = true := by decide
    simp only [sortArray, allDecimals, toDecimal, Option.map, List.zip, List.zipWith, mergeSort_pair, h, if_true]
    exact ⟨_, rfl⟩
  · have h : decide ((Dec.ofInt 1).compare (Dec.fin false 10 (-1)) ≤ 0) = true := by decide
    simp only [sortArray, allDecimals, toDecimal, Option.map, List.zip, List.zipWith, mergeSort_pair, h, if_true]
    rfl

/-! ## 6. recorded deviations -/

/-- **`to_string` prints the spelling, not the value**: `1.50` as `json.Number` prints `"1.50"`, as a decimal
    `"1.5"` — the two numbers are `SameValue` but the results differ. -/
example : Num.SameValue (.jnum [0x31, 0x2E, 0x35, 0x30]) (.dec (.fin false 15 (-1))) ∧
    (match toStringV (.num (.jnum [0x31, 0x2E, 0x35, 0x30])) with
      | .ok (.str s) => s == [0x31, 0x2E, 0x35, 0x30] | _ => false) = true ∧
    (match toStringV (.num (.dec (.fin false 15 (-1)))) with
      | .ok (.str s) => s == [0x31, 0x2E, 0x35] | _ => false) = true :=
  ⟨⟨.fin false 15 (-1), .fin false 15 (-1), by decide, rfl, by decide⟩, by decide, by decide⟩

end C14
end Jmes

section AxiomCheck
open Jmes.C14
#print axioms equiv_equivalence
#print axioms equal_congr
#print axioms less_congr
#print axioms isTrue_congr
#print axioms typeName_congr
#print axioms intArg_sameValue
#print axioms intArg_congr
#print axioms toDecimal_jnum_int
#print axioms toDecimal_f64_int
#print axioms add_congr
#print axioms subtract_congr
#print axioms multiply_congr
#print axioms divide_congr
#print axioms integerDivide_congr
#print axioms modulo_congr
#print axioms float_add_exact
#print axioms float_sub_exact
#print axioms float_mul_exact
#print axioms float_mul_value
#print axioms arrayMax_congr
#print axioms arrayMin_congr
#print axioms sortArray_congr
end AxiomCheck
