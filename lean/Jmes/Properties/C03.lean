/-
  C03 — no expression and no data value can make the library panic or crash.

  In the model a Go panic is the outcome `Res.panic why`; every Go operation that can panic (here:
  `decimal128.Decimal(NaN).Int64()`, modelled by `Dec.int64 .nan = .panic`, reached through `toInt`) is explicit.
  This file proves, for ALL inputs (arbitrary expression bytes, arbitrary `Val` trees including NaN decimals,
  arbitrary `json.Number` text, foreign values, map-ordered arrays):

   1. `toInt` never answers `panic` (the NaN guard precedes `Int64`);
   2. every value-level function of the evaluator is panic-free, the higher-order ones provided the function
      they are given is;
   3. `ieval` (with `ievalList`, `ievalFields`, `ievalMerge`, `ievalNotNull`, `ievalZip`) is panic-free;
   4. `search` is panic-free: it returns `.ok`, `.err cs` with `cs ≠ []`, `.nondet` or `.unmodelled`;
      `compile` is total; every failure of `ieval`/`search` carries at least one category (`err_nonempty`);
   5. the inputs that used to panic in Go evaluate without panic.

  The proofs live in `Jmes/Proofs/NoPanic.lean` in a generic form (`Sat pe`), instantiated here at
  `pe = fun _ => True` (`NoPanic`) and `pe = (· ≠ [])` (`Safe`).
-/
import Jmes.Model.Api
import Jmes.Proofs.NoPanic
namespace Jmes.C03

/-- the predicate of this property (defined in `Jmes/Proofs/NoPanic.lean`):
    `NoPanic r := ∀ w, r ≠ .panic w` -/
example {α} (r : Res α) : NoPanic r ↔ ∀ w, r ≠ .panic w := Iff.rfl

/-- non-vacuity of the predicate: a panic outcome is expressible and is rejected -/
example : ¬ NoPanic (Res.panic "Decimal(NaN).Int64()" : Res Val) := not_noPanic_panic _
/-- the raw library operation does panic on NaN in the model: the guard in `decToInt` is what C03 rests on -/
example : Dec.int64 .nan = .panic := rfl

private theorem np {α} {r : Res α} (h : Sat (fun _ => True) r) : NoPanic r := h.noPanic
private theorem sat_of_np {α} {r : Res α} (h : NoPanic r) : Sat (fun _ => True) r := (noPanic_iff_sat r).1 h

/-! ## 1. `toInt` -/

theorem decToInt_no_panic : ∀ d : Dec, decToInt d ≠ .panic := Jmes.decToInt_no_panic
theorem toInt_no_panic : ∀ v : Val, toInt v ≠ .panic := Jmes.toInt_no_panic
theorem intArg_no_panic (v : Val) : NoPanic (intArg v) := np (intArg_sat v)
theorem strArg_no_panic (v : Val) : NoPanic (strArg v) := np (strArg_sat v)

example : toInt (.num (.dec .nan)) = .notInt := by decide
example : toInt (.num (.jnum [0x4E, 0x61, 0x4E])) ≠ .panic := toInt_no_panic _   -- json.Number("NaN")
example : toInt (.foreign 7) = .notNum := by decide

/-! ## 2. value-level functions -/

theorem applyBinOp_no_panic (op : BinOp) (l r : Val) : NoPanic (applyBinOp op l r) := np (applyBinOp_sat op l r)
/-- all 44 eager builtins, on any argument list -/
theorem applyFn_no_panic (f : Fn) (args : List Val) : NoPanic (applyFn f args) := np (applyFn_sat f args)
theorem index_no_panic (v : Val) (i : Int) : NoPanic (index v i) := np (index_sat v i)
theorem slice_no_panic (v : Val) (a b : Int) : NoPanic (slice v a b) := np (slice_sat v a b)
theorem sliceStep_no_panic (v : Val) (a b s : Int) : NoPanic (sliceStep v a b s) := np (sliceStep_sat v a b s)

/-- `flatten`, `pruneArray`, `objectValues`, `field` are pure (they return a `Val`, not a `Res`):
    wrapped in `.ok` as the evaluator does, they are trivially panic-free. -/
theorem flatten_no_panic (v : Val) : NoPanic (Res.ok (flatten v)) := NoPanic.ok _
theorem pruneArray_no_panic (v : Val) : NoPanic (Res.ok (pruneArray v)) := NoPanic.ok _
theorem objectValues_no_panic (v : Val) : NoPanic (Res.ok (objectValues v)) := NoPanic.ok _
theorem field_no_panic (k : Bytes) (v : Val) : NoPanic (Res.ok (field k v)) := NoPanic.ok _

section hof
variable {f c : Val → Res Val}

theorem projectArray_no_panic (hf : ∀ x, NoPanic (f x)) (v : Val) : NoPanic (projectArray f v) :=
  np (projectArray_sat (fun x => sat_of_np (hf x)) v)
theorem filterArray_no_panic (hf : ∀ x, NoPanic (f x)) (v : Val) : NoPanic (filterArray f v) :=
  np (filterArray_sat (fun x => sat_of_np (hf x)) v)
theorem filterAndProjectArray_no_panic (hc : ∀ x, NoPanic (c x)) (hf : ∀ x, NoPanic (f x)) (v : Val) :
    NoPanic (filterAndProjectArray c f v) :=
  np (filterAndProjectArray_sat (fun x => sat_of_np (hf x)) (fun x => sat_of_np (hc x)) v)
theorem flattenAndProjectArray_no_panic (hf : ∀ x, NoPanic (f x)) (v : Val) : NoPanic (flattenAndProjectArray f v) :=
  np (flattenAndProjectArray_sat (fun x => sat_of_np (hf x)) v)
theorem projectObject_no_panic (hf : ∀ x, NoPanic (f x)) (v : Val) : NoPanic (projectObject f v) :=
  np (projectObject_sat (fun x => sat_of_np (hf x)) v)
theorem mapArray_no_panic (hf : ∀ x, NoPanic (f x)) (v : Val) : NoPanic (mapArray f v) :=
  np (mapArray_sat (fun x => sat_of_np (hf x)) v)
theorem groupBy_no_panic (hf : ∀ x, NoPanic (f x)) (v : Val) : NoPanic (groupBy f v) :=
  np (groupBy_sat (fun x => sat_of_np (hf x)) v)
theorem arrayMaxBy_no_panic (hf : ∀ x, NoPanic (f x)) (v : Val) : NoPanic (arrayMaxBy f v) :=
  np (arrayMaxBy_sat (fun x => sat_of_np (hf x)) v)
theorem arrayMinBy_no_panic (hf : ∀ x, NoPanic (f x)) (v : Val) : NoPanic (arrayMinBy f v) :=
  np (arrayMinBy_sat (fun x => sat_of_np (hf x)) v)
theorem sortArrayBy_no_panic (hf : ∀ x, NoPanic (f x)) (v : Val) : NoPanic (sortArrayBy f v) :=
  np (sortArrayBy_sat (fun x => sat_of_np (hf x)) v)

/-- the hypothesis is necessary: a panicking sub-expression does make the projection panic (so the theorems above
    are not vacuous consequences of some function swallowing panics) -/
example : ¬ NoPanic (projectArray (fun _ => Res.panic "boom") (.arr .plain [.null])) := not_noPanic_panic _
example : NoPanic (projectArray (fun x => index x 0) (.arr .enum [.arr .plain [.null], .str []])) :=
  projectArray_no_panic (fun x => index_no_panic x 0) _

end hof

/-- `widen` (the error-category widening for map-ordered inputs) preserves panic-freedom -/
theorem widen_no_panic {α} (t : ATag) (xs : List Val) (fs : List (Val → Res Val)) (extra : List Cat) {r : Res α}
    (h : NoPanic r) : NoPanic (widen t xs fs extra r) := np (widen_sat t xs fs extra (sat_of_np h))
theorem combineUnordered_no_panic {acc : Res (List (Bytes × Val))} {r : Res Val} (k : Bytes)
    (ha : NoPanic acc) (hr : NoPanic r) : NoPanic (combineUnordered acc k r) :=
  np (combineUnordered_sat k (sat_of_np ha) (sat_of_np hr))
theorem zipArgs_no_panic (vs : List Val) : NoPanic (zipArgs vs) := np (zipArgs_sat vs)
theorem mergeArgs_no_panic (vs : List Val) (acc : List (Bytes × Val)) : NoPanic (mergeArgs vs acc) :=
  np (mergeArgs_sat vs acc)

example : NoPanic (applyFn .padLeft [.str [0x61], .num (.dec .nan), .str [0x20]]) := applyFn_no_panic _ _
example : NoPanic (applyBinOp .div (.num (.dec .nan)) (.num (.f64 default))) := applyBinOp_no_panic _ _ _
example : ¬ NoPanic (combineUnordered (.ok []) [] (.panic "boom")) := not_noPanic_panic _

/-! ## 3. the evaluator -/

theorem ieval_no_panic (root : Val) (n : INode) (cur : Val) (env : Env) : NoPanic (ieval root n cur env) :=
  np (ieval_sat root n cur env)
theorem ievalList_no_panic (root : Val) (ns : List INode) (cur : Val) (env : Env) :
    NoPanic (ievalList root ns cur env) := np (ievalList_sat root ns cur env)
theorem ievalFields_no_panic (root : Val) (fs : List (Bytes × INode)) (cur : Val) (env : Env) :
    NoPanic (ievalFields root fs cur env) := np (ievalFields_sat root fs cur env)
theorem ievalMerge_no_panic (root : Val) (ns : List INode) (cur : Val) (env : Env) (acc : List (Bytes × Val)) :
    NoPanic (ievalMerge root ns cur env acc) := np (ievalMerge_sat root ns cur env acc)
theorem ievalNotNull_no_panic (root : Val) (ns : List INode) (cur : Val) (env : Env) :
    NoPanic (ievalNotNull root ns cur env) := np (ievalNotNull_sat root ns cur env)
theorem ievalZip_no_panic (root : Val) (ns : List INode) (cur : Val) (env : Env) :
    NoPanic (ievalZip root ns cur env) := np (ievalZip_sat root ns cur env)
theorem evaluate_no_panic (n : INode) (d : Val) : NoPanic (evaluate n d) := np (evaluate_sat n d)

/-- `pad_left(@, nan-decimal, ' ')` on a string: evaluated, no panic (an invalid-value error) -/
example : ieval .null (.call .padLeft [.current, .lit (.num (.dec .nan)), .lit (.str [0x20])]) (.str [0x61]) []
    = .err [Cat.invalidValue] := by rfl

/-! ## 4. `Compile`, `Search`, `Expression.Search` -/

/-- `Compile` returns normally: a node or an error (it is a total function into `Except`). -/
theorem compile_total (expr : Bytes) : (∃ n, compile expr = .ok n) ∨ (∃ e, compile expr = .error e) := by
  cases compile expr with
  | ok n => exact Or.inl ⟨n, rfl⟩
  | error e => exact Or.inr ⟨e, rfl⟩

theorem search_safe (expr : Bytes) (d : Val) : Safe (search expr d) := by
  unfold search
  split
  · exact Sat.unmodelled _
  · exact Sat.err1 _
  · exact evaluate_sat _ _

/-- `Search` (and `Compile` followed by `Expression.Search`) never panics, on any expression bytes and any value. -/
theorem search_no_panic (expr : Bytes) (d : Val) : NoPanic (search expr d) := (search_safe expr d).noPanic

/-- `Expression.Search` on an already compiled expression -/
theorem compiled_search_no_panic (expr : Bytes) (n : INode) (_ : compile expr = .ok n) (d : Val) :
    NoPanic (evaluate n d) := evaluate_no_panic n d

/-- every failure carries at least one category -/
theorem err_nonempty (root : Val) (n : INode) (cur : Val) (env : Env) (cs : List Cat)
    (h : ieval root n cur env = .err cs) : cs ≠ [] :=
  Safe.err_ne_nil (ieval_sat root n cur env) h

theorem search_err_nonempty (expr : Bytes) (d : Val) (cs : List Cat) (h : search expr d = .err cs) : cs ≠ [] :=
  Safe.err_ne_nil (search_safe expr d) h

/-- the useful content: `search` returns a value, a non-empty set of error categories, or the model declines
    (`nondet`: depends on Go map order; `unmodelled`) — never a panic. -/
theorem search_outcome (expr : Bytes) (d : Val) :
    (∃ v, search expr d = .ok v) ∨ (∃ cs, cs ≠ [] ∧ search expr d = .err cs) ∨ search expr d = .nondet ∨
    (∃ w, search expr d = .unmodelled w) := by
  have hs := search_safe expr d
  cases h : search expr d with
  | ok v => exact Or.inl ⟨v, rfl⟩
  | err cs => exact Or.inr (Or.inl ⟨cs, Safe.err_ne_nil hs h, rfl⟩)
  | panic w => rw [h] at hs; exact hs.elim
  | nondet => exact Or.inr (Or.inr (Or.inl rfl))
  | unmodelled w => exact Or.inr (Or.inr (Or.inr ⟨w, rfl⟩))

example : NoPanic (search [0xFF, 0x00, 0x60] (.foreign 3)) := search_no_panic _ _
example : ∀ cs, ieval .null (.variable [0x78]) .null [] = .err cs → cs ≠ [] := err_nonempty _ _ _ _
example : ieval .null (.variable [0x78]) .null [] = .err [Cat.undefinedVariable] := rfl

/-! ## 5. the inputs that used to panic -/

/-- ``find_first('abcdef', 'a', `4`, `2`)``: start after finish (`s[i:j]` with `i > j` panicked) → null -/
example : findFirstBetween (.str [0x61, 0x62, 0x63, 0x64, 0x65, 0x66]) (.str [0x61])
    (.num (.jnum [0x34])) (.num (.jnum [0x32])) = .ok .null := by rfl
example : findLastBetween (.str [0x61, 0x62, 0x63, 0x64, 0x65, 0x66]) (.str [0x61])
    (.num (.int .int 4)) (.num (.int .int 2)) = .ok .null := by rfl

/-- `from_items` with a null key (an unchecked type assertion panicked) → invalid-value -/
example : fromItems (.arr .plain [.arr .plain [.null, .num (.int .int 1)]]) = .err [Cat.invalidValue] := by rfl
/-- … also inside a map-ordered outer array, where the error set is widened but stays an error -/
example : NoPanic (fromItems (.arr .enum [.arr .plain [.null, .null], .foreign 0])) := np (fromItems_sat _)

/-- a NaN decimal as the integer argument of `pad_left` (`Decimal(NaN).Int64()` panicked) → invalid-value -/
example : padSpaceLeft (.str [0x61]) (.num (.dec .nan)) = .err [Cat.invalidValue] := by rfl
example : padLeft (.str [0x61]) (.num (.dec .nan)) (.str [0x20]) = .err [Cat.invalidValue] := by rfl
/-- the node `Compile` builds for `pad_left('a', @)` (a `padSpaceLeft` call), searched on a NaN decimal document -/
example : evaluate (.call .padSpaceLeft [.lit (.str [0x61]), .current]) (.num (.dec .nan))
    = .err [Cat.invalidValue] := by rfl
/-- … and as `start`/`finish` of `find_first`, including the branch that inspects `finish` first -/
example : findFirstBetween (.str [0x61]) (.str [0x61]) (.num (.dec .nan)) (.num (.dec .nan))
    = .err [Cat.invalidValue] := by rfl
example : findFirstFrom (.str [0x61]) (.str [0x61]) (.num (.dec .nan)) = .err [Cat.invalidValue] := by rfl
/-- `json.Number("NaN")` goes through `Dec.parse` to the same guarded branch -/
example : NoPanic (padSpaceLeft (.str [0x61]) (.num (.jnum [0x4E, 0x61, 0x4E]))) := np (padSpaceLeft_sat _ _)

end Jmes.C03
