/-
  C06 — frame property of a call, on an abstract memory machine (core Lean only; no model imports).

  "No call modifies the caller's data (including the unused capacity of its slices), the compiled expression, or
  earlier results."

  The machine: a heap maps locations to values; a *call* is a list of reads, writes and allocations.  An allocation
  names the location it obtains, which must be *fresh* (outside the heap's domain at that moment).  A call is
  *private-writing* (`PrivW`) from `h` when every write goes to a location allocated earlier by the same call.
  Everything the caller can reach — its input values, the spare capacity behind its slices (just more pre-existing
  locations), the compiled expression, the results of earlier calls — is in `dom h`.

  `frame`               a private-writing call leaves every pre-existing location unchanged
  `frame_seq`           so does any sequence of private-writing calls
  `reads_congr`         what a call reads depends only on the heap restricted to (its read footprint ∪ its own allocations)
  `history_independent` a call that reads only pre-existing locations and its own allocations reads the same values —
                        hence computes the same result — after any sequence of earlier private-writing calls as it
                        would have if run first
  `privW_of_dom_le`     and it is a legitimate (private-writing) call from the original heap, too
  `frame_violation`     non-vacuity of the hypothesis: a call that writes to a pre-existing location is not
                        private-writing, and does change the caller's data
-/
namespace Jmes.C06

abbrev Loc := Nat
abbrev Heap (V : Type) := Loc → Option V

inductive Op (V : Type) where
  | read (l : Loc)
  | write (l : Loc) (v : V)
  | alloc (l : Loc) (v : V)

variable {V : Type}

/-- the heap's domain -/
def Dom (h : Heap V) (l : Loc) : Prop := h l ≠ none

def upd (h : Heap V) (l : Loc) (v : V) : Heap V := fun l' => if l' = l then some v else h l'

@[simp] theorem upd_same (h : Heap V) (l : Loc) (v : V) : upd h l v l = some v := by simp [upd]
theorem upd_other (h : Heap V) {l l' : Loc} (v : V) (hne : l' ≠ l) : upd h l v l' = h l' := by simp [upd, hne]

def step (h : Heap V) : Op V → Heap V
  | .read _ => h
  | .write l v => upd h l v
  | .alloc l v => upd h l v

/-- the heap after a call -/
def run (h : Heap V) : List (Op V) → Heap V
  | [] => h
  | op :: ops => run (step h op) ops

/-- the values a call reads, in order; the call's *result* is any function of this trace -/
def reads (h : Heap V) : List (Op V) → List (Option V)
  | [] => []
  | .read l :: ops => h l :: reads h ops
  | .write l v :: ops => reads (upd h l v) ops
  | .alloc l v :: ops => reads (upd h l v) ops

/-- the locations allocated by a prefix-closed scan: `owned own ops` = `own` plus everything `ops` allocates -/
def owned (own : List Loc) : List (Op V) → List Loc
  | [] => own
  | .alloc l _ :: ops => owned (l :: own) ops
  | _ :: ops => owned own ops

/-- private-writing from `h`, having allocated `own` so far: writes go to owned locations only, allocations are fresh -/
def PrivW (h : Heap V) (own : List Loc) : List (Op V) → Prop
  | [] => True
  | .read _ :: ops => PrivW h own ops
  | .write l v :: ops => l ∈ own ∧ PrivW (upd h l v) own ops
  | .alloc l v :: ops => h l = none ∧ PrivW (upd h l v) (l :: own) ops

/-- a call: private-writing starting with nothing owned -/
def Call (h : Heap V) (ops : List (Op V)) : Prop := PrivW h [] ops

/-! ## the frame theorem -/

theorem frame_gen (h0 : Heap V) : ∀ (ops : List (Op V)) (h : Heap V) (own : List Loc),
    PrivW h own ops → (∀ l ∈ own, h0 l = none) → (∀ l, Dom h0 l → h l = h0 l) →
    ∀ l, Dom h0 l → run h ops l = h0 l
  | [], h, own, _, _, hag => hag
  | .read _ :: ops, h, own, hp, hown, hag => frame_gen h0 ops h own hp hown hag
  | .write l v :: ops, h, own, hp, hown, hag => by
    apply frame_gen h0 ops (upd h l v) own hp.2 hown
    intro l' hl'
    have hne : l' ≠ l := by
      intro e; subst e; exact hl' (hown _ hp.1)
    rw [upd_other h v hne]; exact hag l' hl'
  | .alloc l v :: ops, h, own, hp, hown, hag => by
    have hl0 : h0 l = none := by
      cases hh : h0 l with
      | none => rfl
      | some w =>
        have : Dom h0 l := by simp [Dom, hh]
        have := hag l this
        rw [hp.1, hh] at this; cases this
    apply frame_gen h0 ops (upd h l v) (l :: own) hp.2
    · intro l' hl'
      rcases List.mem_cons.mp hl' with e | hm
      · subst e; exact hl0
      · exact hown l' hm
    · intro l' hl'
      have hne : l' ≠ l := by
        intro e; subst e; exact hl' hl0
      rw [upd_other h v hne]; exact hag l' hl'

/-- **C06 (frame).**  A private-writing call leaves every location that existed before it with its value unchanged. -/
theorem frame {h : Heap V} {ops : List (Op V)} (hc : Call h ops) : ∀ l, Dom h l → run h ops l = h l :=
  frame_gen h ops h [] hc (fun _ hm => by cases hm) (fun _ _ => rfl)

/-- in particular nothing is ever removed from the heap's domain -/
theorem dom_mono {h : Heap V} {ops : List (Op V)} (hc : Call h ops) : ∀ l, Dom h l → Dom (run h ops) l := by
  intro l hl
  unfold Dom
  rw [frame hc l hl]; exact hl

/-! ## sequences of calls -/

def runSeq (h : Heap V) : List (List (Op V)) → Heap V
  | [] => h
  | c :: cs => runSeq (run h c) cs

/-- each call of the sequence is private-writing from the heap it starts in -/
def CallSeq (h : Heap V) : List (List (Op V)) → Prop
  | [] => True
  | c :: cs => Call h c ∧ CallSeq (run h c) cs

/-- **C06 (frame, sequences).**  After any sequence of private-writing calls every location that existed before the
    sequence is unchanged. -/
theorem frame_seq : ∀ {h : Heap V} {cs : List (List (Op V))}, CallSeq h cs → ∀ l, Dom h l → runSeq h cs l = h l
  | _, [], _, _, _ => rfl
  | h, c :: cs, hs, l, hl => by
    show runSeq (run h c) cs l = h l
    rw [frame_seq hs.2 l (dom_mono hs.1 l hl), frame hs.1 l hl]

/-- … and so is every location produced by an earlier call of the sequence (earlier results stay intact) -/
theorem frame_seq_append {h : Heap V} {cs ds : List (List (Op V))} (_h1 : CallSeq h cs)
    (h2 : CallSeq (runSeq h cs) ds) : ∀ l, Dom (runSeq h cs) l → runSeq (runSeq h cs) ds l = runSeq h cs l := by
  intro l hl
  exact frame_seq h2 l hl

/-! ## results do not depend on history -/

/-- the call reads only locations satisfying `P` or allocated by itself -/
def ReadsIn (P : Loc → Prop) (own : List Loc) : List (Op V) → Prop
  | [] => True
  | .read l :: ops => (P l ∨ l ∈ own) ∧ ReadsIn P own ops
  | .write _ _ :: ops => ReadsIn P own ops
  | .alloc l _ :: ops => ReadsIn P (l :: own) ops

/-- two heaps that agree on the read footprint give the same read trace -/
theorem reads_congr (P : Loc → Prop) : ∀ (ops : List (Op V)) (own : List Loc) (g g' : Heap V),
    ReadsIn P own ops → (∀ l, P l ∨ l ∈ own → g l = g' l) → reads g ops = reads g' ops
  | [], _, _, _, _, _ => rfl
  | .read l :: ops, own, g, g', hr, hag => by
    simp only [reads]
    rw [hag l hr.1, reads_congr P ops own g g' hr.2 hag]
  | .write l v :: ops, own, g, g', hr, hag => by
    simp only [reads]
    apply reads_congr P ops own _ _ hr
    intro l' hl'
    by_cases e : l' = l
    · subst e; simp
    · rw [upd_other g v e, upd_other g' v e]; exact hag l' hl'
  | .alloc l v :: ops, own, g, g', hr, hag => by
    simp only [reads]
    apply reads_congr P ops (l :: own) _ _ hr
    intro l' hl'
    by_cases e : l' = l
    · subst e; simp
    · rw [upd_other g v e, upd_other g' v e]
      apply hag l'
      rcases hl' with hp | hm
      · exact Or.inl hp
      · rcases List.mem_cons.mp hm with e' | hm'
        · exact absurd e' e
        · exact Or.inr hm'

/-- **C06 (history independence).**  A call that reads only pre-existing locations and its own allocations reads
    exactly the same values after any sequence of earlier private-writing calls as it would have read had it been
    run first; so its result (`result` = any function of the values read) is the same. -/
theorem history_independent {h : Heap V} {cs : List (List (Op V))} {ops : List (Op V)}
    (hs : CallSeq h cs) (hr : ReadsIn (Dom h) [] ops) :
    reads (runSeq h cs) ops = reads h ops := by
  apply reads_congr (Dom h) ops [] _ _ hr
  intro l hl
  rcases hl with hp | hm
  · exact frame_seq hs l hp
  · cases hm

theorem history_independent_result {R : Type} (result : List (Option V) → R) {h : Heap V}
    {cs : List (List (Op V))} {ops : List (Op V)} (hs : CallSeq h cs) (hr : ReadsIn (Dom h) [] ops) :
    result (reads (runSeq h cs) ops) = result (reads h ops) := by
  rw [history_independent hs hr]

/-- a call that is private-writing in a bigger heap is private-writing in a smaller one (freshness is easier) -/
theorem privW_of_dom_le : ∀ (ops : List (Op V)) (own : List Loc) (g g' : Heap V),
    (∀ l, Dom g l → Dom g' l) → PrivW g' own ops → PrivW g own ops
  | [], _, _, _, _, _ => trivial
  | .read _ :: ops, own, g, g', hd, hp => privW_of_dom_le ops own g g' hd hp
  | .write l v :: ops, own, g, g', hd, hp => by
    refine ⟨hp.1, privW_of_dom_le ops own _ _ ?_ hp.2⟩
    intro l' hl'
    by_cases e : l' = l
    · subst e; simp [Dom]
    · simp only [Dom, upd_other _ v e] at hl' ⊢; exact hd l' hl'
  | .alloc l v :: ops, own, g, g', hd, hp => by
    refine ⟨?_, privW_of_dom_le ops (l :: own) _ _ ?_ hp.2⟩
    · cases hg : g l with
      | none => rfl
      | some w =>
        have : Dom g' l := hd l (by simp [Dom, hg])
        exact absurd hp.1 this
    · intro l' hl'
      by_cases e : l' = l
      · subst e; simp [Dom]
      · simp only [Dom, upd_other _ v e] at hl' ⊢; exact hd l' hl'

theorem dom_mono_seq : ∀ {h : Heap V} {cs : List (List (Op V))}, CallSeq h cs → ∀ l, Dom h l → Dom (runSeq h cs) l := by
  intro h cs hs l hl
  unfold Dom
  rw [frame_seq hs l hl]; exact hl

/-- the call could indeed have been run first: it is a private-writing call from the original heap as well -/
theorem call_first {h : Heap V} {cs : List (List (Op V))} {ops : List (Op V)}
    (hs : CallSeq h cs) (hc : Call (runSeq h cs) ops) : Call h ops :=
  privW_of_dom_le ops [] h (runSeq h cs) (dom_mono_seq hs) hc

/-! ## examples -/

/-- caller's data: a 2-element slice at 0,1 with one cell of spare capacity at 2; location 3 holds an earlier result -/
def h0 : Heap Nat := fun l => if l = 0 then some 10 else if l = 1 then some 20 else if l = 2 then some 0
  else if l = 3 then some 99 else none

/-- a search that allocates a result cell (5), reads its input and fills the cell -/
def call1 : List (Op Nat) := [.alloc 5 0, .read 0, .write 5 10, .read 1, .write 5 30, .read 5]
/-- a second search reading the same input -/
def call2 : List (Op Nat) := [.alloc 6 0, .read 1, .write 6 20, .read 6]

theorem call1_ok : Call h0 call1 := by
  simp [Call, call1, PrivW, h0]

example : run h0 call1 2 = some 0 ∧ run h0 call1 3 = some 99 ∧ run h0 call1 0 = some 10 :=
  ⟨frame call1_ok 2 (by simp [Dom, h0]), frame call1_ok 3 (by simp [Dom, h0]), frame call1_ok 0 (by simp [Dom, h0])⟩

theorem seq_ok : CallSeq h0 [call1, call2] := by
  simp [CallSeq, Call, call1, call2, PrivW, run, step, upd, h0]

example : runSeq h0 [call1, call2] 1 = some 20 := frame_seq seq_ok 1 (by simp [Dom, h0])

example : reads h0 call1 = [some 10, some 20, some 30] := by
  simp [reads, call1, upd, h0]

/-- `call2` gives the same answer after `call1` (and after `call1; call1'`…) as on a fresh start -/
example : reads (runSeq h0 [call1]) call2 = reads h0 call2 :=
  history_independent (cs := [call1]) (by simp [CallSeq, call1_ok]) (by simp [ReadsIn, call2, Dom, h0])

example : reads h0 call2 = [some 20, some 20] := by simp [reads, call2, upd, h0]

/-- non-vacuity of the hypothesis: appending into the caller's spare capacity (location 2) is *not* private-writing,
    and it does change what the caller sees -/
def bad : List (Op Nat) := [.write 2 7]

theorem frame_violation : ¬ Call h0 bad ∧ run h0 bad 2 ≠ h0 2 := by
  constructor
  · simp [Call, bad, PrivW]
  · simp [run, step, bad, upd, h0]

/-- reusing a location that is already in use is not a fresh allocation -/
example : ¬ Call h0 [.alloc 3 0] := by simp [Call, PrivW, h0]

/-- `owned` computes the allocated set -/
example : owned [] call1 = [5] := rfl

end Jmes.C06

#print axioms Jmes.C06.frame
#print axioms Jmes.C06.frame_seq
#print axioms Jmes.C06.history_independent
#print axioms Jmes.C06.call_first
#print axioms Jmes.C06.frame_violation
