/-
  C09 (third wave) — "Every call terminates, using time and memory bounded by a low-order polynomial in the length of
  the expression, the size of the document and the size of the result.  In particular the magnitude of integer literals
  and numeric arguments (slice bounds and steps, search offsets, replace and split counts) never by itself drives the
  running time or an allocation."

  What this file adds to `Jmes/Properties/C09.lean`.  There the amount of work was measured by the tick functions of
  `Jmes/Spec/Cost.lean`, a SECOND hand-written artefact next to the model.  Here result and cost come from ONE
  definition: every loop of the integer-parameterised operations of /repo/internal/evaluator (and the lexer) is written
  once, in the tick-writer monad `T α = ⟨val : α, cost : Nat⟩` of `Jmes/Proofs/C09CTick.lean`, with loop combinators
  (`forT`, `forBrkT`) that charge one tick per iteration entered by construction, `allocT n` for `make`/`Grow`,
  `writeT` for builder writes.  For each instrumented function `fT`:

    (1)  `(fT x).1 = f x`  where `f` is the EXISTING function of `Jmes/Model/*.lean` — the results are untouched and the
         instrumented definition is tied to the model that the differential run ties to Go;
    (2)  `(fT x).2 ≤ c · (size of inputs + size of result + 1)` for ALL values of the integer arguments.

  The tie between an instrumented loop and the Go loop is BY READING: the doc comment of every loop definition in
  `Jmes/Proofs/C09CTick*.lean` names the file:line of the Go loop header it mirrors (as of the current /repo), with
  the same trip-count expression and the same guard.  Where Go's guard is what bounds the loop by the input
  (`j < step && len(s) > 0`, `if sz == 0 { return }`, `if c := strings.Count(s, p); n > c { n = c }`) the mirror has the
  guard and the bound theorem uses it; the `…NoGuard…` / `…NoClamp…` / `…Mutant…` definitions show what happens
  without it: the cost becomes the magnitude of the integer and no bound in the size of the input exists.  For the
  guards of slice.go:250/:266 and the clamp string.go:956 the RESULT is unchanged by the deletion (invisible to
  result-level theorems and tests); for the `sz == 0` exit of `find_*` and the clamp string.go:938 it is not.  The
  honest statement of every such demo — one deletion at a time, unboundedness on a fixed NON-EMPTY subject that reaches
  the mutated line in Go, the deletions that do change a result — is in `Jmes/Proofs/C09EMutants.lean`; that the
  counter of `forT`/`forBrkT` is never what ends a Go `for cond { … }` loop is in `Jmes/Proofs/C09EFuel.lean`.

  Units: one tick = one loop iteration (one rune decoded, one candidate offset of a substring search, one element
  visited), one cell reserved by `make`/`Grow`, or one byte appended to a `strings.Builder`.  A candidate offset of
  `strings.Index`/`LastIndex`/`Count` costs at most `|p|` byte comparisons in the naive search the model uses (Go's
  implementation is `O(|s| + |p|)`); amortised growth of `append`/`Builder` is the Go runtime's and is not modelled.
  In the lexer (section 8) the unit is sharper: one tick = ONE CALL of `(*Lexer).decodeRune` (lexer.go:396) — the
  decode at the head of each loop iteration, each look-ahead `l.decodeRune(start+sz)` of `Next` (on the branches where
  Go makes it, failing or not) and the second decode after a backslash in a delimited token — plus one tick per
  `Next` call; the rune `Next` dispatches on is the one decoded (and charged) by the last whitespace-loop iteration.

  NOT covered HERE: the recursion of the parser and of the evaluator itself (only their loops over arrays/strings are
  instrumented; `parse_depth_linear` restates the first-wave fuel result), `sort.Stable` (library), the decimal
  arithmetic.  The fourth wave (`Jmes/Properties/C09E.lean`) instruments the evaluator's recursion (`ievalT`: one tick
  per `evaluate` call, these loops with `ievalT` as the sub-expression evaluator) and bounds a whole evaluation.

  NEVER charged in this development (a tick is a loop iteration, not a machine operation): the byte comparisons inside
  one candidate offset of a substring search (up to `|p|` each — the bounds of `find_*`, `split`, `replace` below are
  in CANDIDATE OFFSETS, not in bytes compared; Go's `strings.Index` is `O(|s| + |p|)`), the parse of a count / offset
  argument by `toInt` (`strconv`/decimal parsing, linear in the length of the literal's text — which is part of the
  expression —, not in its magnitude), the `Less` comparisons of `sort.Stable` (`O(key bytes)` each), and the test
  `old == new` of `strings.Replace` (`O(min(|old|, |new|))`).
-/
import Jmes.Proofs.C09CTick
import Jmes.Proofs.C09CTickStr
import Jmes.Proofs.C09CTickStr2
import Jmes.Proofs.C09CTickSplit
import Jmes.Proofs.C09CTickSplit2
import Jmes.Proofs.C09CTickArr
import Jmes.Proofs.C09CTickArr2
import Jmes.Proofs.C09CTickLex
namespace Jmes.C09C
open Jmes

/-! ## 1. `slice` and `sliceStep` (slice.go) -/

/-- `v[start:stop]`, ANY value and ALL `start stop : Int`: the instrumented function returns the model's result, and
    costs no tick on an array (a sub-slice expression, no loop), at most `3 n` ticks on a string of `n` code points
    (`RuneCountInString`, skip `start`, measure `stop - start` — the bounds are clamped to `n` before the loops). -/
theorem slice_resource (v : Val) : ∀ start stop : Int,
    (sliceT v start stop).1 = slice v start stop ∧
    (sliceT v start stop).2 ≤ (match v with | .str s => 3 * runeCount s | _ => 0) :=
  fun start stop => ⟨sliceT_fst v start stop, sliceT_snd_le v start stop⟩

/-- "héllo"[-2^63 : 2^63-1] -/
example : (sliceT (.str [0x68, 0xC3, 0xA9, 0x6C, 0x6C, 0x6F]) (-(2 ^ 63)) (2 ^ 63 - 1)).1
      = .ok (.str [0x68, 0xC3, 0xA9, 0x6C, 0x6C, 0x6F]) ∧
    (sliceT (.str [0x68, 0xC3, 0xA9, 0x6C, 0x6C, 0x6F]) (-(2 ^ 63)) (2 ^ 63 - 1)).2 ≤ 15 := by
  refine ⟨by rw [sliceT_fst]; rfl, ?_⟩
  have := sliceT_snd_le (.str [0x68, 0xC3, 0xA9, 0x6C, 0x6C, 0x6F]) (-(2 ^ 63)) (2 ^ 63 - 1)
  have e : runeCount [0x68, 0xC3, 0xA9, 0x6C, 0x6C, 0x6F] = 5 := by decide
  simp only [e] at this; omega

/-- `v[start:stop:step]`, ANY value and ALL `start stop step : Int` (zero, ±2^63, beyond 64 bits): the instrumented
    function returns the model's result in at most `2·length` ticks on an array (`make` + copy loop) and at most
    `9·|s|` ticks on a string of `|s|` bytes (count, `Grow`, lead-in, ≤ 5 per selected code point, and the skipping
    loops slice.go:250/266, which their guard `len(s) > 0` bounds by the rest of the string). -/
theorem sliceStep_resource (v : Val) : ∀ start stop step : Int,
    (sliceStepT v start stop step).1 = sliceStep v start stop step ∧
    (sliceStepT v start stop step).2 ≤ (match v with
      | .arr _ xs => 2 * xs.length
      | .str s => 9 * s.length
      | _ => 0) :=
  fun start stop step => ⟨sliceStepT_fst v start stop step, sliceStepT_snd_le v start stop step⟩

/-- in code points: a string of `n` code points costs at most `8 n` ticks for a positive step, and for a negative step
    on valid UTF-8 (for ANY bytes, `≤ 8·(code points) + (bytes)`: `C09E.sliceStep_string_resource_any`) -/
theorem sliceStep_string_resource (cs : List Nat) (hcs : Utf8.Scalars cs) : ∀ start stop step : Int,
    Res.ok (Val.str (sliceStepStrT (encodeAll cs) start stop step).1) = sliceStep (.str (encodeAll cs)) start stop step ∧
    (sliceStepStrT (encodeAll cs) start stop step).2 ≤ 8 * cs.length := by
  intro start stop step
  refine ⟨sliceStepStrT_fst _ start stop step, ?_⟩
  have := sliceStepStrT_snd_le_runes (encodeAll cs) start stop step (Or.inr (C09.backCount_valid cs hcs))
  rw [Utf8.runeCount_encodeAll cs hcs] at this
  exact this

/-- "abc"[::2^62] and "abc"[::-2^63]: one code point selected, the rest skipped once -/
example : (sliceStepT (.str [0x61, 0x62, 0x63]) 0 (2 ^ 63 - 1) (2 ^ 62)).1 = .ok (.str [0x61]) ∧
    (sliceStepT (.str [0x61, 0x62, 0x63]) 0 (2 ^ 63 - 1) (2 ^ 62)).2 ≤ 27 ∧
    (sliceStepT (.str [0x61, 0x62, 0x63]) (2 ^ 63 - 1) (-(2 ^ 63)) (-(2 ^ 63))).1 = .ok (.str [0x63]) ∧
    (sliceStepT (.str [0x61, 0x62, 0x63]) (2 ^ 63 - 1) (-(2 ^ 63)) (-(2 ^ 63))).2 ≤ 27 :=
  ⟨by rw [sliceStepT_fst]; rfl, sliceStepT_snd_le (.str [0x61, 0x62, 0x63]) _ _ _,
   by rw [sliceStepT_fst]; rfl, sliceStepT_snd_le (.str [0x61, 0x62, 0x63]) _ _ _⟩

/-- the skipping loop slice.go:250 `for j := 1; j < step && len(s) > 0; j++` with and without its guard: same
    string, `min k n` ticks against `k` ticks, and no bound in the size of the string for the latter.  This is the
    change "`j < step && len(s) > 0` → `j < step`" that keeps every result and is invisible to result-level
    theorems.  (The unboundedness witness of `skipNoGuardT_unbounded` is the exhausted string.  The same for a fixed
    non-empty subject, for the backward loop slice.go:266, and with the mutant carried through all of `sliceStep` on
    "ab": `C09E.skipNoGuard_unbounded_nonempty`, `C09E.skip_bwd_guard_matters`, `C09E.sliceStep_fwd_guard_matters`,
    `C09E.sliceStep_bwd_guard_matters` in `Jmes/Proofs/C09EMutants.lean`.) -/
theorem skip_guard_matters (k : Nat) (s : Bytes) :
    (skipFwdT k s).1 = dropRunes k s ∧ (skipFwdT k s).2 = min k (runeCount s) ∧
    (skipNoGuardT k s).1 = dropRunes k s ∧ (skipNoGuardT k s).2 = k ∧
    ¬ ∃ c : Nat, ∀ (k : Nat) (s : Bytes), (skipNoGuardT k s).2 ≤ c * (s.length + 1) := by
  rw [skipFwdT_eq, skipNoGuardT_eq]
  exact ⟨rfl, rfl, rfl, rfl, skipNoGuardT_unbounded⟩

example : (skipFwdT (2 ^ 62) [0x61]).2 = 1 ∧ (skipNoGuardT (2 ^ 62) [0x61]).2 = 2 ^ 62 := by
  rw [skipFwdT_eq, skipNoGuardT_eq]; exact ⟨by decide, rfl⟩

/-! ## 2. `find_first` / `find_last` (string.go:30-454) -/

/-- `find_first(value, sub)` / `find_last(value, sub)`, ANY two values: model result, and at most `2·(|value| + 1)`
    ticks — where a tick of the search is ONE CANDIDATE OFFSET of `strings.Index`/`LastIndex` (the comparison of `sub`
    at that offset, up to `|sub|` bytes in the naive search of the model, is not charged: the bound is in candidate
    offsets, not in bytes compared; Go's `strings.Index` is `O(|value| + |sub|)`) and a tick of the final
    `RuneCountInString` is one code point -/
theorem find_resource (value sub : Val) :
    (findFirstT value sub).1 = findFirst value sub ∧ (findFirstT value sub).2 ≤ 2 * (strLen value + 1) ∧
    (findLastT value sub).1 = findLast value sub ∧ (findLastT value sub).2 ≤ 2 * (strLen value + 1) :=
  ⟨findFirstT_fst value sub, findFirstT_snd_le value sub, findLastT_fst value sub, findLastT_snd_le value sub⟩

/-- `find_first(value, sub, start)` / `find_last(value, sub, start)`, ANY values — in particular every integer
    `start` —: model result, at most `3·(|value| + 1)` ticks.  The offset loop string.go:222 / :435
    `for j := 0; j < i; j++` is bounded by the pre-check `i > len(s)` (string.go:218) and by its `sz == 0` exit. -/
theorem findFrom_resource (last : Bool) (value sub : Val) : ∀ start : Val,
    (findFromT last value sub start).1 = findFrom last value sub start ∧
    (findFromT last value sub start).2 ≤ 3 * (strLen value + 1) :=
  fun start => ⟨findFromT_fst last value sub start, findFromT_snd_le last value sub start⟩

/-- `find_first(value, sub, start, end)` / `find_last(…)`, ANY values, every integer `start` and `end`: model result,
    at most `4·(|value| + 1)` ticks (two offset loops string.go:134/:152 resp. :347/:365, the search over the window,
    the final count) -/
theorem findBetween_resource (last : Bool) (value sub : Val) : ∀ start finish : Val,
    (findBetweenT last value sub start finish).1 = findBetween last value sub start finish ∧
    (findBetweenT last value sub start finish).2 ≤ 4 * (strLen value + 1) :=
  fun start finish => ⟨findBetweenT_fst last value sub start finish, findBetweenT_snd_le last value sub start finish⟩

/-- find_first("abc", "c", 2^62, 2^63-1) and find_last("abc", "c", -2^63, 2^63-1) -/
example : (findBetweenT false (.str [0x61, 0x62, 0x63]) (.str [0x63]) (.num (.int .i64 (2 ^ 62)))
      (.num (.int .i64 (2 ^ 63 - 1)))).2 ≤ 16 ∧
    (findBetweenT true (.str [0x61, 0x62, 0x63]) (.str [0x63]) (.num (.int .i64 (-(2 ^ 63))))
      (.num (.int .i64 (2 ^ 63 - 1)))).1 = .ok (.num (.int .i64 2)) :=
  ⟨findBetweenT_snd_le_int false [0x61, 0x62, 0x63] [0x63] _ _, by rw [findBetweenT_fst]; rfl⟩

/-- the offset loops AS GO HAS THEM, with both protections (the pre-check / clamp `> len(s)` and the exit `sz == 0`):
    they compute the model's conversions and satisfy both bounds, `≤ |s|` and `≤ runeCount s + 1`.  This theorem
    deletes nothing.  That EACH protection ALONE still bounds the loop by the string (`≤ |s|` with only the
    pre-check, `≤ runeCount s + 1` with only the exit — where deleting the exit alone changes the result of
    `find_first('é', '', `2`)`), and that only BOTH deleted together (`startOffsetMutantT`) cost the magnitude of
    `start`, is `C09E.find_offset_each_guard_suffices` in `Jmes/Proofs/C09EMutants.lean`. -/
theorem find_offset_guard_matters (s : Bytes) :
    (∀ i : Int, (startOffsetT s i).1 = startOffset s i ∧ (startOffsetT s i).2 ≤ s.length ∧
      (startOffsetT s i).2 ≤ runeCount s + 1) ∧
    (∀ j : Int, (finishOffsetT s j).1 = finishOffset s j ∧ (finishOffsetT s j).2 ≤ s.length ∧
      (finishOffsetT s j).2 ≤ runeCount s + 1) :=
  ⟨fun i => ⟨startOffsetT_fst s i, startOffsetT_snd_le s i, startOffsetT_snd_le_runes s i⟩,
   fun j => ⟨finishOffsetT_fst s j, finishOffsetT_snd_le s j, finishOffsetT_snd_le_runes s j⟩⟩

/-! ## 3. `pad_left` / `pad_right` (string.go:504-742): the one place where an integer IS the size of the result -/

/-- `pad_left/pad_right(value, width, pad)` and the two-argument forms, ANY values: model result; the ticks are at most
    `5·(width + |value| + |pad| + 1)` — a bound by `padWidth width`, the MAGNITUDE of the integer argument itself.
    This is the known finding KF14 (section 10): the width is the size of the padded string (`max width (code points
    of value)` code points, `C09.padWith_codepoints`), which need not be the result of the expression.  The reading
    "linear in the size of the result of `pad`" — no width in the bound wherever the model builds the result
    (`width - code points ≤ padLimit`) — is `C09E.pad_resource_result`.  When nothing is added (`width ≤` the number
    of code points, every negative width) the cost is at most `|value| + |pad|` (`pad_small_resource`). -/
theorem pad_resource (left : Bool) (value pad : Val) : ∀ width : Val,
    (padT true value width pad).1 = padLeft value width pad ∧
    (padT false value width pad).1 = padRight value width pad ∧
    (padSpaceT true value width).1 = padSpaceLeft value width ∧
    (padSpaceT false value width).1 = padSpaceRight value width ∧
    (padT left value width pad).2 ≤ 5 * (padWidth width + strLen value + strLen pad + 1) ∧
    (padSpaceT left value width).2 ≤ 2 * (padWidth width + strLen value + 1) :=
  fun width => ⟨padLeftT_fst value width pad, padRightT_fst value width pad, padSpaceLeftT_fst value width,
    padSpaceRightT_fst value width, padT_snd_le left value pad width, padSpaceT_snd_le left value width⟩

/-- a width below the length (−2^63 included) costs the two counting passes only -/
theorem pad_small_resource (left : Bool) (s p : Bytes) (w : Int) (h : w ≤ runeCount s) :
    (padT left (.str s) (.num (.int .i64 w)) (.str p)).2 ≤ s.length + p.length ∧
    (padSpaceT left (.str s) (.num (.int .i64 w))).2 ≤ s.length :=
  ⟨padT_snd_le_small left s p w h, padSpaceT_snd_le_small left s w h⟩

example : (padT true (.str [0x61]) (.num (.int .i64 (-(2 ^ 63)))) (.str [0x2E])).2 ≤ 2 :=
  (pad_small_resource true [0x61] [0x2E] _ (by decide)).1

/-! ## 4. `reverse` (functions.go:91) and `join` (string.go:456) -/

/-- `reverse(v)`, ANY value: model result, at most `6·(size + 1)` ticks (bytes of a string / length of an array) -/
theorem reverse_resource (v : Val) : (reverseT v).1 = reverse v ∧ (reverseT v).2 ≤ 6 * (revSize v + 1) :=
  ⟨reverseT_fst v, reverseT_snd_le v⟩

/-- `join(sep, value)`, ANY two values: model result, ticks bounded by the size of the inputs (elements, separators
    and string elements written) -/
theorem join_resource (sep value : Val) :
    (joinT sep value).1 = join sep value ∧ (joinT sep value).2 ≤ joinInputSize sep value + 1 :=
  ⟨joinT_fst sep value, joinT_snd_le sep value⟩

example : (reverseT (.str [0x68, 0xC3, 0xA9])).1 = .ok (.str [0xC3, 0xA9, 0x68]) := by rw [reverseT_fst]; rfl

/-! ## 5. `split` (string.go:828-976): the count is clamped by what is there BEFORE `make` -/

/-- `split(value, sep)` and `split(value, sep, count)`, ANY values: model result; on strings at most `5·(|s| + 1)`
    ticks for EVERY `count` (an integer of any magnitude, a float, a non-number), and `4·(|s| + 1) + pieces` in terms
    of the result.  `make([]any, n+1)` (string.go:960 / :942) is charged `n + 1` cells with the `n` that Go has
    clamped by `strings.Count(s, p)` (string.go:956) resp. by the number of code points (string.go:938).
    A tick of `strings.Count` / `strings.Index` is ONE CANDIDATE OFFSET (the comparison of `sep` there, up to `|sep|`
    bytes in the naive search, is not charged): the bound is in candidate offsets, iterations and cells, not in bytes
    compared.  The cost bounds for NON-string arguments (the failing paths): `C09E.split_replace_resource_any`. -/
theorem split_resource (value sep : Val) (s p : Bytes) : ∀ count : Val,
    (splitT value sep).1 = split value sep ∧
    (splitCountT value sep count).1 = splitCount value sep count ∧
    (splitT (.str s) (.str p)).2 ≤ 5 * (s.length + 1) ∧
    (splitCountT (.str s) (.str p) count).2 ≤ 5 * (s.length + 1) ∧
    (∀ t xs, splitCount (.str s) (.str p) count = .ok (.arr t xs) →
      (splitCountT (.str s) (.str p) count).2 ≤ 4 * (s.length + 1) + xs.length) :=
  fun count => ⟨splitT_fst value sep, splitCountT_fst value sep count, splitT_snd_le s p,
    splitCountT_snd_le s p count, fun t xs h => splitCountT_snd_le_pieces s p count t xs h⟩

/-- split('a,b,c', ',', 2^62) and split('ab', '', 2^63-1) (the two witnesses of finding F03) -/
example : (splitCountT (.str [0x61, 0x2C, 0x62, 0x2C, 0x63]) (.str [0x2C]) (.num (.int .i64 (2 ^ 62)))).1
      = .ok (.arr .plain [.str [0x61], .str [0x62], .str [0x63]]) ∧
    (splitCountT (.str [0x61, 0x2C, 0x62, 0x2C, 0x63]) (.str [0x2C]) (.num (.int .i64 (2 ^ 62)))).2 ≤ 30 ∧
    (splitCountT (.str [0x61, 0x62]) (.str []) (.num (.int .i64 (2 ^ 63 - 1)))).2 ≤ 15 :=
  ⟨by rw [splitCountT_fst]; rfl, splitCountT_snd_le_int _ _ _, splitCountT_snd_le_int _ _ _⟩

/-- with the clamp string.go:956 deleted the pieces are the same and `make` is charged the count argument: no bound
    in the size of the string exists.  (The witness of `splitSepNoClampT_unbounded` is the EMPTY subject, which Go
    answers at string.go:933 before the mutated line; for the subject "a" and counts `n ≥ 1`, which reach it:
    `C09E.splitSepNoClampT_unbounded_reachable`.  The other clamp, string.go:938 (empty separator), whose deletion
    CHANGES the result — `split('ab', '', `5`)` becomes `["a","b","","","",""]` — and costs `2n + 1`:
    `C09E.split_empty_clamp_matters`, `C09E.splitEmptyNoClampT_example`, in `Jmes/Proofs/C09EMutants.lean`.) -/
theorem split_clamp_matters (p : Bytes) (hp : p ≠ []) :
    (∀ (s : Bytes) (n : Nat), (splitSepNoClampT s p n).1 = splitOn s p (some n)) ∧
    (∀ (s : Bytes) (count : Option Nat), (splitSepT s p count).1 = splitOn s p count ∧
      (splitSepT s p count).2 ≤ 5 * (s.length + 1)) ∧
    ¬ ∃ c : Nat, ∀ (n : Nat) (s : Bytes), (splitSepNoClampT s p n).2 ≤ c * (s.length + 1) :=
  ⟨fun s n => splitSepNoClampT_fst s p hp n,
   fun s count => ⟨splitSepT_fst s p hp count, splitSepT_snd_le' s p hp count⟩,
   splitSepNoClampT_unbounded p⟩

/-! ## 6. `replace` (string.go:744-826, `strings.Replace`) -/

/-- `replace(value, old, new)` and `replace(value, old, new, count)`, ANY values: model result; on strings, for EVERY
    `count`, either an error at no cost or a string `r` at `≤ 4·(|s| + |r| + 1)` ticks; in the inputs only:
    `≤ 4·(2·|s| + (|s| + 1)·|new| + 1)`.  The count is clamped by `strings.Count` inside `strings.Replace` before
    `Grow` and before the loop.  A tick of `strings.Count` / `strings.Index` is ONE CANDIDATE OFFSET (up to `|old|`
    byte comparisons each, not charged); the test `old == new` at the head of `strings.Replace` is not charged either.
    The cost bounds for NON-string arguments: `C09E.split_replace_resource_any`. -/
theorem replace_resource (value old new : Val) (s po pn : Bytes) : ∀ count : Val,
    (replaceT value old new).1 = replace value old new ∧
    (replaceCountT value old new count).1 = replaceCount value old new count ∧
    (∃ r, (replaceT (.str s) (.str po) (.str pn)).1 = .ok (.str r) ∧
      (replaceT (.str s) (.str po) (.str pn)).2 ≤ 4 * (s.length + r.length + 1)) ∧
    ((∃ r, (replaceCountT (.str s) (.str po) (.str pn) count).1 = .ok (.str r) ∧
        (replaceCountT (.str s) (.str po) (.str pn) count).2 ≤ 4 * (s.length + r.length + 1)) ∨
     ((∀ v, (replaceCountT (.str s) (.str po) (.str pn) count).1 ≠ .ok v) ∧
        (replaceCountT (.str s) (.str po) (.str pn) count).2 = 0)) ∧
    (replaceCountT (.str s) (.str po) (.str pn) count).2 ≤ 4 * (2 * s.length + (s.length + 1) * pn.length + 1) :=
  fun count => ⟨replaceT_fst value old new, replaceCountT_fst value old new count, replaceT_snd_le s po pn,
    replaceCountT_snd_le s po pn count, replaceCountT_snd_le_inputs s po pn count⟩

example : (replaceCountT (.str [0x61, 0x62, 0x61]) (.str [0x61]) (.str [0x78, 0x79]) (.num (.int .i64 (2 ^ 63 - 1)))).1
      = .ok (.str [0x78, 0x79, 0x62, 0x78, 0x79]) ∧
    (replaceCountT (.str [0x61, 0x62, 0x61]) (.str [0x61]) (.str [0x78, 0x79]) (.num (.int .i64 (2 ^ 63 - 1)))).2 ≤ 60 :=
  ⟨by rw [replaceCountT_fst]; rfl, replaceCountT_snd_le_int _ _ _ _⟩

/-! ## 7. The array loops (array.go, the `zip` builtin of evaluator.go)

  Here the trip count is the length of an array, never an integer argument.  The evaluation of the sub-expression is a
  parameter `fT : Val → T (Res Val)` whose ticks are counted through the monad (`evalCost fT xs` = the sum over the
  elements); the loops themselves cost a constant per element visited / written. -/

/-- `index(v, i)` (array.go:564-580): no loop, no allocation — the model's result at no tick, ∀ i : Int (this replaces
    the first-wave `indexCost … = 1 := rfl`) -/
theorem index_resource (v : Val) : ∀ i : Int, (indexT v i).1 = index v i ∧ (indexT v i).2 = 0 :=
  fun i => ⟨indexT_fst v i, indexT_snd v i⟩

example : indexT (.arr .plain [.bool true, .null]) (2 ^ 63 - 1) = ⟨.ok .null, 0⟩ := by rfl

/-- `flatten(v)` (array.go:533) and `pruneArray(v)` (array.go:582): model results; `flatten` costs at most
    `3·(len + inner elements + 1)` ticks, i.e. `2·(len + nulls skipped + |result| + 1)`; `pruneArray` at most
    `2·(len + 1)` -/
theorem flatten_resource (v : Val) (t : ATag) (a : List Val) :
    (flattenT v).1 = flatten v ∧ (pruneArrayT v).1 = pruneArray v ∧
    (flattenT (.arr t a)).2 ≤ 3 * (a.length + flattenInnerCount a + 1) ∧
    (flattenT (.arr t a)).2 ≤ 2 * (a.length + flattenNulls a + (flattenElems a).length + 1) ∧
    (pruneArrayT (.arr t a)).2 ≤ 2 * (a.length + 1) :=
  ⟨flattenT_fst v, pruneArrayT_fst v, flattenT_snd_le t a, flattenT_snd_le_result t a, pruneArrayT_snd_le t a⟩

/-- the projection loops (array.go:277 `projectArray`, :163 `filter`, :184 `filterAndProjectArray`,
    :214 `flattenAndProjectArray`, :255 `mapArray`): model results on the results of the sub-expression, and at most
    `3` ticks per element of their own plus the ticks of the evaluations — `evalCost fT xs` IS the sum over the elements
    `x` of `xs` of the ticks `(fT x).2` (`evalCost`, by definition), for an ARBITRARY evaluator `fT`.  With the
    instrumented evaluator itself as `fT` (cost ≤ 1 + 3·len + Σ ticks of the sub-expression at each element):
    `C09E.projection_composed`; summed over a whole expression: `C09E.ieval_instrumented`. -/
theorem projection_resource (cT fT : Val → T (Res Val)) (v : Val) (t : ATag) (xs : List Val) :
    (projectArrayT fT v).1 = projectArray (fun x => (fT x).1) v ∧
    (filterArrayT cT v).1 = filterArray (fun x => (cT x).1) v ∧
    (filterAndProjectArrayT cT fT v).1 = filterAndProjectArray (fun x => (cT x).1) (fun x => (fT x).1) v ∧
    (flattenAndProjectArrayT fT v).1 = flattenAndProjectArray (fun x => (fT x).1) v ∧
    (mapArrayT fT v).1 = mapArray (fun x => (fT x).1) v ∧
    (projectArrayT fT (.arr t xs)).2 ≤ 3 * xs.length + evalCost fT xs ∧
    (filterArrayT cT (.arr t xs)).2 ≤ 3 * xs.length + evalCost cT xs ∧
    (filterAndProjectArrayT cT fT (.arr t xs)).2 ≤ 3 * xs.length + evalCost cT xs + evalCost fT xs ∧
    (flattenAndProjectArrayT fT (.arr t xs)).2
      ≤ 2 * xs.length + 2 * (flattenForProject xs).length + evalCost fT (flattenForProject xs) ∧
    (mapArrayT fT (.arr t xs)).2 ≤ 2 * xs.length + evalCost fT xs :=
  ⟨projectArrayT_fst fT v, filterArrayT_fst cT v, filterAndProjectArrayT_fst cT fT v,
   flattenAndProjectArrayT_fst fT v, mapArrayT_fst fT v, projectArrayT_snd_le fT t xs, filterArrayT_snd_le cT t xs,
   filterAndProjectArrayT_snd_le cT fT t xs, flattenAndProjectArrayT_snd_le fT t xs, mapArrayT_snd_le fT t xs⟩

/-- `sort_by` / `max_by` / `min_by` (array.go:336, :13, :88): model results; the key collection and the scan cost at
    most `3` ticks per element plus the evaluations of the key expression.  `sort.Stable` itself is Go library code
    (`O(n log n)` calls of `Less`, `O(n log² n)` swaps) and is NOT instrumented. -/
theorem keyed_resource (fT : Val → T (Res Val)) (v : Val) (t : ATag) (xs : List Val) :
    (sortArrayByT fT v).1 = sortArrayBy (fun x => (fT x).1) v ∧
    (arrayMaxByT fT v).1 = arrayMaxBy (fun x => (fT x).1) v ∧
    (arrayMinByT fT v).1 = arrayMinBy (fun x => (fT x).1) v ∧
    (sortArrayByT fT (.arr t xs)).2 ≤ 3 * xs.length + evalCost fT xs ∧
    (arrayMaxByT fT (.arr t xs)).2 ≤ 2 * xs.length + evalCost fT xs ∧
    (arrayMinByT fT (.arr t xs)).2 ≤ 2 * xs.length + evalCost fT xs :=
  ⟨sortArrayByT_fst fT v, arrayMaxByT_fst fT v, arrayMinByT_fst fT v, sortArrayByT_snd_le fT t xs,
   arrayPickByT_snd_le _ fT t xs, arrayPickByT_snd_le _ fT t xs⟩

/-- `zip(a₁, …, a_m)` (evaluator.go:1046-1081): the model's evaluation of the `zip` node, and when it returns `rows`
    rows at most `2 m + rows·(2 + 2 m)` ticks of its own — linear in the size `rows · m` of what it built — plus the
    evaluations of the arguments -/
theorem zip_resource (root : Val) (args : List INode) (cur : Val) (env : Env) (cost : INode → Nat)
    (h0 : args ≠ [])
    (hlen : ∀ n ∈ args, ∀ t xs, ieval root n cur env = .ok (.arr t xs) → xs.length ≤ zipMaxInt) :
    (zipT (args.map (fun n => ⟨ieval root n cur env, cost n⟩))).1 = ieval root (.zip args) cur env ∧
    (∀ tg rows, (zipT (args.map (fun n => ⟨ieval root n cur env, cost n⟩))).1 = .ok (.arr tg rows) →
      (zipT (args.map (fun n => ⟨ieval root n cur env, cost n⟩))).2
        ≤ 2 * args.length + rows.length * (2 + 2 * args.length)
          + evalCost id (args.map (fun n => (⟨ieval root n cur env, cost n⟩ : T (Res Val))))) := by
  refine ⟨zipT_fst_ieval root args cur env cost h0 hlen, fun tg rows h => ?_⟩
  have := zipT_snd_le_result _ tg rows h
  simpa using this

/-! ## 8. The lexer (lexer.go) and the parser's recursion -/

/-- all the `(*Lexer).Next` calls of one `Parse(expr)`: the instrumented lexer returns the model's token stream in at
    most `4·|expr| + 4` ticks, where a tick is ONE CALL of `(*Lexer).decodeRune` — every one Go makes: the decode at
    the head of each loop iteration (the iteration that leaves the loop included), every look-ahead of `Next`
    (lexer.go:65, :126, :139, :158, :185, :204, :223, :250, :253, :312, :365, and :544 in `variable`), the second
    decode after a backslash (:429, :477, :507), successful or not — or one `Next` call.  A single forward pass: each
    continuing iteration of each loop of lexer.go (the whitespace loop :28, `jsonLiteral` :410, `numberLiteral` :440,
    `quotedIdentifier` :458, `stringLiteral` :488, `unquotedIdentifier` :518, `variable` :557) advances the position
    by the size of a decoded rune — and there are at most `|expr| + 1` tokens.  (That the loop bounds `|expr|`,
    `|expr| + 1` carried by the mirrors are never what ends a loop: `Jmes/Proofs/C09EFuelLex.lean`.) -/
theorem lexer_resource (expr : Bytes) :
    (lexAllT expr).1 = lexAll expr ∧ (lexAllT expr).2 ≤ 4 * expr.length + 4 ∧
    (lexAll expr).1.length ≤ expr.length + 1 :=
  ⟨lexAllT_fst expr, lexAllT_snd_le expr, lexAll_length expr⟩

/-- `foo[?bar > `1`]` (15 bytes): 18 `decodeRune` calls in 7 `Next` calls -/
example : (lexAllT [0x66, 0x6F, 0x6F, 0x5B, 0x3F, 0x62, 0x61, 0x72, 0x20, 0x3E, 0x20, 0x60, 0x31, 0x60, 0x5D]).2 = 25 := by
  decide

/-- one `Next` after its whitespace loop (whose last decode is the rune `Next` dispatches on, charged there): the
    model's token, in at most as many `decodeRune` calls as the token has bytes, plus one (attained by `[*x`: two
    look-aheads for the one-byte token `[`); after a lexical error, at most the remaining bytes plus two -/
theorem lexToken_resource (s : Bytes) :
    (lexTokenT s).1 = lexToken s ∧ (lexTokenT s).2 ≤ tokBound s (lexToken s) :=
  ⟨lexTokenT_fst s, lexTokenT_snd_le s⟩

/-- a 3-byte identifier costs at most 4 decodes (in fact 3: `o`, `o`, and the `.` that stops the loop; the `f` was
    decoded by the whitespace loop): `tokBound` of a token spanning `n` bytes is `n + 1` -/
example : (lexTokenT [0x66, 0x6F, 0x6F, 0x2E]).2 ≤ 4 ∧ (lexTokenT [0x66, 0x6F, 0x6F, 0x2E]).2 = 3 := by
  have := lexTokenT_snd_le [0x66, 0x6F, 0x6F, 0x2E]
  have e : lexToken [0x66, 0x6F, 0x6F, 0x2E] = .ok (⟨.unquotedIdentifier, [0x66, 0x6F, 0x6F]⟩, 3) := by rfl
  rw [e] at this; exact ⟨this, by decide⟩

/-- look-aheads are charged where Go makes them: `<=` and a lone `<` one decode each, `[*x` two, `%` none; an escaped
    rune in a literal two -/
example : (lexTokenT [0x3C, 0x3D]).2 = 1 ∧ (lexTokenT [0x3C]).2 = 1 ∧ (lexTokenT [0x5B, 0x2A, 0x78]).2 = 2 ∧
    (lexTokenT [0x25]).2 = 0 ∧ (lexTokenT [0x27, 0x5C, 0x27, 0x27]).2 = 3 := by decide

/-- the parser (first wave, `Jmes/Proofs/Fuel.lean`): the recursion budget `Parser.fuelFor n = 8 n + 32`, linear in
    the number `n ≤ |expr| + 1` of tokens, is never exhausted — the nesting depth of the recursive descent is linear
    in the length of the expression.  (The parser's own work is NOT instrumented here.) -/
theorem parse_depth_linear (expr : Bytes) :
    Parser.parse expr ≠ .error .fuel ∧
    Parser.fuelFor (lexAll expr).1.length ≤ 8 * expr.length + 40 := by
  refine ⟨C09.fuel_sufficient expr, ?_⟩
  have := lexAll_length expr
  unfold Parser.fuelFor; omega

/-! ## 9. The first-wave results that matter at property level, restated next to the new definitions -/

/-- selected elements `≤` length, for ALL `start stop step : Int`: what the instrumented `sliceStep` returns (it is the
    model's result) never has more elements / code points than the subject -/
theorem sliceStep_selected_le (v : Val) : ∀ (start stop step : Int) (r : Val),
    (sliceStepT v start stop step).1 = .ok r →
    (∀ t xs, v = .arr t xs → ∃ ys, r = .arr .plain ys ∧ ys.length ≤ xs.length) ∧
    (∀ s, v = .str s → ∃ b, r = .str b ∧ runeCount b ≤ runeCount s ∧ b.length ≤ 4 * runeCount s) := by
  intro start stop step r h
  rw [sliceStepT_fst] at h
  exact ⟨fun t xs hv => C09.sliceStep_array_size t xs start stop step r (hv ▸ h),
         fun s hv => C09.sliceStep_string_size s start stop step r (hv ▸ h)⟩

/-- the clamp itself: for EVERY `step : Int` the first index is a valid index and the count is at most the length -/
theorem clampStep_selected_le (n start stop step a cnt : Int) (h : clampStep n start stop step = some (a, cnt)) :
    0 ≤ a ∧ a < n ∧ cnt ≤ n := C09.clampStep_bounds n start stop step a cnt h

example : clampStep 5 (2 ^ 63 - 1) (-(2 ^ 63)) (-(2 ^ 63)) = some (4, 1) := by decide

/-- counts are clamped by the occurrences: what the instrumented `split` / `strings.Replace` return is the model's
    value, which has `min count occurrences + 1` pieces resp. performs `min count occurrences` replacements -/
theorem counts_clamped (s p : Bytes) (hp : p ≠ []) (k : Nat) :
    (splitSepT s p (some k)).1.length = min k (Cost.occurrences s p) + 1 ∧
    (countT s p).1 = Cost.occurrences s p ∧ Cost.occurrences s p ≤ s.length ∧
    Cost.replaceTicks (s.length + 1) s p (some k) = min k (Cost.replaceTicks (s.length + 1) s p none) := by
  refine ⟨?_, countT_fst s p hp, C09.occurrences_le s p hp, C09.replace_count_clamp s p k⟩
  rw [splitSepT_fst s p hp, C09.splitOn_length]

example : (splitSepT [0x61, 0x2C, 0x62] [0x2C] (some (2 ^ 62))).1.length = 2 := by
  rw [(counts_clamped [0x61, 0x2C, 0x62] [0x2C] (by decide) (2 ^ 62)).1]; decide

/-- out-of-range integer literals are rejected at parse time: a parsed literal is a 64-bit value, and a literal
    outside `[-2^63, 2^63 - 1]` under the cursor of `parser.index` is the syntax error `invalidIndex` -/
theorem literals_in_range :
    (∀ (s : Bytes) (v : Int), parseInt64 s = some v → MinInt ≤ v ∧ v ≤ MaxInt) ∧
    (∀ (child : Option INode) (st : PState), st.curr.type = .integerLiteral → parseInt64 st.curr.value = none →
      Parser.indexP child st = .error .invalidIndex) :=
  ⟨C09.parseInt64_in_range, C09.indexP_bad_literal⟩

/-- `a[9223372036854775808]` does not parse; `a[9223372036854775807]` does -/
example : (match Parser.parse [0x61, 0x5B, 0x39, 0x32, 0x32, 0x33, 0x33, 0x37, 0x32, 0x30, 0x33, 0x36, 0x38, 0x35, 0x34,
    0x37, 0x37, 0x35, 0x38, 0x30, 0x38, 0x5D] with | .error .invalidIndex => true | _ => false) = true := by
  decide +kernel
example : (match Parser.parse [0x61, 0x5B, 0x39, 0x32, 0x32, 0x33, 0x33, 0x37, 0x32, 0x30, 0x33, 0x36, 0x38, 0x35, 0x34,
    0x37, 0x37, 0x35, 0x38, 0x30, 0x37, 0x5D] with
    | .ok (.index (.field [0x61]) 9223372036854775807) => true | _ => false) = true := by
  decide +kernel

/-! ## 10. A finding: the first sentence of C09 is FALSE for `pad_left` / `pad_right` as an intermediate value

  "time and memory bounded by a low-order polynomial in the length of the expression, the size of the document and
  the size of the RESULT": the width of `pad_left`/`pad_right` is not in the property's list of harmless integers,
  and it is not harmless.  The padded string has `width` code points; when it is not the result but an intermediate
  value — `length(pad_left('a', `1000000000`, '-'))`: 41 bytes of expression, no document, the 10-digit result
  `1000000000` — time and memory are linear in the MAGNITUDE of the literal.  Go (current /repo): width 10^6 13 ms,
  10^7 0.18 s, 10^8 2.1 s, 10^9 16 s and 1 GB; `4611686018427387904` cannot be allocated.  The model agrees as far as
  it goes (`padWith` materialises up to `padLimit` copies, then answers `unmodelled`), and so does the instrumented
  loop, which runs for every `n`: -/

/-- the cost of a growing pad is at least the number of copies added, `width - (code points of the subject)`:
    no bound in the size of the inputs exists, only one in the size of the padded string -/
theorem pad_cost_ge_width (left : Bool) (s p : Bytes) (orig : Val) (hp : runeCount p = 1) (w : Int)
    (hw : (runeCount s : Int) < w) :
    (w - (runeCount s : Int)).toNat ≤ (padWithT left s w p orig).2 := by
  rw [padWithT_snd]
  have h1 : ¬ w < 0 := by omega
  have h3 : ¬ w - (runeCount s : Int) ≤ 0 := by omega
  simp only [h1, hp, h3, if_false, ne_eq, not_true_eq_false]
  rw [Nat.mul_add, Nat.mul_one]; omega

/-- … so the ticks of `pad_left('a', w, '-')` are unbounded in the size of its arguments (1 byte each) … -/
theorem pad_not_input_bounded :
    ¬ ∃ c : Nat, ∀ w : Int, (padT true (.str [0x61]) (.num (.int .i64 w)) (.str [0x2D])).2 ≤ c := by
  intro ⟨c, h⟩
  have h1 := h ((c : Int) + 2)
  have h2 := pad_cost_ge_width true [0x61] [0x2D] (.str [0x61]) (by decide) ((c : Int) + 2)
    (by have : runeCount [0x61] = 1 := by decide
        rw [this]; omega)
  have e : (padT true (.str [0x61]) (.num (.int .i64 ((c : Int) + 2))) (.str [0x2D])).2
      = (padWithT true [0x61] ((c : Int) + 2) [0x2D] (.str [0x61])).2 := by
    simp [padT, argT, strArg, C09.intArg_i64]
  have e2 : runeCount [0x61] = 1 := by decide
  rw [e] at h1; rw [e2] at h2
  omega

/-- … while `length` of the padded string, the result of `length(pad_left('a', `100`, '-'))`, is the 3-digit
    number 100 -/
example : (padLeft (.str [0x61]) (.num (.int .i64 100)) (.str [0x2D])).bind length = .ok (.num (.int .i64 100)) := by
  rfl

end Jmes.C09C
