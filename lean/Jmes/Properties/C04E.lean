/-
  C04 (fourth part) — from BYTES to trees in one statement; which non-members are NOT reported as syntax errors, and
  why; the declarative grammar (Go's binding powers) against the published ABNF.

  1. `compile_iff_layout` — **one character-level iff**: `compile s = ok n` if and only if `s` is an admissible layout
     (`C04C.LayoutOK`: well-shaped tokens, whitespace runs, no fusing neighbours) of the tokens of a well-formed tree
     (`Grammar.WellPrec`) whose node is `n`.  No lexer or parser function on the right-hand side.
     `compile_error_iff`: everything else is rejected.
  2. **KF12 as a theorem** — `first_fault_wins`: the parser reads left to right through a window of two tokens, and
     the first fault it meets decides: if it reports a non-lexical error `e` on a token list whose input is cut behind
     it, it reports `e` on EVERY input whose token stream starts with that list — further tokens, a later lexical
     error, a later fault of another category change nothing.  Instances: `kf12_arity` (`abs(a, ]…`),
     `kf12_unknown` (`nosuch(((…`), `kf12_type` (`sort_by(a, b…`), `kf12_value` (`a[::0]…`), each for all
     continuations; `kf12_window`: a lexical error inside the window does win (`abs(a,#`, `nosuch((#`); and an earlier
     syntax fault wins over a later static one (`a b abs()`).
  3. `static_fault_shape` — **which non-members are not syntax errors**: whenever `compile` reports arity /
     unknown-function / invalid-type / invalid-value, the token stream contains a segment of the corresponding shape
     (`FaultSeg`): `name (` with an unknown name; a call of a builtin with well-formed arguments closed too early
     (`)`) or continued too far (`,`); `sort_by ( a ,` not followed by `&`, `map (` not followed by `&`; the inside
     `a : b : 0 ]` of a slice.  Corollaries `unknownFunction_shape`, `invalidValue_shape`, `invalidType_shape`,
     `arity_shape`.
  4. `Abnf` — the JMESPath Community ABNF as an inductive predicate over token lists (ambiguous, no precedence);
     `abnf_accepted`: every ABNF sentence is the printing of a well-formed tree; `accepted_abnf`: and conversely;
     `abnf_iff`: **the ABNF and Go's binding-power grammar define the same language**; `abnf_compiles`,
     `compile_iff_abnf`: at the level of `compile`, on bytes.  `kf11_not_abnf`: the KF11 shapes are outside.

  Helpers: `Proofs/C04ELemmas.lean` (frame property of the thirteen parser functions), `Proofs/C04EFault*.lean`
  (the fault witness), `Proofs/C04EAbnf.lean` (surgery on well-formed trees: `attach`, `pre`, `merge`).
-/
import Jmes.Properties.C04C
import Jmes.Proofs.C04ELemmas
import Jmes.Proofs.C04EFaultMain
import Jmes.Proofs.C04EAbnf
namespace Jmes.C04E
open Jmes Jmes.Pratt Jmes.Lexical Jmes.Lex Jmes.Grammar Jmes.GrammarF0 Jmes.GrammarS Jmes.C04C Jmes.C04EAbnf
set_option linter.unusedSimpArgs false

/-! ## 1. From bytes to trees -/

/-- **`compile_iff_layout`** (C04, both directions, on BYTES): a text compiles to `n` if and only if it is an
    admissible layout — tokens spelt as the lexical grammar prescribes, whitespace runs between them, empty only
    where the neighbours do not fuse — of the tokens of a well-formed tree of the grammar whose node is `n` -/
theorem compile_iff_layout (s : Bytes) (n : INode) :
    compile s = .ok n ↔
      ∃ (t : PTree) (w0 : Bytes) (l : List (Token × Bytes)),
        WellPrec t ∧ Ws w0 ∧ LayoutOK l ∧ l.map (·.1) = Grammar.flatten t ∧ s = layout w0 l ∧ erase t = n := by
  constructor
  · intro h
    obtain ⟨t, hw, hl, he⟩ := (C04G.parse_iff s n).1 h
    obtain ⟨w0, l, hw0, hok, hmap, hs⟩ := (lex_layout_iff s (Grammar.flatten t)).1 hl
    exact ⟨t, w0, l, hw, hw0, hok, hmap, hs, he⟩
  · rintro ⟨t, w0, l, hw, hw0, hok, hmap, hs, he⟩
    exact (C04G.parse_iff s n).2 ⟨t, hw, (lex_layout_iff s _).2 ⟨w0, l, hw0, hok, hmap, hs⟩, he⟩

/-- … and every other text is rejected -/
theorem compile_error_iff (s : Bytes) :
    (∃ e, compile s = .error e) ↔
      ¬ ∃ (t : PTree) (w0 : Bytes) (l : List (Token × Bytes)),
        WellPrec t ∧ Ws w0 ∧ LayoutOK l ∧ l.map (·.1) = Grammar.flatten t ∧ s = layout w0 l := by
  constructor
  · rintro ⟨e, he⟩ ⟨t, w0, l, h1, h2, h3, h4, h5⟩
    have := (compile_iff_layout s (erase t)).2 ⟨t, w0, l, h1, h2, h3, h4, h5, rfl⟩
    rw [he] at this; cases this
  · intro h
    cases hc : compile s with
    | error e => exact ⟨e, rfl⟩
    | ok n =>
      obtain ⟨t, w0, l, h1, h2, h3, h4, h5, _⟩ := (compile_iff_layout s n).1 hc
      exact absurd ⟨t, w0, l, h1, h2, h3, h4, h5⟩ h

section Examples1
open Grammar.Ex
-- `\tfoo [\n0 ]\r\n. bar `: the tree, the whitespace, the tokens
example : ∃ (t : PTree) (w0 : Bytes) (l : List (Token × Bytes)), WellPrec t ∧ Ws w0 ∧ LayoutOK l ∧
    l.map (·.1) = Grammar.flatten t ∧ bs "\tfoo [\n0 ]\r\n. bar " = layout w0 l ∧
    erase t = .pipe (.index (.field (bs "foo")) 0) (.field (bs "bar")) :=
  (compile_iff_layout _ _).1 (by
    have h : lexAll (bs "foo[0].bar") = ([tFoo, tLB, tNum "0", tRB, tDotT, tBar] ++ [eot], none) := by decide
    have hl := (layoutOK_iff [(tFoo, bs " "), (tLB, bs "\n"), (tNum "0", bs " "), (tRB, bs "\r\n"), (tDotT, bs " "),
      (tBar, bs " ")]).2 ⟨shapes_of_lexAll h, by decide⟩
    exact compile_layout (t := .dotId (.index (idt "foo") (int "0")) (idt "bar")) (by decide) (w0 := bs "\t")
      (by decide) hl (by decide))
-- `a b` is no layout of the tokens of any tree
example : ¬ ∃ (t : PTree) (w0 : Bytes) (l : List (Token × Bytes)),
    WellPrec t ∧ Ws w0 ∧ LayoutOK l ∧ l.map (·.1) = Grammar.flatten t ∧ bs "a b" = layout w0 l :=
  (compile_error_iff _).1 ⟨_, C04G.ab_rejected⟩
end Examples1

/-! ## 2. The first fault in token order decides (KF12) -/

/-- `Parser.parse` is `parseToks` of the token stream: the two initial pulls, then the top-level block -/
theorem compile_eq_parseToks (s : Bytes) : compile s = C04ELemmas.parseToks (lexAll s).1 (lexAll s).2 := rfl

/-- **prefix determinacy** (token level): run the parser on the token list `pre` with the input CUT behind it (a
    pending lexical error `X`: every pull beyond `pre` fails).  Whatever it answers — unless the answer is that very
    lexical error, i.e. unless it tried to pull beyond `pre` — it answers on every token stream that starts with
    `pre`, whatever follows (`r`) and however the stream ends (`le`). -/
theorem prefix_determines {pre : List Token} {X : LexErr} {res : Except PErr INode}
    (h : C04ELemmas.parseToks pre (some X) = res) (hne : ∀ x, res ≠ .error (.lex x)) (r : List Token)
    (le : Option LexErr) : C04ELemmas.parseToks (pre ++ r) le = res :=
  C04ELemmas.parseToks_prefix h hne r le

/-- **`first_fault_wins`** (KF12): if a text `s1` whose token stream is `pre`, cut there by a lexical error, is rejected
    with a non-lexical error `e` — a static fault or an unexpected token met while only `pre` was in sight — then
    every text `s2` whose token stream starts with `pre` is rejected with exactly `e`: whatever comes later (more
    tokens, a syntax break, a lexical error, another static fault) is never looked at.  In particular an earlier static
    fault wins over every later syntax error, and an earlier syntax error over every later static fault. -/
theorem first_fault_wins {s1 s2 : Bytes} {pre r : List Token} {X : LexErr} {le : Option LexErr} {e : PErr}
    (h1 : lexAll s1 = (pre, some X)) (he : compile s1 = .error e) (hne : ∀ x, e ≠ .lex x)
    (h2 : lexAll s2 = (pre ++ r, le)) : compile s2 = .error e := by
  rw [compile_eq_parseToks, h1] at he
  rw [compile_eq_parseToks, h2]
  exact prefix_determines he (fun x hx => hne x (by injection hx)) r le

/-- the same with the prefix given as tokens -/
theorem first_fault_wins_toks {s : Bytes} {pre r : List Token} {X : LexErr} {le : Option LexErr} {e : PErr}
    (he : C04ELemmas.parseToks pre (some X) = .error e) (hne : ∀ x, e ≠ .lex x)
    (h : lexAll s = (pre ++ r, le)) : compile s = .error e := by
  rw [compile_eq_parseToks, h]
  exact prefix_determines he (fun x hx => hne x (by injection hx)) r le

/-- … and for every admissible layout of a token list that starts with `pre` -/
theorem first_fault_wins_layout {pre r : List Token} {X : LexErr} {e : PErr}
    (he : C04ELemmas.parseToks pre (some X) = .error e) (hne : ∀ x, e ≠ .lex x) {w0 : Bytes}
    {l : List (Token × Bytes)} (hw0 : Ws w0) (hl : LayoutOK l) (hmap : l.map (·.1) = pre ++ r) :
    compile (layout w0 l) = .error e :=
  first_fault_wins_toks (r := r ++ [eot]) he hne (by rw [lex_layout hw0 hl, hmap, List.append_assoc])

section KF12
open Grammar.Ex
def tId (s : String) : Token := ⟨.unquotedIdentifier, bs s⟩

/-- the tokens of `abs(a, ]` -/
def kfArity : List Token := [tId "abs", tLParen, tId "a", tComma, tRBracket]
/-- the tokens of `nosuch(((` -/
def kfUnknown : List Token := [tId "nosuch", tLParen, tLParen, tLParen]
/-- the tokens of `sort_by(a, b` -/
def kfType : List Token := [tId "sort_by", tLParen, tId "a", tComma, tId "b"]
/-- the tokens of `a[::0]` -/
def kfValue : List Token := [tId "a", tLBracket, tColon, tColon, ⟨.integerLiteral, bs "0"⟩, tRBracket]

example : lexAll (bs "abs(a, ]") = (kfArity ++ [eot], none) ∧ lexAll (bs "nosuch(((") = (kfUnknown ++ [eot], none) ∧
    lexAll (bs "sort_by(a, b#") = (kfType, some (.unexpectedRune 0x23)) ∧
    lexAll (bs "a[::0]'") = (kfValue, some .unexpectedEnd) := by decide

/-- **KF12, `abs(a, ]`**: every text whose tokens start with `abs ( a , ]` is an ARITY error — no syntax error -/
theorem kf12_arity {s : Bytes} {r : List Token} {le : Option LexErr} (h : lexAll s = (kfArity ++ r, le)) :
    compile s = .error .invalidFunctionCall :=
  first_fault_wins_toks (X := .unexpectedEnd) (C04.errorOf_eq (by decide +kernel)) (fun _ h => by cases h) h
/-- **KF12, `nosuch(((`**: unknown-function, whatever follows -/
theorem kf12_unknown {s : Bytes} {r : List Token} {le : Option LexErr} (h : lexAll s = (kfUnknown ++ r, le)) :
    compile s = .error .unknownFunction :=
  first_fault_wins_toks (X := .unexpectedEnd) (C04.errorOf_eq (by decide +kernel)) (fun _ h => by cases h) h
/-- **KF12, `sort_by(a, b`**: invalid-type, whatever follows -/
theorem kf12_type {s : Bytes} {r : List Token} {le : Option LexErr} (h : lexAll s = (kfType ++ r, le)) :
    compile s = .error .invalidFunctionArgument :=
  first_fault_wins_toks (X := .unexpectedEnd) (C04.errorOf_eq (by decide +kernel)) (fun _ h => by cases h) h
/-- **KF12, `a[::0]`**: invalid-value, whatever follows -/
theorem kf12_value {s : Bytes} {r : List Token} {le : Option LexErr} (h : lexAll s = (kfValue ++ r, le)) :
    compile s = .error .invalidSliceStep :=
  first_fault_wins_toks (X := .unexpectedEnd) (C04.errorOf_eq (by decide +kernel)) (fun _ h => by cases h) h

-- the four witnesses of KF12, and two continuations with further faults
example : compile (bs "abs(a, ]") = .error .invalidFunctionCall := kf12_arity (r := [eot]) (le := none) (by decide)
example : compile (bs "abs(a, ] nosuch( 'x") = .error .invalidFunctionCall :=
  kf12_arity (r := [tId "nosuch", tLParen]) (le := some .unexpectedEnd) (by decide)
example : compile (bs "nosuch(((") = .error .unknownFunction := kf12_unknown (r := [eot]) (le := none) (by decide)
example : compile (bs "sort_by(a, b#") = .error .invalidFunctionArgument :=
  kf12_type (r := []) (le := some (.unexpectedRune 0x23)) (by decide)
example : compile (bs "a[::0]'") = .error .invalidSliceStep := kf12_value (r := []) (le := some .unexpectedEnd) (by decide)
example : parseCat .invalidFunctionCall = .arity ∧ parseCat .unknownFunction = .unknownFunction ∧
    parseCat .invalidFunctionArgument = .invalidType ∧ parseCat .invalidSliceStep = .invalidValue := ⟨rfl, rfl, rfl, rfl⟩

/-- **the window**: the parser looks two tokens ahead, so a lexical error among the next two tokens is reported
    BEFORE the static fault is noticed: `abs(a,#` and `nosuch((#` are lexical (syntax) errors although `abs(a, ]` and
    `nosuch(((` are not; and an earlier syntax fault wins over a later static one: `a b abs()` -/
theorem kf12_window :
    compile (bs "abs(a,#") = .error (.lex (.unexpectedRune 0x23)) ∧
    compile (bs "nosuch((#") = .error (.lex (.unexpectedRune 0x23)) ∧
    compile (bs "abs()#") = .error (.lex (.unexpectedRune 0x23)) ∧
    compile (bs "a b abs()") = .error .unexpectedToken :=
  ⟨C04.errorOf_eq (by decide +kernel), C04.errorOf_eq (by decide +kernel), C04.errorOf_eq (by decide +kernel),
   C04.errorOf_eq (by decide +kernel)⟩

-- `first_fault_wins` on two texts: `sort_by(a, b#` decides for `sort_by(a, b ] ]`
example : compile (bs "sort_by(a, b ] ]") = .error .invalidFunctionArgument :=
  first_fault_wins (s1 := bs "sort_by(a, b#") (pre := kfType) (X := .unexpectedRune 0x23) (by decide)
    (C04.errorOf_eq (by decide +kernel)) (fun _ h => by cases h) (r := [tRBracket, tRBracket, eot]) (le := none) (by decide)
-- `prefix_determines` / `first_fault_wins_layout`
example (r : List Token) (le : Option LexErr) :
    C04ELemmas.parseToks (kfArity ++ r) le = .error .invalidFunctionCall :=
  prefix_determines (X := .unexpectedEnd) (C04.errorOf_eq (by decide +kernel)) (fun _ h => by cases h) r le
example : compile (layout (bs " ") [(tId "abs", []), (tLParen, bs "\n"), (tId "a", []), (tComma, bs "\t"), (tRBracket, [])])
    = .error .invalidFunctionCall :=
  first_fault_wins_layout (pre := kfArity) (r := []) (X := .unexpectedEnd) (C04.errorOf_eq (by decide +kernel))
    (fun _ h => by cases h) (by decide)
    ((layoutOK_iff _).2 ⟨shapes_of_lexAll (s := bs "abs ( a , ]") (by decide), by decide⟩) (by decide)
end KF12

/-! ## 3. Which non-members are not syntax errors -/

open C04EFault in
/-- the four non-syntax categories -/
theorem isStatic_iff (e : PErr) : IsStatic e = true ↔ parseCat e ≠ .syntax := by
  cases e <;> simp [IsStatic, parseCat]

open C04EFault in
/-- **`static_fault_shape`**: whenever `compile` reports a category other than syntax, the token stream of the text
    (as far as the lexer got) is `pre ++ seg ++ post` with `seg` a fault segment of that kind (`FaultSeg`):
    * unknown-function: `name (`, `name` not a builtin;
    * arity: `name ( )`; `name ( e1 , … , ek )` with `k` below the minimum; `name ( e1 , … , ek ,` with `k` the maximum
      (the `ei` well-formed trees); for `sort_by`-like builtins `name ( a )` and `name ( a , & e ,`; for `map`
      `name ( & e )` and `name ( & e , a ,`;
    * invalid-type: `name ( a ,` not followed by `&` (`sort_by`-like), `map (` followed neither by `&` nor by `)`;
    * invalid-value: `a : b : 0 ]`, the inside of a slice with step zero. -/
theorem static_fault_shape {s : Bytes} {e : PErr} (h : compile s = .error e) (hc : parseCat e ≠ .syntax) :
    ∃ pre seg post, (lexAll s).1 = pre ++ seg ++ post ∧ FaultSeg e seg post :=
  fault_witness ((isStatic_iff e).2 hc) h

open C04EFault in
/-- unknown-function: an unquoted identifier that is not a builtin, followed by `(` -/
theorem unknownFunction_shape {s : Bytes} (h : compile s = .error .unknownFunction) :
    ∃ pre name post, (lexAll s).1 = pre ++ name :: tLParen :: post ∧ name.type = .unquotedIdentifier ∧
      Parser.lookupBuiltin name.value = none := by
  obtain ⟨pre, seg, post, hs, hf⟩ := static_fault_shape h (by decide)
  cases hf with
  | unknown hn hl => exact ⟨pre, _, post, by simpa using hs, hn, hl⟩

open C04EFault in
/-- invalid-value: the inside of a bracket specifier `a : b : z ]` whose step `z` is an integer literal of value 0 -/
theorem invalidValue_shape {s : Bytes} (h : compile s = .error .invalidSliceStep) :
    ∃ pre a b z post, (lexAll s).1 = pre ++ sliceToks a b (some (some z)) ++ tRBracket :: post ∧
      optIntTok a = true ∧ optIntTok b = true ∧ isIntTok z = true ∧ intOf z = some 0 := by
  obtain ⟨pre, seg, post, hs, hf⟩ := static_fault_shape h (by decide)
  cases hf with
  | stepZero ha hb hz hz0 => exact ⟨pre, _, _, _, post, by simpa using hs, ha, hb, hz, hz0⟩

open C04EFault in
/-- invalid-type: a builtin that takes an expression reference, and no `&` where it belongs -/
theorem invalidType_shape {s : Bytes} (h : compile s = .error .invalidFunctionArgument) :
    ∃ pre name post, name.type = .unquotedIdentifier ∧ (stOf post).curr.type ≠ .expression ∧
      ((∃ mk a, Parser.lookupBuiltin name.value = some (.expArg mk) ∧ wp false a = true ∧
          (lexAll s).1 = pre ++ name :: tLParen :: Grammar.flat false a ++ tComma :: post) ∨
       (∃ mk, Parser.lookupBuiltin name.value = some (.mapArg mk) ∧ (lexAll s).1 = pre ++ name :: tLParen :: post)) := by
  obtain ⟨pre, seg, post, hs, hf⟩ := static_fault_shape h (by decide)
  cases hf with
  | expNoRef hn hl hw hx =>
    exact ⟨pre, _, post, hn, hx, Or.inl ⟨_, _, hl, hw, by simpa using hs⟩⟩
  | mapNoRef hn hl hx _ => exact ⟨pre, _, post, hn, hx, Or.inr ⟨_, hl, by simpa using hs⟩⟩

open C04EFault in
/-- arity: a call of a BUILTIN (the name is known) — the faulty call starts with `name (` -/
theorem arity_shape {s : Bytes} (h : compile s = .error .invalidFunctionCall) :
    ∃ pre seg post name spec rest, (lexAll s).1 = pre ++ seg ++ post ∧ FaultSeg .invalidFunctionCall seg post ∧
      seg = name :: tLParen :: rest ∧ name.type = .unquotedIdentifier ∧ Parser.lookupBuiltin name.value = some spec ∧
      (rest.getLast? = some tRParen ∨ rest.getLast? = some tComma) := by
  obtain ⟨pre, seg, post, hs, hf⟩ := static_fault_shape h (by decide)
  refine ⟨pre, seg, post, ?_⟩
  cases hf with
  | noArgs hn hl => exact ⟨_, _, _, hs, .noArgs hn hl, rfl, hn, hl, Or.inl rfl⟩
  | tooFew hn hl h1 h2 h3 => exact ⟨_, _, _, hs, .tooFew hn hl h1 h2 h3, rfl, hn, hl, Or.inl (last_app _ rfl)⟩
  | tooMany hn hl h1 h2 h3 => exact ⟨_, _, _, hs, .tooMany hn hl h1 h2 h3, rfl, hn, hl, Or.inr (last_app _ rfl)⟩
  | expFew hn hl h1 => exact ⟨_, _, _, hs, .expFew hn hl h1, rfl, hn, hl, Or.inl (last_app _ rfl)⟩
  | expMany hn hl h1 h2 =>
    exact ⟨_, _, _, hs, .expMany hn hl h1 h2, rfl, hn, hl, Or.inr (last_app _ rfl)⟩
  | mapFew hn hl h1 => exact ⟨_, _, _, hs, .mapFew hn hl h1, rfl, hn, hl, Or.inl (last_app _ rfl)⟩
  | mapMany hn hl h1 h2 =>
    exact ⟨_, _, _, hs, .mapMany hn hl h1 h2, rfl, hn, hl,
      Or.inr (last_app _ rfl)⟩

section Examples3
open Grammar.Ex
-- `abs(a, ]`: the segment is `abs ( a ,`, one argument where one is the maximum
example : ∃ pre seg post, (lexAll (bs "abs(a, ]")).1 = pre ++ seg ++ post ∧
    C04EFault.FaultSeg .invalidFunctionCall seg post :=
  static_fault_shape (kf12_arity (r := [eot]) (le := none) (by decide)) (by decide)
example : C04EFault.FaultSeg .invalidFunctionCall ([tId "abs", tLParen] ++ flatSep [idt "a"] ++ [tComma]) [tRBracket, eot] :=
  .tooMany (mn := 1) (mx := 1) (mk := Parser.callN .abs) (es := [idt "a"]) rfl rfl (by simp) (by decide) rfl
example : ∃ pre name post, (lexAll (bs "nosuch(((")).1 = pre ++ name :: tLParen :: post ∧
    name.type = .unquotedIdentifier ∧ Parser.lookupBuiltin name.value = none :=
  unknownFunction_shape (kf12_unknown (r := [eot]) (le := none) (by decide))
example : ∃ pre a b z post, (lexAll (bs "a[::0]'")).1 = pre ++ sliceToks a b (some (some z)) ++ tRBracket :: post ∧
    optIntTok a = true ∧ optIntTok b = true ∧ isIntTok z = true ∧ intOf z = some 0 :=
  invalidValue_shape (kf12_value (r := []) (le := some .unexpectedEnd) (by decide))
-- a syntax error has no such witness requirement: the theorem is about the four other categories only
example : parseCat .unexpectedToken = .syntax ∧ parseCat (.lex .unexpectedEnd) = .syntax ∧
    parseCat .invalidIndex = .syntax := ⟨rfl, rfl, rfl⟩
end Examples3

/-! ## 4. The published ABNF -/

/-- **The JMESPath Community ABNF, over the lexer's tokens.**  One constructor per alternative of the published grammar
    (jmespath.site, with JEP-16 arithmetic and JEP-18 `let`); like the ABNF — and unlike `Spec/Grammar.lean` — it has
    NO precedence or associativity: `expression = expression "||" expression` is `bin`, whatever `l` and `r` are.

    ```
    expression        = sub-expression / index-expression / comparator-expression / or-expression / identifier
                      / and-expression / not-expression / paren-expression / "*" / multi-select-list
                      / multi-select-hash / literal / function-expression / pipe-expression / raw-string
                      / current-node / root-node / arithmetic-expression / let-expression / variable-ref
    sub-expression    = expression "." ( identifier / multi-select-list / multi-select-hash / function-expression / "*" )
    index-expression  = expression bracket-specifier / bracket-specifier
    bracket-specifier = "[" (number / "*" / slice-expression) "]" / "[]" / "[?" expression "]"
    multi-select-list = "[" expression *( "," expression ) "]"
    multi-select-hash = "{" keyval-expr *( "," keyval-expr ) "}"        keyval-expr = identifier ":" expression
    function-expression = unquoted-string "(" function-arg *( "," function-arg ) ")"
    function-arg      = expression / "&" expression
    arithmetic-expression = "+" expression / "-" expression / expression ("+" / "-" / "*" / "×" / "/" / "÷" / "%" / "//") expression
    let-expression    = "let" variable-ref "=" expression *( "," variable-ref "=" expression ) "in" expression
    ```

    What is NOT taken from the ABNF, and why (each is a named, documented shape):
    * the terminals are the lexer's tokens, so `[*]`, `[]`, `[?` and `.*` are single terminals: the spellings with
      white space inside (`foo[ * ]`, `foo. *`: KF11) are not sentences here (`kf11_not_abnf`); `let` and `in` are
      keyword tokens, not identifiers (KF19);
    * identifier, raw-string, literal, `@`, `$`, `$name` are one rule `atom`: any token that `atomNode` accepts (a
      quoted identifier or a JSON literal must decode: `C04.json_decode_iff`, C16);
    * a function-expression must be a LEGAL call — a builtin, with a number of arguments in its range and `&` exactly
      where it takes an expression reference (`argShape`); the other calls of the ABNF are rejected with an arity /
      unknown-function / invalid-type error, not a syntax error (`static_fault_shape`); in particular `no-args` is
      absent: no builtin takes no argument;
    * numbers in brackets fit 64 bits and a slice step is not zero (`isIntTok`, `sliceOK`). -/
inductive Abnf : List Token → Prop
  /-- identifier / raw-string / literal / current-node `@` / root-node `$` / variable-ref `$name` -/
  | atom (t : Token) : (atomNode t).isSome = true → Abnf [t]
  /-- `"*"` -/
  | wild : Abnf [tStar]
  /-- not-expression = `"!" expression` -/
  | not {e : List Token} : Abnf e → Abnf (tNot :: e)
  /-- `"-" expression` (the token is `-` or `−`) -/
  | neg (k : Token) {e : List Token} : k.type = .subtract → Abnf e → Abnf (k :: e)
  /-- `"+" expression` -/
  | pos {e : List Token} : Abnf e → Abnf (tPlus :: e)
  /-- paren-expression -/
  | paren {e : List Token} : Abnf e → Abnf (tLParen :: e ++ [tRParen])
  /-- pipe- / or- / and- / comparator- / arithmetic-expression = `expression op expression` -/
  | bin (op : Token) {l r : List Token} : (binLevel op.type).isSome = true → Abnf l → Abnf r → Abnf (l ++ op :: r)
  /-- `expression "." identifier` -/
  | subId {l : List Token} (k : Token) : Abnf l → keyOK k = true → Abnf (l ++ [tDot, k])
  /-- `expression "." multi-select-list` -/
  | subList {l : List Token} (es : List (List Token)) : Abnf l → es ≠ [] → (∀ e ∈ es, Abnf e) →
      Abnf (l ++ (tDot :: tLBracket :: joinSep es ++ [tRBracket]))
  /-- `expression "." multi-select-hash` -/
  | subHash {l : List Token} (kvs : List (Token × List Token)) : Abnf l → kvs ≠ [] →
      (∀ kv ∈ kvs, keyOK kv.1 = true) → (∀ kv ∈ kvs, Abnf kv.2) → Abnf (l ++ (tDot :: tLBrace :: joinKVs tColon kvs ++ [tRBrace]))
  /-- `expression "." function-expression` -/
  | subCall {l : List Token} (name : Token) (spec : Parser.ArgSpec) (args : List (Bool × List Token)) : Abnf l →
      name.type = .unquotedIdentifier → Parser.lookupBuiltin name.value = some spec →
      argShape spec (args.map (·.1)) = true → (∀ a ∈ args, Abnf a.2) →
      Abnf (l ++ (tDot :: name :: tLParen :: joinSep (args.map argToks) ++ [tRParen]))
  /-- `expression "." "*"`, the fused token `.*` -/
  | subStar {l : List Token} : Abnf l → Abnf (l ++ [tDotStar])
  /-- `expression "." "[" "*" "]"` (the multi-select list of `*`), spelt with the fused token `[*]` -/
  | subStarList {l : List Token} : Abnf l → Abnf (l ++ [tDot, tArrayStar])
  /-- `expression "[" number "]"` -/
  | index {l : List Token} (n : Token) : Abnf l → isIntTok n = true → Abnf (l ++ [tLBracket, n, tRBracket])
  /-- `"[" number "]"` -/
  | index0 (n : Token) : isIntTok n = true → Abnf [tLBracket, n, tRBracket]
  /-- `expression "[" "*" "]"`, the fused token `[*]` -/
  | star {l : List Token} : Abnf l → Abnf (l ++ [tArrayStar])
  /-- `"[" "*" "]"` -/
  | star0 : Abnf [tArrayStar]
  /-- `expression "[" slice-expression "]"` -/
  | slice {l : List Token} (a b : Option Token) (c : Option (Option Token)) : Abnf l → sliceOK a b c = true →
      Abnf (l ++ (tLBracket :: sliceToks a b c ++ [tRBracket]))
  /-- `"[" slice-expression "]"` -/
  | slice0 (a b : Option Token) (c : Option (Option Token)) : sliceOK a b c = true →
      Abnf (tLBracket :: sliceToks a b c ++ [tRBracket])
  /-- `expression "[]"` -/
  | flatten {l : List Token} : Abnf l → Abnf (l ++ [tFlatten])
  /-- `"[]"` -/
  | flatten0 : Abnf [tFlatten]
  /-- `expression "[?" expression "]"` -/
  | filter {l c : List Token} : Abnf l → Abnf c → Abnf (l ++ (tFilter :: c ++ [tRBracket]))
  /-- `"[?" expression "]"` -/
  | filter0 {c : List Token} : Abnf c → Abnf (tFilter :: c ++ [tRBracket])
  /-- multi-select-list -/
  | multiList (es : List (List Token)) : es ≠ [] → (∀ e ∈ es, Abnf e) → Abnf (tLBracket :: joinSep es ++ [tRBracket])
  /-- multi-select-hash -/
  | multiHash (kvs : List (Token × List Token)) : kvs ≠ [] → (∀ kv ∈ kvs, keyOK kv.1 = true) → (∀ kv ∈ kvs, Abnf kv.2) →
      Abnf (tLBrace :: joinKVs tColon kvs ++ [tRBrace])
  /-- function-expression (a legal call) -/
  | call (name : Token) (spec : Parser.ArgSpec) (args : List (Bool × List Token)) :
      name.type = .unquotedIdentifier → Parser.lookupBuiltin name.value = some spec →
      argShape spec (args.map (·.1)) = true → (∀ a ∈ args, Abnf a.2) →
      Abnf (name :: tLParen :: joinSep (args.map argToks) ++ [tRParen])
  /-- let-expression -/
  | letIn (bs : List (Token × List Token)) {body : List Token} : bs ≠ [] →
      (∀ b ∈ bs, isVarTok b.1 = true) → (∀ b ∈ bs, Abnf b.2) → Abnf body →
      Abnf (tLet :: joinKVs tAssign bs ++ tIn :: body)



/-- the induction behind `abnf_accepted` (`Accepted ts`: `ts` is the printing of a well-formed tree) -/
theorem abnf_accepted_aux {ts : List Token} (h : Abnf ts) : Accepted ts := by
  induction h with
  | atom t h => exact ⟨.atom t, by show wp false _ = true; simp only [wp, Bool.not_false, Bool.true_and]; exact h, rfl⟩
  | wild => exact ⟨.ostar .icur .icur, by decide, rfl⟩
  | not _ ih => exact accepted_pre .not rfl ih
  | neg k hk _ ih => exact accepted_pre (.neg k) (by simp [Pre.ok, hk]) ih
  | pos _ ih => exact accepted_pre .pos rfl ih
  | paren _ ih =>
    obtain ⟨t, hw, hf⟩ := ih
    refine ⟨.paren t, ?_, by show Grammar.flat false _ = _; simp only [Grammar.flat]; rw [← hf]; rfl⟩
    show wp false _ = true
    simp only [wp, Bool.not_false, Bool.true_and]; exact hw
  | bin op hop _ _ ihl ihr =>
    obtain ⟨tl, hwl, hfl⟩ := ihl
    obtain ⟨tr, hwr, hfr⟩ := ihr
    obtain ⟨v, hv⟩ := Option.isSome_iff_exists.1 hop
    obtain ⟨h1, h2⟩ := merge_spec hv hwl tr hwr
    exact ⟨merge op tl tr, h1, by show Grammar.flat false _ = _; rw [h2, ← hfl, ← hfr]; rfl⟩
  | subId k _ hk ih =>
    obtain ⟨h1, h2⟩ := keyOK_atom hk
    have hlt : lvlDot < top := by decide
    exact accepted_attach (.dotId (.atom k))
      (by simp only [Ext.ok, h1, h2, Bool.true_and, Bool.and_true, decide_eq_true_eq, llevel, hlt]) ih
  | subList es _ hne _ ih ihs =>
    obtain ⟨tes, h1, h2, h3⟩ := lift_list es ihs
    have hne' : tes.isEmpty = false := by rw [h3]; cases es <;> simp at hne ⊢
    have := accepted_attach (.dotList tes) (by simp only [Ext.ok, hne', h1]; rfl) ih
    simpa only [Ext.toks, h2] using this
  | subHash kvs _ hne hk _ ih ihs =>
    obtain ⟨tes, h1, h2, h3⟩ := lift_kvs keyOK tColon kvs hk ihs
    have hne' : tes.isEmpty = false := by rw [h3]; cases kvs <;> simp at hne ⊢
    have := accepted_attach (.dotHash tes) (by simp only [Ext.ok, hne', h1]; rfl) ih
    simpa only [Ext.toks, h2] using this
  | subCall name spec args _ hn hl hs _ ih iha =>
    obtain ⟨targs, h1, h2⟩ := call_accepted hn hl hs iha
    have hsi : startsWithIdent (.call name targs) = true := by
      simp only [startsWithIdent, Grammar.flat, List.cons_append, List.head?, hn, beq_self_eq_true, Bool.true_or]
    have hlt : lvlDot < top := by decide
    have := accepted_attach (.dotId (.call name targs))
      (by simp only [Ext.ok, h1, hsi, Bool.true_and, Bool.and_true, decide_eq_true_eq, llevel, hlt]) ih
    simpa only [Ext.toks, h2, List.cons_append] using this
  | subStar _ ih => exact accepted_attach (.ostar .icur) rfl ih
  | subStarList _ ih => exact accepted_attach .dotStarList rfl ih
  | index n _ hn ih => exact accepted_attach (.index n) hn ih
  | index0 n hn =>
    exact ⟨.index .icur n, by show wp false _ = true; simp only [wp, PTree.isIcur, if_true, Bool.true_and]; exact hn, rfl⟩
  | star _ ih => exact accepted_attach (.star .icur) rfl ih
  | star0 => exact ⟨.star .icur .icur, by decide, rfl⟩
  | slice a b c _ hs ih =>
    have := accepted_attach (.slice a b c .icur) (by simp only [Ext.ok, hs, rhsOK_icur]; rfl) ih
    simpa only [Ext.toks, Grammar.flat, List.append_nil, Grammar.flatten] using this
  | slice0 a b c hs =>
    refine ⟨.slice .icur a b c .icur, ?_, ?_⟩
    · show wp false _ = true
      simp only [wp, PTree.isIcur, if_true, Bool.true_and, hs, Bool.true_or]
    · show Grammar.flat false _ = _
      simp only [Grammar.flat, List.nil_append, List.append_nil]
  | flatten _ ih => exact accepted_attach (.flat .icur) rfl ih
  | flatten0 => exact ⟨.flat .icur .icur, by decide, rfl⟩
  | filter _ _ ihl ihc =>
    obtain ⟨tc, hwc, rfl⟩ := ihc
    have hwc' : wp false tc = true := hwc
    have := accepted_attach (.filt tc .icur) (by simp only [Ext.ok, hwc', rhsOK_icur]; rfl) ihl
    simpa only [Ext.toks, Grammar.flat, List.append_nil, Grammar.flatten] using this
  | filter0 _ ihc =>
    obtain ⟨tc, hwc, hfc⟩ := ihc
    have hwc' : wp false tc = true := hwc
    refine ⟨.filt .icur tc .icur, ?_, ?_⟩
    · show wp false _ = true
      simp only [wp, PTree.isIcur, if_true, Bool.true_and, hwc', Bool.true_or]
    · show Grammar.flat false _ = _
      simp only [Grammar.flat, List.nil_append, List.append_nil]
      rw [← hfc]; rfl
  | multiList es hne _ ihs =>
    obtain ⟨tes, h1, h2, h3⟩ := lift_list es ihs
    have hne' : tes.isEmpty = false := by rw [h3]; cases es <;> simp at hne ⊢
    refine ⟨.multiList tes, ?_, by show Grammar.flat false _ = _; simp only [Grammar.flat, h2]⟩
    show wp false _ = true
    simp only [wp, hne', h1]; rfl
  | multiHash kvs hne hk _ ihs =>
    obtain ⟨tes, h1, h2, h3⟩ := lift_kvs keyOK tColon kvs hk ihs
    have hne' : tes.isEmpty = false := by rw [h3]; cases kvs <;> simp at hne ⊢
    refine ⟨.multiHash tes, ?_, by show Grammar.flat false _ = _; simp only [Grammar.flat, h2]⟩
    show wp false _ = true
    simp only [wp, hne', h1]; rfl
  | call name spec args hn hl hs _ iha =>
    obtain ⟨targs, h1, h2⟩ := call_accepted hn hl hs iha
    exact ⟨.call name targs, h1, h2⟩
  | letIn bs hne hv _ _ ihs ihb =>
    obtain ⟨tbs, h1, h2, h3⟩ := lift_kvs isVarTok tAssign bs hv ihs
    obtain ⟨tb, hwb, hfb⟩ := ihb
    have hwb' : wp false tb = true := hwb
    have hne' : tbs.isEmpty = false := by rw [h3]; cases bs <;> simp at hne ⊢
    refine ⟨.letIn tbs tb, ?_, by show Grammar.flat false _ = _; simp only [Grammar.flat, h2]; rw [← hfb]; rfl⟩
    show wp false _ = true
    simp only [wp, hne', h1, hwb']; rfl

/-- **`abnf_accepted`**: every sentence of the ABNF (over the lexer's tokens) is the printing of a well-formed tree of
    the declarative grammar — whatever way the ambiguous ABNF derives it, the binding-power discipline has a tree with
    the same tokens (built with `attach`, `pre`, `merge` of `Proofs/C04EAbnf.lean`) -/
theorem abnf_accepted {ts : List Token} (h : Abnf ts) : ∃ t : PTree, WellPrec t ∧ Grammar.flatten t = ts :=
  abnf_accepted_aux h

/-! ## The converse: every well-formed tree prints an ABNF sentence -/

/-- the right-hand side of a projection can follow any sentence -/
def RhsAbnf (rhs : PTree) : Prop := ∀ y, Abnf y → Abnf (y ++ Grammar.flat true rhs)

/-- `r` can follow a sentence and a dot -/
def DotAbnf (r : PTree) : Prop := ∀ y, Abnf y → Abnf (y ++ tDot :: Grammar.flat false r)

/-- the parts of an extension are sentences -/
def PayloadAbnf : Ext → Prop
  | .bin op r => (binLevel op.type).isSome = true ∧ Abnf (Grammar.flat false r)
  | .dotId r => DotAbnf r
  | .dotList es => es ≠ [] ∧ ∀ e ∈ es, Abnf (Grammar.flat false e)
  | .dotHash kvs => kvs ≠ [] ∧ (∀ kv ∈ kvs, keyOK kv.1 = true) ∧ ∀ kv ∈ kvs, Abnf (Grammar.flat false kv.2)
  | .dotStarList => True
  | .index n => isIntTok n = true
  | .star rhs => RhsAbnf rhs
  | .ostar rhs => RhsAbnf rhs
  | .flat rhs => RhsAbnf rhs
  | .filt c rhs => Abnf (Grammar.flat false c) ∧ RhsAbnf rhs
  | .slice a b c rhs => sliceOK a b c = true ∧ RhsAbnf rhs

/-- **closure**: a sentence followed by the tokens of an extension whose parts are sentences is a sentence -/
theorem abnf_ext (E : Ext) (hp : PayloadAbnf E) {x : List Token} (hx : Abnf x) : Abnf (x ++ E.toks) := by
  cases E with
  | bin op r => exact Abnf.bin op hp.1 hx hp.2
  | dotId r => exact hp x hx
  | dotList es =>
    have := Abnf.subList (es.map (Grammar.flat false)) hx (by simpa using hp.1)
      (by intro e he; obtain ⟨t, ht, rfl⟩ := List.mem_map.1 he; exact hp.2 t ht)
    simpa only [Ext.toks, flatSep_eq_join] using this
  | dotHash kvs =>
    have := Abnf.subHash (kvs.map fun kv => (kv.1, Grammar.flat false kv.2)) hx (by simpa using hp.1)
      (by intro e he; obtain ⟨t, ht, rfl⟩ := List.mem_map.1 he; exact hp.2.1 t ht)
      (by intro e he; obtain ⟨t, ht, rfl⟩ := List.mem_map.1 he; exact hp.2.2 t ht)
    simpa only [Ext.toks, flatKVs_eq_join] using this
  | dotStarList => exact Abnf.subStarList hx
  | index n => exact Abnf.index n hx hp
  | star rhs =>
    have := hp _ (Abnf.star hx)
    simpa only [Ext.toks, List.append_assoc, List.singleton_append] using this
  | ostar rhs =>
    have := hp _ (Abnf.subStar hx)
    simpa only [Ext.toks, List.append_assoc, List.singleton_append] using this
  | flat rhs =>
    have := hp _ (Abnf.flatten hx)
    simpa only [Ext.toks, List.append_assoc, List.singleton_append] using this
  | filt c rhs =>
    have := hp.2 _ (Abnf.filter hx hp.1)
    simpa only [Ext.toks, List.append_assoc, List.cons_append, List.nil_append] using this
  | slice a b c rhs =>
    have := hp.2 _ (Abnf.slice a b c hx hp.1)
    simpa only [Ext.toks, List.append_assoc, List.cons_append, List.nil_append] using this


/-- what the induction over trees establishes -/
structure Conv (t : PTree) : Prop where
  prim : wp false t = true → Abnf (Grammar.flat false t)
  rhs : wp true t = true → RhsAbnf t
  dot : wp false t = true → startsWithIdent t = true → lvlDot < llevel t → DotAbnf t
  ref : ∀ t', t = .ref t' → wp false t' = true → Abnf (Grammar.flat false t')

theorem rhs_of {rhs : PTree} (h : (rhs.isIcur || (wp true rhs && decide (lvlProj < llevel rhs))) = true)
    (hc : Conv rhs) : RhsAbnf rhs := by
  cases hi : rhs.isIcur
  · simp only [hi, Bool.false_or, Bool.and_eq_true] at h
    exact hc.rhs h.1
  · have := isIcur_eq hi
    subst this
    intro y hy
    simpa [Grammar.flat] using hy

theorem conv_mk (E : Ext) (l : PTree) (hl : Conv l) (hp : E.ok = true → PayloadAbnf E)
    (hleaf : wp false (E.mk .icur) = true → Abnf (Grammar.flat false (E.mk .icur))) : Conv (E.mk l) := by
  refine ⟨?_, ?_, ?_, ?_⟩
  · intro hw
    cases hi : l.isIcur
    · obtain ⟨hwl, _, hok⟩ := (E.wp_mk false hi).1 hw
      rw [E.flat_mk false hi]
      exact abnf_ext E (hp hok) (hl.prim hwl)
    · have := isIcur_eq hi; subst this; exact hleaf hw
  · intro hw y hy
    cases hi : l.isIcur
    · obtain ⟨hwl, _, hok⟩ := (E.wp_mk true hi).1 hw
      rw [E.flat_mk true hi, ← List.append_assoc]
      exact abnf_ext E (hp hok) (hl.rhs hwl y hy)
    · have := isIcur_eq hi; subst this
      obtain ⟨hok, hs⟩ := wp_mk_icur_inv hw
      rw [E.flat_mk_icur hs]
      exact abnf_ext E (hp hok) hy
  · intro hw hs hlv y hy
    cases hi : l.isIcur
    · obtain ⟨hwl, _, hok⟩ := (E.wp_mk false hi).1 hw
      have hne := flat_ne_nil hwl
      have hsl : startsWithIdent l = true := by
        unfold startsWithIdent at hs ⊢
        rw [E.flat_mk false hi, head_append_of_ne hne] at hs
        exact hs
      have hll : lvlDot < llevel l := by rw [E.llevel_mk_ne hi] at hlv; omega
      have := abnf_ext E (hp hok) (hl.dot hwl hsl hll y hy)
      rw [E.flat_mk false hi]
      simpa only [List.append_assoc, List.cons_append] using this
    · have := isIcur_eq hi; subst this
      rw [startsWithIdent_mk_icur hw] at hs; cases hs
  · intro t' h; cases E <;> cases h


theorem conv_arg {e : PTree} (hc : Conv e) (hw : wp false (GrammarF2.unref e) = true) :
    Abnf (Grammar.flat false (GrammarF2.unref e)) := by
  cases e <;> first | exact hc.ref _ rfl hw | exact hc.prim hw

/-- a well-formed call prints a call of the ABNF -/
theorem conv_call {name : Token} {args : List PTree} (ih : ∀ e ∈ args, Conv e) (hw : wp false (.call name args) = true) :
    ∃ spec, name.type = .unquotedIdentifier ∧ Parser.lookupBuiltin name.value = some spec ∧
      argShape spec ((args.map fun a => (a.isRef, Grammar.flat false (GrammarF2.unref a))).map (·.1)) = true ∧
      (∀ a ∈ args.map fun a => (a.isRef, Grammar.flat false (GrammarF2.unref a)), Abnf a.2) := by
  simp only [wp, Bool.not_false, Bool.true_and, Bool.and_eq_true, beq_iff_eq] at hw
  obtain ⟨⟨hn, hspec⟩, hargs⟩ := hw
  cases hl : Parser.lookupBuiltin name.value with
  | none => simp [hl] at hspec
  | some spec =>
    simp only [hl] at hspec
    refine ⟨spec, hn, rfl, ?_, ?_⟩
    · rw [List.map_map]
      have : ((fun x : Bool × List Token => x.1) ∘ fun a : PTree => (a.isRef, Grammar.flat false (GrammarF2.unref a))) =
          PTree.isRef := rfl
      rw [this, ← argsOK_of_shape]
      exact hspec
    · intro a ha
      obtain ⟨e, he, rfl⟩ := List.mem_map.1 ha
      exact conv_arg (ih e he) (wpArgs_mem hargs e he)

/-- **every well-formed tree prints an ABNF sentence** (with the statements for right-hand sides and for what follows
    a dot that the induction needs) -/
theorem conv_all : ∀ t : PTree, Conv t := by
  apply PTree.ind
  case h_icur =>
    exact ⟨fun h => by simp [wp] at h, fun h => by simp [wp] at h, fun h => by simp [wp] at h, fun _ h => by cases h⟩
  case h_atom =>
    intro k
    refine ⟨fun h => ?_, fun h => by simp [wp] at h, fun h hs _ y hy => ?_, fun _ h => by cases h⟩
    · simp only [wp, Bool.not_false, Bool.true_and] at h
      exact Abnf.atom k h
    · simp only [wp, Bool.not_false, Bool.true_and] at h
      have hk : keyOK k = true := by
        simp only [startsWithIdent, Grammar.flat, List.head?, Bool.or_eq_true, beq_iff_eq] at hs
        simp only [keyOK, Bool.or_eq_true, Bool.and_eq_true, beq_iff_eq]
        rcases hs with hs | hs
        · exact Or.inl hs
        · refine Or.inr ⟨hs, ?_⟩
          simpa only [atomNode, hs, Option.isSome_map] using h
      exact Abnf.subId k hy hk
  case h_paren =>
    intro t ih
    refine ⟨fun h => ?_, fun h => by simp [wp] at h, fun _ hs => ?_, fun _ h => by cases h⟩
    · simp only [wp, Bool.not_false, Bool.true_and] at h
      exact Abnf.paren (ih.prim h)
    · rw [not_ident_of (t := .paren t) (tok := tLParen) rfl (by decide) (by decide)] at hs; cases hs
  case h_not =>
    intro t ih
    refine ⟨fun h => ?_, fun h => by simp [wp] at h, fun _ hs => ?_, fun _ h => by cases h⟩
    · simp only [wp, Bool.not_false, Bool.true_and, Bool.and_eq_true] at h
      exact Abnf.not (ih.prim h.1)
    · rw [not_ident_of (t := .not t) (tok := tNot) rfl (by decide) (by decide)] at hs; cases hs
  case h_neg =>
    intro k t ih
    refine ⟨fun h => ?_, fun h => by simp [wp] at h, fun h hs => ?_, fun _ h => by cases h⟩
    · simp only [wp, Bool.not_false, Bool.true_and, Bool.and_eq_true, beq_iff_eq] at h
      exact Abnf.neg k h.1.1 (ih.prim h.1.2)
    · simp only [wp, Bool.not_false, Bool.true_and, Bool.and_eq_true, beq_iff_eq] at h
      rw [not_ident_of (t := .neg k t) (tok := k) rfl (by rw [h.1.1]; decide) (by rw [h.1.1]; decide)] at hs
      cases hs
  case h_pos =>
    intro t ih
    refine ⟨fun h => ?_, fun h => by simp [wp] at h, fun _ hs => ?_, fun _ h => by cases h⟩
    · simp only [wp, Bool.not_false, Bool.true_and, Bool.and_eq_true] at h
      exact Abnf.pos (ih.prim h.1)
    · rw [not_ident_of (t := .pos t) (tok := tPlus) rfl (by decide) (by decide)] at hs; cases hs
  case h_ref =>
    intro t ih
    exact ⟨fun h => by simp [wp] at h, fun h => by simp [wp] at h, fun h => by simp [wp] at h,
      fun t' h hw => by cases h; exact ih.prim hw⟩
  case h_call =>
    intro name args ih
    refine ⟨fun h => ?_, fun h => by simp [wp] at h, fun h _ _ y hy => ?_, fun _ h => by cases h⟩
    · obtain ⟨spec, hn, hl, hs, ha⟩ := conv_call ih h
      have := Abnf.call name spec _ hn hl hs ha
      simpa only [Grammar.flat, flatSep_args] using this
    · obtain ⟨spec, hn, hl, hs, ha⟩ := conv_call ih h
      have := Abnf.subCall name spec _ hy hn hl hs ha
      simpa only [Grammar.flat, flatSep_args, List.cons_append] using this
  case h_letIn =>
    intro bs body ihb ih
    refine ⟨fun h => ?_, fun h => by simp [wp] at h, fun _ hs => ?_, fun _ h => by cases h⟩
    · simp only [wp, Bool.not_false, Bool.true_and, Bool.and_eq_true, Bool.not_eq_true', List.isEmpty_eq_false_iff] at h
      have hm := wpKVs_mem h.1.2
      have := Abnf.letIn (bs.map fun kv => (kv.1, Grammar.flat false kv.2)) (by simpa using h.1.1)
        (by intro e he; obtain ⟨t, ht, rfl⟩ := List.mem_map.1 he; exact (hm t ht).1)
        (by intro e he; obtain ⟨t, ht, rfl⟩ := List.mem_map.1 he; exact (ihb t ht).prim (hm t ht).2)
        (ih.prim h.2)
      simpa only [Grammar.flat, flatKVs_eq_join] using this
    · rw [not_ident_of (t := .letIn bs body) (tok := tLet) rfl (by decide) (by decide)] at hs; cases hs
  case h_multiList =>
    intro es ih
    refine ⟨fun h => ?_, fun h => by simp [wp] at h, fun _ hs => ?_, fun _ h => by cases h⟩
    · simp only [wp, Bool.not_false, Bool.true_and, Bool.and_eq_true, Bool.not_eq_true', List.isEmpty_eq_false_iff] at h
      have hm := wpL_mem h.2
      have := Abnf.multiList (es.map (Grammar.flat false)) (by simpa using h.1)
        (by intro e he; obtain ⟨t, ht, rfl⟩ := List.mem_map.1 he; exact (ih t ht).prim (hm t ht))
      simpa only [Grammar.flat, flatSep_eq_join] using this
    · rw [not_ident_of (t := .multiList es) (tok := tLBracket) rfl (by decide) (by decide)] at hs; cases hs
  case h_multiHash =>
    intro kvs ih
    refine ⟨fun h => ?_, fun h => by simp [wp] at h, fun _ hs => ?_, fun _ h => by cases h⟩
    · simp only [wp, Bool.not_false, Bool.true_and, Bool.and_eq_true, Bool.not_eq_true', List.isEmpty_eq_false_iff] at h
      have hm := wpKVs_mem h.2
      have := Abnf.multiHash (kvs.map fun kv => (kv.1, Grammar.flat false kv.2)) (by simpa using h.1)
        (by intro e he; obtain ⟨t, ht, rfl⟩ := List.mem_map.1 he; exact (hm t ht).1)
        (by intro e he; obtain ⟨t, ht, rfl⟩ := List.mem_map.1 he; exact (ih t ht).prim (hm t ht).2)
      simpa only [Grammar.flat, flatKVs_eq_join] using this
    · rw [not_ident_of (t := .multiHash kvs) (tok := tLBrace) rfl (by decide) (by decide)] at hs; cases hs
  case h_bin =>
    intro op l r ihl ihr
    refine conv_mk (.bin op r) l ihl (fun hok => ?_) (fun h => ?_)
    · obtain ⟨v, hv, _, _, hwr, _⟩ := Ext.ok_bin_level hok
      exact ⟨by rw [hv]; rfl, ihr.prim hwr⟩
    · rw [Ext.mk, bin_icur_false] at h; cases h
  case h_dotId =>
    intro l r ihl ihr
    refine conv_mk (.dotId r) l ihl (fun hok => ?_) (fun h => ?_)
    · simp only [Ext.ok, Bool.and_eq_true, decide_eq_true_eq] at hok
      exact ihr.dot hok.1.1 hok.2 hok.1.2
    · simp [Ext.mk, wp, PTree.isIcur] at h
  case h_dotList =>
    intro l es ihl ihes
    refine conv_mk (.dotList es) l ihl (fun hok => ?_) (fun h => ?_)
    · simp only [Ext.ok, Bool.and_eq_true, Bool.not_eq_true', List.isEmpty_eq_false_iff] at hok
      exact ⟨hok.1, fun e he => (ihes e he).prim (wpL_mem hok.2 e he)⟩
    · simp [Ext.mk, wp, PTree.isIcur] at h
  case h_dotHash =>
    intro l kvs ihl ihkvs
    refine conv_mk (.dotHash kvs) l ihl (fun hok => ?_) (fun h => ?_)
    · simp only [Ext.ok, Bool.and_eq_true, Bool.not_eq_true', List.isEmpty_eq_false_iff] at hok
      have hm := wpKVs_mem hok.2
      exact ⟨hok.1, fun kv h => (hm kv h).1, fun kv h => (ihkvs kv h).prim (hm kv h).2⟩
    · simp [Ext.mk, wp, PTree.isIcur] at h
  case h_dotStarList =>
    intro l ihl
    refine conv_mk .dotStarList l ihl (fun _ => trivial) (fun h => ?_)
    simp [Ext.mk, wp, PTree.isIcur] at h
  case h_index =>
    intro l n ihl
    refine conv_mk (.index n) l ihl (fun hok => hok) (fun h => ?_)
    simp only [Ext.mk, wp, PTree.isIcur, if_true, Bool.true_and] at h
    exact Abnf.index0 n h
  case h_star =>
    intro l rhs ihl ihr
    refine conv_mk (.star rhs) l ihl (fun hok => rhs_of hok ihr) (fun h => ?_)
    simp only [Ext.mk, wp, PTree.isIcur, if_true, Bool.true_and] at h
    have := rhs_of h ihr _ Abnf.star0
    simpa only [Ext.mk, Grammar.flat, List.nil_append, List.singleton_append] using this
  case h_ostar =>
    intro l rhs ihl ihr
    refine conv_mk (.ostar rhs) l ihl (fun hok => rhs_of hok ihr) (fun h => ?_)
    simp only [Ext.mk, wp, PTree.isIcur, if_true, Bool.true_and] at h
    have := rhs_of h ihr _ Abnf.wild
    simpa only [Ext.mk, Grammar.flat, PTree.isIcur, if_true, Bool.false_eq_true, if_false] using this
  case h_flat =>
    intro l rhs ihl ihr
    refine conv_mk (.flat rhs) l ihl (fun hok => rhs_of hok ihr) (fun h => ?_)
    simp only [Ext.mk, wp, PTree.isIcur, if_true, Bool.not_false, Bool.true_and] at h
    have := rhs_of h ihr _ Abnf.flatten0
    simpa only [Ext.mk, Grammar.flat, List.nil_append, List.singleton_append] using this
  case h_filt =>
    intro l c rhs ihl ihc ihr
    refine conv_mk (.filt c rhs) l ihl (fun hok => ?_) (fun h => ?_)
    · simp only [Ext.ok, Bool.and_eq_true] at hok
      exact ⟨ihc.prim hok.1, rhs_of hok.2 ihr⟩
    · simp only [Ext.mk, wp, PTree.isIcur, if_true, Bool.true_and, Bool.and_eq_true] at h
      have := rhs_of h.2 ihr _ (Abnf.filter0 (ihc.prim h.1))
      simpa only [Ext.mk, Grammar.flat, List.nil_append, List.append_assoc, List.cons_append] using this
  case h_slice =>
    intro l a b c rhs ihl ihr
    refine conv_mk (.slice a b c rhs) l ihl (fun hok => ?_) (fun h => ?_)
    · simp only [Ext.ok, Bool.and_eq_true] at hok
      exact ⟨hok.1, rhs_of hok.2 ihr⟩
    · simp only [Ext.mk, wp, PTree.isIcur, if_true, Bool.true_and, Bool.and_eq_true] at h
      have := rhs_of h.2 ihr _ (Abnf.slice0 a b c h.1)
      simpa only [Ext.mk, Grammar.flat, List.nil_append, List.append_assoc, List.cons_append] using this

/-- **`accepted_abnf`**: the printing of every well-formed tree is a sentence of the ABNF -/
theorem accepted_abnf {t : PTree} (h : WellPrec t) : Abnf (Grammar.flatten t) := (conv_all t).prim h

/-- **the two grammars define the same language** -/
theorem abnf_iff (ts : List Token) : Abnf ts ↔ ∃ t : PTree, WellPrec t ∧ Grammar.flatten t = ts :=
  ⟨abnf_accepted, fun ⟨_, h, hf⟩ => hf ▸ accepted_abnf h⟩

-- `foo[*].bar | [0]`: the printing of the tree `e02` of `Spec/Grammar.lean` is a sentence, and conversely
example : Abnf (Grammar.flatten Grammar.Ex.e02) ↔ ∃ t : PTree, WellPrec t ∧ Grammar.flatten t = Grammar.flatten Grammar.Ex.e02 :=
  abnf_iff _
-- the closure lemma of the converse on `foo` followed by `[*].bar`
example (h : Abnf [⟨.unquotedIdentifier, Grammar.Ex.bs "foo"⟩]) :
    Abnf ([⟨.unquotedIdentifier, Grammar.Ex.bs "foo"⟩] ++ (Ext.star (.dotId .icur (Grammar.Ex.idt "bar"))).toks) :=
  abnf_ext (.star (.dotId .icur (Grammar.Ex.idt "bar")))
    (rhs_of (rhs := .dotId .icur (Grammar.Ex.idt "bar")) (by decide) (conv_all _)) h


/-! ### At the level of `compile` -/

/-- **`abnf_compiles`**: every admissible layout of every sentence of the ABNF compiles -/
theorem abnf_compiles {ts : List Token} (h : Abnf ts) {w0 : Bytes} {l : List (Token × Bytes)} (hw0 : Ws w0)
    (hl : LayoutOK l) (hmap : l.map (·.1) = ts) : ∃ n, compile (layout w0 l) = .ok n := by
  obtain ⟨t, hw, hf⟩ := abnf_accepted h
  exact ⟨erase t, compile_layout hw hw0 hl (by rw [hmap, hf])⟩

/-- **`compile_iff_abnf`**: a text compiles if and only if it is an admissible layout of a sentence of the ABNF -/
theorem compile_iff_abnf (s : Bytes) :
    (∃ n, compile s = .ok n) ↔
      ∃ (ts : List Token) (w0 : Bytes) (l : List (Token × Bytes)),
        Abnf ts ∧ Ws w0 ∧ LayoutOK l ∧ l.map (·.1) = ts ∧ s = layout w0 l := by
  constructor
  · rintro ⟨n, hn⟩
    obtain ⟨t, w0, l, h1, h2, h3, h4, h5, _⟩ := (compile_iff_layout s n).1 hn
    exact ⟨_, w0, l, accepted_abnf h1, h2, h3, h4, h5⟩
  · rintro ⟨ts, w0, l, h1, h2, h3, h4, rfl⟩
    exact abnf_compiles h1 h2 h3 h4

section Examples4
open Grammar.Ex
theorem aId (s : String) : Abnf [tId s] := .atom _ rfl

-- `a || b && c`, derived the "wrong" way round — `(a || b) && c` — is still accepted (as `a || (b && c)`)
example : Abnf [tId "a", op .or "||", tId "b", op .and "&&", tId "c"] :=
  .bin (op .and "&&") (l := [tId "a", op .or "||", tId "b"]) rfl (.bin (op .or "||") (l := [tId "a"]) rfl (aId "a") (aId "b"))
    (aId "c")
example : ∃ t, WellPrec t ∧ Grammar.flatten t = [tId "a", op .or "||", tId "b", op .and "&&", tId "c"] :=
  abnf_accepted (.bin (op .and "&&") (l := [tId "a", op .or "||", tId "b"]) rfl
    (.bin (op .or "||") (l := [tId "a"]) rfl (aId "a") (aId "b")) (aId "c"))
-- `!a.b` as `!(a.b)` (accepted as `(!a).b`); `foo[*].bar` as `(foo[*]).bar` (accepted with `.bar` inside the projection)
example : Abnf [tNot, tId "a", tDot, tId "b"] := .not (.subId (tId "b") (l := [tId "a"]) (aId "a") (by decide))
example : Abnf [tId "foo", tArrayStar, tDot, tId "bar"] :=
  .subId (tId "bar") (l := [tId "foo", tArrayStar]) (.star (l := [tId "foo"]) (aId "foo")) (by decide)
-- the trees `attach`, `pre` and `merge` build
example : attach (.dotId (idt "bar")) (.star (idt "foo") .icur) = .star (idt "foo") (.dotId .icur (idt "bar")) := by
  rfl
example : pre .not (.dotId (idt "a") (idt "b")) = .dotId (.not (idt "a")) (idt "b") := by rfl
example : merge (op .and "&&") (.bin (op .or "||") (idt "a") (idt "b")) (idt "c") =
    .bin (op .or "||") (idt "a") (.bin (op .and "&&") (idt "b") (idt "c")) := by rfl
example : merge (op .asterisk "*") (idt "a") (.bin (op .add "+") (idt "b") (idt "c")) =
    .bin (op .add "+") (.bin (op .asterisk "*") (idt "a") (idt "b")) (idt "c") := by rfl
-- a legal call, and `abnf_compiles` on a layout of it: `sort_by( a ,&b )`
theorem exCall : Abnf [tId "sort_by", tLParen, tId "a", tComma, tAmp, tId "b", tRParen] :=
  .call (tId "sort_by") (.expArg .sortBy) [(false, [tId "a"]), (true, [tId "b"])] rfl rfl rfl
    (by intro a ha; simp at ha; rcases ha with rfl | rfl <;> exact aId _)
example : ∃ n, compile (bs "sort_by( a ,&b )") = .ok n :=
  abnf_compiles exCall (w0 := []) (l := [(tId "sort_by", []), (tLParen, bs " "), (tId "a", bs " "), (tComma, []),
    (tAmp, []), (tId "b", bs " "), (tRParen, [])]) (by decide)
    ((layoutOK_iff _).2 ⟨shapes_of_lexAll (s := bs "sort_by ( a , & b )") (by decide), by decide⟩) rfl
-- the converse on a tree: `foo[*].bar | [0]`
example : Abnf (Grammar.flatten e02) := accepted_abnf (by decide)
-- `compile_iff_abnf`: `foo[*].bar | [0]` compiles, so it is a layout of a sentence
example : ∃ (ts : List Token) (w0 : Bytes) (l : List (Token × Bytes)),
    Abnf ts ∧ Ws w0 ∧ LayoutOK l ∧ l.map (·.1) = ts ∧ bs "foo[*].bar | [0]" = layout w0 l :=
  (compile_iff_abnf _).1 ⟨_, C04G.parse_complete (t := e02) (by decide) (by decide)⟩

/-- **KF11 is outside**: `foo [ * ]` (three tokens) and `foo . *` (two tokens) are not sentences: with the lexer's
    tokens as terminals the wildcards are the fused tokens only; and `a b` is not a sentence either -/
theorem kf11_not_abnf :
    ¬ Abnf [tId "foo", tLBracket, tStar, tRBracket] ∧ ¬ Abnf [tId "foo", tDot, tStar] ∧ ¬ Abnf [tId "a", tId "b"] := by
  refine ⟨fun h => ?_, fun h => ?_, fun h => ?_⟩
  · obtain ⟨t, hw, hf⟩ := abnf_accepted h
    have := C04G.parse_complete hw (e := bs "foo[ * ]") (by rw [hf]; decide)
    rw [show Parser.parse (bs "foo[ * ]") = compile (bs "foo[ * ]") from rfl, kf11_errors.1] at this
    cases this
  · obtain ⟨t, hw, hf⟩ := abnf_accepted h
    have := C04G.parse_complete hw (e := bs "foo. *") (by rw [hf]; decide)
    rw [show Parser.parse (bs "foo. *") = compile (bs "foo. *") from rfl, kf11_errors.2.2.2] at this
    cases this
  · obtain ⟨t, hw, hf⟩ := abnf_accepted h
    exact C04G.ab_not_in_grammar ⟨t, hw, by rw [hf]; decide⟩
-- … while the leading `[ * ]` is one: the multi-select list of `*`
example : Abnf [tLBracket, tStar, tRBracket] :=
  .multiList [[tStar]] (by simp) (by intro e he; simp at he; subst he; exact .wild)
end Examples4

end Jmes.C04E
