/-
  C03 (third pass) and C08 — "every returned error can be formatted"; what the model says about panics and where it
  declines.

  ## A. Division of labour for C03 (what is a theorem, what is not)

  A Go panic is an observable outcome of the model (`Res.panic why`) only where the model writes it down.  It does so
  in three places:

    1. `Dec.int64 .nan = .panic` — `decimal128.Decimal(NaN).Int64()`.  Reached through `toInt` → `intArg`
       (`"Decimal(NaN).Int64()"`); the guard in `decToInt` precedes it, and `C03.search_no_panic` is the theorem that
       it always does.
    2. `mustCompile` — `MustCompile` is SPECIFIED to panic where `Compile` fails (`Jmes/Model/Must.lean`).
    3. (new in this file) the `Error()` methods of the evaluator's error values, which call methods of a
       `reflect.Type` that is nil when the offending value is JSON null: `C03CFormat.GoType.str .nil = .panic`.
       `evaluateError` formats EAGERLY, so such a panic would be a panic of `Search`.  Theorems `format_total`,
       `evaluateError_total`: no payload the evaluator builds reaches it.  `InvalidTypeError.Error` and
       `fromItemsKeyTypeError.Error` are guarded (`if err.got != nil`); `unexpectedOperationError.Error` is NOT, and
       `evaluateError_panic_iff` shows that this is the only way: FINDING `zero_expression_panics` — the zero value
       `jmespath.Expression{}` (an exported type) has a nil node, `(*Expression).Search` on it panics inside
       `evaluateError` (checked against the Go code, see the report).

  Unchecked type assertions are of kind 1/3: where Go would write `x.(T)` without `, ok` the model's `match` has an
  explicit arm; the Go code has none left (the `from_items` one was FX09), and the model's arms answer `errType` /
  `errValue`, which is what the comma-ok code does.

  What the model CANNOT exhibit, so that C03 rests on the correspondence run (G-bytes / G-args / the value zoo, each
  operation under `recover`, in a child process) and not on a theorem:

    * index / slice bounds (`s[i:j]`, `a[i]`, `make([]T, n)`): the model's `List.take` / `drop` / `getD` /
      `replicate` are total; a missing guard in Go would show up as a WRONG VALUE of the model at best.  What is proved
      instead is that the guarded values are the specified ones (C11, C12, `C03` §5 for the inputs that used to panic);
    * stack exhaustion and allocation failure (fatal errors of the runtime, not panics): KF01 (a million nested
      `(`), the pad width and `split` count limits are driver / cost matters (C09);
    * panics raised by foreign code the evaluator calls into: a foreign value whose `MarshalJSON` panics, or returns an
      error whose `Error()` panics, makes `to_string(@)` panic (observed; `encoding/json` re-panics).  The model
      answers `unmodelled "foreign value"` there.

  ## B. Where the model declines

  `search_no_unmodelled_on_json`: on a document decoded from JSON (`Val.Fin`), for every expression, the outcome is
  never a panic, and it is `unmodelled why` only for `why` in `Reason` (two entries: case mapping outside the modelled
  alphabets; padding wider than 100000).  Both occur (`reasons_complete`).  The parser's fuel is never exhausted
  (`Fuel.fuel_sufficient`); the 20000-byte expression limit is the driver's, not the model's.  Both reasons are limits
  of the MODEL: Go computes a value in both cases.
-/
import Jmes.Model.Must
import Jmes.Properties.C03
import Jmes.Properties.C08
import Jmes.Properties.C18B
import Jmes.Proofs.C03CFormat
import Jmes.Proofs.C03CUnmodelled
namespace Jmes.C03C
open Jmes Jmes.C03CFormat Jmes.C03CU

/-! ## A.1 the three places where the model can say "panic" -/

/-- 1. the library operation panics on NaN; `toInt` guards it (C03) -/
example : Dec.int64 .nan = .panic ∧ toInt (.num (.dec .nan)) = .notInt := ⟨rfl, by decide⟩
/-- 2. `MustCompile` panics exactly where `Compile` fails, by specification -/
theorem mustCompile_panics_iff (expr : Bytes) :
    (∃ w, mustCompile expr = .panic w) ↔ ∃ e, compile expr = .error e := by
  unfold mustCompile compile
  have hf := Fuel.fuel_sufficient expr
  cases h : Parser.parse expr with
  | ok n => simp
  | error e =>
    cases e <;> first | exact absurd h hf | simp
/-- 3. a method call on the nil `reflect.Type` -/
example : GoType.nil.str = .panic "invalid memory address or nil pointer dereference" ∧
    (∃ w, GoType.nil.isPointer = .panic w) := ⟨rfl, _, rfl⟩

/-- index and slice bounds are NOT of this kind: the model's list operations are total, so these theorems say nothing
    about Go's bounds checks (see the header) -/
example : index (.arr .plain [.null]) 7 = .ok .null ∧ index (.arr .plain [.null]) (-7) = .ok .null := ⟨rfl, rfl⟩

/-! ## A.2 every error the evaluator builds can be formatted -/

/-- **`Error()` never fails on a payload the evaluator can build** — for every choice of the library tables; `got` is
    the type of an actual value (the nil type for JSON null), the number any decimal (NaN, ±Inf), names and paddings
    any bytes (invalid UTF-8 included), the integer any `int`. -/
theorem format_total (L : Lib) {e : EErr} (h : Produced L e) : ∃ s, e.format L = .ok s :=
  C03CFormat.format_total L h

example (L : Lib) : ∃ s, (EErr.invalidType (typeOf L .null) (utf8 "number")).format L = .ok s :=
  format_total L (.invalidType .null _)
example (L : Lib) : ∃ s, (EErr.integerConversion .nan).format L = .ok s := format_total L (.integerConversion _)
example (L : Lib) : ∃ s, (EErr.padLength [0xFF, 0xC0, 0x00]).format L = .ok s := format_total L (.padLength _)

/-- **the one payload on which an `Error()` method panics**: `unexpectedOperationError` holding the nil type -/
theorem format_panic_iff (L : Lib) (e : EErr) : (∃ w, e.format L = .panic w) ↔ e = .unexpectedOperation .nil :=
  C03CFormat.format_panic_iff L e

/-- the type of a value is the nil type exactly for JSON null — the case `InvalidTypeError.Error` guards -/
theorem typeOf_eq_nil_iff (L : Lib) (v : Val) : typeOf L v = .nil ↔ v = .null := C03CFormat.typeOf_eq_nil_iff L v

/-- how `abs(null)`, `length(null)`, … print: `invalid type nil when expecting …` -/
theorem format_invalidType_null (L : Lib) (want : Bytes) (hw : want ≠ []) :
    (EErr.invalidType (typeOf L .null) want).format L = .ok (utf8 "invalid type nil when expecting " ++ want) :=
  C03CFormat.format_invalidType_null L want hw

example (L : Lib) : (EErr.invalidType (typeOf L .null) (utf8 "number")).format L
    = .ok (utf8 "invalid type nil when expecting number") := rfl

/-! ## A.3 `evaluateError` and `parseError` -/

/-- **`evaluateError` returns normally** on every error the evaluator builds (it formats eagerly) -/
theorem evaluateError_total (L : Lib) {e : EErr} (h : Produced L e) : ∃ p, mapE L e = .ok p := mapE_total L h

/-- … and panics on exactly one error value -/
theorem evaluateError_panic_iff (L : Lib) (e : EErr) :
    (∃ w, mapE L e = .panic w) ↔ e = .unexpectedOperation .nil := mapE_panic_iff L e

/-- **C08: the public error matches the model's category** — `PublicErr.cat` is the sentinel the public type's `Is`
    method compares with; `EErr.cat` the category the model reports at the sites that build the error -/
theorem evaluateError_cat (L : Lib) (e : EErr) (p : PublicErr) (h : mapE L e = .ok p) : p.cat = e.cat :=
  mapE_cat L e p h

/-- `parseError` is total (no `Error()` of the parser looks at a `reflect.Type`) and carries the model's `parseCat` -/
theorem parseError_cat (L : Lib) (expr : Bytes) (e : PErrV) : (mapP L expr e).cat = parseCat e.erase :=
  mapP_cat L expr e

/-- each public error matches exactly one exported sentinel under `errors.Is` -/
theorem public_is_exactly_one (p : PublicErr) (c : Cat) : p.is c = true ↔ c = p.cat :=
  C03CFormat.public_is_exactly_one p c

/-- the message `Search` returns for an evaluation failure -/
def evalMessage (L : Lib) (e : EErr) : Res Bytes := (mapE L e).bind (fun p => .ok (p.format L))
/-- the message `Search` / `Compile` return for a parse failure -/
def parseMessage (L : Lib) (expr : Bytes) (e : PErrV) : Bytes := (mapP L expr e).format L

/-- **every error `Search` returns for an evaluation failure has a message** -/
theorem evalMessage_total (L : Lib) {e : EErr} (h : Produced L e) : ∃ s, evalMessage L e = .ok s := by
  obtain ⟨p, hp⟩ := mapE_total L h
  exact ⟨p.format L, by rw [evalMessage, hp]; rfl⟩

example (L : Lib) : (PublicErr.invalidValue []).is .invalidValue = true ∧ (PublicErr.invalidValue []).is .invalidType = false ∧
    ∃ s, evalMessage L (.negativeInteger (-3)) = .ok s := ⟨rfl, rfl, evalMessage_total L (.negativeInteger _)⟩

/-! ### FINDING: the zero `Expression` -/

/-- `var e jmespath.Expression; e.Search(x)`: `e.node` is the nil interface, the type switch of `evaluate` falls through
    to `&unexpectedOperationError{reflect.TypeOf(node)}` = `{nil}`, no `errors.Is` test of `evaluateError` matches, and
    `&evaluationFailedError{err.Error()}` calls `err.op.Kind()` on the nil type.  Go: `panic: runtime error: invalid
    memory address or nil pointer dereference` at internal/evaluator/errors.go:136, under jmespath.go:89. -/
theorem zero_expression_panics (L : Lib) :
    mapE L (.unexpectedOperation .nil) = .panic "invalid memory address or nil pointer dereference" := rfl

/-- for a node the parser built the same site (dead in fact) would format: `*parser.AbsNode` -/
example (L : Lib) : evalMessage L (.unexpectedOperation (.ptrTo (utf8 "parser.AbsNode") (utf8 "AbsNode")))
    = .ok (utf8 "jmespath: evaluation failed: unexpected operation AbsNode while evaluating expression") := rfl

/-! ## A.4 the messages, checked against the Go code

  Each string literal below is the output of `err.Error()` of /repo for the input named in the comment (run from a
  scratch module; `%q` of Go and the literal syntax of Lean agree on the escapes that occur).  Where the failure is an
  evaluation failure the model's own outcome for the same input is stated beside it: `.err [e.cat]`.

  `goLib` supplies the three library facts the examples touch: `strconv.IsPrint(U+2028) = false`,
  `Decimal.String()` of NaN / -Inf / +Inf / 1.5, and `chan int` as the type of the foreign value used. -/

def goLib : Lib where
  isPrintHigh := fun _ => false
  decString := fun d => match d with
    | .nan => utf8 "NaN"
    | .inf true => utf8 "-Inf"
    | .inf false => utf8 "+Inf"
    | d => (Dec.marshalJSON d).getD []
  foreignTypeStr := fun _ => utf8 "chan int"

/-- `abs(@)` on `null` -/
example (L : Lib) : evalMessage L (.invalidType (typeOf L .null) (utf8 "number"))
      = .ok (utf8 "jmespath: invalid type nil when expecting number") ∧
    evaluate (.call .abs [.current]) .null = .err [(EErr.invalidType (typeOf L .null) (utf8 "number")).cat] := ⟨rfl, rfl⟩
/-- `length(@)` on `json.Number("1")` -/
example (L : Lib) : evalMessage L (.invalidType (typeOf L (.num (.jnum [0x31]))) (utf8 "array"))
      = .ok (utf8 "jmespath: invalid type json.Number when expecting array") ∧
    evaluate (.call .length [.current]) (.num (.jnum [0x31])) = .err [Cat.invalidType] := ⟨rfl, rfl⟩
/-- `abs(@)` on `[]any{}` and on `map[string]any{}` -/
example (L : Lib) : evalMessage L (.invalidType (typeOf L (.arr .plain [])) (utf8 "number"))
      = .ok (utf8 "jmespath: invalid type []interface {} when expecting number") ∧
    evalMessage L (.invalidType (typeOf L (.obj [])) (utf8 "number"))
      = .ok (utf8 "jmespath: invalid type map[string]interface {} when expecting number") := ⟨rfl, rfl⟩
/-- `length(@)` on `int8(1)`, `uint(1)`, `float32(1)`, a `decimal128.Decimal` -/
example (L : Lib) : evalMessage L (.invalidType (typeOf L (.num (.int .i8 1))) (utf8 "array"))
      = .ok (utf8 "jmespath: invalid type int8 when expecting array") ∧
    evalMessage L (.invalidType (typeOf L (.num (.int .uint 1))) (utf8 "array"))
      = .ok (utf8 "jmespath: invalid type uint when expecting array") ∧
    evalMessage L (.invalidType (typeOf L (.num (.f32 default))) (utf8 "array"))
      = .ok (utf8 "jmespath: invalid type float32 when expecting array") ∧
    evalMessage L (.invalidType (typeOf L (.num (.dec .nan))) (utf8 "array"))
      = .ok (utf8 "jmespath: invalid type decimal128.Decimal when expecting array") := ⟨rfl, rfl, rfl, rfl⟩
/-- `type(@)` on `make(chan int)`: no `want` -/
example : evalMessage goLib (.invalidType (typeOf goLib (.foreign 0)) [])
      = .ok (utf8 "jmespath: invalid type chan int") ∧
    evaluate (.call .type [.current]) (.foreign 0) = .err [Cat.invalidType] := ⟨rfl, rfl⟩
/-- `from_items(@)` on `[[null, 1]]` (FX09: this one used to panic) -/
example (L : Lib) : evalMessage L (.fromItemsKeyType (typeOf L .null))
      = .ok (utf8 "jmespath: array passed to from_items contains an item with a key of type nil") ∧
    evaluate (.call .fromItems [.current]) (.arr .plain [.arr .plain [.null, .num (.int .int 1)]])
      = .err [(EErr.fromItemsKeyType (typeOf L .null)).cat] := ⟨rfl, rfl⟩
/-- `from_items(@)` on `[[1.5, 1]]` (a float64 key) and on `[["a"]]` -/
example (L : Lib) : evalMessage L (.fromItemsKeyType (typeOf L (.num (.f64 default))))
      = .ok (utf8 "jmespath: array passed to from_items contains an item with a key of type float64") ∧
    evalMessage L (.fromItemsLength 1)
      = .ok (utf8 "jmespath: array passed to from_items contains an item of length 1") ∧
    evaluate (.call .fromItems [.current]) (.arr .plain [.arr .plain [.str [0x61]]]) = .err [Cat.invalidValue] :=
  ⟨rfl, rfl, rfl⟩
/-- `pad_left('a', @)` on a NaN decimal (FX13: used to panic), on `-Inf`, on `json.Number("1.5")` -/
example : evalMessage goLib (.integerConversion .nan)
      = .ok (utf8 "jmespath: error converting value to integer: NaN") ∧
    evalMessage goLib (.integerConversion (.inf true))
      = .ok (utf8 "jmespath: error converting value to integer: -Inf") ∧
    evalMessage goLib (.integerConversion (.inf false))
      = .ok (utf8 "jmespath: error converting value to integer: +Inf") ∧
    evalMessage goLib (.integerConversion (.fin false 15 (-1)))
      = .ok (utf8 "jmespath: error converting value to integer: 1.5") ∧
    evaluate (.call .padSpaceLeft [.lit (.str [0x61]), .current]) (.num (.dec .nan)) = .err [Cat.invalidValue] :=
  ⟨rfl, rfl, rfl, rfl, rfl⟩
/-- ``pad_left('a', `-3`)`` -/
example (L : Lib) : evalMessage L (.negativeInteger (-3))
      = .ok (utf8 "jmespath: negative integer -3 where positive integer required") ∧
    evaluate (.call .padSpaceLeft [.lit (.str [0x61]), .lit (.num (.jnum [0x2D, 0x33]))]) .null
      = .err [Cat.invalidValue] := ⟨rfl, rfl⟩
/-- ``pad_left('a', `3`, 'ab')`` and ``pad_left('a', `3`, '')`` -/
example (L : Lib) : evalMessage L (.padLength (utf8 "ab"))
      = .ok (utf8 "jmespath: padding \"ab\" must have a length of 1") ∧
    evalMessage L (.padLength []) = .ok (utf8 "jmespath: padding \"\" must have a length of 1") ∧
    evaluate (.call .padLeft [.lit (.str [0x61]), .lit (.num (.jnum [0x33])), .lit (.str [0x61, 0x62])]) .null
      = .err [Cat.invalidValue] := ⟨rfl, rfl, rfl⟩
/-- ``pad_left('a', `3`, @)`` on the two bytes `"\xff\xfe"` (invalid UTF-8) -/
example (L : Lib) : evalMessage L (.padLength [0xFF, 0xFE])
      = .ok (utf8 "jmespath: padding \"\\xff\\xfe\" must have a length of 1") ∧
    evaluate (.call .padLeft [.lit (.str [0x61]), .lit (.num (.jnum [0x33])), .current]) (.str [0xFF, 0xFE])
      = .err [Cat.invalidValue] := ⟨rfl, rfl⟩
/-- … on `"é\n\"\\\x7f\u2028x"`: a printable Latin-1 letter, a control with a short escape, the quote, the backslash,
    DEL, an unprintable rune above U+00FF -/
example : evalMessage goLib (.padLength (utf8 "é\n\"\\\x7f\u2028x"))
      = .ok (utf8 "jmespath: padding \"é\\n\\\"\\\\\\x7f\\u2028x\" must have a length of 1") := rfl
/-- `$x` with no binding -/
example (L : Lib) : evalMessage L (.undefinedVariable (utf8 "$x"))
      = .ok (utf8 "jmespath: undefined variable \"$x\"") ∧
    evaluate (.variable (utf8 "$x")) .null = .err [(EErr.undefinedVariable (utf8 "$x")).cat] := ⟨rfl, rfl⟩
/-- `@ + @` and `@ - @` on `+Inf` (float64): both are the not-a-number category, with different messages -/
example (L : Lib) : evalMessage L .infinity = .ok (utf8 "jmespath: result of operation is an infinity") ∧
    evalMessage L .notANumber = .ok (utf8 "jmespath: result of operation is not a number") ∧
    EErr.infinity.cat = .notANumber ∧ EErr.notANumber.cat = .notANumber := ⟨rfl, rfl, rfl, rfl⟩
/-- `to_string(@)` on a float64 NaN: the `encoding/json` error text is the payload -/
example (L : Lib) : evalMessage L (.stringConversion (utf8 "json: unsupported value: NaN"))
      = .ok (utf8 "jmespath: evaluation failed: error converting value to string: json: unsupported value: NaN") ∧
    (EErr.stringConversion []).cat = .evaluationFailed := ⟨rfl, rfl⟩
/-- … and on a NaN decimal, which the model does evaluate: evaluation-failed -/
example : evaluate (.call .toString [.current]) (.num (.dec .nan)) = .err [Cat.evaluationFailed] := rfl

/-- `foo(` and `foo(@)` -/
example (L : Lib) : parseMessage L (utf8 "foo(") (.unknownFunction (utf8 "foo"))
      = utf8 "jmespath: unknown function \"foo\"" ∧
    (mapP L (utf8 "foo(") (.unknownFunction (utf8 "foo"))).cat = .unknownFunction := ⟨rfl, rfl⟩
/-- `abs()`: the public message reads "funcation" (sic), the internal one "function" -/
example (L : Lib) : parseMessage L (utf8 "abs()") (.invalidFunctionCall (utf8 "abs"))
      = utf8 "jmespath: invalid call to funcation \"abs\"" ∧
    (PErrV.invalidFunctionCall (utf8 "abs")).format L = utf8 "invalid call to function \"abs\"" := ⟨rfl, rfl⟩
/-- `sort_by(@, &a, @)`: parser.go:1056 and :1106 build `&InvalidFunctionCallError{}` without the name -/
example (L : Lib) : parseMessage L (utf8 "sort_by(@, &a, @)") (.invalidFunctionCall [])
      = utf8 "jmespath: invalid call to funcation \"\"" := rfl
/-- `sort_by(@, @)`: a static invalid-type -/
example (L : Lib) : parseMessage L (utf8 "sort_by(@, @)") (.invalidFunctionArgument (utf8 "sort_by") (utf8 "expression"))
      = utf8 "jmespath: invalid argument to function \"sort_by\" when expecting expression" ∧
    (mapP L [] (.invalidFunctionArgument (utf8 "sort_by") (utf8 "expression"))).cat = .invalidType := ⟨rfl, rfl⟩
/-- `a[::0]` -/
example (L : Lib) : parseMessage L (utf8 "a[::0]") .invalidSliceStep = utf8 "jmespath: invalid slice step value" ∧
    (mapP L (utf8 "a[::0]") .invalidSliceStep).cat = .invalidValue := ⟨rfl, rfl⟩
/-- `a b`, and the empty expression (the token is the empty end token) -/
example (L : Lib) : parseMessage L (utf8 "a b") (.unexpectedToken (utf8 "b"))
      = utf8 "jmespath: invalid expression \"a b\": unexpected token \"b\"" ∧
    parseMessage L [] (.unexpectedToken []) = utf8 "jmespath: invalid expression \"\": unexpected token \"\"" :=
  ⟨rfl, rfl⟩
/-- `a[99999999999999999999]` -/
example (L : Lib) : parseMessage L (utf8 "a[99999999999999999999]") (.invalidIndex (utf8 "99999999999999999999"))
      = utf8 "jmespath: invalid expression \"a[99999999999999999999]\": invalid index \"99999999999999999999\"" := rfl
/-- `"\q"` (a quoted identifier with a bad escape): the expression and the token are both quoted -/
example (L : Lib) : parseMessage L (utf8 "\"\\q\"") (.invalidQuotedString (utf8 "\"\\q\""))
      = utf8 "jmespath: invalid expression \"\\\"\\\\q\\\"\": invalid quoted string \"\\\"\\\\q\\\"\"" := rfl
/-- the bytes `a\xffb`: not UTF-8 -/
example (L : Lib) : parseMessage L [0x61, 0xFF, 0x62] (.lex .invalidRune)
      = utf8 "jmespath: invalid expression \"a\\xffb\": invalid rune" := rfl
/-- `#`, `a\x00`, `é` (U+00E9 is printable) -/
example (L : Lib) : parseMessage L (utf8 "#") (.lex (.unexpectedRune 0x23))
      = utf8 "jmespath: invalid expression \"#\": unexpected rune '#'" ∧
    parseMessage L [0x61, 0x00] (.lex (.unexpectedRune 0))
      = utf8 "jmespath: invalid expression \"a\\x00\": unexpected rune '\\x00'" ∧
    parseMessage L (utf8 "é") (.lex (.unexpectedRune 0xE9))
      = utf8 "jmespath: invalid expression \"é\": unexpected rune 'é'" := ⟨rfl, rfl, rfl⟩
/-- `a ` followed by U+2028 (not printable) -/
example : parseMessage goLib (utf8 "a \u2028") (.lex (.unexpectedRune 0x2028))
      = utf8 "jmespath: invalid expression \"a \\u2028\": unexpected rune '\\u2028'" := rfl
/-- `'abc` -/
example (L : Lib) : parseMessage L (utf8 "'abc") (.lex .unexpectedEnd)
      = utf8 "jmespath: invalid expression \"'abc\": unexpected end of expression" := rfl

/-- the model's parse error for an expression (`none` if it compiles) -/
def perrOf (e : Bytes) : Option PErr := match Parser.parse e with | .error x => some x | .ok _ => none

/-- **tie of the parse examples to the model**: for the same expression bytes the model's parser reports the erasure
    (`PErrV.erase`: the payload forgotten) of the Go error value used above -/
theorem parse_examples_tie :
    perrOf (utf8 "foo(") = some (PErrV.erase (.unknownFunction (utf8 "foo"))) ∧
    perrOf (utf8 "abs()") = some (PErrV.erase (.invalidFunctionCall (utf8 "abs"))) ∧
    perrOf (utf8 "sort_by(@, &a, @)") = some (PErrV.erase (.invalidFunctionCall [])) ∧
    perrOf (utf8 "sort_by(@, @)") = some (PErrV.erase (.invalidFunctionArgument (utf8 "sort_by") (utf8 "expression"))) ∧
    perrOf (utf8 "a[::0]") = some (PErrV.erase .invalidSliceStep) ∧
    perrOf (utf8 "a b") = some (PErrV.erase (.unexpectedToken (utf8 "b"))) ∧
    perrOf [] = some (PErrV.erase (.unexpectedToken [])) ∧
    perrOf (utf8 "a[99999999999999999999]") = some (PErrV.erase (.invalidIndex (utf8 "99999999999999999999"))) ∧
    perrOf (utf8 "\"\\q\"") = some (PErrV.erase (.invalidQuotedString (utf8 "\"\\q\""))) ∧
    perrOf [0x61, 0xFF, 0x62] = some (PErrV.erase (.lex .invalidRune)) ∧
    perrOf (utf8 "#") = some (PErrV.erase (.lex (.unexpectedRune 0x23))) ∧
    perrOf [0x61, 0x00] = some (PErrV.erase (.lex (.unexpectedRune 0))) ∧
    perrOf (utf8 "é") = some (PErrV.erase (.lex (.unexpectedRune 0xE9))) ∧
    perrOf (utf8 "a \u2028") = some (PErrV.erase (.lex (.unexpectedRune 0x2028))) ∧
    perrOf (utf8 "'abc") = some (PErrV.erase (.lex .unexpectedEnd)) := by
  refine ⟨?_, ?_, ?_, ?_, ?_, ?_, ?_, ?_, ?_, ?_, ?_, ?_, ?_, ?_, ?_⟩ <;> decide +kernel

/-! ## B. `unmodelled` on JSON input -/

/-- **on a JSON document the model never panics and declines for the enumerated reasons only.**  `d.Fin`: every number
    of the document is a valid `json.Number`, a finite decimal or a Go integer, and there is no foreign value — what
    `encoding/json` decodes (`Json.decode_fin`); `Val.Plain` is not needed.  The expression is arbitrary bytes. -/
theorem search_no_unmodelled_on_json (expr : Bytes) {d : Val} (hf : d.Fin = true) :
    NoPanic (search expr d) ∧ ∀ w, search expr d = .unmodelled w → Reason w := by
  refine ⟨C03.search_no_panic expr d, ?_⟩
  rw [← U_iff]
  unfold search
  split
  · next h => exact absurd h (Fuel.fuel_sufficient expr)
  · exact U.err _
  · next n hp => exact evaluate_u (parse_finLits hp) hf

/-- the same for a document given as JSON text -/
theorem search_no_unmodelled_on_json_text (expr : Bytes) {s : Bytes} {d : Val} (hs : Json.decode s = some d) :
    NoPanic (search expr d) ∧ ∀ w, search expr d = .unmodelled w → Reason w :=
  search_no_unmodelled_on_json expr (Json.decode_fin hs)

/-- … and for an expression compiled once (`Compile` + `Expression.Search`) -/
theorem compiled_search_no_unmodelled_on_json {expr : Bytes} {n : INode} (hc : compile expr = .ok n) {d : Val}
    (hf : d.Fin = true) : NoPanic (exprSearch n d) ∧ ∀ w, exprSearch n d = .unmodelled w → Reason w :=
  ⟨C03.evaluate_no_panic n d, (U_iff _).1 (evaluate_u (compile_finLits hc) hf)⟩

/-- the enumeration is a closed list of two -/
theorem reason_iff (w : String) : Reason w ↔
    w = "case mapping outside the modelled alphabets" ∨ w = "padding wider than the model materialises" := by
  constructor
  · rintro (_ | _)
    · exact Or.inl rfl
    · exact Or.inr rfl
  · rintro (rfl | rfl)
    · exact .caseMapping
    · exact .padWidth

/-- **the outcomes of `Search` on a JSON document**: a value that is again `Fin`, a non-empty set of categories,
    "depends on Go's map order", or one of the two enumerated limits of the model -/
theorem search_outcome_on_json (expr : Bytes) {d : Val} (hf : d.Fin = true) :
    (∃ v, search expr d = .ok v ∧ v.Fin = true) ∨ (∃ cs, cs ≠ [] ∧ search expr d = .err cs) ∨
    search expr d = .nondet ∨ (∃ w, Reason w ∧ search expr d = .unmodelled w) := by
  rcases C03.search_outcome expr d with ⟨v, hv⟩ | ⟨cs, hne, hcs⟩ | hn | ⟨w, hw⟩
  · exact Or.inl ⟨v, hv, C18B.search_fin hf hv⟩
  · exact Or.inr (Or.inl ⟨cs, hne, hcs⟩)
  · exact Or.inr (Or.inr (Or.inl hn))
  · exact Or.inr (Or.inr (Or.inr ⟨w, (search_no_unmodelled_on_json expr hf).2 w hw, hw⟩))

/-- **completeness of the list: both reasons occur** on `Fin` input — `upper(@)` on `"Ā"` (U+0100), and
    ``pad_left(@, `100002`)`` on the empty string (Go returns a string in both cases: limits of the model) -/
theorem reasons_complete :
    (Val.str [0xC4, 0x80]).Fin = true ∧
    evaluate (.call .upper [.current]) (.str [0xC4, 0x80]) = .unmodelled "case mapping outside the modelled alphabets" ∧
    (Val.str []).Fin = true ∧
    evaluate (.call .padSpaceLeft [.current, .lit (.num (.jnum [0x31, 0x30, 0x30, 0x30, 0x30, 0x32]))]) (.str [])
      = .unmodelled "padding wider than the model materialises" := ⟨by decide, rfl, by decide, rfl⟩

/-- `Fin` is needed: the three other sources of `unmodelled` in the model are reached from values that are not `Fin` —
    `to_string` of a binary float, of a foreign value, and an integer argument held in the `json.Number` `0x1` -/
theorem fin_needed :
    evaluate (.call .toString [.current]) (.num (.f64 default)) = .unmodelled "float formatting" ∧
    evaluate (.call .toString [.current]) (.foreign 0) = .unmodelled "foreign value" ∧
    evaluate (.call .padSpaceLeft [.lit (.str []), .current]) (.num (.jnum [0x30, 0x78, 0x31]))
      = .unmodelled "strconv.ParseFloat on a hexadecimal literal" ∧
    ¬ Reason "float formatting" ∧ ¬ Reason "foreign value" ∧ ¬ Reason "strconv.ParseFloat on a hexadecimal literal" := by
  refine ⟨rfl, rfl, rfl, ?_, ?_, ?_⟩ <;> (rw [reason_iff]; decide)

example : NoPanic (search [0x61, 0x62, 0x73, 0x28, 0x40, 0x29] (.num (.jnum [0x2D, 0x32]))) ∧
    ∀ w, search [0x61, 0x62, 0x73, 0x28, 0x40, 0x29] (.num (.jnum [0x2D, 0x32])) = .unmodelled w → Reason w :=
  search_no_unmodelled_on_json _ (by decide)

end Jmes.C03C
