/-
  Property C18, second pass — "For JSON input every result … serialises with encoding/json, and is itself acceptable
  as input. Searching e2 over the result of searching e1 equals searching `e1 | e2` over the original document, for
  every e2 that does not mention the root node or outer variables."

  A. **serialises** (`search_fin`, `search_serialises`, `json_search_serialises`).  `Val.Fin` (`Proofs/C18BDefs.lean`):
     every number is a `json.Number` with a valid JSON number text, a *finite* `decimal128.Decimal`, or a Go integer;
     no float, no foreign value.  JSON input is `Fin` (`Json.decode_fin`), literals of compiled expressions are
     (`compile_finLits`), the evaluator with all builtins keeps `Fin` (`ieval_fin`, `Proofs/C18BLemmas.lean`), and
     `json.Marshal` succeeds on `Fin` values (`encode_fin_total`; the model's `Json.encode` does handle decimals:
     `Decimal.MarshalJSON`, which fails on NaN / ±Inf only).  The earlier `C18.marshal_total` is the special case
     without decimals (`fin_of_marshalable`); results such as `abs(@)` are decimals and were not covered by it.
  B. **acceptable as input** (`search_result_ok`, `feed_back_ok`): the result is again plain and `Fin`, so everything
     above applies to a second search over it; that search never panics, classifies the value (`typeName_fin`), and
     its results serialise again.
  C. **pipe, at `search` level** (`search_pipe`, `search_pipe_no_let`, `search_pipe_spaced`, …).
     FINDING: the statement as worded is FALSE when `e1` ends in a `let` that is reached through `!`, a sign or a binary
     operator other than `|`: `!let $x = a in b` followed by `| c` is `!(let $x = a in (b | c))`
     (`pipe_not_compositional`; the Go code behaves the same way).  It holds — as an equality of `search` results —
     exactly when the right edge of `e1` reaches a `let` only through `let` bodies and right operands of `|`
     (`PipeSafe`), in particular when `e1` does not contain the token `let` at all, and `e2` is root-free and closed
     (no free variable; needed only when the `|` lands inside a `let`).  The proof goes through the grammar
     (`C04G.parse_sound` / `parse_complete`): the tree of `e1 | e2` is exhibited (`C18BGraft.graft`) and the lexer is
     shown to be compositional at the junction (`C18BLex.lexAll_pipe_join`).
-/
import Jmes.Properties.C18
import Jmes.Properties.C03
import Jmes.Proofs.C18BLemmas
import Jmes.Proofs.C18BLits
import Jmes.Proofs.C18BGraft
import Jmes.Proofs.C18BLex
import Jmes.Proofs.C18BClosed
namespace Jmes.C18B
open Jmes Jmes.Grammar Jmes.Pratt Jmes.C18BGraft

/-! ## A. Results serialise with `encoding/json` -/

/-- **`Fin` in, `Fin` out, through `search`**: for every expression, searching a document whose numbers are valid
    `json.Number`s, finite decimals or integers (no float, no foreign value) yields such a value again. -/
theorem search_fin {expr : Bytes} {d r : Val} (hd : d.Fin = true) (h : search expr d = .ok r) : r.Fin = true := by
  unfold search at h
  split at h
  · cases h
  · cases h
  · next n hp => exact evaluate_fin (parse_finLits hp) hd h

/-- **every result serialises**: `json.Marshal` succeeds (no error, nothing unmodelled) on every result of a search
    over a `Fin` document -/
theorem search_serialises {expr : Bytes} {d r : Val} (hd : d.Fin = true) (h : search expr d = .ok r) :
    ∃ b, Json.encode r = .ok b :=
  encode_fin_total r (search_fin hd h)

/-- **C18, "for JSON input every result … serialises with encoding/json"**: the document is whatever
    `encoding/json` decodes (with `UseNumber`) from a text `s` -/
theorem json_search_serialises {expr s : Bytes} {d r : Val} (hs : Json.decode s = some d) (h : search expr d = .ok r) :
    ∃ b, Json.encode r = .ok b :=
  search_serialises (Json.decode_fin hs) h

/-- … and `to_string` of it is a string -/
theorem json_search_toString {expr s : Bytes} {d r : Val} (hs : Json.decode s = some d) (h : search expr d = .ok r)
    (hne : r.hasEnum2 = false) : ∃ b, toStringV r = .ok (.str b) :=
  toString_fin_total (search_fin (Json.decode_fin hs) h) hne

mutual
/-- the earlier notion (`Val.Marshalable`: no decimal at all) is a special case of `Fin` -/
theorem fin_of_marshalable : ∀ v : Val, Val.Marshalable v = true → v.Fin = true
  | .null, _ => rfl
  | .bool _, _ => rfl
  | .str _, _ => rfl
  | .num (.jnum t), h => by simp only [Val.Marshalable] at h; exact Val.fin_jnum.mpr h
  | .num (.int k v), _ => Val.fin_int k v
  | .num (.dec d), h => by simp [Val.Marshalable] at h
  | .num (.f64 f), h => by simp [Val.Marshalable] at h
  | .num (.f32 f), h => by simp [Val.Marshalable] at h
  | .arr t xs, h => by
    simp only [Val.Marshalable] at h
    simp only [Val.Fin]; exact finL_of_marshalable xs h
  | .obj kvs, h => by
    simp only [Val.Marshalable] at h
    simp only [Val.Fin]; exact finF_of_marshalable kvs h
  | .foreign t, h => by simp [Val.Marshalable] at h
theorem finL_of_marshalable : ∀ xs : List Val, Val.MarshalableL xs = true → Val.FinL xs = true
  | [], _ => rfl
  | x :: xs, h => by
    simp only [Val.MarshalableL, Bool.and_eq_true] at h
    simp only [Val.FinL, Bool.and_eq_true]
    exact ⟨fin_of_marshalable x h.1, finL_of_marshalable xs h.2⟩
theorem finF_of_marshalable : ∀ kvs : List (Bytes × Val), Val.MarshalableF kvs = true → Val.FinF kvs = true
  | [], _ => rfl
  | (k, x) :: kvs, h => by
    simp only [Val.MarshalableF, Bool.and_eq_true] at h
    simp only [Val.FinF, Bool.and_eq_true]
    exact ⟨fin_of_marshalable x h.1, finF_of_marshalable kvs h.2⟩
end

/-! ### non-vacuity: a result that is a decimal -/

/-- the document `-2.5` (a `json.Number`) -/
def mtwoHalf : Val := .num (.jnum [0x2D, 0x32, 0x2E, 0x35])
/-- `abs(@)` -/
def absExpr : Bytes := [0x61, 0x62, 0x73, 0x28, 0x40, 0x29]

example : Json.decode [0x2D, 0x32, 0x2E, 0x35] = some mtwoHalf := rfl
example : mtwoHalf.Fin = true := Json.decode_fin (s := [0x2D, 0x32, 0x2E, 0x35]) rfl
/-- `abs(@)` on `-2.5` is the decimal `2.5`: not `Marshalable` in the earlier sense, but `Fin`, and it serialises -/
theorem abs_result : search absExpr mtwoHalf = .ok (.num (.dec (.fin false 25 (-1)))) := by
  have hp : Parser.parse absExpr = .ok (.call .abs [.current]) :=
    C04G.parse_complete (t := .call ⟨.unquotedIdentifier, [0x61, 0x62, 0x73]⟩ [.atom ⟨.current, [0x40]⟩])
      (by decide +kernel) (by decide +kernel)
  unfold search; rw [hp]; rfl
example : Val.Marshalable (.num (.dec (.fin false 25 (-1)))) = false := rfl
example : ∃ b, Json.encode (.num (.dec (.fin false 25 (-1)))) = .ok b := search_serialises (by decide) abs_result
example : ∃ b, Json.encode (.num (.dec (.fin false 25 (-1)))) = .ok b :=
  json_search_serialises (s := [0x2D, 0x32, 0x2E, 0x35]) rfl abs_result
example : (match Json.encode (.num (.dec (.fin false 25 (-1)))) with | .ok b => b == [0x32, 0x2E, 0x35] | _ => false) = true := by
  decide
/-- `Fin` of the document is needed: a NaN decimal handed in by the caller comes back and does not serialise -/
example : evaluate .current (.num (.dec .nan)) = .ok (.num (.dec .nan)) ∧
    (match Json.encode (.num (.dec .nan)) with | .fail => true | _ => false) = true := ⟨rfl, rfl⟩

/-! ## B. The result is acceptable as input -/

/-- the type switches of the evaluator classify every `Fin` value (`typeName` fails on foreign Go values only) -/
theorem typeName_fin {v : Val} (h : v.Fin = true) : ∃ s, typeName v = .ok (.str s) := by
  cases v with
  | foreign t => simp at h
  | _ => exact ⟨_, rfl⟩

/-- **the result of a search over JSON input is plain and `Fin`** — the two invariants under which every statement of
    this file and of `C18` applies again -/
theorem search_result_ok {expr : Bytes} {d r : Val} (hp : d.Plain = true) (hf : d.Fin = true)
    (h : search expr d = .ok r) : r.Plain = true ∧ r.Fin = true :=
  ⟨C18.search_plain hp h, search_fin hf h⟩

/-- **C18, "is itself acceptable as input"**: feed the result `r` of a search over JSON input to a second search, with
    any expression `e2`: it never panics, its result (if any) is again plain and `Fin` and serialises, and `r` itself is
    classified by the evaluator's type switches. -/
theorem feed_back_ok {e1 s : Bytes} {d r : Val} (hs : Json.decode s = some d) (h : search e1 d = .ok r) (e2 : Bytes) :
    NoPanic (search e2 r) ∧ (∃ ty, typeName r = .ok (.str ty)) ∧
    ∀ r2, search e2 r = .ok r2 → r2.Plain = true ∧ r2.Fin = true ∧ ∃ b, Json.encode r2 = .ok b := by
  obtain ⟨hp, hf⟩ := search_result_ok (Json.decode_plain hs) (Json.decode_fin hs) h
  refine ⟨C03.search_no_panic e2 r, typeName_fin hf, fun r2 h2 => ?_⟩
  obtain ⟨hp2, hf2⟩ := search_result_ok hp hf h2
  exact ⟨hp2, hf2, encode_fin_total r2 hf2⟩

example : ∀ r2, search absExpr (.num (.dec (.fin false 25 (-1)))) = .ok r2 → r2.Fin = true :=
  fun _ h => search_fin (by decide) h


/-! ### "unmodelled" outcomes

  The model declines (`unmodelled`) in a few places.  Two of them depend on the *kind* of the value handed in —
  `json.Marshal` of a float or of a foreign Go value (`to_string`), and the integer conversion `toInt` of a
  `json.Number` holding a hexadecimal float literal — and neither can occur on a `Fin` value (`toString_fin_total`,
  `toInt_fin_ne_unmodelled`).  The others (case mapping outside the modelled alphabets, padding wider than the model
  materialises) depend on the content of strings only, so "a second search is never unmodelled" is false of the model
  (`upper_unmodelled`), for a reason unrelated to the result's acceptability as input. -/

open Lexical in
/-- the digits part of a JSON number is not `0x…` -/
theorem jnumber_body_not_hex {i f e : Bytes} (hi : JInt i) (hf : JFrac f) (he : JExp e) (r : Bytes) :
    (i ++ f ++ e).map Dec.lowerByte ≠ 0x30 :: 0x78 :: r := by
  intro hr
  rcases hi with rfl | ⟨d, ds, rfl, h1, h2, _⟩
  · rcases hf with rfl | ⟨fs, rfl, _⟩
    · rcases he with rfl | ⟨e0, sg', ds, rfl, he0, _, _⟩
      · simp at hr
      · rcases he0 with rfl | rfl <;> simp [Dec.lowerByte] at hr
    · simp [Dec.lowerByte] at hr
  · simp only [List.cons_append, List.map_cons, List.cons.injEq] at hr
    have := hr.1
    simp only [Dec.lowerByte] at this
    split at this <;> omega

open Lexical in
/-- a valid JSON number, its sign stripped the way `strconv.ParseFloat` does, is not a hexadecimal literal -/
theorem jnumber_strip_not_hex {t : Bytes} (h : JNumber t) (r : Bytes) :
    ((match t with | 0x2B :: r => r | 0x2D :: r => r | _ => t).map Dec.lowerByte) ≠ 0x30 :: 0x78 :: r := by
  obtain ⟨sg, i, f, e, rfl, hsg, hi, hf, he⟩ := h
  rcases hsg with rfl | rfl
  · have hb := jnumber_body_not_hex hi hf he r
    rcases hi with rfl | ⟨d, ds, rfl, h1, h2, _⟩
    · simpa using hb
    · simp only [List.nil_append, List.cons_append] at hb ⊢
      split
      · rename_i heq; simp only [List.cons.injEq] at heq; omega
      · rename_i heq; simp only [List.cons.injEq] at heq; omega
      · exact hb
  · have hb := jnumber_body_not_hex hi hf he r
    simpa using hb

private theorem ite_ne' {α} {c : Prop} [Decidable c] {a b x : α} (ha : a ≠ x) (hb : b ≠ x) : ite c a b ≠ x := by
  split <;> assumption

/-- `strconv.ParseFloat` is modelled on everything but hexadecimal literals -/
theorem parseFloatOk_ne_unmodelled {s : Bytes}
    (hx : ∀ r, ((match s with | 0x2B :: r => r | 0x2D :: r => r | _ => s).map Dec.lowerByte) ≠ 0x30 :: 0x78 :: r) :
    parseFloatOk s ≠ .unmodelled := by
  unfold parseFloatOk
  intro h
  dsimp only at h
  split at h
  all_goals
    simp only at hx
    split at h
    · cases h
    · split at h
      · split at h <;> cases h
      · split at h
        · rename_i r hl; exact hx r hl
        · revert h
          refine ite_ne' (by decide) ?_
          split
          · decide
          · refine ite_ne' (by decide) (ite_ne' (by decide) (ite_ne' (ite_ne' (by decide) (by decide)) ?_))
            exact ite_ne' (by decide) (ite_ne' (by decide) (ite_ne' (by decide) (by decide)))

theorem decToInt_ne_unmodelled (d : Dec) : decToInt d ≠ .unmodelled := by
  unfold decToInt
  repeat' (first | (intro h; cases h; done) | split)

/-- **`toInt` of a `Fin` value is never "unmodelled"**: the only unmodelled case of the integer conversion is
    `strconv.ParseFloat` on a hexadecimal literal held in a `json.Number`, and a valid JSON number is not one -/
theorem toInt_fin_ne_unmodelled {v : Val} (h : v.Fin = true) : toInt v ≠ .unmodelled := by
  cases v with
  | num n =>
    cases n with
    | f64 f => simp at h
    | f32 f => simp at h
    | dec d => exact decToInt_ne_unmodelled d
    | int k i => simp only [toInt]; split <;> (try split) <;> (intro h; cases h)
    | jnum t =>
      have hv := (JsonGrammar.isValidNumber_iff t).mp (Val.fin_jnum.mp h)
      intro hu
      simp only [toInt] at hu
      split at hu
      · cases hu
      · split at hu
        · exact decToInt_ne_unmodelled _ hu
        · split at hu
          · cases hu
          · cases hu
          · rename_i hpf
            exact parseFloatOk_ne_unmodelled (jnumber_strip_not_hex hv) hpf
  | _ => simp [toInt]

/-- … so an integer argument taken from a `Fin` value is an integer or a type / value error -/
theorem intArg_fin {v : Val} (h : v.Fin = true) : ∀ w, intArg v ≠ .unmodelled w := by
  intro w hw
  unfold intArg at hw
  split at hw
  · cases hw
  · cases hw
  · split at hw <;> cases hw
  · cases hw
  · rename_i hu; exact toInt_fin_ne_unmodelled h hu

example : toInt (.num (.jnum [0x30, 0x78, 0x31])) = .unmodelled := by decide  -- the json.Number `0x1`: not `Fin`
example : (Val.num (.jnum [0x30, 0x78, 0x31])).Fin = false := by decide
example : toInt (.num (.jnum [0x31, 0x65, 0x32])) ≠ .unmodelled := toInt_fin_ne_unmodelled (by decide)

/-- `upper(@)` on the (plain, `Fin`) string `Ā` (U+0100) is outside the alphabets whose case mapping the model
    transliterates: a limitation of the model that has nothing to do with the kind of the value -/
theorem upper_unmodelled : (Val.str [0xC4, 0x80]).Plain = true ∧ (Val.str [0xC4, 0x80]).Fin = true ∧
    evaluate (.call .upper [.current]) (.str [0xC4, 0x80]) =
      .unmodelled "case mapping outside the modelled alphabets" := ⟨by decide, by decide, rfl⟩

/-! ## C. `e1 | e2` at `search` level -/

/-- searching an expression whose tokens are those of a well-formed tree -/
theorem search_of_tree {T : PTree} {e : Bytes} (hw : WellPrec T) (hl : lexAll e = (Grammar.flatten T ++ [endTok], none))
    (d : Val) : search e d = evaluate (erase T) d := by
  unfold search; rw [C04G.parse_complete hw hl]

/-- **the general form**, with the lexer junction as a hypothesis: if `e12` lexes to the tokens of `e1`, a `|`, and the
    tokens of `e2`, then searching `e12` is searching `e2` over the result of `e1` — provided `| e2` does not land
    under a `!`, sign or binary operator of `e1` (`PipeSafe T1`), `e2` is root-free, and `e2` is closed if the `|` lands
    inside a `let` of `e1`. -/
theorem search_pipe_of_lex {e1 e2 e12 : Bytes} {T1 : PTree} {c : Ctx} {core : PTree} {n2 : INode} {d r : Val}
    (hw : WellPrec T1) (hl1 : lexAll e1 = (Grammar.flatten T1 ++ [endTok], none))
    (hT : T1 = c.fill core) (hp : c.pipes) (hr : lvlPipe ≤ rlevel core)
    (h2 : compile e2 = .ok n2) (hroot : n2.RootFree = true) (hcl : c.isHole = true ∨ n2.Closed = true)
    (hj : ∀ p2, lexAll e2 = (p2 ++ [endTok], none) →
      lexAll e12 = (Grammar.flatten T1 ++ pipeTok :: p2 ++ [endTok], none))
    (h1 : search e1 d = .ok r) : search e12 d = search e2 r := by
  obtain ⟨T2, hw2, hl2, he2, _⟩ := C04G.parse_sound h2
  have hn : c.isHole = true ∨ EnvIndep (erase T2) := by
    rcases hcl with h | h
    · exact Or.inl h
    · right; rw [he2]; exact fun root cur env => ieval_closed h root cur env []
  obtain ⟨hwT, hfT, hsem⟩ := graft hw hw2 hT hp hr hn
  have hl12 : lexAll e12 = (Grammar.flatten (c.fill (joinL core T2)) ++ [endTok], none) := by
    rw [hfT, hj _ hl2]
  rw [search_of_tree hwT hl12, search_of_tree hw2 hl2]
  rw [search_of_tree hw hl1] at h1
  simp only [evaluate] at h1 ⊢
  rw [hsem, h1, he2]
  exact C18.ieval_root_free hroot d r r []

/-- the lexer junction for `e1 ++ "|" ++ e2`, from the grammar: a well-formed tree does not end in `|` and does not
    start with `|` or `||` -/
theorem lex_junction {e1 e2 : Bytes} {T1 : PTree} {n2 : INode} (hw : WellPrec T1)
    (hl1 : lexAll e1 = (Grammar.flatten T1 ++ [endTok], none)) (h2 : compile e2 = .ok n2) :
    ∀ p2, lexAll e2 = (p2 ++ [endTok], none) →
      lexAll (e1 ++ [0x7C] ++ e2) = (Grammar.flatten T1 ++ pipeTok :: p2 ++ [endTok], none) := by
  intro p2 hp2
  obtain ⟨T2, hw2, hl2, _, _⟩ := C04G.parse_sound h2
  have hpe : p2 = Grammar.flatten T2 := by
    have := hp2.symm.trans hl2
    simp only [Prod.mk.injEq, and_true] at this
    exact List.append_cancel_right this
  subst hpe
  exact C18BLex.lexAll_pipe_join hl1 hp2 (last_not_pipe false T1 hw) (head_not_pipe_or hw2)

/-- **C18, second sentence, at `search` level** (`e1 ++ "|" ++ e2`, no separating blanks needed): for a well-formed
    tree `T1` of `e1` that is `PipeSafe`, and `e2` root-free and closed. -/
theorem search_pipe {e1 e2 : Bytes} {T1 : PTree} {n2 : INode} {d r : Val}
    (hw : WellPrec T1) (hl1 : lexAll e1 = (Grammar.flatten T1 ++ [endTok], none)) (hs : PipeSafe T1)
    (h2 : compile e2 = .ok n2) (hroot : n2.RootFree = true) (hcl : n2.Closed = true)
    (h1 : search e1 d = .ok r) : search (e1 ++ [0x7C] ++ e2) d = search e2 r := by
  obtain ⟨c, core, hT, hp, hr⟩ := hs
  exact search_pipe_of_lex hw hl1 hT hp hr h2 hroot (Or.inr hcl) (lex_junction hw hl1 h2) h1

/-- the same when nothing at the right edge of `e1` absorbs the `|` (`lvlPipe ≤ rlevel T1`: `e1` does not end in a
    `let` body): `e2` need only be root-free — a free variable of `e2` fails alike on both sides -/
theorem search_pipe_top {e1 e2 : Bytes} {T1 : PTree} {n2 : INode} {d r : Val}
    (hw : WellPrec T1) (hl1 : lexAll e1 = (Grammar.flatten T1 ++ [endTok], none)) (hr : lvlPipe ≤ rlevel T1)
    (h2 : compile e2 = .ok n2) (hroot : n2.RootFree = true)
    (h1 : search e1 d = .ok r) : search (e1 ++ [0x7C] ++ e2) d = search e2 r :=
  search_pipe_of_lex (c := .hole) hw hl1 rfl trivial hr h2 hroot (Or.inl rfl) (lex_junction hw hl1 h2) h1

/-- an expression that compiles and does not contain the token `let` has a tree that `|` may follow directly -/
theorem tree_of_no_let {e1 : Bytes} {n1 : INode} (hc : compile e1 = .ok n1)
    (hnl : ∀ tok ∈ (lexAll e1).1, tok.type ≠ .let) :
    ∃ T1, WellPrec T1 ∧ lexAll e1 = (Grammar.flatten T1 ++ [endTok], none) ∧ erase T1 = n1 ∧ lvlPipe ≤ rlevel T1 := by
  obtain ⟨T1, hw, hl1, he, _⟩ := C04G.parse_sound hc
  refine ⟨T1, hw, hl1, he, rlevel_of_no_let hw fun tok hm => hnl tok ?_⟩
  rw [hl1]; exact List.mem_append_left _ hm

theorem compile_of_search {e : Bytes} {d r : Val} (h : search e d = .ok r) : ∃ n, compile e = .ok n := by
  unfold search at h
  unfold compile
  split at h
  · cases h
  · cases h
  · next n hp => exact ⟨n, hp⟩

/-- **C18, second sentence, for `e1` without `let`** (stated on bytes only): if no token of `e1` is `let`, then for
    every `e2` that compiles to a root-free node — it may use variables it binds itself; a free variable fails alike on
    both sides — searching `e1|e2` over `d` is searching `e2` over the result of `e1`. -/
theorem search_pipe_no_let {e1 e2 : Bytes} {n2 : INode} {d r : Val}
    (hnl : ∀ tok ∈ (lexAll e1).1, tok.type ≠ .let)
    (h2 : compile e2 = .ok n2) (hroot : n2.RootFree = true)
    (h1 : search e1 d = .ok r) : search (e1 ++ [0x7C] ++ e2) d = search e2 r := by
  obtain ⟨n1, hc⟩ := compile_of_search h1
  obtain ⟨T1, hw, hl1, _, hr⟩ := tree_of_no_let hc hnl
  exact search_pipe_of_lex (c := .hole) hw hl1 rfl trivial hr h2 hroot (Or.inl rfl) (lex_junction hw hl1 h2) h1

/-- the same two statements for `e1 ++ " | " ++ e2` -/
theorem search_pipe_spaced {e1 e2 : Bytes} {T1 : PTree} {n2 : INode} {d r : Val}
    (hw : WellPrec T1) (hl1 : lexAll e1 = (Grammar.flatten T1 ++ [endTok], none)) (hs : PipeSafe T1)
    (h2 : compile e2 = .ok n2) (hroot : n2.RootFree = true) (hcl : n2.Closed = true)
    (h1 : search e1 d = .ok r) : search (e1 ++ [0x20, 0x7C, 0x20] ++ e2) d = search e2 r := by
  obtain ⟨c, core, hT, hp, hr⟩ := hs
  exact search_pipe_of_lex hw hl1 hT hp hr h2 hroot (Or.inr hcl)
    (fun p2 hp2 => C18BLex.lexAll_spaced_pipe_join hl1 hp2) h1

theorem search_pipe_spaced_no_let {e1 e2 : Bytes} {n2 : INode} {d r : Val}
    (hnl : ∀ tok ∈ (lexAll e1).1, tok.type ≠ .let)
    (h2 : compile e2 = .ok n2) (hroot : n2.RootFree = true)
    (h1 : search e1 d = .ok r) : search (e1 ++ [0x20, 0x7C, 0x20] ++ e2) d = search e2 r := by
  obtain ⟨n1, hc⟩ := compile_of_search h1
  obtain ⟨T1, hw, hl1, _, hr⟩ := tree_of_no_let hc hnl
  exact search_pipe_of_lex (c := .hole) hw hl1 rfl trivial hr h2 hroot (Or.inl rfl)
    (fun p2 hp2 => C18BLex.lexAll_spaced_pipe_join hl1 hp2) h1

/-- parenthesising `e1` always works: `(e1)|e2`, for every `e1` and every root-free `e2` -/
theorem search_pipe_paren {e1 e2 : Bytes} {n2 : INode} {d r : Val}
    (h2 : compile e2 = .ok n2) (hroot : n2.RootFree = true)
    (h1 : search e1 d = .ok r) : search (([0x28] ++ e1 ++ [0x29]) ++ [0x7C] ++ e2) d = search e2 r := by
  obtain ⟨n1, hc⟩ := compile_of_search h1
  obtain ⟨T1, hw, hl1, _, _⟩ := C04G.parse_sound hc
  -- the lexer on `(e1)`
  have hlp : lexAll ([0x28] ++ e1 ++ [0x29]) = (Grammar.flatten (.paren T1) ++ [endTok], none) := by
    have ha : lexAll ([0x28] ++ e1) = (tLParen :: Grammar.flatten T1 ++ [endTok], none) := by
      have := C18BLex.lexAll_step (s := [0x28] ++ e1) (t := tLParen) (n := 1)
        (C18BLex.lexToken_complete' (ty := .openParen) (v := [0x28]) rfl ⟨fun _ _ _ => rfl, fun h => by cases h⟩)
      rw [this]; simp [hl1]
    have hb := C18BLex.lexAll_append_gen _ ([0x28] ++ e1) (Nat.le_refl _) (tLParen :: Grammar.flatten T1) ha
      0x29 [] (by decide) (by decide) (by decide) (by
        intro t ht
        cases t with
        | mk ty v => cases ty <;> simp [Lexical.forbiddenNext, Lexical.isIdCharB, Lexical.isIdStartB, Lexical.isDigitB])
    rw [hb]
    show _ = (tLParen :: Grammar.flat false T1 ++ [tRParen] ++ [endTok], none)
    have hr : lexAll [0x29] = ([tRParen, endTok], none) := by decide
    rw [hr]; simp [Grammar.flatten]
  have hwp : WellPrec (.paren T1) := C04G.wellPrec_paren hw
  have h1' : search ([0x28] ++ e1 ++ [0x29]) d = .ok r := by
    rw [search_of_tree hwp hlp]; rw [search_of_tree hw hl1] at h1; exact h1
  exact search_pipe_of_lex (c := .hole) hwp hlp rfl trivial (show lvlPipe ≤ top by decide) h2 hroot (Or.inl rfl)
    (lex_junction hwp hlp h2) h1'

/-! ### non-vacuity, and the counterexamples -/

section Examples
open Grammar.Ex

/-- `{"a": 1, "b": {"c": false}}` -/
def doc2 : Val := .obj [(bs "a", C18.one), (bs "b", .obj [(bs "c", .bool false)])]

/-- `b | c` over `doc2`, via `search_pipe_no_let` (`e1 = b` has no `let` token) -/
example : search (bs "b" ++ [0x7C] ++ bs "c") doc2 = search (bs "c") (.obj [(bs "c", .bool false)]) :=
  search_pipe_no_let (n2 := .field (bs "c")) (by decide)
    (C04G.parse_complete (t := idt "c") (by decide) (by decide)) (by decide)
    ((search_of_tree (T := idt "b") (by decide) (by decide) doc2).trans rfl)

/-- `b|$x`: a free variable of `e2` fails alike on both sides when the `|` stays at the top (`search_pipe_top`) -/
example : search (bs "b" ++ [0x7C] ++ bs "$x") doc2 = search (bs "$x") (.obj [(bs "c", .bool false)]) :=
  search_pipe_top (T1 := idt "b") (n2 := .variable (bs "$x")) (by decide) (by decide) (by decide)
    (C04G.parse_complete (t := .atom ⟨.variable, bs "$x"⟩) (by decide) (by decide)) (by decide)
    ((search_of_tree (T := idt "b") (by decide) (by decide) doc2).trans rfl)

/-- `let $x = a in b`, with its tree and the path to the place where `| e2` lands: the body of the `let` -/
def letE : Bytes := bs "let $x = a in b"
def letT : PTree := .letIn [(⟨.variable, bs "$x"⟩, idt "a")] (idt "b")
theorem letT_ok : WellPrec letT ∧ lexAll letE = (Grammar.flatten letT ++ [endTok], none) := by decide
theorem letT_safe : PipeSafe letT := ⟨.letIn _ .hole, idt "b", rfl, trivial, by decide⟩
theorem letE_val : search letE doc2 = .ok (.obj [(bs "c", .bool false)]) :=
  (search_of_tree letT_ok.1 letT_ok.2 doc2).trans rfl

/-- `let $x = a in b|c`: the `|` lands inside the `let` (the node is *not* `pipe (let …) c`), yet the value is that of
    `c` searched over the result of the `let` -/
example : search (letE ++ [0x7C] ++ bs "c") doc2 = search (bs "c") (.obj [(bs "c", .bool false)]) :=
  search_pipe (n2 := .field (bs "c")) letT_ok.1 letT_ok.2 letT_safe
    (C04G.parse_complete (t := idt "c") (by decide) (by decide)) (by decide) (by decide) letE_val
example : Parser.parse (letE ++ [0x7C] ++ bs "c") =
    .ok (.defineVariables [(bs "$x", .field (bs "a"))] (.pipe (.field (bs "b")) (.field (bs "c")))) :=
  C04G.parse_complete
    (t := .letIn [(⟨.variable, bs "$x"⟩, idt "a")] (.bin (op .pipe "|") (idt "b") (idt "c"))) (by decide) (by decide)

/-- COUNTEREXAMPLE (closedness is needed when the `|` lands inside a `let`): `e1 = let $x = a in b`, `e2 = $x`.
    `e1|e2` is `let $x = a in (b | $x)` and yields `1`; `$x` searched over the result of `e1` is an undefined variable.
    (`e2` is root-free; it is not closed.)  Go agrees: `Search("let $x = a in b|$x", …) = 1`. -/
theorem pipe_needs_closed :
    search (letE ++ [0x7C] ++ bs "$x") doc2 = .ok C18.one ∧
    search (bs "$x") (.obj [(bs "c", .bool false)]) = .err [Cat.undefinedVariable] ∧
    compile (bs "$x") = .ok (.variable (bs "$x")) ∧ (INode.variable (bs "$x")).RootFree = true ∧
    (INode.variable (bs "$x")).Closed = false := by
  have hp : Parser.parse (bs "$x") = .ok (.variable (bs "$x")) :=
    C04G.parse_complete (t := .atom ⟨.variable, bs "$x"⟩) (by decide) (by decide)
  refine ⟨?_, ?_, hp, by decide, by decide⟩
  · exact (search_of_tree
      (T := .letIn [(⟨.variable, bs "$x"⟩, idt "a")] (.bin (op .pipe "|") (idt "b") (.atom ⟨.variable, bs "$x"⟩)))
      (by decide) (by decide) doc2).trans rfl
  · unfold search; rw [hp]; rfl

/-- `!let $x = a in b` -/
def notLetE : Bytes := bs "!let $x = a in b"
def notLetT : PTree := .not letT

/-- **COUNTEREXAMPLE to the second sentence of C18 as worded** (a finding; the Go code behaves the same way):
    `e1 = !let $x = a in b`, `e2 = c`, document `{"a": 1, "b": {"c": false}}`.  Both compile, `e2` is root-free and
    closed, `e1` yields `false`, `c` searched over `false` is `null` — but `e1|e2` is `!(let $x = a in (b | c))` and
    yields `true`: the body of a `let` extends as far to the right as possible, also under `!`. -/
theorem pipe_not_compositional :
    search notLetE doc2 = .ok (.bool false) ∧
    search (bs "c") (.bool false) = .ok .null ∧
    search (notLetE ++ [0x7C] ++ bs "c") doc2 = .ok (.bool true) ∧
    compile (bs "c") = .ok (.field (bs "c")) ∧ (INode.field (bs "c")).RootFree = true ∧
    (INode.field (bs "c")).Closed = true := by
  have hp : Parser.parse (bs "c") = .ok (.field (bs "c")) :=
    C04G.parse_complete (t := idt "c") (by decide) (by decide)
  refine ⟨?_, ?_, ?_, hp, by decide, by decide⟩
  · exact (search_of_tree (T := notLetT) (by decide) (by decide) doc2).trans rfl
  · unfold search; rw [hp]; rfl
  · exact (search_of_tree
      (T := .not (.letIn [(⟨.variable, bs "$x"⟩, idt "a")] (.bin (op .pipe "|") (idt "b") (idt "c"))))
      (by decide) (by decide) doc2).trans rfl

/-- accordingly the tree of `!let $x = a in b` is not `PipeSafe` … -/
theorem notLetT_unsafe : WellPrec notLetT ∧ lexAll notLetE = (Grammar.flatten notLetT ++ [endTok], none) ∧
    ¬ PipeSafe notLetT := by
  refine ⟨by decide, by decide, ?_⟩
  rintro ⟨c, core, hT, _, hr⟩
  cases c with
  | hole => subst hT; revert hr; decide
  | letIn bs c => cases hT
  | pipeLet o l bs c => cases hT

/-- … while the parenthesised form always works: `(!let $x = a in b)|c` is `null` -/
example : search (([0x28] ++ notLetE ++ [0x29]) ++ [0x7C] ++ bs "c") doc2 = search (bs "c") (.bool false) :=
  search_pipe_paren (n2 := .field (bs "c")) (C04G.parse_complete (t := idt "c") (by decide) (by decide)) (by decide)
    pipe_not_compositional.1

/-- the spaced form, and an `e2` with pipes at its top: `b | c | d` -/
example : search (bs "b" ++ [0x20, 0x7C, 0x20] ++ bs "c|d") doc2 = search (bs "c|d") (.obj [(bs "c", .bool false)]) :=
  search_pipe_spaced_no_let (n2 := .pipe (.field (bs "c")) (.field (bs "d"))) (by decide)
    (C04G.parse_complete (t := .bin (op .pipe "|") (idt "c") (idt "d")) (by decide) (by decide)) (by decide)
    ((search_of_tree (T := idt "b") (by decide) (by decide) doc2).trans rfl)

end Examples

end Jmes.C18B
