/-
  Property C14 — representation independence of numbers, second round.

  "For every document and expression, replacing each number by another Go representation of the same
  mathematical value … leaves every result equal in value, as long as all intermediate values are exactly
  representable in each representation."

  `Jmes/Properties/C14.lean` proved this helper by helper.  Here:

   1. **a theorem over expressions** (`evaluate_congr`, `ieval_congr`, `seval_congr`): a structural induction over the
      expression.  The relation between documents is `VR nf` (`Jmes/Proofs/C14BLemmas.lean`): same shape, numbers of
      the same value (`Num.SameValue`), both well-formed Go numbers (or identical); with `nf = true` no floats.
      Outcomes are related by `RR (VR nf)`: values related again, or the *same* failure.
      The theorem holds for every expression all of whose operators are congruent (`TCongr`).
   2. the operators that are congruent outright: the comparison operators, unary minus, `abs`, `ceil`, `floor` (floats
      included: `Jmes/Proofs/C14BLemmasFloatUn.lean`), every builtin except `to_string`, `sum`, `avg`, `sort` — and, on
      float-free documents, **`+ - * // %` without any exactness proviso**: decimal128's rounding is a function of the
      value (`Dec.reduce_value`, `Jmes/Proofs/C14BLemmasReduce.lean`).
      This gives the unconditional `evaluate_congr_fragment` / `evaluate_congr_of_equiv` (float-free documents;
      everything but `/`, `to_string`, `sum`, `avg`, `sort`) and `evaluate_congr_fragment_float` (float leaves;
      everything but the arithmetic operators and those four builtins).
   3. the remaining operators, with their side conditions: `/` (`divide_rr_true`, exact quotients), `sum`, `avg`
      (not over a map-ordered array), `sort` (no ambiguous tie, or `.nondet` allowed), and their use on top of an
      expression of the fragment (`evaluate_divide_congr`, `evaluate_sort_congr`, `evaluate_sum_congr`).
      `to_string` is the recorded deviation of `C14` (it prints a `json.Number`'s spelling).
   4. the float fast path of `/`, `//`, `%` and `float32` (`Jmes/Proofs/C14BFloat.lean`, re-exported here), with the
      recorded divergence `(2^53−1) // 1.5`.
   5. representation lemmas for the ten integer kinds and dyadic floats; the bridge from `C14`'s `Val.Equiv`.
-/
import Jmes.Proofs.C14BLemmasEval
import Jmes.Proofs.C14BLemmasArith
import Jmes.Proofs.C14BLemmasFloatUn
import Jmes.Proofs.C14BFloat
namespace Jmes
namespace C14B
open C14

section
variable {nf : Bool}

/-! ## 1. operators that are congruent outright -/

/-- `==`: related operands give the same answer (or both decline because of a map-ordered array) -/
theorem opCongr_eq : OpCongr nf .eq := fun a a' b b' ha hb => by
  simp only [applyBinOp]
  exact RR.bind (equalR_rr ha hb) (fun x y hxy => by subst hxy; exact RR.ok' (vr_bool _))

theorem opCongr_ne : OpCongr nf .ne := fun a a' b b' ha hb => by
  simp only [applyBinOp]
  exact RR.bind (equalR_rr ha hb) (fun x y hxy => by subst hxy; exact RR.ok' (vr_bool _))

theorem opCongr_lt : OpCongr nf .lt := fun _ _ _ _ ha hb =>
  RR.ok' (cmpOp_vr Dec.less (fun _ _ _ _ => Dec.less_congr) ha hb)
theorem opCongr_le : OpCongr nf .le := fun _ _ _ _ ha hb =>
  RR.ok' (cmpOp_vr Dec.lessEq (fun _ _ _ _ => Dec.lessEq_congr) ha hb)
theorem opCongr_gt : OpCongr nf .gt := fun _ _ _ _ ha hb =>
  RR.ok' (cmpOp_vr Dec.greater (fun _ _ _ _ => Dec.greater_congr) ha hb)
theorem opCongr_ge : OpCongr nf .ge := fun _ _ _ _ ha hb =>
  RR.ok' (cmpOp_vr Dec.greaterEq (fun _ _ _ _ => Dec.greaterEq_congr) ha hb)

-- `1.50 (json.Number) == 1.5 (decimal)` and `3 (uint8) < 3.5 (json.Number)`
example : (match applyBinOp .eq (.num (.jnum [0x31, 0x2E, 0x35, 0x30])) (.num (.dec (.fin false 15 (-1)))) with
      | .ok (.bool b) => b | _ => false) = true ∧
    (match applyBinOp .lt (.num (.int .u8 3)) (.num (.jnum [0x33, 0x2E, 0x35])) with
      | .ok (.bool b) => b | _ => false) = true := by decide

end
end C14B

/-- the six comparison operators -/
def BinOp.isCmp : BinOp → Bool
  | .eq | .ne | .lt | .le | .gt | .ge => true
  | _ => false

/-- the builtins whose result is a function of the *values* of their arguments whatever the representation:
    all but `to_string` (prints a `json.Number`'s spelling), `sum`, `avg` (rounding), `sort` (ties between equal
    numbers of different representation), `abs`, `ceil`, `floor` (separate statement: they have a float path) -/
def Fn.plain : Fn → Bool
  | .toString | .sum | .avg | .sort | .abs | .ceil | .floor => false
  | _ => true

/-- `abs`, `ceil`, `floor` -/
def Fn.isRound : Fn → Bool
  | .abs | .ceil | .floor => true
  | _ => false

namespace C14B
open C14
section
variable {nf : Bool}

theorem opCongr_cmp {op : BinOp} (h : op.isCmp = true) : OpCongr nf op := by
  cases op <;> first | exact absurd h (by decide) | exact opCongr_eq | exact opCongr_ne | exact opCongr_lt | exact opCongr_le | exact opCongr_gt | exact opCongr_ge

/-- **every "plain" builtin is congruent**: related argument lists give related outcomes -/
theorem fnCongr_plain {f : Fn} (hf : f.plain = true) : FnCongr nf f := by
  intro args args' h
  rcases args with _ | ⟨a, _ | ⟨b, _ | ⟨c, _ | ⟨d, _ | ⟨e, r⟩⟩⟩⟩⟩ <;>
    rcases args' with _ | ⟨a', _ | ⟨b', _ | ⟨c', _ | ⟨d', _ | ⟨e', r'⟩⟩⟩⟩⟩ <;>
    simp only [VRL, and_true, and_false] at h
  · cases f <;> exact rfl
  · cases f
    case abs | avg | ceil | floor | sort | sum | toString => exact absurd hf (by decide)
    case fromItems => exact fromItems_rr h
    case items => exact items_rr h
    case keys => exact keys_rr h
    case length => exact length_rr h
    case lower => exact lower_rr h
    case max => exact arrayMax_rr h
    case min => exact arrayMin_rr h
    case reverse => exact reverse_rr h
    case toArray => exact RR.ok' (toArray_vr h)
    case toNumber => exact RR.ok' (toNumber_vr h)
    case trimSpace => exact trimSpace_rr h
    case trimSpaceLeft => exact trimSpaceLeft_rr h
    case trimSpaceRight => exact trimSpaceRight_rr h
    case type => exact typeName_rr h
    case upper => exact upper_rr h
    case values => exact values_rr h
    all_goals exact rfl
  · cases f
    case contains => exact contains_rr h.1 h.2
    case endsWith => exact endsWith_rr h.1 h.2
    case findFirst => exact findFirst_rr h.1 h.2
    case findLast => exact findLast_rr h.1 h.2
    case join => exact join_rr h.1 h.2
    case padSpaceLeft => exact padSpaceLeft_rr h.1 h.2
    case padSpaceRight => exact padSpaceRight_rr h.1 h.2
    case split => exact split_rr h.1 h.2
    case startsWith => exact startsWith_rr h.1 h.2
    case trim => exact trim_rr h.1 h.2
    case trimLeft => exact trimLeft_rr h.1 h.2
    case trimRight => exact trimRight_rr h.1 h.2
    all_goals exact rfl
  · cases f
    case findFirstFrom => exact findFrom_rr false h.1 h.2.1 h.2.2
    case findLastFrom => exact findFrom_rr true h.1 h.2.1 h.2.2
    case padLeft => exact padLeft_rr h.1 h.2.1 h.2.2
    case padRight => exact padRight_rr h.1 h.2.1 h.2.2
    case replace => exact replace_rr h.1 h.2.1 h.2.2
    case splitCount => exact splitCount_rr h.1 h.2.1 h.2.2
    all_goals exact rfl
  · cases f
    case findFirstBetween => exact findBetween_rr false h.1 h.2.1 h.2.2.1 h.2.2.2
    case findLastBetween => exact findBetween_rr true h.1 h.2.1 h.2.2.1 h.2.2.2
    case replaceCount => exact replaceCount_rr h.1 h.2.1 h.2.2.1 h.2.2.2
    all_goals exact rfl
  · cases f <;> exact rfl

/-- **unary minus depends on the value only**, whatever the representation (for a float the sign is flipped exactly;
    `NumOK` excludes the floats `±2^63`, see `C14`) -/
theorem negCongr : NegCongr nf := fun _ _ h => negateVal_vr_any h

theorem negCongr_true : NegCongr true := negCongr

/-- **`abs`, `ceil`, `floor` depend on the value only** — no side condition: the decimal functions are exact, and so are
    `math.Abs`/`math.Ceil`/`math.Floor` on a float (whose result, a float, is related to the decimal result on any
    other representation of the same value) -/
theorem fnCongr_round {f : Fn} (hf : f.isRound = true) : FnCongr nf f := by
  intro args args' h
  rcases args with _ | ⟨a, _ | ⟨b, r⟩⟩ <;> rcases args' with _ | ⟨a', _ | ⟨b', r'⟩⟩ <;>
    simp only [VRL, and_true, and_false] at h
  · cases f <;> exact rfl
  · cases f
    case abs => exact numAbs_rr_any h
    case ceil => exact numCeil_rr_any h
    case floor => exact numFloor_rr_any h
    all_goals exact absurd hf (by decide)
  · cases f <;> first | exact rfl | exact absurd hf (by decide)

theorem fnCongr_round_true {f : Fn} (hf : f.isRound = true) : FnCongr true f := fnCongr_round hf

-- -2.50 as json.Number and as decimal -25e-1: `abs`, `ceil`, `floor`, unary minus agree in value
example : (match numAbs (.num (.jnum [0x2D, 0x32, 0x2E, 0x35, 0x30])), numAbs (.num (.dec (.fin true 25 (-1)))) with
      | .ok (.num (.dec d)), .ok (.num (.dec d')) => Dec.cmp d d' == some 0 && Dec.cmp d (.fin false 25 (-1)) == some 0
      | _, _ => false) = true ∧
    (match numCeil (.num (.jnum [0x2D, 0x32, 0x2E, 0x35, 0x30])), numFloor (.num (.dec (.fin true 25 (-1)))) with
      | .ok (.num (.dec d)), .ok (.num (.dec d')) => Dec.cmp d (Dec.ofInt (-2)) == some 0 && Dec.cmp d' (Dec.ofInt (-3)) == some 0
      | _, _ => false) = true := by decide

/-- **`+ - * // %` on float-free operands are congruent without any exactness proviso**: two pairs of operands of
    equal values give the same error or results of equal value, whether or not the exact result fits the format —
    decimal128 rounds a value, not a spelling (`Dec.reduce_value`). -/
theorem opCongr_arith_true {op : BinOp} (h : op ≠ .div) : OpCongr true op := by
  intro a a' b b' ha hb
  cases op
  case add => exact add_rr_true ha hb
  case sub => exact subtract_rr_true ha hb
  case mul => exact multiply_rr_true ha hb
  case idiv => exact integerDivide_rr_true ha hb
  case mod => exact modulo_rr_true ha hb
  case div => exact absurd rfl h
  case eq => exact opCongr_eq a a' b b' ha hb
  case ne => exact opCongr_ne a a' b b' ha hb
  case lt => exact opCongr_lt a a' b b' ha hb
  case le => exact opCongr_le a a' b b' ha hb
  case gt => exact opCongr_gt a a' b b' ha hb
  case ge => exact opCongr_ge a a' b b' ha hb

-- 1/3-like rounding: 1e34 + 0.5 written two ways (the exact sum has 35 digits and is rounded): same result
example : (match add (.num (.jnum [0x31, 0x65, 0x33, 0x34])) (.num (.jnum [0x30, 0x2E, 0x35])),
      add (.num (.dec (.fin false 10 33))) (.num (.dec (.fin false 50 (-2)))) with
    | .ok (.num (.dec d)), .ok (.num (.dec d')) => d == d'
    | _, _ => false) = true := by decide

/-! ## 2. the theorem over expressions -/

/-- **Representation independence of evaluation, reference semantics.**  If every operator occurring in the expression
    `t` is congruent (`TCongr`), then for related root documents, current values and environments, `seval` yields related
    outcomes: values related again by `VR nf`, or the same failure. -/
theorem seval_congr {t : Tree} (ht : TCongr nf t) {root root' cur cur' : Val} {env env' : Env}
    (hr : VR nf root root') (hc : VR nf cur cur') (he : VRF nf env env') :
    RR (VR nf) (seval root t cur env) (seval root' t cur' env') :=
  seval_rr hr t ht cur cur' env env' hc he

/-- … for the Go-shaped evaluator over `INode` (through the refinement `ieval = seval ∘ desugar`) -/
theorem ieval_congr {n : INode} (hn : TCongr nf (desugar n)) {root root' cur cur' : Val} {env env' : Env}
    (hr : VR nf root root') (hc : VR nf cur cur') (he : VRF nf env env') :
    RR (VR nf) (ieval root n cur env) (ieval root' n cur' env') := by
  rw [ieval_desugar, ieval_desugar]; exact seval_congr hn hr hc he

/-- **`evaluator.Evaluate(node, data)` on two documents that differ only in the Go types carrying their numbers** -/
theorem evaluate_congr {n : INode} (hn : TCongr nf (desugar n)) {d d' : Val} (h : VR nf d d') :
    RR (VR nf) (evaluate n d) (evaluate n d') :=
  ieval_congr hn h h vrf_nil

/-- related outcomes are in particular equal up to representation in the sense of `C14.ResEquiv` (same error, or
    values `Val.Equiv`), or the same non-value outcome on both sides -/
theorem resEquiv_of_rr {r r' : Res Val} (h : RR (VR nf) r r') :
    ResEquiv r r' ∨ (r = r' ∧ ∀ v, r ≠ .ok v) := by
  cases r <;> cases r' <;> simp only [RR] at h
  · exact .inl (.inr ⟨_, _, rfl, rfl, vr_equiv _ _ h⟩)
  · exact .inl (.inl ⟨_, rfl, by rw [h]⟩)
  · exact .inr ⟨by rw [h], fun v => by simp⟩
  · exact .inr ⟨rfl, fun v => by simp⟩
  · exact .inr ⟨by rw [h], fun v => by simp⟩

/-! ### the unconditional fragments -/

end
end C14B

/-- no `/`; no `to_string`, `sum`, `avg`, `sort`; every literal is a proper float-free number.  Everything else is
    allowed: `+ - * // %`, comparisons, unary minus, `abs`, `ceil`, `floor`, all other builtins, every projection. -/
def Tree.NoDiv (t : Tree) : Prop :=
  t.Ops (fun op => op ≠ .div) (fun f => f.plain = true ∨ f.isRound = true) True
    (fun v => v.Valued ∧ v.NoFloat)

/-- … when floats may occur: no arithmetic operator at all (two floats are added in binary64, anything else in
    decimal128: see section 6 for what holds then); unary minus, `abs`, `ceil`, `floor` are still allowed -/
def Tree.NoArithF (t : Tree) : Prop :=
  t.Ops (fun op => op.isCmp = true) (fun f => f.plain = true ∨ f.isRound = true) True (fun v => v.Valued)

namespace C14B
open C14
section
variable {nf : Bool}

mutual
/-- a valued value is related to itself -/
theorem vr_self : ∀ (x : Val), x.Valued → (nf = true → x.NoFloat) → VR nf x x
  | .null, _, _ => vr_null
  | .bool _, _, _ => vr_bool _
  | .str _, _, _ => vr_str _
  | .foreign _, _, _ => by simp [VR]
  | .num a, h, hn => by
    simp only [VR]
    simp only [Val.Valued] at h
    exact ⟨Num.SameValue.refl h, .inr rfl, fun e => by have := hn e; simp only [Val.NoFloat] at this; exact ⟨this, this⟩⟩
  | .arr t xs, h, hn => by
    simp only [Val.Valued] at h
    exact vr_arr (vrl_self xs h (fun e => by have := hn e; simpa [Val.NoFloat] using this))
  | .obj kvs, h, hn => by
    simp only [Val.Valued] at h
    exact vr_obj (vrf_self kvs h (fun e => by have := hn e; simpa [Val.NoFloat] using this))
theorem vrl_self : ∀ (xs : List Val), Val.ValuedL xs → (nf = true → Val.NoFloatL xs) → VRL nf xs xs
  | [], _, _ => vrl_nil
  | x :: xs, h, hn => by
    simp only [Val.ValuedL] at h
    exact vrl_cons (vr_self x h.1 (fun e => by have := hn e; simp only [Val.NoFloatL] at this; exact this.1))
      (vrl_self xs h.2 (fun e => by have := hn e; simp only [Val.NoFloatL] at this; exact this.2))
theorem vrf_self : ∀ (kvs : List (Bytes × Val)), Val.ValuedF kvs → (nf = true → Val.NoFloatF kvs) → VRF nf kvs kvs
  | [], _, _ => vrf_nil
  | (k, x) :: kvs, h, hn => by
    simp only [Val.ValuedF] at h
    simp only [VRF, true_and]
    exact ⟨vr_self x h.1 (fun e => by have := hn e; simp only [Val.NoFloatF] at this; exact this.1),
      vrf_self kvs h.2 (fun e => by have := hn e; simp only [Val.NoFloatF] at this; exact this.2)⟩
end

/-- an expression of the float-free fragment has all its operators congruent -/
theorem tcongr_of_noDiv {t : Tree} (h : t.NoDiv) : TCongr true t :=
  Tree.Ops.mono (fun _ h => opCongr_arith_true h)
    (fun _ h => h.elim fnCongr_plain fnCongr_round_true) (fun _ => negCongr_true)
    (fun v h => vr_self v h.1 (fun _ => h.2)) t h

theorem tcongr_of_noArithF {t : Tree} (h : t.NoArithF) : TCongr false t :=
  Tree.Ops.mono (fun _ h => opCongr_cmp h) (fun _ h => h.elim fnCongr_plain fnCongr_round) (fun _ => negCongr)
    (fun v h => vr_self v h (fun e => by cases e)) t h

/-- **Representation independence without side conditions (float-free documents).**  For every expression without
    `/`, `to_string`, `sum`, `avg`, `sort` — everything else is allowed: `+ - * // %`, comparisons, projections,
    filters, slices, multi-selects, `let`, unary minus, `abs`/`ceil`/`floor`, `max`/`min`, `sort_by`/`max_by`/`min_by`/
    `group_by`, all string builtins with their integer arguments, `to_number`, `length`, … — evaluation on two related
    float-free documents gives related outcomes: the same failure, or values equal up to representation.
    No "exactly representable" proviso is needed: the decimal operators round the value, not the spelling. -/
theorem evaluate_congr_fragment {n : INode} (hn : (desugar n).NoDiv) {d d' : Val} (h : VR true d d') :
    RR (VR true) (evaluate n d) (evaluate n d') :=
  evaluate_congr (tcongr_of_noDiv hn) h

/-- **… with `float64` / `float32` leaves** (each float with a 53-bit significand, exactly convertible to decimal128
    and not `±2^63`): the same, for expressions without arithmetic operators.  Comparisons, unary minus, `abs`, `ceil`,
    `floor`, `max`, `min`, `sort_by`, … are all exact on floats; a float result is related to the decimal result of
    the same value on another representation. -/
theorem evaluate_congr_fragment_float {n : INode} (hn : (desugar n).NoArithF) {d d' : Val} (h : VR false d d') :
    RR (VR false) (evaluate n d) (evaluate n d') :=
  evaluate_congr (tcongr_of_noArithF hn) h

/-! ## 3. the operators with a side condition, on top of an expression of the fragment -/

theorem ieval_call1 (root : Val) (f : Fn) (n : INode) (cur : Val) (env : Env) :
    ieval root (.call f [n]) cur env = (ieval root n cur env >>= fun v => applyFn f [v]) := by
  simp only [ieval, ievalList]
  cases ieval root n cur env <;> rfl

/-- **`sort(e)`**, `e` an expression all of whose operators are congruent: unless the model declines on either side
    because of a tie between numbers that are equal but not identical (Go's unstable sort may leave them in either
    order), the outcomes are related -/
theorem evaluate_sort_congr {n : INode} (hn : TCongr nf (desugar n)) {d d' : Val} (h : VR nf d d') :
    evaluate (.call .sort [n]) d = .nondet ∨ evaluate (.call .sort [n]) d' = .nondet ∨
      RR (VR nf) (evaluate (.call .sort [n]) d) (evaluate (.call .sort [n]) d') := by
  unfold evaluate
  rw [ieval_call1, ieval_call1]
  have := ieval_congr hn h h (vrf_nil (nf := nf))
  cases h1 : ieval d n d [] <;> cases h2 : ieval d' n d' [] <;> rw [h1, h2] at this <;> simp only [RR] at this
  · exact sortArray_rr this
  all_goals (right; right; first | exact this | trivial)

/-- **`sum(e)`**, when the array is not map-ordered (not the direct result of `values(…)`/`.*`) -/
theorem evaluate_sum_congr {n : INode} (hn : TCongr nf (desugar n)) {d d' : Val} (h : VR nf d d')
    (hplain : ∀ t xs, evaluate n d = .ok (.arr t xs) → enum2 t xs = false) :
    RR (VR nf) (evaluate (.call .sum [n]) d) (evaluate (.call .sum [n]) d') := by
  unfold evaluate at hplain ⊢
  rw [ieval_call1, ieval_call1]
  have := ieval_congr hn h h (vrf_nil (nf := nf))
  cases h1 : ieval d n d [] <;> cases h2 : ieval d' n d' [] <;> rw [h1, h2] at this <;> simp only [RR] at this
  · next v v' =>
    cases v <;> cases v' <;> simp only [VR] at this <;> try exact rr_errType
    next t xs u xs' =>
    obtain ⟨rfl, hx⟩ := this
    exact numSum_rr hx (hplain t xs h1)
  all_goals first | exact this | trivial

/-- **`l / r`**, `l` and `r` expressions of the float-free fragment, when both quotients are exact (`Dec.QuoFits`: the
    property's proviso, needed only here) -/
theorem evaluate_divide_congr {l r : INode} (hl : (desugar l).NoDiv) (hr : (desugar r).NoDiv) {d d' : Val}
    (h : VR true d d')
    (hfit : ∀ a b, evaluate l d = .ok a → evaluate r d = .ok b →
      ∀ dx dy, toDecimal a = some dx → toDecimal b = some dy → Dec.QuoFits dx dy)
    (hfit' : ∀ a b, evaluate l d' = .ok a → evaluate r d' = .ok b →
      ∀ dx dy, toDecimal a = some dx → toDecimal b = some dy → Dec.QuoFits dx dy) :
    RR (VR true) (evaluate (.binop .div l r) d) (evaluate (.binop .div l r) d') := by
  unfold evaluate at hfit hfit' ⊢
  simp only [ieval]
  have hL := ieval_congr (tcongr_of_noDiv hl) h h (vrf_nil (nf := true))
  have hR := ieval_congr (tcongr_of_noDiv hr) h h (vrf_nil (nf := true))
  cases h1 : ieval d l d [] <;> cases h2 : ieval d' l d' [] <;> rw [h1, h2] at hL <;> simp only [RR] at hL
  · cases g1 : ieval d r d [] <;> cases g2 : ieval d' r d' [] <;> rw [g1, g2] at hR <;> simp only [RR] at hR
    · exact divide_rr_true hL hR (hfit _ _ h1 g1) (hfit' _ _ h2 g2)
    all_goals first | exact hR | trivial
  all_goals first | exact hL | trivial

/-! ## 4. the bridge from `C14.Val.Equiv` -/

end
end C14B

mutual
/-- every number of the value is a well-formed Go number (`C14B.NumOK`) -/
def Val.AllOK : Val → Prop
  | .num a => C14B.NumOK a
  | .arr _ xs => Val.AllOKL xs
  | .obj kvs => Val.AllOKF kvs
  | _ => True
def Val.AllOKL : List Val → Prop
  | [] => True
  | x :: xs => Val.AllOK x ∧ Val.AllOKL xs
def Val.AllOKF : List (Bytes × Val) → Prop
  | [] => True
  | (_, x) :: kvs => Val.AllOK x ∧ Val.AllOKF kvs
end

namespace C14B
open C14
section
variable {nf : Bool}

mutual
/-- two documents equivalent in the sense of `C14` (`Val.Equiv`: same shape, numbers of the same value), all of whose
    numbers are well-formed, are related by `VR` -/
theorem vr_of_equiv : ∀ (x y : Val), Val.Equiv x y → x.AllOK → y.AllOK → (nf = true → x.NoFloat ∧ y.NoFloat) → VR nf x y
  | .null, y, h, _, _, _ => by cases y <;> simp_all [VR, Val.Equiv]
  | .bool _, y, h, _, _, _ => by cases y <;> simp_all [VR, Val.Equiv]
  | .str _, y, h, _, _, _ => by cases y <;> simp_all [VR, Val.Equiv]
  | .foreign _, y, h, _, _, _ => by cases y <;> simp_all [VR, Val.Equiv]
  | .num a, y, h, ha, hb, hn => by
    cases y <;> simp only [Val.Equiv] at h
    simp only [Val.AllOK] at ha hb
    simp only [VR]
    exact ⟨h, .inl ⟨ha, hb⟩, fun e => by have := hn e; simpa [Val.NoFloat] using this⟩
  | .arr t xs, y, h, ha, hb, hn => by
    cases y <;> simp only [Val.Equiv] at h
    simp only [Val.AllOK] at ha hb
    simp only [VR]
    exact ⟨h.1, vrl_of_equiv xs _ h.2 ha hb (fun e => by have := hn e; simpa [Val.NoFloat] using this)⟩
  | .obj kvs, y, h, ha, hb, hn => by
    cases y <;> simp only [Val.Equiv] at h
    simp only [Val.AllOK] at ha hb
    simp only [VR]
    exact vrf_of_equiv kvs _ h ha hb (fun e => by have := hn e; simpa [Val.NoFloat] using this)
theorem vrl_of_equiv : ∀ (xs ys : List Val), Val.EquivL xs ys → Val.AllOKL xs → Val.AllOKL ys →
    (nf = true → Val.NoFloatL xs ∧ Val.NoFloatL ys) → VRL nf xs ys
  | [], ys, h, _, _, _ => by cases ys <;> simp_all [VRL, Val.EquivL]
  | x :: xs, ys, h, ha, hb, hn => by
    cases ys <;> simp only [Val.EquivL] at h
    simp only [Val.AllOKL] at ha hb
    simp only [VRL]
    exact ⟨vr_of_equiv x _ h.1 ha.1 hb.1 (fun e => by have := hn e; simp only [Val.NoFloatL] at this; exact ⟨this.1.1, this.2.1⟩),
      vrl_of_equiv xs _ h.2 ha.2 hb.2 (fun e => by have := hn e; simp only [Val.NoFloatL] at this; exact ⟨this.1.2, this.2.2⟩)⟩
theorem vrf_of_equiv : ∀ (xs ys : List (Bytes × Val)), Val.EquivF xs ys → Val.AllOKF xs → Val.AllOKF ys →
    (nf = true → Val.NoFloatF xs ∧ Val.NoFloatF ys) → VRF nf xs ys
  | [], ys, h, _, _, _ => by cases ys <;> simp_all [VRF, Val.EquivF]
  | (k, x) :: xs, ys, h, ha, hb, hn => by
    cases ys with
    | nil => simp only [Val.EquivF] at h
    | cons p ys =>
      obtain ⟨l, y⟩ := p
      simp only [Val.EquivF] at h
      simp only [Val.AllOKF] at ha hb
      simp only [VRF]
      exact ⟨h.1, vr_of_equiv x _ h.2.1 ha.1 hb.1 (fun e => by have := hn e; simp only [Val.NoFloatF] at this; exact ⟨this.1.1, this.2.1⟩),
        vrf_of_equiv xs _ h.2.2 ha.2 hb.2 (fun e => by have := hn e; simp only [Val.NoFloatF] at this; exact ⟨this.1.2, this.2.2⟩)⟩
end

/-- **The property as stated, for float-free documents**: two documents with the same shape whose numbers have the
    same values (`Val.Equiv`) and are well-formed Go numbers of whatever kind — `json.Number`, `int8` … `uint64`,
    `decimal128` — give, for every expression of the fragment, the same error or results equal in value. -/
theorem evaluate_congr_of_equiv {n : INode} (hn : (desugar n).NoDiv) {d d' : Val} (h : Val.Equiv d d')
    (hd : d.AllOK) (hd' : d'.AllOK) (hf : d.NoFloat) (hf' : d'.NoFloat) :
    ResEquiv (evaluate n d) (evaluate n d') ∨
      (evaluate n d = evaluate n d' ∧ ∀ v, evaluate n d ≠ .ok v) :=
  resEquiv_of_rr (evaluate_congr_fragment hn (vr_of_equiv d d' h hd hd' (fun _ => ⟨hf, hf'⟩)))

/-- … and with float leaves (well-formed floats, see `FOK`): for every expression without arithmetic operators -/
theorem evaluate_congr_of_equiv_float {n : INode} (hn : (desugar n).NoArithF) {d d' : Val} (h : Val.Equiv d d')
    (hd : d.AllOK) (hd' : d'.AllOK) :
    ResEquiv (evaluate n d) (evaluate n d') ∨
      (evaluate n d = evaluate n d' ∧ ∀ v, evaluate n d ≠ .ok v) :=
  resEquiv_of_rr (evaluate_congr_fragment_float hn (vr_of_equiv d d' h hd hd' (fun e => by cases e)))

/-! ### a concrete instance: `a + b * 2 < c` on `{a: 1 (uint8), b: "1.50" (json.Number), c: 5 (int64)}` and on
    `{a: 1.0, b: 1.5, c: 50e-1}` (decimals) -/

def exNode : INode :=
  .binop .lt (.binop .add (.field [0x61]) (.binop .mul (.field [0x62]) (.lit (.num (.jnum [0x32]))))) (.field [0x63])

def exDoc : Val := .obj [([0x61], .num (.int .u8 1)), ([0x62], .num (.jnum [0x31, 0x2E, 0x35, 0x30])),
  ([0x63], .num (.int .i64 5))]
def exDoc' : Val := .obj [([0x61], .num (.dec (.fin false 10 (-1)))), ([0x62], .num (.dec (.fin false 15 (-1)))),
  ([0x63], .num (.dec (.fin false 50 (-1))))]

theorem exNode_noDiv : (desugar exNode).NoDiv := by
  simp only [exNode, desugar, Tree.NoDiv, Tree.Ops, and_true, true_and, ne_eq, reduceCtorEq, not_false_eq_true]
  exact ⟨⟨.fin false 2 0, by decide, by decide⟩, by simp [Val.NoFloat, Num.NoFloat]⟩

theorem nr_ok {a b : Num} (h : Num.SameValue a b) (ha : NumOK a) (hb : NumOK b) (hn : a.NoFloat) (hn' : b.NoFloat) :
    NR nf a b := ⟨h, .inl ⟨ha, hb⟩, fun _ => ⟨hn, hn'⟩⟩

theorem exDoc_vr : VR true exDoc exDoc' := by
  simp only [exDoc, exDoc', VR, VRF, and_true, true_and]
  refine ⟨nr_ok ⟨_, _, rfl, rfl, by decide⟩ ?_ ?_ trivial trivial,
    nr_ok ⟨.fin false 15 (-1), _, by decide, rfl, by decide⟩ trivial ?_ trivial trivial,
    nr_ok ⟨_, _, rfl, rfl, by decide⟩ ?_ ?_ trivial trivial⟩
  all_goals first | (simp only [NumOK, IntKind.InRange]; decide) | (simp only [NumOK, Dec.Bounded]; decide)

-- both evaluate to `true` (1 + 1.5·2 = 4 < 5)
example : (match evaluate exNode exDoc, evaluate exNode exDoc' with
    | .ok (.bool b), .ok (.bool b') => b && b' | _, _ => false) = true := by decide

-- (the elaborator would otherwise run the evaluator while looking at the statement below)
attribute [irreducible] exNode exDoc exDoc'

/-- the theorem applies to that pair of documents -/
theorem ex_related : RR (VR true) (evaluate exNode exDoc) (evaluate exNode exDoc') :=
  evaluate_congr_fragment exNode_noDiv exDoc_vr

/-! ### … and with floats: `abs(-a) < ceil(b)` on `{a: 2.5 (float64), b: 2.25 (float32)}` and on
    `{a: "2.50" (json.Number), b: 225e-2 (decimal)}` -/

def exNodeF : INode := .binop .lt (.call .abs [.negate (.field [0x61])]) (.call .ceil [.field [0x62]])
def exDocF : Val := .obj [([0x61], .num (.f64 (.fin false 5 (-1)))), ([0x62], .num (.f32 (.fin false 9 (-2))))]
def exDocF' : Val := .obj [([0x61], .num (.jnum [0x32, 0x2E, 0x35, 0x30])), ([0x62], .num (.dec (.fin false 225 (-2))))]

theorem exNodeF_noArithF : (desugar exNodeF).NoArithF := by
  simp only [exNodeF, desugar, desugarList, Tree.NoArithF, Tree.Ops, Tree.OpsL, and_true]
  exact ⟨rfl, .inr rfl, .inr rfl⟩

theorem fok_small_dyadic (n : Bool) (m k : Nat) (hodd : m % 2 = 1) (hk : 0 < k) (hx : m * 5 ^ k ≤ Dec.MAXSIG)
    (hlo : k ≤ 6176) (hm : m < 2 ^ 53) : FOK (.fin n m (-(k : Int))) := by
  refine ⟨⟨.inl hodd, ⟨fun h => by omega, fun _ => ⟨?_, by unfold Dec.EMIN; omega⟩⟩, ?_⟩, ?_, hm⟩
  · have : (-(-(k : Int))).toNat = k := by omega
    rw [this]; exact hx
  · intro h; simp only [F64.fin.injEq] at h; omega
  · intro h; simp only [F64.fin.injEq] at h; omega

theorem exDocF_vr : VR false exDocF exDocF' := by
  simp only [exDocF, exDocF', VR, VRF, and_true, true_and]
  refine ⟨⟨⟨.fin false 25 (-1), .fin false 25 (-1), by decide, by decide, by decide⟩, .inl ⟨?_, trivial⟩, fun h => by cases h⟩,
    ⟨⟨.fin false 225 (-2), _, by decide, rfl, by decide⟩, .inl ⟨?_, ?_⟩, fun h => by cases h⟩⟩
  · exact fok_small_dyadic false 5 1 (by decide) (by decide) (by decide) (by decide) (by decide)
  · exact fok_small_dyadic false 9 2 (by decide) (by decide) (by decide) (by decide) (by decide)
  · simp only [NumOK, Dec.Bounded]; decide

-- both evaluate to `true` (2.5 < 3); on the float side `abs(-a)` is the float 2.5 and `ceil(b)` the float 3
example : (match evaluate exNodeF exDocF, evaluate exNodeF exDocF' with
    | .ok (.bool b), .ok (.bool b') => b && b' | _, _ => false) = true := by decide

attribute [irreducible] exNodeF exDocF exDocF'

theorem exF_related : RR (VR false) (evaluate exNodeF exDocF) (evaluate exNodeF exDocF') :=
  evaluate_congr_fragment_float exNodeF_noArithF exDocF_vr

/-! ## 5. representation lemmas -/

/-- **every integer kind** (`int8` … `uint64`, `int`, `uint`) holding `v` converts to a decimal of value exactly `v`
    — for every `v`, in particular `uint64 ≥ 2^63`: the conversion never rounds -/
theorem toDecimal_intKind_exact (k : IntKind) (v : Int) :
    ∃ d, toDecimal (.num (.int k v)) = some d ∧ Dec.cmp d (.fin (decide (v < 0)) v.natAbs 0) = some 0 :=
  ⟨_, rfl, Dec.cmp_ofInt v⟩

/-- …and two integers (of any kinds) convert to decimals of equal value iff they are equal -/
theorem toDecimal_intKind_inj (k k' : IntKind) (v w : Int) :
    (∃ d d', toDecimal (.num (.int k v)) = some d ∧ toDecimal (.num (.int k' w)) = some d' ∧ Dec.cmp d d' = some 0) ↔
      v = w := by
  constructor
  · rintro ⟨d, d', h1, h2, h3⟩
    simp only [toDecimal, Option.some.injEq] at h1 h2
    subst h1; subst h2
    exact (Dec.cmp_ofInt_ofInt_iff v w).mp h3
  · rintro rfl
    exact ⟨_, _, rfl, rfl, Dec.cmp_self (Dec.ofInt_ne_nan v)⟩

theorem sameValue_int_iff (k k' : IntKind) (v w : Int) : Num.SameValue (.int k v) (.int k' w) ↔ v = w :=
  toDecimal_intKind_inj k k' v w

-- the ten kinds at the ends of their ranges
example : toDecimal (.num (.int .i8 (-128))) = some (.fin true 128 0) ∧
    toDecimal (.num (.int .i16 32767)) = some (.fin false 32767 0) ∧
    toDecimal (.num (.int .i32 (-2147483648))) = some (.fin true 2147483648 0) ∧
    toDecimal (.num (.int .i64 (-9223372036854775808))) = some (.fin true 9223372036854775808 0) ∧
    toDecimal (.num (.int .int 9223372036854775807)) = some (.fin false 9223372036854775807 0) ∧
    toDecimal (.num (.int .u8 255)) = some (.fin false 255 0) ∧
    toDecimal (.num (.int .u16 65535)) = some (.fin false 65535 0) ∧
    toDecimal (.num (.int .u32 4294967295)) = some (.fin false 4294967295 0) ∧
    toDecimal (.num (.int .u64 18446744073709551615)) = some (.fin false 18446744073709551615 0) ∧
    toDecimal (.num (.int .uint 9223372036854775808)) = some (.fin false 9223372036854775808 0) := by decide

/-- a `float64`/`float32` holding the integer `±m·2^e` (`e ≥ 0`, the value within decimal128's 34 digits) converts
    to a decimal of exactly that value -/
theorem toDecimal_f64_int_exact (n : Bool) (m : Nat) (e : Int) (he : 0 ≤ e) (hx : m * 2 ^ e.toNat ≤ Dec.MAXSIG) :
    ∃ d, toDecimal (.num (.f64 (.fin n m e))) = some d ∧
      Dec.cmp (Dec.ofInt (Dec.intVal n (m * 2 ^ e.toNat))) d = some 0 :=
  ⟨_, rfl, F64.toDec_value_int n m e he hx⟩

theorem toDecimal_f32_int_exact (n : Bool) (m : Nat) (e : Int) (he : 0 ≤ e) (hx : m * 2 ^ e.toNat ≤ Dec.MAXSIG) :
    ∃ d, toDecimal (.num (.f32 (.fin n m e))) = some d ∧
      Dec.cmp (Dec.ofInt (Dec.intVal n (m * 2 ^ e.toNat))) d = some 0 :=
  ⟨_, rfl, F64.toDec_value_int n m e he hx⟩

/-- a dyadic fraction `±m·2^(-k)` held by a `float32` is the decimal `±m·5^k·10^(-k)` (for `float64`:
    `C14.toDecimal_f64_dyadic`) -/
theorem toDecimal_f32_dyadic (n : Bool) (m k : Nat) (hk : 0 < k) (hx : m * 5 ^ k ≤ Dec.MAXSIG) (hlo : k ≤ 6176) :
    ∃ d, toDecimal (.num (.f32 (.fin n m (-(k : Int))))) = some d ∧
      Dec.cmp d (.fin n (m * 5 ^ k) (-(k : Int))) = some 0 :=
  ⟨_, rfl, F64.toDec_dyadic n m k hk hx hlo⟩

-- 2^63 as float64 (1·2^63), 0.375 as float32 (3·2^-3), -5 as float64
example : toDecimal (.num (.f64 (.fin false 1 63))) = some (.fin false 9223372036854775808 0) ∧
    toDecimal (.num (.f32 (.fin false 3 (-3)))) = some (.fin false 375 (-3)) ∧
    toDecimal (.num (.f64 (.fin true 5 0))) = some (.fin true 5 0) := by decide

/-! ## 6. the float fast path (proved in `Jmes/Proofs/C14BFloat.lean`) -/

/-- `a // b` on `float64` operands holding integers `|a|, |b| < 2^53`, `b ≠ 0`, **no divisibility assumed**, and on
    integer operands of any kinds: both succeed with results of the same value `Int.tdiv a b` -/
theorem float_idiv_sameValue (k k' : IntKind) (a b : Int) (hb0 : b ≠ 0) (ha : a.natAbs < 2 ^ 53)
    (hb : b.natAbs < 2 ^ 53) :
    ResEquiv (integerDivide (.num (.f64 (F64.ofInt a))) (.num (.f64 (F64.ofInt b))))
      (integerDivide (.num (.int k a)) (.num (.int k' b))) :=
  C14BF.float_idiv_sameValue k k' a b hb0 ha hb

/-- `a % b` likewise (`|a| < 2^53`, `b ≠ 0`) -/
theorem float_mod_sameValue (k k' : IntKind) (a b : Int) (hb0 : b ≠ 0) (ha : a.natAbs < 2 ^ 53) :
    ResEquiv (modulo (.num (.f64 (F64.ofInt a))) (.num (.f64 (F64.ofInt b))))
      (modulo (.num (.int k a)) (.num (.int k' b))) :=
  C14BF.float_mod_sameValue k k' a b hb0 ha

/-- `a / b` with an exact integer quotient `q` (`a = q·b`, `|a|, |b| < 2^53`) -/
theorem float_div_sameValue (k k' : IntKind) (a b q : Int) (hab : a = q * b) (hq : q ≠ 0) (hb0 : b ≠ 0)
    (ha : a.natAbs < 2 ^ 53) (hb : b.natAbs < 2 ^ 53) :
    ResEquiv (divide (.num (.f64 (F64.ofInt a))) (.num (.f64 (F64.ofInt b))))
      (divide (.num (.int k a)) (.num (.int k' b))) :=
  C14BF.float_div_sameValue k k' a b q hab hq hb0 ha hb

/-- a `float32` operand behaves in every arithmetic operator like the `float64` of the same value -/
theorem arith_f32_left (fop : F64 → F64 → F64) (dop : Dec → Dec → Dec) (x : F64) (y : Val) :
    arith fop dop (.num (.f32 x)) y = arith fop dop (.num (.f64 x)) y := C14BF.arith_f32_left fop dop x y
theorem arith_f32_right (fop : F64 → F64 → F64) (dop : Dec → Dec → Dec) (x : Val) (y : F64) :
    arith fop dop x (.num (.f32 y)) = arith fop dop x (.num (.f64 y)) := C14BF.arith_f32_right fop dop x y

example : ResEquiv (integerDivide (.num (.f64 (F64.ofInt (-22)))) (.num (.f64 (F64.ofInt 7))))
    (integerDivide (.num (.int .i8 (-22))) (.num (.int .u16 7))) :=
  float_idiv_sameValue _ _ (-22) 7 (by decide) (by decide) (by decide)

/-- **The recorded divergence** (excluded by the property's proviso): `a = 2^53−1`, `b = 1.5`.  The operands have the
    same values in both representations, but `a // b` is `6004799503160661` on `float64` operands (the binary64
    quotient `a/b = 6004799503160660.66…` is not representable and rounds up before `math.Trunc`) and
    `6004799503160660` on `json.Number` operands.  The Go program behaves the same way (checked with `jmespath.Search`). -/
example : Num.SameValue (.f64 (F64.ofInt 9007199254740991)) (.jnum C14BF.aText) ∧
    Num.SameValue (.f64 (.fin false 3 (-1))) (.jnum C14BF.bText) ∧
    (match integerDivide (.num (.f64 (F64.ofInt 9007199254740991))) (.num (.f64 (.fin false 3 (-1)))) with
      | .ok (.num (.f64 f)) => f == F64.ofInt 6004799503160661 | _ => false) = true ∧
    (match integerDivide (.num (.jnum C14BF.aText)) (.num (.jnum C14BF.bText)) with
      | .ok (.num (.dec d)) => Dec.cmp d (Dec.ofInt 6004799503160660) == some 0 | _ => false) = true :=
  ⟨⟨.fin false 9007199254740991 0, .fin false 9007199254740991 0, by decide, by decide, by decide⟩,
   ⟨.fin false 15 (-1), .fin false 15 (-1), by decide, by decide, by decide⟩, by decide, by decide⟩

end
end C14B
end Jmes

section AxiomCheck
open Jmes.C14B
end AxiomCheck
