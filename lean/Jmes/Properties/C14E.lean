/-
  Property C14 — representation independence of numbers, fourth round.

  "For every document and expression, replacing each number by another Go representation of the same mathematical
  value (json.Number, int…, float32/float64 when the value is exactly representable, decimal) leaves every result equal
  in value, as long as all intermediate values are exactly representable in each representation."

  A reviewer listed three gaps of `C14` … `C14C`; this file closes them.

   1. **`/` and `avg` need no exactness proviso on the decimal path.**  `Dec.quo` is a function of the VALUES of its
      operands (`quo_value`): the correctly rounded quotient of two spellings of the same two values is literally the
      same decimal (1/3, 2/3 … included).  Hence `divide_congr_decimal_path` (`C14.divide_congr` without `QuoFits`),
      `divide_congr_floatfree`, `avg_congr` (floats allowed: `avg` has no float path), the fragment `Tree.FloatFree`
      (= `Tree.NoDiv` plus `/`) with `evaluate_congr_floatfree`, `search_congr_floatfree`, and `avg(e)`/`sum(e)`/`l / r`
      on top of fragment expressions without any `hfit`.
   2. **float arithmetic with a per-operator accounting** instead of `B · 2^adepth ≤ 53`.  Floats are dyadics
      `±v·2^-s`, `v ≤ 2^(h+s)` (`DyF ⟨h, s⟩`: `h` bits before the binary point, `s` after it — integers are `s = 0`);
      `+`/`-` give `⟨max h + 1, max s⟩`, `*` gives `⟨h₁ + h₂, s₁ + s₂⟩`, `//`/`%` (integers) `⟨max h, 0⟩`; the budget
      of a grade is `h + s ≤ 52` (exact in binary64) and `2^h·10^s < 10^34` (exact in decimal128).  Operator level:
      `arith_dyadic_congr`, `arith_dyadic_exact`.  Expression level: `grade`, `budget` follow the flow of values
      through the whole fragment (`evaluate_congr_dyadic`, `evaluate_dyadic_exact`, `search_congr_dyadic`); growth is
      LINEAR on sums: `a+b+c+d+e+f+g` costs 6 bits (`sum_linear`).
   3. **`sum`, `avg`, `sort` INSIDE the fragment** (also over float leaves), instead of "on top, with the run-time
      hypothesis `hplain`".  The model declines (`.nondet`) for `sum`/`avg` of a map-ordered array whose sum it cannot
      show order-independent and for `sort` with an ambiguous tie, and that may happen on one side only — so the
      conclusion is "either run declines, or both end outside the model, or the outcomes are related" (`RNW`), proved by
      a new induction over the whole evaluator (`evaluate_congr_all`, `evaluate_congr_all_float`, `search_congr_all`,
      `evaluate_value_all`).  The sharper "either declines or related" is FALSE of the model (`congr_all_sharp_false`).
      `to_string` of a float is outside the model (`to_string_float_unmodelled`).
      The two inductions combine: dyadic floats WITH arithmetic and every builtin but `to_string`
      (`evaluate_congr_dyadic_all`, `search_congr_dyadic_all`).
-/
import Jmes.Proofs.C14ELemmas
import Jmes.Proofs.C14ESum
import Jmes.Proofs.C14ENondet2
import Jmes.Proofs.C14EDyChar
import Jmes.Proofs.C14EGradeN2
namespace Jmes

/-- **the float-free fragment**: EVERY binary operator (`+ - * / // %` and the comparisons); the builtins that are
    congruent outright (all but `to_string`, `sum`, `avg`, `sort`); every literal a proper float-free number.
    It is `Tree.NoDiv` with `/` allowed. -/
def Tree.FloatFree (t : Tree) : Prop :=
  t.Ops (fun _ => True) (fun f => f.plain = true ∨ f.isRound = true) True (fun v => v.Valued ∧ v.NoFloat)

namespace C14E
open C14 C14B C14C

/-! ## 1. `/` and `avg` without the exactness proviso -/

/-- **The decimal128 quotient is a function of the values of its operands.**  Two pairs of decimals of pairwise equal
    value (`Dec.cmp … = some 0`: e.g. `1` and `1.000`, `3` and `0.3e1`) have quotients that are both NaN/±Inf or of
    equal value — in fact the same decimal — whether or not the quotient is exact.  (`Dec.quo_congr` of the first
    round asked for `QuoFits` on both sides.) -/
theorem quo_value {a a' b b' : Dec} (ha : Dec.cmp a a' = some 0) (hb : Dec.cmp b b' = some 0) :
    Dec.Same (Dec.quo a b) (Dec.quo a' b') := quo_same ha hb

/-- … for finite non-zero operands, literally the same decimal (same coefficient, same exponent) -/
theorem quo_equal {n1 n1' n2 n2' : Bool} {c1 c1' c2 c2' : Nat} {e1 e1' e2 e2' : Int}
    (ha : Dec.cmp (.fin n1 c1 e1) (.fin n1' c1' e1') = some 0) (hb : Dec.cmp (.fin n2 c2 e2) (.fin n2' c2' e2') = some 0)
    (h1 : c1 ≠ 0) (h2 : c2 ≠ 0) :
    Dec.quo (.fin n1 c1 e1) (.fin n2 c2 e2) = Dec.quo (.fin n1' c1' e1') (.fin n2' c2' e2') := by
  simp only [Dec.cmp, Option.some.injEq] at ha hb
  exact quo_eq_of_cmp ha hb h1 h2

-- 2/3 spelled `2 / 3`, `2.0 / 3.00`, `20e-1 / 0.03e2`: one and the same 34-digit decimal, rounded up at the end
example : Dec.quo (.fin false 2 0) (.fin false 3 0) = .fin false 6666666666666666666666666666666667 (-34) ∧
    Dec.quo (.fin false 20 (-1)) (.fin false 300 (-2)) = .fin false 6666666666666666666666666666666667 (-34) ∧
    Dec.quo (.fin false 20 (-1)) (.fin false 3 0) = .fin false 6666666666666666666666666666666667 (-34) := by decide

/-- **`C14.divide_congr` without `QuoFits`**: for two pairs of numbers of equal values, neither pair being a pair of
    floats (so that both sides divide in decimal128; one float operand is fine), `a / b` gives the same error or
    results of equal value. -/
theorem divide_congr_decimal_path {a a' b b' : Num} (ha : Num.SameValue a a') (hb : Num.SameValue b b')
    (hnf : toFloatPair (.num a) (.num b) = none) (hnf' : toFloatPair (.num a') (.num b') = none) :
    ResEquiv (divide (.num a) (.num b)) (divide (.num a') (.num b')) :=
  arith_decimal_congr _ _ (fun _ _ => True) (fun h1 h2 _ _ => quo_same h1 h2) ha hb hnf hnf'
    (fun _ _ _ _ => trivial) (fun _ _ _ _ => trivial)

-- 1 (json.Number) / 3 (uint8)  vs  1.0 (float64!) / 3.00 (decimal): the float is converted, both sides 0.333…3
example : ResEquiv (divide (.num (.jnum [0x31])) (.num (.int .u8 3)))
    (divide (.num (.f64 (F64.mk false 1 0))) (.num (.dec (.fin false 300 (-2))))) :=
  divide_congr_decimal_path ⟨.fin false 1 0, .fin false 1 0, by decide, by decide, by decide⟩
    ⟨_, _, rfl, rfl, by decide⟩ rfl rfl

/-- **`/` on float-free operands of equal values, in whatever representations — unconditionally**: the same error
    (`x / 0`, a non-number operand) or results of the same value. -/
theorem divide_congr_floatfree {x x' y y' : Val} (hx : VR true x x') (hy : VR true y y') :
    RR (VR true) (divide x y) (divide x' y') := divide_rr_true hx hy

/-- every binary operator of the language is congruent on float-free operands -/
theorem binop_congr_floatfree (op : BinOp) {x x' y y' : Val} (hx : VR true x x') (hy : VR true y y') :
    RR (VR true) (applyBinOp op x y) (applyBinOp op x' y') := opCongr_all_true op x x' y y' hx hy

-- 2 (int64) / 3 (json.Number "3")  vs  "2.0" / 3 (decimal 0.3e1)
example : RR (VR true) (applyBinOp .div (.num (.int .i64 2)) (.num (.jnum [0x33])))
    (applyBinOp .div (.num (.jnum [0x32, 0x2E, 0x30])) (.num (.dec (.fin false 3 0)))) :=
  binop_congr_floatfree .div
    (by simp only [VR]; exact nr_ok ⟨_, .fin false 2 0, rfl, by decide, by decide⟩
          (by simp only [NumOK, IntKind.InRange]; decide) trivial trivial trivial)
    (by simp only [VR]; exact nr_ok ⟨.fin false 3 0, _, by decide, rfl, by decide⟩ trivial
          (by simp only [NumOK, Dec.Bounded]; decide) trivial trivial)

/-- **`avg` needs no exactness proviso either — and allows floats**: `avg` has no float path; every element, whatever
    its representation, is converted to decimal128, the sum is a fold of decimal additions (which round a value, not a
    spelling) and the final division by the length is `Dec.quo` (ditto).  (`C14C.avg_congr_float` asked for `QuoFits`
    on both sides.)  For a map-ordered array of ≥ 2 elements the model may decline on either side: `avg_congr_or_declines`. -/
theorem avg_congr {nf : Bool} {t : ATag} {xs xs' : List Val} (h : VRL nf xs xs') (ht : enum2 t xs = false) :
    RR (VR nf) (applyFn .avg [.arr t xs]) (applyFn .avg [.arr t xs']) :=
  numAvg_rr h ht

/-- … whatever the order tag of the array: either run declines (`.nondet`), or the outcomes are related -/
theorem avg_congr_or_declines {nf : Bool} {t : ATag} {xs xs' : List Val} (h : VRL nf xs xs') :
    applyFn .avg [.arr t xs] = .nondet ∨ applyFn .avg [.arr t xs'] = .nondet ∨
      RR (VR nf) (applyFn .avg [.arr t xs]) (applyFn .avg [.arr t xs']) :=
  numAvg_rn h

-- avg([1.0 (float64), 1 (uint8), 2 (int64)]) and avg(["1", 1e0, 2.0 (float64)]): 4/3 = 1.333…3 on both sides
example : RR (VR false) (applyFn .avg [.arr .plain [fInt false 1, .num (.int .u8 1), .num (.int .i64 2)]])
    (applyFn .avg [.arr .plain [.num (.jnum [0x31]), .num (.dec (.fin false 1 0)), fInt false 2]]) := by
  refine avg_congr ?_ rfl
  simp only [VRL, and_true]
  refine ⟨vr_fInt (by decide) trivial ⟨_, .fin false 1 0, rfl, by decide, by decide⟩, ?_, ?_⟩
  · simp only [VR]
    exact ⟨⟨_, _, rfl, rfl, by decide⟩, .inl ⟨by simp only [NumOK, IntKind.InRange]; decide,
      by simp only [NumOK, Dec.Bounded]; decide⟩, fun e => by cases e⟩
  · exact vr_symm _ _ (vr_fInt (by decide) (by simp only [NumOK, IntKind.InRange]; decide) ⟨_, _, rfl, rfl, by decide⟩)
example : (match applyFn .avg [.arr .plain [fInt false 1, .num (.int .u8 1), .num (.int .i64 2)]] with
    | .ok (.num (.dec d)) => d == .fin false 1333333333333333333333333333333333 (-33) | _ => false) = true := by decide

/-! ### the fragment with `/` -/

/-- an expression of the fragment has all its operators congruent on float-free values -/
theorem tcongr_of_floatFree {t : Tree} (h : t.FloatFree) : TCongr true t :=
  Tree.Ops.mono (fun op _ => opCongr_all_true op)
    (fun _ h => h.elim fnCongr_plain fnCongr_round_true) (fun _ => negCongr_true)
    (fun v h => vr_self v h.1 (fun _ => h.2)) t h

/-- `Tree.NoDiv` is the part of `Tree.FloatFree` without `/` -/
theorem floatFree_of_noDiv {t : Tree} (h : t.NoDiv) : t.FloatFree :=
  Tree.Ops.mono (fun _ _ => trivial) (fun _ h => h) (fun h => h) (fun _ h => h) t h

/-- **Representation independence without side conditions, `/` included (float-free documents).**  For every
    expression without `to_string`, `sum`, `avg`, `sort` — `+ - * / // %`, comparisons, projections, filters, slices,
    multi-selects, `let`, unary minus, `abs`/`ceil`/`floor`, `max`/`min`, `sort_by`/…, all string builtins — evaluation
    on two documents that differ only in the Go types carrying their (non-float) numbers gives the same failure, or
    results equal up to representation.  No "exactly representable" proviso: every decimal operator rounds the value,
    not the spelling. -/
theorem evaluate_congr_floatfree {n : INode} (hn : (desugar n).FloatFree) {d d' : Val} (h : VR true d d') :
    RR (VR true) (evaluate n d) (evaluate n d') :=
  evaluate_congr (tcongr_of_floatFree hn) h

/-- … for `ieval` with arbitrary related current values and environments -/
theorem ieval_congr_floatfree {n : INode} (hn : (desugar n).FloatFree) {root root' cur cur' : Val} {env env' : Env}
    (hr : VR true root root') (hc : VR true cur cur') (he : VRF true env env') :
    RR (VR true) (ieval root n cur env) (ieval root' n cur' env') :=
  ieval_congr (tcongr_of_floatFree hn) hr hc he

/-- **The property as stated, for float-free documents, `/` included** (documents given by `Val.Equiv`: same shape,
    numbers of the same value; all numbers well-formed Go values) -/
theorem evaluate_congr_of_equiv_floatfree {n : INode} (hn : (desugar n).FloatFree) {d d' : Val} (h : Val.Equiv d d')
    (hd : d.AllOK) (hd' : d'.AllOK) (hf : d.NoFloat) (hf' : d'.NoFloat) :
    ResEquiv (evaluate n d) (evaluate n d') ∨ (evaluate n d = evaluate n d' ∧ ∀ v, evaluate n d ≠ .ok v) :=
  resEquiv_of_rr (evaluate_congr_floatfree hn (vr_of_equiv d d' h hd hd' (fun _ => ⟨hf, hf'⟩)))

/-- the check at one node: any binary operator; the builtins that depend on values only; valued literals -/
def fragNodeD : INode → Bool
  | .call f _ => f.plain || f.isRound
  | .lit v => C14CFrag.valuedB v
  | _ => true

/-- a node passing `fragNodeD` everywhere, with float-free literals, desugars into `Tree.FloatFree` -/
theorem floatFree_of_check {n : INode} (h : n.all fragNodeD = true) (hl : n.all (INode.litOk C05BLits.nfB) = true) :
    (desugar n).FloatFree :=
  C14CFrag.ops_of_all (fun m => fragNodeD m && INode.litOk C05BLits.nfB m)
    (fun _ _ _ _ => trivial)
    (fun f _ h => by simpa [fragNodeD, INode.litOk, Bool.or_eq_true] using h)
    (fun _ _ => trivial)
    (fun v h => by
      simp only [fragNodeD, INode.litOk, Bool.and_eq_true] at h
      exact ⟨(C14CFrag.valuedB_iff v).mp h.1, (C05BLits.nfB_iff v).mp h.2⟩)
    n (C14CFrag.all_and _ _ n h hl)

/-- **for a compiled expression** the literals are float-free by construction of the parser, so the fragment is the
    decidable check `fragNodeD` at every node: no `to_string`/`sum`/`avg`/`sort`, every literal number within
    decimal128's range -/
theorem compiled_floatFree {e : Bytes} {n : INode} (hc : compile e = .ok n) (h : n.all fragNodeD = true) :
    (desugar n).FloatFree := floatFree_of_check h (C05BLits.parse_nfLits hc)

/-- the check on the expression text (a text that does not compile passes: `search` fails identically on every
    document) -/
def textOKD (e : Bytes) : Bool :=
  match compile e with
  | .ok n => n.all fragNodeD
  | .error _ => true

/-- **`Search(text, document)` on float-free documents that differ only in the Go types of their numbers**, for every
    expression text passing `textOKD` — `/` allowed: the same failure or results equal up to representation. -/
theorem search_congr_floatfree {e : Bytes} (he : textOKD e = true) {d d' : Val} (h : VR true d d') :
    RR (VR true) (search e d) (search e d') := by
  unfold search
  unfold textOKD compile at he
  cases hp : Parser.parse e with
  | error err => cases err <;> simp [RR]
  | ok n =>
    rw [hp] at he
    exact evaluate_congr_floatfree (compiled_floatFree hp he) h

/-- the text ``(a+b)/c<`0.67` `` -/
def exTextD : Bytes := [0x28, 0x61, 0x2B, 0x62, 0x29, 0x2F, 0x63, 0x3C, 0x60, 0x30, 0x2E, 0x36, 0x37, 0x60]

theorem exTextD_ok : textOKD exTextD = true := by decide +kernel

example : (match compile exTextD with | .ok _ => true | .error _ => false) = true := by decide +kernel

-- `C14B`'s pair of float-free documents: {a: 1 (uint8), b: "1.50", c: 5 (int64)} / {a: 1.0, b: 1.5, c: 50e-1} (decimals)
example : RR (VR true) (search exTextD exDoc) (search exTextD exDoc') :=
  search_congr_floatfree exTextD_ok exDoc_vr

-- the check still rejects `sum(a)` and `to_string(a)`
example : textOKD [0x73, 0x75, 0x6D, 0x28, 0x61, 0x29] = false := by decide +kernel

/-! ### `l / r`, `sum(e)`, `avg(e)` on top of expressions of a fragment: no `hfit` -/

/-- **`C14B.evaluate_divide_congr` without `hfit`** (subsumed by `evaluate_congr_floatfree`; stated for comparison) -/
theorem evaluate_divide_congr {l r : INode} (hl : (desugar l).FloatFree) (hr : (desugar r).FloatFree) {d d' : Val}
    (h : VR true d d') : RR (VR true) (evaluate (.binop .div l r) d) (evaluate (.binop .div l r) d') :=
  evaluate_congr_floatfree (n := .binop .div l r) (by
    simp only [desugar, Tree.FloatFree, Tree.Ops, true_and]; exact ⟨hl, hr⟩) h

/-- `avg(e)` on top of related outcomes of `e`: only "not a map-ordered array" is left as a run-time hypothesis
    (that one is the model declining, property C15, not a matter of representation) -/
theorem avg_of_rr {nf : Bool} {r r' : Res Val} (h : RR (VR nf) r r')
    (hplain : ∀ t xs, r = .ok (.arr t xs) → enum2 t xs = false) :
    RR (VR nf) (r >>= fun v => applyFn .avg [v]) (r' >>= fun v => applyFn .avg [v]) := by
  refine rr_bind_eq h (fun v v' e _ hv => ?_)
  cases v with
  | arr t xs =>
    cases v' with
    | arr u xs' =>
      simp only [VR] at hv
      obtain ⟨rfl, hx⟩ := hv
      exact numAvg_rr hx (hplain t xs e)
    | _ => simp only [VR] at hv
  | _ => cases v' <;> simp only [VR] at hv <;> exact rr_errType

/-- **`avg(e)`, `e` in the float-free fragment** -/
theorem evaluate_avg_congr {n : INode} (hn : (desugar n).FloatFree) {d d' : Val} (h : VR true d d')
    (hplain : ∀ t xs, evaluate n d = .ok (.arr t xs) → enum2 t xs = false) :
    RR (VR true) (evaluate (.call .avg [n]) d) (evaluate (.call .avg [n]) d') := by
  have := avg_of_rr (evaluate_congr_floatfree hn h) hplain
  unfold evaluate at this ⊢
  rw [ieval_call1, ieval_call1]
  exact this

/-- **`C14C.evaluate_avg_congr_float` without `hfit`, `hfit'`**: `avg(e)` with float leaves, `e` an expression of the
    fragment with integer-valued floats and arithmetic -/
theorem evaluate_avg_congr_float {n : INode} (hn : (desugar n).NoDiv) {B : Nat}
    (hb : B * 2 ^ adepth (desugar n) ≤ 53) {d d' : Val} (h : VR false d d') (hf : AllF (IntF B) d)
    (hf' : AllF (IntF B) d') (hplain : ∀ t xs, evaluate n d = .ok (.arr t xs) → enum2 t xs = false) :
    RR (VR false) (evaluate (.call .avg [n]) d) (evaluate (.call .avg [n]) d') := by
  have := avg_of_rr (evaluate_congr_float_arith hn hb h hf hf') hplain
  unfold evaluate at this ⊢
  rw [ieval_call1, ieval_call1]
  exact this

-- avg([a*b, c, a]) on the float / non-float documents of `C14C`: (35 + 11 + 7)/3 = 17.666…7, inexact, on both sides
example : RR (VR false)
    (evaluate (.call .avg [.selectArrayCurrent [.binop .mul (.field [0x61]) (.field [0x62]), .field [0x63], .field [0x61]]]) exDocA)
    (evaluate (.call .avg [.selectArrayCurrent [.binop .mul (.field [0x61]) (.field [0x62]), .field [0x63], .field [0x61]]]) exDocA') :=
  evaluate_avg_congr_float (B := 6) (C14CFrag.noDiv_of_fragOK (by decide)) (by decide) exDocA_vr exDocA_small.1
    exDocA_small.2 (fun t xs hx => by
      have : ∀ r, evaluate (.selectArrayCurrent [.binop .mul (.field [0x61]) (.field [0x62]), .field [0x63], .field [0x61]])
          exDocA = r → ∀ t xs, r = .ok (.arr t xs) → t = .plain := by
        intro r hr t xs e
        subst hr
        unfold evaluate at e
        simp only [ieval] at e
        split at e
        · cases e
        · cases hl : ievalList exDocA [.binop .mul (.field [0x61]) (.field [0x62]), .field [0x63], .field [0x61]] exDocA [] <;>
            rw [hl] at e <;> simp at e
          exact e.1.symm
      have ht := this _ rfl t xs hx
      subst ht; rfl)

/-! ## 2. float arithmetic with a per-operator accounting

  `C14C.evaluate_congr_float_arith` admits floats holding integers `< 2^B` and asks for `B · 2^adepth ≤ 53`, every
  arithmetic level doubling the bits whatever the operator.  Here the accounting is by operator, and dyadic
  fractions are admitted (`0.375`, `1.5`, `2.25` …: what a `float64` can hold exactly).

  Grades `⟨h, s⟩ : Gr`: the float is `±v·2^-s` with `v ≤ 2^(h+s)` — magnitude at most `2^h`, a multiple of `2^-s`.
  Budget `Gr.OK ⟨h, s⟩`: `h + s ≤ 52` and `2^h·10^s < 10^34`; then the value is exact in binary64 (`v < 2^53`) AND in
  decimal128 (`v·5^s·10^-s`, `v·5^s < 10^34`) — "exactly representable in each representation". -/

/-- a float64 holding `±v·2^-s` -/
def fDy (n : Bool) (v s : Nat) : Val := .num (.f64 (F64.mk n v (-(s : Int))))

/-- … is of grade `⟨h, s⟩` as soon as `v ≤ 2^(h+s)` -/
theorem allF_fDy {g : Gr} (n : Bool) (v : Nat) (h : v ≤ 2 ^ (g.h + g.s)) : AllF (DyF g) (fDy n v g.s) := by
  simp only [fDy, allF_f64]; exact ⟨n, v, h, rfl⟩

/-- … and, within budget, related to every well-formed number of the same value -/
theorem vr_fDy {g : Gr} (ok : g.OK) {n : Bool} {v : Nat} (hv : v ≤ 2 ^ (g.h + g.s)) {b : Num} (hb : NumOK b)
    (hs : Num.SameValue (.f64 (F64.mk n v (-(g.s : Int)))) b) : VR false (fDy n v g.s) (.num b) := by
  simp only [fDy, VR]
  exact ⟨hs, .inl ⟨DyF.fok ok ⟨n, v, hv, rfl⟩, hb⟩, fun e => by cases e⟩

/-- the integer-valued floats of `C14C` are the grades `⟨k, 0⟩` -/
theorem dyF_of_intF {k : Nat} {f : F64} (h : IntF k f) : DyF ⟨k, 0⟩ f := by
  obtain ⟨n, v, hv, rfl⟩ := h
  exact ⟨n, v, Nat.le_of_lt hv, rfl⟩

theorem allF_dy_of_int {k : Nat} {v : Val} (h : AllF (IntF k) v) : AllF (DyF ⟨k, 0⟩) v :=
  AllF.mono (fun _ hf => dyF_of_intF hf) v h

/-- **`DyF ⟨h, s⟩` is a condition on the VALUE of the float**: a normalised finite float `±m·2^e` (`m` odd, or
    `m = 0 ∧ e = 0` — every finite value of the model has this form) is of grade `⟨h, s⟩` iff `e ≥ -s` and
    `m·2^(e+s) ≤ 2^(h+s)`, i.e. iff it is a multiple of `2^-s` of magnitude at most `2^h`. -/
theorem dyadic_iff (g : Gr) (n : Bool) (m : Nat) (e : Int) (hodd : m % 2 = 1 ∨ (m = 0 ∧ e = 0)) :
    DyF g (.fin n m e) ↔ 0 ≤ e + g.s ∧ m * 2 ^ (e + g.s).toNat ≤ 2 ^ (g.h + g.s) :=
  dyF_fin_iff g n m e hodd

/-- a Bool check that every float of a document is of grade `g` (`dyB`), sound for the hypothesis `AllF (DyF g) d` of
    the theorems below -/
theorem allF_of_docCheck (g : Gr) (d : Val) (h : dyB g d = true) : AllF (DyF g) d := allF_of_dyB g d h

-- 0.375 = 3·2^-3: of grade ⟨0, 3⟩, not of grade ⟨0, 2⟩ (not a multiple of 1/4); 2^60 is of no grade within budget
example : DyF ⟨0, 3⟩ (.fin false 3 (-3)) ∧ ¬ DyF ⟨0, 2⟩ (.fin false 3 (-3)) ∧ ¬ DyF ⟨52, 0⟩ (.fin false 1 60) :=
  ⟨(dyadic_iff ⟨0, 3⟩ false 3 (-3) (.inl rfl)).mpr (by decide),
   fun h => absurd ((dyadic_iff ⟨0, 2⟩ false 3 (-3) (.inl rfl)).mp h) (by decide),
   fun h => absurd ((dyadic_iff ⟨52, 0⟩ false 1 60 (.inl rfl)).mp h) (by decide)⟩

/-- **`+ - * // %` on two pairs of operands of equal values**, in whatever mix of `float64`, `float32`, `json.Number`,
    decimal and integer kinds, the floats among the left operands dyadics of grade `ga`, among the right operands of
    grade `gb`, **the grade of the exact result within budget** (`opOKb`: `+`/`-`: `⟨max h + 1, max s⟩`; `*`:
    `⟨h₁ + h₂, s₁ + s₂⟩`; `//`, `%`: integers only, `⟨max h, 0⟩`): the same error, or results of the same value.
    Operands that are not floats are not restricted at all. -/
theorem arith_dyadic_congr {op : BinOp} {ga gb : Gr} (hcmp : op.isCmp = false) (hok : opOKb op ga gb = true)
    {a a' b b' : Val} (ha : VR false a a') (hb : VR false b b') (fa : AllF (DyF ga) a) (fa' : AllF (DyF ga) a')
    (fb : AllF (DyF gb) b) (fb' : AllF (DyF gb) b') :
    RR (VR false) (applyBinOp op a b) (applyBinOp op a' b') :=
  applyBinOp_dy_rr hcmp hok ha hb fa fa' fb fb'

/-- **… and the result is again exactly representable**: if it is a float, it is a dyadic of the grade `opGr op ga gb` -/
theorem arith_dyadic_exact {op : BinOp} {ga gb : Gr} (hcmp : op.isCmp = false) (hok : opOKb op ga gb = true)
    {a b w : Val} (fa : AllF (DyF ga) a) (fb : AllF (DyF gb) b) (h : applyBinOp op a b = .ok w) :
    AllF (DyF (opGr op ga gb)) w :=
  applyBinOp_dy_fb hcmp hok fa fb h

/-- on the floats themselves: the binary64 sum / difference / product of two dyadics is the dyadic of the result grade,
    i.e. exact, as long as that grade is within budget -/
theorem float_ops_exact {a b : Gr} {x y : F64} (hx : DyF a x) (hy : DyF b y) :
    ((gAdd a b).OK → DyF (gAdd a b) (F64.add x y) ∧ DyF (gAdd a b) (F64.sub x y)) ∧
    ((gMul a b).OK → DyF (gMul a b) (F64.mul x y)) :=
  ⟨fun ok => ⟨DyF.add hx hy ok, DyF.sub hx hy ok⟩, fun ok => DyF.mul hx hy ok⟩

-- 0.375 (float64) * 1.5 (float32)  vs  "0.375" (json.Number) * 15e-1 (decimal): grades ⟨0,3⟩·⟨1,1⟩ = ⟨1,4⟩
def exMulA : Val := fDy false 3 3
def exMulB : Val := .num (.f32 (F64.mk false 3 (-1)))
def exMulA' : Val := .num (.jnum [0x30, 0x2E, 0x33, 0x37, 0x35])
def exMulB' : Val := .num (.dec (.fin false 15 (-1)))

theorem exMul_vr : VR false exMulA exMulA' ∧ VR false exMulB exMulB' := by
  constructor
  · exact vr_fDy (g := ⟨0, 3⟩) (by decide) (by decide) trivial
      ⟨.fin false 375 (-3), .fin false 375 (-3), by decide, by decide, by decide⟩
  · simp only [exMulB, exMulB', VR]
    exact ⟨⟨.fin false 15 (-1), _, by decide, rfl, by decide⟩,
      .inl ⟨DyF.fok (g := ⟨1, 1⟩) (by decide) ⟨false, 3, by decide, rfl⟩, by simp only [NumOK, Dec.Bounded]; decide⟩,
      fun e => by cases e⟩

theorem exMul_small : AllF (DyF ⟨0, 3⟩) exMulA ∧ AllF (DyF ⟨0, 3⟩) exMulA' ∧ AllF (DyF ⟨1, 1⟩) exMulB ∧
    AllF (DyF ⟨1, 1⟩) exMulB' := by
  refine ⟨allF_fDy (g := ⟨0, 3⟩) _ _ (by decide), by simp [exMulA'], ?_, by simp [exMulB']⟩
  simp only [exMulB, allF_f32]; exact ⟨false, 3, by decide, rfl⟩

-- the float 9·2^-4 = 0.5625 on one side, a decimal of that value on the other
example : (match applyBinOp .mul exMulA exMulB, applyBinOp .mul exMulA' exMulB' with
    | .ok (.num (.f64 f)), .ok (.num (.dec d)) => f == F64.mk false 9 (-4) && Dec.cmp d (.fin false 5625 (-4)) == some 0
    | _, _ => false) = true := by decide

-- (the elaborator would otherwise run the evaluator while looking at the statement below)
attribute [irreducible] exMulA exMulB exMulA' exMulB'

example : RR (VR false) (applyBinOp .mul exMulA exMulB) (applyBinOp .mul exMulA' exMulB') :=
  arith_dyadic_congr (ga := ⟨0, 3⟩) (gb := ⟨1, 1⟩) rfl (by decide) exMul_vr.1 exMul_vr.2 exMul_small.1
    exMul_small.2.1 exMul_small.2.2.1 exMul_small.2.2.2

example : ∀ w, applyBinOp .mul exMulA exMulB = .ok w → AllF (DyF ⟨1, 4⟩) w :=
  fun _ h => arith_dyadic_exact (ga := ⟨0, 3⟩) (gb := ⟨1, 1⟩) (op := .mul) rfl (by decide) exMul_small.1
    exMul_small.2.2.1 h

/-! ### over expressions -/

/-- the number of bits (before + after the binary point) a float result of `t` may need, on inputs of grade `g` -/
def bits (t : Tree) (g : Gr) : Nat := (grade dyGrading t g).h + (grade dyGrading t g).s

/-- **Every intermediate value is exactly representable.**  For an expression of the fragment `Tree.FloatFree`
    (everything but `to_string`, `sum`, `avg`, `sort`) evaluated on a document whose floats are dyadics of grade `B`,
    every arithmetic operator meeting its operands within budget along the flow of values (`budget dyGrading`; in
    particular no `/`, and `//`, `%` on integers only): every float of the result is a dyadic of grade
    `grade dyGrading (desugar n) B` — and the same holds of every intermediate value (the statement is the invariant of
    the induction, `seval_fbG`). -/
theorem evaluate_dyadic_exact {n : INode} (hn : (desugar n).FloatFree) {B : Gr}
    (hb : budget dyGrading (desugar n) B = true) {d w : Val} (hf : AllF (DyF B) d) (h : evaluate n d = .ok w) :
    AllF (DyF (grade dyGrading (desugar n) B)) w :=
  evaluate_graded_exact dyGrading hn hb hf h

/-- **Representation independence with float leaves and arithmetic, accounted operator by operator.**  For every
    expression of the fragment `Tree.FloatFree` and two documents that differ only in the Go types carrying their
    numbers — `float64` and `float32` included, provided every float is a dyadic of grade `B` (`±v·2^-s`,
    `v ≤ 2^(h+s)`) — and `budget dyGrading (desugar n) B` (a decidable check of the expression: every `+ - *` produces a
    grade with `h + s ≤ 52`, `2^h·10^s < 10^34`; `//`, `%` see integers; no `/`): the same failure, or results equal
    up to representation.  Numbers that are not floats on either side are not restricted. -/
theorem evaluate_congr_dyadic {n : INode} (hn : (desugar n).FloatFree) {B : Gr}
    (hb : budget dyGrading (desugar n) B = true) {d d' : Val} (h : VR false d d') (hf : AllF (DyF B) d)
    (hf' : AllF (DyF B) d') : RR (VR false) (evaluate n d) (evaluate n d') :=
  evaluate_congr_graded dyGrading hn hb h hf hf'

/-- … for `ieval` with arbitrary related current values and environments -/
theorem ieval_congr_dyadic {n : INode} (hn : (desugar n).FloatFree) {B : Gr}
    (hb : budget dyGrading (desugar n) B = true) {root root' cur cur' : Val} {env env' : Env}
    (hr : VR false root root') (fr : AllF (DyF B) root) (fr' : AllF (DyF B) root')
    (hc : VR false cur cur') (fc : AllF (DyF B) cur) (fc' : AllF (DyF B) cur')
    (he : VRF false env env') (fe : EnvAF (DyF B) env) (fe' : EnvAF (DyF B) env') :
    RR (VR false) (ieval root n cur env) (ieval root' n cur' env') :=
  ieval_congr_graded dyGrading hn hb hr fr fr' hc fc fc' he fe fe'

/-- **The property as stated** (documents given by `Val.Equiv`; all numbers well-formed Go values) -/
theorem evaluate_congr_of_equiv_dyadic {n : INode} (hn : (desugar n).FloatFree) {B : Gr}
    (hb : budget dyGrading (desugar n) B = true) {d d' : Val} (h : Val.Equiv d d') (hd : d.AllOK) (hd' : d'.AllOK)
    (hf : AllF (DyF B) d) (hf' : AllF (DyF B) d') :
    ResEquiv (evaluate n d) (evaluate n d') ∨ (evaluate n d = evaluate n d' ∧ ∀ v, evaluate n d ≠ .ok v) :=
  resEquiv_of_rr (evaluate_congr_dyadic hn hb (vr_of_equiv d d' h hd hd' (fun e => by cases e)) hf hf')

/-- **Linear growth on sums.**  `t₀ ± t₁ ± … ± tₙ` (left-nested, as the parser builds it) on summands that pass their
    input grade on (fields, sub-expressions `a.b`, variables, literals …): grade `⟨h + n, s⟩` — ONE bit per `+`/`-`
    — and within budget as soon as `h + n + s ≤ 52` (and `2^(h+n)·10^s < 10^34`).  (`C14C`: `B · 2^n ≤ 53`.) -/
theorem sum_linear (g : Gr) (t0 : Tree) (ts : List (Bool × Tree)) (h0 : Leafy g t0) (hl : ∀ p ∈ ts, Leafy g p.2)
    (ok : Gr.OK ⟨g.h + ts.length, g.s⟩) :
    grade dyGrading (lsumS t0 ts) g = ⟨g.h + ts.length, g.s⟩ ∧ budget dyGrading (lsumS t0 ts) g = true :=
  lsumS_linear g t0 ts h0 hl ok

/-! ### a concrete instance: `a + b * c - a` on `{a: 0.375 (float64), b: 1.5 (float32), c: 2.25 (float64)}` and on
    `{a: "0.375" (json.Number), b: 15e-1 (decimal), c: "2.25" (json.Number)}` -/

def exNodeY : INode :=
  .binop .sub (.binop .add (.field [0x61]) (.binop .mul (.field [0x62]) (.field [0x63]))) (.field [0x61])

def exDocY : Val := .obj [([0x61], fDy false 3 3), ([0x62], .num (.f32 (F64.mk false 12 (-3)))), ([0x63], fDy false 18 3)]
def exDocY' : Val := .obj [([0x61], .num (.jnum [0x30, 0x2E, 0x33, 0x37, 0x35])),
  ([0x62], .num (.dec (.fin false 15 (-1)))), ([0x63], .num (.jnum [0x32, 0x2E, 0x32, 0x35]))]

/-- the expression is in the fragment -/
theorem exNodeY_frag : (desugar exNodeY).FloatFree := floatFree_of_check (by decide) (by decide)

/-- floats of grade `⟨2, 3⟩` (multiples of 1/8 up to 4): `b*c` is of grade `⟨4, 6⟩`, `a + b*c` of `⟨5, 6⟩`, the result of
    `⟨6, 6⟩`: 12 bits, within budget -/
theorem exNodeY_budget : budget dyGrading (desugar exNodeY) ⟨2, 3⟩ = true ∧
    grade dyGrading (desugar exNodeY) ⟨2, 3⟩ = ⟨6, 6⟩ ∧ bits (desugar exNodeY) ⟨2, 3⟩ = 12 := by decide

/-- every float of the two documents is a multiple of 1/8 of magnitude at most 4 -/
theorem exDocY_small : AllF (DyF ⟨2, 3⟩) exDocY ∧ AllF (DyF ⟨2, 3⟩) exDocY' := by
  simp only [exDocY, exDocY', AllF, AllFF, NumF, fDy, and_true]
  exact ⟨⟨false, 3, by decide, rfl⟩, ⟨false, 12, by decide, rfl⟩, ⟨false, 18, by decide, rfl⟩⟩

/-- the two documents carry the same values -/
theorem exDocY_vr : VR false exDocY exDocY' := by
  have ok : Gr.OK ⟨2, 3⟩ := by decide
  simp only [exDocY, exDocY', VR, VRF, and_true, true_and]
  refine ⟨vr_fDy (g := ⟨2, 3⟩) ok (by decide) trivial ⟨.fin false 375 (-3), .fin false 375 (-3), by decide, by decide, by decide⟩,
    ?_, vr_fDy (g := ⟨2, 3⟩) ok (by decide) trivial ⟨.fin false 225 (-2), .fin false 225 (-2), by decide, by decide, by decide⟩⟩
  exact ⟨⟨.fin false 15 (-1), _, by decide, rfl, by decide⟩,
    .inl ⟨DyF.fok (g := ⟨2, 3⟩) ok ⟨false, 12, by decide, rfl⟩, by simp only [NumOK, Dec.Bounded]; decide⟩,
    fun e => by cases e⟩

-- 0.375 + 1.5·2.25 − 0.375 = 3.375: the float 27·2^-3 on one side, a decimal of value 3.375 on the other
example : (match evaluate exNodeY exDocY, evaluate exNodeY exDocY' with
    | .ok (.num (.f64 f)), .ok (.num (.dec d)) => f == F64.mk false 27 (-3) && Dec.cmp d (.fin false 3375 (-3)) == some 0
    | _, _ => false) = true := by decide

attribute [irreducible] exNodeY exDocY exDocY'

/-- the theorem applies to that pair of documents -/
theorem exY_related : RR (VR false) (evaluate exNodeY exDocY) (evaluate exNodeY exDocY') :=
  evaluate_congr_dyadic exNodeY_frag exNodeY_budget.1 exDocY_vr exDocY_small.1 exDocY_small.2

example : ∀ w, evaluate exNodeY exDocY = .ok w → AllF (DyF ⟨6, 6⟩) w := fun w h => by
  have := evaluate_dyadic_exact exNodeY_frag exNodeY_budget.1 exDocY_small.1 h
  rw [exNodeY_budget.2.1] at this; exact this

-- `a+b+c+d+e+f+g` on floats holding integers up to 2^46 (or multiples of 1/8 up to 2^43): 6 bits for 6 additions.
-- With `C14C`'s accounting this expression has `adepth = 6` and forces `B = 0`.
example : budget dyGrading (lsum (.field [0x61]) [.field [0x62], .field [0x63], .field [0x64], .field [0x65],
      .field [0x66], .field [0x67]]) ⟨46, 0⟩ = true ∧
    budget dyGrading (lsum (.field [0x61]) [.field [0x62], .field [0x63], .field [0x64], .field [0x65],
      .field [0x66], .field [0x67]]) ⟨43, 3⟩ = true ∧
    adepth (lsum (.field [0x61]) [.field [0x62], .field [0x63], .field [0x64], .field [0x65],
      .field [0x66], .field [0x67]]) = 6 := by decide

/-! ### on expression text -/

/-- the check on the expression text for documents whose floats are dyadics of grade `B`: the text compiles to a node
    of the fragment that is within budget (a text that does not compile passes: `search` fails identically on every
    document) -/
def textOKDy (B : Gr) (e : Bytes) : Bool :=
  match compile e with
  | .ok n => n.all fragNodeD && budget dyGrading (desugar n) B
  | .error _ => true

/-- **`Search(text, document)` with float leaves and arithmetic**: for every text passing `textOKDy B` and two related
    documents whose floats are dyadics of grade `B` -/
theorem search_congr_dyadic {B : Gr} {e : Bytes} (he : textOKDy B e = true) {d d' : Val} (h : VR false d d')
    (hf : AllF (DyF B) d) (hf' : AllF (DyF B) d') : RR (VR false) (search e d) (search e d') := by
  unfold search
  unfold textOKDy compile at he
  cases hp : Parser.parse e with
  | error err => cases err <;> simp [RR]
  | ok n =>
    rw [hp] at he
    simp only [Bool.and_eq_true] at he
    exact evaluate_congr_dyadic (compiled_floatFree hp he.1) he.2 h hf hf'

/-- the text `a+b*c-a` -/
def exTextY : Bytes := [0x61, 0x2B, 0x62, 0x2A, 0x63, 0x2D, 0x61]

theorem exTextY_ok : textOKDy ⟨2, 3⟩ exTextY = true := by decide +kernel

example : (match compile exTextY with | .ok _ => true | .error _ => false) = true := by decide +kernel

example : RR (VR false) (search exTextY exDocY) (search exTextY exDocY') :=
  search_congr_dyadic exTextY_ok exDocY_vr exDocY_small.1 exDocY_small.2

/-- the text `a+b+c+d+e+f+g`: within budget for integers up to `2^46`; `a/b` is never within budget (an inexact
    quotient: `C14C` section 4); `a*b` on 30-bit integers is not (60 bits) -/
theorem exTextSum_ok : textOKDy ⟨46, 0⟩ [0x61, 0x2B, 0x62, 0x2B, 0x63, 0x2B, 0x64, 0x2B, 0x65, 0x2B, 0x66, 0x2B, 0x67] = true ∧
    textOKDy ⟨47, 0⟩ [0x61, 0x2B, 0x62, 0x2B, 0x63, 0x2B, 0x64, 0x2B, 0x65, 0x2B, 0x66, 0x2B, 0x67] = false ∧
    textOKDy ⟨1, 0⟩ [0x61, 0x2F, 0x62] = false ∧ textOKDy ⟨30, 0⟩ [0x61, 0x2A, 0x62] = false ∧
    textOKDy ⟨26, 0⟩ [0x61, 0x2A, 0x62] = true := by decide +kernel

/-! ### `sum(e)`, `avg(e)`, `sort(e)` on top of an expression with dyadic floats and arithmetic -/

/-- **`sum(e)`**: `sum` has no float path, only the proviso of `e` itself is needed -/
theorem evaluate_sum_congr_dyadic {n : INode} (hn : (desugar n).FloatFree) {B : Gr}
    (hb : budget dyGrading (desugar n) B = true) {d d' : Val} (h : VR false d d') (hf : AllF (DyF B) d)
    (hf' : AllF (DyF B) d') (hplain : ∀ t xs, evaluate n d = .ok (.arr t xs) → enum2 t xs = false) :
    RR (VR false) (evaluate (.call .sum [n]) d) (evaluate (.call .sum [n]) d') := by
  have := sum_of_rr (evaluate_congr_dyadic hn hb h hf hf') hplain
  unfold evaluate at this ⊢
  rw [ieval_call1, ieval_call1]
  exact this

/-- **`avg(e)`**: likewise — no exactness proviso for the final division -/
theorem evaluate_avg_congr_dyadic {n : INode} (hn : (desugar n).FloatFree) {B : Gr}
    (hb : budget dyGrading (desugar n) B = true) {d d' : Val} (h : VR false d d') (hf : AllF (DyF B) d)
    (hf' : AllF (DyF B) d') (hplain : ∀ t xs, evaluate n d = .ok (.arr t xs) → enum2 t xs = false) :
    RR (VR false) (evaluate (.call .avg [n]) d) (evaluate (.call .avg [n]) d') := by
  have := avg_of_rr (evaluate_congr_dyadic hn hb h hf hf') hplain
  unfold evaluate at this ⊢
  rw [ieval_call1, ieval_call1]
  exact this

/-- **`sort(e)` over float elements**: unless the model declines on either side because of a tie between numbers that
    are equal but not identical (Go's unstable sort may leave them in either order), the outcomes are related -/
theorem evaluate_sort_congr_dyadic {n : INode} (hn : (desugar n).FloatFree) {B : Gr}
    (hb : budget dyGrading (desugar n) B = true) {d d' : Val} (h : VR false d d') (hf : AllF (DyF B) d)
    (hf' : AllF (DyF B) d') :
    evaluate (.call .sort [n]) d = .nondet ∨ evaluate (.call .sort [n]) d' = .nondet ∨
      RR (VR false) (evaluate (.call .sort [n]) d) (evaluate (.call .sort [n]) d') := by
  have := evaluate_congr_dyadic hn hb h hf hf'
  unfold evaluate at this ⊢
  rw [ieval_call1, ieval_call1]
  cases h1 : ieval d n d [] <;> cases h2 : ieval d' n d' [] <;> rw [h1, h2] at this <;> simp only [RR] at this
  · exact sortArray_rr this
  all_goals (right; right; first | exact this | trivial)

-- sort([c, a + b, a]) on the two documents above: [0.375, 1.875, 2.25] on both sides, floats on one, decimals on the other
example : evaluate (.call .sort [.selectArrayCurrent [.field [0x63], .binop .add (.field [0x61]) (.field [0x62]), .field [0x61]]]) exDocY = .nondet ∨
    evaluate (.call .sort [.selectArrayCurrent [.field [0x63], .binop .add (.field [0x61]) (.field [0x62]), .field [0x61]]]) exDocY' = .nondet ∨
    RR (VR false)
      (evaluate (.call .sort [.selectArrayCurrent [.field [0x63], .binop .add (.field [0x61]) (.field [0x62]), .field [0x61]]]) exDocY)
      (evaluate (.call .sort [.selectArrayCurrent [.field [0x63], .binop .add (.field [0x61]) (.field [0x62]), .field [0x61]]]) exDocY') :=
  evaluate_sort_congr_dyadic (B := ⟨2, 3⟩) (floatFree_of_check (by decide) (by decide)) (by decide) exDocY_vr
    exDocY_small.1 exDocY_small.2

/-! ### what the accounting does not cover

   * floats with a positive binary exponent beyond 52 bits (`2^60`: exactly representable in all representations, but
     of no grade within budget) — `DyF` measures magnitude and scale, not the number of significant bits;
   * the budget is `h + s ≤ 52`, one bit short of binary64's 53: grades bound magnitudes by `≤ 2^h` (so that they are
     closed under `ceil`/`floor`: `ceil(1.875) = 2`), and `2^53` itself is not admitted;
   * `/` on two floats (inexact in general: `C14C` section 4; exact quotients: `C14B.float_div_sameValue`) and `//`, `%` on
     non-integral floats (`(2^53−1) // 1.5` diverges, `C14B`) are never within budget;
   * the accounting is static and by worst case along the flow of values: `a * b` is charged `h₁ + h₂` bits whatever the
     documents hold. -/

/-! ## 3. `sum`, `avg`, `sort` inside the fragment

  `sum`, `avg` over a map-ordered array (the direct result of `values(…)` / `.*`) of ≥ 2 elements are answered by the
  model only when it can show the sum order-independent, `sort` only without an ambiguous tie — otherwise the model
  declines (`.nondet`, property C15).  Both tests look at the spellings, so one run may decline while the other answers:
  these three builtins are not congruent for `RR`, and `C14B`/`C14C` could use them only on top of a fragment
  expression under run-time hypotheses.  With the outcome relation

      `RNW R r r'  :=  r = .nondet ∨ r' = .nondet ∨ (both r, r' are a panic / unmodelled) ∨ RR R r r'`

  they are congruent, and so is the whole evaluator. -/

end C14E

/-- **everything but `to_string`** on float-free documents: every binary operator, every other builtin (`sum`, `avg`,
    `sort` included), proper float-free literals -/
def Tree.AllFloatFree (t : Tree) : Prop :=
  t.Ops (fun _ => True) (fun f => f ≠ .toString) True (fun v => v.Valued ∧ v.NoFloat)

/-- … when floats may occur: no arithmetic operator (see section 2 for those), every builtin but `to_string` -/
def Tree.AllNoArith (t : Tree) : Prop :=
  t.Ops (fun op => op.isCmp = true) (fun f => f ≠ .toString) True (fun v => v.Valued)

namespace C14E
open C14 C14B C14C

/-- **`sum`, `avg`, `sort` on related arguments, floats or not**: either run declines, or the outcomes are related -/
theorem sum_avg_sort_congr {nf : Bool} {v v' : Val} (h : VR nf v v') :
    RN (VR nf) (applyFn .sum [v]) (applyFn .sum [v']) ∧ RN (VR nf) (applyFn .avg [v]) (applyFn .avg [v']) ∧
      RN (VR nf) (applyFn .sort [v]) (applyFn .sort [v']) :=
  ⟨fnCongrN_sum _ _ (by simp only [VRL, and_true]; exact h), fnCongrN_avg _ _ (by simp only [VRL, and_true]; exact h),
   fnCongrN_sort _ _ (by simp only [VRL, and_true]; exact h)⟩

-- a map-ordered `[1, 1]` whose first `1` is spelled with 34 digits on the right: `sum` answers 2 on the left and
-- declines on the right
example : RN (VR true) (applyFn .sum [exEnum]) (applyFn .sum [exEnum']) := (sum_avg_sort_congr exEnum_vr).1
example : (match applyFn .sum [exEnum], applyFn .sum [exEnum'] with
    | .ok (.num (.dec (.fin false 2 0))), .nondet => true | _, _ => false) = true := by decide

/-- **Float-free documents, EVERY expression without `to_string`** — `/`, `sum`, `avg`, `sort` included, anywhere in
    the expression: either run declines (`.nondet`), or both runs end outside the model (panic / unmodelled), or the
    outcomes are related (the same failure, or values equal up to representation).  No run-time hypothesis. -/
theorem evaluate_congr_all {n : INode} (hn : (desugar n).AllFloatFree) {d d' : Val} (h : VR true d d') :
    RNW (VR true) (evaluate n d) (evaluate n d') :=
  evaluate_rnw_fragment hn h

/-- **… with `float64`/`float32` leaves**: every expression without arithmetic operators and `to_string` — in
    particular `sum`, `avg` (no float path: exact for every float) and `sort`, `sort_by`, `max`, … over float elements -/
theorem evaluate_congr_all_float {n : INode} (hn : (desugar n).AllNoArith) {d d' : Val} (h : VR false d d') :
    RNW (VR false) (evaluate n d) (evaluate n d') :=
  evaluate_rnw_fragment_float hn h

/-- **in terms of answers**: if one run answers the value `v`, the other run answers a value equal to `v` up to
    representation — or declines -/
theorem evaluate_value_all {n : INode} (hn : (desugar n).AllFloatFree) {d d' : Val} (h : VR true d d') {v : Val}
    (hv : evaluate n d = .ok v) : evaluate n d' = .nondet ∨ ∃ v', evaluate n d' = .ok v' ∧ VR true v v' :=
  evaluate_ok_rn (tcongrN_of_fragN hn) h hv

theorem evaluate_value_all_float {n : INode} (hn : (desugar n).AllNoArith) {d d' : Val} (h : VR false d d') {v : Val}
    (hv : evaluate n d = .ok v) : evaluate n d' = .nondet ∨ ∃ v', evaluate n d' = .ok v' ∧ VR false v v' :=
  evaluate_ok_rn (tcongrN_of_fragNF hn) h hv

/-- … and if one run fails with the error `c`, the other run fails with the same error — or declines -/
theorem evaluate_error_all {n : INode} (hn : (desugar n).AllFloatFree) {d d' : Val} (h : VR true d d') {c : List Cat}
    (hv : evaluate n d = .err c) : evaluate n d' = .nondet ∨ evaluate n d' = .err c := by
  have := evaluate_congr_all hn h
  rw [hv] at this
  rcases this with e | e | e | e
  · cases e
  · exact .inl e
  · exact absurd e.2.1 (by simp [Bad])
  · cases h2 : evaluate n d' <;> rw [h2] at e <;> simp only [RR] at e
    exact .inr (by rw [e])

/-- **COUNTEREXAMPLE to the sharper statement** "either run declines, or the outcomes are related": the expression
    `{a: upper('Ā'), b: sum(@) && pad_left('x', `200000`, ' ')}` on the two map-ordered arrays above.  On the left
    `sum` answers, so field `b` ends in the model's "unmodelled: padding wider than …"; on the right `sum` declines, and
    the multi-select reports field `a`'s "unmodelled: case mapping of a non-ASCII letter" — two different ways of the
    model making no claim.  Neither run declines, the outcomes are not related. -/
theorem congr_all_sharp_false {nf : Bool} : TCongrN nf (desugar cexNode) ∧ VR nf exEnum exEnum' ∧
    ¬ RN (VR nf) (evaluate cexNode exEnum) (evaluate cexNode exEnum') := evaluate_rn_false

/-- … the sharper statement does hold as soon as one of the two runs ends inside the model -/
theorem evaluate_congr_all_sharp {n : INode} (hn : (desugar n).AllFloatFree) {d d' : Val} (h : VR true d d')
    (hb : ¬ (Bad (evaluate n d) ∧ Bad (evaluate n d'))) : RN (VR true) (evaluate n d) (evaluate n d') :=
  evaluate_rn_of_not_bad (tcongrN_of_fragN hn) h hb

/-- the check at one node: anything but `to_string`; valued literals -/
def fragNodeN : INode → Bool
  | .call f _ => decide (f ≠ .toString)
  | .lit v => C14CFrag.valuedB v
  | _ => true

/-- … when floats may occur: additionally no arithmetic operator -/
def fragNodeNF : INode → Bool
  | .binop op _ _ => op.isCmp
  | .call f _ => decide (f ≠ .toString)
  | .lit v => C14CFrag.valuedB v
  | _ => true

theorem allFloatFree_of_check {n : INode} (h : n.all fragNodeN = true) (hl : n.all (INode.litOk C05BLits.nfB) = true) :
    (desugar n).AllFloatFree :=
  C14CFrag.ops_of_all (fun m => fragNodeN m && INode.litOk C05BLits.nfB m)
    (fun _ _ _ _ => trivial)
    (fun f _ h => by simpa [fragNodeN, INode.litOk] using h)
    (fun _ _ => trivial)
    (fun v h => by
      simp only [fragNodeN, INode.litOk, Bool.and_eq_true] at h
      exact ⟨(C14CFrag.valuedB_iff v).mp h.1, (C05BLits.nfB_iff v).mp h.2⟩)
    n (C14CFrag.all_and _ _ n h hl)

theorem allNoArith_of_check {n : INode} (h : n.all fragNodeNF = true) : (desugar n).AllNoArith :=
  C14CFrag.ops_of_all fragNodeNF
    (fun _ _ _ h => h)
    (fun f _ h => by simpa [fragNodeNF] using h)
    (fun _ _ => trivial)
    (fun v h => (C14CFrag.valuedB_iff v).mp h)
    n h

/-- the checks on the expression text -/
def textOKN (e : Bytes) : Bool :=
  match compile e with
  | .ok n => n.all fragNodeN
  | .error _ => true
def textOKNF (e : Bytes) : Bool :=
  match compile e with
  | .ok n => n.all fragNodeNF
  | .error _ => true

/-- **`Search(text, document)` on float-free documents, every expression text without `to_string`** -/
theorem search_congr_all {e : Bytes} (he : textOKN e = true) {d d' : Val} (h : VR true d d') :
    RNW (VR true) (search e d) (search e d') := by
  unfold search
  unfold textOKN compile at he
  cases hp : Parser.parse e with
  | error err => exact RNG.of_rr (by cases err <;> simp [RR])
  | ok n =>
    rw [hp] at he
    exact evaluate_congr_all (allFloatFree_of_check he (C05BLits.parse_nfLits hp)) h

/-- **… with float leaves, every expression text without arithmetic operators and `to_string`** -/
theorem search_congr_all_float {e : Bytes} (he : textOKNF e = true) {d d' : Val} (h : VR false d d') :
    RNW (VR false) (search e d) (search e d') := by
  unfold search
  unfold textOKNF compile at he
  cases hp : Parser.parse e with
  | error err => exact RNG.of_rr (by cases err <;> simp [RR])
  | ok n =>
    rw [hp] at he
    exact evaluate_congr_all_float (allNoArith_of_check he) h

/-- the texts `avg(*)/sum(*)` and `sort(*)[0]<avg(*)` -/
def exTextN : Bytes := [0x61, 0x76, 0x67, 0x28, 0x2A, 0x29, 0x2F, 0x73, 0x75, 0x6D, 0x28, 0x2A, 0x29]
def exTextNF : Bytes := [0x73, 0x6F, 0x72, 0x74, 0x28, 0x2A, 0x29, 0x5B, 0x30, 0x5D, 0x3C, 0x61, 0x76, 0x67, 0x28, 0x2A, 0x29]

theorem exTextN_ok : textOKN exTextN = true ∧ textOKNF exTextNF = true ∧ textOKNF exTextN = false := by
  decide +kernel

example : (match compile exTextN, compile exTextNF with | .ok _, .ok _ => true | _, _ => false) = true := by
  decide +kernel

-- on `C14B`'s float-free documents and on `C14B`'s documents with floats
example : RNW (VR true) (search exTextN exDoc) (search exTextN exDoc') := search_congr_all exTextN_ok.1 exDoc_vr
example : RNW (VR false) (search exTextNF exDocF) (search exTextNF exDocF') :=
  search_congr_all_float exTextN_ok.2.1 exDocF_vr

/-! ### … and with dyadic floats, arithmetic AND `sum`/`avg`/`sort` anywhere (sections 2 and 3 combined) -/

/-- **The most general statement of this file.**  Every expression without `to_string` — `+ - * // %` within the
    budget of section 2, comparisons, every other builtin including `sum`, `avg`, `sort`, all projections — on two
    documents that differ only in the Go types carrying their numbers, `float64`/`float32` included, every float a
    dyadic of grade `B`: either run declines (`.nondet`), or both runs end outside the model, or the same failure /
    results equal up to representation. -/
theorem evaluate_congr_dyadic_all {n : INode} (hn : (desugar n).AllFloatFree) {B : Gr}
    (hb : budget dyGrading (desugar n) B = true) {d d' : Val} (h : VR false d d') (hf : AllF (DyF B) d)
    (hf' : AllF (DyF B) d') : RNW (VR false) (evaluate n d) (evaluate n d') :=
  evaluate_congr_graded_all dyGrading hn hb h hf hf'

/-- … every float of every intermediate result is a dyadic of the grade computed by `grade` -/
theorem evaluate_dyadic_exact_all {n : INode} (hn : (desugar n).AllFloatFree) {B : Gr}
    (hb : budget dyGrading (desugar n) B = true) {d w : Val} (hf : AllF (DyF B) d) (h : evaluate n d = .ok w) :
    AllF (DyF (grade dyGrading (desugar n) B)) w :=
  evaluate_graded_exact_all dyGrading hn hb hf h

/-- … in terms of answers: a value on one side is matched by a value equal up to representation on the other side,
    unless that side declines -/
theorem evaluate_value_dyadic_all {n : INode} (hn : (desugar n).AllFloatFree) {B : Gr}
    (hb : budget dyGrading (desugar n) B = true) {d d' : Val} (h : VR false d d') (hf : AllF (DyF B) d)
    (hf' : AllF (DyF B) d') {v : Val} (hv : evaluate n d = .ok v) :
    evaluate n d' = .nondet ∨ ∃ v', evaluate n d' = .ok v' ∧ VR false v v' :=
  evaluate_value_graded_all dyGrading hn hb h hf hf' hv

/-- the check on the expression text -/
def textOKDyN (B : Gr) (e : Bytes) : Bool :=
  match compile e with
  | .ok n => n.all fragNodeN && budget dyGrading (desugar n) B
  | .error _ => true

/-- **`Search(text, document)`, every text without `to_string` that is within budget for the grade `B`** -/
theorem search_congr_dyadic_all {B : Gr} {e : Bytes} (he : textOKDyN B e = true) {d d' : Val} (h : VR false d d')
    (hf : AllF (DyF B) d) (hf' : AllF (DyF B) d') : RNW (VR false) (search e d) (search e d') := by
  unfold search
  unfold textOKDyN compile at he
  cases hp : Parser.parse e with
  | error err => exact RNG.of_rr (by cases err <;> simp [RR])
  | ok n =>
    rw [hp] at he
    simp only [Bool.and_eq_true] at he
    exact evaluate_congr_dyadic_all (allFloatFree_of_check he.1 (C05BLits.parse_nfLits hp)) he.2 h hf hf'

/-- the text `avg([a*b,c])<sum(sort([c,a+b]))` -/
def exTextYN : Bytes := [0x61, 0x76, 0x67, 0x28, 0x5B, 0x61, 0x2A, 0x62, 0x2C, 0x63, 0x5D, 0x29, 0x3C, 0x73, 0x75, 0x6D,
  0x28, 0x73, 0x6F, 0x72, 0x74, 0x28, 0x5B, 0x63, 0x2C, 0x61, 0x2B, 0x62, 0x5D, 0x29, 0x29]

theorem exTextYN_ok : textOKDyN ⟨2, 3⟩ exTextYN = true ∧ textOKDy ⟨2, 3⟩ exTextYN = false := by decide +kernel

example : (match compile exTextYN with | .ok _ => true | .error _ => false) = true := by decide +kernel

-- on the documents of section 2 ({a: 0.375, b: 1.5, c: 2.25} as floats / as json.Number and decimal)
example : RNW (VR false) (search exTextYN exDocY) (search exTextYN exDocY') :=
  search_congr_dyadic_all exTextYN_ok.1 exDocY_vr exDocY_small.1 exDocY_small.2

/-- **`to_string` of a `float64`/`float32` is outside the model**: the model has no float formatting (`strconv`'s
    shortest round-trip digits), it answers `unmodelled` — so no statement about `to_string(7.0)` printing `7` can be
    made (or refuted) here.  On the Go side: `to_string` prints `7` for `float64(7)`, `float32(7)`, `int8(7)` and the
    decimal `7.0`, but `7.0` for `json.Number("7.0")` — the deviation recorded in `C14` (it prints a `json.Number`'s
    spelling). -/
theorem to_string_float_unmodelled (f : F64) :
    applyFn .toString [.num (.f64 f)] = .unmodelled "float formatting" ∧
      applyFn .toString [.num (.f32 f)] = .unmodelled "float formatting" := ⟨rfl, rfl⟩

example : applyFn .toString [fInt false 7] = .unmodelled "float formatting" := (to_string_float_unmodelled _).1

end C14E
end Jmes

section AxiomCheck
open Jmes.C14E
end AxiomCheck
