/-
  C11 (third wave) — "renaming characters consistently (e.g. ASCII letters to multi-byte letters in order) in
  expression and data renames the result the same way", for the WHOLE evaluator, and the leftmost-first
  characterisation of `split`.

  ## A. renaming, evaluator level

  A renaming is a strictly monotone map `f` on code points (`C11R.Mono f`).  No non-trivial `f` sends all scalar values to
  scalar values (a strictly increasing self-map of a finite chain is the identity), so everything is relative to the strings
  `f` CAN rename: `rnB f s` (valid UTF-8, renamed code points are scalar values), `RnV f v` for values (every string and
  every object key), `RenOK f n` for expression nodes.  The running instance `C11R.shift` (c ↦ c + 0x350: Latin → Greek /
  Cyrillic, 1-byte letters become 2-byte letters) renames every string whose code points are below U+D4B0.

    * `renV f`  renames a value (strings, object keys; `C11BRenameLemmas`);
    * `renN f`  renames an expression node: literals, field names, multi-select keys; variable names, indices,
                slice bounds and the shape stay;
    * `renE f`  renames the values bound to variables.

  `ieval_rename` / `evaluate_rename`: the renamed expression on the renamed data gives the renamed outcome — the same error
  categories, `nondet ↦ nondet`, `unmodelled ↦ unmodelled`, a value ↦ the renamed value — and (`…_renamable`) the value
  can be renamed again.

  COVERAGE.  Every node type of the evaluator is covered (field, index, slices, all projections, filters, flatten, pipe,
  multi-select list/hash, `let`/variables, `&&`, `||`, `!`, the comparison and arithmetic operators, `sort_by`, `max_by`,
  `min_by`, `group_by`, `map`, `merge`, `not_null`, `zip`) and every eager builtin EXCEPT the ones excluded by `fnOK`,
  which really are not equivariant:
      lower, upper            (case mapping is not invariant under a monotone renaming),
      to_number               (reads ASCII digits),
      to_string               (writes JSON punctuation / escapes around and inside the text),
      type                    (returns a fixed ASCII word),
      trim(s), trim_left(s), trim_right(s)        (the built-in Unicode white-space set is not renamed),
      pad_left(s, w), pad_right(s, w)             (the built-in pad character U+0020 is not renamed).
  Side conditions (`renHead`): `trim(s, cut)`, `trim_left(s, cut)`, `trim_right(s, cut)` are covered when `cut` is a non-empty
  string literal (an empty cutset falls back to the white-space set); the step of `[a:b:c]` is a non-zero Go `int`
  (`c ≠ 0`, `-2^63 ≤ c`: exactly what the parser produces; `MinInt` included, with no bound on the length of strings).

  ## B. renaming, text level

  `search_rename_text`: two expression texts whose (well-formed) parse trees have nodes related by `renN`;
  `search_rename_tree`: the renamed tree obtained by a token substitution on atoms and multi-select keys (`renT`),
  e.g. `foo[?a == 'x'].b`  ↦  `"ζοο"[?"α" == 'ψ']."β"`.

  ## C. `split` is leftmost-first

  `C11B.splitOn_join` + `C11B.splitOn_no_sep` admit both ["", "a"] and ["a", ""] for "aaa" split on "aa"; the theorems
  of section C pin the leftmost reading (the spec of Go's `strings.Split` / `SplitN`), on any lists (bytes or code
  points) and for the builtin in code points.
-/
import Jmes.Proofs.C11CEvalLemmas
import Jmes.Proofs.C11CTextLemmas
import Jmes.Proofs.C11CSplitLemmas
namespace Jmes.C11C
open Jmes Jmes.Utf8 Jmes.C11 Jmes.C11S Jmes.C11R Jmes.C11V Jmes.Invar Jmes.Grammar

/-! ## A. the evaluator -/

/-- **C11, renaming, evaluator step.** For a strictly monotone renaming `f`, root / current value / bindings whose
    strings can all be renamed and an expression node satisfying `RenOK` (see the header: only the non-equivariant
    builtins are excluded), evaluating the RENAMED node on the RENAMED root, current value and bindings gives the RENAMED
    outcome: the same error categories, `nondet ↦ nondet`, a value ↦ the renamed value.  All numbers in the expression
    (indices, slice bounds, widths, counts) and in the result (lengths, positions) are unchanged, although every byte
    offset and byte length changes. -/
theorem ieval_rename {f : Nat → Nat} (hm : Mono f) {root cur : Val} {env : Env} {n : INode}
    (hroot : RnV f root = true) (hcur : RnV f cur = true) (henv : RnE f env = true) (hn : RenOK f n = true) :
    ieval (renV f root) (renN f n) (renV f cur) (renE f env) = mapRes (renV f) (ieval root n cur env) := by
  rw [mapRes_eq_mapO]; exact (ieval_rr hm hroot n cur env hn hcur henv).eq

/-- … and a value of the original run can itself be renamed (so renamings compose and the theorem can be applied to
    the result again) -/
theorem ieval_renamable {f : Nat → Nat} (hm : Mono f) {root cur : Val} {env : Env} {n : INode}
    (hroot : RnV f root = true) (hcur : RnV f cur = true) (henv : RnE f env = true) (hn : RenOK f n = true)
    {v : Val} (h : ieval root n cur env = .ok v) : RnV f v = true :=
  (ieval_rr hm hroot n cur env hn hcur henv).inv v h

/-- **C11, renaming, `Expression.Search`.** `evaluate (renN f n) (renV f d) = mapRes (renV f) (evaluate n d)`. -/
theorem evaluate_rename {f : Nat → Nat} (hm : Mono f) {n : INode} {d : Val} (hd : RnV f d = true)
    (hn : RenOK f n = true) : evaluate (renN f n) (renV f d) = mapRes (renV f) (evaluate n d) :=
  ieval_rename hm (env := []) hd hd rfl hn

theorem evaluate_renamable {f : Nat → Nat} (hm : Mono f) {n : INode} {d v : Val} (hd : RnV f d = true)
    (hn : RenOK f n = true) (h : evaluate n d = .ok v) : RnV f v = true :=
  ieval_renamable hm (env := []) hd hd rfl hn h

/-- spelled out: a value is renamed, an error keeps its categories, an order-dependent outcome stays order-dependent -/
theorem evaluate_rename_cases {f : Nat → Nat} (hm : Mono f) {n : INode} {d : Val} (hd : RnV f d = true)
    (hn : RenOK f n = true) :
    (∀ v, evaluate n d = .ok v → evaluate (renN f n) (renV f d) = .ok (renV f v)) ∧
    (∀ cs, evaluate n d = .err cs → evaluate (renN f n) (renV f d) = .err cs) ∧
    (evaluate n d = .nondet → evaluate (renN f n) (renV f d) = .nondet) := by
  have h := evaluate_rename hm hd hn
  refine ⟨fun v e => ?_, fun cs e => ?_, fun e => ?_⟩ <;> rw [h, e] <;> rfl

/-- the inputs of the renamed run are again valid UTF-8 throughout: `renB` always produces valid UTF-8, and a
    value that can be renamed is valid (`rn_valid`) -/
theorem renamed_valid {f : Nat → Nat} (s : Bytes) : validUTF8 (renB f s) = true := renB_valid f s

/-! ### examples (node level) -/

/-- "héllo", "z", "é", "a" -/
def sHello : Bytes := [0x68, 0xC3, 0xA9, 0x6C, 0x6C, 0x6F]
def kName : Bytes := [0x6E]   -- "n"

/-- `[{"n": "z"}, {"n": "é"}, {"n": "a"}]` -/
def exData : Val := .arr .plain [.obj [(kName, .str [0x7A])], .obj [(kName, .str [0xC3, 0xA9])], .obj [(kName, .str [0x61])]]

/-- `sort_by(@, &n)[*].n` -/
def exNode : INode := .projectArray (.sortBy .current (.field kName)) (.field kName)

example : RnV shift exData = true := by decide
example : RenOK shift exNode = true := by decide

/-- the data renamed: keys "ξ" (n + 0x350 = U+03BE), values "ϊ", "й", "α" -/
example : renV shift exData = .arr .plain [.obj [([0xCE, 0xBE], .str [0xCF, 0x8A])], .obj [([0xCE, 0xBE], .str [0xD0, 0xB9])],
    .obj [([0xCE, 0xBE], .str [0xCE, 0xB1])]] := by rfl

/-- `sort_by(@, &n)[*].n` on the renamed data, with the field name renamed, is the renamed result: code point order
    ("a" < "z" < "é", and "α" < "ϊ" < "й") is preserved by the monotone renaming -/
example : evaluate (renN shift exNode) (renV shift exData) = mapRes (renV shift) (evaluate exNode exData) :=
  evaluate_rename shift_mono (by decide) (by decide)

/-- `split(@, 'l')` -/
def exSplit : INode := .call .split [.current, .lit (.str [0x6C])]
example : RenOK shift exSplit = true := by decide
/-- split("héllo", "l") = ["hé", "", "o"], and split("θйμμο", "μ") = ["θй", "", "ο"] by the theorem -/
example : evaluate exSplit (.str sHello) = .ok (.arr .plain [.str [0x68, 0xC3, 0xA9], .str [], .str [0x6F]]) := by rfl
example : evaluate (renN shift exSplit) (renV shift (.str sHello))
    = .ok (.arr .plain [.str [0xCE, 0xB8, 0xD0, 0xB9], .str [], .str [0xCE, 0xBF]]) := by
  rw [evaluate_rename shift_mono (by decide) (by decide)]; rfl

/-- the excluded builtins really are not equivariant: `type("a")` is "string", not the renamed "string" … -/
example : applyFn .type [renV shift (.str [0x61])] ≠ mapRes (renV shift) (applyFn .type [.str [0x61]]) := by
  intro h
  have : (match applyFn .type [renV shift (.str [0x61])] with | .ok (.str b) => some b | _ => none)
      = (match mapRes (renV shift) (applyFn .type [.str [0x61]]) with | .ok (.str b) => some b | _ => none) := by
    rw [h]
  revert this; decide +kernel
/-- … and `pad_left("a", 2)` pads with U+0020, not with the renamed space -/
example : applyFn .padSpaceLeft [renV shift (.str [0x61]), .num (.int .i64 2)]
    ≠ mapRes (renV shift) (applyFn .padSpaceLeft [.str [0x61], .num (.int .i64 2)]) := by
  intro h
  have : (match applyFn .padSpaceLeft [renV shift (.str [0x61]), .num (.int .i64 2)] with
        | .ok (.str b) => some b | _ => none)
      = (match mapRes (renV shift) (applyFn .padSpaceLeft [.str [0x61], .num (.int .i64 2)]) with
        | .ok (.str b) => some b | _ => none) := by
    rw [h]
  revert this; decide

/-! ## B. the expression text -/

/-- **C11, renaming, `Search` on expression text.** `e` and `e'` are expression texts whose tokens are the printings of
    well-formed parse trees `t`, `t'` (so they parse, to `erase t` and `erase t'`: `C04G.parse_complete`); if the node of
    `t'` is the renamed node of `t`, then searching the renamed data with `e'` gives the renamed outcome of searching the
    data with `e`. -/
theorem search_rename_text {f : Nat → Nat} (hm : Mono f) {t t' : PTree} (ht : WellPrec t) (ht' : WellPrec t')
    {e e' : Bytes} (he : C17B.Lexes e (Grammar.flatten t)) (he' : C17B.Lexes e' (Grammar.flatten t'))
    (hren : erase t' = renN f (erase t)) (hok : RenOK f (erase t) = true) {d : Val} (hd : RnV f d = true) :
    search e' (renV f d) = mapRes (renV f) (search e d) := by
  rw [(C17B.text ht he).2 d, (C17B.text ht' he').2 (renV f d), hren]
  exact evaluate_rename hm hd hok

/-- **the same with the renamed tree built by a token substitution** `σ` on the atoms (identifiers, raw string
    literals, JSON literals) and the multi-select keys of `t` (`renT`), each renamed consistently with `f` (`TokAll`:
    the renamed atom token denotes the renamed node, the renamed key token denotes the renamed key). -/
theorem search_rename_tree {f : Nat → Nat} (hm : Mono f) (σ : Token → Token) {t : PTree} (ht : WellPrec t)
    (ht' : WellPrec (renT σ t)) (htok : TokAll f σ t) {e e' : Bytes} (he : C17B.Lexes e (Grammar.flatten t))
    (he' : C17B.Lexes e' (Grammar.flatten (renT σ t))) (hok : RenOK f (erase t) = true) {d : Val}
    (hd : RnV f d = true) : search e' (renV f d) = mapRes (renV f) (search e d) :=
  search_rename_text hm ht ht' he he' (erase_renT hm t htok) hok hd

/-- the parser's node of the renamed text IS the renamed node (without evaluating) -/
theorem parse_rename_tree {f : Nat → Nat} (hm : Mono f) (σ : Token → Token) {t : PTree} (ht : WellPrec t)
    (ht' : WellPrec (renT σ t)) (htok : TokAll f σ t) {e e' : Bytes} (he : C17B.Lexes e (Grammar.flatten t))
    (he' : C17B.Lexes e' (Grammar.flatten (renT σ t))) :
    ∃ n, Parser.parse e = .ok n ∧ Parser.parse e' = .ok (renN f n) :=
  ⟨erase t, (C17B.text ht he).1, by rw [(C17B.text ht' he').1, erase_renT hm t htok]⟩

/-! ### example (text level): `foo[?a == 'x'].b`  ↦  `"ζοο"[?"α" == 'ψ']."β"` -/

/-- the substitution: an unquoted identifier `v` becomes the quoted identifier `"renB v"`, a raw string literal
    `'v'` becomes `'renB v'` (for bodies without escapes), everything else stays -/
def sigmaShift (t : Token) : Token :=
  match t.type with
  | .unquotedIdentifier => ⟨.quotedIdentifier, 0x22 :: renB shift t.value ++ [0x22]⟩
  | .stringLiteral => ⟨.stringLiteral, 0x27 :: renB shift (stripDelims t.value) ++ [0x27]⟩
  | _ => t

/-- `foo[?a == 'x'].b` -/
def exTree : PTree :=
  .filt (Ex.idt "foo") (.bin (Ex.op .equal "==") (Ex.idt "a") (.atom ⟨.stringLiteral, Ex.bs "'x'"⟩))
    (.dotId .icur (Ex.idt "b"))

def exText : Bytes := Ex.bs "foo[?a == 'x'].b"
/-- `"ζοο"[?"α" == 'ψ']."β"`, as UTF-8 bytes (27 bytes for 21 code points) -/
def exText' : Bytes := encodeAll ("\"ζοο\"[?\"α\" == 'ψ'].\"β\"".toList.map Char.toNat)

/-- `{"foo": [{"a": "x", "b": "héllo"}, {"a": "y", "b": "z"}]}` -/
def exDoc : Val := .obj [(Ex.bs "foo", .arr .plain
  [.obj [(Ex.bs "a", .str (Ex.bs "x")), (Ex.bs "b", .str sHello)],
   .obj [(Ex.bs "a", .str (Ex.bs "y")), (Ex.bs "b", .str (Ex.bs "z"))]])]

example : WellPrec exTree ∧ WellPrec (renT sigmaShift exTree) := by decide
example : C17B.Lexes exText (Grammar.flatten exTree) := by decide
example : C17B.Lexes exText' (Grammar.flatten (renT sigmaShift exTree)) := by decide +kernel
theorem exTree_tokAll : TokAll shift sigmaShift exTree := ⟨rfl, ⟨rfl, rfl⟩, trivial, rfl⟩

/-- searching the renamed document with `"ζοο"[?"α" == 'ψ']."β"` gives the renamed result of searching the document
    with `foo[?a == 'x'].b` -/
example : search exText' (renV shift exDoc) = mapRes (renV shift) (search exText exDoc) :=
  search_rename_tree shift_mono sigmaShift (t := exTree) (by decide) (by decide) exTree_tokAll (by decide)
    (by decide +kernel) (by decide) (by decide)

/-- … namely `["héllo"]` and `["θйμμο"]` -/
example : search exText exDoc = .ok (.arr .plain [.str sHello]) := by
  rw [(C17B.text (t := exTree) (by decide) (by decide)).2]; rfl
example : mapRes (renV shift) (.ok (.arr .plain [.str sHello]))
    = .ok (.arr .plain [.str [0xCE, 0xB8, 0xD0, 0xB9, 0xCE, 0xBC, 0xCE, 0xBC, 0xCE, 0xBF]]) := by rfl

/-! ## C. `split` cuts at the LEFTMOST occurrences -/

open Split in
/-- **separator absent**: a non-empty separator that does not occur in `s` leaves `s` whole, whatever the limit -/
theorem splitOn_absent (s p : List Nat) (n : Option Nat) (hp : p ≠ []) (h : ∀ a r, s ≠ a ++ p ++ r) :
    splitOn s p n = [s] := Split.splitOn_absent s p n hp h

example : splitOn [1, 2, 3] [3, 2] none = [[1, 2, 3]] :=
  splitOn_absent _ _ _ (by decide) ((Split.absent_iff_indexOf _ _).2 (by decide))

/-- **first occurrence**: if `s = a ++ p ++ rest` and `a` is the SHORTEST prefix of `s` that is followed by `p`
    (`p` does not occur in `a ++ p` except at the very end), the first piece is `a` and the other pieces are the pieces
    of `rest` — the recursive specification of `strings.Split`; with a limit, one cut is spent -/
theorem splitOn_first (s p a rest : List Nat) (hp : p ≠ []) (hs : s = a ++ p ++ rest)
    (hmin : ∀ a' r', s = a' ++ p ++ r' → a.length ≤ a'.length) :
    splitOn s p none = a :: splitOn rest p none ∧
    ∀ k, splitOn s p (some (k + 1)) = a :: splitOn rest p (some k) :=
  ⟨Split.splitOn_first s p a rest hp hs hmin, fun k => Split.splitOn_first_limit s p a rest k hp hs hmin⟩

/-- "aaa" on "aa": the first piece is "", the rest is the split of "a" -/
example : splitOn [0x61, 0x61, 0x61] [0x61, 0x61] none = [] :: splitOn [0x61] [0x61, 0x61] none :=
  (splitOn_first [0x61, 0x61, 0x61] [0x61, 0x61] [] [0x61] (by decide) rfl (fun _ _ _ => Nat.zero_le _)).1

/-- "shortest prefix followed by `p`" is "`strings.Index(s, p)` is the length of that prefix" -/
theorem first_iff_indexOf (s p a rest : List Nat) (hs : s = a ++ p ++ rest) :
    (∀ a' r', s = a' ++ p ++ r' → a.length ≤ a'.length) ↔ indexOf s p = some a.length :=
  Split.first_iff_indexOf s p a rest hs

example : indexOf [0x61, 0x61, 0x61] [0x61, 0x61] = some 0 := by decide

/-- **the specification is complete**: `Split.LeftmostSplit p n s out` (absent / limit exhausted / first occurrence then
    recursively) holds of exactly one `out`, the one the model computes -/
theorem leftmostSplit_iff (p s : List Nat) (n : Option Nat) (out : List (List Nat)) (hp : p ≠ []) :
    Split.LeftmostSplit p n s out ↔ out = splitOn s p n := Split.leftmostSplit_iff p s n out hp

/-- "aaa" on "aa" is ["", "a"]; ["a", ""] — which `splitOn_join` and `splitOn_no_sep` also admit — is not a leftmost split -/
example : splitOn [0x61, 0x61, 0x61] [0x61, 0x61] none = [[], [0x61]] ∧
    ¬ Split.LeftmostSplit [0x61, 0x61] none [0x61, 0x61, 0x61] [[0x61], []] :=
  ⟨by decide, Split.aaa_not_rightmost⟩

/-- **`split(s, sep)` cuts at the leftmost occurrences IN CODE POINTS**: the result is the array of the encodings of the
    unique leftmost split of the code points of `s` on the code points of `sep` -/
theorem split_leftmost (cs ps : List Nat) (hcs : Scalars cs) (hps : Scalars ps) (hc : cs ≠ []) (hp : ps ≠ []) :
    ∃ pieces, Split.LeftmostSplit ps none cs pieces ∧ (∀ q, Split.LeftmostSplit ps none cs q → q = pieces) ∧
      split (.str (encodeAll cs)) (.str (encodeAll ps)) = .ok (strsToArr (pieces.map encodeAll)) :=
  Split.split_leftmost_unique cs ps hcs hps hc hp

/-- `split(s, sep, n)`, `n > 0` in any numeric representation: at most `n` cuts, at the leftmost occurrences -/
theorem split_count_leftmost (cs ps : List Nat) (hcs : Scalars cs) (hps : Scalars ps) (hc : cs ≠ []) (hp : ps ≠ [])
    {v : Val} {n : Int} (hv : intArg v = .ok n) (hn : 0 < n)
    (pieces : List (List Nat)) (h : Split.LeftmostSplit ps (some n.toNat) cs pieces) :
    splitCount (.str (encodeAll cs)) (.str (encodeAll ps)) v = .ok (strsToArr (pieces.map encodeAll)) :=
  Split.split_count_leftmost cs ps hcs hps hc hp hv hn pieces h

/-- "ééé" (3 code points, 6 bytes) on "éé": "" and "é" -/
example : split (.str [0xC3, 0xA9, 0xC3, 0xA9, 0xC3, 0xA9]) (.str [0xC3, 0xA9, 0xC3, 0xA9])
    = .ok (.arr .plain [.str [], .str [0xC3, 0xA9]]) :=
  Split.split_leftmost [0xE9, 0xE9, 0xE9] [0xE9, 0xE9] (by unfold Scalars; decide) (by unfold Scalars; decide)
    (by decide) (by decide) [[], [0xE9]]
    ((Split.leftmostSplit_iff [0xE9, 0xE9] [0xE9, 0xE9, 0xE9] none _ (by decide)).2 (by decide))

end Jmes.C11C
