/-
  C05, second round — the gaps an independent review found in Jmes/Properties/C05.lean:

  §1  representable values (`Representable`) and representation-independent operands (`NumIs`): JSON number TEXT, decimals and
      integers all *denote* `(-1)^n · C · 10^E`;
  §2  evaluator-level exactness: `applyBinOp` for `+ - * / // %` returns the exact decimal result whenever it is
      representable (composition parse ∘ toDecimal ∘ arith ∘ Dec.*);  `//` and `%` pinned for operands of equal sign;
  §3  unary minus / plus, `abs`, `ceil`, `floor`, `to_number`, and the six comparisons, at the evaluator level;
  §4  "no value is routed through binary floating point" for *compiled expressions*: every literal the parser builds is
      float-free, hence `search e d` on a float-free document is float-free;
  §5  `sum` / `avg`: exact when every partial sum is representable — and the property's clause "exact whenever the
      result has ≤ 34 digits" is FALSE for `sum` (`sum([1e40, 1, -1e40]) = 0`), as is "within one unit of the 34th
      digit" (`sum([2e34, 1 ×11]) = 2e34`, off by 11 units of the 35th digit = 1.1 units of the 34th);
  §6  underflow: below `EMIN` results are correctly rounded to a multiple of `10^EMIN` (absolute error ≤ 10^EMIN/2) with
      NO error reported — fewer than 34 significant digits survive (`1e-6170 / 3 = 3.33333e-6171`,
      `1e-6143 * 1e-40 = 0`);
  §7  NaN / ±Inf never arise from finite operands (every operator and function), and the unary functions and
      `max`/`min` pass NaN / ±Inf decimal INPUTS through unchanged;
  §8  glue from `applyBinOp` / `applyFn` to `ieval`, `evaluate`, `search`.

  A finite decimal `fin n c e` denotes `(-1)^n · c · 10^e`; `sval n c e m` is its signed coefficient written at a lower
  exponent `m`; `Rep m r S` says `r` is the canonical decimal of the integer `S` in units of `10^m` (a zero of either
  sign when `S = 0`).
-/
import Jmes.Properties.C05
import Jmes.Proofs.C05BLemmas
import Jmes.Proofs.C05BUnderflow
import Jmes.Proofs.C05BLits
namespace Jmes.C05B
open Jmes.Dec

/-! ## 1. representable values; operands by value -/

/-- **`reduce` returns every representable value exactly.**  `Representable c e`: some coefficient `c0 ≤ MAXSIG` (in particular
    any coefficient of at most 34 digits) at an exponent in `[EMIN, EMAX]` denotes `c·10^e` — `c` may be long because of
    trailing zeros, `e` may be below `EMIN` or above `EMAX` as long as the zeros / the room in the coefficient absorb
    it.  This replaces the side conditions `c ≤ MAXSIG`, `EMIN ≤ e ≤ EMAX` of C05.reduce_exact by the weakest one. -/
theorem reduce_representable (neg : Bool) (c : Nat) (e : Int) (h : Representable c e) :
    reduce neg c e false = normalize (.fin neg c e) := reduce_fits neg c e h

/-- at most 34 significant digits at an exponent in range are representable -/
theorem fits_34_digits {c : Nat} {e : Int} (hc : c < 10 ^ 34) (hlo : EMIN ≤ e) (hhi : e ≤ EMAX) : Representable c e :=
  fits_34 hc hlo hhi

/-- representability depends on the value only -/
theorem fits_value (c t : Nat) (e : Int) : Representable (c * 10 ^ t) e ↔ Representable c (e + (t : Int)) := fits_shift c t e

example : reduce false (7 * 10 ^ 50) (-50) = normalize (.fin false (7 * 10 ^ 50) (-50)) :=
  reduce_representable _ _ _ ⟨7, 0, 50, rfl, by decide, by decide, by decide⟩
example : reduce false 1 (EMAX + 33) = .fin false 1 (EMAX + 33) := by decide
example : Representable 1 (EMAX + 33) := ⟨10 ^ 33, 33, 0, by simp, by decide, by decide, by decide⟩

/-- `x` is a number whose decimal reading is finite with sign `n` and value `C·10^E` — whatever the representation
    (`"2.50"`, `25e-1` and `Decimal(2.5)` all satisfy `NumIs · false 25 (-1)`). -/
def NumIs (x : Val) (n : Bool) (C : Nat) (E : Int) : Prop := ∃ d, toDecimal x = some d ∧ Denotes d n C E

/-- the reviewer's form: `toDecimal x = some (fin n c e)` -/
theorem numIs_of_toDecimal {x : Val} {n : Bool} {c : Nat} {e : Int} (h : toDecimal x = some (.fin n c e)) :
    NumIs x n c e := ⟨_, h, denotes_fin n c e⟩

/-- a decimal operand denotes itself -/
theorem numIs_dec (n : Bool) (c : Nat) (e : Int) : NumIs (.num (.dec (.fin n c e))) n c e :=
  numIs_of_toDecimal rfl

/-- Go integers of every kind and size -/
theorem numIs_int (k : IntKind) (i : Int) : NumIs (.num (.int k i)) (decide (i < 0)) i.natAbs 0 :=
  ⟨_, rfl, denotes_ofInt i⟩

/-- **json.Number operands given by their TEXT** `[-]int[.frac][(e|E)[+|-]digits]`: the text denotes
    `(-1)^neg · (int ++ frac) · 10^(exp − |frac|)` exactly (by `C05.parse_exact`: digit string `≤ MAXSIG` — e.g. at most
    34 digits — and exponent in range). -/
theorem numIs_text (neg : Bool) (b : Nat) (ip fp : Bytes) (ex : Option (Bool × Option Bool × Bytes))
    (hd : ∀ x ∈ b :: ip, isDigit x = true) (hf : ∀ x ∈ fp, isDigit x = true)
    (hx : ∀ u sg ep, ex = some (u, sg, ep) → ep ≠ [] ∧ (∀ x ∈ ep, isDigit x = true) ∧ dval 0 ep ≤ 6189)
    (hC : dval 0 ((b :: ip) ++ fp) ≤ MAXSIG) (hlo : EMIN ≤ C05.numTextExp fp ex) (hhi : C05.numTextExp fp ex ≤ EMAX) :
    NumIs (.num (.jnum (C05.numText neg (b :: ip) fp ex))) neg (dval 0 ((b :: ip) ++ fp)) (C05.numTextExp fp ex) := by
  refine ⟨_, ?_, denotes_normalize neg _ _⟩
  rw [C05.toDecimal_jnum, C05.parse_exact neg b ip fp ex hd hf hx hC hlo hhi]

/-- … in particular every text of at most 34 digits -/
theorem numIs_text_34 (neg : Bool) (b : Nat) (ip fp : Bytes) (ex : Option (Bool × Option Bool × Bytes))
    (hd : ∀ x ∈ b :: ip, isDigit x = true) (hf : ∀ x ∈ fp, isDigit x = true)
    (hx : ∀ u sg ep, ex = some (u, sg, ep) → ep ≠ [] ∧ (∀ x ∈ ep, isDigit x = true) ∧ dval 0 ep ≤ 6189)
    (h34 : (b :: ip).length + fp.length ≤ 34) (hlo : EMIN ≤ C05.numTextExp fp ex) (hhi : C05.numTextExp fp ex ≤ EMAX) :
    NumIs (.num (.jnum (C05.numText neg (b :: ip) fp ex))) neg (dval 0 ((b :: ip) ++ fp)) (C05.numTextExp fp ex) := by
  refine numIs_text neg b ip fp ex hd hf hx (dval_le_MAXSIG_of_length ?_ (by simp at h34 ⊢; omega)) hlo hhi
  intro x hx'
  rcases List.mem_append.mp hx' with h | h
  · exact hd x h
  · exact hf x h

-- "2.50" denotes 250·10^-2 (and is stored as 25·10^-1)
example : NumIs (.num (.jnum [0x32, 0x2E, 0x35, 0x30])) false 250 (-2) :=
  numIs_text_34 false 0x32 [] [0x35, 0x30] none (by decide) (by decide) (by simp) (by decide) (by decide) (by decide)
example : toDecimal (.num (.jnum [0x32, 0x2E, 0x35, 0x30])) = some (.fin false 25 (-1)) := by decide

/-- a value that reads as a decimal is a number -/
theorem NumIs.isNum {x : Val} {n : Bool} {C : Nat} {E : Int} (h : NumIs x n C E) : ∃ nx, x = .num nx := by
  obtain ⟨d, hd, _⟩ := h
  cases x <;> simp [toDecimal] at hd ⊢

/-- an exact result is a finite decimal -/
theorem rep_fin {m : Int} {r : Dec} {S : Int} (h : Rep m r S) : ∃ n c e, r = .fin n c e := by
  rcases h with ⟨_, b, rfl⟩ | ⟨_, rfl⟩
  · exact ⟨b, 0, 0, rfl⟩
  · obtain ⟨_, _, c', e', h⟩ := C05.normalize_same_value (decide (S < 0)) S.natAbs m
    exact ⟨_, c', e', h⟩

/-- the NaN/Inf check lets a canonical finite decimal through -/
theorem checkD_normalize (n : Bool) (c : Nat) (e : Int) :
    checkD (normalize (.fin n c e)) = .ok (.num (.dec (normalize (.fin n c e)))) := by
  obtain ⟨_, _, c', e', h⟩ := C05.normalize_same_value n c e
  rw [h]; rfl

/-- a non-zero `Rep` is the canonical decimal itself -/
theorem rep_ne_zero {m : Int} {r : Dec} {S : Int} (h : Rep m r S) (hS : S ≠ 0) :
    r = normalize (.fin (decide (S < 0)) S.natAbs m) := by
  rcases h with ⟨h0, _⟩ | ⟨_, h⟩
  · exact absurd h0 hS
  · exact h

/-! ## 2. `+ - * / // %` through the evaluator -/

/-- the decimal path of `arith` for operands by value -/
theorem arith_numIs {fop : F64 → F64 → F64} {dop : Dec → Dec → Dec} {x y : Val} (hnf : x.NoFloat ∨ y.NoFloat)
    {d1 d2 : Dec} (hx : toDecimal x = some d1) (hy : toDecimal y = some d2) : arith fop dop x y = checkD (dop d1 d2) :=
  C05.arith_decimal (C05.no_float_pair hnf) hx hy

/-- **`x + y` is exact**: operands denoting `(-1)^n1·C1·10^E1` and `(-1)^n2·C2·10^E2` (not both floats), `m` any
    exponent below both, `S` the exact sum in units of `10^m`; if `|S|·10^m` is representable, the evaluator returns
    the canonical decimal of `S·10^m`. -/
theorem add_exact_eval {x y : Val} (hnf : x.NoFloat ∨ y.NoFloat) {n1 n2 : Bool} {C1 C2 : Nat} {E1 E2 : Int}
    (hx : NumIs x n1 C1 E1) (hy : NumIs y n2 C2 E2) (m : Int) (hm1 : m ≤ E1) (hm2 : m ≤ E2) (S : Int)
    (hS : S = sval n1 C1 E1 m + sval n2 C2 E2 m) (hfit : Representable S.natAbs m) :
    ∃ r, applyBinOp .add x y = .ok (.num (.dec r)) ∧ Rep m r S := by
  obtain ⟨d1, hd1, hD1⟩ := hx
  obtain ⟨d2, hd2, hD2⟩ := hy
  have hrep := add_den hD1 hD2 m hm1 hm2 S hS hfit
  refine ⟨_, ?_, hrep⟩
  show arith _ _ x y = _
  rw [arith_numIs hnf hd1 hd2]
  obtain ⟨n, c, e, h⟩ := rep_fin hrep
  rw [h]; rfl

/-- the same with the result spelled out, for a non-zero sum -/
theorem add_exact_eval_ne {x y : Val} (hnf : x.NoFloat ∨ y.NoFloat) {n1 n2 : Bool} {C1 C2 : Nat} {E1 E2 : Int}
    (hx : NumIs x n1 C1 E1) (hy : NumIs y n2 C2 E2) (m : Int) (hm1 : m ≤ E1) (hm2 : m ≤ E2) (S : Int)
    (hS : S = sval n1 C1 E1 m + sval n2 C2 E2 m) (hfit : Representable S.natAbs m) (hne : S ≠ 0) :
    applyBinOp .add x y = .ok (.num (.dec (normalize (.fin (decide (S < 0)) S.natAbs m)))) := by
  obtain ⟨r, h, hr⟩ := add_exact_eval hnf hx hy m hm1 hm2 S hS hfit
  rw [h, rep_ne_zero hr hne]

-- "0.1" + "0.2" = 0.3 : both operands json.Number texts
example : applyBinOp .add (.num (.jnum [0x30, 0x2E, 0x31])) (.num (.jnum [0x30, 0x2E, 0x32])) =
    .ok (.num (.dec (normalize (.fin false 3 (-1))))) :=
  add_exact_eval_ne (Or.inl (Val.noFloat_jnum _))
    (numIs_text_34 false 0x30 [] [0x31] none (by decide) (by decide) (by simp) (by decide) (by decide) (by decide))
    (numIs_text_34 false 0x30 [] [0x32] none (by decide) (by decide) (by simp) (by decide) (by decide) (by decide))
    (-1) (by decide) (by decide) 3 (by decide) (fits_34 (by decide) (by decide) (by decide)) (by decide)
example : normalize (.fin false 3 (-1)) = .fin false 3 (-1) := by decide

/-- **`x - y` is exact** -/
theorem sub_exact_eval {x y : Val} (hnf : x.NoFloat ∨ y.NoFloat) {n1 n2 : Bool} {C1 C2 : Nat} {E1 E2 : Int}
    (hx : NumIs x n1 C1 E1) (hy : NumIs y n2 C2 E2) (m : Int) (hm1 : m ≤ E1) (hm2 : m ≤ E2) (S : Int)
    (hS : S = sval n1 C1 E1 m - sval n2 C2 E2 m) (hfit : Representable S.natAbs m) :
    ∃ r, applyBinOp .sub x y = .ok (.num (.dec r)) ∧ Rep m r S := by
  obtain ⟨d1, hd1, hD1⟩ := hx
  obtain ⟨d2, hd2, hD2⟩ := hy
  have hrep := sub_den hD1 hD2 m hm1 hm2 S hS hfit
  refine ⟨_, ?_, hrep⟩
  show arith _ _ x y = _
  rw [arith_numIs hnf hd1 hd2]
  obtain ⟨n, c, e, h⟩ := rep_fin hrep
  rw [h]; rfl

-- 1 - 1.1 = -0.1 (an int64 and a decimal)
example : ∃ r, applyBinOp .sub (.num (.int .i64 1)) (.num (.dec (.fin false 11 (-1)))) = .ok (.num (.dec r)) ∧
    Rep (-1) r (-1) :=
  sub_exact_eval (Or.inl (Val.noFloat_int _ _)) (numIs_int .i64 1) (numIs_dec false 11 (-1)) (-1) (by decide) (by decide)
    (-1) (by decide) (fits_34 (by decide) (by decide) (by decide))

/-- **`x * y` is exact** whenever the exact product `C1·C2·10^(E1+E2)` is representable (zero operands included) -/
theorem mul_exact_eval {x y : Val} (hnf : x.NoFloat ∨ y.NoFloat) {n1 n2 : Bool} {C1 C2 : Nat} {E1 E2 : Int}
    (hx : NumIs x n1 C1 E1) (hy : NumIs y n2 C2 E2) (hfit : Representable (C1 * C2) (E1 + E2)) :
    applyBinOp .mul x y = .ok (.num (.dec (normalize (.fin (n1 != n2) (C1 * C2) (E1 + E2))))) := by
  obtain ⟨d1, hd1, hD1⟩ := hx
  obtain ⟨d2, hd2, hD2⟩ := hy
  show arith _ _ x y = _
  rw [arith_numIs hnf hd1 hd2, mul_den hD1 hD2 hfit, checkD_normalize]

-- 1.1 * -1.1 = -1.21
example : applyBinOp .mul (.num (.dec (.fin false 11 (-1)))) (.num (.dec (.fin true 11 (-1)))) =
    .ok (.num (.dec (normalize (.fin true 121 (-2))))) :=
  mul_exact_eval (Or.inl (Val.noFloat_dec _)) (numIs_dec _ _ _) (numIs_dec _ _ _) (fits_34 (by decide) (by decide) (by decide))

/-- **`x / y` is exact** whenever the exact quotient is representable: `Q·10^T` with `C1·10^a = Q·C2·10^b`,
    `T = E1 − E2 − a + b`, `Q ≤ MAXSIG`, `T` in range (`a`, `b` are free: they say where the quotient's digits sit). -/
theorem div_exact_eval {x y : Val} (hnf : x.NoFloat ∨ y.NoFloat) {n1 n2 : Bool} {C1 C2 : Nat} {E1 E2 : Int}
    (hx : NumIs x n1 C1 E1) (hy : NumIs y n2 C2 E2) (hC1 : C1 ≠ 0) (hC2 : C2 ≠ 0) (Q a b : Nat)
    (hq : C1 * 10 ^ a = Q * C2 * 10 ^ b) (hQ : Q ≤ MAXSIG)
    (hlo : EMIN ≤ E1 - E2 - (a : Int) + (b : Int)) (hhi : E1 - E2 - (a : Int) + (b : Int) ≤ EMAX) :
    applyBinOp .div x y = .ok (.num (.dec (normalize (.fin (n1 != n2) Q (E1 - E2 - (a : Int) + (b : Int)))))) := by
  obtain ⟨d1, hd1, hD1⟩ := hx
  obtain ⟨d2, hd2, hD2⟩ := hy
  show arith _ _ x y = _
  rw [arith_numIs hnf hd1 hd2, quo_den hD1 hD2 hC1 hC2 Q a b hq hQ hlo hhi, checkD_normalize]

/-- `0 / y`, `y ≠ 0` -/
theorem div_zero_left_eval {x y : Val} (hnf : x.NoFloat ∨ y.NoFloat) {n1 n2 : Bool} {C2 : Nat} {E1 E2 : Int}
    (hx : NumIs x n1 0 E1) (hy : NumIs y n2 C2 E2) (hC2 : C2 ≠ 0) :
    applyBinOp .div x y = .ok (.num (.dec (.fin (n1 != n2) 0 0))) := by
  obtain ⟨d1, hd1, hD1⟩ := hx
  obtain ⟨d2, hd2, hD2⟩ := hy
  show arith _ _ x y = _
  rw [arith_numIs hnf hd1 hd2, quo_den_zero hD1 hD2 hC2]; rfl

-- 1 / 8 = 0.125 : 1·10^3 = 125·8
example : applyBinOp .div (.num (.int .i64 1)) (.num (.int .i64 8)) = .ok (.num (.dec (normalize (.fin false 125 (-3))))) :=
  div_exact_eval (Or.inl (Val.noFloat_int _ _)) (numIs_int .i64 1) (numIs_int .i64 8) (by decide) (by decide) 125 3 0
    (by decide) (by decide) (by decide) (by decide)


/-- **`x // y` and `x % y`**, any signs: with `A`, `B` the coefficients aligned at `m = min E1 E2` (so `x = ±A·10^m`,
    `y = ±B·10^m`), `//` returns the integer `A / B` with sign `n1 ≠ n2` (truncation) and `%` returns `(A % B)·10^m` with
    the sign of the dividend, whenever these are representable. -/
theorem idiv_mod_exact_eval {x y : Val} (hnf : x.NoFloat ∨ y.NoFloat) {n1 n2 : Bool} {C1 C2 : Nat} {E1 E2 : Int}
    (hx : NumIs x n1 C1 E1) (hy : NumIs y n2 C2 E2) (hC2 : C2 ≠ 0) :
    (Representable (aligned C1 E1 (min E1 E2) / aligned C2 E2 (min E1 E2)) 0 →
      applyBinOp .idiv x y =
        .ok (.num (.dec (normalize (.fin (n1 != n2) (aligned C1 E1 (min E1 E2) / aligned C2 E2 (min E1 E2)) 0))))) ∧
    (Representable (aligned C1 E1 (min E1 E2) % aligned C2 E2 (min E1 E2)) (min E1 E2) →
      applyBinOp .mod x y =
        .ok (.num (.dec (normalize (.fin n1 (aligned C1 E1 (min E1 E2) % aligned C2 E2 (min E1 E2)) (min E1 E2)))))) := by
  obtain ⟨d1, hd1, hD1⟩ := hx
  obtain ⟨d2, hd2, hD2⟩ := hy
  obtain ⟨hq, hr⟩ := quoRem_den hD1 hD2 hC2
  constructor
  · intro hf
    show arith _ _ x y = _
    rw [arith_numIs hnf hd1 hd2, hq hf, checkD_normalize]
  · intro hf
    show arith _ _ x y = _
    rw [arith_numIs hnf hd1 hd2, hr hf, checkD_normalize]

/-- aligning a non-zero coefficient keeps it non-zero -/
theorem aligned_pos {C : Nat} (hC : C ≠ 0) (E m : Int) : 0 < aligned C E m :=
  Nat.mul_pos (Nat.pos_of_ne_zero hC) (Nat.pow_pos (by decide))

/-- **`//` and `%` pinned for operands of EQUAL sign** (where flooring and truncation agree): `x = s·A·10^m`,
    `y = s·B·10^m` with the same sign `s = (-1)^n`, so `x / y = A / B ≥ 0`.  Then
    * `x // y` is the non-negative integer `q = ⌊A / B⌋ = ⌊x / y⌋` — characterised as the greatest `z` with `z·B ≤ A` —
      exactly, whenever `q` is representable (e.g. `q < 10^34`);
    * `x % y` is `s·r·10^m` with `r = A − q·B`, `0 ≤ r < B`: the floored remainder `x − y·⌊x/y⌋`, with the sign of the
      operands, exactly whenever representable (always when `B ≤ MAXSIG` and `m` is in range). -/
theorem idiv_mod_equal_sign {x y : Val} (hnf : x.NoFloat ∨ y.NoFloat) {n : Bool} {C1 C2 : Nat} {E1 E2 : Int}
    (hx : NumIs x n C1 E1) (hy : NumIs y n C2 E2) (hC2 : C2 ≠ 0) (A B : Nat)
    (hA : A = aligned C1 E1 (min E1 E2)) (hB : B = aligned C2 E2 (min E1 E2)) :
    (Representable (A / B) 0 → applyBinOp .idiv x y = .ok (.num (.dec (normalize (.fin false (A / B) 0))))) ∧
    (Representable (A % B) (min E1 E2) → applyBinOp .mod x y = .ok (.num (.dec (normalize (.fin n (A % B) (min E1 E2)))))) ∧
    (∀ z : Nat, z * B ≤ A ↔ z ≤ A / B) ∧ A = (A / B) * B + A % B ∧ A % B < B := by
  obtain ⟨hq, hr⟩ := idiv_mod_exact_eval hnf hx hy hC2
  have hBpos : 0 < B := by rw [hB]; exact aligned_pos hC2 _ _
  subst hA; subst hB
  refine ⟨fun hf => ?_, hr, fun z => (Nat.le_div_iff_mul_le hBpos).symm, ?_, Nat.mod_lt _ hBpos⟩
  · have := hq hf
    simpa using this
  · rw [Nat.mul_comm]; exact (Nat.div_add_mod _ _).symm

-- 7.5 // 2 = 3 and 7.5 % 2 = 1.5 ; -7.5 // -2 = 3 and -7.5 % -2 = -1.5
example : applyBinOp .idiv (.num (.dec (.fin true 75 (-1)))) (.num (.dec (.fin true 2 0))) =
    .ok (.num (.dec (normalize (.fin false (75 / 20) 0)))) :=
  (idiv_mod_equal_sign (Or.inl (Val.noFloat_dec _)) (numIs_dec true 75 (-1)) (numIs_dec true 2 0) (by decide) 75 20
    (by decide) (by decide)).1 (fits_34 (by decide) (by decide) (by decide))
example : applyBinOp .mod (.num (.dec (.fin true 75 (-1)))) (.num (.dec (.fin true 2 0))) =
    .ok (.num (.dec (normalize (.fin true (75 % 20) (min (-1) 0))))) :=
  (idiv_mod_equal_sign (Or.inl (Val.noFloat_dec _)) (numIs_dec true 75 (-1)) (numIs_dec true 2 0) (by decide) 75 20
    (by decide) (by decide)).2.1 (fits_34 (by decide) (by decide) (by decide))
example : normalize (.fin false (75 / 20) 0) = .fin false 3 0 ∧
    normalize (.fin true (75 % 20) (min (-1) 0)) = .fin true 15 (-1) := by decide

/-- when the integer quotient is NOT representable it is rounded half-even, possibly ABOVE the true quotient:
    `2e40 // 3 = 6666666666666666666666666666666667e6 > 2e40 / 3` (Go returns the same
    `6.666666666666666666666666666666667e+39`).  So "`//` floors" holds only for representable quotients. -/
example : applyBinOp .idiv (.num (.dec (.fin false 2 40))) (.num (.dec (.fin false 3 0))) =
    .ok (.num (.dec (.fin false 6666666666666666666666666666666667 6))) := by
  simp only [applyBinOp, integerDivide]
  rw [arith_numIs (Or.inl (Val.noFloat_dec _)) rfl rfl,
    show (Dec.quoRem (.fin false 2 40) (.fin false 3 0)).1 = .fin false 6666666666666666666666666666666667 6 by decide]
  rfl
example : 3 * (6666666666666666666666666666666667 * 10 ^ 6) > 2 * 10 ^ 40 := by decide

/-! ## 3. unary minus / plus, `abs`, `ceil`, `floor`, `to_number`, comparison — through the evaluator -/

/-- the representation behind `Denotes`, with the sign replaced -/
theorem denotes_sign {d : Dec} {n : Bool} {C : Nat} {E : Int} (h : Denotes d n C E) (b : Bool) :
    ∃ c e, d = .fin n c e ∧ (c = 0 ↔ C = 0) ∧ Denotes (.fin b c e) b C E := by
  obtain ⟨c, e, hd, hz, _, _⟩ := h.unpack
  obtain ⟨c', e', hd', hk⟩ := h
  rw [hd] at hd'
  cases hd'
  exact ⟨c, e, hd, hz, c, e, rfl, hk⟩

/-- **unary minus is exact**: only the sign changes (and `-0` stays the zero it was, as in Go) -/
theorem negate_exact_eval {x : Val} (hnf : x.NoFloat) {n : Bool} {C : Nat} {E : Int} (hx : NumIs x n C E) :
    ∃ d, negateVal x = .num (.dec d) ∧ Denotes d (if C = 0 then n else !n) C E := by
  obtain ⟨d, hd, hD⟩ := hx
  rw [(C05.no_float_unary hnf).1, hd]
  by_cases hC : C = 0
  · obtain ⟨c, e, rfl, hz, _⟩ := denotes_sign hD n
    have hc : c = 0 := hz.mpr hC
    subst hc
    exact ⟨.fin n 0 e, by simp [Dec.isZero], by simpa [hC] using hD⟩
  · obtain ⟨c, e, rfl, hz, hD'⟩ := denotes_sign hD (!n)
    have hc : c ≠ 0 := fun h => hC (hz.mp h)
    refine ⟨.fin (!n) c e, ?_, by simpa [hC] using hD'⟩
    cases c with
    | zero => exact absurd rfl hc
    | succ c => simp [Dec.isZero, Dec.neg]

/-- the whole node: `-e` evaluates `e` and negates -/
theorem negate_node (root : Val) (c : INode) (cur : Val) (env : Env) (a : Val) (h : ieval root c cur env = .ok a) :
    ieval root (.negate c) cur env = .ok (negateVal a) := by
  simp [ieval, h]

/-- **unary plus** returns its numeric operand unchanged (a json.Number stays the text it was) -/
theorem plus_node (root : Val) (c : INode) (cur : Val) (env : Env) (a : Val) (h : ieval root c cur env = .ok a)
    {n : Bool} {C : Nat} {E : Int} (ha : NumIs a n C E) : ieval root (.assertNumber c) cur env = .ok a := by
  obtain ⟨na, rfl⟩ := ha.isNum
  simp [ieval, h, isNumber]

/-- **`abs` is exact** -/
theorem abs_exact_eval {x : Val} (hnf : x.NoFloat) {n : Bool} {C : Nat} {E : Int} (hx : NumIs x n C E) :
    ∃ d, applyFn .abs [x] = .ok (.num (.dec d)) ∧ Denotes d false C E := by
  obtain ⟨d, hd, hD⟩ := hx
  obtain ⟨c, e, rfl, _, hD'⟩ := denotes_sign hD false
  exact ⟨.fin false c e, by simp only [applyFn]; rw [(C05.no_float_unary hnf).2.1, hd]; rfl, hD'⟩

-- -"1.50" = -1.5, abs(-1.5) = 1.5, -0 = 0
example : ∃ d, negateVal (.num (.jnum [0x31, 0x2E, 0x35, 0x30])) = .num (.dec d) ∧ Denotes d true 150 (-2) :=
  negate_exact_eval (Val.noFloat_jnum _)
    (numIs_text_34 false 0x31 [] [0x35, 0x30] none (by decide) (by decide) (by simp) (by decide) (by decide) (by decide))
example : negateVal (.num (.jnum [0x31, 0x2E, 0x35, 0x30])) = .num (.dec (.fin true 15 (-1))) := by
  rw [(C05.no_float_unary (Val.noFloat_jnum _)).1,
    show toDecimal (.num (.jnum [0x31, 0x2E, 0x35, 0x30])) = some (.fin false 15 (-1)) by decide]
  rfl
example : negateVal (.num (.jnum [0x30])) = .num (.dec (.fin false 0 0)) := by
  rw [(C05.no_float_unary (Val.noFloat_jnum _)).1, show toDecimal (.num (.jnum [0x30])) = some (.fin false 0 0) by decide]
  rfl
example : ∃ d, applyFn .abs [.num (.dec (.fin true 15 (-1)))] = .ok (.num (.dec d)) ∧ Denotes d false 15 (-1) :=
  abs_exact_eval (Val.noFloat_dec _) (numIs_dec _ _ _)

/-- the signed integer `(-1)^n · c` -/
abbrev scoef := C05.scoef

/-- the sign factors out of a product -/
theorem scoef_mul (n : Bool) (c k : Nat) : scoef n (c * k) = scoef n c * (k : Int) := by
  cases n <;> simp [scoef, C05.scoef, Int.neg_mul]

/-- the magnitude of a signed coefficient -/
theorem scoef_natAbs (n : Bool) (c : Nat) : (scoef n c).natAbs = c := by
  cases n <;> simp [scoef, C05.scoef]

/-- `ceilInt` / `floorInt` carry the sign of the operand (or are zero) -/
theorem ceilInt_sign (n : Bool) (c : Nat) (e : Int) : C05.ceilInt n c e = scoef n (C05.ceilInt n c e).natAbs := by
  unfold C05.ceilInt scoef C05.scoef
  simp only []
  generalize c / 10 ^ (-e).toNat = q
  cases n
  · by_cases h : c % 10 ^ (-e).toNat = 0 <;> simp only [h, if_true, if_false, Bool.false_eq_true] <;> omega
  · simp only [if_true]; omega

/-- see `ceilInt_sign` -/
theorem floorInt_sign (n : Bool) (c : Nat) (e : Int) : C05.floorInt n c e = scoef n (C05.floorInt n c e).natAbs := by
  unfold C05.floorInt scoef C05.scoef
  simp only []
  generalize c / 10 ^ (-e).toNat = q
  cases n
  · simp only [Bool.false_eq_true, if_false]; omega
  · by_cases h : c % 10 ^ (-e).toNat = 0 <;> simp only [h, if_true, if_false] <;> omega

/-- powers of ten are positive -/
theorem pos_pow (k : Nat) : (0 : Int) < ((10 ^ k : Nat) : Int) := Int.natCast_pos.mpr (Nat.pow_pos (by decide))

/-- a decimal with a non-negative exponent denotes the integer `c·10^e` -/
theorem denotes_int_of_nonneg (n : Bool) (c : Nat) (e : Int) (he : 0 ≤ e) :
    Denotes (normalize (.fin n c e)) n (c * 10 ^ e.toNat) 0 := by
  have : normalize (.fin n c e) = normalize (.fin n (c * 10 ^ e.toNat) 0) := by
    rw [normalize_shift]; congr 2; omega
  rw [this]; exact denotes_normalize _ _ _

/-- **`ceil` is exact**: the operand denotes `x = s·C·10^E`; write `x = s·C·10^E⁺ / 10^E⁻` (`E⁺ = max E 0`,
    `E⁻ = max (−E) 0`).  The result is the integer `Z` with the sign of `x` (so `ceil(-0.5) = -0`), and `Z` is the least
    integer `≥ x`: `s·C·10^E⁺ ≤ Z·10^E⁻`, and every integer `z'` with that property is `≥ Z`. -/
theorem ceil_den {d : Dec} {n : Bool} {C : Nat} {E : Int} (h : Denotes d n C E) :
    ∃ Z : Int, Denotes (Dec.ceil d) n Z.natAbs 0 ∧ Z = scoef n Z.natAbs ∧
      scoef n C * ((10 ^ E.toNat : Nat) : Int) ≤ Z * ((10 ^ (-E).toNat : Nat) : Int) ∧
      ∀ z' : Int, scoef n C * ((10 ^ E.toNat : Nat) : Int) ≤ z' * ((10 ^ (-E).toNat : Nat) : Int) → Z ≤ z' := by
  obtain ⟨c, e, rfl, hz, hk, _⟩ := h.unpack
  by_cases hc : c = 0
  · have hC : C = 0 := hz.mp hc
    subst hc; subst hC
    refine ⟨0, ⟨0, 0, by simp [Dec.ceil], Or.inl ⟨rfl, rfl⟩⟩, by cases n <;> simp [scoef, C05.scoef], by simp [scoef, C05.scoef],
      fun z' hz' => ?_⟩
    simp only [scoef, C05.scoef, Int.natCast_zero, Int.neg_zero, ite_self, Int.zero_mul] at hz'
    exact Int.nonneg_of_mul_nonneg_left (by rwa [Int.mul_comm] at hz') (pos_pow _)
  · obtain ⟨k, he, hCk⟩ := hk.resolve_left hc
    by_cases hE : 0 ≤ e
    · -- an integer already
      rw [C05.ceil_int n c e hE]
      have hval : C * 10 ^ E.toNat = c * 10 ^ e.toNat * 10 ^ (-E).toNat := by
        rw [hCk, Nat.mul_assoc, Nat.mul_assoc, ← Nat.pow_add, ← Nat.pow_add]
        congr 2; omega
      have hvalZ : scoef n C * ((10 ^ E.toNat : Nat) : Int) =
          scoef n (c * 10 ^ e.toNat) * ((10 ^ (-E).toNat : Nat) : Int) := by
        rw [← scoef_mul, ← scoef_mul, hval]
      refine ⟨scoef n (c * 10 ^ e.toNat), ?_, ?_, by rw [hvalZ]; exact Int.le_refl _, fun z' hz' => ?_⟩
      · rw [scoef_natAbs]; exact denotes_int_of_nonneg n c e hE
      · rw [scoef_natAbs]
      · rw [hvalZ] at hz'
        exact Int.le_of_mul_le_mul_right hz' (pos_pow _)
    · have hE' : e < 0 := by omega
      rw [C05.ceil_eq n c e hE']
      obtain ⟨hs1, hs2⟩ := C05.ceil_spec n c e
      have hE0 : E.toNat = 0 := by omega
      have hpow : ((10 ^ (-E).toNat : Nat) : Int) = ((10 ^ (-e).toNat : Nat) : Int) * ((10 ^ k : Nat) : Int) := by
        rw [← Int.natCast_mul, ← Nat.pow_add]; congr 2; omega
      have hsC : scoef n C = scoef n c * ((10 ^ k : Nat) : Int) := by rw [hCk, scoef_mul]
      refine ⟨C05.ceilInt n c e, denotes_normalize _ _ _, ?_, ?_, fun z' hz' => ?_⟩
      · exact ceilInt_sign n c e
      · rw [hE0, hpow, hsC]
        simp only [Nat.pow_zero, Int.natCast_one, Int.mul_one]
        rw [← Int.mul_assoc]
        exact Int.mul_le_mul_of_nonneg_right hs1 (Int.le_of_lt (pos_pow k))
      · apply hs2
        rw [hE0, hpow, hsC, ← Int.mul_assoc] at hz'
        simp only [Nat.pow_zero, Int.natCast_one, Int.mul_one] at hz'
        exact Int.le_of_mul_le_mul_right hz' (pos_pow k)

/-- **`floor` is exact**: the greatest integer `≤ x`, with the sign of `x` -/
theorem floor_den {d : Dec} {n : Bool} {C : Nat} {E : Int} (h : Denotes d n C E) :
    ∃ Z : Int, Denotes (Dec.floor d) n Z.natAbs 0 ∧ Z = scoef n Z.natAbs ∧
      Z * ((10 ^ (-E).toNat : Nat) : Int) ≤ scoef n C * ((10 ^ E.toNat : Nat) : Int) ∧
      ∀ z' : Int, z' * ((10 ^ (-E).toNat : Nat) : Int) ≤ scoef n C * ((10 ^ E.toNat : Nat) : Int) → z' ≤ Z := by
  obtain ⟨c, e, rfl, hz, hk, _⟩ := h.unpack
  by_cases hc : c = 0
  · have hC : C = 0 := hz.mp hc
    subst hc; subst hC
    refine ⟨0, ⟨0, 0, by simp [Dec.floor], Or.inl ⟨rfl, rfl⟩⟩, by cases n <;> simp [scoef, C05.scoef], by simp [scoef, C05.scoef],
      fun z' hz' => ?_⟩
    simp only [scoef, C05.scoef, Int.natCast_zero, Int.neg_zero, ite_self, Int.zero_mul] at hz'
    have hp := pos_pow (-E).toNat
    apply Int.not_lt.mp
    intro hpos
    have := Int.mul_pos hpos hp
    omega
  · obtain ⟨k, he, hCk⟩ := hk.resolve_left hc
    by_cases hE : 0 ≤ e
    · rw [C05.floor_int n c e hE]
      have hval : C * 10 ^ E.toNat = c * 10 ^ e.toNat * 10 ^ (-E).toNat := by
        rw [hCk, Nat.mul_assoc, Nat.mul_assoc, ← Nat.pow_add, ← Nat.pow_add]
        congr 2; omega
      have hvalZ : scoef n C * ((10 ^ E.toNat : Nat) : Int) =
          scoef n (c * 10 ^ e.toNat) * ((10 ^ (-E).toNat : Nat) : Int) := by
        rw [← scoef_mul, ← scoef_mul, hval]
      refine ⟨scoef n (c * 10 ^ e.toNat), ?_, ?_, by rw [hvalZ]; exact Int.le_refl _, fun z' hz' => ?_⟩
      · rw [scoef_natAbs]; exact denotes_int_of_nonneg n c e hE
      · rw [scoef_natAbs]
      · rw [hvalZ] at hz'
        exact Int.le_of_mul_le_mul_right hz' (pos_pow _)
    · have hE' : e < 0 := by omega
      rw [C05.floor_eq n c e hE']
      obtain ⟨hs1, hs2⟩ := C05.floor_spec n c e
      have hE0 : E.toNat = 0 := by omega
      have hpow : ((10 ^ (-E).toNat : Nat) : Int) = ((10 ^ (-e).toNat : Nat) : Int) * ((10 ^ k : Nat) : Int) := by
        rw [← Int.natCast_mul, ← Nat.pow_add]; congr 2; omega
      have hsC : scoef n C = scoef n c * ((10 ^ k : Nat) : Int) := by rw [hCk, scoef_mul]
      refine ⟨C05.floorInt n c e, denotes_normalize _ _ _, floorInt_sign n c e, ?_, fun z' hz' => ?_⟩
      · rw [hE0, hpow, hsC]
        simp only [Nat.pow_zero, Int.natCast_one, Int.mul_one]
        rw [← Int.mul_assoc]
        exact Int.mul_le_mul_of_nonneg_right hs1 (Int.le_of_lt (pos_pow k))
      · apply hs2
        rw [hE0, hpow, hsC, ← Int.mul_assoc] at hz'
        simp only [Nat.pow_zero, Int.natCast_one, Int.mul_one] at hz'
        exact Int.le_of_mul_le_mul_right hz' (pos_pow k)

/-- `ceil(x)` through the evaluator -/
theorem ceil_exact_eval {x : Val} (hnf : x.NoFloat) {n : Bool} {C : Nat} {E : Int} (hx : NumIs x n C E) :
    ∃ r Z, applyFn .ceil [x] = .ok (.num (.dec r)) ∧ Denotes r n Z.natAbs 0 ∧ Z = scoef n Z.natAbs ∧
      scoef n C * ((10 ^ E.toNat : Nat) : Int) ≤ Z * ((10 ^ (-E).toNat : Nat) : Int) ∧
      ∀ z' : Int, scoef n C * ((10 ^ E.toNat : Nat) : Int) ≤ z' * ((10 ^ (-E).toNat : Nat) : Int) → Z ≤ z' := by
  obtain ⟨d, hd, hD⟩ := hx
  obtain ⟨Z, h1, h2, h3, h4⟩ := ceil_den hD
  exact ⟨Dec.ceil d, Z, by simp only [applyFn]; rw [(C05.no_float_unary hnf).2.2.1, hd], h1, h2, h3, h4⟩

/-- `floor(x)` through the evaluator -/
theorem floor_exact_eval {x : Val} (hnf : x.NoFloat) {n : Bool} {C : Nat} {E : Int} (hx : NumIs x n C E) :
    ∃ r Z, applyFn .floor [x] = .ok (.num (.dec r)) ∧ Denotes r n Z.natAbs 0 ∧ Z = scoef n Z.natAbs ∧
      Z * ((10 ^ (-E).toNat : Nat) : Int) ≤ scoef n C * ((10 ^ E.toNat : Nat) : Int) ∧
      ∀ z' : Int, z' * ((10 ^ (-E).toNat : Nat) : Int) ≤ scoef n C * ((10 ^ E.toNat : Nat) : Int) → z' ≤ Z := by
  obtain ⟨d, hd, hD⟩ := hx
  obtain ⟨Z, h1, h2, h3, h4⟩ := floor_den hD
  exact ⟨Dec.floor d, Z, by simp only [applyFn]; rw [(C05.no_float_unary hnf).2.2.2, hd], h1, h2, h3, h4⟩

-- ceil("2.50") = 3, floor("-2.50") = -3, ceil(-0.5) = -0
example : ∃ r Z, applyFn .ceil [.num (.jnum [0x32, 0x2E, 0x35, 0x30])] = .ok (.num (.dec r)) ∧
    Denotes r false Z.natAbs 0 ∧ Z = scoef false Z.natAbs ∧ scoef false 250 * ((10 ^ 0 : Nat) : Int) ≤ Z * ((10 ^ 2 : Nat) : Int) ∧
    ∀ z' : Int, scoef false 250 * ((10 ^ 0 : Nat) : Int) ≤ z' * ((10 ^ 2 : Nat) : Int) → Z ≤ z' :=
  ceil_exact_eval (Val.noFloat_jnum _)
    (numIs_text_34 false 0x32 [] [0x35, 0x30] none (by decide) (by decide) (by simp) (by decide) (by decide) (by decide))
example : Dec.ceil (.fin false 25 (-1)) = .fin false 3 0 ∧ Dec.floor (.fin true 25 (-1)) = .fin true 3 0 ∧
    Dec.ceil (.fin true 5 (-1)) = .fin true 0 0 := by decide

/-- **`to_number`**: a number is returned unchanged; a string that is a JSON number text is read exactly -/
theorem to_number_num (nx : Num) : applyFn .toNumber [.num nx] = .ok (.num nx) := rfl

/-- `to_number("text")` reads the text exactly (`hvalid`: the text is a JSON number, e.g. no leading zeros) -/
theorem to_number_exact_eval (neg : Bool) (b : Nat) (ip fp : Bytes) (ex : Option (Bool × Option Bool × Bytes))
    (hd : ∀ x ∈ b :: ip, isDigit x = true) (hf : ∀ x ∈ fp, isDigit x = true)
    (hx : ∀ u sg ep, ex = some (u, sg, ep) → ep ≠ [] ∧ (∀ x ∈ ep, isDigit x = true) ∧ dval 0 ep ≤ 6189)
    (hC : dval 0 ((b :: ip) ++ fp) ≤ MAXSIG) (hlo : EMIN ≤ C05.numTextExp fp ex) (hhi : C05.numTextExp fp ex ≤ EMAX)
    (hvalid : Json.isValidNumber (C05.numText neg (b :: ip) fp ex) = true) :
    ∃ d, applyFn .toNumber [.str (C05.numText neg (b :: ip) fp ex)] = .ok (.num (.dec d)) ∧
      Denotes d neg (dval 0 ((b :: ip) ++ fp)) (C05.numTextExp fp ex) := by
  refine ⟨_, ?_, denotes_normalize neg _ _⟩
  simp only [applyFn, toNumber, hvalid, if_true, C05.unmarshal_exact neg b ip fp ex hd hf hx hC hlo hhi]

-- to_number("2.50") = 2.5
example : ∃ d, applyFn .toNumber [.str [0x32, 0x2E, 0x35, 0x30]] = .ok (.num (.dec d)) ∧ Denotes d false 250 (-2) :=
  to_number_exact_eval false 0x32 [] [0x35, 0x30] none (by decide) (by decide) (by simp) (by decide) (by decide) (by decide)
    (by decide)

/-! ### comparison (no float-freeness needed: every numeric kind is compared through its exact decimal) -/

/-- the decimal comparison behind all six operators, by value -/
theorem cmp_vals {x y : Val} {n1 n2 : Bool} {C1 C2 : Nat} {E1 E2 : Int} (hx : NumIs x n1 C1 E1) (hy : NumIs y n2 C2 E2)
    (m : Int) (hm1 : m ≤ E1) (hm2 : m ≤ E2) :
    ∃ d1 d2, toDecimal x = some d1 ∧ toDecimal y = some d2 ∧
      Dec.cmp d1 d2 = some (if sval n1 C1 E1 m < sval n2 C2 E2 m then -1
        else if sval n1 C1 E1 m = sval n2 C2 E2 m then 0 else 1) := by
  obtain ⟨d1, hd1, hD1⟩ := hx
  obtain ⟨d2, hd2, hD2⟩ := hy
  exact ⟨d1, d2, hd1, hd2, cmp_den hD1 hD2 m hm1 hm2⟩

/-- **`< <= > >= == !=` compare the exact values**: with `v1`, `v2` the operands' signed coefficients at any common
    exponent `m`, the evaluator returns the boolean `v1 < v2` (…), for every representation of the operands. -/
theorem compare_exact_eval {x y : Val} {n1 n2 : Bool} {C1 C2 : Nat} {E1 E2 : Int} (hx : NumIs x n1 C1 E1)
    (hy : NumIs y n2 C2 E2) (m : Int) (hm1 : m ≤ E1) (hm2 : m ≤ E2) (v1 v2 : Int) (hv1 : v1 = sval n1 C1 E1 m)
    (hv2 : v2 = sval n2 C2 E2 m) :
    applyBinOp .lt x y = .ok (.bool (decide (v1 < v2))) ∧ applyBinOp .le x y = .ok (.bool (decide (v1 ≤ v2))) ∧
    applyBinOp .gt x y = .ok (.bool (decide (v1 > v2))) ∧ applyBinOp .ge x y = .ok (.bool (decide (v1 ≥ v2))) ∧
    applyBinOp .eq x y = .ok (.bool (decide (v1 = v2))) ∧ applyBinOp .ne x y = .ok (.bool (decide (v1 ≠ v2))) := by
  obtain ⟨d1, d2, hd1, hd2, hc⟩ := cmp_vals hx hy m hm1 hm2
  obtain ⟨nx, rfl⟩ := hx.isNum
  obtain ⟨ny, rfl⟩ := hy.isNum
  rw [← hv1, ← hv2] at hc
  have hlt : Dec.less d1 d2 = decide (v1 < v2) := by
    unfold Dec.less; rw [hc]
    by_cases h : v1 < v2
    · simp [h]
    · by_cases h' : v1 = v2 <;> simp [h, h']
  have heq : Dec.equal d1 d2 = decide (v1 = v2) := by
    unfold Dec.equal; rw [hc]
    by_cases h : v1 < v2
    · simp [h]; omega
    · by_cases h' : v1 = v2 <;> simp [h, h']
  have hgt : Dec.greater d1 d2 = decide (v1 > v2) := by
    unfold Dec.greater; rw [hc]
    by_cases h : v1 < v2
    · simp [h]; omega
    · by_cases h' : v1 = v2
      · simp [h']
      · simp [h, h']; omega
  have hle : Dec.lessEq d1 d2 = decide (v1 ≤ v2) := by
    unfold Dec.lessEq; rw [hlt, heq]
    by_cases h : v1 < v2
    · simp [h]; omega
    · by_cases h' : v1 = v2 <;> simp [h, h']; omega
  have hge : Dec.greaterEq d1 d2 = decide (v1 ≥ v2) := by
    unfold Dec.greaterEq; rw [hgt, heq]
    by_cases h : v1 > v2
    · simp [h]; omega
    · by_cases h' : v1 = v2 <;> simp [h, h']; omega
  have hE : equalR (.num nx) (.num ny) = .ok (decide (v1 = v2)) := by
    simp only [equalR, Val.hasEnum2, Bool.or_self, Bool.false_eq_true, if_false, equal, hd1, hd2, heq]
  refine ⟨?_, ?_, ?_, ?_, ?_, ?_⟩
  · simp only [applyBinOp, less, cmpOp, hd1, hd2, hlt]
  · simp only [applyBinOp, lessOrEqual, cmpOp, hd1, hd2, hle]
  · simp only [applyBinOp, greater, cmpOp, hd1, hd2, hgt]
  · simp only [applyBinOp, greaterOrEqual, cmpOp, hd1, hd2, hge]
  · simp only [applyBinOp, hE]; rfl
  · simp only [applyBinOp, hE]
    show Res.ok (Val.bool (!decide (v1 = v2))) = _
    by_cases h : v1 = v2 <;> simp [h]

-- "0.30" == 0.3, and 10 > "9.99" (an int64 against a json.Number text)
example : applyBinOp .eq (.num (.jnum [0x30, 0x2E, 0x33, 0x30])) (.num (.dec (.fin false 3 (-1)))) = .ok (.bool true) :=
  (compare_exact_eval
    (numIs_text_34 false 0x30 [] [0x33, 0x30] none (by decide) (by decide) (by simp) (by decide) (by decide) (by decide))
    (numIs_dec false 3 (-1)) (-2) (by decide) (by decide) 30 30 (by decide) (by decide)).2.2.2.2.1
example : applyBinOp .gt (.num (.int .i64 10)) (.num (.jnum [0x39, 0x2E, 0x39, 0x39])) = .ok (.bool true) :=
  (compare_exact_eval (numIs_int .i64 10)
    (numIs_text_34 false 0x39 [] [0x39, 0x39] none (by decide) (by decide) (by simp) (by decide) (by decide) (by decide))
    (-2) (by decide) (by decide) 1000 999 (by decide) (by decide)).2.2.1


/-! ## 4. no value is routed through binary floating point — for compiled expressions

  C05.no_float_evaluate assumes `n.LitsNF` (every literal of the expression is float-free).  The parser guarantees
  it: `.lit` nodes are built from backtick JSON literals (decoded by `encoding/json` with `UseNumber`, i.e. numbers stay
  `json.Number` text) and raw strings only. -/

/-- every literal of a successfully compiled expression is float-free -/
theorem compile_literals_float_free {e : Bytes} {n : INode} (h : compile e = .ok n) : n.LitsNF :=
  C05BLits.compile_litsNF h

/-- `Compile` then `(*Expression).Search` on a float-free document: the result contains no float -/
theorem compiled_search_no_float {e : Bytes} {n : INode} (h : compile e = .ok n) {d w : Val} (hd : d.NoFloat)
    (hw : evaluate n d = .ok w) : w.NoFloat :=
  C05.no_float_evaluate (compile_literals_float_free h) hd hw

/-- **`Search(e, d)` on a float-free document `d`** (JSON text, decimals, integers …) **returns a float-free value**,
    for every expression `e`: no operator, function or literal ever introduces a `float64` -/
theorem search_no_float {e : Bytes} {d w : Val} (hd : d.NoFloat) (h : search e d = .ok w) : w.NoFloat :=
  C05BLits.search_noFloat hd h

/-- in particular for a document given as JSON text -/
theorem search_json_text_no_float {e s : Bytes} {d w : Val} (hs : Json.decode s = some d) (h : search e d = .ok w) :
    w.NoFloat := search_no_float (C05.json_text_no_float hs) h

-- the expression  `0.1`+`0.2`  on the document null evaluates to the decimal 0.3, and is float-free by the theorem
example : (match search [0x60, 0x30, 0x2E, 0x31, 0x60, 0x2B, 0x60, 0x30, 0x2E, 0x32, 0x60] .null with
    | .ok (.num (.dec (.fin false 3 (-1)))) => true
    | _ => false) = true := by decide +kernel
example : ∀ w, search [0x60, 0x30, 0x2E, 0x31, 0x60, 0x2B, 0x60, 0x30, 0x2E, 0x32, 0x60] .null = .ok w → w.NoFloat :=
  fun _ h => search_no_float (by simp) h
example : ∀ n, compile [0x60, 0x30, 0x2E, 0x31, 0x60, 0x2B, 0x60, 0x30, 0x2E, 0x32, 0x60] = .ok n → n.LitsNF :=
  fun _ h => compile_literals_float_free h

/-! ## 5. `sum` and `avg`

  `sum` is the left fold of `Dec.add` from `+0` in array order (C05.sum_is_decimal_fold), each addition correctly
  rounded (C05.add_exact_or_close).  So it is exact as long as every PARTIAL sum is representable — not merely the
  final one. -/

/-- **`sum` is exact when every partial sum is representable**: elements `(-1)^n·c·10^e` with exponents `≥ m`;
    `PrefixFits m 0 ts`: each partial sum `t₁ + … + tᵢ`, as an integer in units of `10^m`, satisfies `Representable · m`.
    Nothing else is assumed (no bound on the magnitudes as in C05.sum_exact, no exponent range).  The result is the
    canonical decimal of the exact sum `exactSum m ts · 10^m`. -/
theorem sum_exact_partial_sums (m : Int) (t : ATag) (xs : List Val) (ts : List (Bool × Nat × Int))
    (hx : xs.map toDecimal = ts.map (fun t => some (Dec.fin t.1 t.2.1 t.2.2)))
    (he : ∀ t ∈ ts, m ≤ t.2.2) (hfit : PrefixFits m 0 ts) (hok : enumSumOk t xs = true) :
    ∃ r, applyFn .sum [.arr t xs] = .ok (.num (.dec r)) ∧ Rep m r (exactSum m ts) := by
  obtain ⟨r, _, h, hr⟩ := numSum_exact_prefix m t xs ts hx he hfit hok
  exact ⟨r, h, hr⟩

/-- C05.sum_exact's hypothesis (the magnitudes add up to `≤ MAXSIG`) is a special case -/
theorem prefix_fits_of_magnitudes (m : Int) (hm : EMIN ≤ m) (hm' : m ≤ EMAX) (ts : List (Bool × Nat × Int))
    (h : magSum m ts ≤ MAXSIG) : PrefixFits m 0 ts :=
  prefixFits_of_magSum m hm hm' ts 0 (by simpa using h)

-- sum([1e40, -1e40, 1]) = 1 : the magnitudes are far above MAXSIG, but every partial sum (1e40, 0, 1) is representable
example : ∃ r, applyFn .sum [.arr .plain [.num (.dec (.fin false 1 40)), .num (.dec (.fin true 1 40)), .num (.dec (.fin false 1 0))]] =
      .ok (.num (.dec r)) ∧ Rep 0 r (exactSum 0 [(false, 1, 40), (true, 1, 40), (false, 1, 0)]) :=
  sum_exact_partial_sums 0 .plain _ [(false, 1, 40), (true, 1, 40), (false, 1, 0)] rfl (by decide)
    ⟨⟨1, 0, 40, by decide, by decide, by decide, by decide⟩, fits_zero 0, fits_34 (by decide) (by decide) (by decide), trivial⟩ rfl
example : exactSum 0 [(false, 1, 40), (true, 1, 40), (false, 1, 0)] = 1 := by decide

/-- **COUNTEREXAMPLE to the property text** ("sum … computes the exact result whenever it has at most 34 significant
    digits"): `sum([1e40, 1, -1e40])` has the exact value `1` (one digit) but the model — and Go, checked — returns
    `0`: the partial sum `1e40 + 1` is not representable and is rounded to `1e40`. -/
example : numSum (.arr .plain [.num (.jnum [0x31, 0x65, 0x34, 0x30]), .num (.jnum [0x31]), .num (.jnum [0x2D, 0x31, 0x65, 0x34, 0x30])]) =
    .ok (.num (.dec (.fin false 0 0))) := by
  rw [C05.sum_is_decimal_fold,
    show sumDec [.num (.jnum [0x31, 0x65, 0x34, 0x30]), .num (.jnum [0x31]), .num (.jnum [0x2D, 0x31, 0x65, 0x34, 0x30])] Dec.zero =
      some (.fin false 0 0) by decide]
  rfl
example : exactSum 0 [(false, 1, 40), (false, 1, 0), (true, 1, 40)] = 1 := by decide
/-- … and the hypothesis of `sum_exact_partial_sums` indeed fails there: `10^40 + 1` is not representable -/
example : ¬ PrefixFits 0 0 [(false, 1, 40), (false, 1, 0), (true, 1, 40)] := by
  intro h
  have h2 := h.2.1
  have e : ((0 : Int) + sval false 1 40 0 + sval false 1 0 0).natAbs = 10 ^ 40 + 1 := by decide
  rw [e] at h2
  exact not_fits_of_long (by decide) (by decide) 0 h2

/-- **COUNTEREXAMPLE to "otherwise within one unit of the 34th significant digit"** for `sum`:
    `sum([2e34, 1, 1, 1, 1, 1, 1, 1, 1, 1, 1, 1])` is exactly `20000000000000000000000000000000011` (35 digits; one unit of
    its 34th digit is `10`), the model — and Go, checked — returns `2e34`: off by `11`.  Each of the eleven additions
    rounds `2e34 + 1` back to `2e34`. -/
example : sumDec (.num (.dec (.fin false 2 34)) :: List.replicate 11 (.num (.dec (.fin false 1 0)))) Dec.zero =
    some (.fin false 2 34) := by decide
example : exactSum 0 ((false, 2, 34) :: List.replicate 11 (false, 1, 0)) = 2 * 10 ^ 34 + 11 := by decide

-- The strongest general statement about the inexact case is per step: every addition of the fold is exact or
-- correctly rounded to ≥ 34 digits (C05.add_exact_or_close); the errors of the steps may add up, as above.

/-- **`avg` is exact** when the sum is (every partial sum representable) and the exact quotient `S / length` is
    representable: `|S|·10^a = Q·length·10^b`, `Q ≤ MAXSIG`, `T = m − a + b` in range. -/
theorem avg_exact_partial_sums (m : Int) (t : ATag) (xs : List Val) (ts : List (Bool × Nat × Int))
    (hx : xs.map toDecimal = ts.map (fun t => some (Dec.fin t.1 t.2.1 t.2.2)))
    (he : ∀ t ∈ ts, m ≤ t.2.2) (hfit : PrefixFits m 0 ts) (hok : enumSumOk t xs = true) (hne : xs ≠ [])
    (hS : exactSum m ts ≠ 0) (Q a b : Nat) (hq : (exactSum m ts).natAbs * 10 ^ a = Q * xs.length * 10 ^ b)
    (hQ : Q ≤ MAXSIG) (hlo : EMIN ≤ m - 0 - (a : Int) + (b : Int)) (hhi : m - 0 - (a : Int) + (b : Int) ≤ EMAX) :
    applyFn .avg [.arr t xs] =
      .ok (.num (.dec (normalize (.fin (decide (exactSum m ts < 0)) Q (m - 0 - (a : Int) + (b : Int)))))) := by
  obtain ⟨r, hsum, _, hr⟩ := numSum_exact_prefix m t xs ts hx he hfit hok
  have hr' := rep_ne_zero hr hS
  have hlen : xs.length ≠ 0 := by cases xs <;> simp at hne ⊢
  have hD1 : Denotes r (decide (exactSum m ts < 0)) (exactSum m ts).natAbs m := by rw [hr']; exact denotes_normalize _ _ _
  have hD2 : Denotes (Dec.ofInt (xs.length : Int)) false xs.length 0 := by
    have := denotes_ofInt (xs.length : Int)
    have h0 : ¬ ((xs.length : Int) < 0) := by omega
    simpa [h0] using this
  have hquo := quo_den hD1 hD2 (by omega) hlen Q a b hq hQ hlo hhi
  simp only [applyFn]
  rw [C05.avg_is_decimal_fold t xs hne, hsum]
  simp only [hok, if_true]
  rw [hquo]
  simp only [Bool.bne_false]
  exact checkD_normalize _ _ _

-- avg([0.1, 0.2, 0.3]) = 0.2 : S = 6 (units of 10^-1), 6·10^0 = 2·3·10^0
example : applyFn .avg [.arr .plain [.num (.dec (.fin false 1 (-1))), .num (.dec (.fin false 2 (-1))), .num (.dec (.fin false 3 (-1)))]] =
    .ok (.num (.dec (normalize (.fin false 2 (-1))))) :=
  avg_exact_partial_sums (-1) .plain _ [(false, 1, -1), (false, 2, -1), (false, 3, -1)] rfl (by decide)
    (prefix_fits_of_magnitudes (-1) (by decide) (by decide) _ (by decide)) rfl (by simp) (by decide) 2 0 0 (by decide)
    (by decide) (by decide) (by decide)


/-! ## 6. underflow: below `EMIN` the result is rounded to a multiple of `10^EMIN`, silently

  All `*_close` theorems of C05 assume the exponent stays `≥ EMIN`.  Below, decimal128 underflows gradually: the exact
  value is rounded (half-even, once) to a multiple of `10^EMIN = 10^-6176`.  The ABSOLUTE error is at most
  `10^EMIN / 2`, but fewer than 34 significant digits survive (possibly none), and NO error is reported — Go behaves
  the same (checked: `` `1e-6143` * `1e-40` `` → `0`, `` `1e-6170` / `3` `` → `3.33333e-6171`, `to_number('1e-7000')`
  → `0`, all with `err = nil`).  This contradicts the property's "otherwise a result within one unit of the 34th
  significant digit of the exact value" for results below `10^(EMIN+33)`. -/

/-- `reduce` below `EMIN`: `k` digits are dropped so that the exponent reaches `EMIN` exactly (or, when the
    coefficient is so long that at least 34 digits remain, above it), and the kept coefficient `c4` is the correctly
    rounded one: `|c − c4·10^k| ≤ 10^k / 2`, i.e. an absolute error of at most half a unit of `10^(e+k)`. -/
theorem reduce_underflow (neg : Bool) (c : Nat) (e : Int) (he : e < EMIN) :
    ∃ c4 k : Nat, EMIN ≤ e + (k : Int) ∧ c4 ≤ MAXSIG ∧ Close c k c4 ∧ (e + (k : Int) = EMIN ∨ 10 ^ 33 ≤ c4) ∧
      reduce neg c e false = if e + (k : Int) > EMAX then .inf neg else normalize (.fin neg c4 (e + (k : Int))) :=
  Dec.reduce_underflow neg c e he

/-- `Close` as an absolute difference -/
theorem close_abs_error {V k c4 : Nat} (h : Close V k c4) : 2 * ((V : Int) - (c4 : Int) * (10 : Int) ^ k).natAbs ≤ 10 ^ k :=
  close_abs_le h

/-- `checkD` of a result that is ±Inf on overflow and a canonical finite decimal otherwise -/
theorem checkD_if (b : Prop) [Decidable b] (neg : Bool) (n : Bool) (c : Nat) (e : Int) :
    checkD (if b then .inf neg else normalize (.fin n c e)) =
      if b then .err [Cat.notANumber] else .ok (.num (.dec (normalize (.fin n c e)))) := by
  split
  · rfl
  · exact checkD_normalize n c e

/-- **`x * y` with an exponent below `EMIN`** (operands in their stored representation): the evaluator returns —
    without any error in the underflow case `e1+e2+k = EMIN` — the exact product rounded half-even to a multiple of
    `10^(e1+e2+k)`. -/
theorem mul_underflow_eval {x y : Val} (hnf : x.NoFloat ∨ y.NoFloat) {n1 n2 : Bool} {c1 c2 : Nat} {e1 e2 : Int}
    (hx : toDecimal x = some (.fin n1 c1 e1)) (hy : toDecimal y = some (.fin n2 c2 e2)) (h1 : c1 ≠ 0) (h2 : c2 ≠ 0)
    (he : e1 + e2 < EMIN) :
    ∃ c4 k : Nat, EMIN ≤ e1 + e2 + (k : Int) ∧ c4 ≤ MAXSIG ∧ Close (c1 * c2) k c4 ∧
      (e1 + e2 + (k : Int) = EMIN ∨ 10 ^ 33 ≤ c4) ∧
      applyBinOp .mul x y = if e1 + e2 + (k : Int) > EMAX then .err [Cat.notANumber]
        else .ok (.num (.dec (normalize (.fin (n1 != n2) c4 (e1 + e2 + (k : Int)))))) := by
  obtain ⟨c4, k, hk1, hk2, hk3, hk4, hk5⟩ := Dec.mul_underflow n1 n2 c1 c2 e1 e2 h1 h2 he
  refine ⟨c4, k, hk1, hk2, hk3, hk4, ?_⟩
  show arith _ _ x y = _
  rw [arith_numIs hnf hx hy, hk5, checkD_if]

/-- **`x / y` in general** (no hypothesis on the exponent): every quotient of non-zero finite decimals is the exact
    quotient correctly rounded — to ≥ 34 digits when the exponent allows, to a multiple of `10^EMIN` on underflow
    (no error), `not-a-number` on overflow. -/
theorem div_rounded_eval {x y : Val} (hnf : x.NoFloat ∨ y.NoFloat) {n1 n2 : Bool} {c1 c2 : Nat} {e1 e2 : Int}
    (hx : toDecimal x = some (.fin n1 c1 e1)) (hy : toDecimal y = some (.fin n2 c2 e2)) (h1 : c1 ≠ 0) (h2 : c2 ≠ 0) :
    ∃ c4 k : Nat, 1 ≤ k ∧ c4 ≤ MAXSIG ∧ CloseD (c1 * 10 ^ (40 + ndigits c2)) c2 k c4 ∧
      EMIN ≤ e1 - e2 - ((40 + ndigits c2 : Nat) : Int) + (k : Int) ∧
      (e1 - e2 - ((40 + ndigits c2 : Nat) : Int) + (k : Int) = EMIN ∨ 10 ^ 33 ≤ c4) ∧
      applyBinOp .div x y = if e1 - e2 - ((40 + ndigits c2 : Nat) : Int) + (k : Int) > EMAX then .err [Cat.notANumber]
        else .ok (.num (.dec (normalize (.fin (n1 != n2) c4 (e1 - e2 - ((40 + ndigits c2 : Nat) : Int) + (k : Int)))))) := by
  obtain ⟨c4, k, hk1, hk2, hk3, hk4, hk5, hk6⟩ := Dec.quo_close_general n1 n2 c1 c2 e1 e2 h1 h2
  refine ⟨c4, k, hk1, hk2, hk3, hk4, hk5, ?_⟩
  show arith _ _ x y = _
  rw [arith_numIs hnf hx hy, hk6, checkD_if]

/-- the examples, through the evaluator on json.Number texts: `1e-6143 * 1e-40 = 0` and `1e-6170 / 3 = 3.33333e-6171`
    (six significant digits), both `.ok` — no error.  Go returns exactly these. -/
example : applyBinOp .mul (.num (.jnum [0x31, 0x65, 0x2D, 0x36, 0x31, 0x34, 0x33])) (.num (.jnum [0x31, 0x65, 0x2D, 0x34, 0x30])) =
    .ok (.num (.dec (.fin false 0 0))) := by
  simp only [applyBinOp, multiply]
  rw [arith_numIs (Or.inl (Val.noFloat_jnum _))
    (show toDecimal (.num (.jnum [0x31, 0x65, 0x2D, 0x36, 0x31, 0x34, 0x33])) = some (.fin false 1 (-6143)) by decide)
    (show toDecimal (.num (.jnum [0x31, 0x65, 0x2D, 0x34, 0x30])) = some (.fin false 1 (-40)) by decide),
    show Dec.mul (.fin false 1 (-6143)) (.fin false 1 (-40)) = .fin false 0 0 by decide]
  rfl
example : applyBinOp .div (.num (.jnum [0x31, 0x65, 0x2D, 0x36, 0x31, 0x37, 0x30])) (.num (.jnum [0x33])) =
    .ok (.num (.dec (.fin false 333333 (-6176)))) := by
  simp only [applyBinOp, divide]
  rw [arith_numIs (Or.inl (Val.noFloat_jnum _))
    (show toDecimal (.num (.jnum [0x31, 0x65, 0x2D, 0x36, 0x31, 0x37, 0x30])) = some (.fin false 1 (-6170)) by decide)
    (show toDecimal (.num (.jnum [0x33])) = some (.fin false 3 0) by decide),
    show Dec.quo (.fin false 1 (-6170)) (.fin false 3 0) = .fin false 333333 (-6176) by decide]
  rfl
-- the relative error of 3.33333e-6171 against 1e-6170/3 is about 1e-6: far more than one unit of the 34th digit;
-- the absolute error is below 10^EMIN / 2
example : 333333 < 10 ^ 33 := by decide
-- reading a text below the range also underflows silently: "1e-7000" is 0
example : toDecimal (.num (.jnum [0x31, 0x65, 0x2D, 0x37, 0x30, 0x30, 0x30])) = some (.fin false 0 0) := by decide
-- ties go to even: 1.5e-6176 and 2.5e-6176 both become 2e-6176
example : Dec.mul (.fin false 15 (-6177)) (.fin false 1 0) = .fin false 2 (-6176) ∧
    Dec.mul (.fin false 25 (-6177)) (.fin false 1 0) = .fin false 2 (-6176) := by decide
-- `mul_underflow_eval` applied to 25e-6177 * 1
example : ∃ c4 k : Nat, EMIN ≤ (-6177 : Int) + 0 + (k : Int) ∧ c4 ≤ MAXSIG ∧ Close (25 * 1) k c4 ∧
    ((-6177 : Int) + 0 + (k : Int) = EMIN ∨ 10 ^ 33 ≤ c4) ∧
    applyBinOp .mul (.num (.dec (.fin false 25 (-6177)))) (.num (.dec (.fin false 1 0))) =
      if (-6177 : Int) + 0 + (k : Int) > EMAX then .err [Cat.notANumber]
      else .ok (.num (.dec (normalize (.fin (false != false) c4 ((-6177 : Int) + 0 + (k : Int)))))) :=
  mul_underflow_eval (Or.inl (Val.noFloat_dec _)) rfl rfl (by decide) (by decide) (by decide)

/-! ## 7. NaN and ±Inf never arise; the unary functions and `max` / `min` pass them through

  Binary operators: C05.arith_result_finite — every `.ok` result of `+ - * / // %` is finite WHATEVER the operands
  (a NaN / ±Inf operand, division by zero, overflow all end in `not-a-number`).  `sum`, `avg`: `checkD` on the result,
  likewise.  The remaining operators and functions have no check; from finite operands they produce finite results: -/

/-- unary minus, `abs`, `ceil`, `floor` of a finite decimal operand are finite decimals -/
theorem unary_finite {x : Val} (hnf : x.NoFloat) {n : Bool} {c : Nat} {e : Int} (hx : toDecimal x = some (.fin n c e)) :
    (∃ n' c' e', negateVal x = .num (.dec (.fin n' c' e'))) ∧
    (∃ n' c' e', applyFn .abs [x] = .ok (.num (.dec (.fin n' c' e')))) ∧
    (∃ n' c' e', applyFn .ceil [x] = .ok (.num (.dec (.fin n' c' e')))) ∧
    (∃ n' c' e', applyFn .floor [x] = .ok (.num (.dec (.fin n' c' e')))) := by
  obtain ⟨h1, h2, h3, h4⟩ := C05.no_float_unary hnf
  refine ⟨?_, ?_, ?_, ?_⟩
  · rw [h1, hx]
    by_cases hz : (Dec.fin n c e).isZero = true
    · exact ⟨n, c, e, by simp [hz]⟩
    · exact ⟨!n, c, e, by simp [hz, Dec.neg]⟩
  · exact ⟨false, c, e, by simp only [applyFn]; rw [h2, hx]; rfl⟩
  · obtain ⟨c', e', h⟩ := ceil_fin n c e
    exact ⟨n, c', e', by simp only [applyFn]; rw [h3, hx]; simp only [h]⟩
  · obtain ⟨c', e', h⟩ := floor_fin n c e
    exact ⟨n, c', e', by simp only [applyFn]; rw [h4, hx]; simp only [h]⟩

/-- `to_number` of a string is null or a FINITE decimal (a text that overflows, like `"1e7000"`, gives null) -/
theorem to_number_finite (s : Bytes) :
    applyFn .toNumber [.str s] = .ok .null ∨ ∃ n c e, applyFn .toNumber [.str s] = .ok (.num (.dec (.fin n c e))) := by
  simp only [applyFn, toNumber]
  split
  · cases hu : Dec.unmarshalJSON s with
    | none => exact Or.inl rfl
    | some d =>
      right
      have : ∃ n c e, d = .fin n c e := unmarshalJSON_fin hu
      obtain ⟨n, c, e, rfl⟩ := this
      exact ⟨n, c, e, rfl⟩
  · exact Or.inl rfl


/-- `sum` and `avg`: every `.ok` result is a finite decimal (or `null` for `avg([])`), whatever the elements -/
theorem sum_avg_finite {x v : Val} :
    (applyFn .sum [x] = .ok v → ∃ n c e, v = .num (.dec (.fin n c e))) ∧
    (applyFn .avg [x] = .ok v → v = .null ∨ ∃ n c e, v = .num (.dec (.fin n c e))) := by
  constructor
  · intro h
    simp only [applyFn] at h
    unfold numSum at h
    split at h
    · split at h
      · simp [errType] at h
      · split at h
        · obtain ⟨n, c, e, _, hv⟩ := C05.checkD_ok h
          exact ⟨n, c, e, hv⟩
        · cases h
    · simp [errType] at h
  · intro h
    simp only [applyFn] at h
    unfold numAvg at h
    split at h
    · split at h
      · cases h; exact Or.inl rfl
      · split at h
        · simp [errType] at h
        · split at h
          · obtain ⟨n, c, e, _, hv⟩ := C05.checkD_ok h
            exact Or.inr ⟨n, c, e, hv⟩
          · cases h
    · simp [errType] at h

/-- `max` / `min` of numbers return the decimal of one of the elements: finite elements give a finite result -/
theorem max_min_finite {t : ATag} {xs : List Val} {r : Dec}
    (hfin : ∀ x ∈ xs, ∀ d, toDecimal x = some d → d.isSpecial = false) :
    (applyFn .max [.arr t xs] = .ok (.num (.dec r)) → r.isSpecial = false ∧ ∃ x ∈ xs, toDecimal x = some r) ∧
    (applyFn .min [.arr t xs] = .ok (.num (.dec r)) → r.isSpecial = false ∧ ∃ x ∈ xs, toDecimal x = some r) := by
  constructor
  · intro h
    simp only [applyFn] at h
    unfold arrayMax at h
    simp only [] at h
    split at h
    · cases h
    · split at h <;> cases h
    · next x rest _ =>
      split at h
      · next d ds hall =>
        split at h
        · cases h
        · simp only [Res.ok.injEq, Val.num.injEq, Num.dec.injEq] at h
          obtain ⟨y, hy, hyd⟩ := allDecimals_mem _ _ hall r (by rw [← h]; exact maxDec_mem ds d)
          exact ⟨hfin y hy r hyd, y, hy, hyd⟩
      · simp [errType] at h
  · intro h
    simp only [applyFn] at h
    unfold arrayMin at h
    simp only [] at h
    split at h
    · cases h
    · split at h <;> cases h
    · next x rest _ =>
      split at h
      · next d ds hall =>
        split at h
        · cases h
        · simp only [Res.ok.injEq, Val.num.injEq, Num.dec.injEq] at h
          obtain ⟨y, hy, hyd⟩ := allDecimals_mem _ _ hall r (by rw [← h]; exact minDec_mem ds d)
          exact ⟨hfin y hy r hyd, y, hy, hyd⟩
      · simp [errType] at h

/-- the comparison operators return a boolean or null, `==`/`!=` a boolean: never a number -/
theorem comparison_not_number {op : BinOp} {x y v : Val} (hop : C05.isArith op = false)
    (h : applyBinOp op x y = .ok v) : v = .null ∨ ∃ b, v = .bool b := by
  cases op <;> simp [C05.isArith] at hop
  case eq | ne =>
    simp only [applyBinOp] at h
    cases he : equalR x y <;> simp [he, bind, Res.bind, pure] at h
    exact Or.inr ⟨_, h.symm⟩
  all_goals
    simp only [applyBinOp, less, lessOrEqual, greater, greaterOrEqual, cmpOp, Res.ok.injEq] at h
    subst h
    split
    · exact Or.inl rfl
    · split
      · exact Or.inl rfl
      · exact Or.inr ⟨_, rfl⟩

/-- **NaN and ±Inf never ARISE**: summary for a float-free finite operand `x` (and any `y`) — every numeric operator
    and function returns a finite decimal, a non-number, or an error. -/
theorem never_special_summary {x y v : Val} :
    (∀ op, C05.isArith op = true → applyBinOp op x y = .ok v →
      (∃ n c e, v = .num (.dec (.fin n c e))) ∨ (∃ n m e, v = .num (.f64 (.fin n m e)))) ∧
    (∀ op, C05.isArith op = false → applyBinOp op x y = .ok v → v = .null ∨ ∃ b, v = .bool b) ∧
    (applyFn .sum [x] = .ok v → ∃ n c e, v = .num (.dec (.fin n c e))) ∧
    (applyFn .avg [x] = .ok v → v = .null ∨ ∃ n c e, v = .num (.dec (.fin n c e))) :=
  ⟨fun _ hop h => C05.arith_result_finite hop h, fun _ hop h => comparison_not_number hop h, sum_avg_finite.1,
    sum_avg_finite.2⟩

/-- **pass-through, stated explicitly**: unary minus, unary plus, `abs`, `ceil`, `floor`, `to_number`, `max`, `min`
    have no NaN/Inf check; a NaN or ±Inf decimal INPUT (a `decimal128.Decimal` handed in by the Go caller, or a
    `json.Number` whose text is `"NaN"` / `"Inf"`) comes out again (Go: `abs(NaN)` → `NaN`, `-(+Inf)` → `-Inf`,
    `max([+Inf, 1])` → `+Inf`; checked). -/
theorem special_pass_through {x : Val} (hnf : x.NoFloat) :
    (toDecimal x = some .nan →
      negateVal x = .num (.dec .nan) ∧ applyFn .abs [x] = .ok (.num (.dec .nan)) ∧
      applyFn .ceil [x] = .ok (.num (.dec .nan)) ∧ applyFn .floor [x] = .ok (.num (.dec .nan))) ∧
    (∀ b, toDecimal x = some (.inf b) →
      negateVal x = .num (.dec (.inf (!b))) ∧ applyFn .abs [x] = .ok (.num (.dec (.inf false))) ∧
      applyFn .ceil [x] = .ok (.num (.dec (.inf b))) ∧ applyFn .floor [x] = .ok (.num (.dec (.inf b)))) := by
  obtain ⟨h1, h2, h3, h4⟩ := C05.no_float_unary hnf
  constructor
  · intro hx
    simp only [applyFn]
    rw [h1, h2, h3, h4, hx]
    exact ⟨rfl, rfl, rfl, rfl⟩
  · intro b hx
    simp only [applyFn]
    rw [h1, h2, h3, h4, hx]
    exact ⟨rfl, rfl, rfl, rfl⟩

-- abs(NaN) = NaN for a decimal NaN and for the json.Number "NaN"; max([+Inf, 1]) = +Inf; +NaN and to_number(NaN) too
example : applyFn .abs [.num (.dec .nan)] = .ok (.num (.dec .nan)) :=
  ((special_pass_through (Val.noFloat_dec _)).1 rfl).2.1
example : applyFn .abs [.num (.jnum [0x4E, 0x61, 0x4E])] = .ok (.num (.dec .nan)) :=
  ((special_pass_through (Val.noFloat_jnum _)).1 (by decide)).2.1
example : applyFn .max [.arr .plain [.num (.dec (.inf false)), .num (.dec (.fin false 1 0))]] = .ok (.num (.dec (.inf false))) := by
  simp only [applyFn, arrayMax, allDecimals, toDecimal, Option.map, enum2]
  rw [show maxDec (.inf false) [.fin false 1 0] = .inf false by decide]
  rfl
example : applyFn .toNumber [.num (.dec .nan)] = .ok (.num (.dec .nan)) := rfl
example : ieval .null (.assertNumber .current) (.num (.dec .nan)) [] = .ok (.num (.dec .nan)) := by
  simp [ieval, isNumber]
-- … but every binary operator and sum/avg catch them: NaN + 1, sum([+Inf])
example : applyBinOp .add (.num (.dec .nan)) (.num (.dec (.fin false 1 0))) = .err [Cat.notANumber] := by
  simp only [applyBinOp, add]
  rw [arith_numIs (Or.inl (Val.noFloat_dec _)) rfl rfl]
  rfl
example : applyFn .sum [.arr .plain [.num (.dec (.inf false))]] = .err [Cat.notANumber] := by
  simp only [applyFn]
  rw [C05.sum_is_decimal_fold, show sumDec [.num (.dec (.inf false))] Dec.zero = some (.inf false) by decide]
  rfl
example : ∃ n' c' e', applyFn .ceil [.num (.dec (.fin true 5 (-1)))] = .ok (.num (.dec (.fin n' c' e'))) :=
  (unary_finite (Val.noFloat_dec _) rfl).2.2.1


/-! ## 8. from `applyBinOp` / `applyFn` to `ieval`, `evaluate` and `search`

  The theorems above are stated on `applyBinOp` / `applyFn` / `negateVal`; the evaluator applies exactly these to the
  values of the sub-expressions, and `search` is `evaluate` of the parsed expression. -/

/-- a binary node applies `applyBinOp` to the values of its children -/
theorem binop_node (root : Val) (op : BinOp) (l r : INode) (cur : Val) (env : Env) (a b : Val)
    (ha : ieval root l cur env = .ok a) (hb : ieval root r cur env = .ok b) :
    ieval root (.binop op l r) cur env = applyBinOp op a b := by
  simp [ieval, ha, hb]

/-- a one-argument builtin applies `applyFn` to the value of its argument -/
theorem call1_node (root : Val) (f : Fn) (arg : INode) (cur : Val) (env : Env) (a : Val)
    (ha : ieval root arg cur env = .ok a) : ieval root (.call f [arg]) cur env = applyFn f [a] := by
  simp [ieval, ievalList, ha]

/-- `Search` = `Compile` + `evaluate` -/
theorem search_eq_evaluate {e : Bytes} {n : INode} (h : compile e = .ok n) (d : Val) : search e d = evaluate n d := by
  simp only [compile] at h
  simp [search, h]

/-- for instance: the sum of two literals, evaluated on any document, is exact (the literal operands are the
    json.Number texts the parser stored) -/
theorem add_literals_exact (d : Val) {x y : Val} (hnf : x.NoFloat ∨ y.NoFloat) {n1 n2 : Bool} {C1 C2 : Nat} {E1 E2 : Int}
    (hx : NumIs x n1 C1 E1) (hy : NumIs y n2 C2 E2) (m : Int) (hm1 : m ≤ E1) (hm2 : m ≤ E2) (S : Int)
    (hS : S = sval n1 C1 E1 m + sval n2 C2 E2 m) (hfit : Representable S.natAbs m) :
    ∃ r, evaluate (.binop .add (.lit x) (.lit y)) d = .ok (.num (.dec r)) ∧ Rep m r S := by
  obtain ⟨r, h, hr⟩ := add_exact_eval hnf hx hy m hm1 hm2 S hS hfit
  exact ⟨r, by rw [evaluate, binop_node _ _ _ _ _ _ x y rfl rfl, h], hr⟩

example : ∃ r, evaluate (.binop .add (.lit (.num (.jnum [0x30, 0x2E, 0x31]))) (.lit (.num (.jnum [0x30, 0x2E, 0x32])))) .null =
    .ok (.num (.dec r)) ∧ Rep (-1) r 3 :=
  add_literals_exact .null (Or.inl (Val.noFloat_jnum _))
    (numIs_text_34 false 0x30 [] [0x31] none (by decide) (by decide) (by simp) (by decide) (by decide) (by decide))
    (numIs_text_34 false 0x30 [] [0x32] none (by decide) (by decide) (by simp) (by decide) (by decide) (by decide))
    (-1) (by decide) (by decide) 3 (by decide) (fits_34 (by decide) (by decide) (by decide))
-- "1.10" * "-1.1" = -1.21 : text operands, the product 110·11 at exponent -3
example : applyBinOp .mul (.num (.jnum [0x31, 0x2E, 0x31, 0x30])) (.num (.jnum [0x2D, 0x31, 0x2E, 0x31])) =
    .ok (.num (.dec (normalize (.fin (false != true) (110 * 11) (-2 + -1))))) :=
  mul_exact_eval (Or.inl (Val.noFloat_jnum _))
    (numIs_text_34 false 0x31 [] [0x31, 0x30] none (by decide) (by decide) (by simp) (by decide) (by decide) (by decide))
    (numIs_text_34 true 0x31 [] [0x31] none (by decide) (by decide) (by simp) (by decide) (by decide) (by decide))
    (fits_34 (by decide) (by decide) (by decide))
example : normalize (.fin (false != true) (110 * 11) (-2 + -1)) = .fin true 121 (-2) := by decide


/-! ### further instances (non-vacuity of the statements above) -/

example : Representable (5 * 10 ^ 3) (-3) ↔ Representable 5 ((-3 : Int) + (3 : Nat)) := fits_value 5 3 (-3)
example : Representable 123 (-2) := fits_34_digits (by decide) (by decide) (by decide)
example : NumIs (.num (.int .u64 18446744073709551615)) false 18446744073709551615 0 := numIs_int .u64 18446744073709551615
example : NumIs (.num (.jnum [0x37])) false 7 0 := numIs_of_toDecimal (by decide)
example : ∃ nx, (Val.num (.int .i8 (-3))) = .num nx := (numIs_int .i8 (-3)).isNum
-- 0 / 8 = 0
example : applyBinOp .div (.num (.int .i64 0)) (.num (.int .i64 8)) = .ok (.num (.dec (.fin (false != false) 0 0))) :=
  div_zero_left_eval (Or.inl (Val.noFloat_int _ _)) (numIs_int .i64 0) (numIs_int .i64 8) (by decide)
-- 1 / 3 is the correctly rounded 0.3333…: `div_rounded_eval`
example : ∃ c4 k : Nat, 1 ≤ k ∧ c4 ≤ MAXSIG ∧ CloseD (1 * 10 ^ (40 + ndigits 3)) 3 k c4 ∧
    EMIN ≤ (0 : Int) - 0 - ((40 + ndigits 3 : Nat) : Int) + (k : Int) ∧
    ((0 : Int) - 0 - ((40 + ndigits 3 : Nat) : Int) + (k : Int) = EMIN ∨ 10 ^ 33 ≤ c4) ∧
    applyBinOp .div (.num (.int .i64 1)) (.num (.int .i64 3)) =
      if (0 : Int) - 0 - ((40 + ndigits 3 : Nat) : Int) + (k : Int) > EMAX then .err [Cat.notANumber]
      else .ok (.num (.dec (normalize (.fin (false != false) c4 ((0 : Int) - 0 - ((40 + ndigits 3 : Nat) : Int) + (k : Int)))))) :=
  div_rounded_eval (Or.inl (Val.noFloat_int _ _)) (by decide) (by decide) (by decide) (by decide)
-- reduce below EMIN: 15·10^-6177 → 2·10^-6176
example : ∃ c4 k : Nat, EMIN ≤ (-6177 : Int) + (k : Int) ∧ c4 ≤ MAXSIG ∧ Close 15 k c4 ∧
    ((-6177 : Int) + (k : Int) = EMIN ∨ 10 ^ 33 ≤ c4) ∧
    reduce false 15 (-6177) false =
      if (-6177 : Int) + (k : Int) > EMAX then .inf false else normalize (.fin false c4 ((-6177 : Int) + (k : Int))) :=
  reduce_underflow false 15 (-6177) (by decide)
example : 2 * ((15 : Int) - (2 : Int) * (10 : Int) ^ 1).natAbs ≤ 10 ^ 1 :=
  close_abs_error (show Close 15 1 2 by unfold Close; decide)
-- -(x) and +(x) as nodes
example : ieval .null (.negate (.lit (.num (.dec (.fin false 15 (-1)))))) .null [] =
    .ok (negateVal (.num (.dec (.fin false 15 (-1))))) := negate_node _ _ _ _ _ rfl
example : ieval .null (.assertNumber (.lit (.num (.jnum [0x31, 0x2E, 0x35, 0x30])))) .null [] =
    .ok (.num (.jnum [0x31, 0x2E, 0x35, 0x30])) :=
  plus_node _ _ _ _ _ rfl (numIs_of_toDecimal (show toDecimal _ = some (.fin false 15 (-1)) by decide))
example : applyFn .toNumber [.num (.jnum [0x31])] = .ok (.num (.jnum [0x31])) := to_number_num _
-- to_number("1e7000") is null, to_number("12") a finite decimal
example : applyFn .toNumber [.str [0x31, 0x65, 0x37, 0x30, 0x30, 0x30]] = .ok .null ∨
    ∃ n c e, applyFn .toNumber [.str [0x31, 0x65, 0x37, 0x30, 0x30, 0x30]] = .ok (.num (.dec (.fin n c e))) :=
  to_number_finite _
example : Dec.unmarshalJSON [0x31, 0x65, 0x37, 0x30, 0x30, 0x30] = none := by decide
example : ∀ v, applyFn .sum [.arr .plain [.num (.dec .nan)]] = .ok v → ∃ n c e, v = .num (.dec (.fin n c e)) :=
  fun _ h => sum_avg_finite.1 h
example : ∀ r, applyFn .max [.arr .plain [.num (.int .i64 1), .num (.int .i64 2)]] = .ok (.num (.dec r)) →
    r.isSpecial = false ∧ ∃ x ∈ [Val.num (.int .i64 1), .num (.int .i64 2)], toDecimal x = some r := fun r h =>
  (max_min_finite (fun x hx d hd => by
    simp only [List.mem_cons, List.not_mem_nil, or_false] at hx
    rcases hx with rfl | rfl <;> (simp only [toDecimal, Option.some.injEq] at hd; subst hd; decide))).1 h
example : ∀ v, applyBinOp .lt (.num (.dec .nan)) (.str []) = .ok v → v = .null ∨ ∃ b, v = .bool b :=
  fun _ h => comparison_not_number rfl h
example : ∀ v, applyBinOp .mul (.num (.dec (.inf true))) (.num (.dec (.fin false 2 0))) = .ok v →
    (∃ n c e, v = .num (.dec (.fin n c e))) ∨ (∃ n m e, v = .num (.f64 (.fin n m e))) :=
  fun _ h => never_special_summary.1 .mul rfl h
example : ieval .null (.call .abs [.lit (.num (.dec (.fin true 1 0)))]) .null [] = applyFn .abs [.num (.dec (.fin true 1 0))] :=
  call1_node _ _ _ _ _ _ rfl
example : ∀ n, compile [0x40] = .ok n → ∀ d, search [0x40] d = evaluate n d := fun _ h d => search_eq_evaluate h d
example : ∀ n, compile [0x40] = .ok n → ∀ w, evaluate n (.num (.jnum [0x31])) = .ok w → w.NoFloat :=
  fun _ h _ hw => compiled_search_no_float h (by simp) hw
example : ∀ d w, Json.decode [0x5B, 0x31, 0x2E, 0x35, 0x5D] = some d → search [0x40] d = .ok w → w.NoFloat :=
  fun _ _ hs h => search_json_text_no_float hs h

end Jmes.C05B
