/-
  C11 (fourth wave) — closing the gaps of the third review of C11C.

  ## 1. Renaming by a PARTIAL order-preserving injection

  `C11C.evaluate_rename` needs a renaming that is strictly monotone on all of `Nat`, which forces `c ≤ f c`: characters can
  only move up.  Here (`evaluate_rename_on`, `search_rename_on_text`, `search_rename_on_tree`, `search_rename_sigma`) the
  renaming `g` has to be strictly monotone only on the finite set `D` of code points that occur in the expression and in
  the data (`MonoOn D g`), with `D` and `g D` scalar values (`ScalarOn D g`); it is arbitrary elsewhere.  So `g` may move
  characters down (Greek → Latin), or some up and some down.  The only restriction: at most 0xD800 = 55296 DISTINCT code
  points in `D` (the proof factors `g` through the alphabet `{0, …, |D|-1}`, which must consist of scalar values).
  "Over `D`" is written with the marker `cpIn D`: `RnV (cpIn D) v` ⟺ every string and key in `v` is valid UTF-8 with all
  code points in `D` (`rnB_cpIn_iff`).  `evaluate_rename_on_num`: position-valued results (numbers) coincide.

  ## 2. The side conditions, decided on the parse tree

  * `renOK?  : PTree → Bool` — independent of the renaming: no call of `lower`/`upper`/`to_number`/`to_string`/`type`,
    `trim*` with a non-empty literal cutset, `pad_*` with three arguments, slice tokens are 64-bit integers with step ≠ 0;
    `atomsOver φ t` — every atom and multi-select key can be renamed.  `renOK_of_tree`: together they give `RenOK`.
  * `wellPrec_renT`: `WellPrec t → WellPrec (renT σ t)` when `σ` keeps atoms atoms, identifiers identifiers, keys keys.
  * `lexes_renT`: the text with the renamed tokens re-spelt and all whitespace kept lexes to the tokens of the renamed
    tree, when `σ` keeps a token or replaces it by a well-shaped DELIMITED token (a delimited token never merges with a
    neighbour).
  * `sigmaOf g`: the concrete substitution (names and raw strings re-spelt between quotes, `name ↦ "g(name)"`); the
    condition on `g` is that it maps no character of a name or string to the quote, the backslash or — in a name — a
    control character (`tokClean`).  `sigmaOf_sigWP`, `sigmaOf_rep` hold for every token; `tokAll_sigmaOf` on clean trees.

  ## 3. Invalid UTF-8 on the expression text (`Search` level)

  Each ill-formed byte is ONE position (it decodes to U+FFFD, consuming one byte): `length_any_text`, `slice_any_text`,
  `sliceStep_any_text`, `reverse_any_text`, `find_first_any_text`, `find_last_any_text`, `pad_any_text`,
  `split_empty_any_text`; `length_reverse_any_text`; `reverse_reverse_text_iff` (identity exactly on valid UTF-8).

  ## 4. `trim` and `split`, remaining cases

  Default cutset = Unicode White_Space (`isSpaceRune_iff`, 25 code points), on text (`trim_text` …), empty cutset
  (`trim_empty_text`), invalid subjects (`trimLeftF_steps`, `trimRightF_steps`: an ill-formed byte is trimmed iff U+FFFD is
  in the cutset); `split` on the empty separator on text; one specification for all `(cs, ps, n)` without non-emptiness
  hypotheses (`split_spec`, `split_count_spec`).

  ## 5. `lower` / `upper`: positions are preserved

  `length(lower(s)) = length(s)` in code points for every `s` (valid or not) on which the model answers; the `i`-th code
  point of the result is the case mapping of the `i`-th code point of `s`.
-/
import Jmes.Proofs.C11ESigma
import Jmes.Proofs.C11EInvalid
import Jmes.Proofs.C11ETrim
namespace Jmes.C11E
open Jmes Jmes.Utf8 Jmes.C11 Jmes.C11S Jmes.C11R Jmes.C11V Jmes.Invar Jmes.C11C Jmes.Grammar Jmes.Lexical
open Jmes.C11E.Dom Jmes.C11E.Tree Jmes.C11E.Tok Jmes.C11E.Sigma Jmes.C04C

/-! ## 1. partial renamings -/

/-- "a string is over `D`": valid UTF-8 and every code point in `D` -/
theorem over_iff {D : List Nat} {s : Bytes} :
    rnB (cpIn D) s = true ↔ validUTF8 s = true ∧ ∀ c ∈ decodeAll s, c ∈ D := rnB_cpIn_iff

example : rnB (cpIn [0x68, 0xE9]) [0x68, 0xC3, 0xA9] = true ∧ rnB (cpIn [0x68]) [0x68, 0xC3, 0xA9] = false := by decide

/-- **C11, renaming by a partial order-preserving injection (`Expression.Search`).**  `g` strictly monotone on the code
    points `D` occurring in the inputs, `D` and `g D` scalar values, at most 55296 of them; data and expression over
    `D`, the expression avoiding the non-equivariant builtins (`RenOK`).  Then the renamed expression on the renamed data
    gives the renamed outcome (same error categories, `nondet ↦ nondet`, a value ↦ the renamed value), and a value of
    the original run is over `D` again. -/
theorem evaluate_rename_on {g : Nat → Nat} {D : List Nat} (hm : MonoOn D g) (hs : ScalarOn D g)
    (hk : D.length ≤ 0xD800) {n : INode} {d : Val} (hd : RnV (cpIn D) d = true) (hn : RenOK (cpIn D) n = true) :
    evaluate (renN g n) (renV g d) = mapRes (renV g) (evaluate n d) ∧
    ∀ v, evaluate n d = .ok v → RnV (cpIn D) v = true :=
  Dom.evaluate_rename_on hm hs (Nat.le_trans (sortedDom_length_le D) hk) hd hn

/-- **position-valued results coincide**: if the original run returns a number (a length, a position found by
    `find_first`, a count), a boolean or null, the renamed run returns the same -/
theorem evaluate_rename_on_num {g : Nat → Nat} {D : List Nat} (hm : MonoOn D g) (hs : ScalarOn D g)
    (hk : D.length ≤ 0xD800) {n : INode} {d : Val} (hd : RnV (cpIn D) d = true) (hn : RenOK (cpIn D) n = true) :
    (∀ k, evaluate n d = .ok (.num k) → evaluate (renN g n) (renV g d) = .ok (.num k)) ∧
    (∀ b, evaluate n d = .ok (.bool b) → evaluate (renN g n) (renV g d) = .ok (.bool b)) ∧
    (evaluate n d = .ok .null → evaluate (renN g n) (renV g d) = .ok .null) := by
  have h := (evaluate_rename_on hm hs hk hd hn).1
  refine ⟨fun k e => ?_, fun b e => ?_, fun e => ?_⟩ <;> rw [h, e] <;> simp only [mapRes, renV]

/-- two data/expression pairs "of the same shape" — both obtained from a common pair over `D` by renamings that are
    order-preserving on `D` — give the same numbers -/
theorem same_shape_num {g₁ g₂ : Nat → Nat} {D : List Nat} (hm₁ : MonoOn D g₁) (hs₁ : ScalarOn D g₁)
    (hm₂ : MonoOn D g₂) (hs₂ : ScalarOn D g₂) (hk : D.length ≤ 0xD800) {n : INode} {d : Val}
    (hd : RnV (cpIn D) d = true) (hn : RenOK (cpIn D) n = true) (k : Num) :
    evaluate (renN g₁ n) (renV g₁ d) = .ok (.num k) ↔ evaluate (renN g₂ n) (renV g₂ d) = .ok (.num k) := by
  rw [(evaluate_rename_on hm₁ hs₁ hk hd hn).1, (evaluate_rename_on hm₂ hs₂ hk hd hn).1]
  cases evaluate n d with
  | ok v => cases v <;> simp [mapRes, renV]
  | _ => simp [mapRes]

/-! ### examples (node level): characters move DOWN, or some up and some down -/

/-- Greek/Cyrillic → Latin: `c ↦ c - 0x350`, the inverse direction of `C11R.shift` -/
def down (c : Nat) : Nat := c - 0x350
/-- θ й μ ο ξ α ϊ -/
def domGreek : List Nat := [0x3B1, 0x3B8, 0x3BC, 0x3BE, 0x3BF, 0x3CA, 0x439]

example : MonoOn domGreek down := by unfold MonoOn; decide
example : ScalarOn domGreek down := by unfold ScalarOn; decide
/-- `down` is not monotone on `Nat` (it is constant below 0x350), so `C11C.evaluate_rename` does not apply to it -/
example : ¬ Mono down := fun h => absurd (h 0 1 (by decide)) (by decide)

/-- `[{"ξ": "ϊ"}, {"ξ": "й"}, {"ξ": "α"}]`: the renamed data of `C11C.exData`, now the ORIGINAL -/
def grData : Val := renV shift C11C.exData
/-- `sort_by(@, &ξ)[*].ξ` -/
def grNode : INode := renN shift C11C.exNode

example : RnV (cpIn domGreek) grData = true := by decide
example : RenOK (cpIn domGreek) grNode = true := by decide

/-- Greek data and expression renamed DOWN to Latin: the outcome is renamed down -/
example : evaluate (renN down grNode) (renV down grData) = mapRes (renV down) (evaluate grNode grData) :=
  (evaluate_rename_on (D := domGreek) (by unfold MonoOn; decide) (by unfold ScalarOn; decide) (by decide)
    (by decide) (by decide)).1

/-- … and the renamed inputs are the Latin originals of `C11C` -/
example : renV down grData = C11C.exData ∧ renN down grNode = C11C.exNode := ⟨by rfl, by rfl⟩

/-- a renaming that moves `a`, `n` down (to `A`, `N`) and `z`, `é` up (to `é`, `α`): monotone on `{a, n, z, é}` only -/
def mixed (c : Nat) : Nat :=
  if c = 0x61 then 0x41 else if c = 0x6E then 0x4E else if c = 0x7A then 0xE9 else if c = 0xE9 then 0x3B1 else 0
def domMixed : List Nat := [0x61, 0x6E, 0x7A, 0xE9]

example : evaluate (renN mixed C11C.exNode) (renV mixed C11C.exData)
    = mapRes (renV mixed) (evaluate C11C.exNode C11C.exData) :=
  (evaluate_rename_on (D := domMixed) (by unfold MonoOn; decide) (by unfold ScalarOn; decide) (by decide)
    (by decide) (by decide)).1

/-! ### text level -/

/-- **`Search` on expression text, partial renaming**: `e`, `e'` are texts of well-formed parse trees `t`, `t'` whose
    nodes are related by `renN g`; then searching the renamed data with `e'` gives the renamed outcome. -/
theorem search_rename_on_text {g : Nat → Nat} {D : List Nat} (hm : MonoOn D g) (hs : ScalarOn D g)
    (hk : D.length ≤ 0xD800) {t t' : PTree} (ht : WellPrec t) (ht' : WellPrec t') {e e' : Bytes}
    (he : C17B.Lexes e (Grammar.flatten t)) (he' : C17B.Lexes e' (Grammar.flatten t'))
    (hren : erase t' = renN g (erase t)) (hok : RenOK (cpIn D) (erase t) = true) {d : Val}
    (hd : RnV (cpIn D) d = true) : search e' (renV g d) = mapRes (renV g) (search e d) := by
  rw [(C17B.text ht he).2 d, (C17B.text ht' he').2 (renV g d), hren]
  exact (evaluate_rename_on hm hs hk hd hok).1

/-- **the renamed text is given**: `t` well formed, `e` its text, `e'` a text of the tree renamed by the token
    substitution `σ`.  Everything else is a syntactic check on `t` (`renOK?`, `atomsOver`) or a property of `σ`
    (`SigWP`; `TokAll`: the renamed atom denotes the renamed node). -/
theorem search_rename_on_tree {g : Nat → Nat} {D : List Nat} (hm : MonoOn D g) (hs : ScalarOn D g)
    (hk : D.length ≤ 0xD800) (σ : Token → Token) {t : PTree} (ht : WellPrec t) (hwp : SigWP σ)
    (htok : TokAll g σ t) (hr : renOK? t = true) (ho : atomsOver (cpIn D) t = true) {e e' : Bytes}
    (he : C17B.Lexes e (Grammar.flatten t)) (he' : C17B.Lexes e' (Grammar.flatten (renT σ t))) {d : Val}
    (hd : RnV (cpIn D) d = true) : search e' (renV g d) = mapRes (renV g) (search e d) :=
  search_rename_on_text hm hs hk ht (wellPrec_renT hwp ht) he he'
    (Tok.erase_renT (keyEmb_on hm hs (Nat.le_trans (sortedDom_length_le D) hk)) t htok ho) (renOK_of_tree hr ho) hd

/-- **the renamed text is constructed**: the text `e` is a layout `w0 t1 w1 … tk wk` of the tokens of `t`; the text with
    the same whitespace and the tokens of `renT σ t` parses to the renamed expression, and searching the renamed data
    with it gives the renamed outcome. -/
theorem search_rename_on_layout {g : Nat → Nat} {D : List Nat} (hm : MonoOn D g) (hs : ScalarOn D g)
    (hk : D.length ≤ 0xD800) (σ : Token → Token) {t : PTree} (ht : WellPrec t) (hwp : SigWP σ)
    (hrep : ∀ tok, Rep tok (σ tok)) (htok : TokAll g σ t) (hr : renOK? t = true)
    (ho : atomsOver (cpIn D) t = true) {e : Bytes} (he : C17B.Lexes e (Grammar.flatten t)) {d : Val}
    (hd : RnV (cpIn D) d = true) :
    ∃ (w0 : Bytes) (l : List (Token × Bytes)), Ws w0 ∧ e = layout w0 l ∧ l.map (·.1) = Grammar.flatten t ∧
      search (layout w0 (retok l (Grammar.flatten (renT σ t)))) (renV g d) = mapRes (renV g) (search e d) := by
  obtain ⟨w0, l, hw0, rfl, hmap, he'⟩ := lexes_renT hrep he
  exact ⟨w0, l, hw0, rfl, hmap, search_rename_on_tree hm hs hk σ ht hwp htok hr ho he he' hd⟩

/-- **with the concrete substitution `sigmaOf g`** (`name ↦ "g(name)"`, `"body" ↦ "g(body)"`, `'body' ↦ 'g(body)'`): all
    hypotheses are checks on the tree — `renOK?`, `atomsOver (cpIn D)`, `sigmaOK g` (the renamed names and strings contain
    no quote, backslash or control character; JSON literals contain only characters fixed by `g`). -/
theorem search_rename_sigma {g : Nat → Nat} {D : List Nat} (hm : MonoOn D g) (hs : ScalarOn D g)
    (hk : D.length ≤ 0xD800) {t : PTree} (ht : WellPrec t) (hr : renOK? t = true)
    (ho : atomsOver (cpIn D) t = true) (hc : sigmaOK g t = true) {e : Bytes}
    (he : C17B.Lexes e (Grammar.flatten t)) {d : Val} (hd : RnV (cpIn D) d = true) :
    ∃ (w0 : Bytes) (l : List (Token × Bytes)), Ws w0 ∧ e = layout w0 l ∧ l.map (·.1) = Grammar.flatten t ∧
      search (layout w0 (retok l (Grammar.flatten (renT (sigmaOf g) t)))) (renV g d)
        = mapRes (renV g) (search e d) :=
  search_rename_on_layout hm hs hk (sigmaOf g) ht (sigmaOf_sigWP g) (sigmaOf_rep g) (tokAll_sigmaOf hc) hr ho he hd

/-- the same for a total strictly monotone renaming (`C11C.search_rename_tree` with its side conditions discharged):
    no bound on the number of code points -/
theorem search_rename_sigma_mono {f : Nat → Nat} (hm : Mono f) {t : PTree} (ht : WellPrec t)
    (hr : renOK? t = true) (ho : atomsOver f t = true) (hc : sigmaOK f t = true) {e : Bytes}
    (he : C17B.Lexes e (Grammar.flatten t)) {d : Val} (hd : RnV f d = true) :
    ∃ (w0 : Bytes) (l : List (Token × Bytes)), Ws w0 ∧ e = layout w0 l ∧ l.map (·.1) = Grammar.flatten t ∧
      search (layout w0 (retok l (Grammar.flatten (renT (sigmaOf f) t)))) (renV f d)
        = mapRes (renV f) (search e d) := by
  obtain ⟨w0, l, hw0, rfl, hmap, he'⟩ := lexes_renT (sigmaOf_rep f) he
  exact ⟨w0, l, hw0, rfl, hmap,
    C11C.search_rename_tree hm (sigmaOf f) ht (wellPrec_renT (sigmaOf_sigWP f) ht) (tokAll_sigmaOf hc) he he'
      (renOK_of_tree hr ho) hd⟩

/-! ### example (text level): `"ζοο"[?"α" == 'ψ']."β"` ↦ `"foo"[?"a" == 'x']."b"`, Greek → Latin -/

/-- `"ζοο"[?"α" == 'ψ']."β"` -/
def grTree : PTree := renT C11C.sigmaShift C11C.exTree
/-- the renamed document of `C11C.exDoc` -/
def grDoc : Val := renV shift C11C.exDoc
/-- ζ ο α ψ β θ й μ ω ϊ (the letters of the expression and of the document) -/
def domGr2 : List Nat := [0x3B1, 0x3B2, 0x3B6, 0x3B8, 0x3BC, 0x3BF, 0x3C8, 0x3C9, 0x3CA, 0x439]

example : WellPrec grTree := by decide
example : renOK? grTree = true := by decide
example : atomsOver (cpIn domGr2) grTree = true := by decide
example : sigmaOK down grTree = true := by decide
example : RnV (cpIn domGr2) grDoc = true := by decide
/-- the re-spelt tree is `"foo"[?"a" == 'x']."b"` -/
example : Grammar.flatten (renT (sigmaOf down) grTree)
    = [⟨.quotedIdentifier, Ex.bs "\"foo\""⟩, tFilter, ⟨.quotedIdentifier, Ex.bs "\"a\""⟩, Ex.op .equal "==",
       ⟨.stringLiteral, Ex.bs "'x'"⟩, tRBracket, tDot, ⟨.quotedIdentifier, Ex.bs "\"b\""⟩] := by decide

/-- searching the Latin document with the Latin text gives the Latin renaming of the Greek result -/
example : search (Ex.bs "\"foo\"[?\"a\" == 'x'].\"b\"") (renV down grDoc)
    = mapRes (renV down) (search C11C.exText' grDoc) :=
  search_rename_on_tree (D := domGr2) (by unfold MonoOn; decide) (by unfold ScalarOn; decide) (by decide)
    (sigmaOf down) (t := grTree) (by decide) (sigmaOf_sigWP down) (tokAll_sigmaOf (by decide)) (by decide) (by decide)
    (by decide +kernel) (by decide) (by decide)

/-- the same through `search_rename_sigma`, which constructs the Latin text from the layout of the Greek one -/
example : ∃ (w0 : Bytes) (l : List (Token × Bytes)), Ws w0 ∧ C11C.exText' = layout w0 l ∧
    l.map (·.1) = Grammar.flatten grTree ∧
    search (layout w0 (retok l (Grammar.flatten (renT (sigmaOf down) grTree)))) (renV down grDoc)
      = mapRes (renV down) (search C11C.exText' grDoc) :=
  search_rename_sigma (D := domGr2) (by unfold MonoOn; decide) (by unfold ScalarOn; decide) (by decide)
    (t := grTree) (by decide) (by decide) (by decide) (by decide) (by decide +kernel) (by decide)

/-! ## 2. the side conditions, on the parse tree -/

/-- **`RenOK` is decided on the parse tree**: `renOK? t` (builtin names and argument shapes, slice tokens — independent of
    the renaming) and `atomsOver φ t` (atoms and multi-select keys can be renamed by `φ`) give `RenOK φ (erase t)` -/
theorem renOK_of_tree {φ : Nat → Nat} {t : PTree} (hr : renOK? t = true) (ho : atomsOver φ t = true) :
    RenOK φ (erase t) = true := Tree.renOK_of_tree hr ho

example : renOK? C11C.exTree = true ∧ atomsOver shift C11C.exTree = true := by decide
/-- `lower(@)`, `trim(@)`, ``trim(@, `" "`)`` with a JSON cutset is fine, `pad_left(@, `5`)` is not -/
example : renOK? (.call ⟨.unquotedIdentifier, Ex.bs "lower"⟩ [.atom ⟨.current, Ex.bs "@"⟩]) = false := by decide
example : renOK? (.call ⟨.unquotedIdentifier, Ex.bs "trim"⟩ [.atom ⟨.current, Ex.bs "@"⟩]) = false := by decide
example : renOK? (.call ⟨.unquotedIdentifier, Ex.bs "trim"⟩
    [.atom ⟨.current, Ex.bs "@"⟩, .atom ⟨.stringLiteral, Ex.bs "'xy'"⟩]) = true := by decide
example : renOK? (.call ⟨.unquotedIdentifier, Ex.bs "pad_left"⟩
    [.atom ⟨.current, Ex.bs "@"⟩, .atom ⟨.jsonLiteral, Ex.bs "`5`"⟩]) = false := by decide

/-- **the renamed tree is well formed**, for a token substitution that keeps atoms atoms, identifiers identifiers and
    member keys member keys -/
theorem wellPrec_renT {σ : Token → Token} (hσ : SigWP σ) {t : PTree} (h : WellPrec t) : WellPrec (renT σ t) :=
  Tok.wellPrec_renT hσ h

example : WellPrec (renT (sigmaOf shift) C11C.exTree) := wellPrec_renT (sigmaOf_sigWP shift) (by decide)

/-- **the renamed text lexes**: same whitespace, re-spelt tokens — when `σ` keeps a token or replaces it by a well-shaped
    delimited token -/
theorem lexes_renT {σ : Token → Token} (hσ : ∀ tok, Rep tok (σ tok)) {t : PTree} {e : Bytes}
    (he : C17B.Lexes e (Grammar.flatten t)) :
    ∃ (w0 : Bytes) (l : List (Token × Bytes)), Ws w0 ∧ e = layout w0 l ∧ l.map (·.1) = Grammar.flatten t ∧
      C17B.Lexes (layout w0 (retok l (Grammar.flatten (renT σ t)))) (Grammar.flatten (renT σ t)) :=
  Tok.lexes_renT hσ he

/-- the layout of `foo[?a == 'x'].b` (one blank on each side of `==`) with the tokens of the renamed tree is the text
    `"ζοο"[?"α" == 'ψ']."β"` -/
example : layout []
    (retok [(⟨.unquotedIdentifier, Ex.bs "foo"⟩, []), (tFilter, []), (⟨.unquotedIdentifier, Ex.bs "a"⟩, [0x20]),
            (Ex.op .equal "==", [0x20]), (⟨.stringLiteral, Ex.bs "'x'"⟩, []), (tRBracket, []), (tDot, []),
            (⟨.unquotedIdentifier, Ex.bs "b"⟩, [])]
      (Grammar.flatten (renT (sigmaOf shift) C11C.exTree))) = C11C.exText' := by decide

/-- the concrete substitution satisfies both hypotheses for EVERY token, and `TokAll` on a clean tree -/
theorem sigmaOf_ok (g : Nat → Nat) : SigWP (sigmaOf g) ∧ ∀ tok, Rep tok (sigmaOf g tok) :=
  ⟨sigmaOf_sigWP g, sigmaOf_rep g⟩

theorem tokAll_sigmaOf {g : Nat → Nat} {t : PTree} (h : sigmaOK g t = true) : TokAll g (sigmaOf g) t :=
  Sigma.tokAll_sigmaOf h

/-- what goes wrong without the condition: a renaming that sends `a` to the double quote does not give a quoted
    identifier; `sigmaOf` leaves such a token alone, and `sigmaOK` reports it -/
example : sigmaOK (fun c => if c = 0x61 then 0x22 else c) (Ex.idt "a") = false := by decide

/-! ## 3. invalid UTF-8: every ill-formed byte is ONE position (through `Search` on expression text)

  `s : Bytes` is ARBITRARY below (no `validUTF8`, no `Scalars`).  `decodeAll s` is the list of code points of the decoding
  steps (U+FFFD for an ill-formed byte, which consumes one byte), `runePieces s` the list of the byte pieces the steps
  consume; `Inv.steps s` pairs them.  Proofs: `Jmes/Proofs/C11EInvalid.lean`. -/

/-- the decoding steps of ANY byte string: the pieces concatenate to the string; every step is a non-empty piece with a
    scalar code point, EITHER the well-formed encoding of that code point OR one ill-formed byte decoded as U+FFFD -/
theorem decoding_steps (s : Bytes) :
    (runePieces s).flatten = s ∧ decodeAll s = (Inv.steps s).map Prod.fst ∧ runePieces s = (Inv.steps s).map Prod.snd ∧
    (∀ st ∈ Inv.steps s, st.2 ≠ [] ∧ isScalar st.1 = true ∧
      (st.2 = encodeRune st.1 ∨ (st.1 = RuneError ∧ ∃ b, st.2 = [b]))) :=
  ⟨Inv.pieces_flatten s, (Inv.steps_fst s).symm, (Inv.steps_snd s).symm, fun _ h => Inv.stepOK_of_mem h⟩

/-- an ill-formed byte (C0, C1, F5..FF: in no well-formed sequence) inserted ANYWHERE is exactly one more position and
    leaves the positions on both sides as they are -/
theorem invalid_byte_one_position (a b : Bytes) (x : Nat) (h : x = 0xC0 ∨ x = 0xC1 ∨ 0xF5 ≤ x) :
    Inv.steps (a ++ x :: b) = Inv.steps a ++ (RuneError, [x]) :: Inv.steps b ∧
    (decodeAll (a ++ x :: b)).length = (decodeAll a).length + 1 + (decodeAll b).length :=
  ⟨Inv.steps_insert_never a b x h, Inv.length_insert_never a b x h⟩

/-- re-encoding the code points gives the string back exactly when it is valid UTF-8 -/
theorem reencode_eq_iff (s : Bytes) : encodeAll (decodeAll s) = s ↔ validUTF8 s = true := Inv.reencode_eq_iff s

/-- **`length(@)`** of any string: the number of decoding steps -/
theorem length_any_text (s : Bytes) :
    search (Ex.bs "length(@)") (.str s) = .ok (.num (.int .i64 (decodeAll s).length)) := Inv.length_text s

/-- "a", FF, "é", a truncated C3: 5 bytes, 4 positions -/
example : search (Ex.bs "length(@)") (.str [0x61, 0xFF, 0xC3, 0xA9, 0xC3]) = .ok (.num (.int .i64 4)) := by
  rw [length_any_text]; rfl

/-- **`reverse(@)`** of any string: the code points reversed and re-encoded (an ill-formed byte comes out as EF BF BD) -/
theorem reverse_any_text (s : Bytes) :
    search (Ex.bs "reverse(@)") (.str s) = .ok (.str (encodeAll (decodeAll s).reverse)) := Inv.reverse_text s

/-- **`length(reverse(@)) = length(@)`** for ALL strings -/
theorem length_reverse_any_text (s : Bytes) :
    search (Ex.bs "length(reverse(@))") (.str s) = search (Ex.bs "length(@)") (.str s) := Inv.length_reverse_text s

/-- **`reverse(reverse(@))`**: the re-encoding of the string; the identity exactly on valid UTF-8 -/
theorem reverse_reverse_any_text (s : Bytes) :
    search (Ex.bs "reverse(reverse(@))") (.str s) = .ok (.str (encodeAll (decodeAll s))) ∧
    (search (Ex.bs "reverse(reverse(@))") (.str s) = .ok (.str s) ↔ validUTF8 s = true) :=
  ⟨Inv.reverse_reverse_text s, Inv.reverse_reverse_text_iff s⟩

/-- the counterexample on invalid input: 5 bytes come back as 9 -/
example : search (Ex.bs "reverse(reverse(@))") (.str [0x61, 0xFF, 0xC3, 0xA9, 0xC3])
    ≠ .ok (.str [0x61, 0xFF, 0xC3, 0xA9, 0xC3]) := by
  rw [Ne, (reverse_reverse_any_text _).2]; decide

/-- **`@[a:b]`** of any string (`ta`, `tb` the integer tokens of `ia`, `ib`): the pieces `a ≤ i < b` of `runePieces s` after
    clamping against the NUMBER OF PIECES, concatenated — the original bytes -/
theorem slice_any_text (ta tb : Token) (ia ib : Int) (ha : intOf ta = some ia) (hb : intOf tb = some ib) (e : Bytes)
    (hwp : WellPrec (Inv.sliceT (some ta) (some tb) none))
    (hl : C17B.Lexes e (Grammar.flatten (Inv.sliceT (some ta) (some tb) none))) (s : Bytes) :
    search e (.str s) = .ok (.str (Inv.subPieces (runePieces s) ia ib).flatten) :=
  Inv.slice1_text ta tb ia ib ha hb e hwp hl s

example : search (Ex.bs "@[1:3]") (.str [0x61, 0xFF, 0xC3, 0xA9, 0xC3]) = .ok (.str [0xFF, 0xC3, 0xA9]) := by
  rw [slice_any_text (Ex.int "1") (Ex.int "3") 1 3 (by decide) (by decide) _ (by decide) (by decide)]
  exact Inv.ok_str (by decide)

/-- **`@[a:b:c]`**, `c ∉ {0, 1}`, of any string: the selected code points of `decodeAll s`, re-encoded -/
theorem sliceStep_any_text (a b : Option Token) (tc : Token) (ic : Int) (hc : intOf tc = some ic) (h0 : ic ≠ 0)
    (h1 : ic ≠ 1) (e : Bytes) (hwp : WellPrec (Inv.sliceT a b (some (some tc))))
    (hl : C17B.Lexes e (Grammar.flatten (Inv.sliceT a b (some (some tc))))) (s : Bytes) :
    search e (.str s) = .ok (.str (encodeAll (C11.stepCodepointsRaw (decodeAll s)
      ((a.bind intOf).getD (if ic < 0 then maxInt else 0))
      ((b.bind intOf).getD (if ic < 0 then minInt else maxInt)) ic))) :=
  Inv.sliceStep_text a b tc ic hc h0 h1 e hwp hl s

example : search (Ex.bs "@[::2]") (.str [0x61, 0xFF, 0xC3, 0xA9, 0xC3]) = .ok (.str [0x61, 0xC3, 0xA9]) := by
  rw [sliceStep_any_text none none (Ex.int "2") 2 (by decide) (by decide) (by decide) _ (by decide) (by decide)]
  exact Inv.ok_str (by decide)

/-- **`split(@, '')`** of any string: one element per decoding step, original bytes -/
theorem split_empty_any_text (s : Bytes) :
    search (Ex.bs "split(@, '')") (.str s) = .ok (strsToArr (runePieces s)) ∧
    (runePieces s).flatten = s ∧ (runePieces s).length = (decodeAll s).length := Inv.split_empty_text s

/-- **`find_first(@, 'p')`** on any string (`p` a literal whose first byte is not a continuation byte: every non-empty
    literal the lexer lets through): the number of code points before the byte offset of the first match, which is
    always a boundary between decoding steps -/
theorem find_first_any_text (tp : Token) (p : Bytes) (b0 : Nat) (t : Bytes)
    (h : atomNode tp = some (.lit (.str p))) (hp : p = b0 :: t) (hb : isCont b0 = false) (e : Bytes)
    (hwp : WellPrec (Inv.call2 "find_first" tp)) (hl : C17B.Lexes e (Grammar.flatten (Inv.call2 "find_first" tp)))
    (s : Bytes) :
    search e (.str s) =
      (match indexOf s p with
       | none => .ok .null
       | some off => .ok (.num (.int .i64 (decodeAll (s.take off)).length))) ∧
    ∀ off, indexOf s p = some off →
      decodeAll s = decodeAll (s.take off) ++ decodeAll (s.drop off) ∧
      runePieces s = runePieces (s.take off) ++ runePieces (s.drop off) :=
  Inv.find_first_text tp p b0 t h hp hb e hwp hl s

/-- `find_last(@, 'p')` likewise -/
theorem find_last_any_text (tp : Token) (p : Bytes) (b0 : Nat) (t : Bytes)
    (h : atomNode tp = some (.lit (.str p))) (hp : p = b0 :: t) (hb : isCont b0 = false) (e : Bytes)
    (hwp : WellPrec (Inv.call2 "find_last" tp)) (hl : C17B.Lexes e (Grammar.flatten (Inv.call2 "find_last" tp)))
    (s : Bytes) :
    search e (.str s) =
      (match lastIndexOf s p with
       | none => .ok .null
       | some off => .ok (.num (.int .i64 (decodeAll (s.take off)).length))) ∧
    ∀ off, lastIndexOf s p = some off →
      decodeAll s = decodeAll (s.take off) ++ decodeAll (s.drop off) ∧
      runePieces s = runePieces (s.take off) ++ runePieces (s.drop off) :=
  Inv.find_last_text tp p b0 t h hp hb e hwp hl s

/-- `find_first(@, 'é')` on 61 FF C3 A9 C3: byte offset 2, position 2 (the ill-formed FF counts one) -/
example : search Inv.findEacute (.str [0x61, 0xFF, 0xC3, 0xA9, 0xC3]) = .ok (.num (.int .i64 2)) := by
  rw [(find_first_any_text Inv.tEacute [0xC3, 0xA9] 0xC3 [0xA9] rfl rfl (by decide) Inv.findEacute (by decide)
    (by decide +kernel) _).1]; rfl

/-- **`pad_left(@, w, 'c')` / `pad_right(@, w, 'c')`** on any string: `w - length(s)` pad characters (ill-formed bytes of `s`
    counting one each), the bytes of `s` untouched, the result has exactly `w` code points -/
theorem pad_any_text (left : Bool) (tw tp : Token) (wv : Val) (w : Int) (c : Nat)
    (h1 : atomNode tw = some (.lit wv)) (hw : intArg wv = .ok w) (h2 : atomNode tp = some (.lit (.str (encodeRune c))))
    (hc : isScalar c = true) (e : Bytes)
    (hwp : WellPrec (Inv.call3 (if left then "pad_left" else "pad_right") tw tp))
    (hl : C17B.Lexes e (Grammar.flatten (Inv.call3 (if left then "pad_left" else "pad_right") tw tp)))
    (s : Bytes) (hw0 : 0 ≤ w) (hlim : w - runeCount s ≤ padLimit) :
    search e (.str s) =
      (if w ≤ runeCount s then .ok (.str s)
       else .ok (.str (if left then encodeAll (List.replicate (w - runeCount s).toNat c) ++ s
                       else s ++ encodeAll (List.replicate (w - runeCount s).toNat c)))) ∧
    (runeCount s < w →
      runeCount (if left then encodeAll (List.replicate (w - runeCount s).toNat c) ++ s
                 else s ++ encodeAll (List.replicate (w - runeCount s).toNat c)) = w.toNat) :=
  Inv.pad_text left tw tp wv w c h1 hw h2 hc e hwp hl s hw0 hlim

/-! ## 4. `trim` and `split`: default cutset, empty separator, invalid subjects (`Jmes/Proofs/C11ETrim.lean`) -/

/-- **the default cutset is the Unicode White_Space set** (Go's `unicode.IsSpace`): 25 code points -/
theorem isSpaceRune_iff (r : Nat) :
    isSpaceRune r = true ↔ r ∈ [0x09, 0x0A, 0x0B, 0x0C, 0x0D, 0x20, 0x85, 0xA0, 0x1680, 0x2000, 0x2001, 0x2002, 0x2003,
      0x2004, 0x2005, 0x2006, 0x2007, 0x2008, 0x2009, 0x200A, 0x2028, 0x2029, 0x202F, 0x205F, 0x3000] := by
  rw [Trim.isSpaceRune_iff]; rfl

/-- **`trim(@)`, `trim_left(@)`, `trim_right(@)` on text**: whole white-space CODE POINTS are dropped at the ends -/
theorem trim_text (cs : List Nat) (h : Scalars cs) :
    search (Ex.bs "trim(@)") (.str (encodeAll cs)) = .ok (.str (encodeAll (Trim.cpTrimSpace cs))) ∧
    search (Ex.bs "trim_left(@)") (.str (encodeAll cs)) = .ok (.str (encodeAll (cs.dropWhile isSpaceRune))) ∧
    search (Ex.bs "trim_right(@)") (.str (encodeAll cs))
      = .ok (.str (encodeAll (cs.reverse.dropWhile isSpaceRune).reverse)) :=
  ⟨Trim.trim_text cs h, Trim.trim_left_text cs h, Trim.trim_right_text cs h⟩

/-- what is kept: `cs = a ++ kept ++ b`, `a` and `b` white space, `kept` neither starting nor ending with white space -/
theorem trim_decomp (cs : List Nat) :
    ∃ a b, cs = a ++ Trim.cpTrimSpace cs ++ b ∧ (∀ r ∈ a, isSpaceRune r = true) ∧ (∀ r ∈ b, isSpaceRune r = true) ∧
      (∀ r, (Trim.cpTrimSpace cs).head? = some r → isSpaceRune r = false) ∧
      (∀ r, (Trim.cpTrimSpace cs).getLast? = some r → isSpaceRune r = false) := Trim.cpTrimSpace_decomp cs

/-- NBSP (C2 A0) and U+3000 (E3 80 80) are removed whole; "à" = C3 A0, whose second byte is A0, stays -/
example : search (Ex.bs "trim(@)") (.str (encodeAll [0xA0, 0xE0, 0x3000]))
    = .ok (.str [0xC3, 0xA0]) := by rw [(trim_text _ (by unfold Scalars; decide)).1]; rfl

/-- **the empty cutset is the default cutset**, for every document (type errors included) -/
theorem trim_empty_text (d : Val) :
    search (Ex.bs "trim(@, '')") d = search (Ex.bs "trim(@)") d ∧
    search (Ex.bs "trim_left(@, '')") d = search (Ex.bs "trim_left(@)") d ∧
    search (Ex.bs "trim_right(@, '')") d = search (Ex.bs "trim_right(@)") d :=
  ⟨Trim.trim_empty_text d, Trim.trim_left_empty_text d, Trim.trim_right_empty_text d⟩

/-- `trim(s, cut)` for ANY valid cutset (empty or not), in code points -/
theorem trim_codepoints_any (cs cut : List Nat) (hcs : Scalars cs) (hcut : Scalars cut) :
    trim (.str (encodeAll cs)) (.str (encodeAll cut))
      = .ok (.str (encodeAll (if cut = [] then Trim.cpTrimSpace cs else cpTrimRight cut (cpTrimLeft cut cs)))) :=
  Trim.trim_codepoints_any cs cut hcs hcut

/-- **invalid subjects**: trimming drops the leading (trailing) decoding steps whose code point — U+FFFD for an ill-formed
    byte — satisfies the predicate and keeps the ORIGINAL bytes of the rest -/
theorem trim_steps (p : Nat → Bool) (s : Bytes) :
    trimLeftF p s = (((Trim.runeSteps s).dropWhile (fun x => p x.1)).map (·.2)).flatten ∧
    trimRightF p s = (((Trim.lastSteps s).dropWhile (fun x => p x.1)).map (·.2)).reverse.flatten ∧
    (Trim.runeSteps s).map (·.1) = decodeAll s ∧ ((Trim.runeSteps s).map (·.2)).flatten = s ∧
    ((Trim.lastSteps s).map (·.2)).reverse.flatten = s :=
  ⟨Trim.trimLeftF_steps p s, Trim.trimRightF_steps p s, Trim.runeSteps_fst s, Trim.runeSteps_flatten s,
    Trim.lastSteps_flatten s⟩

/-- a leading ill-formed byte is trimmed exactly when U+FFFD is in the cutset (never by the default cutset) -/
theorem trim_invalid_head (s cut : Bytes) (hc : cut ≠ []) (h : decodeRune s = (RuneError, 1)) :
    trimLeft (.str s) (.str cut)
      = (if inCutset cut RuneError then trimLeft (.str (s.drop 1)) (.str cut) else .ok (.str s)) ∧
    trimSpaceLeft (.str s) = .ok (.str s) :=
  ⟨Trim.trimLeft_invalid_head s cut hc h, Trim.trimSpaceLeft_invalid_head s h⟩

/-- **`split(@, '')` on text**: one piece per code point -/
theorem split_empty_text (cs : List Nat) (h : Scalars cs) :
    search (Ex.bs "split(@, '')") (.str (encodeAll cs)) = .ok (strsToArr (cs.map encodeRune)) :=
  Trim.split_empty_text cs h

/-- "héllo": five pieces, "é" whole -/
example : search (Ex.bs "split(@, '')") (.str (encodeAll [0x68, 0xE9, 0x6C, 0x6C, 0x6F]))
    = .ok (.arr .plain [.str [0x68], .str [0xC3, 0xA9], .str [0x6C], .str [0x6C], .str [0x6F]]) := by
  rw [split_empty_text _ (by unfold Scalars; decide)]; rfl

/-- **one specification of `split(s, sep)` and `split(s, sep, n)` for all subjects, separators and counts** (no
    non-emptiness hypotheses): `Trim.SplitSpec` — count 0: `[s]`; empty subject: `[]`; empty separator: one piece per code
    point, the rest whole after `n` cuts; otherwise the leftmost split — has exactly one solution, the one the builtin
    returns -/
theorem split_spec (cs ps : List Nat) (hcs : Scalars cs) (hps : Scalars ps) :
    (∃ pieces, Trim.SplitSpec ps none cs pieces ∧ (∀ q, Trim.SplitSpec ps none cs q → q = pieces) ∧
      split (.str (encodeAll cs)) (.str (encodeAll ps)) = .ok (strsToArr (pieces.map encodeAll))) ∧
    (∀ {v : Val} {n : Int}, intArg v = .ok n → 0 ≤ n → ∀ pieces, Trim.SplitSpec ps (some n.toNat) cs pieces →
      splitCount (.str (encodeAll cs)) (.str (encodeAll ps)) v = .ok (strsToArr (pieces.map encodeAll))) :=
  ⟨Trim.split_spec_unique cs ps hcs hps, fun hv hn pieces h => Trim.split_count_spec cs ps hcs hps hv hn pieces h⟩

/-! ## 5. `lower` / `upper` keep positions -/

/-- **`length(lower(s)) = length(s)`, `length(upper(s)) = length(s)` in code points**, for EVERY string (valid or not) on
    which the model answers: the case tables map code point to code point, and the `i`-th code point of the result is the
    mapping of the `i`-th code point of `s` -/
theorem case_positions {s out : Bytes} :
    (lower (.str s) = .ok (.str out) →
      runeCount out = runeCount s ∧ ∀ i : Nat, (decodeAll out)[i]? = (decodeAll s)[i]?.bind lowerRune) ∧
    (upper (.str s) = .ok (.str out) →
      runeCount out = runeCount s ∧ ∀ i : Nat, (decodeAll out)[i]? = (decodeAll s)[i]?.bind upperRune) :=
  ⟨fun h => ⟨Trim.lower_length h, Trim.lower_index h⟩, fun h => ⟨Trim.upper_length h, Trim.upper_index h⟩⟩

/-- on text -/
theorem length_case_text (s : Bytes) :
    (∀ v, search (Ex.bs "lower(@)") (.str s) = .ok v →
      search (Ex.bs "length(lower(@))") (.str s) = search (Ex.bs "length(@)") (.str s)) ∧
    (∀ v, search (Ex.bs "upper(@)") (.str s) = .ok v →
      search (Ex.bs "length(upper(@))") (.str s) = search (Ex.bs "length(@)") (.str s)) :=
  ⟨fun _ h => Trim.length_lower_text s h, fun _ h => Trim.length_upper_text s h⟩

/-- the outcome of `lower` / `upper` on a string is a string or `unmodelled` (outside the modelled alphabets), never
    an error; every table entry sends a scalar value to a scalar value -/
theorem case_total (s : Bytes) :
    ((∃ out, lower (.str s) = .ok (.str out)) ∨ ∃ w, lower (.str s) = .unmodelled w) ∧
    (∀ r r', isScalar r = true → lowerRune r = some r' → isScalar r' = true) ∧
    (∀ r r', isScalar r = true → upperRune r = some r' → isScalar r' = true) :=
  ⟨(Trim.lower_total s).imp id (fun h => ⟨_, h⟩), fun _ _ => Trim.lowerRune_scalar, fun _ _ => Trim.upperRune_scalar⟩

/-- on valid input even the BYTE length is kept by the modelled tables; "ÿ" C3 BF ↦ "Ÿ" C5 B8, "µ" C2 B5 ↦ "Μ" CE 9C -/
theorem case_byte_length_valid {s out : Bytes} (hs : validUTF8 s = true) :
    (lower (.str s) = .ok (.str out) → out.length = s.length) ∧
    (upper (.str s) = .ok (.str out) → out.length = s.length) :=
  ⟨Trim.lower_byte_length_valid hs, Trim.upper_byte_length_valid hs⟩

example : upper (.str [0xC3, 0xBF, 0xC2, 0xB5]) = .ok (.str [0xC5, 0xB8, 0xCE, 0x9C]) := by rfl

end Jmes.C11E
