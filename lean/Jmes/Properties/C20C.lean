/-
  C20C — "numbers are compared by value" across ALL kinds of Go numbers (third wave).

  C20 states `==` on numbers as `Dec.cmp` of the model's decimals and C20B relates `json.Number` texts to their
  rational values.  Here every kind a value can hold — `json.Number`, `decimal128.Decimal` (what the arithmetic
  functions return), the ten Go integer kinds (what `length` returns), `float64`/`float32` — gets a value that is
  defined without the decimal model, and `==`, `<`, `<=`, `>`, `>=` and the order of `sort` (C13's `vle`) are shown
  to be equality and order of those values.

  Definitions (in `Jmes/Proofs/C20CLemmas.lean`):
    * `XRat`        a rational `m · 10^e` as the pair `(m, e)`, or `±∞`;  `XRat.norm` (normal form of `C20B.ratNorm`),
                    `XRat.le`, `XRat.lt`;
    * `ratLe p q`   `m1 · 10^e1 ≤ m2 · 10^e2` over the integers (`ratLe_iff_at`: at any common exponent), a total
                    preorder whose antisymmetry is equality of normal forms and which is invariant under `ratNorm`;
    * `numX : Num → Option XRat`, `numRat : Num → Option (Int × Int)` (finite values only):
        - `.jnum t`   `round34 (ratRaw t)`: the text read as digits·10^exponent, rounded half-even to the longest
                      coefficient `≤ MAXSIG` (identity up to 34 digits); `(0,0)` for a `Tiny` text (underflow);
        - `.dec d`    the stored `(±c, e)`; `±∞`; none for NaN;
        - `.int k v`  `(v, 0)`;
        - `.f64 f`, `.f32 f`   the exact decimal expansion `floatRat` of `±m·2^x` (`m·2^x` or `m·5^(-x)·10^x`), rounded
                      by `round34` — exact when it has at most 34 digits (`≤ MAXSIG`), e.g. 0.5, 0.25, 1e15, every
                      integer below 2^53; otherwise the decimal128 nearest to the binary value, which is NOT the
                      short decimal the float prints as: the `float64` 0.1 is not `==` to the JSON number 0.1.
    * `Covered a`   side condition: a `json.Number` text is `Regular` or `Tiny` in the sense of C20B (every text of the
                    JSON grammar with an exponent of moderate size is); a float is one binary64 can hold.
      Not covered: texts in the subnormal range of decimal128 (last digit between 10^-6176-39 and 10^-6176) and
      ungrammatical `json.Number` strings — as in C20B.
-/
import Jmes.Proofs.C20CLemmas
import Jmes.Properties.C13B
import Jmes.Properties.C01B
namespace Jmes.C20C
open Jmes.Dec Jmes.C05 Jmes.C20 Jmes.C20B

/-! ## 1. Every number has a value -/

/-- a number (`NumOk`: understood by `toDecimal`, not NaN) that is covered has a value -/
theorem numX_some {a : Num} (hok : NumOk a) (hc : Covered a) : ∃ x, numX a = some x := by
  obtain ⟨_, x, _, hx, _⟩ := numDen hok hc
  exact ⟨x, hx⟩

example : numX (.jnum [0x33, 0x2E, 0x30]) = some (.fin (30, -1)) ∧ numX (.dec (.fin false 3 0)) = some (.fin (3, 0)) ∧
    numX (.int .i64 2) = some (.fin (2, 0)) ∧ numX (.f64 (.fin false 1 (-1))) = some (.fin (5, -1)) ∧
    numX (.f64 (.inf true)) = some (.inf true) ∧ numX (.dec .nan) = none := by decide

theorem numRat_eq_some {a : Num} {p : Int × Int} : numRat a = some p ↔ numX a = some (.fin p) := by
  unfold numRat
  cases h : numX a with
  | none => simp
  | some x => cases x <;> simp

/-- the value is finite except for the infinities a `Decimal` or a float can hold -/
theorem numRat_none_iff {a : Num} (hok : NumOk a) (hc : Covered a) :
    numRat a = none ↔ ∃ n, a = .dec (.inf n) ∨ a = .f64 (.inf n) ∨ a = .f32 (.inf n) := by
  obtain ⟨x, hx⟩ := numX_some hok hc
  constructor
  · intro h
    cases a with
    | jnum t => by_cases ht : Tiny t <;> simp [numRat, numX, ht] at h
    | dec d => cases d with
      | nan => simp [numX] at hx
      | inf n => exact ⟨n, .inl rfl⟩
      | fin n c e => simp [numRat, numX] at h
    | int k v => simp [numRat, numX] at h
    | f64 f => cases f with
      | nan => simp [numX, f64X] at hx
      | inf n => exact ⟨n, .inr (.inl rfl)⟩
      | fin n m e => simp [numRat, numX, f64X] at h
    | f32 f => cases f with
      | nan => simp [numX, f64X] at hx
      | inf n => exact ⟨n, .inr (.inr rfl)⟩
      | fin n m e => simp [numRat, numX, f64X] at h
  · rintro ⟨n, rfl | rfl | rfl⟩ <;> rfl

example : numRat (.f64 (.inf false)) = none ∧ numRat (.int .u8 7) = some (7, 0) := by decide

/-! ## 2. `==` is equality of values, whatever the kinds -/

/-- **numbers of ANY two kinds are `==` iff their values are the same** (same normal form: the same rational, or the
    same infinity) -/
theorem equal_iff_numX {a b : Num} (ha : NumOk a) (hb : NumOk b) (ca : Covered a) (cb : Covered b) :
    equal (.num a) (.num b) = true ↔ (numX a).map XRat.norm = (numX b).map XRat.norm := by
  obtain ⟨da, xa, hda, hxa, ha'⟩ := numDen ha ca
  obtain ⟨db, xb, hdb, hxb, hb'⟩ := numDen hb cb
  rw [equal_num_by_value, hxa, hxb]
  simp only [Option.map_some, Option.some.injEq]
  rw [← den_equal ha' hb']
  constructor
  · rintro ⟨dx, dy, h1, h2, h3⟩
    rw [hda] at h1; rw [hdb] at h2
    cases h1; cases h2; exact h3
  · intro h
    exact ⟨_, _, hda, hdb, h⟩

/-- the finite case, in the form asked for: `==` iff `ratNorm` of the two `(mantissa, exponent10)` pairs agree, i.e.
    (`C20B.ratNorm_eq_iff`) iff `m1 · 10^e1 = m2 · 10^e2` -/
theorem equal_iff_numRat {a b : Num} (ha : NumOk a) (hb : NumOk b) (ca : Covered a) (cb : Covered b)
    {p q : Int × Int} (hp : numRat a = some p) (hq : numRat b = some q) :
    equal (.num a) (.num b) = true ↔ ratNorm p = ratNorm q := by
  rw [equal_iff_numX ha hb ca cb, numRat_eq_some.mp hp, numRat_eq_some.mp hq]
  simp [XRat.norm]

/-- the same as one equation between options (`none` only for infinities, which are then told apart by `numX`) -/
theorem equal_iff_numRat' {a b : Num} (ha : NumOk a) (hb : NumOk b) (ca : Covered a) (cb : Covered b)
    (hfin : (numRat a).isSome = true ∨ (numRat b).isSome = true) :
    equal (.num a) (.num b) = true ↔ (numRat a).map ratNorm = (numRat b).map ratNorm := by
  rw [equal_iff_numX ha hb ca cb]
  obtain ⟨xa, hxa⟩ := numX_some ha ca
  obtain ⟨xb, hxb⟩ := numX_some hb cb
  unfold numRat at hfin ⊢
  rw [hxa, hxb] at hfin ⊢
  cases xa <;> cases xb <;> simp_all [XRat.norm]

/-- a `Decimal` 3 (what `sum` returns), the `int64` 3, the `float64` 3 and the texts `3.0`, `0.3e1`, `30E-1` are all
    `==`; `3.0000000000000000000000000000000001` (35 digits) is too, by rounding … -/
example : equal (.num (.dec (.fin false 3 0))) (.num (.jnum [0x33, 0x2E, 0x30])) = true ∧
    equal (.num (.int .i64 3)) (.num (.jnum [0x30, 0x2E, 0x33, 0x65, 0x31])) = true ∧
    equal (.num (.f64 (.fin false 3 0))) (.num (.jnum [0x33, 0x30, 0x45, 0x2D, 0x31])) = true ∧
    equal (.num (.f64 (.fin false 3 0))) (.num (.int .u8 3)) = true ∧
    equal (.num (.dec (.fin false 300 (-2)))) (.num (.jnum ([0x33, 0x2E] ++ List.replicate 33 0x30 ++ [0x31]))) = true :=
  ⟨(equal_iff_numRat (a := .dec (.fin false 3 0)) (b := .jnum [0x33, 0x2E, 0x30]) ⟨_, rfl, by decide⟩
      (numOk_regular (by decide)) trivial (.inl (by decide)) rfl rfl).mpr (by decide),
   (equal_iff_numRat (a := .int .i64 3) (b := .jnum [0x30, 0x2E, 0x33, 0x65, 0x31]) ⟨_, rfl, by decide⟩
      (numOk_regular (by decide)) trivial (.inl (by decide)) rfl rfl).mpr (by decide),
   (equal_iff_numRat (a := .f64 (.fin false 3 0)) (b := .jnum [0x33, 0x30, 0x45, 0x2D, 0x31]) ⟨_, rfl, by decide⟩
      (numOk_regular (by decide)) (by decide) (.inl (by decide)) rfl rfl).mpr (by decide),
   (equal_iff_numRat (a := .f64 (.fin false 3 0)) (b := .int .u8 3) ⟨_, rfl, by decide⟩ ⟨_, rfl, by decide⟩
      (by decide) trivial rfl rfl).mpr (by decide),
   (equal_iff_numRat (a := .dec (.fin false 300 (-2))) (b := .jnum ([0x33, 0x2E] ++ List.replicate 33 0x30 ++ [0x31]))
      ⟨_, rfl, by decide⟩ (numOk_regular (by decide)) trivial (.inl (by decide)) rfl rfl).mpr (by decide)⟩

/-- … while `3.000000000000000000000000000000001` (34 digits) is not `==` to 3, and `+∞` is `==` only to `+∞` -/
example : equal (.num (.int .i64 3)) (.num (.jnum ([0x33, 0x2E] ++ List.replicate 32 0x30 ++ [0x31]))) = false ∧
    equal (.num (.f64 (.inf false))) (.num (.dec (.inf false))) = true ∧
    equal (.num (.f64 (.inf false))) (.num (.dec (.inf true))) = false := by
  refine ⟨?_, ?_, ?_⟩
  · rw [Bool.eq_false_iff, Ne,
      equal_iff_numRat (a := .int .i64 3) (b := .jnum ([0x33, 0x2E] ++ List.replicate 32 0x30 ++ [0x31]))
        ⟨_, rfl, by decide⟩ (numOk_regular (by decide)) trivial (.inl (by decide)) rfl rfl]
    decide
  · exact (equal_iff_numX (a := .f64 (.inf false)) (b := .dec (.inf false)) ⟨_, rfl, by decide⟩ ⟨_, rfl, by decide⟩
      trivial trivial).mpr (by decide)
  · rw [Bool.eq_false_iff, Ne, equal_iff_numX (a := .f64 (.inf false)) (b := .dec (.inf true)) ⟨_, rfl, by decide⟩
      ⟨_, rfl, by decide⟩ trivial trivial]
    decide

/-! ## 3. What the value of a `json.Number` and of a float is, exactly -/

/-- a text that `Fits` (at most 34 significant digits, more precisely digit string `≤ MAXSIG`; exponent in range) has
    exactly the rational value of the text, `C20B.ratVal t` -/
theorem numRat_jnum_fits {t : Bytes} (h : Fits t) : ∃ p, numRat (.jnum t) = some p ∧ ratNorm p = ratVal t := by
  by_cases ht : Tiny t
  · refine ⟨(0, 0), by simp [numRat, numX, ht], ?_⟩
    have hm : (numParts t).mant = 0 := by
      rcases ht.small with h0 | ⟨h1, _⟩ | ⟨_, h2⟩
      · exact h0
      · have := h.efield; omega
      · have := h.lo; simp only [EMIN] at *; omega
    have h0 : (ratRaw t).1 = 0 := by simp only [ratRaw, hm]; split <;> rfl
    unfold ratVal
    rw [(ratNorm_eq_zero_iff _).mpr h0]
    decide
  · refine ⟨ratRaw t, ?_, rfl⟩
    have hm : (ratRaw t).1.natAbs ≤ MAXSIG := by
      have : (ratRaw t).1.natAbs = (numParts t).mant := by simp only [ratRaw]; split <;> simp
      rw [this]; exact h.mant
    simp [numRat, numX, ht, round34_small hm]

example : ∃ p, numRat (.jnum [0x32, 0x2E, 0x35, 0x30]) = some p ∧ ratNorm p = (25, -1) :=
  numRat_jnum_fits (by decide)

/-- a float whose exact decimal expansion has at most 34 digits (coefficient `≤ MAXSIG`) has exactly that value -/
theorem numRat_float_exact (n : Bool) (m : Nat) (x : Int) (h : (floatRat n m x).1.natAbs ≤ MAXSIG) :
    numRat (.f64 (.fin n m x)) = some (floatRat n m x) ∧ numRat (.f32 (.fin n m x)) = some (floatRat n m x) := by
  simp [numRat, numX, f64X, round34_small h]

/-- 0.5 = 1·2^-1 is (5, -1); 2^60 is (1152921504606846976, 0); -0.375 = -3·2^-3 is (-375, -3) -/
example : numRat (.f64 (.fin false 1 (-1))) = some (5, -1) ∧ numRat (.f64 (.fin false 1 60)) = some (1152921504606846976, 0) ∧
    numRat (.f32 (.fin true 3 (-3))) = some (-375, -3) := by decide

/-- the `float64` nearest to 0.1 is `3602879701896397 · 2^-55` -/
def tenth : F64 := .fin false 3602879701896397 (-55)

/-- **a float with a longer expansion is compared by its binary value rounded to decimal128**, not by the short decimal
    it prints as: the `float64` 0.1 is exactly 0.1000000000000000055511151231257827021181583404541015625 (55 digits), its
    value here is `10000000000000000555111512312578270 · 10^-35` (the coefficient may go up to `MAXSIG ≈ 1.298·10^34`), and it is NOT `==` to the JSON number `0.1`, but is
    `==` to `0.1000000000000000055511151231257827` (the first 34 digits) -/
example : F64Real tenth ∧ floatRat false 3602879701896397 (-55) =
      (1000000000000000055511151231257827021181583404541015625, -55) ∧
    numRat (.f64 tenth) = some (10000000000000000555111512312578270, -35) ∧
    equal (.num (.f64 tenth)) (.num (.jnum [0x30, 0x2E, 0x31])) = false ∧
    equal (.num (.f64 tenth)) (.num (.jnum ([0x30, 0x2E, 0x31] ++ List.replicate 16 0x30 ++
      [0x35, 0x35, 0x35, 0x31, 0x31, 0x31, 0x35, 0x31, 0x32, 0x33, 0x31, 0x32, 0x35, 0x37, 0x38, 0x32, 0x37]))) = true := by
  refine ⟨by decide, by decide, by decide, ?_, ?_⟩
  · rw [Bool.eq_false_iff, Ne,
      equal_iff_numRat (a := .f64 tenth) (b := .jnum [0x30, 0x2E, 0x31]) ⟨_, rfl, by decide⟩
        (numOk_regular (by decide)) (by decide) (.inl (by decide)) rfl rfl]
    decide
  · exact (equal_iff_numRat (a := .f64 tenth) (b := .jnum ([0x30, 0x2E, 0x31] ++ List.replicate 16 0x30 ++
      [0x35, 0x35, 0x35, 0x31, 0x31, 0x31, 0x35, 0x31, 0x32, 0x33, 0x31, 0x32, 0x35, 0x37, 0x38, 0x32, 0x37]))
      ⟨_, rfl, by decide⟩ (numOk_regular (by decide)) (by decide) (.inl (by decide)) rfl rfl).mpr (by decide)

/-! ## 4. The ordering operators and the order of `sort` are the order of the values -/

/-- **`<`, `<=`, `>`, `>=` on numbers of any two kinds compare the values** -/
theorem cmpOps_numX {a b : Num} (ha : NumOk a) (hb : NumOk b) (ca : Covered a) (cb : Covered b) {xa xb : XRat}
    (hxa : numX a = some xa) (hxb : numX b = some xb) :
    less (.num a) (.num b) = .bool (decide (XRat.lt xa xb)) ∧
    lessOrEqual (.num a) (.num b) = .bool (decide (XRat.le xa xb)) ∧
    greater (.num a) (.num b) = .bool (decide (XRat.lt xb xa)) ∧
    greaterOrEqual (.num a) (.num b) = .bool (decide (XRat.le xb xa)) := by
  obtain ⟨da, xa', hda, hxa', ha'⟩ := numDen ha ca
  obtain ⟨db, xb', hdb, hxb', hb'⟩ := numDen hb cb
  rw [hxa] at hxa'; rw [hxb] at hxb'
  cases hxa'; cases hxb'
  unfold less lessOrEqual greater greaterOrEqual cmpOp
  rw [hda, hdb]
  simp only [den_less ha' hb', den_lessEq ha' hb', den_greater ha' hb', den_greaterEq ha' hb', and_self]

theorem xlt_fin (p q : Int × Int) : XRat.lt (.fin p) (.fin q) ↔ ratLt p q := (ratLt_iff_not_le p q).symm

/-- the finite case: the four operators decide `ratLt` / `ratLe` of the `(mantissa, exponent10)` pairs -/
theorem cmpOps_numRat {a b : Num} (ha : NumOk a) (hb : NumOk b) (ca : Covered a) (cb : Covered b) {p q : Int × Int}
    (hp : numRat a = some p) (hq : numRat b = some q) :
    less (.num a) (.num b) = .bool (decide (ratLt p q)) ∧
    lessOrEqual (.num a) (.num b) = .bool (decide (ratLe p q)) ∧
    greater (.num a) (.num b) = .bool (decide (ratLt q p)) ∧
    greaterOrEqual (.num a) (.num b) = .bool (decide (ratLe q p)) := by
  obtain ⟨h1, h2, h3, h4⟩ := cmpOps_numX ha hb ca cb (numRat_eq_some.mp hp) (numRat_eq_some.mp hq)
  rw [h1, h2, h3, h4]
  have e1 : decide (XRat.lt (.fin p) (.fin q)) = decide (ratLt p q) := decide_eq_decide.mpr (xlt_fin p q)
  have e2 : decide (XRat.lt (.fin q) (.fin p)) = decide (ratLt q p) := decide_eq_decide.mpr (xlt_fin q p)
  rw [e1, e2]
  exact ⟨rfl, rfl, rfl, rfl⟩

/-- `2.50 <= 2.5` (texts), `2 < 2.5` (an `int64` against a text), `0.5 >= 0.25` (a float against a `Decimal`) -/
example : lessOrEqual (.num (.jnum [0x32, 0x2E, 0x35, 0x30])) (.num (.jnum [0x32, 0x2E, 0x35])) = .bool true ∧
    less (.num (.int .i64 2)) (.num (.jnum [0x32, 0x2E, 0x35])) = .bool true ∧
    greater (.num (.int .i64 2)) (.num (.jnum [0x32, 0x2E, 0x35])) = .bool false ∧
    greaterOrEqual (.num (.f64 (.fin false 1 (-1)))) (.num (.dec (.fin false 25 (-2)))) = .bool true := by
  have h1 := cmpOps_numRat (a := .jnum [0x32, 0x2E, 0x35, 0x30]) (b := .jnum [0x32, 0x2E, 0x35])
    (numOk_regular (by decide)) (numOk_regular (by decide)) (.inl (by decide)) (.inl (by decide)) rfl rfl
  have h2 := cmpOps_numRat (a := .int .i64 2) (b := .jnum [0x32, 0x2E, 0x35])
    ⟨_, rfl, by decide⟩ (numOk_regular (by decide)) trivial (.inl (by decide)) rfl rfl
  have h3 := cmpOps_numRat (a := .f64 (.fin false 1 (-1))) (b := .dec (.fin false 25 (-2)))
    ⟨_, rfl, by decide⟩ ⟨_, rfl, by decide⟩ (by decide) trivial rfl rfl
  exact ⟨h1.2.1.trans (congrArg Val.bool (by decide)), h2.1.trans (congrArg Val.bool (by decide)),
    h2.2.2.1.trans (congrArg Val.bool (by decide)), h3.2.2.2.trans (congrArg Val.bool (by decide))⟩

/-- **the order `sort`, `sort_by`, `max`, `min` use on numbers (C13B's `vle`) is the order of the values** -/
theorem vle_iff_numX {a b : Num} (ha : NumOk a) (hb : NumOk b) (ca : Covered a) (cb : Covered b) {xa xb : XRat}
    (hxa : numX a = some xa) (hxb : numX b = some xb) :
    C13B.vle (.num a) (.num b) = true ↔ XRat.le xa xb := by
  obtain ⟨da, xa', hda, hxa', ha'⟩ := numDen ha ca
  obtain ⟨db, xb', hdb, hxb', hb'⟩ := numDen hb cb
  rw [hxa] at hxa'; rw [hxb] at hxb'
  cases hxa'; cases hxb'
  simp only [C13B.vle, C13B.valOf, hda, hdb, Option.getD_some, decide_eq_true_iff]
  exact den_compare_le ha' hb'

theorem vle_iff_numRat {a b : Num} (ha : NumOk a) (hb : NumOk b) (ca : Covered a) (cb : Covered b) {p q : Int × Int}
    (hp : numRat a = some p) (hq : numRat b = some q) :
    C13B.vle (.num a) (.num b) = true ↔ ratLe p q :=
  vle_iff_numX ha hb ca cb (numRat_eq_some.mp hp) (numRat_eq_some.mp hq)

/-- the `Decimal` 1.5 sorts before the `int64` 2, not after it -/
example : C13B.vle (.num (.dec (.fin false 15 (-1)))) (.num (.int .i64 2)) = true ∧
    C13B.vle (.num (.int .i64 2)) (.num (.dec (.fin false 15 (-1)))) = false := by
  refine ⟨(vle_iff_numRat (a := .dec (.fin false 15 (-1))) (b := .int .i64 2) ⟨_, rfl, by decide⟩ ⟨_, rfl, by decide⟩
    trivial trivial rfl rfl).mpr (by decide), ?_⟩
  rw [Bool.eq_false_iff, Ne, vle_iff_numRat (a := .int .i64 2) (b := .dec (.fin false 15 (-1))) ⟨_, rfl, by decide⟩
    ⟨_, rfl, by decide⟩ trivial trivial rfl rfl]
  decide

/-! ### `ratLe` is the order of the rationals `m · 10^e` -/

/-- `ratLe` compares the numerators over any common power-of-ten denominator; it is reflexive, transitive and total;
    two pairs are each `≤` the other iff they denote the same rational; and it does not depend on the
    representative, so it is a total order on the normal forms -/
theorem ratLe_is_value_order :
    (∀ (p q : Int × Int) (b : Int), b ≤ p.2 → b ≤ q.2 →
      (ratLe p q ↔ p.1 * (10 : Int) ^ (p.2 - b).toNat ≤ q.1 * (10 : Int) ^ (q.2 - b).toNat)) ∧
    (∀ p, ratLe p p) ∧ (∀ p q r, ratLe p q → ratLe q r → ratLe p r) ∧ (∀ p q, ratLe p q ∨ ratLe q p) ∧
    (∀ p q, (ratLe p q ∧ ratLe q p) ↔ ratNorm p = ratNorm q) ∧
    (∀ p q, ratLe (ratNorm p) (ratNorm q) ↔ ratLe p q) ∧
    (∀ p q, ratLt p q ↔ ¬ ratLe q p) :=
  ⟨ratLe_iff_at, ratLe_refl, fun _ _ _ => ratLe_trans, ratLe_total, ratLe_antisymm_iff, ratLe_norm, ratLt_iff_not_le⟩

example : ratLe (25, -1) (3, 0) ∧ ¬ ratLe (3, 0) (25, -1) ∧ ratLe (250, -2) (25, -1) ∧ ratLe (25, -1) (250, -2) ∧
    ratLe (-1, 3) (1, -3) ∧ ratLt (-1, 0) (0, 5) := by decide

/-! ## 5. Through `search` -/

open Jmes.C17B Jmes.Grammar Jmes.Grammar.Ex in
/-- **`A == B` on expression text, both sides numbers**: for any well-formed operands `A`, `B` (with `A` binding at
    least as tight as a comparison on its right edge, `B` tighter on its left), if on the document `d` they evaluate
    to numbers `a` and `b` of any kinds, `search` answers whether the values are the same -/
theorem eq_text_numbers {A B : PTree} {op : Token} (hop : op.type = .equal) (hA : WellPrec A) (hAr : lvlCmp ≤ rlevel A)
    (hB : WellPrec B) (hBl : lvlCmp < llevel B) {e : Bytes} (hl : Lexes e (Grammar.flatten A ++ op :: Grammar.flatten B))
    (d : Val) {a b : Num} (hea : evaluate (erase A) d = .ok (.num a)) (heb : evaluate (erase B) d = .ok (.num b))
    (ha : NumOk a) (hb : NumOk b) (ca : Covered a) (cb : Covered b) :
    search e d = .ok (.bool (decide ((numX a).map XRat.norm = (numX b).map XRat.norm))) := by
  have h := (C01B.cmp_text (op := op) (c := .eq) (by rw [hop]; rfl) hA hAr hB hBl hl).2 d
  rw [h, hea, heb]
  show (equalR (.num a) (.num b) >>= fun e => Res.ok (Val.bool e)) = _
  have : equalR (.num a) (.num b) = .ok (equal (.num a) (.num b)) := rfl
  rw [this]
  show Res.ok (Val.bool (equal (.num a) (.num b))) = _
  congr 2
  rw [Bool.eq_iff_iff, equal_iff_numX ha hb ca cb, decide_eq_true_iff]

open Jmes.C17B Jmes.Grammar Jmes.Grammar.Ex in
/-- **`A <= B` on expression text, both sides numbers** (and likewise `<`, `>`, `>=` by `cmpOps_numX`) -/
theorem le_text_numbers {A B : PTree} {op : Token} (hop : op.type = .lessOrEqual) (hA : WellPrec A)
    (hAr : lvlCmp ≤ rlevel A) (hB : WellPrec B) (hBl : lvlCmp < llevel B) {e : Bytes}
    (hl : Lexes e (Grammar.flatten A ++ op :: Grammar.flatten B))
    (d : Val) {a b : Num} (hea : evaluate (erase A) d = .ok (.num a)) (heb : evaluate (erase B) d = .ok (.num b))
    (ha : NumOk a) (hb : NumOk b) (ca : Covered a) (cb : Covered b) {xa xb : XRat}
    (hxa : numX a = some xa) (hxb : numX b = some xb) :
    search e d = .ok (.bool (decide (XRat.le xa xb))) := by
  have h := (C01B.cmp_text (op := op) (c := .le) (by rw [hop]; rfl) hA hAr hB hBl hl).2 d
  rw [h, hea, heb]
  show Res.ok (lessOrEqual (.num a) (.num b)) = _
  rw [(cmpOps_numX ha hb ca cb hxa hxb).2.1]

section Examples
open Jmes.C17B Jmes.Grammar Jmes.Grammar.Ex

/-- the document `{"a": [1, 2]}` -/
def docA : Val := .obj [(bs "a", .arr .plain [.num (.jnum (bs "1")), .num (.jnum (bs "2"))])]
/-- the document `[true, null]` -/
def docL : Val := .arr .plain [.bool true, .null]

/-- the tree of ``sum(a)`` and of the literal `` `3.0` `` -/
def tSumA : PTree := .call ⟨.unquotedIdentifier, bs "sum"⟩ [idt "a"]
def tLit (s : String) : PTree := .atom ⟨.jsonLiteral, bs s⟩
def tLenCur : PTree := .call ⟨.unquotedIdentifier, bs "length"⟩ [.atom ⟨.current, bs "@"⟩]

/-- ``sum(a) == `3.0` `` on `{"a": [1, 2]}` is `true`: `sum` returns the `Decimal` 3, value `(3, 0)`; the literal is
    the `json.Number` text `3.0`, value `(30, -1)`; the same rational -/
example : search (bs "sum(a) == `3.0`") docA = .ok (.bool true) :=
  (eq_text_numbers (A := tSumA) (B := tLit "`3.0`") (op := op .equal "==") rfl (by decide) (by decide) (by decide)
    (by decide) (by decide) docA (a := .dec (.fin false 3 0)) (b := .jnum (bs "3.0")) (by rfl) (by rfl)
    ⟨_, rfl, by decide⟩ (numOk_regular (by decide)) trivial (.inl (by decide))).trans (congrArg (fun b => Res.ok (Val.bool b)) (by decide))

/-- ``length(@) == `2.0` `` on `[true, null]` is `true`: `length` returns the `int64` 2, value `(2, 0)`; the literal has
    value `(20, -1)` -/
example : search (bs "length(@) == `2.0`") docL = .ok (.bool true) :=
  (eq_text_numbers (A := tLenCur) (B := tLit "`2.0`") (op := op .equal "==") rfl (by decide) (by decide) (by decide)
    (by decide) (by decide) docL (a := .int .i64 2) (b := .jnum (bs "2.0")) (by rfl) (by rfl)
    ⟨_, rfl, by decide⟩ (numOk_regular (by decide)) trivial (.inl (by decide))).trans (congrArg (fun b => Res.ok (Val.bool b)) (by decide))

/-- ``sum(a) == `3.01` `` is `false`, ``sum(a) <= `3.01` `` is `true` -/
example : search (bs "sum(a) == `3.01`") docA = .ok (.bool false) ∧ search (bs "sum(a) <= `3.01`") docA = .ok (.bool true) :=
  ⟨(eq_text_numbers (A := tSumA) (B := tLit "`3.01`") (op := op .equal "==") rfl (by decide) (by decide) (by decide)
      (by decide) (by decide) docA (a := .dec (.fin false 3 0)) (b := .jnum (bs "3.01")) (by rfl) (by rfl)
      ⟨_, rfl, by decide⟩ (numOk_regular (by decide)) trivial (.inl (by decide))).trans (congrArg (fun b => Res.ok (Val.bool b)) (by decide)),
   (le_text_numbers (A := tSumA) (B := tLit "`3.01`") (op := op .lessOrEqual "<=") rfl (by decide) (by decide)
      (by decide) (by decide) (by decide) docA (a := .dec (.fin false 3 0)) (b := .jnum (bs "3.01")) (by rfl) (by rfl)
      ⟨_, rfl, by decide⟩ (numOk_regular (by decide)) trivial (.inl (by decide)) rfl rfl).trans (congrArg (fun b => Res.ok (Val.bool b)) (by decide))⟩

end Examples

end Jmes.C20C
