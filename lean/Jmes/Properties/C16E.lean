/-
  C16, fourth part — the gaps the third review listed.

  1. QUOTED IDENTIFIERS, BOTH DIRECTIONS.
     * `parseQuotedIdentifier_iff`: at the level of the parser function, `"w"` decodes to `s` IFF `QIdB s w` — a
       byte-level relation written from the JSON string grammar (RFC 8259 §7) and the surrogate rule of the Go code
       (a `\uD8xx\uDCxx` pair is one supplementary code point; any other surrogate escape is REJECTED — FX28), with the
       one quirk the function has (a backslash that is the last byte is kept; no token can show it).
     * `qid_token_iff`: on a token body — what the lexer accepts between two `"` — this is the rune-level `C16B.QEsc`:
       `parseQuotedIdentifier "w" = some s ↔ QEsc s w`.  `body_iff_bytes` says in terms of bytes what a token body is
       (valid UTF-8, no bare delimiter, no dangling backslash) and `lex_single_iff` that these are exactly the texts
       that lex as ONE token.
     * `qid_compile_iff`, `qid_not_writing`, `qid_search_syntax_iff`: `Compile` of `"w"` succeeds iff `w` is a `QEsc`
       writing; otherwise it is `invalid quoted string`, a syntax error.
     * `compile_ok_literals_decode`, `bad_quoted_token_rejected`, `bad_json_token_rejected`: in ANY expression that
       compiles every quoted identifier is a `QEsc` writing and every JSON literal decodes.
  2. INVALID UTF-8.
     * `compile_ok_valid` / `compile_invalid_utf8` / `search_invalid_utf8`: an expression that is not valid UTF-8 never
       compiles (and the failure is a real error, not the model's fuel artefact).
     * `literal_invalid_utf8`, `literal_invalid_body`: inside a quoted identifier, raw string or JSON literal the error
       is `invalid rune`, a syntax error; `invalid_split` shows the hypothesis covers every invalid text.
     * the category is NOT always `syntax` for larger expressions: `invalid_utf8_not_always_syntax` (the Go code
       agrees).
  3. RAW STRINGS.
     * `parseStringLiteral_iff'`: the value of `'b'` is `v` IFF `RawDen v b` (`\'` ↦ `'`, `\\` ↦ `\`, every other
       backslash kept with the byte after it);
     * `raw_token_iff`, `raw_search_iff`, `raw_dangling`, `literal_unterminated`: `'b'` is one token iff `b` is valid
       UTF-8 whose scan ends closed; then it evaluates to the `RawDen` value; a dangling backslash hides the closing
       quote: `unexpected end`, a syntax error.
-/
import Jmes.Proofs.C16ELemmas
namespace Jmes.C16E
open Jmes Jmes.Utf8 Jmes.Literals Jmes.C16 Jmes.C16BL Jmes.C16B Jmes.Lexical Jmes.C16EL

/-! ### reading off concrete results by kernel evaluation -/

/-- `r` is the error with exactly the category `c` -/
def errIs (r : Res Val) (c : Cat) : Bool := match r with | .err [c'] => decide (c' = c) | _ => false
theorem eq_of_errIs {r : Res Val} {c : Cat} (h : errIs r c = true) : r = .err [c] := by
  unfold errIs at h
  split at h
  · simp at h; rw [h]
  · cases h
/-- `r` is a successful compilation -/
def cokIs (r : Except PErr INode) : Bool := match r with | .ok _ => true | _ => false
theorem ok_of_cokIs {r : Except PErr INode} (h : cokIs r = true) : ∃ n, r = .ok n := by
  unfold cokIs at h
  split at h
  · exact ⟨_, rfl⟩
  · cases h
/-- `r` is the compile error `e` -/
def cerrIs (r : Except PErr INode) (e : PErr) : Bool := match r with | .error e' => decide (e' = e) | _ => false
theorem eq_of_cerrIs {r : Except PErr INode} {e : PErr} (h : cerrIs r e = true) : r = .error e := by
  unfold cerrIs at h
  split at h
  · simp at h; rw [h]
  · cases h

/-! ## 1. quoted identifiers: a characterisation in both directions -/

/-- **C16 (quoted identifier, parser function, both directions)**: `parseQuotedIdentifier` applied to `w` between two
    delimiter bytes returns `s` iff `QIdB s w`.  `QIdB` (defined in `Jmes/Proofs/C16ELemmas.lean`) does not mention
    the decoder: byte by byte, a byte ≥ 0x20 other than `\` is itself; `\"` `\/` `\\` `\b` `\f` `\n` `\r` `\t`;
    `\uXXXX` (hex digits in either case) for a code unit that is not a surrogate; `\uD8xx\uDCxx` (high, low) for the
    supplementary code point; a backslash that is the LAST byte is itself. Nothing else — in particular a control
    byte, `\` before any other byte, fewer than four hex digits, a lone surrogate escape and a surrogate escape
    followed by anything but the escape of a low (after a high) surrogate are all rejected. -/
theorem parseQuotedIdentifier_iff (a z : Nat) (w s : Bytes) :
    parseQuotedIdentifier ([a] ++ w ++ [z]) = some s ↔ QIdB s w :=
  parseQuotedIdentifier_iff_qidb a z w s

/-- `"a\n"` (escaped) is `a`, line feed; -/
example : parseQuotedIdentifier [0x22, 0x61, 0x5C, 0x6E, 0x22] = some [0x61, 0x0A] :=
  (parseQuotedIdentifier_iff 0x22 0x22 [0x61, 0x5C, 0x6E] _).2
    (QIdB.byte 0x61 (by decide) (by decide) (QIdB.short 0x6E 0x0A (by decide) QIdB.nil))

/-- the only side condition of `QIdB` / `QEsc` that mentions a function of the model, `Json.hex4 [a, b, c, d] =
    some (r, [])`, says: `a b c d` are four hexadecimal digits (upper or lower case) and `r` is their value, most
    significant digit first.  With this the two relations are written from RFC 8259 and the UTF-8 / UTF-16 encoding
    rules alone. -/
theorem hex4_spec (a b c d r : Nat) :
    Json.hex4 [a, b, c, d] = some (r, []) ↔
      ∃ va vb vc vd, HexDigit a va ∧ HexDigit b vb ∧ HexDigit c vc ∧ HexDigit d vd ∧
        r = ((va * 16 + vb) * 16 + vc) * 16 + vd :=
  hex4_iff a b c d r

/-- `D83d` is 0xD83D -/
example : Json.hex4 [0x44, 0x38, 0x33, 0x64] = some (0xD83D, []) :=
  (hex4_spec _ _ _ _ _).2 ⟨13, 8, 3, 13, Or.inr (Or.inr (by decide)), Or.inl (by decide), Or.inl (by decide),
    Or.inr (Or.inl (by decide)), by decide⟩

/-- … and the rejection half: the function fails iff there is no reading at all -/
theorem parseQuotedIdentifier_none_iff (a z : Nat) (w : Bytes) :
    parseQuotedIdentifier ([a] ++ w ++ [z]) = none ↔ ¬ ∃ s, QIdB s w := by
  constructor
  · rintro h ⟨s, hs⟩
    rw [(parseQuotedIdentifier_iff a z w s).2 hs] at h; cases h
  · intro h
    cases hp : parseQuotedIdentifier ([a] ++ w ++ [z]) with
    | none => rfl
    | some s => exact absurd ⟨s, (parseQuotedIdentifier_iff a z w s).1 hp⟩ h

/-- `"\q"` has no reading (every constructor of `QIdB` is ruled out), so it is rejected -/
example : parseQuotedIdentifier [0x22, 0x5C, 0x71, 0x22] = none :=
  (parseQuotedIdentifier_none_iff 0x22 0x22 [0x5C, 0x71]).2 (by
    rintro ⟨s, hs⟩
    rcases QIdB.bs_inv hs with ⟨h, _⟩ | ⟨e, b, _, _, h, he, _⟩ | ⟨_, _, _, _, _, _, _, h, _⟩ |
      ⟨_, _, _, _, _, _, _, _, _, _, _, _, h, _⟩
    · cases h
    · cases h; simp [shortEsc] at he
    · cases h
    · cases h)

/-- the quirk: `parseQuotedIdentifier` keeps a backslash that is the last byte of the body.  The lexer never produces
    such a token (`"a\"` is an unterminated token: `literal_dangling` below), so this is invisible through
    `Compile` / `Search`. -/
example : parseQuotedIdentifier [0x22, 0x61, 0x5C, 0x22] = some [0x61, 0x5C] :=
  (parseQuotedIdentifier_iff 0x22 0x22 [0x61, 0x5C] _).2 (QIdB.byte 0x61 (by decide) (by decide) QIdB.last)

/-- **what the lexer accepts between two delimiters, in terms of bytes**: `w` is a token body for the delimiter `d`
    (`"`, `'` or `` ` ``) iff it is valid UTF-8 and the scan "a backslash hides the next character" ends closed: no
    bare delimiter, no backslash without partner at the end. -/
theorem body_iff_bytes {d : Nat} (hd : IsDelim d) (w : Bytes) :
    Body d w ↔ validUTF8 w = true ∧ scanB d w = .closed :=
  body_iff hd.lt hd.ne_bs w

example : Body 0x22 [0x61, 0x5C, 0x22, 0xC3, 0xA9] :=      -- a\"é
  (body_iff_bytes (Or.inl rfl) _).2 ⟨by decide, by decide⟩
example : ¬ Body 0x22 [0x61, 0x22] :=                         -- a"  : a bare quote
  fun h => by have := ((body_iff_bytes (Or.inl rfl) _).1 h).2; revert this; decide
example : ¬ Body 0x27 [0x61, 0x5C] :=                         -- a\  : dangling
  fun h => by have := ((body_iff_bytes (Or.inr (Or.inl rfl)) _).1 h).2; revert this; decide
example : ¬ Body 0x60 [0x61, 0xFF] :=                         -- invalid UTF-8
  fun h => by have := ((body_iff_bytes (Or.inr (Or.inr rfl)) _).1 h).1; revert this; decide

/-- the token type of each delimiter -/
def delimType (d : Nat) : TokenType :=
  if d = 0x22 then .quotedIdentifier else if d = 0x27 then .stringLiteral else .jsonLiteral

/-- **one token, both directions**: the text `d w d` is lexed as exactly one token (of the type of `d`) iff `w` is a
    token body -/
theorem lex_single_iff {d : Nat} (hd : IsDelim d) (w : Bytes) :
    lexAll (d :: (w ++ [d])) = ([⟨delimType d, d :: (w ++ [d])⟩, ⟨.end, []⟩], none) ↔ Body d w := by
  constructor
  · intro h
    have hs := shape_of_lexAll_single h
    rcases hd with rfl | rfl | rfl
    · exact (delimited_iff_body w).1 hs
    · exact (delimited_iff_body w).1 hs
    · exact (delimited_iff_body w).1 hs
  · intro h
    rcases hd with rfl | rfl | rfl
    · exact lexAll_single 0x22 _ (by omega) (by decide) _ (lexToken_quoted h)
    · exact lexAll_single 0x27 _ (by omega) (by decide) _ (lexToken_raw h)
    · exact lexAll_single 0x60 _ (by omega) (by decide) _ (lexToken_json h)

example : lexAll [0x22, 0x5C, 0x22, 0x22] = ([⟨.quotedIdentifier, [0x22, 0x5C, 0x22, 0x22]⟩, ⟨.end, []⟩], none) :=
  (lex_single_iff (Or.inl rfl) [0x5C, 0x22]).2 ((body_iff_bytes (Or.inl rfl) _).2 ⟨by decide, by decide⟩)

/-- **C16 (quoted identifier token, both directions)**: for every token body `w`, `"w"` decodes to `s` iff `w` is one
    of the writings of `s` that `QEsc` lists — raw characters (not control characters, `"`, `\`), the eight
    two-character escapes, `\uXXXX` of a non-surrogate, a (high, low) surrogate pair. -/
theorem qid_token_iff {w : Bytes} (hb : Body 0x22 w) (s : Bytes) :
    parseQuotedIdentifier ([0x22] ++ w ++ [0x22]) = some s ↔ QEsc s w := by
  rw [parseQuotedIdentifier_iff, qesc_iff_qidb hb]

/-- the same with the byte-level description of token bodies -/
theorem qid_text_iff {w : Bytes} (hv : validUTF8 w = true) (hs : scanB 0x22 w = .closed) (s : Bytes) :
    parseQuotedIdentifier ([0x22] ++ w ++ [0x22]) = some s ↔ QEsc s w :=
  qid_token_iff ((body_iff_bytes (Or.inl rfl) w).2 ⟨hv, hs⟩) s

/-- a token body that is not a writing of any string is rejected -/
theorem qid_token_rejected {w : Bytes} (hb : Body 0x22 w) (h : ¬ ∃ s, QEsc s w) :
    parseQuotedIdentifier ([0x22] ++ w ++ [0x22]) = none := by
  cases hp : parseQuotedIdentifier ([0x22] ++ w ++ [0x22]) with
  | none => rfl
  | some s => exact absurd ⟨s, (qid_token_iff hb s).1 hp⟩ h

/-- conversely: if the function rejects a token body, that body is no writing of any string -/
theorem not_writing_of_none {w : Bytes} (hb : Body 0x22 w)
    (hn : parseQuotedIdentifier ([0x22] ++ w ++ [0x22]) = none) : ¬ ∃ s, QEsc s w := by
  rintro ⟨s, h⟩
  rw [(qid_token_iff hb s).2 h] at hn; cases hn

/-- a text is the writing of at most one string -/
theorem qesc_unique {s s' w : Bytes} (h : QEsc s w) (h' : QEsc s' w) : s = s' := by
  have := (parseQuotedIdentifier_qesc h).symm.trans (parseQuotedIdentifier_qesc h')
  exact Option.some.inj this

/-- `😀` is 😀 and nothing else; -/
example (s : Bytes)
    (h : QEsc s [0x5C, 0x75, 0x44, 0x38, 0x33, 0x44, 0x5C, 0x75, 0x44, 0x45, 0x30, 0x30]) : s = [0xF0, 0x9F, 0x98, 0x80] :=
  qesc_unique h (QEsc.pair 0x44 0x38 0x33 0x44 0x44 0x45 0x30 0x30 0xD83D 0xDE00 (by decide) (by decide) (by decide)
    (by decide) (by decide) (by decide) QEsc.nil)

/-- `"\uD800"` (a lone surrogate escape) is a token, and no `QEsc` writing: the iff turns the rejection into a
    statement about the relation -/
example : ¬ ∃ s, QEsc s [0x5C, 0x75, 0x44, 0x38, 0x30, 0x30] :=
  not_writing_of_none ((body_iff_bytes (Or.inl rfl) _).2 ⟨by decide, by decide⟩) (by decide)

/-! ### `Compile` and `Search` -/

/-- **C16 (quoted identifier, `Compile`, both directions)**: for a token body `w`, `"w"` compiles to the field
    selector `s` iff `w` is a `QEsc` writing of `s` -/
theorem qid_compile_iff {w : Bytes} (hb : Body 0x22 w) (s : Bytes) :
    compile ([0x22] ++ w ++ [0x22]) = .ok (.field s) ↔ QEsc s w := by
  have hl := (lex_single_iff (Or.inl rfl) w).2 hb
  constructor
  · intro h
    cases hp : parseQuotedIdentifier ([0x22] ++ w ++ [0x22]) with
    | none =>
      have := parse_single_err _ _ .invalidQuotedString hl (fun f => prim_quoted_invalid f _ hp)
      unfold compile at h
      rw [show [0x22] ++ w ++ [0x22] = 0x22 :: (w ++ [0x22]) by simp] at h
      rw [this] at h; cases h
    | some s' =>
      have := parse_single _ _ _ hl (fun f => prim_quoted f _ s' hp)
      unfold compile at h
      rw [show [0x22] ++ w ++ [0x22] = 0x22 :: (w ++ [0x22]) by simp] at h
      rw [this] at h
      cases h
      exact (qid_token_iff hb s).1 hp
  · intro h
    exact parse_single _ _ _ (lex_qesc h) (fun f => prim_quoted f _ s (parseQuotedIdentifier_qesc h))

/-- **C16 (a quoted identifier that is no writing)**: for a token body `w` that is not a `QEsc` writing of any
    string, `"w"` fails to compile with `invalid quoted string`, and `Search` reports a syntax error on every
    document. -/
theorem qid_not_writing {w : Bytes} (hb : Body 0x22 w) (h : ¬ ∃ s, QEsc s w) :
    compile ([0x22] ++ w ++ [0x22]) = .error .invalidQuotedString ∧
    ∀ d, search ([0x22] ++ w ++ [0x22]) d = .err [.syntax] := by
  have hl := (lex_single_iff (Or.inl rfl) w).2 hb
  have hp := qid_token_rejected hb h
  refine ⟨?_, fun d => ?_⟩
  · exact parse_single_err _ _ .invalidQuotedString hl (fun f => prim_quoted_invalid f _ hp)
  · exact search_quoted_invalid _ _ d hl hp

/-- the two cases are exhaustive: a one-token quoted identifier either is a writing of a (unique) string and selects
    that member, or is a syntax error -/
theorem qid_dichotomy {w : Bytes} (hb : Body 0x22 w) :
    (∃ s, QEsc s w ∧ compile ([0x22] ++ w ++ [0x22]) = .ok (.field s) ∧
        ∀ kvs, search ([0x22] ++ w ++ [0x22]) (.obj kvs) = .ok ((objLookup s kvs).getD .null)) ∨
    ((¬ ∃ s, QEsc s w) ∧ compile ([0x22] ++ w ++ [0x22]) = .error .invalidQuotedString ∧
        ∀ d, search ([0x22] ++ w ++ [0x22]) d = .err [.syntax]) := by
  by_cases h : ∃ s, QEsc s w
  · obtain ⟨s, hs⟩ := h
    exact Or.inl ⟨s, hs, (qid_compile_iff hb s).2 hs, fun kvs => qid_esc_roundtrip hs kvs⟩
  · exact Or.inr ⟨h, qid_not_writing hb h⟩

/-- **`¬ ∃ s, QEsc s w` ↔ syntax error** (for one-token quoted identifiers, on object documents) -/
theorem qid_search_syntax_iff {w : Bytes} (hb : Body 0x22 w) (kvs : List (Bytes × Val)) :
    search ([0x22] ++ w ++ [0x22]) (.obj kvs) = .err [.syntax] ↔ ¬ ∃ s, QEsc s w := by
  constructor
  · rintro h ⟨s, hs⟩
    rw [qid_esc_roundtrip hs kvs] at h; cases h
  · intro h; exact (qid_not_writing hb h).2 _

/-- `"\uD800"`: a syntax error; `"😀"`: the member 😀 -/
example : search [0x22, 0x5C, 0x75, 0x44, 0x38, 0x30, 0x30, 0x22] (.obj []) = .err [.syntax] :=
  (qid_search_syntax_iff (w := [0x5C, 0x75, 0x44, 0x38, 0x30, 0x30])
    ((body_iff_bytes (Or.inl rfl) _).2 ⟨by decide, by decide⟩) []).2
    (not_writing_of_none ((body_iff_bytes (Or.inl rfl) _).2 ⟨by decide, by decide⟩) (by decide))
example : compile [0x22, 0x5C, 0x75, 0x44, 0x38, 0x33, 0x44, 0x5C, 0x75, 0x44, 0x45, 0x30, 0x30, 0x22]
    = .ok (.field [0xF0, 0x9F, 0x98, 0x80]) :=
  (qid_compile_iff (w := [0x5C, 0x75, 0x44, 0x38, 0x33, 0x44, 0x5C, 0x75, 0x44, 0x45, 0x30, 0x30])
    ((body_iff_bytes (Or.inl rfl) _).2 ⟨by decide, by decide⟩) _).2
    (QEsc.pair 0x44 0x38 0x33 0x44 0x44 0x45 0x30 0x30 0xD83D 0xDE00 (by decide) (by decide) (by decide)
      (by decide) (by decide) (by decide) QEsc.nil)

/-! ### quoted identifiers and JSON literals anywhere in an expression -/

/-- **C16 (literals inside any expression)**: if an expression compiles, then every quoted-identifier token the lexer
    found in it is `"w"` for a token body `w` that is a `QEsc` writing of some string, and every JSON-literal token
    decodes. -/
theorem compile_ok_literals_decode {e : Bytes} {n : INode} (h : compile e = .ok n) :
    ∀ tok ∈ (lexAll e).1,
      (tok.type = .quotedIdentifier →
        ∃ w s, tok.value = [0x22] ++ w ++ [0x22] ∧ Body 0x22 w ∧ QEsc s w) ∧
      (tok.type = .jsonLiteral → ∃ v, parseJSONLiteral tok.value = some v) := by
  obtain ⟨t, hw, hl, _, _⟩ := C04G.parse_sound h
  rw [hl]
  intro tok htok
  simp only [List.mem_append, List.mem_singleton] at htok
  rcases htok with htok | rfl
  · have hok := wellPrec_tokens_ok hw tok htok
    obtain ⟨pre, hpre, hsh⟩ := Lex.Lexes.ends (Lex.lexAll_sound hl)
    have hpe : pre = Grammar.flatten t := (List.append_cancel_right hpre).symm
    have hshape := hsh tok (by rw [hpe]; exact htok)
    refine ⟨fun hty => ?_, fun hty => ?_⟩
    · rw [hty] at hshape
      obtain ⟨w', hv, hb⟩ := hshape
      obtain ⟨b, rfl, hbody⟩ := body_of_delimBody hb
      have hsome := hok.1 hty
      obtain ⟨s, hs⟩ := Option.isSome_iff_exists.1 hsome
      have hv' : tok.value = [0x22] ++ b ++ [0x22] := by rw [hv]; simp
      rw [hv'] at hs
      exact ⟨b, s, hv', hbody, (qid_token_iff hbody s).1 hs⟩
    · exact Option.isSome_iff_exists.1 (hok.2 hty)
  · exact ⟨fun h => (by cases h), fun h => (by cases h)⟩

/-- **C16 (one bad quoted identifier spoils the expression)**: if any token of the expression is a quoted identifier
    `"w"` that is not a `QEsc` writing, the expression does not compile (with a genuine error — never the model's
    fuel artefact), wherever the token stands. -/
theorem bad_quoted_token_rejected {e w : Bytes} (hm : (⟨.quotedIdentifier, [0x22] ++ w ++ [0x22]⟩ : Token) ∈ (lexAll e).1)
    (h : ¬ ∃ s, QEsc s w) : ∃ err, compile e = .error err ∧ err ≠ .fuel := by
  cases hc : compile e with
  | error err => exact ⟨err, rfl, fun hf => Fuel.fuel_sufficient e (by rw [← hf]; exact hc)⟩
  | ok n =>
    exfalso
    obtain ⟨w', s, hv, _, hs⟩ := (compile_ok_literals_decode hc _ hm).1 rfl
    have : w = w' := by
      have h1 : [0x22] ++ w ++ [0x22] = [0x22] ++ w' ++ [0x22] := hv
      simp only [List.cons_append, List.nil_append, List.cons.injEq, true_and] at h1
      exact List.append_cancel_right h1
    subst this
    exact h ⟨s, hs⟩

/-- the same for a JSON literal that does not decode -/
theorem bad_json_token_rejected {e v : Bytes} (hm : (⟨.jsonLiteral, v⟩ : Token) ∈ (lexAll e).1)
    (h : parseJSONLiteral v = none) : ∃ err, compile e = .error err ∧ err ≠ .fuel := by
  cases hc : compile e with
  | error err => exact ⟨err, rfl, fun hf => Fuel.fuel_sufficient e (by rw [← hf]; exact hc)⟩
  | ok n =>
    exfalso
    obtain ⟨x, hx⟩ := (compile_ok_literals_decode hc _ hm).2 rfl
    rw [h] at hx; cases hx

/-- `a."\uD800"` and `{"\q": a}` do not compile -/
example : ∃ err, compile [0x61, 0x2E, 0x22, 0x5C, 0x75, 0x44, 0x38, 0x30, 0x30, 0x22] = .error err ∧ err ≠ .fuel :=
  bad_quoted_token_rejected (w := [0x5C, 0x75, 0x44, 0x38, 0x30, 0x30]) (by decide)
    (not_writing_of_none ((body_iff_bytes (Or.inl rfl) _).2 ⟨by decide, by decide⟩) (by decide))
example : ∃ err, compile [0x7B, 0x22, 0x5C, 0x71, 0x22, 0x3A, 0x61, 0x7D] = .error err ∧ err ≠ .fuel :=
  bad_quoted_token_rejected (w := [0x5C, 0x71]) (by decide)
    (not_writing_of_none ((body_iff_bytes (Or.inl rfl) _).2 ⟨by decide, by decide⟩) (by decide))

/-! ## 2. invalid UTF-8 -/

/-- **C16 (only valid UTF-8 compiles)**: an expression that compiles is valid UTF-8 -/
theorem compile_ok_valid {e : Bytes} {n : INode} (h : compile e = .ok n) : validUTF8 e = true := by
  obtain ⟨t, _, hl, _, _⟩ := C04G.parse_sound h
  exact lexAll_ok_valid hl

/-- **C16 (invalid UTF-8 never compiles)**: an expression containing a byte sequence that is not valid UTF-8 —
    anywhere: inside a raw string, a quoted identifier, a JSON literal, or between tokens — makes `Compile` fail, with
    a genuine error (never the model's fuel artefact) -/
theorem compile_invalid_utf8 {e : Bytes} (h : validUTF8 e = false) : ∃ err, compile e = .error err ∧ err ≠ .fuel := by
  cases hc : compile e with
  | error err => exact ⟨err, rfl, fun hf => Fuel.fuel_sufficient e (by rw [← hf]; exact hc)⟩
  | ok n => rw [compile_ok_valid hc] at h; cases h

/-- … so `Search` returns one of the public error categories on every document -/
theorem search_invalid_utf8 {e : Bytes} (h : validUTF8 e = false) (d : Val) : ∃ c, search e d = .err [c] := by
  obtain ⟨err, he, hf⟩ := compile_invalid_utf8 h
  unfold compile at he
  unfold search
  rw [he]
  cases err <;> first | exact absurd rfl hf | exact ⟨_, rfl⟩

example : ∃ c, search [0x61, 0x2E, 0x27, 0xC3, 0x27] .null = .err [c] :=      -- a.'<C3>'
  search_invalid_utf8 (by decide) _

/-- a text that is not valid UTF-8 is a valid part followed by a byte sequence the lexer's `decodeRune` rejects -/
theorem invalid_split {s : Bytes} (h : validUTF8 s = false) :
    ∃ p x, s = p ++ x ∧ validUTF8 p = true ∧ lexDecode x = .error .invalidRune :=
  C16EL.invalid_split h

/-- **C16 (invalid UTF-8 inside a literal is `invalid rune`)**: the expression starts with a delimiter `d` (`"`, `'` or
    `` ` ``); `p` is valid UTF-8 without a bare `d` (it may end in a backslash); then comes a byte sequence `x` that
    `decodeRune` rejects (`x` runs to the end of the expression: whatever follows the bad byte is irrelevant).  Then
    `Compile` fails with the lexical error `invalid rune`, and `Search` reports a syntax error.  By `invalid_split`
    every text that is not valid UTF-8 has such a splitting, so the only hypothesis with content is that the literal
    is not closed before the bad byte. -/
theorem literal_invalid_utf8 {d : Nat} (hd : IsDelim d) {p x : Bytes} (hv : validUTF8 p = true)
    (hs : scanB d p ≠ .bare) (hx : lexDecode x = .error .invalidRune) :
    compile (d :: (p ++ x)) = .error (.lex .invalidRune) ∧ ∀ doc, search (d :: (p ++ x)) doc = .err [.syntax] := by
  have hl := lexAll_open_err hd hv hs hx
  exact ⟨parse_first_err hl, fun doc => search_first_err hl doc⟩

/-- the readable special case: a body `w` that is not valid UTF-8 and does not contain the delimiter byte, between
    two delimiters, followed by anything -/
theorem literal_invalid_body {d : Nat} (hd : IsDelim d) {w : Bytes} (hw : validUTF8 w = false)
    (hn : ∀ b ∈ w, b ≠ d) (rest : Bytes) :
    compile (d :: (w ++ d :: rest)) = .error (.lex .invalidRune) ∧
    ∀ doc, search (d :: (w ++ d :: rest)) doc = .err [.syntax] := by
  obtain ⟨p, x, hpx, hv, hs, hx⟩ := no_delim_split hd.lt hw hn rest
  rw [hpx]
  exact literal_invalid_utf8 hd hv hs hx

/-- `'a<FF>'`, `"<C3>"` (a truncated sequence), `` `"<ED A0 80>"` `` (an encoded surrogate): invalid rune -/
example : compile [0x27, 0x61, 0xFF, 0x27] = .error (.lex .invalidRune) :=
  (literal_invalid_body (d := 0x27) (Or.inr (Or.inl rfl)) (w := [0x61, 0xFF]) (by decide) (by decide) []).1
example : search [0x22, 0xC3, 0x22] (.obj []) = .err [.syntax] :=
  (literal_invalid_body (d := 0x22) (Or.inl rfl) (w := [0xC3]) (by decide) (by decide) []).2 _
example : compile [0x60, 0x22, 0xED, 0xA0, 0x80, 0x22, 0x60] = .error (.lex .invalidRune) :=
  (literal_invalid_body (d := 0x60) (Or.inr (Or.inr rfl)) (w := [0x22, 0xED, 0xA0, 0x80, 0x22]) (by decide)
    (by decide) []).1
/-- … whereas U+FFFD itself, written as the three bytes EF BF BD, is an ordinary character -/
example : search [0x27, 0xEF, 0xBF, 0xBD, 0x27] .null = .ok (.str [0xEF, 0xBF, 0xBD]) :=
  raw_roundtrip [0xEF, 0xBF, 0xBD] .null (by decide)

/-- **the category is not always `syntax`**: the parser reports the first error it meets, and an earlier error of
    another category wins over a later invalid byte: `a.nosuchfn(b) <FF>` is `unknown function`, `[::0]<FF>` is
    `invalid value`, `abs(a,b)<FF>` is `invalid arity`.  (The Go code returns the same three categories on these
    inputs.)  So "invalid UTF-8 ⇒ syntax error" holds for literals standing alone (`literal_invalid_utf8`) but not for
    every expression; what holds for every expression is `compile_invalid_utf8`. -/
theorem invalid_utf8_not_always_syntax :
    search [0x61, 0x2E, 0x6E, 0x6F, 0x73, 0x75, 0x63, 0x68, 0x66, 0x6E, 0x28, 0x62, 0x29, 0x20, 0xFF] .null
      = .err [.unknownFunction] ∧
    search [0x5B, 0x3A, 0x3A, 0x30, 0x5D, 0xFF] .null = .err [.invalidValue] ∧
    search [0x61, 0x62, 0x73, 0x28, 0x61, 0x2C, 0x62, 0x29, 0xFF] .null = .err [.arity] := by
  exact ⟨eq_of_errIs (by decide +kernel), eq_of_errIs (by decide +kernel), eq_of_errIs (by decide +kernel)⟩

/-! ## 3. raw strings -/

/-- **C16 (raw string, parser function, both directions)**: the value of the body `b` is `v` iff `RawDen v b`
    (defined in `Jmes/Proofs/C16ELemmas.lean` without reference to the parser): `\'` is a quote; `\\` is ONE
    backslash; a backslash before any other byte stays, together with that byte; every other byte is itself (the
    function does not look at UTF-8 structure); a backslash that is the last byte is itself. -/
theorem parseStringLiteral_iff' (a z : Nat) (b v : Bytes) :
    parseStringLiteral ([a] ++ b ++ [z]) = v ↔ RawDen v b :=
  parseStringLiteral_iff a z b v

/-- `'\\\'\n'` (body `\\\'\n`) is `\'\n`: one backslash, the quote, and `\n` kept with its backslash -/
example : RawDen [0x5C, 0x27, 0x5C, 0x6E] [0x5C, 0x5C, 0x5C, 0x27, 0x5C, 0x6E] :=
  RawDen.bs (RawDen.quote (RawDen.kept 0x6E (by decide) (by decide) RawDen.nil))
example : parseStringLiteral [0x27, 0x5C, 0x5C, 0x5C, 0x27, 0x5C, 0x6E, 0x27] = [0x5C, 0x27, 0x5C, 0x6E] :=
  (parseStringLiteral_iff' 0x27 0x27 _ _).2
    (RawDen.bs (RawDen.quote (RawDen.kept 0x6E (by decide) (by decide) RawDen.nil)))

/-- a raw-string body denotes exactly one string -/
theorem rawDen_unique {v v' b : Bytes} (h : RawDen v b) (h' : RawDen v' b) : v = v' :=
  (rawDen_fun h).trans (rawDen_fun h').symm

/-- … and every body denotes one -/
theorem rawDen_total (b : Bytes) : ∃ v, RawDen v b := ⟨_, rawDen_unesc _ b (Nat.le_refl _)⟩

/-- **C16 (raw string, one token, both directions)**: `'b'` is lexed as exactly one string-literal token iff `b` is
    valid UTF-8, contains no quote that is not hidden by a backslash, and does not end in a backslash without
    partner -/
theorem raw_token_iff (b : Bytes) :
    lexAll (0x27 :: (b ++ [0x27])) = ([⟨.stringLiteral, 0x27 :: (b ++ [0x27])⟩, ⟨.end, []⟩], none) ↔
      validUTF8 b = true ∧ scanB 0x27 b = .closed := by
  rw [← body_iff_bytes (Or.inr (Or.inl rfl))]
  exact lex_single_iff (d := 0x27) (Or.inr (Or.inl rfl)) b

/-- **C16 (raw string, arbitrary body, end to end)**: for every body `b` that makes `'b'` one token, the expression
    evaluates — on every document — to the string that `b` denotes -/
theorem raw_search {b v : Bytes} (hv : validUTF8 b = true) (hs : scanB 0x27 b = .closed) (hd : RawDen v b)
    (d : Val) : search ([0x27] ++ b ++ [0x27]) d = .ok (.str v) := by
  have hb := (body_iff_bytes (Or.inr (Or.inl rfl)) b).2 ⟨hv, hs⟩
  have hl := (lex_single_iff (d := 0x27) (Or.inr (Or.inl rfl)) b).2 hb
  have e : [0x27] ++ b ++ [0x27] = 0x27 :: (b ++ [0x27]) := by simp
  rw [e, search_single _ _ _ d hl (fun f => prim_string f _), ← e, (parseStringLiteral_iff' 0x27 0x27 b v).2 hd]
  rfl

/-- … and only to that string -/
theorem raw_search_iff {b : Bytes} (hv : validUTF8 b = true) (hs : scanB 0x27 b = .closed) (v : Bytes) (d : Val) :
    search ([0x27] ++ b ++ [0x27]) d = .ok (.str v) ↔ RawDen v b := by
  constructor
  · intro h
    obtain ⟨v', hv'⟩ := rawDen_total b
    rw [raw_search hv hs hv' d] at h
    cases h; exact hv'
  · intro h; exact raw_search hv hs h d

/-- `'\\\'\n'` evaluates to `\'\n` -/
example : search [0x27, 0x5C, 0x5C, 0x5C, 0x27, 0x5C, 0x6E, 0x27] .null = .ok (.str [0x5C, 0x27, 0x5C, 0x6E]) :=
  raw_search (b := [0x5C, 0x5C, 0x5C, 0x27, 0x5C, 0x6E]) (by decide) (by decide)
    (RawDen.bs (RawDen.quote (RawDen.kept 0x6E (by decide) (by decide) RawDen.nil))) _

/-- **a backslash without partner hides the closing delimiter**: `p` a token body, then one backslash, then the
    delimiter and nothing more — the token never ends: `unexpected end of expression`, a syntax error.  (For raw
    strings: `'a\'`; the same for `"a\"` and `` `a\` ``.) -/
theorem literal_dangling {d : Nat} (hd : IsDelim d) {b : Bytes} (hv : validUTF8 b = true)
    (hs : scanB d b = .dangling) :
    compile (d :: (b ++ [d])) = .error (.lex .unexpectedEnd) ∧ ∀ doc, search (d :: (b ++ [d])) doc = .err [.syntax] := by
  obtain ⟨p, rfl, hb⟩ := dangling_split hd.lt hd.ne_bs hv hs
  have hb' : Body d (p ++ [0x5C] ++ [d]) := by
    rw [List.append_assoc]
    exact Body.append hb (Body.esc1 d hd.lt Body.nil)
  have hl := lexAll_open_err hd (body_valid hb') (by rw [scanB_body hd.lt hb']; decide) (x := [])
    (e := .unexpectedEnd) Lex.lexDecode_nil
  rw [List.append_nil] at hl
  exact ⟨parse_first_err hl, fun doc => search_first_err hl doc⟩

/-- a literal that is never closed — a token body and then the end of the expression — likewise -/
theorem literal_unterminated {d : Nat} (hd : IsDelim d) {b : Bytes} (hb : Body d b) :
    compile (d :: b) = .error (.lex .unexpectedEnd) ∧ ∀ doc, search (d :: b) doc = .err [.syntax] := by
  have hl := lexAll_open_err hd (body_valid hb) (by rw [scanB_body hd.lt hb]; decide) (x := [])
    (e := .unexpectedEnd) Lex.lexDecode_nil
  rw [List.append_nil] at hl
  exact ⟨parse_first_err hl, fun doc => search_first_err hl doc⟩

/-- `'a\'` and `"a\"` and `'abc`: unexpected end -/
example : compile [0x27, 0x61, 0x5C, 0x27] = .error (.lex .unexpectedEnd) :=
  (literal_dangling (d := 0x27) (Or.inr (Or.inl rfl)) (b := [0x61, 0x5C]) (by decide) (by decide)).1
example : search [0x22, 0x61, 0x5C, 0x22] (.obj []) = .err [.syntax] :=
  (literal_dangling (d := 0x22) (Or.inl rfl) (b := [0x61, 0x5C]) (by decide) (by decide)).2 _
example : compile [0x27, 0x61, 0x62, 0x63] = .error (.lex .unexpectedEnd) :=
  (literal_unterminated (d := 0x27) (Or.inr (Or.inl rfl)) (b := [0x61, 0x62, 0x63])
    ((body_iff_bytes (Or.inr (Or.inl rfl)) _).2 ⟨by decide, by decide⟩)).1

/-- the third possibility — a bare quote inside — ends the token early; what the rest makes of the expression
    depends on the rest: `'a'b'` is a syntax error (the last quote opens a literal that never ends), while
    `'a'<'b'` (a comparison of two raw strings) compiles -/
example : compile [0x27, 0x61, 0x27, 0x62, 0x27] = .error (.lex .unexpectedEnd) := eq_of_cerrIs (by decide +kernel)
example : ∃ n, compile [0x27, 0x61, 0x27, 0x3C, 0x27, 0x62, 0x27] = .ok n := ok_of_cokIs (by decide +kernel)

/-- the three outcomes of the scan are the only ones: for valid UTF-8 `b`, `'b'` is one token (and evaluates to the
    `RawDen` value), or the closing quote is hidden (syntax error), or `b` contains a bare quote -/
theorem raw_trichotomy {b : Bytes} (hv : validUTF8 b = true) :
    (∃ v, RawDen v b ∧ ∀ d, search ([0x27] ++ b ++ [0x27]) d = .ok (.str v)) ∨
    (∀ d, search (0x27 :: (b ++ [0x27])) d = .err [.syntax]) ∨
    scanB 0x27 b = .bare := by
  cases hs : scanB 0x27 b with
  | closed =>
    obtain ⟨v, hd⟩ := rawDen_total b
    exact Or.inl ⟨v, hd, fun d => raw_search hv hs hd d⟩
  | dangling => exact Or.inr (Or.inl (literal_dangling (Or.inr (Or.inl rfl)) hv hs).2)
  | bare => exact Or.inr (Or.inr rfl)

end Jmes.C16E
