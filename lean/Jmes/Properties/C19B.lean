/-
  C19, second part — through the lexer and the parser, free variables, n-ary β-reduction, shadowing.

  1. `$` in the lexer: `lex_dollar_name` (`$` + letter/underscore = a variable token, longest match), `lex_dollar_alone`
     (`$` + anything else = the root token `$`, never a variable), `variable_token_shape`.
  2. `let` in the parser (via `C04G.parse_sound` / `parse_complete` and `head_let`): `let_whole` (an expression that starts
     with `let` is a `let` as a whole: the body extends to the end), `let_needs_variable`, `let_never_left_operand`,
     `let_body_absorbs`, `let_pipe_parse`; rejected spellings (`let $ = …`, `let $1 = …`, `let x = …`, `$1`).
  3. a name bound twice: `dup_binding_dropped`, `let_last_binding_wins`, `compile_lets_nodup` (every `let` node of a
     compiled expression has pairwise distinct names), `dup_error_lost` (FINDING: the error of the dropped binding is
     lost; Go agrees with the model).
  4. free variables: `no_undefined_if_bound`, `undefined_needs_free`, `closed_never_undefined`,
     `search_closed_never_undefined`, `coincidence`, `reached_undefined`.
  5. `let_many` / `let_many_src` (β-reduction for n bindings, simultaneous substitution), `bindings_not_sequential`.
  6. shadowing: `body_blind_to_outer`, `let_blind_to_outer`, `outer_visible_outside_body`, `shadow_and`, `shadow_map`,
     `shadow_sortBy`, `shadow_through_expref`(`_sortBy`), `shadow_search`.

  Helper lemmas: `Proofs/C19BLemmas.lean` (evaluator side), `Proofs/C19BGrammar.lean` (grammar side).
-/
import Jmes.Proofs.C19BGrammar
import Jmes.Properties.C19
namespace Jmes.C19B
open Jmes Jmes.Grammar Jmes.Pratt Jmes.C04G Jmes.Lexical

/-! ## 1. `$` in the lexer -/

/-- **`$` followed by a letter or `_` is a variable token**: the token is `$name` where `name` is the longest run of
    identifier characters (`[A-Za-z_][A-Za-z0-9_]*`) — the byte after the token, if any, is not an identifier
    character. -/
theorem lex_dollar_name {c : Nat} (rest : Bytes) (hc : isIdStartB c = true) :
    ∃ w n, lexToken (0x24 :: c :: rest) = .ok (⟨.variable, 0x24 :: w⟩, n) ∧ Ident w ∧ n = w.length + 1 ∧
      0x24 :: c :: rest = (0x24 :: w) ++ (0x24 :: c :: rest).drop n ∧
      ∀ b, ((0x24 :: c :: rest).drop n).head? = some b → isIdCharB b = false := by
  have h1 : lexDecode (0x24 :: c :: rest) = .ok (0x24, 1) := Lex.lexDecode_cons_ascii (by omega)
  have hc' : isAlphaR c = true := hc
  have h2 : peek (0x24 :: c :: rest) 1 = some (c, 1) := by
    simp only [peek, List.drop_succ_cons, List.drop_zero, Lex.lexDecode_cons_ascii (Lex.isIdStartB_lt hc)]
  have h3 : ∃ N, lexToken (0x24 :: c :: rest) = .ok (⟨.variable, (0x24 :: c :: rest).take N⟩, N) := by
    refine ⟨1 + 1 + spanRunes (fun r => isAlphaR r || isDigitR r) (0x24 :: c :: rest).length
      ((0x24 :: c :: rest).drop (1 + 1)), ?_⟩
    simp only [lexToken, h1, h2, hc', if_true]
    rfl
  obtain ⟨N, h3⟩ := h3
  have g := Lex.lexToken_good h3
  obtain ⟨w, hw, hid⟩ := g.shape
  simp only at hw
  refine ⟨w, N, ?_, hid, ?_, ?_, ?_⟩
  · rw [h3, hw]
  · have := congrArg List.length hw
    simp only [List.length_take, List.length_cons] at this
    have hle := g.le
    simp only [List.length_cons] at hle
    omega
  · rw [← hw, List.take_append_drop]
  · intro b hb
    exact g.maxi b hb

/-- `$ab+c`: the token is `$ab`, three bytes -/
example : ∃ w n, lexToken (Ex.bs "$ab+c") = .ok (⟨.variable, 0x24 :: w⟩, n) ∧ Ident w ∧ n = w.length + 1 :=
  let ⟨w, n, h1, h2, h3, _⟩ := lex_dollar_name (c := 0x61) (Ex.bs "b+c") (by decide); ⟨w, n, h1, h2, h3⟩
example : lexToken (Ex.bs "$ab+c") = .ok (⟨.variable, Ex.bs "$ab"⟩, 3) := by rfl

/-- **`$` followed by anything else (or by nothing) is the root token `$`**, one byte long — never a variable -/
theorem lex_dollar_alone (rest : Bytes) (h : ∀ c r, rest = c :: r → isIdStartB c = false) :
    lexToken (0x24 :: rest) = .ok (⟨.root, [0x24]⟩, 1) := by
  have h1 : lexDecode (0x24 :: rest) = .ok (0x24, 1) := Lex.lexDecode_cons_ascii (by omega)
  cases hp : peek (0x24 :: rest) 1 with
  | none =>
    simp only [lexToken, h1, hp]
    rfl
  | some p =>
    obtain ⟨nr, nsz⟩ := p
    have hd := Lex.peek_some hp
    simp only [List.drop_succ_cons, List.drop_zero] at hd
    have ha : isAlphaR nr = false := by
      cases ha : isAlphaR nr
      · rfl
      · exfalso
        have := (Lex.lexDecode_ok_ascii hd (Lex.isIdStartB_lt ha)).2
        have := h nr _ this
        rw [← Lex.isAlphaR_eq, ha] at this
        cases this
    simp only [lexToken, h1, hp, ha]
    rfl

example : lexToken (Ex.bs "$_a1+b") = .ok (⟨.variable, Ex.bs "$_a1"⟩, 4) := by rfl
example : lexToken (Ex.bs "$1") = .ok (⟨.root, Ex.bs "$"⟩, 1) := lex_dollar_alone _ (by intro c r h; cases h; decide)
example : lexToken (Ex.bs "$") = .ok (⟨.root, Ex.bs "$"⟩, 1) := lex_dollar_alone _ (by intro c r h; cases h)
example : lexToken (Ex.bs "$.a") = .ok (⟨.root, Ex.bs "$"⟩, 1) := by rfl

/-- every variable token the lexer produces is `$` followed by an identifier; every root token is exactly `$` -/
theorem variable_token_shape {e : Bytes} {ts : List Token} (hl : lexAll e = (ts, none)) {t : Token} (ht : t ∈ ts) :
    (t.type = .variable → ∃ w, t.value = 0x24 :: w ∧ Ident w) ∧ (t.type = .root → t.value = [0x24]) := by
  obtain ⟨pre, rfl, hpre⟩ := Lex.Lexes.ends (Lex.lexAll_sound hl)
  rcases List.mem_append.mp ht with ht | ht
  · have := hpre t ht
    constructor
    · intro hv; rw [hv] at this; exact this
    · intro hv; rw [hv] at this; exact this
  · simp only [List.mem_singleton] at ht
    subst ht
    exact ⟨fun h => (by cases h), fun h => (by cases h)⟩

example : lexAll (Ex.bs "$a | $") =
    ([⟨.variable, Ex.bs "$a"⟩, ⟨.pipe, Ex.bs "|"⟩, ⟨.root, Ex.bs "$"⟩, ⟨.end, []⟩], none) := by decide
example : ∃ w, (Ex.bs "$a") = 0x24 :: w ∧ Ident w :=
  (variable_token_shape (e := Ex.bs "$a | $") (t := ⟨.variable, Ex.bs "$a"⟩)
    (ts := [⟨.variable, Ex.bs "$a"⟩, ⟨.pipe, Ex.bs "|"⟩, ⟨.root, Ex.bs "$"⟩, ⟨.end, []⟩]) (by decide)
    List.mem_cons_self).1 rfl


/-! ## 2. `let` in the parser -/

/-- **An expression that starts with `let` is a `let` as a whole.**  If `compile` accepts an expression whose first token
    is `let`, the node it builds is the `let` node: bindings, then a body that takes *all* the remaining tokens — in
    `let $x = a in $x | b` the pipe is inside the body.  (Through `parse_sound` and `head_let`: in the grammar the `let`
    form has right level 1, below every operator, so it is never a left operand.) -/
theorem let_whole {e : Bytes} {n : INode} (h : compile e = .ok n) {t0 : Token} {ts : List Token}
    (hl : lexAll e = (t0 :: ts, none)) (h0 : t0.type = .let) :
    ∃ bs body, WellPrec (.letIn bs body) ∧ lexAll e = (Grammar.flatten (.letIn bs body) ++ [endTok], none) ∧
      n = .defineVariables (assocOf (eraseKVs Token.value bs)) (erase body) := by
  obtain ⟨t, hw, hlex, rfl, _⟩ := parse_sound h
  have hts : t0 :: ts = Grammar.flatten t ++ [endTok] := by
    rw [hl] at hlex; exact (Prod.mk.inj hlex).1
  have hhead : ((flat false t).head?.map (·.type)) = some .let := by
    cases hf : Grammar.flatten t with
    | nil =>
      rw [hf] at hts
      simp only [List.nil_append, List.cons.injEq] at hts
      rw [hts.1] at h0; cases h0
    | cons c cs =>
      rw [hf] at hts
      simp only [List.cons_append, List.cons.injEq] at hts
      have hf' : flat false t = c :: cs := hf
      rw [hf', ← hts.1]
      simp only [List.head?_cons, Option.map_some, h0]
  obtain ⟨bs, body, rfl⟩ := head_let false t hw hhead
  exact ⟨bs, body, hw, hlex, rfl⟩

/-- … and what follows `let` must be a variable token and `=`: `let $ = …`, `let $1 = …`, `let x = …` are rejected -/
theorem let_needs_variable {e : Bytes} {n : INode} (h : compile e = .ok n) {t0 t1 : Token} {ts : List Token}
    (hl : lexAll e = (t0 :: t1 :: ts, none)) (h0 : t0.type = .let) :
    t1.type = .variable ∧ ∃ ts', ts = tAssign :: ts' := by
  obtain ⟨bs, body, hw, hlex, _⟩ := let_whole h hl h0
  rw [hl] at hlex
  have hts := (Prod.mk.inj hlex).1
  have hw' : wp false (.letIn bs body) = true := hw
  match bs, hw', hts with
  | [], hw', _ => simp [wp] at hw'
  | [(k, x)], hw', hts =>
    simp only [wp, wpKVs, Bool.and_eq_true, isVarTok, beq_iff_eq] at hw'
    simp only [Grammar.flatten, flat, flatKVs, List.cons_append, List.cons.injEq] at hts
    exact ⟨hts.2.1 ▸ hw'.1.2.1.1, _, hts.2.2⟩
  | (k, x) :: kv :: rest, hw', hts =>
    simp only [wp, wpKVs, Bool.and_eq_true, isVarTok, beq_iff_eq] at hw'
    simp only [Grammar.flatten, flat, flatKVs, List.cons_append, List.cons.injEq] at hts
    exact ⟨hts.2.1 ▸ hw'.1.2.1.1, _, hts.2.2⟩

/-- the `let` form is never the left operand of an operator, of `.`, of a bracket or of a projection: those readings are
    not in the grammar (so, by `parse_sound`, the parser never produces them) -/
theorem let_never_left_operand (b : Bool) (bs : List (Token × PTree)) (body : PTree) :
    (∀ op r, wp b (.bin op (.letIn bs body) r) = false) ∧
    (∀ r, wp b (.dotId (.letIn bs body) r) = false) ∧
    (∀ es, wp b (.dotList (.letIn bs body) es) = false) ∧
    (∀ kvs, wp b (.dotHash (.letIn bs body) kvs) = false) ∧
    wp b (.dotStarList (.letIn bs body)) = false ∧
    (∀ n, wp b (.index (.letIn bs body) n) = false) ∧
    (∀ rhs, wp b (.star (.letIn bs body) rhs) = false) ∧
    (∀ rhs, wp b (.ostar (.letIn bs body) rhs) = false) ∧
    (∀ rhs, wp b (.flat (.letIn bs body) rhs) = false) ∧
    (∀ c rhs, wp b (.filt (.letIn bs body) c rhs) = false) ∧
    (∀ a bb c rhs, wp b (.slice (.letIn bs body) a bb c rhs) = false) := by
  refine ⟨?_, ?_, ?_, ?_, ?_, ?_, ?_, ?_, ?_, ?_, ?_⟩
  · intro op r
    simp only [wp]
    cases hl : binLevel op.type with
    | none => rfl
    | some lvl =>
      have := (GrammarF0.binLevel_range hl).1
      have hd : decide (lvl ≤ rlevel (.letIn bs body)) = false := by
        rw [rlevel_letIn]; exact decide_eq_false (by omega)
      simp only [hd, Bool.and_false, Bool.false_and]
  all_goals (intros; simp [wp, rlevel, PTree.isIcur, lvlLet, lvlDot, lvlBracket, lvlFlatten, lvlFilter])

example : wp false (.bin (Ex.op .pipe "|")
    (.letIn [(⟨.variable, Ex.bs "$x"⟩, Ex.idt "a")] (.atom ⟨.variable, Ex.bs "$x"⟩)) (Ex.idt "b")) = false :=
  (let_never_left_operand false _ _).1 _ _

/-- conversely the body absorbs a following operator: if `let … in body` is well formed and `body op r` is, so is
    `let … in body op r` -/
theorem let_body_absorbs {bs : List (Token × PTree)} {body r : PTree} {op : Token}
    (h : WellPrec (.letIn bs body)) (hb : WellPrec (.bin op body r)) : WellPrec (.letIn bs (.bin op body r)) := by
  have h' : wp false (.letIn bs body) = true := h
  have hb' : wp false (.bin op body r) = true := hb
  show wp false (.letIn bs (.bin op body r)) = true
  simp only [wp, Bool.and_eq_true] at h' ⊢
  exact ⟨h'.1, hb'⟩

example : WellPrec (.letIn [(⟨.variable, Ex.bs "$x"⟩, Ex.idt "a")]
    (.bin (Ex.op .pipe "|") (.atom ⟨.variable, Ex.bs "$x"⟩) (Ex.idt "b"))) :=
  let_body_absorbs (bs := [(⟨.variable, Ex.bs "$x"⟩, Ex.idt "a")]) (body := .atom ⟨.variable, Ex.bs "$x"⟩)
    (by decide) (by decide)

/-- `let $x = a in $x | b` -/
def tLetPipe : PTree :=
  .letIn [(⟨.variable, Ex.bs "$x"⟩, Ex.idt "a")]
    (.bin (Ex.op .pipe "|") (.atom ⟨.variable, Ex.bs "$x"⟩) (Ex.idt "b"))

/-- the pipe is inside the body … -/
theorem let_pipe_parse : compile (Ex.bs "let $x = a in $x | b") =
    .ok (.defineVariables [(Ex.bs "$x", .field (Ex.bs "a"))]
      (.pipe (.variable (Ex.bs "$x")) (.field (Ex.bs "b")))) :=
  parse_complete (t := tLetPipe) (by decide) (by decide)

/-- … `(let $x = a in $x) | b` needs its parentheses, and no well-formed tree with the tokens of
    `let $x = a in $x | b` denotes anything else -/
example : ¬ WellPrec (.bin (Ex.op .pipe "|")
    (.letIn [(⟨.variable, Ex.bs "$x"⟩, Ex.idt "a")] (.atom ⟨.variable, Ex.bs "$x"⟩)) (Ex.idt "b")) := by decide
example (q : PTree) (hq : WellPrec q) (h : Grammar.flatten q = Grammar.flatten tLetPipe) : erase q = erase tLetPipe :=
  unambiguous hq (by decide) h
example : ∃ bs body, WellPrec (.letIn bs body) ∧
    lexAll (Ex.bs "let $x = a in $x | b") = (Grammar.flatten (.letIn bs body) ++ [endTok], none) ∧
    INode.defineVariables [(Ex.bs "$x", .field (Ex.bs "a"))] (.pipe (.variable (Ex.bs "$x")) (.field (Ex.bs "b"))) =
      .defineVariables (assocOf (eraseKVs Token.value bs)) (erase body) :=
  let_whole let_pipe_parse (t0 := tLet) (ts := (Grammar.flatten tLetPipe).tail ++ [endTok]) (by decide) rfl

/-- so on `{"a": {"b": 1}}` the result is 1 (with the other reading it would be null: the document has no `b`) -/
example : search (Ex.bs "let $x = a in $x | b") (.obj [(Ex.bs "a", .obj [(Ex.bs "b", C19.n1)])]) = .ok C19.n1 := by
  have h := let_pipe_parse
  simp only [compile] at h
  simp only [search, h]
  simp [evaluate, ieval, ievalFields, combineUnordered, field, objLookup, objInsert, Env.get, Ex.bs]

/-! ### rejected spellings -/

theorem rejected_of_not_ok {e : Bytes} (h : ∀ n, compile e ≠ .ok n) : ∃ err, compile e = .error err := by
  cases hp : compile e with
  | error err => exact ⟨err, rfl⟩
  | ok n => exact absurd hp (h n)

/-- `let $ = a in b`: `$` alone is the root token, not a variable -/
example : ∃ err, compile (Ex.bs "let $ = a in b") = .error err :=
  rejected_of_not_ok fun n h => by
    have := (let_needs_variable h (t0 := tLet) (t1 := ⟨.root, Ex.bs "$"⟩)
      (ts := [tAssign, ⟨.unquotedIdentifier, Ex.bs "a"⟩, tIn, ⟨.unquotedIdentifier, Ex.bs "b"⟩, endTok]) (by decide) rfl).1
    cases this
/-- `let $1 = a in b` -/
example : ∃ err, compile (Ex.bs "let $1 = a in b") = .error err :=
  rejected_of_not_ok fun n h => by
    have := (let_needs_variable h (t0 := tLet) (t1 := ⟨.root, Ex.bs "$"⟩)
      (ts := [⟨.integerLiteral, Ex.bs "1"⟩, tAssign, ⟨.unquotedIdentifier, Ex.bs "a"⟩, tIn,
        ⟨.unquotedIdentifier, Ex.bs "b"⟩, endTok]) (by decide) rfl).1
    cases this
/-- `let x = a in x` -/
example : ∃ err, compile (Ex.bs "let x = a in x") = .error err :=
  rejected_of_not_ok fun n h => by
    have := (let_needs_variable h (t0 := tLet) (t1 := ⟨.unquotedIdentifier, Ex.bs "x"⟩)
      (ts := [tAssign, ⟨.unquotedIdentifier, Ex.bs "a"⟩, tIn, ⟨.unquotedIdentifier, Ex.bs "x"⟩, endTok]) (by decide) rfl).1
    cases this
/-- `let $x in $x`: no `=` -/
example : ∃ err, compile (Ex.bs "let $x in $x") = .error err :=
  rejected_of_not_ok fun n h => by
    obtain ⟨_, ts', h2⟩ := let_needs_variable h (t0 := tLet) (t1 := ⟨.variable, Ex.bs "$x"⟩)
      (ts := [tIn, ⟨.variable, Ex.bs "$x"⟩, endTok]) (by decide) rfl
    cases h2
/-- `$1` is `$` followed by `1`: a syntax error -/
theorem dollar_digit_rejected : compile (Ex.bs "$1") = .error .unexpectedToken := by
  obtain ⟨f, hf⟩ := complete_operand (t := .atom ⟨.root, Ex.bs "$"⟩) (p := 1) (by decide) (by decide)
    (rest := [⟨.integerLiteral, Ex.bs "1"⟩, endTok]) ⟨by decide, by decide⟩
  exact parse_of_prefix (ts := Grammar.flatten (.atom ⟨.root, Ex.bs "$"⟩) ++ [⟨.integerLiteral, Ex.bs "1"⟩, endTok])
    (by decide) hf (by decide)
example : search (Ex.bs "$1") .null = .err [Cat.syntax] := by
  have h := dollar_digit_rejected
  simp only [compile] at h
  simp only [search, h, parseCat]


/-! ## 3. a name bound twice in one `let` -/

/-- **`let $x = a, $x = b in body` is compiled as `let $x = b in body`**: the parser keeps one expression per name,
    the last one; the earlier one is not part of the compiled expression (so it is never evaluated, and an error in
    it is never reported). -/
theorem dup_binding_dropped (x : Token) (ta tb body : PTree) :
    erase (.letIn [(x, ta), (x, tb)] body) = .defineVariables [(x.value, erase tb)] (erase body) := by
  simp [erase, eraseKVs, assocOf, Parser.assocInsert]

/-- in general: per name, the binding list of the compiled `let` holds the expression of the *last* source binding of
    that name (`assocLookup` is first-match lookup; the source list is read backwards) -/
theorem let_last_binding_wins (bs : List (Token × PTree)) (body : PTree) (k : Bytes) :
    ∃ vars, erase (.letIn bs body) = .defineVariables vars (erase body) ∧ (vars.map Prod.fst).Nodup ∧
      assocLookup k vars = assocLookup k (eraseKVs Token.value bs).reverse :=
  ⟨_, rfl, assocOf_nodup _, assocLookup_assocOf k _⟩

/-- three bindings of two names: `$x` keeps its last expression `c`, `$y` its only one -/
example : erase (.letIn [(⟨.variable, Ex.bs "$x"⟩, Ex.idt "a"), (⟨.variable, Ex.bs "$y"⟩, Ex.idt "b"),
    (⟨.variable, Ex.bs "$x"⟩, Ex.idt "c")] (.atom ⟨.current, Ex.bs "@"⟩)) =
    .defineVariables [(Ex.bs "$x", .field (Ex.bs "c")), (Ex.bs "$y", .field (Ex.bs "b"))] .current := by
  simp [erase, eraseKVs, assocOf, Parser.assocInsert, atomNode, Ex.idt, Ex.bs, bytesLt]
example : ∃ vars, erase (.letIn [(⟨.variable, Ex.bs "$x"⟩, Ex.idt "a"), (⟨.variable, Ex.bs "$x"⟩, Ex.idt "c")] .icur) =
      .defineVariables vars .current ∧ (vars.map Prod.fst).Nodup ∧
      assocLookup (Ex.bs "$x") vars = some (.field (Ex.bs "c")) := by
  obtain ⟨vars, h1, h2, h3⟩ := let_last_binding_wins
    [(⟨.variable, Ex.bs "$x"⟩, Ex.idt "a"), (⟨.variable, Ex.bs "$x"⟩, Ex.idt "c")] .icur (Ex.bs "$x")
  exact ⟨vars, h1, h2, h3.trans (by simp [eraseKVs, assocLookup, erase, atomNode, Ex.idt])⟩

/-- **Every `let` in a compiled expression binds pairwise distinct names** (`INode.letsOK`: at every `defineVariables`
    node, anywhere in the tree, the names are `Nodup`) — the hypothesis of the `C19` theorems about bindings
    (`bindings_perm`, `let_lookup_bound`, `let_var`) holds for whatever `compile` returns. -/
theorem compile_lets_nodup {e : Bytes} {n : INode} (h : compile e = .ok n) : n.letsOK := by
  obtain ⟨t, _, _, rfl, _⟩ := parse_sound h
  exact erase_letsOK t

/-- at the top node, spelled out -/
theorem compile_let_nodup {e : Bytes} {vars : List (Bytes × INode)} {child : INode}
    (h : compile e = .ok (.defineVariables vars child)) : (vars.map Prod.fst).Nodup := by
  have := compile_lets_nodup h
  simp only [INode.letsOK] at this
  exact this.1

/-- so the `C19` facts that assume distinct names apply to every compiled `let`: its bindings are exactly the pairs
    (name, value of the binding expression in the outer scope), in key order -/
theorem compiled_let_bindings {e : Bytes} {vars : List (Bytes × INode)} {child : INode}
    (hc : compile e = .ok (.defineVariables vars child)) {root cur : Val} {env : Env} {kvs : List (Bytes × Val)}
    (h : EvalAll root cur env vars kvs) :
    ievalFields root vars cur env = .ok (insertAll kvs) ∧ (insertAll kvs).Perm kvs ∧ KeySorted (insertAll kvs) :=
  C19.bindings_perm h (compile_let_nodup hc)

/-- `letsOK` is not vacuous: a node with a repeated name does not satisfy it -/
example : ¬ (INode.defineVariables [(C19.dx, .current), (C19.dx, .root)] .current).letsOK := by
  simp [INode.letsOK]
example : (INode.pipe (.defineVariables [(C19.dx, .current), (C19.dy, .root)] .current) .current).letsOK := by
  simp [INode.letsOK, letsOKFields, C19.dx, C19.dy]

/-- `let $x = $undefined, $x = b in $x` -/
def tDup : PTree :=
  .letIn [(⟨.variable, Ex.bs "$x"⟩, .atom ⟨.variable, Ex.bs "$undefined"⟩), (⟨.variable, Ex.bs "$x"⟩, Ex.idt "b")]
    (.atom ⟨.variable, Ex.bs "$x"⟩)

theorem dup_parse : compile (Ex.bs "let $x = $undefined, $x = b in $x") =
    .ok (.defineVariables [(Ex.bs "$x", .field (Ex.bs "b"))] (.variable (Ex.bs "$x"))) :=
  parse_complete (t := tDup) (by decide) (by decide +kernel)

example : (INode.defineVariables [(Ex.bs "$x", .field (Ex.bs "b"))] (.variable (Ex.bs "$x"))).letsOK :=
  compile_lets_nodup dup_parse
example : ([(Ex.bs "$x", INode.field (Ex.bs "b"))].map Prod.fst).Nodup := compile_let_nodup dup_parse
example (root cur : Val) (env : Env) :
    ievalFields root [(Ex.bs "$x", .field (Ex.bs "b"))] cur env = .ok (insertAll [(Ex.bs "$x", field (Ex.bs "b") cur)]) :=
  (compiled_let_bindings dup_parse (.cons (by simp only [ieval]) .nil)).1

/-- **the error in the first binding is lost**: the expression succeeds (with the value of `b`) although its first
    binding refers to an undefined variable; the Go library answers `2, <nil>` for this input on `{"b": 2}` as well.
    (The reference implementations evaluate every binding, so they report undefined-variable here.) -/
theorem dup_error_lost (d : Val) :
    search (Ex.bs "let $x = $undefined, $x = b in $x") d = .ok (field (Ex.bs "b") d) := by
  have h := dup_parse
  simp only [compile] at h
  simp only [search, h]
  simp [evaluate, ieval, ievalFields, combineUnordered, objLookup, objInsert, Env.get]

/-- … whereas the same failing binding under another name is reported -/
example (d : Val) : evaluate (.defineVariables [(Ex.bs "$w", .variable (Ex.bs "$undefined")),
    (Ex.bs "$x", .field (Ex.bs "b"))] (.variable (Ex.bs "$x"))) d = .err [Cat.undefinedVariable] := by
  simp [evaluate, ieval, ievalFields, combineUnordered, objLookup, Env.get]


/-! ## 4. free variables and the undefined-variable error -/

/-- **No unbound free variable, no undefined-variable error.**  `n.fv` lists the references of `n` that are not bound by
    an enclosing `let` *of `n` itself* (binding expressions belong to the outer scope, `&e` is transparent).  If all of
    them are bound in `env`, then evaluating `n` — anywhere: any root, any current value — never reports
    undefined-variable, however the evaluation fails otherwise. -/
theorem no_undefined_if_bound {root : Val} {n : INode} {cur : Val} {env : Env}
    (h : ∀ x ∈ n.fv, env.get x ≠ none) :
    ∀ cs, ieval root n cur env = .err cs → Cat.undefinedVariable ∉ cs :=
  fun _ hr => (ieval_noUV root n cur env h).err_pe hr

/-- the same read backwards: **an undefined-variable error always comes from a free variable without a binding** -/
theorem undefined_needs_free {root : Val} {n : INode} {cur : Val} {env : Env} {cs : List Cat}
    (hr : ieval root n cur env = .err cs) (hu : Cat.undefinedVariable ∈ cs) : ∃ x ∈ n.fv, env.get x = none :=
  Classical.byContradiction fun hne =>
    no_undefined_if_bound (fun x hx hg => hne ⟨x, hx, hg⟩) cs hr hu

example {cs : List Cat} (h : ieval .null (.binop .add (.variable C19.dx) (.variable C19.dy)) .null [(C19.dx, C19.n1)] = .err cs)
    (hu : Cat.undefinedVariable ∈ cs) : ∃ x ∈ [C19.dx, C19.dy], Env.get [(C19.dx, C19.n1)] x = none := by
  simpa [INode.fv] using undefined_needs_free h hu
/-- (here the error is indeed undefined-variable, and the culprit is `$y`) -/
example : ieval .null (.binop .add (.variable C19.dx) (.variable C19.dy)) .null [(C19.dx, C19.n1)] =
    .err [Cat.undefinedVariable] := by
  simp [ieval, Env.get, objLookup, C19.dx, C19.dy]

/-- a closed expression (no free variable) never reports undefined-variable, at top level or anywhere else -/
theorem closed_never_undefined {n : INode} (h : n.fv = []) (root cur : Val) (env : Env) :
    ∀ cs, ieval root n cur env = .err cs → Cat.undefinedVariable ∉ cs :=
  no_undefined_if_bound (by rw [h]; intro x hx; cases hx)

/-- through `search`: a compiled closed expression never answers undefined-variable (a compile error is reported in
    one of the four syntax-side categories) -/
theorem search_closed_never_undefined {e : Bytes} {n : INode} (hc : compile e = .ok n) (h : n.fv = []) (d : Val) :
    ∀ cs, search e d = .err cs → Cat.undefinedVariable ∉ cs := by
  intro cs hs
  simp only [compile] at hc
  simp only [search, hc] at hs
  exact closed_never_undefined h d d [] cs hs

/-- at top level (`search` starts with no binding) an undefined-variable error names a free variable of the expression -/
theorem search_undefined_needs_free {e : Bytes} {n : INode} (hc : compile e = .ok n) {d : Val} {cs : List Cat}
    (hs : search e d = .err cs) (hu : Cat.undefinedVariable ∈ cs) : n.fv ≠ [] := by
  intro h
  exact search_closed_never_undefined hc h d cs hs hu

example (d : Val) : ∀ cs, search (Ex.bs "let $x = a in $x | b") d = .err cs → Cat.undefinedVariable ∉ cs :=
  search_closed_never_undefined let_pipe_parse (by simp [INode.fv, fvFields, bindsName]) d

/-- **Coincidence**: the evaluator consults the environment on the free variables only — so `fv` misses nothing -/
theorem coincidence {root : Val} {n : INode} {cur : Val} {env env' : Env}
    (h : ∀ x ∈ n.fv, env.get x = env'.get x) : ieval root n cur env = ieval root n cur env' :=
  ieval_fv_ext root n cur env env' h

/-- `$y + 1`-style: only `$y` matters, `$x` may be anything -/
example (root cur : Val) (v w : Val) :
    ieval root (.binop .add (.variable C19.dy) .current) cur [(C19.dx, v), (C19.dy, C19.n1)] =
    ieval root (.binop .add (.variable C19.dy) .current) cur [(C19.dy, C19.n1), (C19.dx, w)] :=
  coincidence (by simp [INode.fv, Env.get, objLookup, C19.dx, C19.dy])

/-- `fv` respects `let` and `&`: in `let $x = $y in map(&[$x, $z], @)` the free variables are `$y` and `$z` -/
example : (INode.defineVariables [(C19.dx, .variable C19.dy)]
    (.map (.selectArrayCurrent [.variable C19.dx, .variable [0x24, 0x7A]]) .current)).fv = [C19.dy, [0x24, 0x7A]] := by
  simp [INode.fv, fvList, fvFields, bindsName, C19.dx, C19.dy]
/-- a binding expression is outside the scope of its own `let`: in `let $x = $x in $x` the first `$x` is free -/
example : (INode.defineVariables [(C19.dx, .variable C19.dx)] (.variable C19.dx)).fv = [C19.dx] := by
  simp [INode.fv, fvFields, bindsName]
example : ∀ cs, ieval .null (.defineVariables [(C19.dx, .lit C19.n1)] (.map (.binop .add (.variable C19.dx) .current) .current))
    (.arr .plain [C19.n0]) [] = .err cs → Cat.undefinedVariable ∉ cs :=
  closed_never_undefined (by simp [INode.fv, fvFields, bindsName]) _ _ _

/-- **A reached reference without a binding is an undefined-variable error** (the converse, for references on the
    strict evaluation path — `Reaches`, see `Proofs/C19BLemmas.lean`): exactly the category undefined-variable, whatever
    the rest of the expression would do. -/
theorem reached_undefined {root : Val} {x : Bytes} {n : INode} {cur : Val} {env : Env}
    (h : Reaches root x n cur env) (hx : env.get x = none) : ieval root n cur env = .err [Cat.undefinedVariable] :=
  h.undefined hx

/-- at top level every reached reference is undefined -/
theorem reached_undefined_toplevel {x : Bytes} {n : INode} {d : Val} (h : Reaches d x n d []) :
    evaluate n d = .err [Cat.undefinedVariable] :=
  h.undefined rfl

/-- a path that starts at a variable: `$x.a.b[0]` (any number of `.name`, `[i]`, `[a:b]`, `[*]`, `[]`, `[?…]`, `| …`
    steps — each puts the variable in the strict position of the next node) -/
example (root cur : Val) (env : Env) (x : Bytes) (hx : env.get x = none) :
    ieval root (.pipe (.pipe (.variable x) (.field [0x61])) (.index (.field [0x62]) 0)) cur env =
      .err [Cat.undefinedVariable] :=
  reached_undefined (.pipeL (.pipeL .var)) hx
example (root cur : Val) (env : Env) (x : Bytes) (hx : env.get x = none) (f r : INode) :
    ieval root (.filterAndProject (.flatten (.projectArray (.variable x) .current)) f r) cur env =
      .err [Cat.undefinedVariable] :=
  reached_undefined (.filterAndProject (.flatten (.projectArray .var))) hx
/-- to the right of operands that evaluate: ``@ || $x`` on a falsy value, ``a.$x``-style pipes, the body of a `let` -/
example (root : Val) (env : Env) (x : Bytes) (hx : env.get x = none) :
    ieval root (.or .current (.variable x)) .null env = .err [Cat.undefinedVariable] :=
  reached_undefined (.orR (a := .null) rfl rfl .var) hx
example (d : Val) : evaluate (.defineVariables [(C19.dx, .current)] (.pipe .current (.variable C19.dy))) d =
    .err [Cat.undefinedVariable] :=
  reached_undefined_toplevel
    (.letBody (bs := [(C19.dx, d)]) (by simp [ievalFields, ieval, combineUnordered, objInsert])
      (by simp [C19.dx, C19.dy]) (.pipeR (a := d) rfl .var))
/-- not reached, not reported: ``@ || $x`` on a truthy value -/
example (root : Val) (env : Env) (x : Bytes) :
    ieval root (.or .current (.variable x)) (.bool true) env = .ok (.bool true) := by
  simp [ieval, isTrue]


/-! ## 5. β-reduction for any number of bindings; the bindings do not see each other -/

/-- **β-reduction, n bindings.**  A `let` is: evaluate all binding expressions where the `let` stands (outer scope,
    the let's own current value), then evaluate the body with the resulting values substituted for the variables,
    simultaneously (`substMany`: the values are closed, and substitution stops at inner lets that rebind a name) — in
    the *outer* environment: the bindings leave no other trace. -/
theorem let_many (root cur : Val) (env : Env) (vars : List (Bytes × INode)) (b : INode) :
    ieval root (.defineVariables vars b) cur env =
      (ievalFields root vars cur env >>= fun bs => ieval root (substMany bs b) cur env) := by
  simp only [ieval]
  apply Res.bind_congr
  intro bs
  exact (ieval_substMany root bs b cur env).symm

example : ieval .null (.defineVariables [(C19.dx, .lit C19.n1), (C19.dy, .lit C19.n2)]
      (.selectArrayCurrent [.variable C19.dy, .variable C19.dx])) (.bool true) [] =
    .ok (.arr .plain [C19.n2, C19.n1]) := by
  rw [let_many]
  simp [ievalFields, ieval, ievalList, combineUnordered, objInsert, substMany, INode.subst, substList, C19.dx, C19.dy,
    bytesLt, Val.isNull]

/-- the same in terms of the source-order values `kvs` of the bindings (`EvalAll`: each expression evaluated in `env`) -/
theorem let_many_src {root cur : Val} {env : Env} {vars : List (Bytes × INode)} {kvs : List (Bytes × Val)}
    (h : EvalAll root cur env vars kvs) (b : INode) :
    ieval root (.defineVariables vars b) cur env = ieval root (substMany kvs b) cur env := by
  rw [C19.let_eval b h, ieval_substMany]
  apply ieval_env_ext
  intro y
  rw [C19.let_lookup, Env.get_append]

/-- two bindings, spelled out -/
example (root cur : Val) (env : Env) (x y : Bytes) (e1 e2 b : INode) (v1 v2 : Val)
    (h1 : ieval root e1 cur env = .ok v1) (h2 : ieval root e2 cur env = .ok v2) :
    ieval root (.defineVariables [(x, e1), (y, e2)] b) cur env = ieval root ((b.subst x v1).subst y v2) cur env :=
  let_many_src (.cons h1 (.cons h2 .nil)) b

/-- **The bindings of one `let` are evaluated in the outer scope, not one after the other**: in
    `let $x = a, $y = $x in body` the `$x` of the second binding is the *outer* `$x` — if there is none, the whole
    `let` is an undefined-variable error even though `a` evaluates. -/
theorem bindings_not_sequential {root cur : Val} {env : Env} {x y : Bytes} {a : INode} {va : Val}
    (ha : ieval root a cur env = .ok va) (b : INode) :
    ieval root (.defineVariables [(x, a), (y, .variable x)] b) cur env =
      (match env.get x with
       | none => .err [Cat.undefinedVariable]
       | some w => ieval root ((b.subst x va).subst y w) cur env) := by
  cases hg : env.get x with
  | none => simp only [ieval, ievalFields, ha, hg, combineUnordered, Res.err_bind]
  | some w =>
    exact let_many_src (.cons ha (.cons (by simp only [ieval, hg]) .nil)) b

/-- `let $x = a, $y = $x in $y` is the outer `$x` (never the value of `a`) -/
theorem bindings_not_sequential_var {root cur : Val} {env : Env} {x y : Bytes} (hxy : x ≠ y) {a : INode} {va : Val}
    (ha : ieval root a cur env = .ok va) :
    ieval root (.defineVariables [(x, a), (y, .variable x)] (.variable y)) cur env =
      ieval root (.variable x) cur env := by
  rw [bindings_not_sequential ha]
  cases hg : env.get x with
  | none => simp only [ieval, hg]
  | some w => simp [ieval, hg, INode.subst, Ne.symm hxy]

/-- … whereas the nested form `let $x = a in let $y = $x in $y` is the value of `a` -/
theorem nested_is_sequential {root cur : Val} {env : Env} {x y : Bytes} {a : INode} {va : Val}
    (ha : ieval root a cur env = .ok va) :
    ieval root (.defineVariables [(x, a)] (.defineVariables [(y, .variable x)] (.variable y))) cur env = .ok va := by
  simp [ieval, ievalFields, ha, combineUnordered, objInsert, Env.get, objLookup]

/-- `let $x = a, $y = $x in $y` -/
def tSeq : PTree :=
  .letIn [(⟨.variable, Ex.bs "$x"⟩, Ex.idt "a"), (⟨.variable, Ex.bs "$y"⟩, .atom ⟨.variable, Ex.bs "$x"⟩)]
    (.atom ⟨.variable, Ex.bs "$y"⟩)

theorem seq_parse : compile (Ex.bs "let $x = a, $y = $x in $y") =
    .ok (.defineVariables [(Ex.bs "$x", .field (Ex.bs "a")), (Ex.bs "$y", .variable (Ex.bs "$x"))]
      (.variable (Ex.bs "$y"))) :=
  parse_complete (t := tSeq) (by decide) (by decide +kernel)

/-- through the parser: at top level it is an undefined-variable error on every document (Go: `undefined variable "$x"`) -/
theorem seq_search (d : Val) : search (Ex.bs "let $x = a, $y = $x in $y") d = .err [Cat.undefinedVariable] := by
  have h := seq_parse
  simp only [compile] at h
  simp only [search, h, evaluate]
  rw [bindings_not_sequential_var (by decide) (va := field (Ex.bs "a") d) (by simp only [ieval])]
  simp only [ieval, Env.get, objLookup]


/-! ## 6. shadowing -/

/-- **Inside the body of a `let` that binds `x`, the outer `x` is invisible**: the body gives the same outcome
    whatever the enclosing scope binds `x` to, or whether it binds it at all. -/
theorem body_blind_to_outer {root cur : Val} {env env' : Env} {x : Bytes} {vars : List (Bytes × INode)}
    {bs : List (Bytes × Val)} (hx : x ∈ vars.map Prod.fst) (hb : ievalFields root vars cur env = .ok bs)
    (hag : ∀ y, y ≠ x → env'.get y = env.get y) (child : INode) :
    ieval root child cur (bs ++ env') = ieval root child cur (bs ++ env) := by
  apply ieval_env_ext
  intro y
  rw [Env.get_append, Env.get_append]
  by_cases hy : y = x
  · subst hy
    cases hl : objLookup y bs with
    | none => exact absurd hx ((ievalFields_lookup_none hb y).mp hl)
    | some w => rfl
  · rw [hag y hy]

/-- body `$x` of `let $x = `2` in …`: same outcome under an outer `$x = 1`, an outer `$x = 0`, or none -/
example (w : Val) : ieval .null (.variable C19.dx) .null ([(C19.dx, C19.n2)] ++ [(C19.dx, w)]) =
    ieval .null (.variable C19.dx) .null ([(C19.dx, C19.n2)] ++ []) :=
  body_blind_to_outer (vars := [(C19.dx, .lit C19.n2)]) (x := C19.dx) (by simp)
    (by simp [ievalFields, ieval, combineUnordered, objInsert]) (by intro y hy; simp [Env.get, objLookup, hy]) _

/-- the whole `let` is blind to the outer `x` when, in addition, its binding expressions do not mention `x`: then `x`
    is not a free variable of the `let` (its occurrences in the body are bound) -/
theorem let_blind_to_outer {root cur : Val} {env env' : Env} {x : Bytes} {vars : List (Bytes × INode)}
    (hx : x ∈ vars.map Prod.fst) (hfree : x ∉ fvFields vars) (hag : ∀ y, y ≠ x → env'.get y = env.get y)
    (child : INode) :
    ieval root (.defineVariables vars child) cur env' = ieval root (.defineVariables vars child) cur env := by
  apply ieval_fv_ext
  intro y hy
  by_cases hyx : y = x
  · subst hyx
    simp only [INode.fv, List.mem_append, List.mem_filter, (bindsName_iff y vars).mpr hx, Bool.not_true,
      Bool.false_eq_true, and_false, or_false] at hy
    exact absurd hy hfree
  · exact hag y hyx

example (w : Val) : ieval .null (.defineVariables [(C19.dx, .lit C19.n2)] (.variable C19.dx)) .null [(C19.dx, w)] =
    ieval .null (.defineVariables [(C19.dx, .lit C19.n2)] (.variable C19.dx)) .null [] :=
  let_blind_to_outer (x := C19.dx) (by simp) (by simp [fvFields, INode.fv])
    (by intro y hy; simp [Env.get, objLookup, hy]) _
/-- the side condition matters: in `let $x = $x in $x` the binding expression sees the outer `$x` -/
example : ieval .null (.defineVariables [(C19.dx, .variable C19.dx)] (.variable C19.dx)) .null [(C19.dx, C19.n1)] = .ok C19.n1 ∧
    ieval .null (.defineVariables [(C19.dx, .variable C19.dx)] (.variable C19.dx)) .null [] = .err [Cat.undefinedVariable] := by
  constructor <;> simp [ieval, ievalFields, combineUnordered, objInsert, Env.get, objLookup]

/-- **… and nowhere else**: with `x` bound to `vo` outside, the outer value may be substituted for `$x` everywhere in
    any expression `n` — in particular in everything that follows an inner `let $x = …` — *except* in the bodies of
    the lets that rebind `x`, where substitution stops. -/
theorem outer_visible_outside_body {root : Val} {env : Env} {x : Bytes} {vo : Val} (h : env.get x = some vo)
    (vars : List (Bytes × INode)) (hx : x ∈ vars.map Prod.fst) (body : INode) :
    (INode.defineVariables vars body).subst x vo = .defineVariables (substFields x vo vars) body ∧
    ∀ (n : INode) (cur : Val), ieval root n cur env = ieval root (n.subst x vo) cur env := by
  refine ⟨?_, fun n cur => C19.let_subst h n cur⟩
  simp only [INode.subst, (bindsName_iff x vars).mpr hx, if_true]

/-- `[let $x = `2` in $x, $x]` under `$x = 1`: the outer value goes into the second element only -/
example : (INode.selectArrayCurrent [.defineVariables [(C19.dx, .lit C19.n2)] (.variable C19.dx), .variable C19.dx]).subst
      C19.dx C19.n1 =
    .selectArrayCurrent [.defineVariables [(C19.dx, .lit C19.n2)] (.variable C19.dx), .lit C19.n1] := by
  simp [INode.subst, substList, substFields, bindsName]
example (cur : Val) :
    ieval .null (.selectArrayCurrent [.defineVariables [(C19.dx, .lit C19.n2)] (.variable C19.dx), .variable C19.dx])
      cur [(C19.dx, C19.n1)] =
    ieval .null ((INode.selectArrayCurrent [.defineVariables [(C19.dx, .lit C19.n2)] (.variable C19.dx),
      .variable C19.dx]).subst C19.dx C19.n1) cur [(C19.dx, C19.n1)] :=
  (outer_visible_outside_body (root := .null) (env := [(C19.dx, C19.n1)]) (x := C19.dx) (vo := C19.n1)
    (by simp [Env.get, objLookup]) [(C19.dx, .lit C19.n2)] (by simp) (.variable C19.dx)).2 _ cur

/-- after the `let`, on the evaluator: in `(let $x = ei in body) && r` the operand `r` sees the outer value `vo`,
    the body sees the inner one -/
theorem shadow_and {root cur : Val} {env : Env} {x : Bytes} {vo : Val} (h : env.get x = some vo) (ei body r : INode) :
    ieval root (.and (.defineVariables [(x, ei)] body) r) cur env =
      (ieval root ei cur env >>= fun vi => ieval root (body.subst x vi) cur env >>= fun a =>
        if !isTrue a then pure a else ieval root (r.subst x vo) cur env) := by
  rw [C19.shadow_local_and, C19.let_once, ← C19.let_subst h r, Res.bind_assoc]

/-- `(let $x = `2` in $x) && $x` under `$x = 1` is 1 -/
example : ieval .null (.and (.defineVariables [(C19.dx, .lit C19.n2)] (.variable C19.dx)) (.variable C19.dx)) .null
    [(C19.dx, C19.n1)] = .ok C19.n1 := by
  rw [shadow_and (vo := C19.n1) (by simp [Env.get, objLookup])]
  simp [ieval, INode.subst, isTrue, C19.n2]

/-- **through an expression reference**: the `&$x` handed to `map` is evaluated, for every element, in the scope of
    the call — `let $x = ei in map(&$x, arr)` maps every element to the value of `ei`, whatever `x` was outside -/
theorem shadow_map (root cur : Val) (env : Env) (x : Bytes) (ei arr : INode) :
    ieval root (.defineVariables [(x, ei)] (.map (.variable x) arr)) cur env =
      (ieval root ei cur env >>= fun vi => ieval root arr cur ((x, vi) :: env) >>= fun a =>
        mapArray (fun _ => .ok vi) a) := by
  rw [C19.let_once_env]
  apply Res.bind_congr
  intro vi
  exact C19.visible_map (Env.get_cons_self env x vi) arr cur

example : ieval .null (.defineVariables [(C19.dx, .lit C19.n2)] (.map (.variable C19.dx) .current))
    (.arr .plain [C19.n0, C19.n0]) [(C19.dx, C19.n1)] = .ok (.arr .plain [C19.n2, C19.n2]) := by
  rw [shadow_map]
  simp [ieval, mapArray, mapAll, widen, ATag.derived]

/-- the same for `sort_by(arr, &$x)` -/
theorem shadow_sortBy (root cur : Val) (env : Env) (x : Bytes) (ei arr : INode) :
    ieval root (.defineVariables [(x, ei)] (.sortBy arr (.variable x))) cur env =
      (ieval root ei cur env >>= fun vi => ieval root arr cur ((x, vi) :: env) >>= fun a =>
        sortArrayBy (fun _ => .ok vi) a) := by
  rw [C19.let_once_env]
  apply Res.bind_congr
  intro vi
  exact C19.visible_sortBy (Env.get_cons_self env x vi) arr cur

/-- every key is the same number: the (stable) sort keeps the order -/
example : ieval .null (.defineVariables [(C19.dx, .lit C19.n2)] (.sortBy .current (.variable C19.dx)))
    (.arr .plain [C19.n1, C19.n0]) [] =
      sortArrayBy (fun _ => .ok C19.n2) (.arr .plain [C19.n1, C19.n0]) := by
  rw [shadow_sortBy]
  simp [ieval]

/-- a two-element multi-select on a non-null value: left to right -/
theorem ieval_pair (root cur : Val) (env : Env) (a b : INode) (hcur : cur.isNull = false) :
    ieval root (.selectArrayCurrent [a, b]) cur env =
      (ieval root a cur env >>= fun va => ieval root b cur env >>= fun vb => pure (.arr .plain [va, vb])) := by
  simp only [ieval, hcur, Bool.false_eq_true, if_false, ievalList, Res.bind_assoc, Res.pure_eq, Res.ok_bind]

/-- **Shadowing, inside and after, through `&`**: `let $x = eo in [let $x = ei in map(&$x, @), map(&$x, @)]` — the first
    `map` sees the inner value for every element, the second one (after the inner `let`) the outer value again. -/
theorem shadow_through_expref (root cur : Val) (env : Env) (x : Bytes) (eo ei : INode) (hcur : cur.isNull = false) :
    ieval root (.defineVariables [(x, eo)] (.selectArrayCurrent
      [.defineVariables [(x, ei)] (.map (.variable x) .current), .map (.variable x) .current])) cur env =
      (ieval root eo cur env >>= fun vo => ieval root ei cur ((x, vo) :: env) >>= fun vi =>
        mapArray (fun _ => .ok vi) cur >>= fun r1 => mapArray (fun _ => .ok vo) cur >>= fun r2 =>
          pure (.arr .plain [r1, r2])) := by
  rw [C19.let_once_env]
  apply Res.bind_congr
  intro vo
  have hc : ∀ e : Env, ieval root .current cur e = .ok cur := fun e => by simp only [ieval]
  rw [ieval_pair _ _ _ _ _ hcur, shadow_map, C19.visible_map (Env.get_cons_self env x vo)]
  simp only [hc, Res.ok_bind, Res.bind_assoc]

/-- the same with `sort_by(@, &$x)` -/
theorem shadow_through_expref_sortBy (root cur : Val) (env : Env) (x : Bytes) (eo ei : INode)
    (hcur : cur.isNull = false) :
    ieval root (.defineVariables [(x, eo)] (.selectArrayCurrent
      [.defineVariables [(x, ei)] (.sortBy .current (.variable x)), .sortBy .current (.variable x)])) cur env =
      (ieval root eo cur env >>= fun vo => ieval root ei cur ((x, vo) :: env) >>= fun vi =>
        sortArrayBy (fun _ => .ok vi) cur >>= fun r1 => sortArrayBy (fun _ => .ok vo) cur >>= fun r2 =>
          pure (.arr .plain [r1, r2])) := by
  rw [C19.let_once_env]
  apply Res.bind_congr
  intro vo
  have hc : ∀ e : Env, ieval root .current cur e = .ok cur := fun e => by simp only [ieval]
  rw [ieval_pair _ _ _ _ _ hcur, shadow_sortBy, C19.visible_sortBy (Env.get_cons_self env x vo)]
  simp only [hc, Res.ok_bind, Res.bind_assoc]

/-- ``let $x = `1` in [let $x = `2` in map(&$x, @), map(&$x, @)]`` -/
def tShadow : PTree :=
  .letIn [(⟨.variable, Ex.bs "$x"⟩, .atom ⟨.jsonLiteral, Ex.bs "`1`"⟩)]
    (.multiList [
      .letIn [(⟨.variable, Ex.bs "$x"⟩, .atom ⟨.jsonLiteral, Ex.bs "`2`"⟩)]
        (.call ⟨.unquotedIdentifier, Ex.bs "map"⟩ [.ref (.atom ⟨.variable, Ex.bs "$x"⟩), .atom ⟨.current, Ex.bs "@"⟩]),
      .call ⟨.unquotedIdentifier, Ex.bs "map"⟩ [.ref (.atom ⟨.variable, Ex.bs "$x"⟩), .atom ⟨.current, Ex.bs "@"⟩]])

theorem shadow_parse : compile (Ex.bs "let $x = `1` in [let $x = `2` in map(&$x, @), map(&$x, @)]") =
    .ok (.defineVariables [(Ex.bs "$x", .lit C19.n1)] (.selectArrayCurrent
      [.defineVariables [(Ex.bs "$x", .lit C19.n2)] (.map (.variable (Ex.bs "$x")) .current),
       .map (.variable (Ex.bs "$x")) .current])) :=
  parse_complete (t := tShadow) (by decide +kernel) (by decide +kernel)

/-- through the parser, on `[0, 0]`: `[[2, 2], [1, 1]]` (the Go library answers the same) -/
theorem shadow_search :
    search (Ex.bs "let $x = `1` in [let $x = `2` in map(&$x, @), map(&$x, @)]") (.arr .plain [C19.n0, C19.n0]) =
      .ok (.arr .plain [.arr .plain [C19.n2, C19.n2], .arr .plain [C19.n1, C19.n1]]) := by
  have h := shadow_parse
  simp only [compile] at h
  simp only [search, h, evaluate]
  rw [shadow_through_expref _ _ _ _ _ _ rfl]
  simp [ieval, mapArray, mapAll, widen, ATag.derived]

/-- at top level an undefined-variable error means the expression has a free variable: here `$x` of the second binding -/
example : (INode.defineVariables [(Ex.bs "$x", .field (Ex.bs "a")), (Ex.bs "$y", .variable (Ex.bs "$x"))]
    (.variable (Ex.bs "$y"))).fv ≠ [] :=
  search_undefined_needs_free seq_parse (seq_search .null) (by simp)

end Jmes.C19B

