/-
  C02 (fourth part) — the builtins BY NAME, on expression TEXT.

  The third part (`C02C`) compared the type errors of the builtins with a signature table `Sig` indexed by the model's
  `Fn`.  Here the table is indexed by what a user writes — a NAME and an argument COUNT — through the parser's own
  table (`fnOfName`, `SigByName`, `ValueByName`), and the statements are about `search "name(e1,…,en)" d`.

  ## 1. `name(e1,…,en)` for the eager builtins (38 of the 41 names, with all their optional-argument forms)
  For a name token, `n` well-formed argument expressions that evaluate on `d` to `vals` (`ArgsEval`; by
  `ArgEval.of_text` this is "the text of the i-th argument searches to the i-th value"), and a text `e` that lexes to
  `name ( e1 , … , en )`:
    * `builtin_text_value`            `search e d = applyFn f vals` where `fnOfName name n = some f`;
    * `builtin_text_invalidType_iff`  `search e d = invalid-type ⟺ SigByName name n vals = false`;
    * `builtin_text_invalidValue_iff` for well-typed arguments, `search e d = invalid-value ⟺ ¬ ValueByName name n vals`
      (`ValueOK`: widths and counts are non-negative INTEGERS BY VALUE — `IntValue`, whatever the representation —,
      positions are integers, a pad is one character);
    * `from_items_text_invalidType_iff`, `from_items_text_invalidValue_iff` (the one builtin where a value error can
      precede a type error);
    * `builtin_text_arity_iff`        a count outside the signature: arity error at COMPILE time, for every document;
    * `unknown_function_text`         an unknown name: unknown-function at compile time, whatever follows `(`;
    * `builtin_text_ok_or_other`      well-typed and in range: neither invalid-type nor invalid-value.

  ## 2. the variadic rows `merge` / `zip` / `not_null`, and the builtins taking `&expr`
  `VarSig` adds the three missing rows (all objects; all arrays; any — each with at least one argument):
  `variadic_text_invalidType_iff`; `not_null_text_value` and `not_null_never_type_error` (the type theorem for
  `not_null`: when its arguments evaluate it returns the first non-null one and never fails).
  `map_text_invalidType_iff`, `sort_by_text_invalidType_iff`, `max_by_…`, `min_by_…`, `group_by_text_invalidType_iff`.

  ## 3. nested arity, with a syntactic hypothesis
  `nested_call_arity_prefix`: C02C's token-level theorem assumed `Fails` (defined by the parser failing); here the
  hypothesis is the syntactic `Bad` and the conclusion covers ANY continuation of the tokens of the bad tree.

  ## 4. `replace`, declaratively
  `Replaced s old new n r` (`Proofs/C02EReplace.lean`): `s = g₀ old g₁ old … g_{k-1} old rest`, `r` the same with `new`,
  each occurrence the leftmost of what is left, `k = n` or (`k < n` and no occurrence in `rest`); empty `old`: `new`
  before each of the first code points (and at the end).  `replace_replaced`, `replace_determined`.

  ## 5. `to_string`, independently of the encoder
  `toString_scalars`, `toString_number_text`, `toString_reread` (the returned text DENOTES the value in the sense of the
  decoder-independent `C16C.Den`, and Go's decoder reads it back), `toString_reread_equal`.
-/
import Jmes.Proofs.C02ELemmas
import Jmes.Proofs.C02EReplace
import Jmes.Properties.C18C
namespace Jmes.C02E
open Jmes Jmes.Parser Jmes.Pratt Jmes.Grammar
open Jmes.C02 (JType jsonType)
open Jmes.C02C (Sig SigOK PT elems NumOK ArgOK KeysOK)
open Jmes.Grammar.Ex (bs idt)

/-! ## 1. the eager builtins by name -/

/-- the value constraints of `name` called with `n` arguments hold of the argument values -/
def ValueByName (name : Bytes) (n : Nat) (vals : List Val) : Prop :=
  ∀ f, fnOfName name n = some f → ValueOK f vals

/-- **`name(e1,…,en)` is the builtin applied to the values of the arguments** — for every builtin name, every count the
    name accepts (`fnOfName`), all argument expressions that evaluate -/
theorem builtin_text_value {name : Token} (hn : name.type = .unquotedIdentifier) {args : List PTree} {f : Fn}
    (hf : fnOfName name.value args.length = some f) {d : Val} {vals : List Val} (hv : ArgsEval d args vals)
    {e : Bytes} (hlex : C17B.Lexes e (Grammar.flatten (.call name args))) : search e d = applyFn f vals :=
  (call_text_apply hn hf hv hlex).1

/-- `abs(a)` on `{"a": -3}` is `3` (as a decimal) -/
example : search (bs "abs(a)") (.obj [(bs "a", .num (.int .i64 (-3)))]) = .ok (.num (.dec (.fin false 3 0))) :=
  (builtin_text_value (name := ⟨.unquotedIdentifier, bs "abs"⟩) rfl (args := [idt "a"]) (f := .abs)
    (by decide +kernel) (vals := [.num (.int .i64 (-3))]) ⟨⟨by decide, rfl⟩, trivial⟩ (by decide +kernel)).trans rfl

/-- the hypothesis `ArgsEval` from the argument TEXTS: the text `a` searches to `-3` on the document, hence the tree it
    prints evaluates to `-3` -/
example : ArgsEval (.obj [(bs "a", .num (.int .i64 (-3)))]) [idt "a"] [.num (.int .i64 (-3))] :=
  ⟨ArgEval.of_text (by decide) (t := bs "a") (by decide +kernel)
    (((C17B.text (t := idt "a") (by decide) (e := bs "a") (by decide +kernel)).2 _).trans rfl), trivial⟩

/-- **invalid-type exactly when an argument's type is outside the signature of the NAME**: for every eager builtin
    name but `from_items`, every accepted count, all argument expressions that evaluate (to `vals`):
    `search "name(e1,…,en)" d` is the invalid-type error iff `vals` does not fit the signature row of (name, n).
    (`ArgOK`: a `json.Number` among the values carries a text decimal128 accepts — needed: `C02C.numOK_needed`.) -/
theorem builtin_text_invalidType_iff {name : Token} (hn : name.type = .unquotedIdentifier) {args : List PTree}
    {f : Fn} (hf : fnOfName name.value args.length = some f) (hfi : f ≠ .fromItems) {d : Val} {vals : List Val}
    (hv : ArgsEval d args vals) (hnum : ∀ a ∈ vals, ArgOK a)
    {e : Bytes} (hlex : C17B.Lexes e (Grammar.flatten (.call name args))) :
    search e d = .err [Cat.invalidType] ↔ SigByName name.value args.length vals = false := by
  obtain ⟨hs, hlen⟩ := call_text_apply hn hf hv hlex
  rw [hs, C02C.eager_invalidType_iff f vals hlen hnum hfi]
  simp only [SigByName, hf]

/-- `pad_left(a, b)` on `{"a": "x", "b": "y"}`: the width is a string — invalid-type; the row of (`pad_left`, 2) -/
example : search (bs "pad_left(a,b)") (.obj [(bs "a", .str [0x78]), (bs "b", .str [0x79])]) = .err [Cat.invalidType] :=
  (builtin_text_invalidType_iff (name := ⟨.unquotedIdentifier, bs "pad_left"⟩) rfl (args := [idt "a", idt "b"])
    (f := .padSpaceLeft) (by decide +kernel) (by decide) (vals := [.str [0x78], .str [0x79]])
    ⟨⟨by decide, rfl⟩, ⟨by decide, rfl⟩, trivial⟩
    (by intro a ha; simp at ha; rcases ha with rfl | rfl <;> exact ⟨trivial, fun _ h => by cases h⟩)
    (by decide +kernel)).mpr (by decide +kernel)
example : SigByName (bs "pad_left") 2 [.str [0x78], .str [0x79]] = false := by decide +kernel
example : SigByName (bs "pad_left") 3 [.str [0x78], .num (.int .i64 3), .str [0x79]] = true := by decide +kernel
example : SigByName (bs "pad_left") 4 [] = false := by decide +kernel

/-- **invalid-value exactly when a well-typed argument is outside the permitted range**: for every eager builtin name
    but `from_items`, when the values fit the signature row: `search "name(e1,…,en)" d` is the invalid-value error iff
    the value constraints of the row fail — a width or count that is not a non-negative integer (by VALUE: `2.0`
    and `2e0` are integers, `1.5` is not), a position that is not an integer, a pad that is not one character.
    (`GoodVal`: representation invariants of the numbers.) -/
theorem builtin_text_invalidValue_iff {name : Token} (hn : name.type = .unquotedIdentifier) {args : List PTree}
    {f : Fn} (hf : fnOfName name.value args.length = some f) (hfi : f ≠ .fromItems) {d : Val} {vals : List Val}
    (hv : ArgsEval d args vals) (hg : ∀ a ∈ vals, GoodVal a)
    (hsig : SigByName name.value args.length vals = true)
    {e : Bytes} (hlex : C17B.Lexes e (Grammar.flatten (.call name args))) :
    search e d = .err [Cat.invalidValue] ↔ ¬ ValueByName name.value args.length vals := by
  obtain ⟨hs, hlen⟩ := call_text_apply hn hf hv hlex
  have hsig' : SigOK f vals = true := by simpa only [SigByName, hf] using hsig
  rw [hs, applyFn_invalidValue_iff f vals hlen hg hsig' hfi]
  constructor
  · intro h hb; exact h (hb f hf)
  · intro h hb; exact h (fun f' hf' => by rw [hf] at hf'; cases hf'; exact hb)

/-- `pad_left(a, b, c)` on `{"a":"x","b":3,"c":"ab"}`: a two-character pad — invalid-value -/
example : search (bs "pad_left(a,b,c)")
    (.obj [(bs "a", .str [0x78]), (bs "b", .num (.int .i64 3)), (bs "c", .str [0x61, 0x62])]) = .err [Cat.invalidValue] :=
  (builtin_text_invalidValue_iff (name := ⟨.unquotedIdentifier, bs "pad_left"⟩) rfl
    (args := [idt "a", idt "b", idt "c"]) (f := .padLeft) (by decide +kernel) (by decide)
    (vals := [.str [0x78], .num (.int .i64 3), .str [0x61, 0x62]])
    ⟨⟨by decide, rfl⟩, ⟨by decide, rfl⟩, ⟨by decide, rfl⟩, trivial⟩
    (by
      intro a ha; simp at ha
      rcases ha with rfl | rfl | rfl
      · exact ⟨trivial, fun _ h => by cases h⟩
      · exact ⟨trivial, fun a h => by cases h; show IntKind.InRange .i64 3; simp [IntKind.InRange]⟩
      · exact ⟨trivial, fun _ h => by cases h⟩)
    (by decide +kernel) (by decide +kernel)).mpr
    (fun h => by
      obtain ⟨_, p, hp, hc⟩ := h .padLeft (by decide +kernel)
      cases hp
      exact absurd hc (by decide))

/-- the integer `3`, and the decimal `3.0`, have the integer value 3; the decimal `1.5` has no integer value -/
example : IntValue (.num (.int .i64 3)) 3 := ⟨_, rfl, ⟨by decide, by decide⟩, by decide⟩
example : IntValue (.num (.dec (.fin false 30 (-1)))) 3 := ⟨_, rfl, ⟨by decide, by decide⟩, by decide⟩
/-- … and so have the `json.Number`s `3.0` and `30e-1` (Go: `pad_left('x', 30e-1, 'a')` is `aax`) -/
example : IntValue (.num (.jnum (bs "3.0"))) 3 := ⟨.fin false 3 0, by decide +kernel, ⟨by decide, by decide⟩, by decide⟩
example : IntValue (.num (.jnum (bs "30e-1"))) 3 := ⟨.fin false 3 0, by decide +kernel, ⟨by decide, by decide⟩, by decide⟩
example : ¬ IsInt (.num (.dec (.fin false 15 (-1)))) :=
  ((intArg_errValue_iff' (v := .num (.dec (.fin false 15 (-1))))
    ⟨trivial, fun a h => by cases h; simp [Num.Good, Dec.Bounded, Dec.MAXSIG]⟩ rfl).mp (by rfl))

/-- **well typed and in range: no argument error** — when the values fit the signature row and its value
    constraints, the call is neither an invalid-type nor an invalid-value error -/
theorem builtin_text_ok_or_other {name : Token} (hn : name.type = .unquotedIdentifier) {args : List PTree}
    {f : Fn} (hf : fnOfName name.value args.length = some f) (hfi : f ≠ .fromItems) {d : Val} {vals : List Val}
    (hv : ArgsEval d args vals) (hnum : ∀ a ∈ vals, ArgOK a) (hg : ∀ a ∈ vals, GoodVal a)
    (hsig : SigByName name.value args.length vals = true) (hval : ValueByName name.value args.length vals)
    {e : Bytes} (hlex : C17B.Lexes e (Grammar.flatten (.call name args))) :
    search e d ≠ .err [Cat.invalidType] ∧ search e d ≠ .err [Cat.invalidValue] := by
  constructor
  · intro h
    have := (builtin_text_invalidType_iff hn hf hfi hv hnum hlex).mp h
    rw [hsig] at this; cases this
  · intro h
    exact (builtin_text_invalidValue_iff hn hf hfi hv hg hsig hlex).mp h hval

/-- **when an argument does not evaluate**: arguments are evaluated left to right and the first failure is the outcome
    of the call — the builtin is not applied (no type check of the earlier values), later arguments are not evaluated -/
theorem builtin_text_arg_error {name : Token} (hn : name.type = .unquotedIdentifier) {pre post : List PTree}
    {a : PTree} {f : Fn} (hf : fnOfName name.value (pre ++ a :: post).length = some f) {d : Val} {vals : List Val}
    (hpre : ArgsEval d pre vals) (ha : WellPrec a) (hpost : ∀ x ∈ post, WellPrec x) {cs : List Cat}
    (herr : evaluate (erase a) d = .err cs)
    {e : Bytes} (hlex : C17B.Lexes e (Grammar.flatten (.call name (pre ++ a :: post)))) : search e d = .err cs :=
  call_text_arg_error hn hf hpre ha hpost herr hlex

/-- `starts_with(a, $x)` on `{"a": 1}`: the first argument is ill-typed, but the undefined variable in the second is
    what is reported (Go: undefined-variable) -/
example : search (bs "starts_with(a,$x)") (.obj [(bs "a", .num (.int .i64 1))]) = .err [Cat.undefinedVariable] :=
  builtin_text_arg_error (name := ⟨.unquotedIdentifier, bs "starts_with"⟩) rfl (pre := [idt "a"])
    (a := .atom ⟨.variable, bs "$x"⟩) (post := []) (f := .startsWith) (by decide +kernel)
    (vals := [.num (.int .i64 1)]) ⟨⟨by decide, rfl⟩, trivial⟩ (by decide) (fun _ h => by cases h) rfl
    (by decide +kernel)

/-! ### `from_items` -/

/-- **`from_items(e)`, type errors**: when `e` evaluates to a value that is not an array: invalid-type; to an array
    (with determined element order): invalid-type iff the FIRST element that is not a well-formed pair is not an array -/
theorem from_items_text_invalidType_iff {name : Token} (hn : name.type = .unquotedIdentifier)
    (hname : name.value = bs "from_items") {a : PTree} {d : Val} {t : ATag} {xs : List Val}
    (hv : ArgEval d a (.arr t xs)) (ht : enum2 t xs = false)
    {e : Bytes} (hlex : C17B.Lexes e (Grammar.flatten (.call name [a]))) :
    search e d = .err [Cat.invalidType] ↔
      ∃ pre x post, xs = pre ++ x :: post ∧ (∀ y ∈ pre, C02C.GoodPair y) ∧ jsonType x ≠ .array := by
  have hf : fnOfName name.value [a].length = some .fromItems := by
    show fnOfName name.value 1 = _; rw [hname]; decide +kernel
  rw [(call_text_apply hn hf (vals := [.arr t xs]) ⟨hv, trivial⟩ hlex).1]
  exact C02C.fromItems_invalidType_iff t xs ht

/-- **`from_items(e)`, value errors**: when `e` evaluates to an array of arrays (the signature `array[array]`) with
    determined order and no map-ordered pair: invalid-value iff some element is not a `[string, value]` pair -/
theorem from_items_text_invalidValue_iff {name : Token} (hn : name.type = .unquotedIdentifier)
    (hname : name.value = bs "from_items") {a : PTree} {d : Val} {t : ATag} {xs : List Val}
    (hv : ArgEval d a (.arr t xs)) (ht : enum2 t xs = false) (hne : ∀ x ∈ xs, ∀ ys, x ≠ .arr .enum ys)
    (hsig : SigByName name.value 1 [.arr t xs] = true)
    {e : Bytes} (hlex : C17B.Lexes e (Grammar.flatten (.call name [a]))) :
    search e d = .err [Cat.invalidValue] ↔ ¬ ∀ x ∈ xs, IsPair x := by
  have hf : fnOfName name.value [a].length = some .fromItems := by
    show fnOfName name.value 1 = _; rw [hname]; decide +kernel
  have hf1 : fnOfName name.value 1 = some .fromItems := hf
  rw [(call_text_apply hn hf (vals := [.arr t xs]) ⟨hv, trivial⟩ hlex).1]
  have hs : SigOK .fromItems [.arr t xs] = true := by simpa only [SigByName, hf1] using hsig
  exact fromItems_invalidValue_iff t xs ht hne hs

/-- ``from_items(`[["a",1],[2,3]]`)``: the second pair has a number as key — invalid-value -/
example : search (bs "from_items(a)") (.obj [(bs "a", .arr .plain [.arr .plain [.str [0x61], .num (.int .i64 1)],
    .arr .plain [.num (.int .i64 2), .num (.int .i64 3)]])]) = .err [Cat.invalidValue] :=
  (from_items_text_invalidValue_iff (name := ⟨.unquotedIdentifier, bs "from_items"⟩) rfl rfl (a := idt "a")
    ⟨by decide, rfl⟩ rfl
    (by intro x hx ys; simp at hx; rcases hx with rfl | rfl <;> (intro h; cases h))
    (by decide +kernel) (by decide +kernel)).mpr
    (fun h => by
      obtain ⟨t, k, v, h1, h2⟩ := h (.arr .plain [.num (.int .i64 2), .num (.int .i64 3)]) (by simp)
      cases h1; cases h2)

/-! ### wrong counts and unknown names: decided at compile time -/

/-- **an arity error exactly when the argument count is outside the signature** — for every fixed-arity builtin name
    and well-formed arguments: `Compile` fails with the arity error iff the name does not take that many arguments
    (`fnOfName name n = none`), and then `Search` reports arity on EVERY document (nothing is evaluated) -/
theorem builtin_text_arity_iff {name : Token} (hn : name.type = .unquotedIdentifier) {mn mx : Nat}
    {mk : List INode → INode} (hl : lookupBuiltin name.value = some (.fixed mn mx mk)) {args : List PTree}
    (hw : ∀ a ∈ args, WellPrec a) {e : Bytes} (hlex : C17B.Lexes e (Grammar.flatten (.call name args))) :
    (compile e = .error .invalidFunctionCall ↔ fnOfName name.value args.length = none) ∧
    (fnOfName name.value args.length = none → ∀ d, search e d = .err [Cat.arity]) :=
  arity_text hn hl hw hlex

/-- `find_first(a)`: one argument where 2 to 4 are wanted -/
example : ∀ d, search (bs "find_first(a)") d = .err [Cat.arity] :=
  (builtin_text_arity_iff (name := ⟨.unquotedIdentifier, bs "find_first"⟩) rfl rfl (args := [idt "a"])
    (by intro a ha; simp at ha; subst ha; decide) (by decide +kernel)).2 (by decide +kernel)

/-- **an unknown function name is an unknown-function error at compile time**: whatever follows the `(` (the
    arguments are not parsed: they may be ill-formed, or missing), and on every document -/
theorem unknown_function_text {name : Token} (hn : name.type = .unquotedIdentifier)
    (hl : lookupBuiltin name.value = none) {rest : List Token} {e : Bytes}
    (hlex : lexAll e = (name :: tLParen :: rest, none)) :
    compile e = .error .unknownFunction ∧ ∀ d, search e d = .err [Cat.unknownFunction] :=
  unknown_name_text hn hl hlex

/-- `nosuch(a,` — not even a complete expression: unknown-function (not a syntax error) -/
example : ∀ d, search (bs "nosuch(a,") d = .err [Cat.unknownFunction] :=
  (unknown_function_text (name := ⟨.unquotedIdentifier, bs "nosuch"⟩) rfl (by decide +kernel)
    (rest := [⟨.unquotedIdentifier, bs "a"⟩, tComma, endTok]) (by decide +kernel)).2

/-! ## 2. the variadic rows, and the builtins that take an expression reference -/

/-- **`merge` / `zip` / `not_null`: invalid-type exactly when an argument is outside the variadic row**
    (`merge`: all objects; `zip`: all arrays; `not_null`: anything), for `n ≥ 1` arguments that evaluate -/
theorem variadic_text_invalidType_iff {name : Token} (hn : name.type = .unquotedIdentifier)
    {mk : List INode → INode} (hl : lookupBuiltin name.value = some (.varArg mk)) {args : List PTree} {d : Val}
    {vals : List Val} (hv : ArgsEval d args vals) (h1 : 1 ≤ args.length)
    {e : Bytes} (hlex : C17B.Lexes e (Grammar.flatten (.call name args))) :
    search e d = .err [Cat.invalidType] ↔ VarSigOK name.value vals = false := by
  have hs := (varArg_text hn hl hv.wp h1 hlex).2 d
  have hlist := ievalList_args hv
  have hne : vals.isEmpty = false := by
    cases vals with
    | nil => have := hv.length_eq; simp only [List.length_nil] at this; omega
    | cons _ _ => rfl
  rcases varArg_table _ (mem_of_lookup hl) mk rfl with ⟨_, rfl⟩ | ⟨_, rfl⟩ | ⟨_, rfl⟩
  · rw [hs, evaluate, C02.merge_errType_iff d _ d [] vals hlist]
    simp only [VarSigOK, VarSig, hl, hne, Bool.not_false, Bool.true_and, all_false_iff, C02C.ok1_false]
  · rw [hs, evaluate]
    simp only [ieval, ievalNotNull_of_list d d [] _ vals hlist, VarSigOK, VarSig, hl, hne, Bool.not_false,
      Bool.true_and, all_false_iff, C02C.okAny_false, reduceCtorEq, and_false, exists_false]
  · rw [hs, evaluate, C02.zip_errType_iff d _ d [] vals hlist]
    simp only [VarSigOK, VarSig, hl, hne, Bool.not_false, Bool.true_and, all_false_iff, C02C.ok1_false]

/-- `merge(a, b)` on `{"a": {}, "b": []}`: the second argument is not an object -/
example : search (bs "merge(a,b)") (.obj [(bs "a", .obj []), (bs "b", .arr .plain [])]) = .err [Cat.invalidType] :=
  (variadic_text_invalidType_iff (name := ⟨.unquotedIdentifier, bs "merge"⟩) rfl (mk := .merge) rfl
    (args := [idt "a", idt "b"]) (vals := [.obj [], .arr .plain []])
    ⟨⟨by decide, rfl⟩, ⟨by decide, rfl⟩, trivial⟩ (by decide) (by decide +kernel)).mpr (by decide +kernel)

/-- **`not_null(e1,…,en)` is the first argument value that is not null** (null when all are) … -/
theorem not_null_text_value {name : Token} (hn : name.type = .unquotedIdentifier)
    (hname : name.value = bs "not_null") {args : List PTree} {d : Val} {vals : List Val}
    (hv : ArgsEval d args vals) (h1 : 1 ≤ args.length)
    {e : Bytes} (hlex : C17B.Lexes e (Grammar.flatten (.call name args))) :
    search e d = .ok (firstNonNull vals) := by
  have hl : lookupBuiltin name.value = some (.varArg .notNull) := by rw [hname]; rfl
  rw [(varArg_text hn hl hv.wp h1 hlex).2 d, evaluate]
  simp only [ieval, ievalNotNull_of_list d d [] _ vals (ievalList_args hv)]

/-- … in particular **`not_null` has no type (or value) error of its own**: when its arguments evaluate, it succeeds,
    whatever their types -/
theorem not_null_never_type_error {name : Token} (hn : name.type = .unquotedIdentifier)
    (hname : name.value = bs "not_null") {args : List PTree} {d : Val} {vals : List Val}
    (hv : ArgsEval d args vals) (h1 : 1 ≤ args.length)
    {e : Bytes} (hlex : C17B.Lexes e (Grammar.flatten (.call name args))) (cs : List Cat) :
    search e d ≠ .err cs := by
  rw [not_null_text_value hn hname hv h1 hlex]; intro h; cases h

/-- `not_null(a, b, c)` on `{"b": false, "c": 1}` is `false` (the first non-null; `a` is missing, hence null) -/
example : search (bs "not_null(a,b,c)") (.obj [(bs "b", .bool false), (bs "c", .num (.int .i64 1))]) = .ok (.bool false) :=
  not_null_text_value (name := ⟨.unquotedIdentifier, bs "not_null"⟩) rfl rfl
    (args := [idt "a", idt "b", idt "c"]) (vals := [.null, .bool false, .num (.int .i64 1)])
    ⟨⟨by decide, rfl⟩, ⟨by decide, rfl⟩, ⟨by decide, rfl⟩, trivial⟩ (by decide) (by decide +kernel)

/-- **`map(&t, a)`**: when `a` evaluates to `v` and the referenced expression evaluates on every element of `v`
    (with the caller's root `d` and scope): invalid-type iff `v` is not an array -/
theorem map_text_invalidType_iff {name : Token} (hn : name.type = .unquotedIdentifier) (hname : name.value = bs "map")
    {a t : PTree} {d v : Val} (ha : ArgEval d a v) (ht : WellPrec t) (k : Val → Val)
    (hk : ∀ x ∈ elems v, ieval d (erase t) x [] = .ok (k x))
    {e : Bytes} (hlex : C17B.Lexes e (Grammar.flatten (.call name [.ref t, a]))) :
    search e d = .err [Cat.invalidType] ↔ jsonType v ≠ .array := by
  have hl : lookupBuiltin name.value = some (.mapArg .map) := by rw [hname]; rfl
  rw [(mapArg_text hn hl ha.wp ht hlex).2 d, evaluate]
  exact C02C.map_invalidType_iff d d [] (erase t) (erase a) v k ha.val hk

/-- the shared statement of `sort_by`, `max_by`, `min_by`: when the key expression evaluates on every element (to
    `k x`, a `NumOK` value), invalid-type iff the first argument is not an array, or it is a non-empty array whose
    keys are neither all strings nor all numbers -/
theorem keyed_text_invalidType_iff {name : Token} (hn : name.type = .unquotedIdentifier)
    {mk : INode → INode → INode} (hl : lookupBuiltin name.value = some (.expArg mk))
    (hmk : mk = .sortBy ∨ mk = .maxBy ∨ mk = .minBy)
    {a t : PTree} {d v : Val} (ha : ArgEval d a v) (ht : WellPrec t) (k : Val → Val)
    (hk : ∀ x ∈ elems v, ieval d (erase t) x [] = .ok (k x)) (hnum : ∀ x ∈ elems v, NumOK (k x))
    {e : Bytes} (hlex : C17B.Lexes e (Grammar.flatten (.call name [a, .ref t]))) :
    search e d = .err [Cat.invalidType] ↔
      jsonType v ≠ .array ∨ (elems v ≠ [] ∧ KeysOK ((elems v).map k) = false) := by
  rw [(expArg_text hn hl ha.wp ht hlex).2 d, evaluate]
  rcases hmk with rfl | rfl | rfl
  · exact C02C.sortBy_invalidType_iff d d [] (erase a) (erase t) v k ha.val hk hnum
  · exact C02C.maxBy_invalidType_iff d d [] (erase a) (erase t) v k ha.val hk hnum
  · exact C02C.minBy_invalidType_iff d d [] (erase a) (erase t) v k ha.val hk hnum

/-- **`sort_by(a, &t)`** -/
theorem sort_by_text_invalidType_iff {name : Token} (hn : name.type = .unquotedIdentifier)
    (hname : name.value = bs "sort_by") {a t : PTree} {d v : Val} (ha : ArgEval d a v) (ht : WellPrec t)
    (k : Val → Val) (hk : ∀ x ∈ elems v, ieval d (erase t) x [] = .ok (k x)) (hnum : ∀ x ∈ elems v, NumOK (k x))
    {e : Bytes} (hlex : C17B.Lexes e (Grammar.flatten (.call name [a, .ref t]))) :
    search e d = .err [Cat.invalidType] ↔
      jsonType v ≠ .array ∨ (elems v ≠ [] ∧ KeysOK ((elems v).map k) = false) :=
  keyed_text_invalidType_iff hn (mk := .sortBy) (by rw [hname]; rfl) (Or.inl rfl) ha ht k hk hnum hlex

/-- **`max_by(a, &t)`** -/
theorem max_by_text_invalidType_iff {name : Token} (hn : name.type = .unquotedIdentifier)
    (hname : name.value = bs "max_by") {a t : PTree} {d v : Val} (ha : ArgEval d a v) (ht : WellPrec t)
    (k : Val → Val) (hk : ∀ x ∈ elems v, ieval d (erase t) x [] = .ok (k x)) (hnum : ∀ x ∈ elems v, NumOK (k x))
    {e : Bytes} (hlex : C17B.Lexes e (Grammar.flatten (.call name [a, .ref t]))) :
    search e d = .err [Cat.invalidType] ↔
      jsonType v ≠ .array ∨ (elems v ≠ [] ∧ KeysOK ((elems v).map k) = false) :=
  keyed_text_invalidType_iff hn (mk := .maxBy) (by rw [hname]; rfl) (Or.inr (Or.inl rfl)) ha ht k hk hnum hlex

/-- **`min_by(a, &t)`** -/
theorem min_by_text_invalidType_iff {name : Token} (hn : name.type = .unquotedIdentifier)
    (hname : name.value = bs "min_by") {a t : PTree} {d v : Val} (ha : ArgEval d a v) (ht : WellPrec t)
    (k : Val → Val) (hk : ∀ x ∈ elems v, ieval d (erase t) x [] = .ok (k x)) (hnum : ∀ x ∈ elems v, NumOK (k x))
    {e : Bytes} (hlex : C17B.Lexes e (Grammar.flatten (.call name [a, .ref t]))) :
    search e d = .err [Cat.invalidType] ↔
      jsonType v ≠ .array ∨ (elems v ≠ [] ∧ KeysOK ((elems v).map k) = false) :=
  keyed_text_invalidType_iff hn (mk := .minBy) (by rw [hname]; rfl) (Or.inr (Or.inr rfl)) ha ht k hk hnum hlex

/-- **`group_by(a, &t)`**: invalid-type iff `a` is not an array, or some key is not a string -/
theorem group_by_text_invalidType_iff {name : Token} (hn : name.type = .unquotedIdentifier)
    (hname : name.value = bs "group_by") {a t : PTree} {d v : Val} (ha : ArgEval d a v) (ht : WellPrec t)
    (k : Val → Val) (hk : ∀ x ∈ elems v, ieval d (erase t) x [] = .ok (k x))
    {e : Bytes} (hlex : C17B.Lexes e (Grammar.flatten (.call name [a, .ref t]))) :
    search e d = .err [Cat.invalidType] ↔
      jsonType v ≠ .array ∨ (elems v).all (fun x => jsonType (k x) == .string) = false := by
  have hl : lookupBuiltin name.value = some (.expArg .groupBy) := by rw [hname]; rfl
  rw [(expArg_text hn hl ha.wp ht hlex).2 d, evaluate]
  exact C02C.groupBy_invalidType_iff d d [] (erase a) (erase t) v k ha.val hk

/-- `sort_by(@, &a)` on `[{"a":1},{"a":"x"}]`: mixed keys — invalid-type; `map(&a, @)` on `{}`: not an array -/
example : search (bs "sort_by(@,&a)") (.arr .plain [.obj [(bs "a", .num (.int .i64 1))], .obj [(bs "a", .str [0x78])]])
    = .err [Cat.invalidType] :=
  (sort_by_text_invalidType_iff (name := ⟨.unquotedIdentifier, bs "sort_by"⟩) rfl rfl
    (a := .atom ⟨.current, bs "@"⟩) (t := idt "a") ⟨by decide, rfl⟩ (by decide) (field (bs "a"))
    (fun _ _ => rfl)
    (fun x hx => by simp [elems] at hx; rcases hx with rfl | rfl <;> trivial)
    (by decide +kernel)).mpr (Or.inr ⟨by simp [elems], by decide +kernel⟩)
example : search (bs "map(&a,@)") (.obj []) = .err [Cat.invalidType] :=
  (map_text_invalidType_iff (name := ⟨.unquotedIdentifier, bs "map"⟩) rfl rfl
    (a := .atom ⟨.current, bs "@"⟩) (t := idt "a") ⟨by decide, rfl⟩ (by decide) id
    (fun _ h => by cases h) (by decide +kernel)).mpr (by decide)

/-! ## 3. nested arity: a syntactic hypothesis -/

/-- **an illegal argument count, nested anywhere, followed by anything**: the tokens of a tree that is `Bad` at a call
    (`C02CArity.Bad`: purely syntactic — `WellPrec`, levels and counts; see `C02C` §2) followed by ANY tokens make
    `Compile` fail with the arity error and `Search` report it on every document.  (This replaces
    `C02C.nested_call_arity_tokens`, whose hypothesis `Fails` was defined by the parser failing.) -/
theorem nested_call_arity_prefix {t : PTree} (h : C02CArity.Bad .invalidFunctionCall false 1 t) {rest : List Token}
    {e : Bytes} (hl : lexAll e = (Grammar.flat false t ++ rest, none)) :
    compile e = .error .invalidFunctionCall ∧ ∀ d, search e d = .err [Cat.arity] := by
  have := C02CArity.nested_arity_tokens (C02CArity.bad_fails h) hl
  exact ⟨this, fun d => by simp only [search, this]; rfl⟩

/-- `[abs()]` + `,,,`: the arity error is reported, not the syntax error of the malformed remainder -/
example : ∀ d, search (bs "[abs()],,,") d = .err [Cat.arity] :=
  (nested_call_arity_prefix (t := .multiList [.call ⟨.unquotedIdentifier, bs "abs"⟩ []])
    (.multiList (pre := []) (post := []) (fun _ h => by cases h)
      (.noArgs (spec := .fixed 1 1 (callN .abs)) rfl rfl))
    (rest := [tComma, tComma, tComma, endTok]) (by decide +kernel)).2

/-! ## 4. `replace`, declaratively -/

open Jmes.C02EReplace (Replaced OccAt)

/-- **`replace(s, old, new)` and `replace(s, old, new, k)` satisfy the declarative specification**: the result `r`
    is `s` with the first `k` (all, without a count) leftmost non-overlapping occurrences of `old` replaced by `new`
    (`Replaced`: `s = g₀ old g₁ old … rest`, `r = g₀ new g₁ new … rest`, no earlier occurrence inside any
    `gᵢ old`, and either the count is exhausted or `old` does not occur in `rest`; empty `old`: `new` before each of
    the first code points and at the end) … -/
theorem replace_replaced (s old new : Bytes) :
    (∃ r, applyFn .replace [.str s, .str old, .str new] = .ok (.str r) ∧ Replaced s old new none r) ∧
    (∀ k : Nat, ∃ r, applyFn .replaceCount [.str s, .str old, .str new, .num (.int .i64 k)] = .ok (.str r) ∧
      Replaced s old new (some k) r) := by
  constructor
  · obtain ⟨r, h1, h2, _⟩ := C02EReplace.replace_spec s old new
    exact ⟨r, h1, h2⟩
  · intro k
    obtain ⟨r, h1, h2, _⟩ := C02EReplace.replaceCount_spec s old new k
    exact ⟨r, h1, h2⟩

/-- … **and the specification determines the result**: two strings that both satisfy it are equal -/
theorem replace_determined {s old new : Bytes} {n : Option Nat} {r₁ r₂ : Bytes}
    (h₁ : Replaced s old new n r₁) (h₂ : Replaced s old new n r₂) : r₁ = r₂ :=
  C02EReplace.replaced_unique h₁ h₂

/-- `replace('aaa', 'aa', 'b')` is `ba` (leftmost, non-overlapping), and `ab` does not satisfy the specification -/
example : applyFn .replace [.str [0x61, 0x61, 0x61], .str [0x61, 0x61], .str [0x62]] = .ok (.str [0x62, 0x61]) := by rfl
example : ¬ Replaced [0x61, 0x61, 0x61] [0x61, 0x61] [0x62] none [0x61, 0x62] := by
  intro h
  have := replace_determined h (C02EReplace.stringsReplace_replaced _ _ _ _)
  exact absurd this (by decide)

/-! ## 5. `to_string`, independently of the encoder -/

/-- **the scalars**: a string is returned unchanged (not quoted, not escaped); `true`, `false`, `null` give their
    JSON names -/
theorem toString_scalars (s : Bytes) :
    applyFn .toString [.str s] = .ok (.str s) ∧
    applyFn .toString [.bool true] = .ok (.str (bs "true")) ∧
    applyFn .toString [.bool false] = .ok (.str (bs "false")) ∧
    applyFn .toString [.null] = .ok (.str (bs "null")) := ⟨rfl, by rfl, by rfl, by rfl⟩

/-- **numbers give their JSON text**: a `json.Number` (what the decoder yields for a number of the document) gives
    the very text it was written with; a Go integer its decimal digits -/
theorem toString_number_text :
    (∀ t : Bytes, t ≠ [] → Json.isValidNumber t = true → applyFn .toString [.num (.jnum t)] = .ok (.str t)) ∧
    (∀ (k : IntKind) (i : Int), applyFn .toString [.num (.int k i)] = .ok (.str (Json.intToBytes i))) := by
  constructor
  · intro t ht hv
    have : t.isEmpty = false := by cases t <;> first | exact absurd rfl ht | rfl
    change toStringV (.num (.jnum t)) = _
    simp only [toStringV, Val.hasEnum2, Bool.false_eq_true, if_false, Json.encode, this, hv, if_true]
  · intro k i; rfl

example : applyFn .toString [.num (.jnum (bs "1.50"))] = .ok (.str (bs "1.50")) :=
  toString_number_text.1 _ (by decide +kernel) (by decide +kernel)
example : applyFn .toString [.num (.int .i64 (-12))] = .ok (.str (bs "-12")) := by
  rw [toString_number_text.2]; exact congrArg (fun b => Res.ok (Val.str b)) (by decide +kernel)

/-- **the text `to_string` returns DENOTES the value, and reads back as it**: for a well-formed JSON value `v`
    (`C18CR.WF`: valid UTF-8 strings and keys, JSON numbers, plain arrays, key-sorted objects — everything a search over
    JSON input yields, `C18C.json_result_wf`) that is not a string and nests at most 10000 deep, `to_string(v)` is a
    string `b` such that
      * `b` is a JSON text denoting `reread v` in the sense of the decoder-independent relation `C16C.Den`
        (`reread v` is `v` with numbers as the `json.Number` of their printed text), and
      * Go's decoder reads `b` back as `reread v`.
    So arrays and objects are written as compact JSON whose members are those of the value (in key order, as
    `encoding/json` sorts map keys), whatever escaping the encoder chooses. -/
theorem toString_reread {v : Val} (hw : C18CR.WF v) (hs : ∀ s, v ≠ .str s) (hd : C16B.dp v ≤ 10000) :
    ∃ b, applyFn .toString [v] = .ok (.str b) ∧ C16C.Den (C16B.dp v) b (C18CR.reread v) ∧
      Json.decode b = some (C18CR.reread v) := by
  obtain ⟨b, hb, hdec⟩ := C18C.marshal_decode hw hd
  exact ⟨b, C02B.toString_other v hs (wf_hasEnum2 v hw) hb, C18C.marshal_denotes hw hb, hdec⟩

/-- … and the value read back EQUALS `v` (the evaluator's `==`) when the numbers of `v` are values of their Go types:
    `decode (to_string v) == v` -/
theorem toString_reread_equal {v : Val} (hw : C18CR.WF v) (hn : C18CR.NumsAll C18CR.GoodNum v)
    (hs : ∀ s, v ≠ .str s) (hd : C16B.dp v ≤ 10000) :
    ∃ b v', applyFn .toString [v] = .ok (.str b) ∧ Json.decode b = some v' ∧ equal v v' = true := by
  obtain ⟨b, v', hb, hdec, heq⟩ := C18C.marshal_decode_equal hw hn hd
  exact ⟨b, v', C02B.toString_other v hs (wf_hasEnum2 v hw) hb, hdec, heq⟩

/-- `to_string({"b": [1, "<"], "a": null})` — the object is held key-sorted — reads back as the same object -/
example : ∃ b, applyFn .toString [.obj [(bs "a", .null), (bs "b", .arr .plain [.num (.jnum (bs "1")), .str [0x3C]])]]
      = .ok (.str b) ∧
    Json.decode b = some (.obj [(bs "a", .null), (bs "b", .arr .plain [.num (.jnum (bs "1")), .str [0x3C]])]) := by
  obtain ⟨b, h1, _, h3⟩ := toString_reread
    (v := .obj [(bs "a", .null), (bs "b", .arr .plain [.num (.jnum (bs "1")), .str [0x3C]])])
    (by simp [C18CR.WF, C18CR.WFF, C18CR.WFL, C18CR.WFNum]; decide +kernel) (fun _ h => by cases h) (by decide +kernel)
  exact ⟨b, h1, h3⟩

end Jmes.C02E
