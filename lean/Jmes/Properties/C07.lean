/-
  C07 — concurrent calls do not interfere, on an abstract memory machine (core Lean only; no model imports).

  The machine is the one of C06: a heap maps locations to values; a thread's call is a list of reads, writes and
  allocations.  All threads start from one shared heap `h` (input document, compiled expression, …).

  Thread discipline `Disc (Dom h) [] ops` (heap-independent form of "private-writing, reads what it may see"):
    * a write goes to a location the same thread allocated earlier,
    * a read goes to a location of `dom h` or one the same thread allocated earlier,
    * an allocation takes a location outside `dom h` that the thread has not allocated before.
  Allocation is thread-distinct: different threads never obtain the same location (`AllocDisjoint`; e.g. thread `i`
  of `k` allocates only at locations ≡ i mod k, `allocDisjoint_of_mod`).

  `Interleaving ts s`     `s` is a merge of the threads' op lists that keeps each thread's order (inductive)
  `interleave_eq_seq`     in any interleaving, every thread reads exactly the values it reads when run alone from `h`
  `interleave_heap_eq`    and at the end the shared part and the thread's own cells hold what they hold after the solo run
  `frame_interleaved`     the shared heap is unchanged by the whole concurrent execution
  `no_shared_write`       no location is written by one thread and accessed (read, written or allocated) by another
  `interleaved_valid`     the interleaved execution is a genuine execution: every allocation is fresh when it happens
  `race_example`          non-vacuity: without the discipline (a thread writing a shared cell) the result of another
                          thread does depend on the schedule
-/
namespace Jmes.C07

abbrev Loc := Nat
abbrev Heap (V : Type) := Loc → Option V

inductive Op (V : Type) where
  | read (l : Loc)
  | write (l : Loc) (v : V)
  | alloc (l : Loc) (v : V)

variable {V : Type}

def Dom (h : Heap V) (l : Loc) : Prop := h l ≠ none

def upd (h : Heap V) (l : Loc) (v : V) : Heap V := fun l' => if l' = l then some v else h l'

@[simp] theorem upd_same (h : Heap V) (l : Loc) (v : V) : upd h l v l = some v := by simp [upd]
theorem upd_other (h : Heap V) {l l' : Loc} (v : V) (hne : l' ≠ l) : upd h l v l' = h l' := by simp [upd, hne]

def step (h : Heap V) : Op V → Heap V
  | .read _ => h
  | .write l v => upd h l v
  | .alloc l v => upd h l v

/-- a thread run alone -/
def run (h : Heap V) : List (Op V) → Heap V
  | [] => h
  | op :: ops => run (step h op) ops

/-- the values a thread reads when run alone -/
def reads (h : Heap V) : List (Op V) → List (Option V)
  | [] => []
  | .read l :: ops => h l :: reads h ops
  | .write l v :: ops => reads (upd h l v) ops
  | .alloc l v :: ops => reads (upd h l v) ops

/-- `op` stores to `l` -/
def Writes : Op V → Loc → Prop
  | .read _, _ => False
  | .write l' _, l => l = l'
  | .alloc l' _, l => l = l'

/-- `op` touches `l` in any way -/
def Accesses : Op V → Loc → Prop
  | .read l', l => l = l'
  | .write l' _, l => l = l'
  | .alloc l' _, l => l = l'

def allocLocs : List (Op V) → List Loc
  | [] => []
  | .alloc l _ :: ops => l :: allocLocs ops
  | _ :: ops => allocLocs ops

/-- the thread discipline, relative to the shared locations `P` and the locations `own` allocated so far -/
def Disc (P : Loc → Prop) (own : List Loc) : List (Op V) → Prop
  | [] => True
  | .read l :: ops => (P l ∨ l ∈ own) ∧ Disc P own ops
  | .write l _ :: ops => l ∈ own ∧ Disc P own ops
  | .alloc l _ :: ops => ¬ P l ∧ l ∉ own ∧ Disc P (l :: own) ops

/-! ## schedules -/

/-- a schedule: operations tagged with the thread executing them -/
abbrev Sched (V : Type) := List (Nat × Op V)

/-- thread `i`'s part of a schedule -/
def proj (i : Nat) : Sched V → List (Op V)
  | [] => []
  | (j, op) :: s => if j = i then op :: proj i s else proj i s

/-- the heap after executing a schedule -/
def runS (g : Heap V) : Sched V → Heap V
  | [] => g
  | (_, op) :: s => runS (step g op) s

/-- the values thread `i` reads during a schedule -/
def readsS (i : Nat) (g : Heap V) : Sched V → List (Option V)
  | [] => []
  | (j, .read l) :: s => if j = i then g l :: readsS i g s else readsS i g s
  | (_, .write l v) :: s => readsS i (upd g l v) s
  | (_, .alloc l v) :: s => readsS i (upd g l v) s

def setT (ts : Nat → List (Op V)) (i : Nat) (tl : List (Op V)) : Nat → List (Op V) :=
  fun j => if j = i then tl else ts j

/-- `s` is an interleaving of the threads `ts`: repeatedly pick a thread and execute its next operation -/
inductive Interleaving : (Nat → List (Op V)) → Sched V → Prop where
  | nil {ts : Nat → List (Op V)} : (∀ i, ts i = []) → Interleaving ts []
  | cons {ts : Nat → List (Op V)} {i : Nat} {op : Op V} {tl : List (Op V)} {s : Sched V} :
      ts i = op :: tl → Interleaving (setT ts i tl) s → Interleaving ts ((i, op) :: s)

/-- an interleaving contains exactly each thread's operations, in that thread's order -/
theorem Interleaving.proj_eq {ts : Nat → List (Op V)} {s : Sched V} (h : Interleaving ts s) :
    ∀ i, proj i s = ts i := by
  induction h with
  | nil h0 => intro i; rw [h0 i]; rfl
  | @cons ts j op tl s hi _ ih =>
    intro i
    simp only [proj]
    by_cases e : j = i
    · subst e
      have := ih j
      simp only [setT, if_true] at this
      rw [if_pos rfl, this, hi]
    · have := ih i
      simp only [setT, if_neg (Ne.symm e)] at this
      rw [if_neg e, this]

/-- conversely every schedule is an interleaving of its projections -/
theorem interleaving_proj : ∀ s : Sched V, Interleaving (fun i => proj i s) s
  | [] => .nil (fun _ => rfl)
  | (j, op) :: s => by
    refine .cons (i := j) (tl := proj j s) (by simp [proj]) ?_
    have : setT (fun i => proj i ((j, op) :: s)) j (proj j s) = fun i => proj i s := by
      funext i
      by_cases e : i = j
      · subst e; simp [setT]
      · simp [setT, e, proj, Ne.symm e]
    rw [this]
    exact interleaving_proj s

theorem mem_proj {i : Nat} {op : Op V} : ∀ {s : Sched V}, (i, op) ∈ s → op ∈ proj i s
  | [], h => by cases h
  | (j, op') :: s, h => by
    simp only [proj]
    rcases List.mem_cons.mp h with e | hm
    · cases e; simp
    · by_cases e : j = i
      · rw [if_pos e]; exact List.mem_cons_of_mem _ (mem_proj hm)
      · rw [if_neg e]; exact mem_proj hm

/-! ## static footprints of a disciplined thread -/

theorem disc_writes {P : Loc → Prop} : ∀ {ops : List (Op V)} {own : List Loc}, Disc P own ops →
    ∀ op ∈ ops, ∀ l, Writes op l → l ∈ own ∨ l ∈ allocLocs ops
  | [], _, _, _, h, _, _ => by cases h
  | .read l0 :: ops, own, hd, op, hm, l, hw => by
    rcases List.mem_cons.mp hm with e | hm
    · subst e; cases hw
    · exact disc_writes hd.2 op hm l hw
  | .write l0 v :: ops, own, hd, op, hm, l, hw => by
    rcases List.mem_cons.mp hm with e | hm
    · subst e; cases hw; exact Or.inl hd.1
    · exact disc_writes hd.2 op hm l hw
  | .alloc l0 v :: ops, own, hd, op, hm, l, hw => by
    simp only [allocLocs, List.mem_cons]
    rcases List.mem_cons.mp hm with e | hm
    · subst e; cases hw; exact Or.inr (Or.inl rfl)
    · rcases disc_writes hd.2.2 op hm l hw with h1 | h1
      · rcases List.mem_cons.mp h1 with e | h2
        · exact Or.inr (Or.inl e)
        · exact Or.inl h2
      · exact Or.inr (Or.inr h1)

theorem disc_accesses {P : Loc → Prop} : ∀ {ops : List (Op V)} {own : List Loc}, Disc P own ops →
    ∀ op ∈ ops, ∀ l, Accesses op l → P l ∨ l ∈ own ∨ l ∈ allocLocs ops
  | [], _, _, _, h, _, _ => by cases h
  | .read l0 :: ops, own, hd, op, hm, l, hw => by
    rcases List.mem_cons.mp hm with e | hm
    · subst e; cases hw
      rcases hd.1 with h1 | h1
      · exact Or.inl h1
      · exact Or.inr (Or.inl h1)
    · exact disc_accesses hd.2 op hm l hw
  | .write l0 v :: ops, own, hd, op, hm, l, hw => by
    rcases List.mem_cons.mp hm with e | hm
    · subst e; cases hw; exact Or.inr (Or.inl hd.1)
    · exact disc_accesses hd.2 op hm l hw
  | .alloc l0 v :: ops, own, hd, op, hm, l, hw => by
    simp only [allocLocs, List.mem_cons]
    rcases List.mem_cons.mp hm with e | hm
    · subst e; cases hw; exact Or.inr (Or.inr (Or.inl rfl))
    · rcases disc_accesses hd.2.2 op hm l hw with h1 | h1 | h1
      · exact Or.inl h1
      · rcases List.mem_cons.mp h1 with e | h2
        · exact Or.inr (Or.inr (Or.inl e))
        · exact Or.inr (Or.inl h2)
      · exact Or.inr (Or.inr (Or.inr h1))

theorem disc_allocs_notP {P : Loc → Prop} : ∀ {ops : List (Op V)} {own : List Loc}, Disc P own ops →
    ∀ l ∈ allocLocs ops, ¬ P l
  | [], _, _, _, h => by cases h
  | .read _ :: ops, own, hd, l, hm => disc_allocs_notP hd.2 l hm
  | .write _ _ :: ops, own, hd, l, hm => disc_allocs_notP hd.2 l hm
  | .alloc l0 v :: ops, own, hd, l, hm => by
    rcases List.mem_cons.mp hm with e | hm
    · subst e; exact hd.1
    · exact disc_allocs_notP hd.2.2 l hm

/-! ## the simulation: one thread against an environment that stays out of its way -/

/-- Thread `i` inside a schedule whose other operations store only into `F`, where `F` is disjoint from everything
    thread `i` may look at (`P`, its own cells, its future cells): thread `i` reads what it would read alone from any
    heap `gi` agreeing with the global heap on `P ∪ own`, and the final heaps still agree there. -/
theorem sim (P F : Loc → Prop) (i : Nat) : ∀ (s : Sched V) (own : List Loc) (g gi : Heap V),
    Disc P own (proj i s) →
    (∀ p ∈ s, p.1 ≠ i → ∀ l, Writes p.2 l → F l) →
    (∀ l, F l → ¬ P l ∧ l ∉ own ∧ l ∉ allocLocs (proj i s)) →
    (∀ l, P l ∨ l ∈ own → g l = gi l) →
    readsS i g s = reads gi (proj i s) ∧
    (∀ l, P l ∨ l ∈ own ∨ l ∈ allocLocs (proj i s) → runS g s l = run gi (proj i s) l)
  | [], own, g, gi, _, _, _, hag => by
    refine ⟨rfl, ?_⟩
    intro l hl
    simp only [proj, allocLocs, List.not_mem_nil, or_false] at hl
    exact hag l hl
  | (j, op) :: rest, own, g, gi, hd, hF, hFd, hag => by
    have hF' : ∀ p ∈ rest, p.1 ≠ i → ∀ l, Writes p.2 l → F l := fun p hp => hF p (List.mem_cons_of_mem _ hp)
    by_cases hj : j = i
    · subst hj
      simp only [proj, if_true] at hd hFd ⊢
      cases op with
      | read l =>
        simp only [Disc, allocLocs] at hd hFd
        have ih := sim P F j rest own g gi hd.2 hF' hFd hag
        simp only [readsS, if_true, reads, runS, run, step, allocLocs]
        exact ⟨by rw [hag l hd.1, ih.1], ih.2⟩
      | write l v =>
        simp only [Disc, allocLocs] at hd hFd
        have hag' : ∀ l', P l' ∨ l' ∈ own → upd g l v l' = upd gi l v l' := by
          intro l' hl'
          by_cases e : l' = l
          · subst e; simp
          · rw [upd_other g v e, upd_other gi v e]; exact hag l' hl'
        have ih := sim P F j rest own (upd g l v) (upd gi l v) hd.2 hF' hFd hag'
        simp only [readsS, reads, runS, run, step, allocLocs]
        exact ih
      | alloc l v =>
        simp only [Disc, allocLocs] at hd hFd
        have hag' : ∀ l', P l' ∨ l' ∈ l :: own → upd g l v l' = upd gi l v l' := by
          intro l' hl'
          by_cases e : l' = l
          · subst e; simp
          · rw [upd_other g v e, upd_other gi v e]
            apply hag l'
            rcases hl' with h1 | h1
            · exact Or.inl h1
            · rcases List.mem_cons.mp h1 with e' | h2
              · exact absurd e' e
              · exact Or.inr h2
        have hFd' : ∀ l', F l' → ¬ P l' ∧ l' ∉ l :: own ∧ l' ∉ allocLocs (proj j rest) := by
          intro l' hl'
          obtain ⟨a, b, c⟩ := hFd l' hl'
          simp only [List.mem_cons, not_or] at c ⊢
          exact ⟨a, ⟨c.1, b⟩, c.2⟩
        have ih := sim P F j rest (l :: own) (upd g l v) (upd gi l v) hd.2.2 hF' hFd' hag'
        simp only [readsS, reads, runS, run, step, allocLocs]
        refine ⟨ih.1, ?_⟩
        intro l' hl'
        apply ih.2 l'
        simp only [List.mem_cons] at hl' ⊢
        rcases hl' with h1 | h1 | h1 | h1
        · exact Or.inl h1
        · exact Or.inr (Or.inl (Or.inr h1))
        · exact Or.inr (Or.inl (Or.inl h1))
        · exact Or.inr (Or.inr h1)
    · simp only [proj, if_neg hj] at hd hFd ⊢
      -- an operation of another thread: whatever it stores to lies in `F`, away from thread `i`
      have hstore : ∀ l v, Writes op l → ∀ l', P l' ∨ l' ∈ own → upd g l v l' = gi l' := by
        intro l v hw l' hl'
        have hFl : F l := hF (j, op) List.mem_cons_self hj l hw
        have hne : l' ≠ l := by
          intro e; subst e
          rcases hl' with h1 | h1
          · exact (hFd l' hFl).1 h1
          · exact (hFd l' hFl).2.1 h1
        rw [upd_other g v hne]; exact hag l' hl'
      cases op with
      | read l =>
        simp only [readsS, if_neg hj, runS, step]
        exact sim P F i rest own g gi hd hF' hFd hag
      | write l v =>
        simp only [readsS, runS, step]
        exact sim P F i rest own (upd g l v) gi hd hF' hFd (hstore l v rfl)
      | alloc l v =>
        simp only [readsS, runS, step]
        exact sim P F i rest own (upd g l v) gi hd hF' hFd (hstore l v rfl)

/-! ## the theorems -/

/-- thread-distinct allocation: different threads never obtain the same location -/
def AllocDisjoint (ts : Nat → List (Op V)) : Prop :=
  ∀ i j, i ≠ j → ∀ l, l ∈ allocLocs (ts i) → l ∉ allocLocs (ts j)

/-- e.g. thread `i` allocates only at locations ≡ i (mod k) -/
theorem allocDisjoint_of_mod {ts : Nat → List (Op V)} (k : Nat)
    (h : ∀ i, ∀ l ∈ allocLocs (ts i), l % k = i) : AllocDisjoint ts := by
  intro i j hne l hi hj
  exact hne ((h i l hi).symm.trans (h j l hj))

section
variable {h : Heap V} {ts : Nat → List (Op V)} {s : Sched V}

/-- **C07.**  In every interleaving of disciplined threads with thread-distinct allocation, each thread reads exactly
    the sequence of values it reads when run alone from the shared initial heap — so it computes the same result. -/
theorem interleave_eq_seq (hint : Interleaving ts s) (hd : ∀ j, Disc (Dom h) [] (ts j)) (hdisj : AllocDisjoint ts)
    (i : Nat) : readsS i h s = reads h (ts i) ∧
      (∀ l, Dom h l ∨ l ∈ allocLocs (ts i) → runS h s l = run h (ts i) l) := by
  have hp := hint.proj_eq
  have key := sim (Dom h) (fun l => ∃ j, j ≠ i ∧ l ∈ allocLocs (ts j)) i s [] h h
    (by rw [hp i]; exact hd i)
    (by
      intro p hps hne l hw
      have hm : p.2 ∈ proj p.1 s := mem_proj (by cases p; exact hps)
      rw [hp p.1] at hm
      rcases disc_writes (hd p.1) p.2 hm l hw with h1 | h1
      · cases h1
      · exact ⟨p.1, hne, h1⟩)
    (by
      rintro l ⟨j, hne, hl⟩
      refine ⟨disc_allocs_notP (hd j) l hl, by simp, ?_⟩
      rw [hp i]; exact hdisj j i hne l hl)
    (fun _ _ => rfl)
  rw [hp i] at key
  refine ⟨key.1, ?_⟩
  intro l hl
  apply key.2 l
  rcases hl with h1 | h1
  · exact Or.inl h1
  · exact Or.inr (Or.inr h1)

theorem interleave_reads_eq (hint : Interleaving ts s) (hd : ∀ j, Disc (Dom h) [] (ts j)) (hdisj : AllocDisjoint ts)
    (i : Nat) : readsS i h s = reads h (ts i) := (interleave_eq_seq hint hd hdisj i).1

/-- the thread's own cells (and the shared part) end up exactly as after its solo run: untouched by the others -/
theorem interleave_heap_eq (hint : Interleaving ts s) (hd : ∀ j, Disc (Dom h) [] (ts j)) (hdisj : AllocDisjoint ts)
    (i : Nat) : ∀ l, Dom h l ∨ l ∈ allocLocs (ts i) → runS h s l = run h (ts i) l :=
  (interleave_eq_seq hint hd hdisj i).2

/-- two interleavings of the same threads are indistinguishable to every thread -/
theorem interleavings_agree {s' : Sched V} (hint : Interleaving ts s) (hint' : Interleaving ts s')
    (hd : ∀ j, Disc (Dom h) [] (ts j)) (hdisj : AllocDisjoint ts) (i : Nat) : readsS i h s = readsS i h s' := by
  rw [interleave_reads_eq hint hd hdisj, interleave_reads_eq hint' hd hdisj]

theorem runS_untouched (l : Loc) : ∀ (s : Sched V) (g : Heap V), (∀ p ∈ s, ¬ Writes p.2 l) → runS g s l = g l
  | [], _, _ => rfl
  | (j, op) :: rest, g, hn => by
    simp only [runS]
    rw [runS_untouched l rest (step g op) (fun p hp => hn p (List.mem_cons_of_mem _ hp))]
    have h1 : ¬ Writes op l := hn (j, op) List.mem_cons_self
    cases op with
    | read _ => rfl
    | write l' v => exact upd_other g v (fun e => h1 e)
    | alloc l' v => exact upd_other g v (fun e => h1 e)

/-- where a thread's store can land -/
theorem writes_in_allocs (hint : Interleaving ts s) (hd : ∀ j, Disc (Dom h) [] (ts j)) :
    ∀ p ∈ s, ∀ l, Writes p.2 l → l ∈ allocLocs (ts p.1) := by
  intro p hps l hw
  have hm : p.2 ∈ proj p.1 s := mem_proj (by cases p; exact hps)
  rw [hint.proj_eq p.1] at hm
  rcases disc_writes (hd p.1) p.2 hm l hw with h1 | h1
  · cases h1
  · exact h1

/-- the shared heap is unchanged by the whole concurrent execution -/
theorem frame_interleaved (hint : Interleaving ts s) (hd : ∀ j, Disc (Dom h) [] (ts j)) :
    ∀ l, Dom h l → runS h s l = h l := by
  intro l hl
  apply runS_untouched
  intro p hps hw
  exact disc_allocs_notP (hd p.1) l (writes_in_allocs hint hd p hps l hw) hl

/-- **C07 (data-race freedom).**  No location is stored to by one thread and accessed by another. -/
theorem no_shared_write (hint : Interleaving ts s) (hd : ∀ j, Disc (Dom h) [] (ts j)) (hdisj : AllocDisjoint ts) :
    ∀ p ∈ s, ∀ q ∈ s, p.1 ≠ q.1 → ∀ l, Writes p.2 l → ¬ Accesses q.2 l := by
  intro p hps q hqs hne l hw hacc
  have hl : l ∈ allocLocs (ts p.1) := writes_in_allocs hint hd p hps l hw
  have hm : q.2 ∈ proj q.1 s := mem_proj (by cases q; exact hqs)
  rw [hint.proj_eq q.1] at hm
  rcases disc_accesses (hd q.1) q.2 hm l hacc with h1 | h1 | h1
  · exact disc_allocs_notP (hd p.1) l hl h1
  · cases h1
  · exact hdisj p.1 q.1 hne l hl h1

end

/-! ## the interleaved execution is a genuine execution -/

def allocLocsS : Sched V → List Loc
  | [] => []
  | (_, .alloc l _) :: s => l :: allocLocsS s
  | (_, .read _) :: s => allocLocsS s
  | (_, .write _ _) :: s => allocLocsS s

/-- memory-safe, allocator-respecting execution: reads and writes hit allocated cells, allocations are fresh -/
def ValidS (g : Heap V) : Sched V → Prop
  | [] => True
  | (_, .read l) :: s => Dom g l ∧ ValidS g s
  | (_, .write l v) :: s => Dom g l ∧ ValidS (upd g l v) s
  | (_, .alloc l v) :: s => g l = none ∧ ValidS (upd g l v) s

/-- every read / write of the schedule goes to `D` or to a cell allocated earlier in the schedule -/
def Covered (D : Loc → Prop) : Sched V → Prop
  | [] => True
  | (_, .read l) :: s => D l ∧ Covered D s
  | (_, .write l _) :: s => D l ∧ Covered D s
  | (_, .alloc l _) :: s => Covered (fun l' => l' = l ∨ D l') s

theorem dom_upd {g : Heap V} {l l' : Loc} (v : V) (hd : Dom g l') : Dom (upd g l v) l' := by
  by_cases e : l' = l
  · subst e; simp [Dom]
  · simp only [Dom, upd_other g v e]; exact hd

theorem validS_gen : ∀ (s : Sched V) (g : Heap V) (D : Loc → Prop), Covered D s → (∀ l, D l → Dom g l) →
    (∀ l ∈ allocLocsS s, g l = none) → (allocLocsS s).Nodup → ValidS g s
  | [], _, _, _, _, _, _ => trivial
  | (_, .read l) :: s, g, D, hc, hD, hA, hN => ⟨hD l hc.1, validS_gen s g D hc.2 hD hA hN⟩
  | (_, .write l v) :: s, g, D, hc, hD, hA, hN => by
    refine ⟨hD l hc.1, validS_gen s (upd g l v) D hc.2 (fun l' h' => dom_upd v (hD l' h')) ?_ hN⟩
    intro l' hl'
    have hne : l' ≠ l := by
      intro e; subst e; exact hD l' hc.1 (hA l' hl')
    rw [upd_other g v hne]; exact hA l' hl'
  | (_, .alloc l v) :: s, g, D, hc, hD, hA, hN => by
    simp only [allocLocsS, List.nodup_cons] at hN
    refine ⟨hA l List.mem_cons_self, validS_gen s (upd g l v) _ hc ?_ ?_ hN.2⟩
    · intro l' h'
      rcases h' with e | h'
      · subst e; simp [Dom]
      · exact dom_upd v (hD l' h')
    · intro l' hl'
      have hne : l' ≠ l := by
        intro e; subst e; exact hN.1 hl'
      rw [upd_other g v hne]; exact hA l' (List.mem_cons_of_mem _ hl')

theorem disc_allocs_nodup {P : Loc → Prop} : ∀ {ops : List (Op V)} {own : List Loc}, Disc P own ops →
    (allocLocs ops).Nodup ∧ ∀ l ∈ allocLocs ops, l ∉ own
  | [], _, _ => ⟨List.nodup_nil, fun _ h => by cases h⟩
  | .read _ :: ops, own, hd => disc_allocs_nodup (ops := ops) hd.2
  | .write _ _ :: ops, own, hd => disc_allocs_nodup (ops := ops) hd.2
  | .alloc l0 v :: ops, own, hd => by
    have ih := disc_allocs_nodup (ops := ops) hd.2.2
    simp only [allocLocs, List.nodup_cons, List.mem_cons]
    refine ⟨⟨fun hm => ih.2 l0 hm List.mem_cons_self, ih.1⟩, ?_⟩
    rintro l (e | hm)
    · subst e; exact hd.2.1
    · exact fun ho => ih.2 l hm (List.mem_cons_of_mem _ ho)

theorem allocLocs_proj_sublist (j' j : Nat) (op : Op V) (rest : Sched V) :
    (allocLocs (proj j' rest)).Sublist (allocLocs (proj j' ((j, op) :: rest))) := by
  simp only [proj]
  by_cases e : j = j'
  · rw [if_pos e]
    cases op with
    | read _ => exact List.Sublist.refl _
    | write _ _ => exact List.Sublist.refl _
    | alloc l v => exact List.sublist_cons_self _ _
  · rw [if_neg e]; exact List.Sublist.refl _

theorem mem_allocLocsS {l : Loc} : ∀ {s : Sched V}, l ∈ allocLocsS s → ∃ j, l ∈ allocLocs (proj j s)
  | [], h => by cases h
  | (j, .read l0) :: s, h => by
    obtain ⟨j', hj'⟩ := mem_allocLocsS (s := s) h
    exact ⟨j', (allocLocs_proj_sublist j' j _ s).subset hj'⟩
  | (j, .write l0 v) :: s, h => by
    obtain ⟨j', hj'⟩ := mem_allocLocsS (s := s) h
    exact ⟨j', (allocLocs_proj_sublist j' j _ s).subset hj'⟩
  | (j, .alloc l0 v) :: s, h => by
    rcases List.mem_cons.mp h with e | hm
    · subst e; exact ⟨j, by simp [proj, allocLocs]⟩
    · obtain ⟨j', hj'⟩ := mem_allocLocsS (s := s) hm
      exact ⟨j', (allocLocs_proj_sublist j' j _ s).subset hj'⟩

theorem nodup_allocLocsS : ∀ (s : Sched V), (∀ j, (allocLocs (proj j s)).Nodup) →
    (∀ i j, i ≠ j → ∀ l, l ∈ allocLocs (proj i s) → l ∉ allocLocs (proj j s)) → (allocLocsS s).Nodup
  | [], _, _ => List.nodup_nil
  | (j, op) :: rest, hN, hX => by
    have hN' : ∀ j', (allocLocs (proj j' rest)).Nodup := fun j' => (hN j').sublist (allocLocs_proj_sublist j' j op rest)
    have hX' : ∀ i k, i ≠ k → ∀ l, l ∈ allocLocs (proj i rest) → l ∉ allocLocs (proj k rest) := fun i k hne l hi hk =>
      hX i k hne l ((allocLocs_proj_sublist i j op rest).subset hi) ((allocLocs_proj_sublist k j op rest).subset hk)
    have ih := nodup_allocLocsS rest hN' hX'
    cases op with
    | read _ => exact ih
    | write _ _ => exact ih
    | alloc l v =>
      simp only [allocLocsS, List.nodup_cons]
      refine ⟨?_, ih⟩
      intro hm
      obtain ⟨j', hj'⟩ := mem_allocLocsS hm
      have hhead : allocLocs (proj j ((j, Op.alloc l v) :: rest)) = l :: allocLocs (proj j rest) := by
        simp [proj, allocLocs]
      by_cases e : j' = j
      · subst e
        have := hN j'
        rw [hhead, List.nodup_cons] at this
        exact this.1 hj'
      · refine hX j j' (Ne.symm e) l ?_ ((allocLocs_proj_sublist j' j _ rest).subset hj')
        rw [hhead]; exact List.mem_cons_self

theorem covered_of_disc (P : Loc → Prop) : ∀ (s : Sched V) (D : Loc → Prop) (own : Nat → List Loc),
    (∀ j, Disc P (own j) (proj j s)) → (∀ l, P l → D l) → (∀ j l, l ∈ own j → D l) → Covered D s
  | [], _, _, _, _, _ => trivial
  | (j, op) :: rest, D, own, hd, hP, hO => by
    have hdj := hd j
    simp only [proj, if_true] at hdj
    have hdo : ∀ j', j' ≠ j → Disc P (own j') (proj j' rest) := by
      intro j' hne
      have := hd j'
      simp only [proj, if_neg (Ne.symm hne)] at this
      exact this
    cases op with
    | read l =>
      refine ⟨?_, covered_of_disc P rest D own ?_ hP hO⟩
      · rcases hdj.1 with h1 | h1
        · exact hP l h1
        · exact hO j l h1
      · intro j'
        by_cases e : j' = j
        · subst e; exact hdj.2
        · exact hdo j' e
    | write l v =>
      refine ⟨hO j l hdj.1, covered_of_disc P rest D own ?_ hP hO⟩
      intro j'
      by_cases e : j' = j
      · subst e; exact hdj.2
      · exact hdo j' e
    | alloc l v =>
      apply covered_of_disc P rest _ (fun j' => if j' = j then l :: own j else own j')
      · intro j'
        by_cases e : j' = j
        · subst e; simp only [if_true]; exact hdj.2.2
        · simp only [if_neg e]; exact hdo j' e
      · exact fun l' h' => Or.inr (hP l' h')
      · intro j' l' h'
        by_cases e : j' = j
        · subst e
          simp only [if_true] at h'
          rcases List.mem_cons.mp h' with e' | h''
          · exact Or.inl e'
          · exact Or.inr (hO j' l' h'')
        · simp only [if_neg e] at h'
          exact Or.inr (hO j' l' h')

/-- with thread-distinct allocation, every interleaving of disciplined threads is a genuine execution from `h`:
    all reads and writes hit allocated memory and every allocation is fresh at the moment it happens -/
theorem interleaved_valid {h : Heap V} {ts : Nat → List (Op V)} {s : Sched V}
    (hint : Interleaving ts s) (hd : ∀ j, Disc (Dom h) [] (ts j)) (hdisj : AllocDisjoint ts) : ValidS h s := by
  have hp := hint.proj_eq
  apply validS_gen s h (Dom h)
  · exact covered_of_disc (Dom h) s (Dom h) (fun _ => []) (fun j => by rw [hp j]; exact hd j) (fun _ h' => h')
      (fun _ _ h' => by cases h')
  · exact fun _ h' => h'
  · intro l hl
    obtain ⟨j, hj⟩ := mem_allocLocsS hl
    rw [hp j] at hj
    have := disc_allocs_notP (hd j) l hj
    cases hh : h l with
    | none => rfl
    | some w => exact absurd (by simp [Dom, hh]) this
  · apply nodup_allocLocsS
    · intro j; rw [hp j]; exact (disc_allocs_nodup (hd j)).1
    · intro i j hne l; rw [hp i, hp j]; exact hdisj i j hne l

/-! ## examples -/

/-- shared: the document at 0, 1 -/
def h0 : Heap Nat := fun l => if l = 0 then some 10 else if l = 1 then some 20 else none

/-- thread 0 allocates at even locations, thread 1 at odd ones -/
def t0 : List (Op Nat) := [.alloc 2 0, .read 0, .write 2 10, .read 2]
def t1 : List (Op Nat) := [.alloc 3 0, .read 1, .write 3 20, .read 0, .read 3]
def threads : Nat → List (Op Nat) := fun i => if i = 0 then t0 else if i = 1 then t1 else []

def sched : Sched Nat :=
  [(0, .alloc 2 0), (1, .alloc 3 0), (1, .read 1), (0, .read 0), (1, .write 3 20), (0, .write 2 10), (1, .read 0),
   (0, .read 2), (1, .read 3)]

theorem threads_disc : ∀ j, Disc (Dom h0) [] (threads j) := by
  intro j
  by_cases e0 : j = 0
  · subst e0; simp [threads, t0, Disc, Dom, h0]
  · by_cases e1 : j = 1
    · subst e1; simp [threads, t1, Disc, Dom, h0]
    · simp [threads, e0, e1, Disc]

theorem threads_disjoint : AllocDisjoint threads := by
  apply allocDisjoint_of_mod 2
  intro i l hl
  by_cases e0 : i = 0
  · subst e0; simp [threads, t0, allocLocs] at hl; subst hl; rfl
  · by_cases e1 : i = 1
    · subst e1; simp [threads, t1, allocLocs] at hl; subst hl; rfl
    · simp [threads, e0, e1, allocLocs] at hl

theorem sched_interleaving : Interleaving threads sched := by
  have hp : ∀ i, proj i sched = threads i := by
    intro i
    by_cases e0 : i = 0
    · subst e0; simp [proj, sched, threads, t0]
    · by_cases e1 : i = 1
      · subst e1; simp [proj, sched, threads, t1]
      · simp [proj, sched, threads, e0, e1, Ne.symm e0, Ne.symm e1]
    done
  have := interleaving_proj sched
  rwa [show (fun i => proj i sched) = threads from funext hp] at this

example : readsS 1 h0 sched = reads h0 t1 :=
  interleave_reads_eq sched_interleaving threads_disc threads_disjoint 1

example : readsS 1 h0 sched = [some 20, some 10, some 20] := by
  simp [readsS, sched, upd, h0]

example : runS h0 sched 0 = some 10 := frame_interleaved sched_interleaving threads_disc 0 (by simp [Dom, h0])

example : ValidS h0 sched := interleaved_valid sched_interleaving threads_disc threads_disjoint

/-- without thread-distinct allocation the "interleaving" is not an execution at all: both threads would be handed
    the same cell -/
example : ¬ ValidS h0 [(0, .alloc 2 0), (1, .alloc 2 0)] := by simp [ValidS, upd]

example : ∀ p ∈ sched, ∀ q ∈ sched, p.1 ≠ q.1 → ∀ l, Writes p.2 l → ¬ Accesses q.2 l :=
  no_shared_write sched_interleaving threads_disc threads_disjoint

/-- non-vacuity: if thread 0 writes the *shared* cell 0 (violating the discipline), thread 1's result depends on the
    schedule -/
def r0 : List (Op Nat) := [.write 0 77]
def r1 : List (Op Nat) := [.read 0]

theorem race_example :
    ¬ Disc (Dom h0) [] r0 ∧
    readsS 1 h0 [(0, .write 0 77), (1, .read 0)] ≠ readsS 1 h0 [(1, .read 0), (0, .write 0 77)] := by
  constructor
  · simp [Disc, r0]
  · simp [readsS, upd, h0]

end Jmes.C07

#print axioms Jmes.C07.interleave_eq_seq
#print axioms Jmes.C07.no_shared_write
#print axioms Jmes.C07.frame_interleaved
#print axioms Jmes.C07.interleavings_agree
#print axioms Jmes.C07.race_example
#print axioms Jmes.C07.interleaved_valid
