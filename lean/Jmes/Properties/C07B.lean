/-
  C07, strengthened — concurrent calls do not interfere, with threads that are STRATEGIES (deterministic programs), not
  fixed operation lists; with publication of freshly built data (a compiled Expression) to later threads; with
  data-race freedom stated explicitly.  Abstract heap machine, core Lean only (definitions in
  `Jmes/Proofs/C07BLemmas.lean`, which imports only the old machine `Jmes.Properties.C07`).

  What a thread is.  `Prog V R := List (Option V) → Act V R`: the next action (an operation, or `ret r`) as a function
  of all the answers received so far.  Which cell is read next, what is written where, how many operations are issued
  and what is returned may all depend on the values read.  Nothing about "the operations the call would have issued"
  is assumed: that they are the same in every schedule is a CONCLUSION (`interleaved_log_eq`).

  What a schedule is.  Any `List Nat` — who moves next; any number of threads, any interleaving, threads may be
  starved or stopped half-way.  After a schedule `s`, thread `i` has had `s.count i` turns.

  Hypotheses (both about SOLO runs from the shared initial heap `h` only, never about the interleaved run):
    `Disciplined h (progs i)`  run alone from `h`, the program writes only cells it allocated itself, reads only cells
                               of `Dom h` or cells it allocated itself, allocates outside `Dom h` and its own cells;
    `AllocDisjoint h progs`    the solo runs of two different threads never allocate the same cell (the allocator hands
                               out each cell once; e.g. thread-local arenas, `allocDisjoint_of_mod`).
  Modelling choice: an allocation names the cell it obtains (`alloc l v`), so "which cells the allocator hands to whom"
  appears as a hypothesis — either `AllocDisjoint`, or, weaker and about the run at hand only, `FreshAllocs` (each
  allocation takes a currently free cell, which is what an allocator guarantees).  One Go call made twice is two
  programs that differ in the cells they allocate; that a Go program's outcome does not depend on the addresses it is
  handed is outside this machine (the Lean model of the evaluator has no addresses at all).
  What ties the hypotheses to the Go code is `Jmes/Tie/Effects.lean`: every store of the four packages goes to memory the call
  itself allocated (`effects_private`), there is no package-level mutable state (`globals_are_constants`), foreign
  callees are read-only or get private memory (`extcalls_safe`), no goroutines are started (`no_go_statements`).

  Theorems
    `interleaved_log_eq`        in EVERY schedule every thread's log (operations issued, answers received) is exactly
                                the log of its solo run with the same number of steps
    `interleaved_result_eq`, `interleaved_returns`    hence it returns exactly what it returns alone
    `schedule_irrelevant`       two schedules are indistinguishable to a thread that gets the same number of turns
    `interleaved_shared_unchanged`   the final heap restricted to `Dom h` is `h`
    `interleaved_own_eq`        a thread's own cells hold what they hold after its solo run
    `interleaved_heap_deterministic` the whole final heap depends only on how many turns each thread had
    `data_race_free`            no two operations of different threads touch the same cell with at least one a store
    `shared_never_written`      no operation of the run stores into `Dom h`
    `interleaved_valid`         the interleaved run is a genuine execution (allocations fresh, accesses allocated)
    `interleaved_log_eq_of_fresh`, `data_race_free_of_fresh`, …   the same conclusions with `AllocDisjoint` replaced by
                                the allocator's contract in the run at hand: each allocation takes a currently free
                                cell (`FreshAllocs`; implied by `AllocDisjoint`: `fresh_of_allocDisjoint`)
    `publish`, `publish_compile`     two-phase publication: what phase 1 built becomes shared read-only for phase 2
  Non-vacuity: `ex_*` (2 threads whose control flow depends on the data), and a machine-checked counterexample for each
  hypothesis dropped: `shared_write_breaks` (a thread writing a shared cell), `shared_alloc_breaks` (two disciplined
  threads handed the same cell).

  On sequential consistency.  `runC` executes one operation at a time on one heap, i.e. the interleavings are
  sequentially consistent.  Go's memory model does not promise SC in general; it promises it for data-race-free
  programs (DRF-SC: "programs that are data-race-free execute in a sequentially consistent manner").  The SC machine is
  therefore a sound model of the Go execution ONLY BECAUSE `data_race_free` holds of every SC execution of disciplined
  threads: DRF-SC asks exactly that all SC executions be race-free, and concludes that no other executions exist.
  Without `data_race_free` the theorems below would say nothing about real Go executions.  (The synchronising edge
  that publishes the shared document and the compiled Expression to the goroutines — a `go` statement, channel,
  mutex, `sync.Once`, … — is the caller's obligation; in the model it is the start of the run / the phase boundary of
  `publish`.)
-/
import Jmes.Proofs.C07BLemmas
namespace Jmes.C07B
open Jmes.C07 (Loc Heap Op upd Dom step Writes Accesses proj mem_proj)

variable {V R : Type}

/-! ## every thread behaves as if alone -/

/-- **C07 (strategies).**  For every family of programs and every schedule: if each program, run alone from `h`, is
    disciplined and allocation is thread-distinct, then in the interleaved run thread `i` has exactly the log — the
    operations it issued and the answer to each — of its solo run from `h` with the same number of steps. -/
theorem interleaved_log_eq {h : Heap V} {progs : Nat → Prog V R} (hd : ∀ i, Disciplined h (progs i))
    (hdisj : AllocDisjoint h progs) (sched : List Nat) (i : Nat) :
    (runC progs (init h) sched).log i = (solo (progs i) h (sched.count i)).log :=
  (inv_of_sched hd hdisj sched).log_eq i

/-- the sequence of values a thread observes is the one it observes alone -/
theorem interleaved_obs_eq {h : Heap V} {progs : Nat → Prog V R} (hd : ∀ i, Disciplined h (progs i))
    (hdisj : AllocDisjoint h progs) (sched : List Nat) (i : Nat) :
    obs ((runC progs (init h) sched).log i) = obs (solo (progs i) h (sched.count i)).log := by
  rw [interleaved_log_eq hd hdisj]

/-- the operations a thread issues are the ones it issues alone (proved, not assumed) -/
theorem interleaved_ops_eq {h : Heap V} {progs : Nat → Prog V R} (hd : ∀ i, Disciplined h (progs i))
    (hdisj : AllocDisjoint h progs) (sched : List Nat) (i : Nat) :
    proj i (runC progs (init h) sched).trace = opsOf (solo (progs i) h (sched.count i)).log := by
  rw [(inv_of_sched hd hdisj sched).trace_eq i, interleaved_log_eq hd hdisj]

/-- whether it has returned, and what, is the same as alone -/
theorem interleaved_result_eq {h : Heap V} {progs : Nat → Prog V R} (hd : ∀ i, Disciplined h (progs i))
    (hdisj : AllocDisjoint h progs) (sched : List Nat) (i : Nat) :
    resultOf (progs i) ((runC progs (init h) sched).log i) = resultOf (progs i) (solo (progs i) h (sched.count i)).log := by
  rw [interleaved_log_eq hd hdisj]

theorem resultOf_stable {p : Prog V R} {h : Heap V} {n : Nat} {r : R} (hr : resultOf p (solo p h n).log = some r)
    (m : Nat) : resultOf p (solo p h (n + m)).log = some r := by
  unfold resultOf at hr
  cases hp : p (obs (solo p h n).log) with
  | op o => rw [hp] at hr; cases hr
  | ret r' => rw [solo_stable hp m]; unfold resultOf; rw [hp] at hr ⊢; exact hr

/-- **every call returns the outcome it would return if run alone**: if the program alone returns `r` within `n`
    steps, it returns `r` in every schedule that gives it at least `n` turns, whatever the other threads do -/
theorem interleaved_returns {h : Heap V} {progs : Nat → Prog V R} (hd : ∀ i, Disciplined h (progs i))
    (hdisj : AllocDisjoint h progs) (sched : List Nat) (i n : Nat) (r : R)
    (hr : resultOf (progs i) (solo (progs i) h n).log = some r) (hn : n ≤ sched.count i) :
    resultOf (progs i) ((runC progs (init h) sched).log i) = some r := by
  rw [interleaved_result_eq hd hdisj]
  have := resultOf_stable hr (sched.count i - n)
  rwa [show n + (sched.count i - n) = sched.count i by omega] at this

/-- two schedules are indistinguishable to a thread that gets the same number of turns in both -/
theorem schedule_irrelevant {h : Heap V} {progs : Nat → Prog V R} (hd : ∀ i, Disciplined h (progs i))
    (hdisj : AllocDisjoint h progs) (s s' : List Nat) (i : Nat) (hc : s.count i = s'.count i) :
    (runC progs (init h) s).log i = (runC progs (init h) s').log i := by
  rw [interleaved_log_eq hd hdisj, interleaved_log_eq hd hdisj, hc]

/-! ## the heap -/

/-- the final heap restricted to `Dom h` is `h`: the shared document / expression is unchanged -/
theorem interleaved_shared_unchanged {h : Heap V} {progs : Nat → Prog V R} (hd : ∀ i, Disciplined h (progs i))
    (hdisj : AllocDisjoint h progs) (sched : List Nat) :
    ∀ l, Dom h l → (runC progs (init h) sched).heap l = h l :=
  (inv_of_sched hd hdisj sched).shared

/-- a thread's own cells (its result) hold exactly what they hold after its solo run: nobody else touched them -/
theorem interleaved_own_eq {h : Heap V} {progs : Nat → Prog V R} (hd : ∀ i, Disciplined h (progs i))
    (hdisj : AllocDisjoint h progs) (sched : List Nat) (i : Nat) :
    ∀ l, l ∈ owned (solo (progs i) h (sched.count i)).log →
      (runC progs (init h) sched).heap l = (solo (progs i) h (sched.count i)).heap l := by
  intro l hl
  apply (inv_of_sched hd hdisj sched).own_eq i l
  rw [interleaved_log_eq hd hdisj]; exact hl

/-- the whole final heap depends only on how many turns each thread had, not on the order -/
theorem interleaved_heap_deterministic {h : Heap V} {progs : Nat → Prog V R} (hd : ∀ i, Disciplined h (progs i))
    (hdisj : AllocDisjoint h progs) (s s' : List Nat) (hc : ∀ i, s.count i = s'.count i) :
    (runC progs (init h) s).heap = (runC progs (init h) s').heap := by
  have key : ∀ (s s' : List Nat), (∀ i, s.count i = s'.count i) → ∀ l,
      (runC progs (init h) s).heap l ≠ none → (runC progs (init h) s).heap l = (runC progs (init h) s').heap l := by
    intro s s' hc l hl
    have inv := inv_of_sched hd hdisj s
    have inv' := inv_of_sched hd hdisj s'
    rcases inv.dom_sub l hl with h1 | ⟨i, hi⟩
    · rw [inv.shared l h1, inv'.shared l h1]
    · have hi' : l ∈ owned ((runC progs (init h) s').log i) := by
        rw [inv'.log_eq i, ← hc i, ← inv.log_eq i]; exact hi
      rw [inv.own_eq i l hi, inv'.own_eq i l hi', hc i]
  funext l
  by_cases hl : (runC progs (init h) s).heap l = none
  · by_cases hl' : (runC progs (init h) s').heap l = none
    · rw [hl, hl']
    · have := key s' s (fun i => (hc i).symm) l hl'
      rw [← this] at hl; exact absurd hl hl'
  · exact key s s' hc l hl

/-! ## data-race freedom -/

/-- a data race in a trace: two operations of DIFFERENT threads touching the SAME cell, at least one of them a store
    (allocation counts as a store).  Position in the trace is irrelevant: we forbid such a pair anywhere, which is
    stronger than forbidding pairs unordered by happens-before. -/
def Race (t : List (Nat × Op V)) : Prop :=
  ∃ a ∈ t, ∃ b ∈ t, a.1 ≠ b.1 ∧ ∃ l, Accesses a.2 l ∧ Accesses b.2 l ∧ (Writes a.2 l ∨ Writes b.2 l)

/-- every store of the run goes to a cell its thread allocated itself, outside the shared domain -/
theorem writes_only_own {h : Heap V} {progs : Nat → Prog V R} (hd : ∀ i, Disciplined h (progs i))
    (hdisj : AllocDisjoint h progs) (sched : List Nat) :
    ∀ e ∈ (runC progs (init h) sched).trace, ∀ l, Writes e.2 l →
      l ∈ owned (solo (progs e.1) h (sched.count e.1)).log ∧ ¬ Dom h l := by
  intro e he l hw
  have hm : e.2 ∈ proj e.1 (runC progs (init h) sched).trace := mem_proj (by cases e; exact he)
  rw [interleaved_ops_eq hd hdisj] at hm
  have := (solo_footprint (hd e.1) _ e.2 hm l).1 hw
  exact ⟨this, solo_owned_notP (hd e.1) _ l this⟩

/-- every access of the run goes to the shared domain or to a cell its thread allocated itself -/
theorem accesses_shared_or_own {h : Heap V} {progs : Nat → Prog V R} (hd : ∀ i, Disciplined h (progs i))
    (hdisj : AllocDisjoint h progs) (sched : List Nat) :
    ∀ e ∈ (runC progs (init h) sched).trace, ∀ l, Accesses e.2 l →
      Dom h l ∨ l ∈ owned (solo (progs e.1) h (sched.count e.1)).log := by
  intro e he l ha
  have hm : e.2 ∈ proj e.1 (runC progs (init h) sched).trace := mem_proj (by cases e; exact he)
  rw [interleaved_ops_eq hd hdisj] at hm
  exact (solo_footprint (hd e.1) _ e.2 hm l).2 ha

/-- no address is written by one thread and accessed by another -/
theorem no_shared_write {h : Heap V} {progs : Nat → Prog V R} (hd : ∀ i, Disciplined h (progs i))
    (hdisj : AllocDisjoint h progs) (sched : List Nat) :
    ∀ a ∈ (runC progs (init h) sched).trace, ∀ b ∈ (runC progs (init h) sched).trace, a.1 ≠ b.1 →
      ∀ l, Writes a.2 l → ¬ Accesses b.2 l := by
  intro a ha b hb hne l hw hacc
  obtain ⟨h1, h2⟩ := writes_only_own hd hdisj sched a ha l hw
  rcases accesses_shared_or_own hd hdisj sched b hb l hacc with h3 | h3
  · exact h2 h3
  · exact hdisj a.1 b.1 hne _ _ l h1 h3

/-- **C07 (data-race freedom).**  In every schedule of disciplined threads with thread-distinct allocation there are
    no conflicting accesses: same address, different threads, at least one a write — impossible.  This is the theorem
    that makes the sequentially consistent machine a sound model of Go (DRF-SC, see the header). -/
theorem data_race_free {h : Heap V} {progs : Nat → Prog V R} (hd : ∀ i, Disciplined h (progs i))
    (hdisj : AllocDisjoint h progs) (sched : List Nat) : ¬ Race (runC progs (init h) sched).trace := by
  rintro ⟨a, ha, b, hb, hne, l, hacca, haccb, hw | hw⟩
  · exact no_shared_write hd hdisj sched a ha b hb hne l hw haccb
  · exact no_shared_write hd hdisj sched b hb a ha (Ne.symm hne) l hw hacca

/-- the shared part of the heap is never written, at any point of the run (not merely restored at the end) -/
theorem shared_never_written {h : Heap V} {progs : Nat → Prog V R} (hd : ∀ i, Disciplined h (progs i))
    (hdisj : AllocDisjoint h progs) (sched : List Nat) :
    ∀ e ∈ (runC progs (init h) sched).trace, ∀ l, Dom h l → ¬ Writes e.2 l :=
  fun e he l hl hw => (writes_only_own hd hdisj sched e he l hw).2 hl

/-! ## the interleaved run is a genuine execution -/

/-- an operation is legal on heap `g`: reads and writes hit existing cells, an allocation takes a free cell -/
def OpValid (g : Heap V) : Op V → Prop
  | .read l => g l ≠ none
  | .write l _ => g l ≠ none
  | .alloc l _ => g l = none

/-- at every point of every schedule the next operation of every thread is legal on the shared heap as it is at that
    moment: in particular each allocation is fresh when it happens, so the run is one the real allocator could produce -/
theorem interleaved_valid {h : Heap V} {progs : Nat → Prog V R} (hd : ∀ i, Disciplined h (progs i))
    (hdisj : AllocDisjoint h progs) (sched : List Nat) (i : Nat) (o : Op V)
    (hp : progs i (obs ((runC progs (init h) sched).log i)) = .op o) : OpValid (runC progs (init h) sched).heap o := by
  have inv := inv_of_sched hd hdisj sched
  have hlog := inv.log_eq i
  have hp' : progs i (obs (solo (progs i) h (sched.count i)).log) = .op o := by rw [← hlog]; exact hp
  have ha := hd i _ o hp'
  have hex : ∀ l, Dom h l ∨ l ∈ owned (solo (progs i) h (sched.count i)).log →
      (runC progs (init h) sched).heap l ≠ none := by
    intro l hl
    rcases hl with h1 | h1
    · rw [inv.shared l h1]; exact h1
    · rw [inv.own_eq i l (by rw [hlog]; exact h1)]; exact solo_own_dom _ l h1
  cases o with
  | read l => exact hex l ha
  | write l v => exact hex l (Or.inr ha)
  | alloc l v =>
    show (runC progs (init h) sched).heap l = none
    by_cases hn : (runC progs (init h) sched).heap l = none
    · exact hn
    · exfalso
      rcases inv.dom_sub l hn with h1 | ⟨j, hj⟩
      · exact ha.1 h1
      · rw [inv.log_eq j] at hj
        by_cases e : j = i
        · subst e; exact ha.2 hj
        · have hnext : l ∈ owned (solo (progs i) h (sched.count i + 1)).log := by
            rw [solo_succ_op hp']; exact List.mem_cons_self
          exact hdisj i j (Ne.symm e) _ _ l hnext hj

/-! ## the allocator's contract instead of thread-distinct allocation

`AllocDisjoint` speaks about the solo runs of two threads at once.  It can be replaced by the contract of the
allocator in the run at hand: every allocation takes a cell that is free at that moment (`FreshAllocs`).  The
hypothesis is weaker (`fresh_of_allocDisjoint`) and the conclusions are the same. -/

/-- **C07 (strategies, fresh allocation).**  For every family of programs, each disciplined when run alone from `h`,
    and every schedule along which each allocation takes a currently free cell: every thread has exactly the log of
    its solo run. -/
theorem interleaved_log_eq_of_fresh {h : Heap V} {progs : Nat → Prog V R} (hd : ∀ i, Disciplined h (progs i))
    (sched : List Nat) (hfr : FreshAllocs progs (init h) sched) (i : Nat) :
    (runC progs (init h) sched).log i = (solo (progs i) h (sched.count i)).log :=
  (inv_of_fresh hd sched hfr).1.log_eq i

/-- … returns what it returns alone -/
theorem interleaved_returns_of_fresh {h : Heap V} {progs : Nat → Prog V R} (hd : ∀ i, Disciplined h (progs i))
    (sched : List Nat) (hfr : FreshAllocs progs (init h) sched) (i n : Nat) (r : R)
    (hr : resultOf (progs i) (solo (progs i) h n).log = some r) (hn : n ≤ sched.count i) :
    resultOf (progs i) ((runC progs (init h) sched).log i) = some r := by
  rw [interleaved_log_eq_of_fresh hd sched hfr]
  have := resultOf_stable hr (sched.count i - n)
  rwa [show n + (sched.count i - n) = sched.count i by omega] at this

/-- … the final heap restricted to `Dom h` is `h` -/
theorem interleaved_shared_unchanged_of_fresh {h : Heap V} {progs : Nat → Prog V R}
    (hd : ∀ i, Disciplined h (progs i)) (sched : List Nat) (hfr : FreshAllocs progs (init h) sched) :
    ∀ l, Dom h l → (runC progs (init h) sched).heap l = h l :=
  (inv_of_fresh hd sched hfr).1.shared

/-- … and there is no data race, and the shared part is never written -/
theorem data_race_free_of_fresh {h : Heap V} {progs : Nat → Prog V R} (hd : ∀ i, Disciplined h (progs i))
    (sched : List Nat) (hfr : FreshAllocs progs (init h) sched) :
    ¬ Race (runC progs (init h) sched).trace ∧
    ∀ e ∈ (runC progs (init h) sched).trace, ∀ l, Dom h l → ¬ Writes e.2 l := by
  obtain ⟨inv, hdis⟩ := inv_of_fresh hd sched hfr
  have hfoot : ∀ e ∈ (runC progs (init h) sched).trace, ∀ l,
      (Writes e.2 l → l ∈ owned ((runC progs (init h) sched).log e.1) ∧ ¬ Dom h l) ∧
      (Accesses e.2 l → Dom h l ∨ l ∈ owned ((runC progs (init h) sched).log e.1)) := by
    intro e he l
    have hm : e.2 ∈ proj e.1 (runC progs (init h) sched).trace := mem_proj (by cases e; exact he)
    rw [inv.trace_eq e.1, inv.log_eq e.1] at hm
    have := solo_footprint (hd e.1) _ e.2 hm l
    rw [inv.log_eq e.1]
    exact ⟨fun hw => ⟨this.1 hw, solo_owned_notP (hd e.1) _ l (this.1 hw)⟩, this.2⟩
  have key : ∀ a ∈ (runC progs (init h) sched).trace, ∀ b ∈ (runC progs (init h) sched).trace, a.1 ≠ b.1 →
      ∀ l, Writes a.2 l → ¬ Accesses b.2 l := by
    intro a ha b hb hne l hw hacc
    obtain ⟨h1, h2⟩ := (hfoot a ha l).1 hw
    rcases (hfoot b hb l).2 hacc with h3 | h3
    · exact h2 h3
    · exact hdis a.1 b.1 hne l h1 h3
  refine ⟨?_, fun e he l hl hw => ((hfoot e he l).1 hw).2 hl⟩
  rintro ⟨a, ha, b, hb, hne, l, hacca, haccb, hw | hw⟩
  · exact key a ha b hb hne l hw haccb
  · exact key b hb a ha (Ne.symm hne) l hw hacca

/-- thread-distinct allocation implies the allocator's contract in every schedule -/
theorem fresh_of_allocDisjoint {h : Heap V} {progs : Nat → Prog V R} (hd : ∀ i, Disciplined h (progs i))
    (hdisj : AllocDisjoint h progs) (sched : List Nat) : FreshAllocs progs (init h) sched := by
  have key : ∀ (s2 s1 : List Nat), FreshAllocs progs (runC progs (init h) s1) s2 := by
    intro s2
    induction s2 with
    | nil => intro _; trivial
    | cons i s ih =>
      intro s1
      refine ⟨fun l v hp => interleaved_valid hd hdisj s1 i _ hp, ?_⟩
      have := ih (s1 ++ [i])
      rw [runC_append] at this
      exact this
  exact key sched []

/-! ## publication -/

/-- the cells that exist after a disciplined solo run are the old ones and the ones it allocated -/
theorem solo_dom {h : Heap V} {p : Prog V R} (hd : Disciplined h p) (n : Nat) (l : Loc) :
    Dom (solo p h n).heap l ↔ Dom h l ∨ l ∈ owned (solo p h n).log := by
  constructor
  · intro hl
    by_cases hm : l ∈ owned (solo p h n).log
    · exact Or.inr hm
    · left; unfold Dom at hl; rw [solo_untouched hd n l hm] at hl; exact hl
  · rintro (h1 | h1)
    · unfold Dom; rw [solo_frame hd n l h1]; exact h1
    · exact solo_own_dom n l h1

/-- **C07 (publication, two phases).**  Phase 1: any threads `progs1` (e.g. several `Compile` calls, and searches) run
    under any schedule `s1` from `h`.  Then the heap `g1` they leave is handed (through a synchronising edge, see the
    header) to new threads `progs2`, which are disciplined with the ENLARGED shared read-only domain `Dom g1` — they
    may read everything phase 1 built (a compiled Expression), and write none of it.  Then:
    * `g1` extends `h`, and holds in the cells of each phase-1 thread exactly what that thread builds when run alone
      (so phase-2 readers of a published Expression see what `Compile` alone produces);
    * in every phase-2 schedule every thread has the log of its solo run from `g1`;
    * nothing in `Dom g1` — neither the original shared data nor the published data — is written, and the final heap
      restricted to `Dom g1` is `g1` (hence restricted to `Dom h` it is `h`);
    * phase 2 is data-race free. -/
theorem publish {h : Heap V} {progs1 progs2 : Nat → Prog V R} (hd1 : ∀ i, Disciplined h (progs1 i))
    (hdisj1 : AllocDisjoint h progs1) (s1 : List Nat) (g1 : Heap V) (hg1 : g1 = (runC progs1 (init h) s1).heap)
    (hd2 : ∀ i, Disciplined g1 (progs2 i)) (hdisj2 : AllocDisjoint g1 progs2) (s2 : List Nat) :
    (∀ l, Dom h l → Dom g1 l ∧ g1 l = h l) ∧
    (∀ i l, l ∈ owned (solo (progs1 i) h (s1.count i)).log →
        Dom g1 l ∧ g1 l = (solo (progs1 i) h (s1.count i)).heap l) ∧
    (∀ i, (runC progs2 (init g1) s2).log i = (solo (progs2 i) g1 (s2.count i)).log) ∧
    (∀ l, Dom g1 l → (runC progs2 (init g1) s2).heap l = g1 l) ∧
    (∀ l, Dom h l → (runC progs2 (init g1) s2).heap l = h l) ∧
    (∀ e ∈ (runC progs2 (init g1) s2).trace, ∀ l, Dom g1 l → ¬ Writes e.2 l) ∧
    ¬ Race (runC progs2 (init g1) s2).trace := by
  have hsh : ∀ l, Dom h l → Dom g1 l ∧ g1 l = h l := by
    intro l hl
    have := interleaved_shared_unchanged hd1 hdisj1 s1 l hl
    rw [← hg1] at this
    exact ⟨by unfold Dom; rw [this]; exact hl, this⟩
  refine ⟨hsh, ?_, fun i => interleaved_log_eq hd2 hdisj2 s2 i, interleaved_shared_unchanged hd2 hdisj2 s2, ?_,
    shared_never_written hd2 hdisj2 s2, data_race_free hd2 hdisj2 s2⟩
  · intro i l hl
    have := interleaved_own_eq hd1 hdisj1 s1 i l hl
    rw [← hg1] at this
    exact ⟨by unfold Dom; rw [this]; exact solo_own_dom _ l hl, this⟩
  · intro l hl
    rw [interleaved_shared_unchanged hd2 hdisj2 s2 l (hsh l hl).1]; exact (hsh l hl).2

/-- **C07 (publication of one compiled value).**  One program `cp` (`Compile`) runs alone for `n` steps from `h` and
    leaves `g1`; everything it allocated becomes part of the shared read-only domain (`Dom g1 = Dom h ∪ its cells`)
    of any number of threads that then run concurrently in any schedule: each behaves as if alone on `g1`, the
    compiled value and the original data are never written, and there is no data race. -/
theorem publish_compile {h : Heap V} {cp : Prog V R} {progs : Nat → Prog V R} (hc : Disciplined h cp) (n : Nat)
    (hd : ∀ i, Disciplined (solo cp h n).heap (progs i)) (hdisj : AllocDisjoint (solo cp h n).heap progs)
    (sched : List Nat) :
    (∀ l, Dom (solo cp h n).heap l ↔ Dom h l ∨ l ∈ owned (solo cp h n).log) ∧
    (∀ l, Dom h l → (solo cp h n).heap l = h l) ∧
    (∀ i, (runC progs (init (solo cp h n).heap) sched).log i = (solo (progs i) (solo cp h n).heap (sched.count i)).log) ∧
    (∀ l, Dom h l ∨ l ∈ owned (solo cp h n).log →
        (runC progs (init (solo cp h n).heap) sched).heap l = (solo cp h n).heap l) ∧
    (∀ e ∈ (runC progs (init (solo cp h n).heap) sched).trace, ∀ l,
        Dom h l ∨ l ∈ owned (solo cp h n).log → ¬ Writes e.2 l) ∧
    ¬ Race (runC progs (init (solo cp h n).heap) sched).trace :=
  ⟨solo_dom hc n, solo_frame hc n, fun i => interleaved_log_eq hd hdisj sched i,
    fun l hl => interleaved_shared_unchanged hd hdisj sched l ((solo_dom hc n l).mpr hl),
    fun e he l hl => shared_never_written hd hdisj sched e he l ((solo_dom hc n l).mpr hl),
    data_race_free hd hdisj sched⟩

/-! ## a sufficient condition for thread-distinct allocation -/

/-- thread-local arenas: if thread `i` of `k` only ever allocates at addresses ≡ i (mod k), allocation is
    thread-distinct -/
theorem allocDisjoint_of_mod {h : Heap V} {progs : Nat → Prog V R} (k : Nat)
    (hk : ∀ i n, ∀ l ∈ owned (solo (progs i) h n).log, l % k = i) : AllocDisjoint h progs := by
  intro i j hne n m l hi hj
  exact hne ((hk i n l hi).symm.trans (hk j m l hj))

/-! ## examples: two threads whose control flow depends on what they read -/

/-- shared document: cells 0 and 1 -/
def h0 : Heap Nat := fun l => if l = 0 then some 10 else if l = 1 then some 20 else none

/-- "max of cells `a`, `b`": allocates a result cell, copies `a` into it, reads `b`, and overwrites the result ONLY IF
    `b` is larger — the list of operations depends on the data -/
def maxProg (a b cell : Loc) : Prog Nat Nat := fun hist =>
  match hist with
  | [] => .op (.alloc cell 0)
  | [_] => .op (.read a)
  | [some x, _] => .op (.write cell x)
  | [_, some _, _] => .op (.read b)
  | [some y, _, some x, _] => if x < y then .op (.write cell y) else .op (.read cell)
  | [_, some y, _, some x, _] => if x < y then .op (.read cell) else .ret x
  | [some z, _, _, _, _, _] => .ret z
  | _ => .ret 0

/-- thread 0 computes max(cell 0, cell 1) in cell 2; thread 1 computes max(cell 1, cell 0) in cell 3; all other
    threads are idle -/
def threads : Nat → Prog Nat Nat := ofList [maxProg 0 1 2, maxProg 1 0 3] 0

/-- alone, thread 0 issues 6 operations and returns 20; thread 1 issues only 5 (different control flow) and returns 20 -/
example : resultOf (threads 0) (solo (threads 0) h0 6).log = some 20 := by decide
example : resultOf (threads 1) (solo (threads 1) h0 5).log = some 20 := by decide
example : opsOf (solo (threads 1) h0 5).log = [.read 3, .read 0, .write 3 20, .read 1, .alloc 3 0] := by decide

theorem ex_disciplined : ∀ i, Disciplined h0 (threads i) := by
  apply ofList_disciplined
  intro p hp
  simp only [List.mem_cons, List.not_mem_nil, or_false] at hp
  rcases hp with e | e
  · subst e; exact disciplined_of_check 6 (by decide)
  · subst e; exact disciplined_of_check 5 (by decide)

theorem ex_separate : AllocDisjoint h0 threads := by
  apply ofList_separate
  simp only [List.pairwise_cons, List.mem_cons, List.not_mem_nil, or_false, forall_eq, false_imp_iff, implies_true,
    List.Pairwise.nil, and_true]
  exact separate_of_final 6 5 (by decide) (by decide) (by decide)

/-- the same by arenas: thread 0 allocates at even addresses, thread 1 at odd ones -/
example : AllocDisjoint h0 threads := by
  apply allocDisjoint_of_mod 2
  intro i n l hl
  match i with
  | 0 =>
    have := owned_sub_final (p := threads 0) (h := h0) (N := 6) (r := 20) (by decide) n l hl
    rw [show owned (solo (threads 0) h0 6).log = [2] by decide] at this
    simp only [List.mem_cons, List.not_mem_nil, or_false] at this
    subst this; rfl
  | 1 =>
    have := owned_sub_final (p := threads 1) (h := h0) (N := 5) (r := 20) (by decide) n l hl
    rw [show owned (solo (threads 1) h0 5).log = [3] by decide] at this
    simp only [List.mem_cons, List.not_mem_nil, or_false] at this
    subst this; rfl
  | i + 2 =>
    have : threads (i + 2) = idleProg 0 := ofList_ge (by simp)
    rw [this, solo_idle] at hl; cases hl

/-- a schedule that alternates, starves, schedules an idle thread, and over-schedules -/
def sched1 : List Nat := [0, 1, 1, 0, 7, 1, 0, 0, 1, 1, 0, 0, 1, 0]

example : (runC threads (init h0) sched1).log 1 = (solo (threads 1) h0 6).log :=
  interleaved_log_eq ex_disciplined ex_separate sched1 1

example : resultOf (threads 0) ((runC threads (init h0) sched1).log 0) = some 20 :=
  interleaved_returns ex_disciplined ex_separate sched1 0 6 20 (by decide) (by decide)

example : ¬ Race (runC threads (init h0) sched1).trace := data_race_free ex_disciplined ex_separate sched1

example : (runC threads (init h0) sched1).heap 0 = some 10 :=
  interleaved_shared_unchanged ex_disciplined ex_separate sched1 0 (by simp [Dom, h0])

example : OpValid (runC threads (init h0) [0, 1]).heap (.read 0) :=
  interleaved_valid ex_disciplined ex_separate [0, 1] 0 (.read 0) (by decide)

example : (runC threads (init h0) sched1).log 1 = (runC threads (init h0) [1, 1, 1, 1, 1, 1]).log 1 :=
  schedule_irrelevant ex_disciplined ex_separate _ _ 1 (by decide)

example : (runC threads (init h0) [0, 1, 1, 0]).heap = (runC threads (init h0) [1, 0, 0, 1]).heap :=
  interleaved_heap_deterministic ex_disciplined ex_separate _ _ (fun i => by
    simp only [List.count_cons, List.count_nil]; omega)

/-- the allocator's contract holds along the schedule, and gives the same conclusions -/
example : FreshAllocs threads (init h0) sched1 := fresh_of_allocDisjoint ex_disciplined ex_separate sched1

example : (runC threads (init h0) sched1).log 0 = (solo (threads 0) h0 7).log :=
  interleaved_log_eq_of_fresh ex_disciplined sched1 (fresh_of_allocDisjoint ex_disciplined ex_separate sched1) 0

example : ¬ Race (runC threads (init h0) sched1).trace :=
  (data_race_free_of_fresh ex_disciplined sched1 (fresh_of_allocDisjoint ex_disciplined ex_separate sched1)).1

example : obs ((runC threads (init h0) sched1).log 1) = [some 20, some 10, none, some 20, none] := by
  rw [interleaved_obs_eq ex_disciplined ex_separate]; decide

example : proj 1 (runC threads (init h0) sched1).trace = [.read 3, .read 0, .write 3 20, .read 1, .alloc 3 0] := by
  rw [interleaved_ops_eq ex_disciplined ex_separate]; decide

example : resultOf (threads 1) ((runC threads (init h0) sched1).log 1) = some 20 := by
  rw [interleaved_result_eq ex_disciplined ex_separate]; decide

/-- thread 1's result cell holds 20, as after its solo run -/
example : (runC threads (init h0) sched1).heap 3 = some 20 := by
  rw [interleaved_own_eq ex_disciplined ex_separate sched1 1 3 (by decide)]; decide

example : ∀ e ∈ (runC threads (init h0) sched1).trace, ¬ Writes e.2 1 :=
  fun e he => shared_never_written ex_disciplined ex_separate sched1 e he 1 (by unfold Dom; decide)

example : ∀ a ∈ (runC threads (init h0) sched1).trace, ∀ b ∈ (runC threads (init h0) sched1).trace, a.1 ≠ b.1 →
    ∀ l, Writes a.2 l → ¬ Accesses b.2 l := no_shared_write ex_disciplined ex_separate sched1

/-- the machine really interleaves: the global trace (newest first) of a short schedule -/
example : (runC threads (init h0) [0, 1, 1, 0]).trace = [(0, .read 0), (1, .read 1), (1, .alloc 3 0), (0, .alloc 2 0)] := by
  decide

/-! ### publication example: compile, then two concurrent searches -/

/-- `Compile`: reads the expression text (cell 0) and builds the "AST" in a new cell 4 -/
def compileProg : Prog Nat Nat := fun hist =>
  match hist with
  | [] => .op (.read 0)
  | [some t] => .op (.alloc 4 (t + 1))
  | [_, _] => .ret 4
  | _ => .ret 0

/-- `Search`: reads the published AST (cell 4) and the document (cell 1), stores the answer in its own cell -/
def searchProg (cell : Loc) : Prog Nat Nat := fun hist =>
  match hist with
  | [] => .op (.read 4)
  | [_] => .op (.read 1)
  | [some d, some a] => .op (.alloc cell (a + d))
  | [_, some d, some a] => .ret (a + d)
  | _ => .ret 0

def searchers : Nat → Prog Nat Nat := ofList [searchProg 5, searchProg 6] 0

theorem compile_disciplined : Disciplined h0 compileProg := disciplined_of_check 2 (by decide)

/-- the heap `Compile` leaves -/
def h1 : Heap Nat := (solo compileProg h0 2).heap

example : h1 4 = some 11 := by decide

/-- what exists after `Compile`: the old cells and the one it allocated -/
example : Dom h1 4 ∧ Dom h1 0 ∧ ¬ Dom h1 5 := by
  refine ⟨(solo_dom compile_disciplined 2 4).mpr (Or.inr (by decide)),
    (solo_dom compile_disciplined 2 0).mpr (Or.inl (by unfold Dom; decide)), ?_⟩
  intro h5
  rcases (solo_dom compile_disciplined 2 5).mp h5 with h | h
  · revert h; unfold Dom; decide
  · revert h; decide

/-- the searchers are NOT disciplined relative to `h0` (cell 4 does not exist there: nothing to share yet) … -/
example : ¬ Disciplined h0 (searchProg 5) := by
  intro hd
  have := hd 0 (.read 4) rfl
  simp [Allowed, Dom, h0, solo, owned] at this

/-- … but they are relative to the heap `Compile` leaves, whose domain contains the published cell -/
theorem searchers_disciplined : ∀ i, Disciplined h1 (searchers i) := by
  apply ofList_disciplined
  intro p hp
  simp only [List.mem_cons, List.not_mem_nil, or_false] at hp
  rcases hp with e | e
  · subst e; exact disciplined_of_check 3 (by decide)
  · subst e; exact disciplined_of_check 3 (by decide)

theorem searchers_separate : AllocDisjoint h1 searchers := by
  apply ofList_separate
  simp only [List.pairwise_cons, List.mem_cons, List.not_mem_nil, or_false, forall_eq, false_imp_iff, implies_true,
    List.Pairwise.nil, and_true]
  exact separate_of_final 3 3 (by decide) (by decide) (by decide)

/-- both searchers, in any schedule, see the AST `Compile` built (11) and the document (20) and return 31; the
    published cell is never written -/
example (sched : List Nat) (h3 : 3 ≤ sched.count 1) :
    resultOf (searchers 1) ((runC searchers (init h1) sched).log 1) = some 31 :=
  interleaved_returns searchers_disciplined searchers_separate sched 1 3 31 (by decide) h3

example (sched : List Nat) : (runC searchers (init h1) sched).heap 4 = some 11 :=
  (publish_compile compile_disciplined 2 searchers_disciplined searchers_separate sched).2.2.2.1 4
    (Or.inr (by decide))

/-- the heap left by a phase 1 that is itself a concurrent run: thread 0 compiles, thread 3 is idle -/
def g1 : Heap Nat := (runC (ofList [compileProg] 0) (init h0) [0, 3, 0]).heap

/-- the same through `publish`: phase 2 is any schedule of the searchers on the heap phase 1 left; the published cell
    and the original document are intact afterwards, and every searcher behaves as if alone -/
example (s2 : List Nat) :
    (runC searchers (init g1) s2).heap 4 = some 11 ∧ (runC searchers (init g1) s2).heap 1 = some 20 ∧
    (∀ i, (runC searchers (init g1) s2).log i = (solo (searchers i) g1 (s2.count i)).log) ∧
    ¬ Race (runC searchers (init g1) s2).trace := by
  have hd1 : ∀ i, Disciplined h0 (ofList [compileProg] 0 i) :=
    ofList_disciplined 0 (fun p hp => by
      simp only [List.mem_cons, List.not_mem_nil, or_false] at hp; subst hp; exact compile_disciplined)
  have hdisj1 : AllocDisjoint h0 (ofList [compileProg] (0 : Nat)) := ofList_separate 0 (by simp)
  have hd2 : ∀ i, Disciplined g1 (searchers i) := by
    apply ofList_disciplined
    intro p hp
    simp only [List.mem_cons, List.not_mem_nil, or_false] at hp
    rcases hp with e | e
    · subst e; exact disciplined_of_check 3 (by decide)
    · subst e; exact disciplined_of_check 3 (by decide)
  have hdisj2 : AllocDisjoint g1 searchers := by
    apply ofList_separate
    simp only [List.pairwise_cons, List.mem_cons, List.not_mem_nil, or_false, forall_eq, false_imp_iff, implies_true,
      List.Pairwise.nil, and_true]
    exact separate_of_final 3 3 (by decide) (by decide) (by decide)
  obtain ⟨_, _, hlog, hsh, hsh0, _, hrace⟩ := publish hd1 hdisj1 [0, 3, 0] g1 rfl hd2 hdisj2 s2
  refine ⟨?_, ?_, hlog, hrace⟩
  · rw [hsh 4 (by unfold Dom; decide)]; decide
  · rw [hsh0 1 (by unfold Dom; decide)]; decide

/-! ## each hypothesis is needed -/

/-- a thread that writes the SHARED cell 0 -/
def writerProg : Prog Nat Nat := fun hist =>
  match hist with
  | [] => .op (.write 0 77)
  | _ => .ret 0

/-- a thread that reads cell 0 and returns what it saw -/
def readerProg : Prog Nat Nat := fun hist =>
  match hist with
  | [] => .op (.read 0)
  | [some v] => .ret v
  | _ => .ret 0

/-- **Counterexample (discipline dropped).**  If one thread writes a shared cell — it is then not disciplined, while
    the reader is, and allocation is trivially thread-distinct — there is a schedule in which the other thread observes
    a different trace and returns a different result than alone, and another schedule in which it does not: the outcome
    depends on the schedule, and the two operations form a data race. -/
theorem shared_write_breaks :
    ¬ Disciplined h0 writerProg ∧ Disciplined h0 readerProg ∧ AllocDisjoint h0 (ofList [writerProg, readerProg] 0) ∧
    resultOf readerProg (solo readerProg h0 1).log = some 10 ∧
    resultOf readerProg ((runC (ofList [writerProg, readerProg] 0) (init h0) [0, 1]).log 1) = some 77 ∧
    resultOf readerProg ((runC (ofList [writerProg, readerProg] 0) (init h0) [1, 0]).log 1) = some 10 ∧
    (runC (ofList [writerProg, readerProg] 0) (init h0) [0, 1]).log 1 ≠ (solo readerProg h0 1).log ∧
    Race (runC (ofList [writerProg, readerProg] 0) (init h0) [0, 1]).trace := by
  refine ⟨?_, disciplined_of_check 1 (by decide), ?_, by decide, by decide, by decide, ?_, ?_⟩
  · intro hd
    have := hd 0 (.write 0 77) rfl
    simp [Allowed, solo, owned] at this
  · apply ofList_separate
    simp only [List.pairwise_cons, List.mem_cons, List.not_mem_nil, or_false, forall_eq, false_imp_iff, implies_true,
      List.Pairwise.nil, and_true]
    exact separate_of_final 1 1 (by decide) (by decide) (by decide)
  · intro e
    have := congrArg obs e
    revert this; decide
  · exact ⟨(1, .read 0), by decide, (0, .write 0 77), by decide, by decide, 0, rfl, rfl, Or.inr rfl⟩

/-- a thread that allocates cell 5 with its own value, reads it back and returns what it saw -/
def grabProg (v : Nat) : Prog Nat Nat := fun hist =>
  match hist with
  | [] => .op (.alloc 5 v)
  | [_] => .op (.read 5)
  | [some x, _] => .ret x
  | _ => .ret 0

/-- **Counterexample (thread-distinct allocation dropped).**  Two threads, each perfectly disciplined on its own, that
    are handed the SAME cell: one reads back the other's value.  (Such a run is not a legal execution of an allocator —
    `OpValid` fails for the second allocation — which is why the hypothesis is an assumption on the allocator, not on
    the library.) -/
theorem shared_alloc_breaks :
    Disciplined h0 (grabProg 1) ∧ Disciplined h0 (grabProg 2) ∧ ¬ Separate h0 (grabProg 1) (grabProg 2) ∧
    resultOf (grabProg 1) (solo (grabProg 1) h0 2).log = some 1 ∧
    resultOf (grabProg 1) ((runC (ofList [grabProg 1, grabProg 2] 0) (init h0) [0, 1, 0, 1]).log 0) = some 2 ∧
    ¬ OpValid (runC (ofList [grabProg 1, grabProg 2] 0) (init h0) [0]).heap (.alloc 5 2) := by
  refine ⟨disciplined_of_check 2 (by decide), disciplined_of_check 2 (by decide), ?_, by decide, by decide, by unfold OpValid; decide⟩
  intro hs
  exact hs 1 1 5 (by decide) (by decide)

end Jmes.C07B

