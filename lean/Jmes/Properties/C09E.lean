/-
  C09 (fourth wave) — "Every call terminates, using time and memory bounded by a low-order polynomial in the length of
  the expression, the size of the document and the size of the result.  In particular the magnitude of integer literals
  and numeric arguments (slice bounds and steps, search offsets, replace and split counts) never by itself drives the
  running time or an allocation."

  What this file adds to `Jmes/Properties/C09C.lean` (the instrumented LOOPS, each relative to an arbitrary
  sub-expression evaluator `fT`):

  1. THE INSTRUMENTED EVALUATOR `ievalT` (`Jmes/Proofs/C09EEval.lean`): `evaluator.evaluate` in the tick-writer monad,
     every node kind of `INode` — one tick per `evaluate` call, the instrumented loops of the third wave with `ievalT`
     itself as the sub-expression evaluator, one tick (and no more, marked) for what is not instrumented.
       `ieval_instrumented`:  `(ievalT root n cur env).1 = ieval root n cur env`  and
                              `(ievalT root n cur env).2 ≤ 12 · ievalS root n cur env`
     where `ievalS` sums, over the nodes visited, one plus the sizes of the values the node's own loops run over; it is
     defined from the RESULTS of the model's `ieval` and mentions NO integer literal of the expression
     (`measure_ignores_integer_literals`).
  2. A CLOSED FORM on the core fragment `isCore` (paths, indexes, two-bound slices, pipes, all projections / filters /
     flatten, `.*`, comparisons against sub-expressions or literals, `&&` `||` `!`): no intermediate value is larger
     than the document, and the ticks are at most `24 · (size of the expression) · (size of the document)`, for
     ALL integers in the expression (`core_resource`, `core_sliceStep_resource`).
  3. A FINDING (it is KF05, now inside the tick model): the first sentence of C09 is false with no integer involved —
     `@|[@,@]|[]|…|[@,@]|[]` costs `≥ 2^k` ticks for `1 + 6k` nodes on a one-element document
     (`first_sentence_false`); together with KF14 (`pad_resource_result`: the width of `pad_left` is the size of an
     INTERMEDIATE value) this is why the general bound (1) is in the sizes of the intermediate values.
  4. The statements the third review found weaker than their comments: the composed bounds of the projection / keyed
     loops (`projection_composed`), `sliceStep` on ANY bytes (`sliceStep_string_resource_any`), `split` / `replace`
     on ANY values (`split_replace_resource_any`), `pad` against the size of its result (`pad_resource_result`).
  5. Pointers to the repaired guard-deletion demos (`Jmes/Proofs/C09EMutants.lean`) and to the theorems that no loop
     of the mirrors is ended by its counter (`Jmes/Proofs/C09EFuel.lean`, `Jmes/Proofs/C09EFuelLex.lean`).

  Units (as in C09C): one tick = one `evaluate` call, one loop iteration, one cell reserved by `make`/`Grow`, one
  element appended, one byte written to a `strings.Builder`, one map store; in a substring search
  (`strings.Index`/`LastIndex`/`Count`) one tick is ONE CANDIDATE OFFSET — the comparison of the pattern at that offset
  costs up to `|p|` byte comparisons in the naive search the model uses and is NOT charged (Go's `strings.Index` is
  `O(|s| + |p|)`), so the bounds of `find_*`, `split`, `replace` are in candidate offsets, not bytes compared.

  `==`, `!=` and `contains` ARE instrumented (`equalT`, `containsT`: one tick per `equal` call and per loop iteration,
  at most twice the size of the left operand — so KF05's own witness `[@,@] | … | @ == @` costs `2^k` here as well).
  NOT charged, beyond ONE tick where they are called (`Jmes.C09E.uninstrumented`, `applyBinOpT`): arithmetic on
  decimals and the four ordering operators, unary minus, `abs ceil ends_with floor lower sort starts_with to_number
  to_string trim* upper` (`sum avg max min from_items` are charged the full trip count of their one loop, `elemsT`), the byte comparison of two strings inside `equal`, `sort.Stable` inside `sort_by` (`O(n log n)` calls of `Less`, each
  `O(key bytes)`), the parse of a count / offset argument by `toInt` (linear in the length of the literal's text, which
  is part of the expression), `old == new` in `replace`, the walk up the scope chain for a variable (at most the `let`
  nesting depth, ≤ the expression length), hashing of map keys, and the PARSER (only its recursion depth is bounded,
  `C09C.parse_depth_linear`; the lexer is instrumented, `C09C.lexer_resource`).
-/
import Jmes.Proofs.C09EBlowup
import Jmes.Proofs.C09EMutants
import Jmes.Proofs.C09EFuel
import Jmes.Proofs.C09EFuelLex
set_option linter.unusedSimpArgs false
namespace Jmes.C09E
open Jmes Jmes.C09C

/-! ## 1. The instrumented evaluator -/

/-- EVERY node, EVERY current value, root document and environment: the instrumented evaluator returns exactly the
    model's result, and its ticks are at most twelve times the measure `ievalS` — one plus the sizes of the values
    each visited node's own loops run over, summed over the nodes visited. -/
theorem ieval_instrumented (root : Val) (n : INode) (cur : Val) (env : Env) :
    (ievalT root n cur env).1 = ieval root n cur env ∧ (ievalT root n cur env).2 ≤ 12 * ievalS root n cur env :=
  ⟨ievalT_fst root n cur env, ievalT_cost root n cur env⟩

/-- `evaluator.Evaluate(node, data)` with its ticks -/
def evaluateT (n : INode) (data : Val) : T (Res Val) := ievalT data n data []

/-- a whole evaluation (`Search` after `Parse`): the model's result, at most `12 · ievalS` ticks -/
theorem evaluate_resource (n : INode) (data : Val) :
    (evaluateT n data).1 = evaluate n data ∧ (evaluateT n data).2 ≤ 12 * ievalS data n data [] :=
  ieval_instrumented data n data []

/-- `[0] | [@, @]` on `[[true]]`: five `evaluate` calls, one `make` of two cells and two iterations: 9 ticks -/
example : evaluateT (.pipe (.indexCurrent 0) (.selectArrayCurrent [.current, .current])) (.arr .plain [.arr .plain [.bool true]])
    = ⟨.ok (.arr .plain [.arr .plain [.bool true], .arr .plain [.bool true]]), 9⟩ := by
  apply T.ext
  · rw [(evaluate_resource _ _).1]; rfl
  · simp [evaluateT, ievalT, ievalListT, indexT, index, enum2, onOk, Val.isNull]

/-- the measure does not see the integer literals of the expression: an index, the bounds and the step of a slice
    can be replaced by ANY integers without changing the measure of the node they occur in (what changes is at most the
    RESULT of the node, hence the sizes of the values later nodes work on) -/
theorem measure_ignores_integer_literals (root : Val) (c : INode) (cur : Val) (env : Env) :
    (∀ i j : Int, ievalS root (.index c i) cur env = ievalS root (.index c j) cur env) ∧
    (∀ a b a' b' : Int, ievalS root (.slice c a b) cur env = ievalS root (.slice c a' b') cur env) ∧
    (∀ a b s a' b' s' : Int, ievalS root (.sliceStep c a b s) cur env = ievalS root (.sliceStep c a' b' s') cur env) ∧
    (∀ i j : Int, ievalS root (.indexCurrent i) cur env = ievalS root (.indexCurrent j) cur env) ∧
    (∀ a b s a' b' s' : Int, ievalS root (.sliceStepCurrent a b s) cur env = ievalS root (.sliceStepCurrent a' b' s') cur env) := by
  refine ⟨?_, ?_, ?_, ?_, ?_⟩ <;> intros <;> simp only [ievalS]

/-- so: an index costs one tick more than its subject, a slice at most twelve times (one plus the size of its subject)
    more — ∀ start stop step : Int (zero, ±2^63, beyond 64 bits) -/
theorem index_slice_resource (root : Val) (c : INode) (cur : Val) (env : Env) :
    (∀ i : Int, (ievalT root (.index c i) cur env).2 ≤ 12 * (1 + ievalS root c cur env)) ∧
    (∀ a b : Int, (ievalT root (.slice c a b) cur env).2
      ≤ 12 * (1 + ievalS root c cur env + outSize (ieval root c cur env))) ∧
    (∀ a b s : Int, (ievalT root (.sliceStep c a b s) cur env).2
      ≤ 12 * (1 + ievalS root c cur env + outSize (ieval root c cur env))) := by
  refine ⟨fun i => ?_, fun a b => ?_, fun a b s => ?_⟩
  · have := ievalT_cost root (.index c i) cur env; simpa only [ievalS] using this
  · have := ievalT_cost root (.slice c a b) cur env; simpa only [ievalS, outSize] using this
  · have := ievalT_cost root (.sliceStep c a b s) cur env; simpa only [ievalS, outSize] using this

example : (ievalT .null (.sliceStepCurrent 0 (2 ^ 63 - 1) (2 ^ 62)) (.str [0x61, 0x62, 0x63]) []).2 ≤ 12 * (1 + 4) := by
  have := ievalT_cost .null (.sliceStepCurrent 0 (2 ^ 63 - 1) (2 ^ 62)) (.str [0x61, 0x62, 0x63]) []
  simpa [ievalS, vsize] using this

/-- a builtin call `f(args…)`: the measure is one per argument plus the measures of the arguments, plus the sizes of
    the argument VALUES and of the result — a count or offset argument weighs ONE whatever its magnitude
    (`vsize (.num (.int k v)) = 1`) — plus `fnExtra` (the separator bytes of `join`, the width of a `pad` the model
    declines to build) -/
theorem call_measure (root : Val) (f : Fn) (args : List INode) (cur : Val) (env : Env) (vs : List Val)
    (h : ievalList root args cur env = .ok vs) :
    ievalS root (.call f args) cur env
      = 1 + ievalListS root args cur env + (1 + vsizeL vs + outSize (applyFn f vs) + fnExtra f vs) := by
  simp only [ievalS, h, onOk_ok, fnS]

/-- `split(@, ',', n)` for ANY `n : Int`: the same measure up to the size of the result -/
example (n : Int) : ievalS .null (.call .splitCount [.current, .lit (.str [0x2C]), .lit (.num (.int .i64 n))])
      (.str [0x61, 0x2C, 0x62]) []
    = 15 + outSize (splitCount (.str [0x61, 0x2C, 0x62]) (.str [0x2C]) (.num (.int .i64 n))) := by
  rw [call_measure _ _ _ _ _ [.str [0x61, 0x2C, 0x62], .str [0x2C], .num (.int .i64 n)] (by rfl)]
  simp only [ievalListS, ievalS, vsizeL, vsize, numSize, applyFn, fnExtra, List.length_cons, List.length_nil]
  omega

/-! ## 2. The closed form on the core fragment -/

/-- a core expression (`isCore`: `@`, fields, indexes, two-bound slices, pipes, every projection / filter / flatten
    form, `.*`, binary operators on core expressions or literals, `&&`, `||`, `!`, unary minus) evaluated at ANY value:
    the result is no larger than that value, and the ticks are at most `24 · nsize n · (size of the value)` —
    `nsize n` = nodes of the expression + sizes of its literals — whatever integers occur in the expression. -/
theorem core_resource (root : Val) (n : INode) (h : isCore n = true) (cur : Val) (env : Env) :
    (ievalT root n cur env).1 = ieval root n cur env ∧
    outSize (ieval root n cur env) ≤ vsize cur ∧
    (ievalT root n cur env).2 ≤ 24 * (nsize n * vsize cur) :=
  ⟨ievalT_fst root n cur env, (core_ok root n h cur env).1, core_cost root n h cur env⟩

/-- a three-bound slice of a core expression, ∀ start stop step : Int: at most `24 · (nodes) · (size of the value)` -/
theorem core_sliceStep_resource (root : Val) (c : INode) (h : isCore c = true) (cur : Val) (env : Env) :
    ∀ start stop step : Int,
      (ievalT root (.sliceStep c start stop step) cur env).2 ≤ 24 * ((1 + nsize c) * vsize cur) :=
  core_sliceStep_cost root c h cur env

/-- the whole evaluation of a core expression on a document -/
theorem core_evaluate_resource (n : INode) (h : isCore n = true) (data : Val) :
    (evaluateT n data).1 = evaluate n data ∧ (evaluateT n data).2 ≤ 24 * (nsize n * vsize data) :=
  ⟨ievalT_fst data n data [], core_cost data n h data []⟩

/-- ``foo[?bar > `1`].baz[0] | [1:3]`` parses to a core expression of size 12 (11 nodes, and one more for the digit of the literal) -/
example : (match Parser.parse [102, 111, 111, 91, 63, 98, 97, 114, 32, 62, 32, 96, 49, 96, 93, 46, 98, 97, 122, 91, 48,
    93, 32, 124, 32, 91, 49, 58, 51, 93] with
    | .ok n => isCore n && nsize n == 12
    | _ => false) = true := by decide +kernel

/-- every index of a core path, 2^63 - 1 or -2^63: the same bound -/
example (i : Int) (data : Val) : (evaluateT (.index (.field [0x61]) i) data).2 ≤ 24 * (2 * vsize data) :=
  (core_evaluate_resource (.index (.field [0x61]) i) rfl data).2

/-! ## 3. The first sentence of C09 is false with no integer involved (KF05) -/

/-- `@|[@,@]|[]|…|[@,@]|[]` with `k` stages (`dblChain k`, `1 + 6k` nodes) on the document `[true]`: the value is an
    array of `2^k` elements, and the instrumented evaluator spends at least `2^k` ticks (the inner loop of `flatten`,
    array.go:543) — so no polynomial in the size of the expression and the document bounds the ticks.  With
    `| length(@)` appended the result is one number.  Go (current /repo, document `[1]`): k = 20 (191 bytes) 0.13 s and
    168 MB, k = 22 0.40 s and 655 MB, k = 24 (227 bytes) 3.3 s and 3 GB. -/
theorem first_sentence_false (root : Val) (env : Env) :
    (∀ k, ieval root (dblChain k) (dblVal 0) env = .ok (dblVal k)) ∧
    (∀ k, nsize (dblChain k) = 1 + 6 * k) ∧
    (∀ k, 2 ^ k ≤ (ievalT root (dblChain k) (dblVal 0) env).2) ∧
    (∀ c d : Nat, ∃ k, c * (nsize (dblChain k) + vsize (dblVal 0)) ^ d < (ievalT root (dblChain k) (dblVal 0) env).2) :=
  ⟨dblChain_value root env, dblChain_nsize, dblChain_cost_ge root env, no_polynomial_bound root env⟩

example : dblVal 2 = .arr .plain [.bool true, .bool true, .bool true, .bool true] := rfl

/-- KF05's own witness `@|[@,@]|…|[@,@]|@ == @` (`k` stages, document `true`, result `true`): at least `2^k` ticks,
    all in the deep comparison `equal` (compare.go:39), which follows both — shared — branches of every pair -/
theorem kf05_in_the_tick_model (root : Val) (env : Env) (k : Nat) :
    ieval root (.pipe (selChain k) (.binop .eq .current .current)) (.bool true) env = .ok (.bool true) ∧
    2 ^ k ≤ (ievalT root (.pipe (selChain k) (.binop .eq .current .current)) (.bool true) env).2 :=
  kf05_cost_ge root env k

example : selChain 2 = .pipe (.pipe .current (.selectArrayCurrent [.current, .current]))
    (.selectArrayCurrent [.current, .current]) := rfl

/-! ## 4. Statements of the third wave, at the strength of their comments -/

/-- `pad_left` / `pad_right`, ANY three values (this is KF14): the ticks are at most
    `5·(|value| + |pad| + 1 + size of the result)` whenever the model builds the result (a string of `width` code
    points, or the subject itself when nothing is added) or fails — the width does not occur; it occurs only where the
    model declines to build the padded string (more than `padLimit = 100000` pad characters: `declined … = width`),
    and there it IS the size of the (intermediate) value Go builds.  `C09C.pad_resource` bounds the cost by the width
    itself; this is the "size of the result" reading. -/
theorem pad_resource_result (left : Bool) (value width pad : Val) :
    (padT true value width pad).1 = padLeft value width pad ∧
    (padT false value width pad).1 = padRight value width pad ∧
    (padT left value width pad).2 ≤ 5 * (vsize value + vsize pad + 1 + outSize (padT left value width pad).1
      + declined (padT left value width pad).1 (padWidth width)) ∧
    (padSpaceT left value width).2 ≤ 5 * (vsize value + 2 + outSize (padSpaceT left value width).1
      + declined (padSpaceT left value width).1 (padWidth width)) :=
  ⟨padLeftT_fst value width pad, padRightT_fst value width pad, padT_cost left value width pad,
   padSpaceT_cost left value width⟩

/-- pad_left('a', 5, '.') = '....a': no width in the bound, `declined = 0` -/
example : (padT true (.str [0x61]) (.num (.int .i64 5)) (.str [0x2E])).2 ≤ 5 * (2 + 2 + 1 + 6 + 0) := by
  have := (pad_resource_result true (.str [0x61]) (.num (.int .i64 5)) (.str [0x2E])).2.2.1
  have e : (padT true (.str [0x61]) (.num (.int .i64 5)) (.str [0x2E])).1 = .ok (.str [0x2E, 0x2E, 0x2E, 0x2E, 0x61]) := by
    rw [padLeftT_fst]; rfl
  rw [e] at this
  exact this

/-- the projection, filter and keyed loops COMPOSED with the evaluator (what `C09C.projection_resource` /
    `keyed_resource` state relative to an arbitrary `fT`, with `evalCost fT xs` standing for the sum): the ticks of
    `[*].c`, `[?f]`, `sort_by(@, &e)` at an array are a constant per element plus THE SUM OVER THE ELEMENTS of the
    ticks of evaluating the sub-expression at that element -/
theorem projection_composed (root : Val) (c f e : INode) (t : ATag) (xs : List Val) (env : Env) :
    (ievalT root (.projectArrayCurrent c) (.arr t xs) env).2
      ≤ 1 + 3 * xs.length + (xs.map (fun x => (ievalT root c x env).2)).sum ∧
    (ievalT root (.filterCurrent f) (.arr t xs) env).2
      ≤ 1 + 3 * xs.length + (xs.map (fun x => (ievalT root f x env).2)).sum ∧
    (ievalT root (.filterAndProjectCurrent f c) (.arr t xs) env).2
      ≤ 1 + 3 * xs.length + (xs.map (fun x => (ievalT root f x env).2)).sum
          + (xs.map (fun x => (ievalT root c x env).2)).sum ∧
    (ievalT root (.sortBy .current e) (.arr t xs) env).2
      ≤ 2 + 3 * xs.length + (xs.map (fun x => (ievalT root e x env).2)).sum ∧
    (ievalT root (.maxBy .current e) (.arr t xs) env).2
      ≤ 2 + 2 * xs.length + (xs.map (fun x => (ievalT root e x env).2)).sum := by
  refine ⟨?_, ?_, ?_, ?_, ?_⟩
  · have := projectArrayT_snd_le (fun v => ievalT root c v env) t xs
    simp only [ievalT, chg_snd, evalCost] at this ⊢; omega
  · have := filterArrayT_snd_le (fun v => ievalT root f v env) t xs
    simp only [ievalT, chg_snd, evalCost] at this ⊢; omega
  · have := filterAndProjectArrayT_snd_le (fun v => ievalT root f v env) (fun v => ievalT root c v env) t xs
    simp only [ievalT, chg_snd, evalCost] at this ⊢; omega
  · have := sortArrayByT_snd_le (fun v => ievalT root e v env) t xs
    simp only [ievalT, chg_snd, chg_fst, bindR_snd, pure_fst, pure_snd, onOk_ok, evalCost] at this ⊢; omega
  · have := arrayPickByT_snd_le Key.gtMax (fun v => ievalT root e v env) t xs
    simp only [ievalT, chg_snd, chg_fst, bindR_snd, pure_fst, pure_snd, onOk_ok, evalCost, arrayMaxByT] at this ⊢; omega

/-- `zip(a₁, …, a_m)` composed with the evaluator: one tick per argument for `make`, one per argument evaluated, the
    evaluations, and four ticks per cell of the arguments for the rows -/
theorem zip_composed (root : Val) (args : List INode) (cur : Val) (env : Env) :
    (ievalT root (.zip args) cur env).2
      ≤ 12 * (1 + args.length + ievalListS root args cur env + onOk (ievalZip root args cur env) vsizeL) := by
  have := ievalT_cost root (.zip args) cur env
  simpa only [ievalS] using this

/-- `v[start:stop:step]` on a string of ANY bytes (valid UTF-8 or not), ∀ start stop step : Int: the model's result in
    at most `8·(code points) + (bytes)` ticks — the third wave's `sliceStep_string_resource` (`8 n`) was stated for
    valid UTF-8 only; on invalid bytes decoding from the back may take more steps than from the front, which the
    extra `|s|` covers -/
theorem sliceStep_string_resource_any (s : Bytes) : ∀ start stop step : Int,
    Res.ok (Val.str (sliceStepStrT s start stop step).1) = sliceStep (.str s) start stop step ∧
    (sliceStepStrT s start stop step).2 ≤ 8 * runeCount s + s.length ∧
    (sliceStepStrT s start stop step).2 ≤ 9 * s.length := by
  intro start stop step
  have h := sliceStepStrT_snd_le s start stop step
  have := C09.runeCount_le_length _ s (Nat.le_refl _)
  exact ⟨sliceStepStrT_fst s start stop step, h, by omega⟩

/-- the lone continuation byte 0x80 three times, step -1 -/
example : (sliceStepStrT [0x80, 0x80, 0x80] (2 ^ 63 - 1) (-(2 ^ 63)) (-1)).2 ≤ 8 * 3 + 3 :=
  (sliceStep_string_resource_any [0x80, 0x80, 0x80] _ _ _).2.1

/-- `split` and `replace` on ANY argument values — strings or not, any count: the model's result; `split` costs at
    most `5·(|value| + 1)` ticks, `replace` at most `4·(|value| + size of the result + 1)`, where `|value|` is 0 for a
    non-string and the size of the result is 0 for a failure: a call that fails in the type switch or on a negative /
    non-integer count is bounded by a constant (it costs no tick at all: the example below).  (Third wave: stated for
    string arguments only.) -/
theorem split_replace_resource_any (value sep old new : Val) : ∀ count : Val,
    (splitT value sep).1 = split value sep ∧ (splitT value sep).2 ≤ 5 * (strLen value + 1) ∧
    (splitCountT value sep count).1 = splitCount value sep count ∧
    (splitCountT value sep count).2 ≤ 5 * (strLen value + 1) ∧
    (replaceT value old new).1 = replace value old new ∧
    (replaceT value old new).2 ≤ 4 * (strLen value + outSize (replace value old new) + 1) ∧
    (replaceCountT value old new count).1 = replaceCount value old new count ∧
    (replaceCountT value old new count).2 ≤ 4 * (strLen value + outSize (replaceCount value old new count) + 1) := by
  intro count
  have h1 := replaceT_cost value old new
  have h2 := replaceCountT_cost value old new count
  rw [replaceT_fst] at h1
  rw [replaceCountT_fst] at h2
  exact ⟨splitT_fst value sep, splitT_cost value sep, splitCountT_fst value sep count, splitCountT_cost value sep count,
    replaceT_fst value old new, h1, replaceCountT_fst value old new count, h2⟩

/-- a non-string subject, a negative count: no tick -/
example : (splitCountT .null (.str [0x2C]) (.num (.int .i64 (2 ^ 62)))).2 = 0 ∧
    (replaceCountT (.str [0x61]) (.str [0x61]) (.str [0x62]) (.num (.int .i64 (-(2 ^ 63))))).2 = 0 := ⟨rfl, rfl⟩

/-- every builtin through the evaluator: at most `6·(1 + sizes of the argument values + size of the result + fnExtra)`
    ticks for the instrumented ones, ONE tick for the `uninstrumented` ones -/
theorem builtin_resource (f : Fn) (vs : List Val) :
    (applyFnT f vs).1 = applyFn f vs ∧
    (applyFnT f vs).2 ≤ 6 * (1 + vsizeL vs + outSize (applyFn f vs) + fnExtra f vs) :=
  ⟨applyFnT_fst f vs, applyFnT_cost f vs⟩

example : (applyFnT .sort [.arr .plain [.str [0x62], .str [0x61]]]).2 = 1 ∧ uninstrumented .sort = true := ⟨rfl, rfl⟩

/-! ## 5. Guard-deletion demos and fuel — pointers

  `Jmes/Proofs/C09EMutants.lean`: one mutant per single deletion for the offset loops of `find_*`
  (`find_offset_each_guard_suffices`), the backward skipping loop slice.go:266 (`skip_bwd_guard_matters`), the clamp
  string.go:938 (`split_empty_clamp_matters` — its deletion CHANGES the result), unboundedness on non-empty subjects that
  reach the mutated line (`sliceStep_fwd_guard_matters`, `sliceStep_bwd_guard_matters`,
  `splitSepNoClampT_unbounded_reachable`), and the honest statement about `reverse` (`revNoGuard_no_finite_cost`).
  `Jmes/Proofs/C09EFuel.lean`, `Jmes/Proofs/C09EFuelLex.lean`: for every `forT` / `forBrkT` mirror of a Go
  `for cond { … }` loop, the counter passed at the call site is never what ends the loop. -/

/-- each protection of the offset loop of `find_*` on its own bounds it by the string; only both deleted leave the
    magnitude of the argument (restated from `C09EMutants`) -/
theorem find_offset_guards (s : Bytes) :
    (∀ i : Int, (startOffsetNoPreT s i).1 = startOffset s i ∧ (startOffsetNoPreT s i).2 ≤ runeCount s + 1) ∧
    (∀ i : Int, (startOffsetNoExitT s i).2 ≤ s.length) ∧
    (∀ i : Int, 0 ≤ i → (startOffsetMutantT s i).2 = i.toNat) :=
  ⟨(find_offset_each_guard_suffices s).1, fun i => ((find_offset_each_guard_suffices s).2.2.1 i).1,
   (find_offset_each_guard_suffices s).2.2.2.2⟩

/-- the loops of the instrumented lexer, `utf8.RuneCountInString`, `reverse`, the fill loop of `pad`, `strings.Index`
    and `strings.Count` leave by their own guard / exit, never by the counter the mirror carries (restated from
    `C09EFuel`, `C09EFuelLex`) -/
theorem loops_exit_by_guard :
    (∀ expr : Bytes, ∃ st, (forBrkT lexAllBody (expr.length + 1) (expr, ([], some .unexpectedEnd))).1 = .brk st) ∧
    (∀ s : Bytes, (revStrLoopT s.length s []).1.1 = []) ∧
    (∀ (n : Nat) (p b : Bytes), (padFillT n p b).1.1 = 0) ∧
    (∀ (p : Bytes) (off : Nat) (s : Bytes), ∃ st, (findIndexLoopT p off s).1 = .brk st) ∧
    (∀ s p : Bytes, p ≠ [] → ∃ st, (countLoopT p (s.length + 1) 0 s).1 = .brk st) :=
  ⟨lexer_fuel_never_exhausted.1, revStrT_loop_exits, padFillT_exits_by_guard, findIndexLoopT_brk, countT_loop_brk⟩

end Jmes.C09E
