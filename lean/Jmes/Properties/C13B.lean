/-
  Property C13, second round: the gaps left by `Jmes/Properties/C13.lean`.

  A. `sort` on numbers *with ties*. Go sorts with `slices.SortFunc` (unstable); the model answers `.nondet` when the
     sorted list has two adjacent elements of equal value that are different Go values (`hasAmbiguousTie`).
     The specification of an arbitrary correct, possibly unstable sort is the relation `SortedPerm xs ys`
     ("`ys` is a permutation of `xs` in non-decreasing value order"): those are the *possible results*.
     * `sortArray_numbers_eq`   the number branch is `.ok (xs.mergeSort vle)` or `.nondet`, never an error;
     * `sortArray_ok_unique`    `.ok`: the answer is a `SortedPerm`, and it is the ONLY one — whatever algorithm Go
                                uses, it returns this list;
     * `sortArray_nondet_spec`  `.nondet`: there is an ambiguous tie and at least two different `SortedPerm`s;
     * `sortedPerm_values`      in every case two possible results agree position by position in value: they differ
                                only in the order of value-equal elements;
     * `sortArray_tie_spec`     the three together, in the shape asked for;
     * `sortArray_definite_iff`, `sortArray_definite_of_tieFree`  when `sort` is definite.
  B. `max`/`min` without NaN: total specification in the order `sort` uses (`Dec.compare`).
  C. `max_by`/`min_by` return the FIRST extremal element (index form).
  D. mixed-type errors of `sort_by`/`max_by`/`min_by` for arrays of any tag (map-ordered arrays included).
  E. stability of `sort_by` as a statement about positions (valid with duplicate elements).
-/
import Jmes.Properties.C13
import Jmes.Proofs.C13BLemmas
namespace Jmes.C13B
open Jmes.C13

/-! ## A. `sort` on numbers, ties included -/

/-- the decimal value of a number (`NaN` for a non-number; only used on arrays of numbers) -/
def valOf (v : Val) : Dec := (toDecimal v).getD .nan

/-- "value of `a` ≤ value of `b`" in the order `sort` uses (`decimal128.Compare`) -/
def vle (a b : Val) : Bool := decide (Dec.compare (valOf a) (valOf b) ≤ 0)

theorem vle_trans (a b c : Val) : vle a b = true → vle b c = true → vle a c = true := Dec.le_trans
theorem vle_total (a b : Val) : (vle a b || vle b a) = true := Dec.le_total _ _

/-- The possible results of a correct (not necessarily stable) sort of the numbers `xs`: the permutations of `xs`
    whose values are non-decreasing. -/
def SortedPerm (xs ys : List Val) : Prop := ys.Perm xs ∧ ys.Pairwise (fun a b => vle a b = true)

/-- the merge sort of the model is one of them -/
theorem sortedPerm_mergeSort (xs : List Val) : SortedPerm xs (xs.mergeSort vle) :=
  ⟨List.mergeSort_perm _ _, List.pairwise_mergeSort vle_trans vle_total xs⟩

/-- the pairs the model sorts are (element, value of the element) -/
theorem zip_decimals : ∀ {xs : List Val} {ds : List Dec}, allDecimals xs = some ds →
    xs.zip ds = xs.map (fun x => (x, valOf x))
  | [], ds, h => by simp
  | x :: rest, ds, h => by
    simp only [allDecimals] at h
    cases hx : toDecimal x with
    | none => rw [hx] at h; cases h
    | some d =>
      rw [hx] at h
      cases hr : allDecimals rest with
      | none => rw [hr] at h; cases h
      | some ds' =>
        rw [hr] at h; cases h
        simp [zip_decimals hr, valOf, hx]

/-- first components of the model's sorted pair list = merge sort of the elements by value -/
theorem sorted_fst {xs : List Val} {ds : List Dec} (hd : allDecimals xs = some ds) :
    ((xs.zip ds).mergeSort nle).map Prod.fst = xs.mergeSort vle := by
  rw [zip_decimals hd]
  rw [List.map_mergeSort (s := vle) (f := Prod.fst)]
  · simp [Function.comp_def]
  · intro a ha b hb
    obtain ⟨x, _, rfl⟩ := List.mem_map.mp ha
    obtain ⟨y, _, rfl⟩ := List.mem_map.mp hb
    rfl

theorem sorted_snd {xs : List Val} {ds : List Dec} (hd : allDecimals xs = some ds) :
    ∀ p ∈ (xs.zip ds).mergeSort nle, p.2 = valOf p.1 := by
  intro p hp
  rw [List.mem_mergeSort, zip_decimals hd] at hp
  obtain ⟨x, _, rfl⟩ := List.mem_map.mp hp
  rfl

/-- The number branch of `sort` never fails: it answers with the merge sort by value, or declines. -/
theorem sortArray_numbers_eq {t : ATag} {x : Val} {rest : List Val} {ds : List Dec} (hx : ¬ IsStr x)
    (hd : allDecimals (x :: rest) = some ds) :
    sortArray (.arr t (x :: rest)) =
      if hasAmbiguousTie (((x :: rest).zip ds).mergeSort nle) then .nondet
      else .ok (.arr .plain ((x :: rest).mergeSort vle)) := by
  have hred : sortArray (.arr t (x :: rest)) = (match allDecimals (x :: rest) with
      | some ds =>
        let sorted := ((x :: rest).zip ds).mergeSort (fun a b => Dec.compare a.2 b.2 ≤ 0)
        if hasAmbiguousTie sorted then .nondet else .ok (.arr .plain (sorted.map Prod.fst))
      | none => errType) := by
    cases x with
    | str s => exact absurd ⟨_, rfl⟩ hx
    | _ => rfl
  rw [hred, hd]
  simp only
  rw [← sorted_fst hd]

/-- `hasAmbiguousTie` finds two adjacent pairs of equal value whose elements differ -/
theorem hasAmbiguousTie_iff : ∀ (l : List (Val × Dec)), hasAmbiguousTie l = true ↔
    ∃ pre a b post, l = pre ++ a :: b :: post ∧ Dec.compare a.2 b.2 = 0 ∧ a.1 ≠ b.1
  | [] => by simp [hasAmbiguousTie]
  | [a] => by
    simp only [hasAmbiguousTie, Bool.false_eq_true, false_iff]
    rintro ⟨pre, a', b', post, h, _⟩
    have := congrArg List.length h
    simp at this
    omega
  | (v1, d1) :: (v2, d2) :: rest => by
    simp only [hasAmbiguousTie, Bool.or_eq_true, Bool.and_eq_true, beq_iff_eq, Bool.not_eq_true']
    rw [hasAmbiguousTie_iff ((v2, d2) :: rest), Val.same_eq_false_iff]
    constructor
    · rintro (⟨h1, h2⟩ | ⟨pre, a, b, post, h, h1, h2⟩)
      · exact ⟨[], (v1, d1), (v2, d2), rest, rfl, h1, h2⟩
      · exact ⟨(v1, d1) :: pre, a, b, post, by rw [h]; rfl, h1, h2⟩
    · rintro ⟨pre, a, b, post, h, h1, h2⟩
      cases pre with
      | nil =>
        simp only [List.nil_append, List.cons.injEq] at h
        obtain ⟨rfl, rfl, rfl⟩ := h
        exact .inl ⟨h1, h2⟩
      | cons p pre =>
        simp only [List.cons_append, List.cons.injEq] at h
        exact .inr ⟨pre, a, b, post, h.2, h1, h2⟩

/-- no ambiguous tie in a value-sorted pair list: members of equal value are the same Go value -/
theorem eq_of_no_tie : ∀ (l : List (Val × Dec)), l.Pairwise (fun a b => Dec.compare a.2 b.2 ≤ 0) →
    hasAmbiguousTie l = false → l.Pairwise (fun a b => Dec.compare a.2 b.2 = 0 → a.1 = b.1)
  | [], _, _ => List.Pairwise.nil
  | [a], _, _ => by simp
  | (v1, d1) :: (v2, d2) :: rest, hs, ht => by
    simp only [hasAmbiguousTie, Bool.or_eq_false_iff, Bool.and_eq_false_iff] at ht
    have ih := eq_of_no_tie ((v2, d2) :: rest) hs.tail ht.2
    refine List.Pairwise.cons ?_ ih
    intro b hb hc
    simp only at hc ⊢
    have h12 : Dec.compare d1 d2 ≤ 0 := (List.pairwise_cons.mp hs).1 (v2, d2) (by simp)
    -- d2 ≤ b.2 ≤ … and b.2 ≈ d1, so d2 ≤ d1
    have h2b : Dec.compare d2 b.2 ≤ 0 := by
      rcases List.mem_cons.mp hb with rfl | hb'
      · rw [Dec.compare_self]; exact Int.le_refl 0
      · exact List.rel_of_pairwise_cons hs.tail hb'
    have hb1 : Dec.compare b.2 d1 ≤ 0 := by rw [Dec.compare_antisymm, hc]; exact Int.le_refl 0
    have h21 : Dec.compare d2 d1 ≤ 0 := Dec.compare_trans h2b hb1
    have e12 : Dec.compare d1 d2 = 0 := by
      have := Dec.compare_antisymm d1 d2
      omega
    have hv12 : v1 = v2 := by
      rcases ht.1 with h | h
      · simp [e12] at h
      · have := (Val.same_iff v1 v2).mp (by simpa using h)
        exact this
    rcases List.mem_cons.mp hb with rfl | hb'
    · exact hv12
    · rw [hv12]
      refine List.rel_of_pairwise_cons ih hb' ?_
      -- d2 ≈ b.2
      have hb2 : Dec.compare b.2 d2 ≤ 0 := Dec.compare_trans hb1 h12
      have := Dec.compare_antisymm d2 b.2
      simp only
      omega

/-- two possible results have the same length and agree in value position by position -/
theorem sortedPerm_values {xs ys zs : List Val} (hy : SortedPerm xs ys) (hz : SortedPerm xs zs) :
    ys.length = zs.length ∧
    ∀ (i : Nat) (h1 : i < ys.length) (h2 : i < zs.length), Dec.compare (valOf ys[i]) (valOf zs[i]) = 0 := by
  have hp : ys.Perm zs := hy.1.trans hz.1.symm
  refine ⟨hp.length_eq, fun i h1 h2 => ?_⟩
  have := sorted_perm_pointwise vle_trans vle_total hp hy.2 hz.2 i h1 h2
  simp only [vle, decide_eq_true_eq] at this
  have a := Dec.compare_antisymm (valOf ys[i]) (valOf zs[i])
  omega

/-- if members of `xs` that are equal in value are equal, `xs` has exactly one sorted permutation -/
theorem sortedPerm_unique {xs ys zs : List Val}
    (htf : ∀ a ∈ xs, ∀ b ∈ xs, Dec.compare (valOf a) (valOf b) = 0 → a = b)
    (hy : SortedPerm xs ys) (hz : SortedPerm xs zs) : zs = ys := by
  obtain ⟨hl, hv⟩ := sortedPerm_values hy hz
  apply List.ext_getElem hl.symm
  intro i h1 h2
  exact (htf _ (hy.1.mem_iff.mp (List.getElem_mem h2)) _ (hz.1.mem_iff.mp (List.getElem_mem h1)) (hv i h2 h1)).symm

/-- the tie-freeness the model tests on the sorted list, as a statement about the input array -/
theorem tieFree_of_no_tie {xs : List Val} {ds : List Dec} (hd : allDecimals xs = some ds)
    (ht : hasAmbiguousTie ((xs.zip ds).mergeSort nle) = false) :
    ∀ a ∈ xs, ∀ b ∈ xs, Dec.compare (valOf a) (valOf b) = 0 → a = b := by
  have hs : ((xs.zip ds).mergeSort nle).Pairwise (fun a b => Dec.compare a.2 b.2 ≤ 0) := by
    refine (List.pairwise_mergeSort (le := nle) nle_trans nle_total (xs.zip ds)).imp ?_
    intro a b h; simpa [nle] using h
  have hp := eq_of_no_tie _ hs ht
  have hmem : ∀ a ∈ xs, (a, valOf a) ∈ (xs.zip ds).mergeSort nle := by
    intro a ha
    rw [List.mem_mergeSort, zip_decimals hd]
    exact List.mem_map.mpr ⟨a, ha, rfl⟩
  intro a ha b hb hc
  by_cases hab : a = b
  · exact hab
  · have hne : (a, valOf a) ≠ (b, valOf b) := fun h => hab (congrArg Prod.fst h)
    rcases pair_sublist_or hne (hmem a ha) (hmem b hb) with h | h
    · exact (List.pairwise_cons.mp (hp.sublist h)).1 (b, valOf b) (by simp) hc
    · have hc' : Dec.compare (valOf b) (valOf a) = 0 := by rw [Dec.compare_antisymm, hc]; rfl
      exact ((List.pairwise_cons.mp (hp.sublist h)).1 (a, valOf a) (by simp) hc').symm

/-- `.ok`: the model's answer is a sorted permutation of the input and there is no other one, so the answer
    does not depend on the sorting algorithm. -/
theorem sortArray_ok_unique {t : ATag} {x : Val} {rest : List Val} {r : Val} (hx : ¬ IsStr x)
    (h : sortArray (.arr t (x :: rest)) = .ok r) :
    ∃ ys, r = .arr .plain ys ∧ SortedPerm (x :: rest) ys ∧ ∀ zs, SortedPerm (x :: rest) zs → zs = ys := by
  obtain ⟨ds, hd, -⟩ := sortArray_numbers_spec hx h
  rw [sortArray_numbers_eq hx hd] at h
  split at h
  · cases h
  · rename_i ht
    cases h
    refine ⟨_, rfl, sortedPerm_mergeSort _, fun zs hz => ?_⟩
    exact sortedPerm_unique (tieFree_of_no_tie hd (by simpa using ht)) (sortedPerm_mergeSort _) hz

/-- `.nondet`: the sorted list has an ambiguous tie, and the input has (at least) two different sorted
    permutations: the merge sort, and the merge sort with the two tied elements swapped. -/
theorem sortArray_nondet_spec {t : ATag} {x : Val} {rest : List Val} {ds : List Dec} (hx : ¬ IsStr x)
    (hd : allDecimals (x :: rest) = some ds) (h : sortArray (.arr t (x :: rest)) = .nondet) :
    hasAmbiguousTie (((x :: rest).zip ds).mergeSort nle) = true ∧
    ∃ ys zs, SortedPerm (x :: rest) ys ∧ SortedPerm (x :: rest) zs ∧ ys ≠ zs := by
  rw [sortArray_numbers_eq hx hd] at h
  split at h
  · rename_i ht
    refine ⟨ht, ?_⟩
    obtain ⟨pre, a, b, post, e, hc, hne⟩ := (hasAmbiguousTie_iff _).mp ht
    have hm := sorted_fst hd
    rw [e] at hm
    simp only [List.map_append, List.map_cons] at hm
    have hsp := sortedPerm_mergeSort (x :: rest)
    rw [← hm] at hsp
    have ha : a.2 = valOf a.1 := sorted_snd hd a (by rw [e]; simp)
    have hb : b.2 = valOf b.1 := sorted_snd hd b (by rw [e]; simp)
    refine ⟨_, pre.map Prod.fst ++ b.1 :: a.1 :: post.map Prod.fst, hsp, ⟨?_, ?_⟩, ?_⟩
    · refine List.Perm.trans ?_ hsp.1
      exact List.Perm.append_left _ (List.Perm.swap _ _ _)
    · refine pairwise_swap_adjacent ?_ hsp.2
      simp only [vle, decide_eq_true_eq]
      rw [← ha, ← hb, Dec.compare_antisymm, hc]
      exact Int.le_refl 0
    · intro heq
      have := List.append_cancel_left heq
      simp only [List.cons.injEq] at this
      exact hne this.1
  · cases h

/-- **`sort` on numbers, ties included.** For an array of numbers (any tag, any length ≥ 1):
    * the model answers `.ok` or `.nondet`, never an error;
    * `.ok (.arr .plain ys)`: `ys` is a permutation of the input ordered by value, and the only one;
    * `.nondet`: the sorted list has an ambiguous tie and there are at least two possible results;
    * in either case any two possible results (`SortedPerm`) differ only in the order of value-equal elements. -/
theorem sortArray_tie_spec {t : ATag} {x : Val} {rest : List Val} {ds : List Dec} (hx : ¬ IsStr x)
    (hd : allDecimals (x :: rest) = some ds) :
    (sortArray (.arr t (x :: rest)) = .ok (.arr .plain ((x :: rest).mergeSort vle)) ∨
      sortArray (.arr t (x :: rest)) = .nondet) ∧
    (∀ ys, sortArray (.arr t (x :: rest)) = .ok (.arr .plain ys) →
      (ys.Perm (x :: rest) ∧ ys.Pairwise (fun a b => Dec.compare (valOf a) (valOf b) ≤ 0)) ∧
      ∀ zs, SortedPerm (x :: rest) zs → zs = ys) ∧
    (sortArray (.arr t (x :: rest)) = .nondet →
      hasAmbiguousTie (((x :: rest).zip ds).mergeSort nle) = true ∧
      ∃ ys zs, SortedPerm (x :: rest) ys ∧ SortedPerm (x :: rest) zs ∧ ys ≠ zs) ∧
    (∀ ys zs, SortedPerm (x :: rest) ys → SortedPerm (x :: rest) zs →
      ys.length = zs.length ∧
      ∀ (i : Nat) (h1 : i < ys.length) (h2 : i < zs.length), Dec.compare (valOf ys[i]) (valOf zs[i]) = 0) := by
  refine ⟨?_, ?_, sortArray_nondet_spec hx hd, fun ys zs => sortedPerm_values⟩
  · rw [sortArray_numbers_eq hx hd]
    split
    · exact .inr rfl
    · exact .inl rfl
  · intro ys h
    obtain ⟨ys', e, hsp, hu⟩ := sortArray_ok_unique hx h
    cases e
    refine ⟨⟨hsp.1, hsp.2.imp ?_⟩, hu⟩
    intro a b hab
    simpa [vle] using hab

/-- `sort` on numbers is definite exactly when the sorted list has no ambiguous tie -/
theorem sortArray_definite_iff {t : ATag} {x : Val} {rest : List Val} {ds : List Dec} (hx : ¬ IsStr x)
    (hd : allDecimals (x :: rest) = some ds) :
    sortArray (.arr t (x :: rest)) ≠ .nondet ↔ hasAmbiguousTie (((x :: rest).zip ds).mergeSort nle) = false := by
  rw [sortArray_numbers_eq hx hd]
  cases hasAmbiguousTie (((x :: rest).zip ds).mergeSort nle) <;> simp

/-- a condition on the input array: numbers of equal value are the same Go value (e.g. all produced by the same
    JSON decoder from distinct spellings … or all distinct in value) -/
theorem sortArray_definite_of_tieFree {t : ATag} {x : Val} {rest : List Val} (hx : ¬ IsStr x)
    (htf : ∀ a ∈ x :: rest, ∀ b ∈ x :: rest, Dec.compare (valOf a) (valOf b) = 0 → a = b) :
    sortArray (.arr t (x :: rest)) ≠ .nondet := by
  cases hd : allDecimals (x :: rest) with
  | none =>
    have hred : sortArray (.arr t (x :: rest)) = (match allDecimals (x :: rest) with
        | some ds =>
          let sorted := ((x :: rest).zip ds).mergeSort (fun a b => Dec.compare a.2 b.2 ≤ 0)
          if hasAmbiguousTie sorted then .nondet else .ok (.arr .plain (sorted.map Prod.fst))
        | none => errType) := by
      cases x with
      | str s => exact absurd ⟨_, rfl⟩ hx
      | _ => rfl
    rw [hred, hd]
    simp [errType]
  | some ds =>
    rw [sortArray_definite_iff hx hd]
    cases ht : hasAmbiguousTie (((x :: rest).zip ds).mergeSort nle) with
    | false => rfl
    | true =>
      exfalso
      obtain ⟨pre, a, b, post, e, hc, hne⟩ := (hasAmbiguousTie_iff _).mp ht
      have ha : a.2 = valOf a.1 := sorted_snd hd a (by rw [e]; simp)
      have hb : b.2 = valOf b.1 := sorted_snd hd b (by rw [e]; simp)
      have hmem : ∀ p ∈ ((x :: rest).zip ds).mergeSort nle, p.1 ∈ x :: rest := by
        intro p hp
        rw [List.mem_mergeSort] at hp
        exact (List.of_mem_zip hp).1
      apply hne
      apply htf _ (hmem a (by rw [e]; simp)) _ (hmem b (by rw [e]; simp))
      rw [← ha, ← hb]; exact hc

/-- `sort` on strings is always definite, and its answer is the only sorted permutation -/
theorem sortArray_strings_unique {ss zs : List Bytes} (hp : zs.Perm ss)
    (hs : zs.Pairwise (fun a b => bytesLt b a = false)) : zs = ss.mergeSort sle := by
  have hm := List.pairwise_mergeSort (le := sle) sle_trans sle_total ss
  have hz : zs.Pairwise (fun a b => sle a b = true) := hs.imp (by intro a b h; simp [sle, h])
  have hperm : zs.Perm (ss.mergeSort sle) := hp.trans (List.mergeSort_perm _ _).symm
  apply List.ext_getElem hperm.length_eq
  intro i h1 h2
  have := sorted_perm_pointwise sle_trans sle_total hperm hz hm i h1 h2
  exact bytesLe_antisymm this.1 this.2

/-! ### examples for A -/

/-- `1` and `1.0` as `json.Number`s -/
def one : Val := .num (.jnum [0x31])
def onePt : Val := .num (.jnum [0x31, 0x2E, 0x30])
def two : Val := .num (.jnum [0x32])

theorem td1 : toDecimal (.num (.jnum [0x31])) = some (.fin false 1 0) := by decide
theorem td1p : toDecimal (.num (.jnum [0x31, 0x2E, 0x30])) = some (.fin false 1 0) := by decide
theorem td2 : toDecimal (.num (.jnum [0x32])) = some (.fin false 2 0) := by decide
theorem toDecimal_one : toDecimal one = some (.fin false 1 0) := td1
theorem toDecimal_onePt : toDecimal onePt = some (.fin false 1 0) := td1p
theorem toDecimal_two : toDecimal two = some (.fin false 2 0) := td2
theorem allDecimals_tie : allDecimals [one, onePt] = some [.fin false 1 0, .fin false 1 0] := by
  simp [allDecimals, toDecimal_one, toDecimal_onePt]
theorem not_isStr_one : ¬ IsStr one := by rintro ⟨s, h⟩; cases h
theorem not_isStr_two : ¬ IsStr two := by rintro ⟨s, h⟩; cases h

/-- `sort([1, 1.0])`: the model declines … -/
theorem sort_tie_nondet : sortArray (.arr .plain [one, onePt]) = .nondet := by
  have c : Dec.compare (.fin false 1 0) (.fin false 1 0) = 0 := by decide
  have hs : Val.same (.num (.jnum [0x31])) (.num (.jnum [0x31, 0x2E, 0x30])) = false := by decide
  simp [sortArray, allDecimals, td1, td1p, one, onePt, List.mergeSort,
    List.MergeSort.Internal.splitInTwo, hasAmbiguousTie, c, hs]

/-- … and indeed both `[1, 1.0]` and `[1.0, 1]` are possible results (the theorem finds two different ones) -/
example : ∃ ys zs, SortedPerm [one, onePt] ys ∧ SortedPerm [one, onePt] zs ∧ ys ≠ zs :=
  (sortArray_nondet_spec not_isStr_one allDecimals_tie sort_tie_nondet).2
example : SortedPerm [one, onePt] [onePt, one] := by
  refine ⟨List.Perm.swap _ _ _, ?_⟩
  have c : Dec.compare (.fin false 1 0) (.fin false 1 0) = 0 := by decide
  simp [vle, valOf, toDecimal_one, toDecimal_onePt, c]
/-- any two possible results of sorting `[1, 1.0]` agree in value at every position -/
example (ys zs : List Val) (hy : SortedPerm [one, onePt] ys) (hz : SortedPerm [one, onePt] zs)
    (h1 : 0 < ys.length) (h2 : 0 < zs.length) : Dec.compare (valOf ys[0]) (valOf zs[0]) = 0 :=
  (sortedPerm_values hy hz).2 0 h1 h2
/-- a tie-free array: `sort([2, 1])` is definite and every correct sort returns `[1, 2]` -/
example : ∀ zs, SortedPerm [two, one] zs → zs = [one, two] := by
  have c1 : Dec.compare (.fin false 2 0) (.fin false 1 0) = 1 := by decide
  have c2 : Dec.compare (.fin false 1 0) (.fin false 2 0) = -1 := by decide
  have h : sortArray (.arr .plain [two, one]) = .ok (.arr .plain [one, two]) := by
    simp [sortArray, allDecimals, td1, td2, one, two, List.mergeSort,
      List.MergeSort.Internal.splitInTwo, hasAmbiguousTie, c1, c2]
  obtain ⟨ys, e, -, hu⟩ := sortArray_ok_unique not_isStr_two h
  cases e
  exact hu
example : ([[0x62], [0x61]] : List Bytes).mergeSort sle = [[0x61], [0x62]] :=
  (sortArray_strings_unique (ss := [[0x62], [0x61]]) (zs := [[0x61], [0x62]]) (List.Perm.swap _ _ _)
    (by simp [bytesLt])).symm


/-! ## B. `max` / `min` of numbers without NaN: a total specification in the order `sort` uses

  Go's `max`/`min` on numbers return the `decimal128` VALUE of an extremal element (`max = d`), not the element
  itself: for the `json.Number` `1e2` the result is the decimal `1E+2`. On strings they return the element.
  (`max_by`/`min_by` do return the element, see C.) -/

theorem decimals_eq_map : ∀ {xs : List Val} {ds : List Dec}, allDecimals xs = some ds → ds = xs.map valOf
  | [], ds, h => by simp only [allDecimals] at h; cases h; rfl
  | x :: rest, ds, h => by
    simp only [allDecimals] at h
    cases hx : toDecimal x with
    | none => rw [hx] at h; cases h
    | some d =>
      rw [hx] at h
      cases hr : allDecimals rest with
      | none => rw [hr] at h; cases h
      | some ds' =>
        rw [hr] at h; cases h
        simp [← decimals_eq_map hr, valOf, hx]

theorem toDecimal_of_allDecimals {xs : List Val} {ds : List Dec} (hd : allDecimals xs = some ds) :
    ∀ e ∈ xs, toDecimal e = some (valOf e) := by
  intro e he
  have := (allDecimals_some hd).2 (e, valOf e) (by rw [zip_decimals hd]; exact List.mem_map.mpr ⟨e, he, rfl⟩)
  exact this

theorem decsOrderFree_of_nanfree {ds : List Dec} (hn : ∀ d ∈ ds, d.isNaN = false) : decsOrderFree ds = true := by
  simp only [decsOrderFree, Bool.not_eq_true', List.any_eq_false]
  intro d hd
  simp [hn d hd]

/-- **`max` without NaN** (any tag, any length ≥ 1): `max` answers, with the decimal value of the FIRST element that
    is greatest in the order `sort` uses: every element's value is `≤` it and every earlier one is `<` it. -/
theorem arrayMax_nanfree {t : ATag} {x : Val} {rest : List Val} {ds : List Dec} (hx : ¬ IsStr x)
    (hd : allDecimals (x :: rest) = some ds) (hn : ∀ e ∈ x :: rest, (valOf e).isNaN = false) :
    ∃ pre e post, x :: rest = pre ++ e :: post ∧ toDecimal e = some (valOf e) ∧
      arrayMax (.arr t (x :: rest)) = .ok (.num (.dec (valOf e))) ∧
      (∀ a ∈ x :: rest, Dec.compare (valOf a) (valOf e) ≤ 0) ∧
      (∀ p ∈ pre, Dec.compare (valOf p) (valOf e) < 0) := by
  have hm := decimals_eq_map hd
  have hn' : ∀ d ∈ ds, d.isNaN = false := by
    intro d hd'
    rw [hm] at hd'
    obtain ⟨e, he, rfl⟩ := List.mem_map.mp hd'
    exact hn e he
  rw [arrayMax_numbers_eq hx, hd]
  rw [hm] at hn' ⊢
  simp only [List.map_cons] at hn' ⊢
  rw [decsOrderFree_of_nanfree hn']
  simp only [Bool.not_true, Bool.and_false, Bool.false_eq_true, if_false]
  obtain ⟨pre, post, h1, h2, h3⟩ := maxDec_spec (valOf x) (rest.map valOf)
  have h3 := h3 hn'
  rw [← List.map_cons] at h1
  obtain ⟨pre', r', e1, e2, e3⟩ := List.map_eq_append_iff.mp h1
  obtain ⟨e, post', e4, e5, e6⟩ := List.map_eq_cons_iff.mp e3
  refine ⟨pre', e, post', by rw [e1, e4], toDecimal_of_allDecimals hd e (by rw [e1, e4]; simp), by rw [e5], ?_, ?_⟩
  · intro a ha
    have hmem : valOf a ∈ valOf x :: rest.map valOf := by
      rw [← List.map_cons]; exact List.mem_map.mpr ⟨a, ha, rfl⟩
    rw [e5, ← Dec.greater_eq_false_iff (hn a ha) (by rw [← e5]; exact hn e (by rw [e1, e4]; simp))]
    exact h2 _ hmem
  · intro p hp
    have hpm : valOf p ∈ pre := by rw [← e2]; exact List.mem_map.mpr ⟨p, hp, rfl⟩
    have := (Dec.greater_iff _ _).mp (h3 _ hpm)
    rw [e5, Dec.compare_antisymm, this.2.2]
    decide

/-- **`min` without NaN**, dually: the decimal value of the first least element. -/
theorem arrayMin_nanfree {t : ATag} {x : Val} {rest : List Val} {ds : List Dec} (hx : ¬ IsStr x)
    (hd : allDecimals (x :: rest) = some ds) (hn : ∀ e ∈ x :: rest, (valOf e).isNaN = false) :
    ∃ pre e post, x :: rest = pre ++ e :: post ∧ toDecimal e = some (valOf e) ∧
      arrayMin (.arr t (x :: rest)) = .ok (.num (.dec (valOf e))) ∧
      (∀ a ∈ x :: rest, Dec.compare (valOf e) (valOf a) ≤ 0) ∧
      (∀ p ∈ pre, Dec.compare (valOf e) (valOf p) < 0) := by
  have hm := decimals_eq_map hd
  have hn' : ∀ d ∈ ds, d.isNaN = false := by
    intro d hd'
    rw [hm] at hd'
    obtain ⟨e, he, rfl⟩ := List.mem_map.mp hd'
    exact hn e he
  rw [arrayMin_numbers_eq hx, hd]
  rw [hm] at hn' ⊢
  simp only [List.map_cons] at hn' ⊢
  rw [decsOrderFree_of_nanfree hn']
  simp only [Bool.not_true, Bool.and_false, Bool.false_eq_true, if_false]
  obtain ⟨pre, post, h1, h2, h3⟩ := minDec_spec (valOf x) (rest.map valOf)
  have h3 := h3 hn'
  rw [← List.map_cons] at h1
  obtain ⟨pre', r', e1, e2, e3⟩ := List.map_eq_append_iff.mp h1
  obtain ⟨e, post', e4, e5, e6⟩ := List.map_eq_cons_iff.mp e3
  refine ⟨pre', e, post', by rw [e1, e4], toDecimal_of_allDecimals hd e (by rw [e1, e4]; simp), by rw [e5], ?_, ?_⟩
  · intro a ha
    have hmem : valOf a ∈ valOf x :: rest.map valOf := by
      rw [← List.map_cons]; exact List.mem_map.mpr ⟨a, ha, rfl⟩
    rw [e5, ← Dec.less_eq_false_iff (hn a ha) (by rw [← e5]; exact hn e (by rw [e1, e4]; simp))]
    exact h2 _ hmem
  · intro p hp
    have hpm : valOf p ∈ pre := by rw [← e2]; exact List.mem_map.mpr ⟨p, hp, rfl⟩
    have := (Dec.less_iff _ _).mp (h3 _ hpm)
    rw [e5, this.2.2]
    decide

/-- `max([1, 2, 1.0])` is the decimal 2; no NaN is involved -/
example : ∃ pre e post, [one, two, onePt] = pre ++ e :: post ∧ toDecimal e = some (valOf e) ∧
      arrayMax (.arr .enum [one, two, onePt]) = .ok (.num (.dec (valOf e))) ∧
      (∀ a ∈ [one, two, onePt], Dec.compare (valOf a) (valOf e) ≤ 0) ∧
      (∀ p ∈ pre, Dec.compare (valOf p) (valOf e) < 0) :=
  arrayMax_nanfree (ds := [.fin false 1 0, .fin false 2 0, .fin false 1 0]) not_isStr_one
    (by simp [allDecimals, toDecimal_one, toDecimal_onePt, toDecimal_two])
    (by simp [valOf, toDecimal_one, toDecimal_onePt, toDecimal_two, Dec.isNaN])
/-- the result of `max` on numbers is a decimal, not the `json.Number` element it came from -/
example : arrayMax (.arr .plain [one]) = .ok (.num (.dec (.fin false 1 0))) := by
  simp [arrayMax, one, allDecimals, td1, enum2, decsOrderFree, maxDec]


/-! ## C. `max_by` / `min_by` return an ELEMENT of the array: the first extremal one

  Go keeps `index` and replaces it only on a strictly greater (smaller) key, and returns `a[index]`: the element at
  the smallest index whose key is extremal. -/

theorem zip_decomp_index {xs : List Val} {ks : List Key} {pre post : List (Val × Key)} {v : Val} {k : Key}
    (hlen : ks.length = xs.length) (e : xs.zip ks = pre ++ (v, k) :: post) :
    ∃ (hi : pre.length < xs.length) (hk : pre.length < ks.length), xs[pre.length] = v ∧ ks[pre.length] = k ∧
      (∀ j (hj : j < pre.length), (xs[j], ks[j]) ∈ pre) := by
  have hl : (xs.zip ks).length = pre.length + 1 + post.length := by rw [e]; simp; omega
  rw [List.length_zip, hlen, Nat.min_self] at hl
  have hi : pre.length < xs.length := by omega
  have hk : pre.length < ks.length := by omega
  have hz : pre.length < (xs.zip ks).length := by rw [List.length_zip]; omega
  have h1 : (xs.zip ks)[pre.length] = (v, k) := by
    simp only [e]
    rw [List.getElem_append_right (Nat.le_refl _)]
    simp
  rw [List.getElem_zip] at h1
  refine ⟨hi, hk, congrArg Prod.fst h1, congrArg Prod.snd h1, ?_⟩
  intro j hj
  have hz' : j < (xs.zip ks).length := by rw [List.length_zip]; omega
  have h2 : (xs.zip ks)[j] = pre[j] := by
    simp only [e]
    rw [List.getElem_append_left hj]
  rw [List.getElem_zip] at h2
  rw [h2]
  exact List.getElem_mem _

/-- **`max_by` returns the first element with a maximal key.** When `max_by` answers `v` on a non-empty array (any
    tag), there is an index `i` with `v = xs[i]` such that no key is greater than `ks[i]`, and (no NaN key) every
    earlier key is strictly smaller. -/
theorem arrayMaxBy_first {f : Val → Res Val} {t : ATag} {xs : List Val} {v : Val} (hne : xs ≠ [])
    (h : arrayMaxBy f (.arr t xs) = .ok v) :
    ∃ ks, keysOf f xs = .ok ks ∧ ks.length = xs.length ∧
      ∃ (i : Nat) (hi : i < xs.length) (hk : i < ks.length), v = xs[i] ∧
        (∀ (j : Nat) (hj : j < ks.length), Key.gtMax ks[j] ks[i] = false) ∧
        ((∀ k' ∈ ks, k'.notNaN) → ∀ (j : Nat) (hj : j < i), Key.gtMax ks[i] (ks[j]'(by omega)) = true) := by
  obtain ⟨ks, hks, hlen, pre, post, k, e, -, hmax, hfirst⟩ := arrayMaxBy_spec hne h
  obtain ⟨hi, hk, e1, e2, hpre⟩ := zip_decomp_index hlen e
  refine ⟨ks, hks, hlen, pre.length, hi, hk, e1.symm, ?_, ?_⟩
  · intro j hj
    have hjx : j < xs.length := by omega
    have hm : (xs[j], ks[j]) ∈ xs.zip ks := by
      have hz : j < (xs.zip ks).length := by rw [List.length_zip]; omega
      have := List.getElem_mem hz
      rwa [List.getElem_zip] at this
    rw [e2]
    exact hmax _ hm
  · intro hn j hj
    rw [e2]
    exact hfirst hn _ (hpre j hj)

/-- **`min_by` returns the first element with a minimal key.** -/
theorem arrayMinBy_first {f : Val → Res Val} {t : ATag} {xs : List Val} {v : Val} (hne : xs ≠ [])
    (h : arrayMinBy f (.arr t xs) = .ok v) :
    ∃ ks, keysOf f xs = .ok ks ∧ ks.length = xs.length ∧
      ∃ (i : Nat) (hi : i < xs.length) (hk : i < ks.length), v = xs[i] ∧
        (∀ (j : Nat) (hj : j < ks.length), Key.ltMin ks[j] ks[i] = false) ∧
        ((∀ k' ∈ ks, k'.notNaN) → ∀ (j : Nat) (hj : j < i), Key.ltMin ks[i] (ks[j]'(by omega)) = true) := by
  obtain ⟨ks, hks, hlen, pre, post, k, e, -, hmax, hfirst⟩ := arrayMinBy_spec hne h
  obtain ⟨hi, hk, e1, e2, hpre⟩ := zip_decomp_index hlen e
  refine ⟨ks, hks, hlen, pre.length, hi, hk, e1.symm, ?_, ?_⟩
  · intro j hj
    have hjx : j < xs.length := by omega
    have hm : (xs[j], ks[j]) ∈ xs.zip ks := by
      have hz : j < (xs.zip ks).length := by rw [List.length_zip]; omega
      have := List.getElem_mem hz
      rwa [List.getElem_zip] at this
    rw [e2]
    exact hmax _ hm
  · intro hn j hj
    rw [e2]
    exact hfirst hn _ (hpre j hj)

/-- `max_by(@, &@[0])` on `[[1,"a"], [2,"b"], [2.0,"c"]]`-like input: keys 1, 2, 2 — the element at index 1 -/
example : arrayMaxBy headKey (.arr .plain [pr (iv 1) 0, pr (iv 2) 1, pr (iv 2) 2]) = .ok (pr (iv 2) 1) := rfl
example : ∃ ks, keysOf headKey [pr (iv 1) 0, pr (iv 2) 1, pr (iv 2) 2] = .ok ks ∧ ks.length = 3 ∧
      ∃ (i : Nat) (hi : i < 3) (hk : i < ks.length), pr (iv 2) 1 = [pr (iv 1) 0, pr (iv 2) 1, pr (iv 2) 2][i] ∧
        (∀ (j : Nat) (hj : j < ks.length), Key.gtMax ks[j] ks[i] = false) ∧
        ((∀ k' ∈ ks, k'.notNaN) → ∀ (j : Nat) (hj : j < i), Key.gtMax ks[i] (ks[j]'(by omega)) = true) :=
  arrayMaxBy_first (f := headKey) (t := .plain) (by simp) rfl


/-! ## D. mixed-type errors of `sort_by` / `max_by` / `min_by` for every array tag

  For a map-ordered array (`enum`, ≥ 2 elements) the model widens an error to every category some element could
  produce, plus invalid-type (and answers `nondet` when some key evaluation is neither a value nor an error). When every key evaluation succeeds the only candidate is invalid-type, so the outcome is
  the same definite error as for a plain array. -/

theorem dedup_pair (c : Cat) : Cat.dedup [c, c] = [c] := by simp [Cat.dedup]

theorem mem_dedup {c : Cat} : ∀ {l : List Cat}, c ∈ Cat.dedup l ↔ c ∈ l
  | [] => by simp [Cat.dedup]
  | a :: l => by
    simp only [Cat.dedup]
    split
    · rename_i h
      rw [mem_dedup (l := l), List.mem_cons]
      constructor
      · exact .inr
      · rintro (rfl | h')
        · simpa using h
        · exact h'
    · rw [List.mem_cons, List.mem_cons, mem_dedup (l := l)]

/-- widening an invalid-type error over elements whose key evaluations all succeed changes nothing -/
theorem widen_invalidType_of_ok {α} {t : ATag} {xs : List Val} {f : Val → Res Val}
    (hall : ∀ x ∈ xs, ∃ v, f x = .ok v) :
    widen (α := α) t xs [f] [Cat.invalidType] (.err [Cat.invalidType]) = .err [Cat.invalidType] := by
  simp only [widen]
  split
  · rw [if_neg]
    · have : ∀ l : List Cat, l = [] →
          (Res.err (Cat.dedup ([Cat.invalidType] ++ [Cat.invalidType] ++ l)) : Res α) = .err [Cat.invalidType] := by
        intro l hl; subst hl; rfl
      apply this
      rw [List.flatMap_eq_nil_iff]
      intro x hx
      obtain ⟨v, hv⟩ := hall x hx
      simp [hv]
    · rw [Bool.not_eq_true, List.any_eq_false]
      intro x hx
      obtain ⟨v, hv⟩ := hall x hx
      simp [hv]
  · rfl

/-- `sort_by` with keys of mixed type, all key evaluations succeeding: invalid-type for EVERY tag and length ≥ 1 -/
theorem sortArrayBy_mixed_error_any {f : Val → Res Val} {t : ATag} {x0 v0 : Val} {rest : List Val}
    (h0 : f x0 = .ok v0) (hall : ∀ x ∈ rest, ∃ v, f x = .ok v)
    (hmix : (IsStr v0 ∧ ∃ x ∈ rest, ∃ v, f x = .ok v ∧ ¬ IsStr v) ∨
            ((∃ d, toDecimal v0 = some d) ∧ ∃ x ∈ rest, ∃ v, f x = .ok v ∧ toDecimal v = none) ∨
            (¬ IsStr v0 ∧ toDecimal v0 = none)) :
    sortArrayBy f (.arr t (x0 :: rest)) = .err [Cat.invalidType] := by
  have hk : keysOf f (x0 :: rest) = .err [Cat.invalidType] := by
    rcases hmix with ⟨⟨s, rfl⟩, hb⟩ | ⟨⟨d, hd⟩, hb⟩ | ⟨hs, hd⟩
    · exact keysOf_str_mixed h0 hall hb
    · exact keysOf_num_mixed h0 hd hall hb
    · exact keysOf_bad_first h0 hs hd
  have hall' : ∀ x ∈ x0 :: rest, ∃ v, f x = .ok v := by
    intro x hx
    rcases List.mem_cons.mp hx with rfl | hx
    · exact ⟨_, h0⟩
    · exact hall x hx
  unfold sortArrayBy
  simp only [List.isEmpty_cons, Bool.false_eq_true, if_false]
  rw [hk]
  exact widen_invalidType_of_ok hall'

/-- the same for `max_by` and `min_by` -/
theorem arrayPickBy_mixed_error_any {better} {f : Val → Res Val} {t : ATag} {x0 v0 : Val} {rest : List Val}
    (h0 : f x0 = .ok v0) (hall : ∀ x ∈ rest, ∃ v, f x = .ok v)
    (hmix : (IsStr v0 ∧ ∃ x ∈ rest, ∃ v, f x = .ok v ∧ ¬ IsStr v) ∨
            ((∃ d, toDecimal v0 = some d) ∧ ∃ x ∈ rest, ∃ v, f x = .ok v ∧ toDecimal v = none) ∨
            (¬ IsStr v0 ∧ toDecimal v0 = none)) :
    arrayPickBy better f (.arr t (x0 :: rest)) = .err [Cat.invalidType] := by
  have hk : keysOf f (x0 :: rest) = .err [Cat.invalidType] := by
    rcases hmix with ⟨⟨s, rfl⟩, hb⟩ | ⟨⟨d, hd⟩, hb⟩ | ⟨hs, hd⟩
    · exact keysOf_str_mixed h0 hall hb
    · exact keysOf_num_mixed h0 hd hall hb
    · exact keysOf_bad_first h0 hs hd
  have hall' : ∀ x ∈ x0 :: rest, ∃ v, f x = .ok v := by
    intro x hx
    rcases List.mem_cons.mp hx with rfl | hx
    · exact ⟨_, h0⟩
    · exact hall x hx
  unfold arrayPickBy
  simp only
  rw [hk]
  exact widen_invalidType_of_ok hall'

/-- every key evaluation is settled: a value or an error (not `nondet`, `panic`, `unmodelled`) -/
def KeysSettled (f : Val → Res Val) (xs : List Val) : Prop :=
  ∀ x ∈ xs, (∃ v, f x = .ok v) ∨ (∃ c, f x = .err c)

theorem widen_err_settled {α} {t : ATag} {xs : List Val} {f : Val → Res Val} {extra cs : List Cat}
    (hs : KeysSettled f xs) :
    widen (α := α) t xs [f] extra (.err cs) ≠ .nondet := by
  simp only [widen]
  split
  · split
    · rename_i h
      rw [List.any_eq_true] at h
      obtain ⟨x, hx, h⟩ := h
      rcases hs x hx with ⟨v, hv⟩ | ⟨c, hc⟩
      · simp [hv] at h
      · simp [hc] at h
    · intro h; cases h
  · intro h; cases h

theorem widen_err_unsettled {α} {t : ATag} {xs : List Val} {f : Val → Res Val} {extra cs : List Cat}
    (he : enum2 t xs = true) (hs : ¬ KeysSettled f xs) :
    widen (α := α) t xs [f] extra (.err cs) = .nondet := by
  simp only [widen, he, if_true]
  split
  · rfl
  · rename_i h
    exfalso
    apply hs
    intro x hx
    cases hfx : f x with
    | ok v => exact .inl ⟨v, rfl⟩
    | err c => exact .inr ⟨c, rfl⟩
    | _ => exact absurd (List.any_eq_true.mpr ⟨x, hx, by simp [hfx]⟩) h

theorem widen_err_enum {α} {t : ATag} {xs : List Val} {f : Val → Res Val} {extra cs : List Cat}
    (he : enum2 t xs = true) (hs : KeysSettled f xs) :
    ∃ c', widen (α := α) t xs [f] extra (.err cs) = .err c' ∧ (∀ x ∈ cs, x ∈ c') ∧ (∀ x ∈ extra, x ∈ c') := by
  have hn := widen_err_settled (α := α) (t := t) (extra := extra) (cs := cs) hs
  simp only [widen, he, if_true] at hn ⊢
  split
  · rename_i h; rw [if_pos h] at hn; exact absurd rfl hn
  refine ⟨_, rfl, ?_, ?_⟩
  · intro y hy
    rw [mem_dedup]
    simp [hy]
  · intro y hy
    rw [mem_dedup]
    simp [hy]

/-- In general (some key evaluations may fail too, but each is a value or an error — for a map-ordered array with a
    key evaluation that is not settled the model answers `nondet`, see `sortArrayBy_keys_err_unsettled`): whatever
    error the key scan hits, the outcome for any tag is an error whose category set contains it; for a map-ordered
    array it also contains invalid-type. -/
theorem sortArrayBy_keys_err_any {f : Val → Res Val} {t : ATag} {xs : List Val} {c : List Cat} (hne : xs ≠ [])
    (hk : keysOf f xs = .err c) (hs : enum2 t xs = true → KeysSettled f xs) :
    ∃ c', sortArrayBy f (.arr t xs) = .err c' ∧ (∀ x ∈ c, x ∈ c') ∧
      (enum2 t xs = false → c' = c) ∧ (enum2 t xs = true → Cat.invalidType ∈ c') := by
  unfold sortArrayBy
  cases xs with
  | nil => exact absurd rfl hne
  | cons x xs =>
    simp only [List.isEmpty_cons, Bool.false_eq_true, if_false]
    rw [hk]
    cases he : enum2 t (x :: xs) with
    | false =>
      refine ⟨c, ?_, fun _ h => h, fun _ => rfl, fun h => by cases h⟩
      simp [widen, he, Res.bind, bind]
    | true =>
      obtain ⟨c', h1, h2, h3⟩ := widen_err_enum (α := Val) (extra := [Cat.invalidType]) (cs := c) he (hs he)
      exact ⟨c', h1, h2, (fun h => Bool.noConfusion h), (fun _ => h3 _ (by simp))⟩

theorem arrayPickBy_keys_err_any {better} {f : Val → Res Val} {t : ATag} {xs : List Val} {c : List Cat}
    (hne : xs ≠ []) (hk : keysOf f xs = .err c) (hs : enum2 t xs = true → KeysSettled f xs) :
    ∃ c', arrayPickBy better f (.arr t xs) = .err c' ∧ (∀ x ∈ c, x ∈ c') ∧
      (enum2 t xs = false → c' = c) ∧ (enum2 t xs = true → Cat.invalidType ∈ c') := by
  unfold arrayPickBy
  cases xs with
  | nil => exact absurd rfl hne
  | cons x xs =>
    simp only
    rw [hk]
    cases he : enum2 t (x :: xs) with
    | false =>
      refine ⟨c, ?_, fun _ h => h, fun _ => rfl, fun h => by cases h⟩
      simp [widen, he, Res.bind, bind]
    | true =>
      obtain ⟨c', h1, h2, h3⟩ := widen_err_enum (α := Val) (extra := [Cat.invalidType]) (cs := c) he (hs he)
      exact ⟨c', h1, h2, (fun h => Bool.noConfusion h), (fun _ => h3 _ (by simp))⟩

/-- the key scan hits an error on a map-ordered array and some key evaluation is not settled (it is `nondet`,
    `panic` or `unmodelled`): that element may be the first to fail under another enumeration order, with a category
    the model cannot name, so the model answers `nondet` -/
theorem sortArrayBy_keys_err_unsettled {f : Val → Res Val} {t : ATag} {xs : List Val} {c : List Cat}
    (hk : keysOf f xs = .err c) (he : enum2 t xs = true) (hs : ¬ KeysSettled f xs) :
    sortArrayBy f (.arr t xs) = .nondet := by
  unfold sortArrayBy
  cases xs with
  | nil => simp [enum2] at he
  | cons x xs =>
    simp only [List.isEmpty_cons, Bool.false_eq_true, if_false]
    rw [hk]
    exact widen_err_unsettled he hs

theorem arrayPickBy_keys_err_unsettled {better} {f : Val → Res Val} {t : ATag} {xs : List Val} {c : List Cat}
    (hk : keysOf f xs = .err c) (he : enum2 t xs = true) (hs : ¬ KeysSettled f xs) :
    arrayPickBy better f (.arr t xs) = .nondet := by
  unfold arrayPickBy
  cases xs with
  | nil => simp [enum2] at he
  | cons x xs =>
    simp only
    rw [hk]
    exact widen_err_unsettled he hs

/-- a key function whose outcome on `null` is not settled -/
def nullNondetKey : Val → Res Val := fun x => match x with | .null => .nondet | x => .ok x

example : sortArrayBy nullNondetKey (.arr .enum [sv 0x61, iv 1, .null]) = .nondet :=
  sortArrayBy_keys_err_unsettled (c := [Cat.invalidType]) rfl rfl
    (fun h => by rcases h .null (by simp) with ⟨v, hv⟩ | ⟨c, hc⟩ <;> simp [nullNondetKey] at *)
example : arrayMaxBy nullNondetKey (.arr .enum [sv 0x61, iv 1, .null]) = .nondet :=
  arrayPickBy_keys_err_unsettled (c := [Cat.invalidType]) rfl rfl
    (fun h => by rcases h .null (by simp) with ⟨v, hv⟩ | ⟨c, hc⟩ <;> simp [nullNondetKey] at *)
/-- for a plain array the same scan is the definite error -/
example : sortArrayBy nullNondetKey (.arr .plain [sv 0x61, iv 1, .null]) = .err [Cat.invalidType] := rfl

example : sortArrayBy idKey (.arr .enum [sv 0x61, sv 0x62, iv 1]) = .err [Cat.invalidType] :=
  sortArrayBy_mixed_error_any (v0 := sv 0x61) rfl (by intro x _; exact ⟨x, rfl⟩)
    (.inl ⟨⟨_, rfl⟩, iv 1, by simp, iv 1, rfl, by rintro ⟨s, h⟩; cases h⟩)
example : arrayMaxBy idKey (.arr .enum [iv 1, iv 2, .null]) = .err [Cat.invalidType] :=
  arrayPickBy_mixed_error_any (v0 := iv 1) rfl (by intro x _; exact ⟨x, rfl⟩)
    (.inr (.inl ⟨⟨_, rfl⟩, .null, by simp, .null, rfl, rfl⟩))
example : arrayMinBy idKey (.arr .enum [.bool true, iv 2]) = .err [Cat.invalidType] :=
  arrayPickBy_mixed_error_any (v0 := .bool true) rfl (by intro x _; exact ⟨x, rfl⟩)
    (.inr (.inr ⟨(by rintro ⟨s, h⟩; cases h), rfl⟩))


/-! ## E. stability of `sort_by` as a statement about positions

  `sortByKeys_stable'` says that `[xs[i], xs[j]]` is a subsequence of the result; when the array holds the same
  value twice this does not pin down *which occurrence* went where. Here the result is described by the index
  permutation `σ` (`result[p] = xs[σ[p]]`), and stability reads: for `i < j` with `ks[j]` not smaller than `ks[i]`
  (in particular equal keys) the position of `i` in `σ` is smaller than the position of `j`. -/

theorem idxOf_lt_of_pair_sublist {a b : Nat} : ∀ {l : List Nat}, l.Nodup → [a, b].Sublist l →
    l.idxOf a < l.idxOf b
  | [], _, h => by cases h
  | c :: l, hn, h => by
    have hc : c ∉ l := (List.nodup_cons.mp hn).1
    cases h with
    | cons _ h' =>
      have ha : a ∈ l := h'.subset (by simp)
      have hb : b ∈ l := h'.subset (by simp)
      have hca : c ≠ a := fun e => hc (e ▸ ha)
      have hcb : c ≠ b := fun e => hc (e ▸ hb)
      have := idxOf_lt_of_pair_sublist (List.nodup_cons.mp hn).2 h'
      have e1 : (c == a) = false := by simpa using hca
      have e2 : (c == b) = false := by simpa using hcb
      rw [List.idxOf_cons, List.idxOf_cons, e1, e2]
      simp only [cond_false]
      omega
    | cons_cons _ h' =>
      have hb : b ∈ l := h'.subset (by simp)
      have hcb : a ≠ b := fun e => hc (e ▸ hb)
      have e2 : (a == b) = false := by simpa using hcb
      rw [List.idxOf_cons, List.idxOf_cons, e2]
      simp

/-- the comparator of `sortByKeys` lifted to (pair, index) triples -/
abbrev leI (a b : (Val × Key) × Nat) : Bool := le a.1 b.1

/-- **Stability of `sort_by`, by positions, for arrays of any length.** There is a permutation `σ` of the indices
    `0 … n-1` such that
    * the result is `xs` read in the order `σ`,
    * the keys read in the order `σ` never decrease, and
    * whenever `i < j` and `ks[j]` is not smaller than `ks[i]` — in particular when the two keys are equal —
      index `i` occurs in `σ` before index `j`: the element originally at `i` is placed before the element
      originally at `j`. -/
theorem sortByKeys_stable_positions (xs : List Val) (ks : List Key) (hlen : xs.length = ks.length)
    (hh : Key.Homog ks) :
    ∃ σ : List Nat, σ.Perm (List.range xs.length) ∧
      sortByKeys xs ks = σ.map (fun i => xs.getD i .null) ∧
      (σ.map (fun i => ks.getD i (Key.s []))).Pairwise (fun a b => Key.lt b a = false) ∧
      ∀ (i j : Nat) (hij : i < j) (hj : j < ks.length), Key.lt ks[j] ks[i] = false → σ.idxOf i < σ.idxOf j := by
  let T := (xs.zip ks).zipIdx
  have hTfst : T.map Prod.fst = xs.zip ks := List.zipIdx_map_fst 0 _
  have hzl : (xs.zip ks).length = xs.length := by rw [List.length_zip]; omega
  have hmap : (T.mergeSort leI).map Prod.fst = (xs.zip ks).mergeSort le := by
    rw [List.map_mergeSort (s := le) (f := Prod.fst) (fun a _ b _ => rfl), hTfst]
  have hmemT : ∀ p ∈ T.mergeSort leI, (xs.zip ks)[p.2]? = some p.1 := by
    intro p hp
    rw [List.mem_mergeSort] at hp
    exact List.mem_zipIdx_iff_getElem?.mp hp
  -- agreement of `leI` with a total preorder on the members of `T`
  have hag : ∀ a ∈ T, ∀ b ∈ T, leI a b = leT a.1 b.1 := by
    intro a ha b hb
    have ha' : a.1 ∈ xs.zip ks := by rw [← hTfst]; exact List.mem_map.mpr ⟨a, ha, rfl⟩
    have hb' : b.1 ∈ xs.zip ks := by rw [← hTfst]; exact List.mem_map.mpr ⟨b, hb, rfl⟩
    exact le_agree hh a.1 ha' b.1 hb'
  refine ⟨(T.mergeSort leI).map Prod.snd, ?_, ?_, ?_, ?_⟩
  · refine ((List.mergeSort_perm T leI).map Prod.snd).trans ?_
    have : T.map Prod.snd = List.range' 0 (xs.zip ks).length := List.zipIdx_map_snd 0 _
    rw [this, hzl, List.range_eq_range']
  · unfold sortByKeys
    rw [← hmap, List.map_map, List.map_map]
    apply List.map_congr_left
    intro p hp
    have := hmemT p hp
    rw [List.getElem?_eq_some_iff] at this
    obtain ⟨hlt, e⟩ := this
    rw [List.getElem_zip] at e
    simp only [Function.comp]
    rw [← e]
    simp only
    rw [List.getD_eq_getElem?_getD, List.getElem?_eq_getElem]
    rfl
  · have hs := sortByKeys_sorted xs ks hh
    rw [← hmap, List.pairwise_map] at hs
    rw [List.map_map, List.pairwise_map]
    refine hs.imp_of_mem ?_
    intro p q hp hq hpq
    have e1 := hmemT p hp
    have e2 := hmemT q hq
    rw [List.getElem?_eq_some_iff] at e1 e2
    obtain ⟨h1, e1⟩ := e1
    obtain ⟨h2, e2⟩ := e2
    rw [List.getElem_zip] at e1 e2
    have k1 : ks.getD p.2 (Key.s []) = p.1.2 := by
      rw [List.getD_eq_getElem?_getD, List.getElem?_eq_getElem, ← e1]; rfl
    have k2 : ks.getD q.2 (Key.s []) = q.1.2 := by
      rw [List.getD_eq_getElem?_getD, List.getElem?_eq_getElem, ← e2]; rfl
    simp only [Function.comp, k1, k2]
    simpa [le] using hpq
  · intro i j hij hj hle
    have hnd : ((T.mergeSort leI).map Prod.snd).Nodup := by
      have hp : ((T.mergeSort leI).map Prod.snd).Perm (List.range' 0 (xs.zip ks).length) := by
        refine ((List.mergeSort_perm T leI).map Prod.snd).trans ?_
        rw [List.zipIdx_map_snd 0 _]
      exact hp.nodup_iff.mpr List.nodup_range'
    apply idxOf_lt_of_pair_sublist hnd
    have hjT : j < T.length := by rw [List.length_zipIdx, hzl]; omega
    have hsub := getElem_pair_sublist T i j hij hjT
    have hTi : ∀ (n : Nat) (hn : n < T.length), T[n] = ((xs.zip ks)[n]'(by rw [List.length_zipIdx] at hn; exact hn), n) := by
      intro n hn
      rw [List.getElem_zipIdx]
      simp
    have hsorted : [T[i]'(by omega), T[j]].Pairwise (fun a b => leI a b = true) := by
      rw [List.pairwise_pair, hTi, hTi]
      simp only [leI, le, List.getElem_zip, hle, Bool.not_false]
    have := sublist_mergeSort_of_agree hag (fun a b c => leT_trans a.1 b.1 c.1) (fun a b => leT_total a.1 b.1)
      hsorted hsub
    have := this.map Prod.snd
    rw [hTi, hTi] at this
    simpa using this

/-- on the 16-element example of C13 (two distinct keys, above the insertion-sort threshold): indices 0 and 14
    both carry key 1, and index 0 is placed before index 14 -/
example : ∃ σ : List Nat, σ.Perm (List.range 16) ∧ sortByKeys xs16 ks16 = σ.map (fun i => xs16.getD i .null) ∧
    σ.idxOf 0 < σ.idxOf 14 := by
  obtain ⟨σ, h1, h2, -, h4⟩ := sortByKeys_stable_positions xs16 ks16 rfl ks16_homog
  exact ⟨σ, h1, h2, h4 0 14 (by decide) (by decide) (by simp [ks16, kn_lt])⟩

end Jmes.C13B
