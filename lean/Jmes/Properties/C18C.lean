/-
  Property C18, third pass — "For JSON input every result … serialises with encoding/json, and is itself acceptable
  as input.  Searching e2 over the result of searching e1 equals searching `e1 | e2` over the original document, for
  every e2 that does not mention the root node or outer variables."

  A. **RE-READING THE MARSHALLED RESULT** (`marshal_decode`, `marshal_decode_equal`, `json_result_roundtrip`,
     `json_result_roundtrip_equal`).  `C18B` only showed `∃ b, Json.encode r = .ok b`.  Here: the text `json.Marshal`
     writes for a result `r` DENOTES (relation `C16C.Den`, independent of the decoder) the value `reread r` — `r` with
     every Go integer / decimal replaced by the `json.Number` holding its printed text, arrays as plain slices — hence
     (`C16C.decode_den`) Go's decoder reads it back as `reread r`, and `reread r == r` in the evaluator's own sense
     (`equal`).  The encoder's HTML escaping (`<`, `>`, `&`, U+2028, U+2029 as `\uXXXX`) and its short escapes are undone
     by the decoder (`C18CR.encString_den`).  For results of searches over JSON input all structural side conditions
     are DERIVED (plain, no float/foreign value, valid UTF-8, key-sorted objects: `json_result_wf`); what remains as
     hypotheses, and why:
       * `r.NoEnum`: no array of the result got its order from ranging over a Go map (then Go's output order is not
         determined; C15 gives `NoEnum` for enumeration-free expressions);
       * `C16B.dp r ≤ 10000`: Go's decoder refuses deeper texts, while `json.Marshal` does not
         (`marshal_too_deep_not_reread`: a FINDING — `[@]` over a document nested 10000 deep serialises but the text is
         not acceptable as input);
       * for `equal`: every `json.Number` of the result is in decimal128's range (`Num.Valued`; otherwise the number
         is not even equal to itself: `C18CR.equal_self_false_range`, a FINDING, Go agrees), decimals and integers are
         values of their Go types (`DecInFormat`, `IntKind.InRange`: representation invariants of the model).
  B. **THE PIPE LAW WHEN `e1` FAILS** (`search_pipe_bind`, `search_pipe_fail`, …): under the side conditions of
     `C18B.search_pipe` the law is one equation `search (e1|e2) d = search e1 d >>= search e2`; if `e1` fails, `e1|e2`
     fails in the same way.
  C. **WHAT "EXACTLY WHEN `PipeSafe`" MEANS** (`pipe_landing`, `pipeSafe_iff_no_operator`, `pipe_law_of_safe`,
     `pipe_law_fails`, `pipe_law_fails_and`, `pipe_law_fails_or`, `unsafe_cases`, `pipeSafe_not_necessary`): for every
     well-formed `e1` the parser reads `e1|e2` with the `|` at the LANDING position of `e1`'s tree; `PipeSafe` says that
     no `!`, sign or binary operator other than `|` lies above that position.  It is sufficient for the law, necessary
     for the shape of the tree, and — with a proved exception for `&&` / `||` whose left operand decides — necessary
     for the equality of results.
-/
import Jmes.Proofs.C18CRoundtripEq
import Jmes.Proofs.C18CPipe
import Jmes.Proofs.C18CSorted
import Jmes.Proofs.C11BValidLemmas2
import Jmes.Properties.C16C
namespace Jmes.C18C
open Jmes Jmes.Grammar Jmes.Pratt Jmes.C18BGraft Jmes.C18B Jmes.C18CR Jmes.C18CP

/-! ## A. re-reading the marshalled result -/

/-- **what `json.Marshal` writes denotes the re-read value**: for a well-formed result `r` (`WF`: strings and keys valid
    UTF-8, numbers valid `json.Number`s / finite decimals / integers, plain arrays, key-sorted objects) the marshalled
    text is a JSON value text that denotes `reread r`, in the sense of the decoder-independent relation `C16C.Den` -/
theorem marshal_denotes {r : Val} (hw : WF r) {b : Bytes} (hb : Json.encode r = .ok b) :
    C16C.Den (C16B.dp r) b (reread r) := den_encode r hw b hb

/-- **C18 ("serialises … and is itself acceptable as input")**: a well-formed result nested at most 10000 deep marshals,
    and Go's decoder (with `UseNumber`) reads the text back as `reread r` -/
theorem marshal_decode {r : Val} (hw : WF r) (hd : C16B.dp r ≤ 10000) :
    ∃ b, Json.encode r = .ok b ∧ Json.decode b = some (reread r) := roundtrip hw hd

/-- … and the value read back is EQUAL to the result in the evaluator's sense (`==`), provided the numbers of the
    result are values of their Go types (`GoodNum`: a `json.Number` that `decimal128.Parse` accepts, a decimal with
    coefficient and exponent inside decimal128's format, an integer inside the range of its kind) -/
theorem marshal_decode_equal {r : Val} (hw : WF r) (hn : NumsAll GoodNum r) (hd : C16B.dp r ≤ 10000) :
    ∃ b r', Json.encode r = .ok b ∧ Json.decode b = some r' ∧ equal r r' = true := roundtrip_equal hw hn hd

/-- `{"<a>": [1, 2.5, "é&"]}` with a Go integer and a decimal: the key is written `"<a>"`, the string
    `"é&"`; both are read back unchanged, the numbers as `json.Number`s -/
example : ∃ b r', Json.encode (.obj [([0x3C, 0x61, 0x3E],
      .arr .plain [.num (.int .i64 1), .num (.dec (.fin false 25 (-1))), .str [0xC3, 0xA9, 0x26]])]) = .ok b ∧
    Json.decode b = some r' ∧
    equal (.obj [([0x3C, 0x61, 0x3E],
      .arr .plain [.num (.int .i64 1), .num (.dec (.fin false 25 (-1))), .str [0xC3, 0xA9, 0x26]])]) r' = true :=
  marshal_decode_equal (by simp [WF, WFF, WFL, WFNum, Dec.isSpecial]; decide)
    (by
      simp only [NumsAll, NumsAllF, NumsAllL, GoodNum, and_true]
      exact ⟨by simp [IntKind.InRange], decInFormat_fin _ _ _ (by decide) (by decide) (by decide)⟩)
    (by decide)

/-- the result of a search over JSON input is well formed as soon as it is free of map-ordered arrays: plainness
    (C18), `Fin` (C18B), valid UTF-8 (C11B) and key-sortedness of objects (`C18CS`) are invariants of the evaluator and
    hold of everything `encoding/json` decodes -/
theorem json_result_wf {expr s : Bytes} {d r : Val} (hs : Json.decode s = some d) (h : search expr d = .ok r)
    (hne : r.NoEnum = true) : WF r :=
  wf_of_parts r (C18.search_plain (Json.decode_plain hs) h) hne (search_fin (Json.decode_fin hs) h)
    (C11V.search_valid_any (C11V.Json.decode_valid hs) h) (C18CS.json_search_sorted hs h)

/-- **C18, first sentence, end to end**: let `r` be the result of searching any expression over a document decoded
    from JSON text.  If `r` contains no map-ordered array and nests at most 10000 deep, then `json.Marshal r` succeeds,
    the text decodes again, and the decoded value is `reread r`. -/
theorem json_result_roundtrip {expr s : Bytes} {d r : Val} (hs : Json.decode s = some d) (h : search expr d = .ok r)
    (hne : r.NoEnum = true) (hd : C16B.dp r ≤ 10000) :
    ∃ b, Json.encode r = .ok b ∧ Json.decode b = some (reread r) :=
  marshal_decode (json_result_wf hs h hne) hd

/-- … and it is equal to `r` (`==`) when the numbers of `r` are values of their Go types -/
theorem json_result_roundtrip_equal {expr s : Bytes} {d r : Val} (hs : Json.decode s = some d)
    (h : search expr d = .ok r) (hne : r.NoEnum = true) (hn : NumsAll GoodNum r) (hd : C16B.dp r ≤ 10000) :
    ∃ b r', Json.encode r = .ok b ∧ Json.decode b = some r' ∧ equal r r' = true :=
  marshal_decode_equal (json_result_wf hs h hne) hn hd

/-- `abs(@)` over the document `-2.5`: the result is the decimal `2.5`, marshalled as `2.5`, read back as the
    `json.Number` `2.5`, which equals the result -/
example : ∃ b r', Json.encode (.num (.dec (.fin false 25 (-1)))) = .ok b ∧ Json.decode b = some r' ∧
    equal (.num (.dec (.fin false 25 (-1)))) r' = true :=
  json_result_roundtrip_equal (s := [0x2D, 0x32, 0x2E, 0x35]) rfl C18B.abs_result (by decide)
    (decInFormat_fin _ _ _ (by decide) (by decide) (by decide)) (by decide)

/-! ### the two provisos are needed -/

/-- the array nested `n + 1` deep is a well-formed result -/
theorem wf_nest : ∀ n, WF (C16B.nest n)
  | 0 => by simp [C16B.nest, WF, WFL]
  | n + 1 => by simp [C16B.nest, WF, WFL, wf_nest n]

/-- … and `json.Marshal` writes it as `n + 1` opening and `n + 1` closing brackets, whatever `n` -/
theorem encode_nest : ∀ n, Json.encode (C16B.nest n) = .ok (C16B.deepText (n + 1))
  | 0 => by simp [C16B.nest, Json.encode, Json.encodeL, C16B.deepText]
  | n + 1 => by
    have ih := encode_nest n
    simp only [C16B.nest, Json.encode, Json.encodeL, ih, C16B.deepText]
    rw [List.replicate_succ (n := n + 1), List.replicate_succ' (n := n + 1)]
    simp

/-- more than 10000 brackets are refused by the decoder -/
theorem decode_deepText_none (n : Nat) (hn : Json.maxDepth < n) : Json.decode (C16B.deepText n) = none := by
  unfold Json.decode
  rw [C16B.deepText, C16B.parseValue_too_deep n (by omega) _ 0 _ (by omega)]

/-- **FINDING (depth)**: a result nested more than 10000 deep serialises (`json.Marshal` has no depth limit for
    acyclic values) but the text is NOT acceptable as input again — Go's decoder stops at 10000 open containers.
    Such results arise from JSON input: `[@]` over a document nested 10000 deep.  (Here: the array nested 10001 deep.) -/
theorem marshal_too_deep_not_reread :
    WF (C16B.nest 10000) ∧ Json.encode (C16B.nest 10000) = .ok (C16B.deepText 10001) ∧
    Json.decode (C16B.deepText 10001) = none :=
  ⟨wf_nest _, encode_nest _, decode_deepText_none 10001 (by decide)⟩

/-- **FINDING (numbers)**: `json.Number("1e99999")` is plain, `Fin`, enum-free, marshals to its own text and decodes to
    itself — and is not equal to itself (`==` goes through decimal128, which reports a range error).  Go agrees. -/
theorem reread_not_equal_without_range :
    WF (.num (.jnum bigNum)) ∧ Json.encode (.num (.jnum bigNum)) = .ok bigNum ∧
    Json.decode bigNum = some (.num (.jnum bigNum)) ∧ equal (.num (.jnum bigNum)) (.num (.jnum bigNum)) = false :=
  ⟨equal_self_false_range.2.2.2.2.1, equal_self_false_range.2.2.2.2.2.1, equal_self_false_range.2.2.2.2.2.2.1,
    equal_self_false_range.2.2.2.2.2.2.2⟩

/-! ## B. the pipe law when `e1` fails -/

/-- **C18, second sentence, failure included**: for a well-formed tree `T1` of `e1` that is `PipeSafe`, and `e2`
    root-free and closed, `search (e1|e2) d` is `search e1 d` followed by `search e2` on its result — whatever
    `search e1 d` is -/
theorem search_pipe_bind {e1 e2 : Bytes} {T1 : PTree} {n2 : INode}
    (hw : WellPrec T1) (hl1 : lexAll e1 = (Grammar.flatten T1 ++ [endTok], none)) (hs : PipeSafe T1)
    (h2 : compile e2 = .ok n2) (hroot : n2.RootFree = true) (hcl : n2.Closed = true) (d : Val) :
    search (e1 ++ [0x7C] ++ e2) d = (search e1 d >>= fun r => search e2 r) :=
  C18CP.search_pipe_bind hw hl1 hs h2 hroot hcl d

/-- **when `e1` FAILS the failure propagates**: same side conditions; if `search e1 d` is not a value (an error, a
    panic, `nondet`, `unmodelled`), `search (e1|e2) d` is that same outcome -/
theorem search_pipe_fail {e1 e2 : Bytes} {T1 : PTree} {n2 : INode} {d : Val}
    (hw : WellPrec T1) (hl1 : lexAll e1 = (Grammar.flatten T1 ++ [endTok], none)) (hs : PipeSafe T1)
    (h2 : compile e2 = .ok n2) (hroot : n2.RootFree = true) (hcl : n2.Closed = true)
    (h1 : ∀ r, search e1 d ≠ .ok r) : search (e1 ++ [0x7C] ++ e2) d = search e1 d :=
  C18CP.search_pipe_fail hw hl1 hs h2 hroot hcl h1

/-- on bytes only: `e1` compiles and contains no `let` token, `e2` compiles to a root-free node -/
theorem search_pipe_no_let_bind {e1 e2 : Bytes} {n1 n2 : INode}
    (hc : compile e1 = .ok n1) (hnl : ∀ tok ∈ (lexAll e1).1, tok.type ≠ .let)
    (h2 : compile e2 = .ok n2) (hroot : n2.RootFree = true) (d : Val) :
    search (e1 ++ [0x7C] ++ e2) d = (search e1 d >>= fun r => search e2 r) :=
  C18CP.search_pipe_no_let_bind hc hnl h2 hroot d

/-- `(e1)|e2`, for every `e1` that compiles and every root-free `e2` -/
theorem search_pipe_paren_bind {e1 e2 : Bytes} {n1 n2 : INode}
    (hc : compile e1 = .ok n1) (h2 : compile e2 = .ok n2) (hroot : n2.RootFree = true) (d : Val) :
    search (([0x28] ++ e1 ++ [0x29]) ++ [0x7C] ++ e2) d = (search e1 d >>= fun r => search e2 r) :=
  C18CP.search_pipe_paren_bind hc h2 hroot d

/-! ## C. what "exactly when `PipeSafe`" means -/

/-- **where `| e2` lands, for every `e1`**: with `(c, core) = landing T1` (walk down the right edge of `e1`'s tree while
    a `let` is ahead, entering every `let` body), `e1|e2` evaluates as `c[core | e2]` -/
theorem pipe_landing {e1 e2 : Bytes} {T1 : PTree} {n2 : INode}
    (hw : WellPrec T1) (hl1 : lexAll e1 = (Grammar.flatten T1 ++ [endTok], none))
    (h2 : compile e2 = .ok n2) (d : Val) :
    search (e1 ++ [0x7C] ++ e2) d = evaluate ((landing T1).1.node (.pipe (erase (landing T1).2) n2)) d :=
  search_pipe_landing hw hl1 h2 d

/-- **`PipeSafe`, syntactically**: for a well-formed tree, `PipeSafe` holds iff no `!`, sign or binary operator other
    than `|` lies on the path to the landing position (decidable) -/
theorem pipeSafe_iff_no_operator {T : PTree} (hw : WellPrec T) : PipeSafe T ↔ (landing T).1.opFree = true :=
  pipeSafe_iff_opFree hw

/-- (sufficient) `PipeSafe` ⇒ the law, failure of `e1` included, for every admissible `e2` on every document -/
theorem pipe_law_of_safe {e1 : Bytes} {T1 : PTree}
    (hw : WellPrec T1) (hl1 : lexAll e1 = (Grammar.flatten T1 ++ [endTok], none)) (hs : PipeSafe T1) :
    ∀ e2, Admissible e2 → ∀ d, PipeLaw e1 e2 d := C18CP.pipe_law_of_safe hw hl1 hs

/-- (necessary, first case) if the first operator above the landing position is `!`, a sign, a comparison or an
    arithmetic operator, the law FAILS for `e2 = 'x'` on EVERY document on which `e1` yields a value -/
theorem pipe_law_fails {e1 : Bytes} {T1 : PTree} {d r : Val}
    (hw : WellPrec T1) (hl1 : lexAll e1 = (Grammar.flatten T1 ++ [endTok], none))
    (hs : (landing T1).1.strFree = true) (h1 : search e1 d = .ok r) :
    Admissible strX ∧ ¬ PipeLaw e1 strX d := ⟨strX_admissible, pipe_fails_of_strFree hw hl1 hs h1⟩

/-- (necessary, second case, operator at the top) `l && …let…`: the law fails for `'x'` on every document on which `l`
    is false-like -/
theorem pipe_law_fails_and {e1 : Bytes} {op : Token} {l r : PTree} {d v : Val}
    (hw : WellPrec (.bin op l r)) (hl1 : lexAll e1 = (Grammar.flatten (.bin op l r) ++ [endTok], none))
    (ho : op.type = .and) (hns : ¬ PipeSafe (.bin op l r))
    (hv : evaluate (erase l) d = .ok v) (hf : isTrue v = false) : ¬ PipeLaw e1 strX d :=
  (pipe_fails_and hw hl1 ho hns hv hf).2.2

/-- … `l || …let…`: the law fails for `''` on every document on which `l` is true-like -/
theorem pipe_law_fails_or {e1 : Bytes} {op : Token} {l r : PTree} {d v : Val}
    (hw : WellPrec (.bin op l r)) (hl1 : lexAll e1 = (Grammar.flatten (.bin op l r) ++ [endTok], none))
    (ho : op.type = .or) (hns : ¬ PipeSafe (.bin op l r))
    (hv : evaluate (erase l) d = .ok v) (hf : isTrue v = true) : ¬ PipeLaw e1 strE d :=
  (pipe_fails_or hw hl1 ho hns hv hf).2.2

/-- the two cases are exhaustive: a well-formed tree that is not `PipeSafe` has, as first operator above the landing
    position, one of the first kind or `&&` / `||` -/
theorem unsafe_cases {T1 : PTree} (hw : WellPrec T1) (h : ¬ PipeSafe T1) :
    (landing T1).1.strFree = true ∨ (landing T1).1.andOrFirst = true := unsafe_dichotomy hw h

/-- **`PipeSafe` is NOT necessary for the equality of results**: `'y'&&let $x = a in b` is well formed and not
    `PipeSafe`, yet the law holds for every admissible `e2` on every document (the left operand is always true-like, so
    `&&` always returns its right operand).  So the header claim of `C18B` ("exactly when") is true of the SHAPE of the
    tree the parser builds (`pipeSafe_iff_no_operator`, `pipe_landing`), not of the results. -/
theorem pipeSafe_not_necessary :
    WellPrec andYT ∧ lexAll andYE = (Grammar.flatten andYT ++ [endTok], none) ∧ ¬ PipeSafe andYT ∧
    ∀ e2, Admissible e2 → ∀ d, PipeLaw andYE e2 d := and_true_let_law

/-- `a+let $x = a in b` on `{"a":1,"b":{"c":5}}`: `e1` FAILS (invalid type) and `e1|c` SUCCEEDS with `6`: outside
    `PipeSafe` even the propagation of failure breaks.  Go gives the same two outcomes. -/
example : search addE docN = .err [Cat.invalidType] ∧
    search (addE ++ [0x7C] ++ Grammar.Ex.bs "c") docN = .ok (.num (.dec (.fin false 6 0))) :=
  ⟨add_counterexample.1, add_counterexample.2.1⟩

end Jmes.C18C
