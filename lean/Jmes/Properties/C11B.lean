/-
  C11 (second part) — gaps of `Jmes/Properties/C11.lean` closed:

  A. numeric arguments: the `find_*`, `pad_*`, `split`-count and `replace`-count theorems for ANY argument value that the
     integer coercion `intArg` accepts (a JSON number `json.Number`, a decimal, a float holding an integer, any Go
     integer kind), not only `int64`;
  B. empty pattern and empty subject in `find_first` / `find_last`;
  C. `pad_left` / `pad_right` with the default pad character (a space).

  The valid-UTF-8 closure, the code point characterisations of split / trim / replace and the renaming theorems are in
  the sections further down (they re-export `Jmes/Proofs/C11B*Lemmas.lean`).
-/
import Jmes.Properties.C11
import Jmes.Properties.C14
import Jmes.Proofs.C11BStrLemmas
import Jmes.Proofs.C11BRenameLemmas
import Jmes.Proofs.C11BValidLemmas
import Jmes.Proofs.C11BValidLemmas2
namespace Jmes.C11B
open Jmes Jmes.Utf8 Jmes.C11

/-! ## A. integer arguments in any representation -/

/-- an `int64` is its own integer argument -/
theorem intArg_i64 (i : Int) : intArg (.num (.int .i64 i)) = .ok i := rfl

/-- a JSON number (what a document or a literal such as `` `3` `` holds) whose text `strconv.ParseInt` accepts -/
theorem intArg_jnum {t : Bytes} {i : Int} (h : parseInt64 t = some i) : intArg (.num (.jnum t)) = .ok i := by
  simp only [intArg, toInt, h]

example : intArg (.num (.jnum [0x33])) = .ok 3 := intArg_jnum (by decide)
/-- `3.0` and `0.3e1` are accepted too (through the decimal reading), `3.5` is `invalid-value`, a string `invalid-type` -/
example : intArg (.num (.jnum [0x33, 0x2E, 0x30])) = .ok 3 ∧ intArg (.num (.jnum [0x33, 0x2E, 0x35])) = errValue ∧
    intArg (.str [0x33]) = errType := by decide

/-- whenever the coercion succeeds, the raw conversion `toInt` gave that integer -/
theorem toInt_of_intArg {v : Val} {i : Int} (h : intArg v = .ok i) : toInt v = .int i := by
  unfold intArg at h
  split at h
  · next j hj => cases h; exact hj
  · cases h
  · split at h <;> cases h
  · cases h
  · cases h

example : toInt (.num (.jnum [0x33])) = .int 3 := toInt_of_intArg (intArg_jnum (by decide))

/-- `find_first(s, p, start)` / `find_last(s, p, start)` see the start argument only through `intArg` -/
theorem findFrom_intArg (last : Bool) (s p : Bytes) {v : Val} {i : Int} (h : intArg v = .ok i) :
    findFrom last (.str s) (.str p) v = findFrom last (.str s) (.str p) (.num (.int .i64 i)) := by
  simp only [findFrom, strArg, bind, Res.bind, h, intArg_i64]

/-- `find_first(s, p, start, finish)` / `find_last(…)` likewise (the start argument is read with `toInt` directly) -/
theorem findBetween_intArg (last : Bool) (s p : Bytes) {v w : Val} {i j : Int} (hv : intArg v = .ok i)
    (hw : intArg w = .ok j) :
    findBetween last (.str s) (.str p) v w
      = findBetween last (.str s) (.str p) (.num (.int .i64 i)) (.num (.int .i64 j)) := by
  have e : toInt (.num (.int .i64 i)) = .int i := rfl
  simp only [findBetween, strArg, bind, Res.bind, hw, intArg_i64, toInt_of_intArg hv, e]

theorem padLeft_intArg (a c : Val) {v : Val} {w : Int} (h : intArg v = .ok w) :
    padLeft a v c = padLeft a (.num (.int .i64 w)) c := by
  simp only [padLeft, bind, Res.bind, h, intArg_i64]

theorem padRight_intArg (a c : Val) {v : Val} {w : Int} (h : intArg v = .ok w) :
    padRight a v c = padRight a (.num (.int .i64 w)) c := by
  simp only [padRight, bind, Res.bind, h, intArg_i64]

theorem padSpaceLeft_intArg (a : Val) {v : Val} {w : Int} (h : intArg v = .ok w) :
    padSpaceLeft a v = padSpaceLeft a (.num (.int .i64 w)) := by
  simp only [padSpaceLeft, bind, Res.bind, h, intArg_i64]

theorem padSpaceRight_intArg (a : Val) {v : Val} {w : Int} (h : intArg v = .ok w) :
    padSpaceRight a v = padSpaceRight a (.num (.int .i64 w)) := by
  simp only [padSpaceRight, bind, Res.bind, h, intArg_i64]

theorem splitCount_intArg (a b : Val) {v : Val} {n : Int} (h : intArg v = .ok n) :
    splitCount a b v = splitCount a b (.num (.int .i64 n)) := by
  simp only [splitCount, bind, Res.bind, h, intArg_i64]

theorem replaceCount_intArg (a b c : Val) {v : Val} {n : Int} (h : intArg v = .ok n) :
    replaceCount a b c v = replaceCount a b c (.num (.int .i64 n)) := by
  simp only [replaceCount, bind, Res.bind, h, intArg_i64]

/-- pad_right("héllo", `7.0`, "*") = pad_right("héllo", 7, "*") -/
example : padRight (.str [0x68]) (.num (.jnum [0x37, 0x2E, 0x30])) (.str [0x2A])
    = padRight (.str [0x68]) (.num (.int .i64 7)) (.str [0x2A]) :=
  padRight_intArg _ _ (by decide)

/-! ## B. `find_*` with an empty pattern or an empty subject -/

/-- `find_first(s, p)` and `find_last(s, p)` (two arguments) are null as soon as the subject or the pattern is empty -/
theorem find_first_empty (s p : Bytes) (h : s = [] ∨ p = []) : findFirst (.str s) (.str p) = .ok .null := by
  rcases h with rfl | rfl
  · rfl
  · show (if s.isEmpty || true then _ else _) = _
    rw [Bool.or_true]; rfl

theorem find_last_empty (s p : Bytes) (h : s = [] ∨ p = []) : findLast (.str s) (.str p) = .ok .null := by
  rcases h with rfl | rfl
  · rfl
  · show (if s.isEmpty || true then _ else _) = _
    rw [Bool.or_true]; rfl

/-- find_first("héllo", "") = null, find_last("", "l") = null -/
example : findFirst (.str [0x68, 0xC3, 0xA9, 0x6C, 0x6C, 0x6F]) (.str []) = .ok .null := find_first_empty _ _ (.inr rfl)
example : findLast (.str []) (.str [0x6C]) = .ok .null := find_last_empty _ _ (.inl rfl)

/-- the empty pattern occurs first at position 0 … -/
theorem indexOf_nil (s : List Nat) : indexOf s [] = some 0 := by
  unfold indexOf indexOfAux
  simp

theorem lastIndexOfAux_nil : ∀ (s : List Nat) (off : Nat) (best : Option Nat),
    lastIndexOfAux off s [] best = some (off + s.length)
  | [], off, best => by unfold lastIndexOfAux; simp
  | _ :: t, off, best => by
    unfold lastIndexOfAux
    simp only [List.isPrefixOf, if_true]
    rw [lastIndexOfAux_nil t (off + 1) (some off), List.length_cons]
    congr 1; omega

/-- … and last at the end -/
theorem lastIndexOf_nil (s : List Nat) : lastIndexOf s [] = some s.length := by
  unfold lastIndexOf
  rw [lastIndexOfAux_nil]; simp

example : indexOf [1, 2, 3] [] = some 0 ∧ lastIndexOf [1, 2, 3] [] = some 3 := by decide

/-- `Utf8.indexOf_encodeAll` without the side condition that the pattern is non-empty -/
theorem indexOf_encodeAll_any (cs ps : List Nat) (hcs : Scalars cs) (hps : Scalars ps) :
    indexOf (encodeAll cs) (encodeAll ps) = (indexOf cs ps).map (fun k => (encodeAll (cs.take k)).length) := by
  by_cases hne : ps = []
  · subst hne
    rw [encodeAll_nil, indexOf_nil, indexOf_nil]; rfl
  · exact indexOf_encodeAll cs ps hcs hps hne

theorem lastIndexOf_encodeAll_any (cs ps : List Nat) (hcs : Scalars cs) (hps : Scalars ps) :
    lastIndexOf (encodeAll cs) (encodeAll ps)
      = (lastIndexOf cs ps).map (fun k => (encodeAll (cs.take k)).length) := by
  by_cases hne : ps = []
  · subst hne
    rw [encodeAll_nil, lastIndexOf_nil, lastIndexOf_nil, Option.map_some, List.take_length]
  · exact lastIndexOf_encodeAll cs ps hcs hps hne

/-- **`find_first(s, p, start)` / `find_last(s, p, start)` in code points, for every pattern (the empty one included),
    every subject (the empty one included) and every start value the integer coercion accepts.** The specification
    `C11.cpFindFrom` is the search on the code point lists. -/
theorem find_from_codepoints_any (last : Bool) (cs ps : List Nat) (hcs : Scalars cs) (hps : Scalars ps)
    {v : Val} {i : Int} (hv : intArg v = .ok i) :
    findFrom last (.str (encodeAll cs)) (.str (encodeAll ps)) v =
      match cpFindFrom last cs ps i with
      | none => .ok .null
      | some k => .ok (.num (.int .i64 k)) := by
  rw [findFrom_intArg last _ _ hv, findFrom_str, startOffset_encodeAll' cs hcs, cpFindFrom]
  by_cases h1 : i > (cs.length : Int)
  · simp [h1]
  · simp only [h1, if_false, drop_boundary]
    have hlen : i.toNat ≤ cs.length := by omega
    cases last
    · simp only [Bool.false_eq_true, if_false]
      rw [indexOf_encodeAll_any _ ps (hcs.drop _) hps]
      cases hk : indexOf (cs.drop i.toNat) ps with
      | none => rfl
      | some r =>
        have := indexOf_le _ _ _ hk
        rw [List.length_drop] at this
        simp only [Option.map_some]
        rw [runeIndexVal_boundary cs hcs _ _ (by omega)]
    · simp only [if_true]
      rw [lastIndexOf_encodeAll_any _ ps (hcs.drop _) hps]
      cases hk : lastIndexOf (cs.drop i.toNat) ps with
      | none => rfl
      | some r =>
        have := lastIndexOf_le _ _ _ hk
        rw [List.length_drop] at this
        simp only [Option.map_some]
        rw [runeIndexVal_boundary cs hcs _ _ (by omega)]

/-- find_first("héllo", "", 3) = 3 (the Go result), with the start given as the JSON number `3` -/
example : findFirstFrom (.str [0x68, 0xC3, 0xA9, 0x6C, 0x6C, 0x6F]) (.str []) (.num (.jnum [0x33]))
    = .ok (.num (.int .i64 3)) :=
  (find_from_codepoints_any false hello [] hello_scalars Scalars.nil
    (intArg_jnum (t := [0x33]) (i := 3) (by decide))).trans rfl

/-- the empty pattern from `start`: found at `start` itself (a negative start counts as 0), null past the end — in code
    points: "héllo" has 5 code points and 6 bytes, and start 6 gives null -/
theorem find_first_from_empty_pattern (cs : List Nat) (hcs : Scalars cs) {v : Val} {i : Int} (hv : intArg v = .ok i) :
    findFirstFrom (.str (encodeAll cs)) (.str []) v =
      if i > cs.length then .ok .null else .ok (.num (.int .i64 (i.toNat : Nat))) := by
  have := find_from_codepoints_any false cs [] hcs Scalars.nil hv
  rw [encodeAll_nil] at this
  rw [findFirstFrom, this, cpFindFrom]
  by_cases h1 : i > (cs.length : Int)
  · simp [h1]
  · simp [h1, indexOf_nil]

/-- `find_last` of the empty pattern from `start`: the end of the string, as a code point count -/
theorem find_last_from_empty_pattern (cs : List Nat) (hcs : Scalars cs) {v : Val} {i : Int} (hv : intArg v = .ok i) :
    findLastFrom (.str (encodeAll cs)) (.str []) v =
      if i > cs.length then .ok .null else .ok (.num (.int .i64 (cs.length : Nat))) := by
  have := find_from_codepoints_any true cs [] hcs Scalars.nil hv
  rw [encodeAll_nil] at this
  rw [findLastFrom, this, cpFindFrom]
  by_cases h1 : i > (cs.length : Int)
  · simp [h1]
  · have : i.toNat ≤ cs.length := by omega
    simp only [h1, if_false, if_true, lastIndexOf_nil, List.length_drop, Option.map_some]
    congr 3; omega

/-- Go: find_first("héllo","",5) = 5, find_first("héllo","",6) = null, find_first("héllo","",-2) = 0,
    find_last("héllo","",3) = 5 -/
example : findFirstFrom (.str (encodeAll hello)) (.str []) (.num (.int .i64 5)) = .ok (.num (.int .i64 5)) :=
  (find_first_from_empty_pattern hello hello_scalars (intArg_i64 5)).trans rfl
example : findFirstFrom (.str (encodeAll hello)) (.str []) (.num (.int .i64 6)) = .ok .null :=
  (find_first_from_empty_pattern hello hello_scalars (intArg_i64 6)).trans rfl
example : findFirstFrom (.str (encodeAll hello)) (.str []) (.num (.int .i64 (-2))) = .ok (.num (.int .i64 0)) :=
  (find_first_from_empty_pattern hello hello_scalars (intArg_i64 (-2))).trans rfl
example : findLastFrom (.str (encodeAll hello)) (.str []) (.num (.int .i64 3)) = .ok (.num (.int .i64 5)) :=
  (find_last_from_empty_pattern hello hello_scalars (intArg_i64 3)).trans rfl

/-- the empty subject: only the empty pattern at start ≤ 0 is found (at 0) -/
theorem find_from_empty_subject (last : Bool) (ps : List Nat) (hps : Scalars ps) {v : Val} {i : Int}
    (hv : intArg v = .ok i) :
    findFrom last (.str []) (.str (encodeAll ps)) v =
      if i ≤ 0 ∧ ps = [] then .ok (.num (.int .i64 0)) else .ok .null := by
  have := find_from_codepoints_any last [] ps Scalars.nil hps hv
  rw [encodeAll_nil] at this
  rw [this, cpFindFrom]
  by_cases h1 : i > 0
  · have : ¬ (i ≤ 0 ∧ ps = []) := by omega
    simp [h1, this]
  · have hi : i ≤ 0 := by omega
    cases ps with
    | nil =>
      cases last <;> simp [h1, hi, indexOf_nil, lastIndexOf_nil] <;> omega
    | cons p ps =>
      have e1 : indexOf [] (p :: ps) = none := by unfold indexOf indexOfAux; simp [List.isPrefixOf]
      have e2 : lastIndexOf [] (p :: ps) = none := by unfold lastIndexOf lastIndexOfAux; simp [List.isPrefixOf]
      cases last <;> simp [h1, e1, e2]

/-- Go: find_first("", "", 0) = 0, find_first("", "a", 0) = null, find_first("", "", 1) = null -/
example : findFirstFrom (.str []) (.str []) (.num (.int .i64 0)) = .ok (.num (.int .i64 0)) :=
  (find_from_empty_subject false [] Scalars.nil (intArg_i64 0)).trans rfl
example : findFirstFrom (.str []) (.str [0x61]) (.num (.int .i64 0)) = .ok .null :=
  (find_from_empty_subject false [0x61] (by unfold Scalars; decide) (intArg_i64 0)).trans rfl
example : findFirstFrom (.str []) (.str []) (.num (.int .i64 1)) = .ok .null :=
  (find_from_empty_subject false [] Scalars.nil (intArg_i64 1)).trans rfl

/-- **`find_first(s, p, start, finish)` / `find_last(…)` in code points, for every pattern and subject (empty ones
    included) and all start / finish values the integer coercion accepts.** -/
theorem find_between_codepoints_any (last : Bool) (cs ps : List Nat) (hcs : Scalars cs) (hps : Scalars ps)
    {v w : Val} {i j : Int} (hv : intArg v = .ok i) (hw : intArg w = .ok j) :
    findBetween last (.str (encodeAll cs)) (.str (encodeAll ps)) v w =
      match cpFindBetween last cs ps i j with
      | none => .ok .null
      | some k => .ok (.num (.int .i64 k)) := by
  rw [findBetween_intArg last _ _ hv hw, findBetween_str, startOffset_encodeAll' cs hcs,
    finishOffset_encodeAll' cs hcs j, cpFindBetween]
  by_cases h1 : i > (cs.length : Int)
  · simp [h1]
  · simp only [h1, if_false]
    by_cases h2 : j < 0
    · simp [h2]
    · simp only [h2, if_false]
      have hlen : i.toNat ≤ cs.length := by omega
      generalize hb : min j.toNat cs.length = b
      have hbl : b ≤ cs.length := by omega
      by_cases h3 : i.toNat > b
      · have := take_boundary_len_strict cs i.toNat b h3 hlen
        simp [h3, this]
      · have h3' : i.toNat ≤ b := by omega
        have hm := take_boundary_len_mono cs i.toNat b h3'
        have h4 : ¬ (encodeAll (cs.take i.toNat)).length > (encodeAll (cs.take b)).length := by omega
        simp only [h3, h4, if_false, window_boundary cs _ _ h3']
        have hw' : Scalars ((cs.drop i.toNat).take (b - i.toNat)) := (hcs.drop _).take _
        have hwl : ((cs.drop i.toNat).take (b - i.toNat)).length = b - i.toNat := by
          rw [List.length_take, List.length_drop]; omega
        cases last
        · simp only [Bool.false_eq_true, if_false]
          rw [indexOf_encodeAll_any _ ps hw' hps]
          cases hk : indexOf ((cs.drop i.toNat).take (b - i.toNat)) ps with
          | none => rfl
          | some r =>
            have := indexOf_le _ _ _ hk
            rw [hwl] at this
            simp only [Option.map_some]
            rw [List.take_take, Nat.min_eq_left this, runeIndexVal_boundary cs hcs _ _ (by omega)]
        · simp only [if_true]
          rw [lastIndexOf_encodeAll_any _ ps hw' hps]
          cases hk : lastIndexOf ((cs.drop i.toNat).take (b - i.toNat)) ps with
          | none => rfl
          | some r =>
            have := lastIndexOf_le _ _ _ hk
            rw [hwl] at this
            simp only [Option.map_some]
            rw [List.take_take, Nat.min_eq_left this, runeIndexVal_boundary cs hcs _ _ (by omega)]

/-- Go: find_first("héllo","",1,3) = 1, find_last("héllo","",1,3) = 3, find_last("héllo","",1,9) = 5 (finish clamped
    to the 5 code points), find_first("héllo","",3,2) = null, find_first("héllo","",3,3) = 3 — here with JSON numbers -/
example : findFirstBetween (.str (encodeAll hello)) (.str []) (.num (.jnum [0x31])) (.num (.jnum [0x33]))
    = .ok (.num (.int .i64 1)) :=
  (find_between_codepoints_any false hello [] hello_scalars Scalars.nil (intArg_jnum (t := [0x31]) (i := 1) (by decide))
    (intArg_jnum (t := [0x33]) (i := 3) (by decide))).trans rfl
example : findLastBetween (.str (encodeAll hello)) (.str []) (.num (.jnum [0x31])) (.num (.jnum [0x33]))
    = .ok (.num (.int .i64 3)) :=
  (find_between_codepoints_any true hello [] hello_scalars Scalars.nil (intArg_jnum (t := [0x31]) (i := 1) (by decide))
    (intArg_jnum (t := [0x33]) (i := 3) (by decide))).trans rfl
example : findLastBetween (.str (encodeAll hello)) (.str []) (.num (.int .i64 1)) (.num (.int .i64 9))
    = .ok (.num (.int .i64 5)) :=
  (find_between_codepoints_any true hello [] hello_scalars Scalars.nil (intArg_i64 1) (intArg_i64 9)).trans rfl
example : findFirstBetween (.str (encodeAll hello)) (.str []) (.num (.int .i64 3)) (.num (.int .i64 2))
    = .ok .null :=
  (find_between_codepoints_any false hello [] hello_scalars Scalars.nil (intArg_i64 3) (intArg_i64 2)).trans rfl
example : findFirstBetween (.str (encodeAll hello)) (.str []) (.num (.int .i64 3)) (.num (.int .i64 3))
    = .ok (.num (.int .i64 3)) :=
  (find_between_codepoints_any false hello [] hello_scalars Scalars.nil (intArg_i64 3) (intArg_i64 3)).trans rfl

/-! ## C. padding: any accepted width value, and the default pad character

  `w - |cs| ≤ padLimit` (= 100000) is a restriction of the MODEL, not of the Go code: above it `padWith` answers
  `.unmodelled` instead of materialising the padding (`pad_unmodelled_above_limit`). -/

/-- `pad_left(s, w, p)` / `pad_right(s, w, p)` in code points, the width being any value the integer coercion
    accepts -/
theorem padLeft_codepoints_any (cs : List Nat) (hcs : Scalars cs) (p : Nat) (hp : isScalar p = true)
    {v : Val} {w : Int} (hv : intArg v = .ok w) (hw : 0 ≤ w) (hlim : w - cs.length ≤ padLimit) :
    padLeft (.str (encodeAll cs)) v (.str (encodeRune p)) =
      if w ≤ cs.length then .ok (.str (encodeAll cs))
      else .ok (.str (encodeAll (List.replicate (w - cs.length).toNat p ++ cs))) := by
  rw [padLeft_intArg _ _ hv]; exact padLeft_codepoints cs hcs p hp w hw hlim

theorem padRight_codepoints_any (cs : List Nat) (hcs : Scalars cs) (p : Nat) (hp : isScalar p = true)
    {v : Val} {w : Int} (hv : intArg v = .ok w) (hw : 0 ≤ w) (hlim : w - cs.length ≤ padLimit) :
    padRight (.str (encodeAll cs)) v (.str (encodeRune p)) =
      if w ≤ cs.length then .ok (.str (encodeAll cs))
      else .ok (.str (encodeAll (cs ++ List.replicate (w - cs.length).toNat p))) := by
  rw [padRight_intArg _ _ hv]; exact padRight_codepoints cs hcs p hp w hw hlim

/-- pad_left("héllo", `7`, "é") = "ééhéllo" -/
example : padLeft (.str (encodeAll hello)) (.num (.jnum [0x37])) (.str [0xC3, 0xA9]) =
    .ok (.str [0xC3, 0xA9, 0xC3, 0xA9, 0x68, 0xC3, 0xA9, 0x6C, 0x6C, 0x6F]) :=
  padLeft_codepoints_any hello hello_scalars 0xE9 (by decide) (intArg_jnum (t := [0x37]) (i := 7) (by decide))
    (by decide) (by decide)

/-- `pad_left(s, w)` / `pad_right(s, w)` (two arguments) pad with spaces up to `w` CODE POINTS -/
theorem padSpaceLeft_codepoints (cs : List Nat) (hcs : Scalars cs) {v : Val} {w : Int} (hv : intArg v = .ok w)
    (hw : 0 ≤ w) (hlim : w - cs.length ≤ padLimit) :
    padSpaceLeft (.str (encodeAll cs)) v =
      if w ≤ cs.length then .ok (.str (encodeAll cs))
      else .ok (.str (encodeAll (List.replicate (w - cs.length).toNat 0x20 ++ cs))) := by
  rw [padSpaceLeft_intArg _ hv]
  exact pad_codepoints true cs hcs 0x20 (by decide) w hw hlim _

theorem padSpaceRight_codepoints (cs : List Nat) (hcs : Scalars cs) {v : Val} {w : Int} (hv : intArg v = .ok w)
    (hw : 0 ≤ w) (hlim : w - cs.length ≤ padLimit) :
    padSpaceRight (.str (encodeAll cs)) v =
      if w ≤ cs.length then .ok (.str (encodeAll cs))
      else .ok (.str (encodeAll (cs ++ List.replicate (w - cs.length).toNat 0x20))) := by
  rw [padSpaceRight_intArg _ hv]
  exact pad_codepoints false cs hcs 0x20 (by decide) w hw hlim _

/-- Go: pad_left("héllo", 7) = "  héllo" (2 spaces: 5 code points, although 6 bytes), pad_right("héllo", `7.0`) =
    "héllo  ", pad_left("héllo", 5) = "héllo" -/
example : padSpaceLeft (.str (encodeAll hello)) (.num (.int .i64 7)) =
    .ok (.str [0x20, 0x20, 0x68, 0xC3, 0xA9, 0x6C, 0x6C, 0x6F]) :=
  padSpaceLeft_codepoints hello hello_scalars (intArg_i64 7) (by decide) (by decide)
example : padSpaceRight (.str (encodeAll hello)) (.num (.jnum [0x37, 0x2E, 0x30])) =
    .ok (.str [0x68, 0xC3, 0xA9, 0x6C, 0x6C, 0x6F, 0x20, 0x20]) :=
  padSpaceRight_codepoints hello hello_scalars (v := .num (.jnum [0x37, 0x2E, 0x30])) (w := 7) (by decide)
    (by decide) (by decide)
example : padSpaceLeft (.str (encodeAll hello)) (.num (.int .i64 5)) = .ok (.str (encodeAll hello)) :=
  padSpaceLeft_codepoints hello hello_scalars (intArg_i64 5) (by decide) (by decide)

/-- a negative width is `invalid-value` for the two-argument forms too -/
theorem padSpace_negative_width (s : Bytes) {v : Val} {w : Int} (hv : intArg v = .ok w) (hw : w < 0) :
    padSpaceLeft (.str s) v = errValue ∧ padSpaceRight (.str s) v = errValue := by
  rw [padSpaceLeft_intArg _ hv, padSpaceRight_intArg _ hv]
  exact ⟨pad_negative_width true s w hw _ _, pad_negative_width false s w hw _ _⟩

example : padSpaceLeft (.str [0x68]) (.num (.int .i64 (-1))) = errValue :=
  (padSpace_negative_width [0x68] (intArg_i64 (-1)) (by decide)).1

/-- what the side condition `w - |cs| ≤ padLimit` of the padding theorems excludes: beyond it the model declines
    (`.unmodelled`), it does not claim a result -/
theorem pad_unmodelled_above_limit (left : Bool) (cs : List Nat) (hcs : Scalars cs) (p : Nat) (hp : isScalar p = true)
    (w : Int) (hlim : w - cs.length > padLimit) (orig : Val) :
    padWith left (encodeAll cs) w (encodeRune p) orig = .unmodelled "padding wider than the model materialises" := by
  have h1 : runeCount (encodeRune p) = 1 := by
    have := Utf8.runeCount_encodeAll [p] (Scalars.cons hp Scalars.nil)
    rwa [encodeAll_singleton] at this
  unfold padWith
  simp only [Utf8.runeCount_encodeAll cs hcs, h1]
  have a1 : ¬ w < 0 := by omega
  have a2 : ¬ (w - (cs.length : Int) ≤ 0) := by omega
  have a3 : (w - (cs.length : Int)).toNat > padLimit := by omega
  simp only [a1, a2, a3, if_false, if_true, ne_eq, not_true_eq_false]

example : padWith true (encodeAll hello) 200000 (encodeRune 0x2A) .null
    = .unmodelled "padding wider than the model materialises" :=
  pad_unmodelled_above_limit true hello hello_scalars 0x2A (by decide) 200000 (by decide) _

/-- `split(s, '', n)` with the count in any accepted representation -/
theorem split_count_empty_sep_codepoints_any (cs : List Nat) (h : Scalars cs) (hne : cs ≠ []) {v : Val} {n : Int}
    (hv : intArg v = .ok n) (hn : 0 < n) :
    splitCount (.str (encodeAll cs)) (.str []) v =
      .ok (strsToArr (if n.toNat + 1 ≥ cs.length then cs.map encodeRune
                      else (cs.take n.toNat).map encodeRune ++ [encodeAll (cs.drop n.toNat)])) := by
  rw [splitCount_intArg _ _ hv]; exact split_count_empty_sep_codepoints cs h hne n hn

/-- split("héllo", "", `2`) = ["h", "é", "llo"] -/
example : splitCount (.str (encodeAll hello)) (.str []) (.num (.jnum [0x32])) =
    .ok (.arr .plain [.str [0x68], .str [0xC3, 0xA9], .str [0x6C, 0x6C, 0x6F]]) :=
  split_count_empty_sep_codepoints_any hello hello_scalars (by decide) (intArg_jnum (t := [0x32]) (i := 2) (by decide))
    (by decide)

/-! ## D. the remaining string functions act on code points

  `split` on a non-empty separator, `trim*`, `replace`, `join`, `lower`/`upper` (on the modelled alphabets), `ends_with`,
  `contains`: the result on `encodeAll cs` is `encodeAll` of the result of the SAME list function applied to the code
  points (`splitOn`, `replaceAux`, `dropWhile` … are polymorphic in what a list element is). Proofs:
  `Jmes/Proofs/C11BStrLemmas.lean` (`Jmes.C11S`), value level in `Jmes/Proofs/C11BRenameLemmas.lean` (`Jmes.C11R`). -/

open Jmes.C11S hiding validUTF8_nil validUTF8_append validUTF8_concat validUTF8_encodeRune_any validUTF8_encodeAll_any validUTF8_ascii valid_reverseRunes valid_walkFwd valid_walkBwd valid_joinStrs splitOn_encodeAll splitOn_scalars valid_splitOn valid_splitRunes splitOn_join splitOn_join_limit splitOn_no_sep trimLeftF_encodeAll trimRightF_encodeAll inCutset_encodeAll valid_trimLeftF valid_trimRightF stringsReplace_encodeAll cpReplace_scalars valid_stringsReplace joinStrs_encodeAll lower_codepoints upper_codepoints valid_lower valid_upper lower_str_shape upper_str_shape
open Jmes.C11R hiding split_sep_codepoints trimLeft_codepoints trimRight_codepoints trim_codepoints replace_codepoints hasSuffix_encodeAll bytesContains_encodeAll length_rename reverse_rename slice_rename sliceStep_rename find_first_rename find_last_rename find_from_rename find_between_rename starts_with_rename ends_with_rename contains_rename pad_rename padLeft_rename padRight_rename split_empty_sep_rename split_count_empty_sep_rename split_rename split_count_rename trimLeft_rename trimRight_rename trim_rename replace_rename replace_count_rename join_rename bytesLt_rename bytesLt_renB arrayMax_rename arrayMin_rename sortArray_rename indexOf_encodeAll_any lastIndexOf_encodeAll_any find_from_codepoints_any find_between_codepoints_any

/-- the empty string is valid UTF-8 -/
theorem validUTF8_nil : validUTF8 ([] : Bytes) = true :=
  C11S.validUTF8_nil

/-- concatenating two valid strings gives a valid string -/
theorem validUTF8_append {a b : Bytes} (ha : validUTF8 a = true) (hb : validUTF8 b = true) :
    validUTF8 (a ++ b) = true :=
  C11S.validUTF8_append ha hb

example : validUTF8 ([0xC3, 0xA9] ++ [0x6C]) = true :=
  validUTF8_append (by decide) (by decide)
/-- (the hypotheses are needed: two halves of "é" are each invalid, their concatenation is valid, and a valid
    string followed by half a code point is not) -/
example : validUTF8 ([0x6C] ++ [0xC3]) = false := by decide

/-- concatenating any number of valid strings gives a valid string -/
theorem validUTF8_concat {l : List Bytes} (h : ∀ o ∈ l, validUTF8 o = true) :
    validUTF8 (l.foldr (· ++ ·) []) = true :=
  C11S.validUTF8_concat h

example : validUTF8 ([[0x68], [0xC3, 0xA9], [0x6C]].foldr (· ++ ·) []) = true := by decide

/-- `encodeRune` of ANY number is valid UTF-8: a non-scalar value is written as U+FFFD -/
theorem validUTF8_encodeRune_any (r : Nat) : validUTF8 (encodeRune r) = true :=
  C11S.validUTF8_encodeRune_any r

example : validUTF8 (encodeRune 0xD800) = true := validUTF8_encodeRune_any _
example : encodeRune 0xD800 = [0xEF, 0xBF, 0xBD] := by decide

/-- `encodeAll` of ANY list of numbers is valid UTF-8 -/
theorem validUTF8_encodeAll_any (rs : List Nat) : validUTF8 (encodeAll rs) = true :=
  C11S.validUTF8_encodeAll_any rs

example : validUTF8 (encodeAll [0x68, 0x110000, 0xE9]) = true := validUTF8_encodeAll_any _

/-- an ASCII string is valid UTF-8 -/
theorem validUTF8_ascii {s : Bytes} (h : ∀ b ∈ s, b < 0x80) : validUTF8 s = true :=
  C11S.validUTF8_ascii h

example : validUTF8 [0x68, 0x65, 0x6C, 0x6C, 0x6F] = true := validUTF8_ascii (by decide)

/-- `reverse` on a string only ever writes `encodeRune`s: the output is valid whatever the input -/
theorem valid_reverseRunes (n : Nat) (s : Bytes) : validUTF8 (reverseRunes n s) = true :=
  C11S.valid_reverseRunes n s

example : reverseRunes 3 [0x68, 0xC3, 0x6C] = [0x6C, 0xEF, 0xBF, 0xBD, 0x68] := by decide
example : validUTF8 (reverseRunes 3 [0x68, 0xC3, 0x6C]) = true := valid_reverseRunes _ _

/-- the forward stepping walk only writes `encodeRune`s -/
theorem valid_walkFwd (step n : Nat) (s : Bytes) : validUTF8 (walkFwd step n s) = true :=
  C11S.valid_walkFwd step n s

example : validUTF8 (walkFwd 2 2 [0xC3, 0x68, 0xC3, 0xA9]) = true := valid_walkFwd _ _ _
example : walkFwd 2 2 [0xC3, 0x68, 0xC3, 0xA9] = [0xEF, 0xBF, 0xBD, 0xC3, 0xA9] := by decide

/-- the backward stepping walk only writes `encodeRune`s -/
theorem valid_walkBwd (step n : Nat) (s : Bytes) : validUTF8 (walkBwd step n s) = true :=
  C11S.valid_walkBwd step n s

example : validUTF8 (walkBwd 1 2 [0x68, 0xC3]) = true := valid_walkBwd _ _ _
example : walkBwd 1 2 [0x68, 0xC3] = [0xEF, 0xBF, 0xBD, 0x68] := by decide

/-- joining valid strings with a valid separator gives a valid string -/
theorem valid_joinStrs {sep : Bytes} {ss : List Bytes} (hsep : validUTF8 sep = true)
    (h : ∀ o ∈ ss, validUTF8 o = true) : validUTF8 (joinStrs sep ss) = true :=
  C11S.valid_joinStrs hsep h

example : validUTF8 (joinStrs [0xC3, 0xA9] [[0x68], [0xE2, 0x82, 0xAC], []]) = true :=
  valid_joinStrs (by decide) (by decide)

/-- `split(s, sep)` (non-empty `sep`): the pieces of the byte string are the encodings of the pieces of the
    code point sequence, split by the same (element-polymorphic) function -/
theorem splitOn_encodeAll (cs ps : List Nat) (hcs : Scalars cs) (hps : Scalars ps) (hne : ps ≠ []) (n : Option Nat) :
    splitOn (encodeAll cs) (encodeAll ps) n = (splitOn cs ps n).map encodeAll :=
  C11S.splitOn_encodeAll cs ps hcs hps hne n

/-- every piece of a split consists of elements of the string: pieces of scalar values are scalar values -/
theorem splitOn_scalars (cs ps : List Nat) (hcs : Scalars cs) (n : Option Nat) : ∀ o ∈ splitOn cs ps n, Scalars o :=
  C11S.splitOn_scalars cs ps hcs n

example : ∀ o ∈ splitOn helloWorld [0xF6] none, Scalars o := splitOn_scalars _ _ helloWorld_scalars _

/-- `split` of a valid string on a valid non-empty separator gives valid strings -/
theorem valid_splitOn {s p : Bytes} (hs : validUTF8 s = true) (hp : validUTF8 p = true) (hne : p ≠ []) (n : Option Nat) :
    ∀ o ∈ splitOn s p n, validUTF8 o = true :=
  C11S.valid_splitOn hs hp hne n

example : ∀ o ∈ splitOn (encodeAll helloWorld) [0xC3, 0xB6] (some 1), validUTF8 o = true :=
  valid_splitOn (Utf8.validUTF8_encodeAll _ helloWorld_scalars) (by decide) (by decide) _
/-- (an invalid separator can cut a code point in two: the hypothesis on the separator is needed) -/
example : splitOn [0xC3, 0xA9] [0xA9] none = [[0xC3], []] := by decide

/-- `split` on the empty separator (one piece per code point, the last piece taking the rest when limited) gives
    valid strings -/
theorem valid_splitRunes {s : Bytes} (hs : validUTF8 s = true) (n : Option Nat) :
    ∀ o ∈ splitRunes s n, validUTF8 o = true :=
  C11S.valid_splitRunes hs n

example : splitRunes (encodeAll C11.hello) (some 2) = [[0x68], [0xC3, 0xA9], [0x6C, 0x6C, 0x6F]] := by decide
example : ∀ o ∈ splitRunes (encodeAll C11.hello) (some 2), validUTF8 o = true :=
  valid_splitRunes (Utf8.validUTF8_encodeAll _ C11.hello_scalars) _

/-- what `splitOn` means on any lists (code points or bytes): joining the pieces with the separator gives the
    string back -/
theorem splitOn_join (s p : List Nat) (hne : p ≠ []) : joinStrs p (splitOn s p none) = s :=
  C11S.splitOn_join s p hne

/-- the same with a limit on the number of splits -/
theorem splitOn_join_limit (s p : List Nat) (n : Option Nat) : joinStrs p (splitOn s p n) = s :=
  C11S.splitOn_join_limit s p n

example : joinStrs [0xF6] (splitOn helloWorld [0xF6] none) = helloWorld := splitOn_join _ _ (by decide)
example : splitOn ([] : List Nat) [0xF6] none = [[]] := by decide

/-- no piece of an unlimited split contains the separator (on any lists: code points or bytes) -/
theorem splitOn_no_sep (s p : List Nat) (hne : p ≠ []) : ∀ o ∈ splitOn s p none, indexOf o p = none :=
  C11S.splitOn_no_sep s p hne

example : ∀ o ∈ splitOn helloWorld [0x6C] none, indexOf o [0x6C] = none := splitOn_no_sep _ _ (by decide)
example : splitOn helloWorld [0x6C] none = [[0x68, 0xE9], [], [0x6F, 0x20, 0x77, 0xF6, 0x72], [0x64]] := by decide
/-- (with a limit the last piece may contain the separator) -/
example : splitOn helloWorld [0x6C] (some 1) = [[0x68, 0xE9], [0x6C, 0x6F, 0x20, 0x77, 0xF6, 0x72, 0x6C, 0x64]] := by
  decide

/-- `strings.TrimLeftFunc` drops the leading code points that satisfy the predicate -/
theorem trimLeftF_encodeAll (p : Nat → Bool) (cs : List Nat) (h : Scalars cs) :
    trimLeftF p (encodeAll cs) = encodeAll (cs.dropWhile p) :=
  C11S.trimLeftF_encodeAll p cs h

/-- `strings.TrimRightFunc` drops the trailing code points that satisfy the predicate -/
theorem trimRightF_encodeAll (p : Nat → Bool) (cs : List Nat) (h : Scalars cs) :
    trimRightF p (encodeAll cs) = encodeAll (cs.reverse.dropWhile p).reverse :=
  C11S.trimRightF_encodeAll p cs h

example : trimRightF (· == 0xE9) (encodeAll eeHee) = encodeAll [0xE9, 0xE9, 0x68] := by
  rw [trimRightF_encodeAll _ _ eeHee_scalars]; decide

/-- the cutset of `trim(s, chars)` is a set of code points -/
theorem inCutset_encodeAll (cut : List Nat) (h : Scalars cut) (r : Nat) : inCutset (encodeAll cut) r = cut.contains r :=
  C11S.inCutset_encodeAll cut h r

example : inCutset (encodeAll [0xE9, 0x20AC]) 0x20AC = true := by
  rw [inCutset_encodeAll _ (by unfold Scalars; decide)]; decide
/-- (a byte of the cutset's encoding is not in the cutset: 0xC3 is the lead byte of "é") -/
example : inCutset (encodeAll [0xE9]) 0xC3 = false := by
  rw [inCutset_encodeAll _ (by unfold Scalars; decide)]; decide

/-- trim("ééhéé", "é") = "h" -/
example : trimRightF (inCutset (encodeAll [0xE9])) (trimLeftF (inCutset (encodeAll [0xE9])) (encodeAll eeHee)) = [0x68] := by
  decide

/-- trimming on the left keeps a valid string valid -/
theorem valid_trimLeftF (p : Nat → Bool) {s : Bytes} (hs : validUTF8 s = true) : validUTF8 (trimLeftF p s) = true :=
  C11S.valid_trimLeftF p hs

/-- trimming on the right keeps a valid string valid -/
theorem valid_trimRightF (p : Nat → Bool) {s : Bytes} (hs : validUTF8 s = true) : validUTF8 (trimRightF p s) = true :=
  C11S.valid_trimRightF p hs

example : validUTF8 (trimLeftF isSpaceRune [0x20, 0xC2, 0xA0, 0xC3, 0xA9]) = true := valid_trimLeftF _ (by decide)
example : trimLeftF isSpaceRune [0x20, 0xC2, 0xA0, 0xC3, 0xA9] = [0xC3, 0xA9] := by decide
example : validUTF8 (trimRightF isSpaceRune [0xC3, 0xA9, 0xE3, 0x80, 0x80]) = true := valid_trimRightF _ (by decide)
example : trimRightF isSpaceRune [0xC3, 0xA9, 0xE3, 0x80, 0x80] = [0xC3, 0xA9] := by decide

/-- `strings.Replace(s, old, new, n)` acts on code points: the bytes of the result are the encoding of the result of
    the same replacement carried out on the code point sequences -/
theorem stringsReplace_encodeAll (cs os ns : List Nat) (hcs : Scalars cs) (hos : Scalars os) (hns : Scalars ns)
    (n : Option Nat) :
    stringsReplace (encodeAll cs) (encodeAll os) (encodeAll ns) n = encodeAll (cpReplace cs os ns n) :=
  C11S.stringsReplace_encodeAll cs os ns hcs hos hns n

/-- replace("héllo", "l", "ł") = "héłło" (ł = U+0142) -/
example : cpReplace C11.hello [0x6C] [0x142] none = [0x68, 0xE9, 0x142, 0x142, 0x6F] := by decide
example : stringsReplace (encodeAll C11.hello) (encodeAll [0x6C]) (encodeAll [0x142]) none
    = encodeAll [0x68, 0xE9, 0x142, 0x142, 0x6F] := by
  rw [stringsReplace_encodeAll _ _ _ C11.hello_scalars (by unfold Scalars; decide) (by unfold Scalars; decide)]
  decide
/-- replace("héllo", "", "-", 3) = "-h-é-llo": the empty string is found between code points, not between bytes -/
example : stringsReplace (encodeAll C11.hello) [] [0x2D] (some 3)
    = [0x2D, 0x68, 0x2D, 0xC3, 0xA9, 0x2D, 0x6C, 0x6C, 0x6F] := by decide
example : cpReplace C11.hello [] [0x2D] (some 3) = [0x2D, 0x68, 0x2D, 0xE9, 0x2D, 0x6C, 0x6C, 0x6F] := by decide

/-- replacing within scalar values by scalar values gives scalar values -/
theorem cpReplace_scalars (cs os ns : List Nat) (hcs : Scalars cs) (hos : Scalars os) (hns : Scalars ns)
    (n : Option Nat) : Scalars (cpReplace cs os ns n) :=
  C11S.cpReplace_scalars cs os ns hcs hos hns n

example : Scalars (cpReplace C11.hello [0x6C] [0x142] none) :=
  cpReplace_scalars _ _ _ C11.hello_scalars (by unfold Scalars; decide) (by unfold Scalars; decide) _

/-- `replace` on valid strings gives a valid string -/
theorem valid_stringsReplace {s old new : Bytes} (hs : validUTF8 s = true) (ho : validUTF8 old = true)
    (hn : validUTF8 new = true) (n : Option Nat) : validUTF8 (stringsReplace s old new n) = true :=
  C11S.valid_stringsReplace hs ho hn n

example : validUTF8 (stringsReplace (encodeAll C11.hello) [0x6C] [0xC5, 0x82] (some 1)) = true :=
  valid_stringsReplace (Utf8.validUTF8_encodeAll _ C11.hello_scalars) (by decide) (by decide) _
/-- (an invalid `old` can cut a code point in two: the hypotheses are needed) -/
example : stringsReplace [0xC3, 0xA9] [0xA9] [] none = [0xC3] := by decide

/-- `join` acts on code points: joining encodings with an encoded separator is the encoding of the join -/
theorem joinStrs_encodeAll (sep : List Nat) (ss : List (List Nat)) :
    joinStrs (encodeAll sep) (ss.map encodeAll) = encodeAll (joinStrs sep ss) :=
  C11S.joinStrs_encodeAll sep ss

example : joinStrs (encodeAll [0xE9]) ([[0x68], [0x20AC], []].map encodeAll) = encodeAll [0x68, 0xE9, 0x20AC, 0xE9] := by
  rw [joinStrs_encodeAll]; decide

/-- `lower` maps a string code point by code point (where the model covers the alphabet) -/
theorem lower_codepoints (cs : List Nat) (h : Scalars cs) (rs : List Nat) (hm : mapRunes lowerRune cs = some rs) :
    lower (.str (encodeAll cs)) = .ok (.str (encodeAll rs)) :=
  C11S.lower_codepoints cs h rs hm

/-- `upper` maps a string code point by code point (where the model covers the alphabet) -/
theorem upper_codepoints (cs : List Nat) (h : Scalars cs) (rs : List Nat) (hm : mapRunes upperRune cs = some rs) :
    upper (.str (encodeAll cs)) = .ok (.str (encodeAll rs)) :=
  C11S.upper_codepoints cs h rs hm

/-- upper("héllo") = "HÉLLO", lower("HÉ") = "hé"; pure ASCII goes through the fast path with the same result -/
example : upper (.str (encodeAll C11.hello)) = .ok (.str (encodeAll [0x48, 0xC9, 0x4C, 0x4C, 0x4F])) :=
  upper_codepoints _ C11.hello_scalars _ (by decide)
example : lower (.str (encodeAll [0x48, 0xC9])) = .ok (.str (encodeAll [0x68, 0xE9])) :=
  lower_codepoints _ (by unfold Scalars; decide) _ (by decide)
example : lower (.str (encodeAll [0x48, 0x49])) = .ok (.str (encodeAll [0x68, 0x69])) :=
  lower_codepoints _ (by unfold Scalars; decide) _ (by decide)

/-- `lower` of ANY string (valid or not) gives valid UTF-8 -/
theorem valid_lower {s out : Bytes} (h : lower (.str s) = .ok (.str out)) : validUTF8 out = true :=
  C11S.valid_lower h

/-- `upper` of ANY string (valid or not) gives valid UTF-8 -/
theorem valid_upper {s out : Bytes} (h : upper (.str s) = .ok (.str out)) : validUTF8 out = true :=
  C11S.valid_upper h

/-- a successful `lower` of a string is a string -/
theorem lower_str_shape (s : Bytes) (v : Val) (h : lower (.str s) = .ok v) : ∃ out, v = .str out :=
  C11S.lower_str_shape s v h

/-- a successful `upper` of a string is a string -/
theorem upper_str_shape (s : Bytes) (v : Val) (h : upper (.str s) = .ok v) : ∃ out, v = .str out :=
  C11S.upper_str_shape s v h

/-- lower of the invalid "H\xC3" is "h�": valid -/
example : lower (.str [0x48, 0xC3]) = .ok (.str [0x68, 0xEF, 0xBF, 0xBD]) := rfl
example : validUTF8 [0x68, 0xEF, 0xBF, 0xBD] = true :=
  valid_lower (s := [0x48, 0xC3]) rfl
example : upper (.str [0x68, 0xC3, 0xA9]) = .ok (.str [0x48, 0xC3, 0x89]) := rfl
example : ∃ out, (Val.str [0x48, 0xC3, 0x89]) = .str out := upper_str_shape [0x68, 0xC3, 0xA9] _ rfl



/-- `split(s, sep)` on a non-empty separator acts on code points: the pieces are the encodings of the pieces of the code
    point list, cut where the separator's code points occur (`splitOn` on the code point lists; `splitOn_join`,
    `splitOn_no_sep` say what that is) -/
theorem split_sep_codepoints (cs ps : List Nat) (hcs : Scalars cs) (hps : Scalars ps) (hc : cs ≠ []) (hp : ps ≠ []) :
    split (.str (encodeAll cs)) (.str (encodeAll ps)) = .ok (strsToArr ((splitOn cs ps none).map encodeAll)) :=
  C11R.split_sep_codepoints cs ps hcs hps hc hp

/-- split("héllo", "é") = ["h", "llo"]: the two-byte separator is one code point, the pieces are cut around it -/
example : split (.str (encodeAll hello)) (.str [0xC3, 0xA9]) = .ok (.arr .plain [.str [0x68], .str [0x6C, 0x6C, 0x6F]]) :=
  (split_sep_codepoints hello [0xE9] hello_scalars (by unfold Scalars; decide) (by decide) (by decide)).trans rfl

/-- `trim_left(s, cut)` with an explicit cutset drops the leading CODE POINTS that are in the cutset (a cutset is a set of
    code points, not of bytes) -/
theorem trimLeft_codepoints (cs cut : List Nat) (hcs : Scalars cs) (hcut : Scalars cut) (hne : cut ≠ []) :
    trimLeft (.str (encodeAll cs)) (.str (encodeAll cut)) = .ok (.str (encodeAll (cpTrimLeft cut cs))) :=
  C11R.trimLeft_codepoints cs cut hcs hcut hne

/-- `trim_right(s, cut)`: the trailing code points in the cutset -/
theorem trimRight_codepoints (cs cut : List Nat) (hcs : Scalars cs) (hcut : Scalars cut) (hne : cut ≠ []) :
    trimRight (.str (encodeAll cs)) (.str (encodeAll cut)) = .ok (.str (encodeAll (cpTrimRight cut cs))) :=
  C11R.trimRight_codepoints cs cut hcs hcut hne

/-- `trim(s, cut)`: both ends -/
theorem trim_codepoints (cs cut : List Nat) (hcs : Scalars cs) (hcut : Scalars cut) (hne : cut ≠ []) :
    trim (.str (encodeAll cs)) (.str (encodeAll cut))
      = .ok (.str (encodeAll (cpTrimRight cut (cpTrimLeft cut cs)))) :=
  C11R.trim_codepoints cs cut hcs hcut hne

/-- trim("éhé", "é") = "h"; and trimming "é" (`C3 A9`) with the cutset "ã" (`C3 A3`) removes nothing, although the two
    share their lead byte -/
example : trim (.str [0xC3, 0xA9, 0x68, 0xC3, 0xA9]) (.str [0xC3, 0xA9]) = .ok (.str [0x68]) :=
  (trim_codepoints [0xE9, 0x68, 0xE9] [0xE9] (by unfold Scalars; decide) (by unfold Scalars; decide) (by decide)).trans rfl
example : trim (.str [0xC3, 0xA9]) (.str [0xC3, 0xA3]) = .ok (.str [0xC3, 0xA9]) :=
  (trim_codepoints [0xE9] [0xE3] (by unfold Scalars; decide) (by unfold Scalars; decide) (by decide)).trans rfl
example : trimLeft (.str (encodeAll hello)) (.str [0xC3, 0xA9, 0x68]) = .ok (.str [0x6C, 0x6C, 0x6F]) :=
  (trimLeft_codepoints hello [0xE9, 0x68] hello_scalars (by unfold Scalars; decide) (by decide)).trans rfl
example : trimRight (.str (encodeAll hello)) (.str [0x6F, 0x6C]) = .ok (.str [0x68, 0xC3, 0xA9]) :=
  (trimRight_codepoints hello [0x6F, 0x6C] hello_scalars (by unfold Scalars; decide) (by decide)).trans rfl

/-- `replace(s, old, new)` acts on code points (`C11S.cpReplace`: the same `strings.Replace` algorithm run on the code
    point lists; an empty `old` inserts `new` before every code point and at the end) -/
theorem replace_codepoints (cs os ns : List Nat) (hcs : Scalars cs) (hos : Scalars os) (hns : Scalars ns) :
    replace (.str (encodeAll cs)) (.str (encodeAll os)) (.str (encodeAll ns))
      = .ok (.str (encodeAll (cpReplace cs os ns none))) :=
  C11R.replace_codepoints cs os ns hcs hos hns

/-- replace("héllo", "l", "ł") = "héłło"; replace("hé", "", "-") = "-h-é-" (not "-h-\xC3-\xA9-") -/
example : replace (.str (encodeAll hello)) (.str [0x6C]) (.str [0xC5, 0x82])
    = .ok (.str [0x68, 0xC3, 0xA9, 0xC5, 0x82, 0xC5, 0x82, 0x6F]) :=
  (replace_codepoints hello [0x6C] [0x142] hello_scalars (by unfold Scalars; decide) (by unfold Scalars; decide)).trans rfl
example : replace (.str [0x68, 0xC3, 0xA9]) (.str []) (.str [0x2D]) = .ok (.str [0x2D, 0x68, 0x2D, 0xC3, 0xA9, 0x2D]) :=
  (replace_codepoints [0x68, 0xE9] [] [0x2D] (by unfold Scalars; decide) Scalars.nil (by unfold Scalars; decide)).trans rfl

/-- `ends_with` on the bytes is `ends_with` on the code points (a suffix of the bytes that is a valid string starts at a
    code point boundary) -/
theorem hasSuffix_encodeAll (cs ps : List Nat) (hcs : Scalars cs) (hps : Scalars ps) :
    hasSuffix (encodeAll cs) (encodeAll ps) = hasSuffix cs ps :=
  C11R.hasSuffix_encodeAll cs ps hcs hps

/-- `contains` (string in string) on the bytes is `contains` on the code points -/
theorem bytesContains_encodeAll (cs ps : List Nat) (hcs : Scalars cs) (hps : Scalars ps) :
    bytesContains (encodeAll cs) (encodeAll ps) = bytesContains cs ps :=
  C11R.bytesContains_encodeAll cs ps hcs hps

/-- "é" (`C3 A9`) does not end with, nor contain, "©" (`C2 A9`), although the last bytes agree -/
example : hasSuffix (encodeAll [0xE9]) (encodeAll [0xA9]) = false ∧ bytesContains (encodeAll [0xE9]) (encodeAll [0xA9]) = false :=
  ⟨(hasSuffix_encodeAll [0xE9] [0xA9] (by unfold Scalars; decide) (by unfold Scalars; decide)).trans (by decide),
   (bytesContains_encodeAll [0xE9] [0xA9] (by unfold Scalars; decide) (by unfold Scalars; decide)).trans (by decide)⟩


/-! ## E. renaming characters consistently renames the result the same way

  `f : Nat → Nat` is the renaming of code points: `C11R.Inj f` (injective) suffices for searching, splitting, trimming and
  replacing, `C11R.Mono f` (strictly monotone) is needed for ordering. A string `encodeAll cs` is renamed to
  `encodeAll (cs.map f)` (`C11R.renB`), a value by `C11R.renV` (strings, array elements, object keys and values), an outcome
  by `C11R.mapRes (renV f)`. Numbers — positions, lengths — are NOT touched by `renV`: each theorem says the positions in the
  renamed string are the same numbers although the byte offsets differ. The instance `C11R.shift c = c + 0x350` sends
  "héllo" (6 bytes) to "θйμμο" (10 bytes).

  Not invariant under renaming (see the end of `Jmes/Proofs/C11BRenameLemmas.lean` for the concrete counterexamples):
  `trim` with the default whitespace set, padding with the default space, `lower` / `upper`. -/

/-- `length` of the renamed string is the same number, although the byte length differs -/
theorem length_rename (f : Nat → Nat) (cs : List Nat) (h : Scalars cs) (h' : Scalars (cs.map f)) :
    length (.str (encodeAll (cs.map f))) = mapRes (renV f) (length (.str (encodeAll cs))) :=
  C11R.length_rename f cs h h'

/-- length("θйμμο") = length("héllo") = 5 (10 and 6 bytes) -/
example : length (.str [0xCE, 0xB8, 0xD0, 0xB9, 0xCE, 0xBC, 0xCE, 0xBC, 0xCE, 0xBF]) = .ok (.num (.int .i64 5)) :=
  length_rename shift hello hello_scalars hello'_scalars

/-- `reverse` of the renamed string is the renamed reverse -/
theorem reverse_rename (f : Nat → Nat) (cs : List Nat) (h : Scalars cs) (h' : Scalars (cs.map f)) :
    reverse (.str (encodeAll (cs.map f))) = mapRes (renV f) (reverse (.str (encodeAll cs))) :=
  C11R.reverse_rename f cs h h'

/-- reverse("θйμμο") = "ομμйθ" = renamed "olléh" -/
example : reverse (.str [0xCE, 0xB8, 0xD0, 0xB9, 0xCE, 0xBC, 0xCE, 0xBC, 0xCE, 0xBF])
    = .ok (.str [0xCE, 0xBF, 0xCE, 0xBC, 0xCE, 0xBC, 0xD0, 0xB9, 0xCE, 0xB8]) :=
  reverse_rename shift hello hello_scalars hello'_scalars

/-- a step-1 slice with the same bounds selects the same positions -/
theorem slice_rename (f : Nat → Nat) (cs : List Nat) (h : Scalars cs) (h' : Scalars (cs.map f)) (start stop : Int) :
    slice (.str (encodeAll (cs.map f))) start stop = mapRes (renV f) (slice (.str (encodeAll cs)) start stop) :=
  C11R.slice_rename f cs h h' start stop

/-- "θйμμο"[1:3] = "йμ" = renamed "él": bytes 2..6 there, bytes 1..4 here -/
example : slice (.str [0xCE, 0xB8, 0xD0, 0xB9, 0xCE, 0xBC, 0xCE, 0xBC, 0xCE, 0xBF]) 1 3 = .ok (.str [0xD0, 0xB9, 0xCE, 0xBC]) :=
  slice_rename shift hello hello_scalars hello'_scalars 1 3

/-- a stepped slice (`step` a non-zero Go `int`, string shorter than 2^63) selects the same positions -/
theorem sliceStep_rename (f : Nat → Nat) (cs : List Nat) (h : Scalars cs) (h' : Scalars (cs.map f))
    (start stop step : Int) (hs : step ≠ 0) (hmin : -2 ^ 63 ≤ step) (hlen : cs.length < 2 ^ 63) :
    sliceStep (.str (encodeAll (cs.map f))) start stop step
      = mapRes (renV f) (sliceStep (.str (encodeAll cs)) start stop step) :=
  C11R.sliceStep_rename f cs h h' start stop step hs hmin hlen

/-- "θйμμο"[::-2] = "ομθ" = renamed "olh" -/
example : sliceStep (.str [0xCE, 0xB8, 0xD0, 0xB9, 0xCE, 0xBC, 0xCE, 0xBC, 0xCE, 0xBF]) (2 ^ 63 - 1) (-2 ^ 63) (-2)
    = .ok (.str [0xCE, 0xBF, 0xCE, 0xBC, 0xCE, 0xB8]) :=
  sliceStep_rename shift hello hello_scalars hello'_scalars (2 ^ 63 - 1) (-2 ^ 63) (-2) (by decide) (by decide)
    (by decide)
/-- "θйμμο"[1::3] = "йο" = renamed "éo" -/
example : sliceStep (.str [0xCE, 0xB8, 0xD0, 0xB9, 0xCE, 0xBC, 0xCE, 0xBC, 0xCE, 0xBF]) 1 (2 ^ 63 - 1) 3
    = .ok (.str [0xD0, 0xB9, 0xCE, 0xBF]) :=
  sliceStep_rename shift hello hello_scalars hello'_scalars 1 (2 ^ 63 - 1) 3 (by decide) (by decide) (by decide)

/-- `find_first(s, p)` on the renamed subject and pattern gives the same code point position (or null), for all
    subjects and patterns including the empty ones (which give null) -/
theorem find_first_rename {f : Nat → Nat} (hf : Inj f) (cs ps : List Nat) (hcs : Scalars cs)
    (hcs' : Scalars (cs.map f)) (hps : Scalars ps) (hps' : Scalars (ps.map f)) :
    findFirst (.str (encodeAll (cs.map f))) (.str (encodeAll (ps.map f)))
      = findFirst (.str (encodeAll cs)) (.str (encodeAll ps)) :=
  C11R.find_first_rename hf cs ps hcs hcs' hps hps'

/-- `find_last(s, p)` on the renamed subject and pattern: the same code point position (or null) -/
theorem find_last_rename {f : Nat → Nat} (hf : Inj f) (cs ps : List Nat) (hcs : Scalars cs)
    (hcs' : Scalars (cs.map f)) (hps : Scalars ps) (hps' : Scalars (ps.map f)) :
    findLast (.str (encodeAll (cs.map f))) (.str (encodeAll (ps.map f)))
      = findLast (.str (encodeAll cs)) (.str (encodeAll ps)) :=
  C11R.find_last_rename hf cs ps hcs hcs' hps hps'

/-- find_first("θйμμο", "μ") = find_first("héllo", "l") = 2 (byte offsets 4 and 3);
    find_last = 3 (byte offsets 6 and 4) -/
example : findFirst (.str [0xCE, 0xB8, 0xD0, 0xB9, 0xCE, 0xBC, 0xCE, 0xBC, 0xCE, 0xBF]) (.str [0xCE, 0xBC])
    = .ok (.num (.int .i64 2)) :=
  find_first_rename shift_mono.toInj hello [0x6C] hello_scalars hello'_scalars (by unfold Scalars; decide)
    (by unfold Scalars; decide)
example : findLast (.str [0xCE, 0xB8, 0xD0, 0xB9, 0xCE, 0xBC, 0xCE, 0xBC, 0xCE, 0xBF]) (.str [0xCE, 0xBC])
    = .ok (.num (.int .i64 3)) :=
  find_last_rename shift_mono.toInj hello [0x6C] hello_scalars hello'_scalars (by unfold Scalars; decide)
    (by unfold Scalars; decide)

/-- `find_first(s, p, start)` / `find_last(s, p, start)`: same `start`, same answer; empty pattern included -/
theorem find_from_rename {f : Nat → Nat} (hf : Inj f) (last : Bool) (cs ps : List Nat) (hcs : Scalars cs)
    (hcs' : Scalars (cs.map f)) (hps : Scalars ps) (hps' : Scalars (ps.map f)) (i : Int) :
    findFrom last (.str (encodeAll (cs.map f))) (.str (encodeAll (ps.map f))) (.num (.int .i64 i))
      = findFrom last (.str (encodeAll cs)) (.str (encodeAll ps)) (.num (.int .i64 i)) :=
  C11R.find_from_rename hf last cs ps hcs hcs' hps hps' i

/-- find_first("θйμμο", "μ", 3) = find_first("héllo", "l", 3) = 3: start 3 is byte 6 there, byte 4 here -/
example : findFirstFrom (.str [0xCE, 0xB8, 0xD0, 0xB9, 0xCE, 0xBC, 0xCE, 0xBC, 0xCE, 0xBF]) (.str [0xCE, 0xBC])
    (.num (.int .i64 3)) = .ok (.num (.int .i64 3)) :=
  find_from_rename shift_mono.toInj false hello [0x6C] hello_scalars hello'_scalars (by unfold Scalars; decide)
    (by unfold Scalars; decide) 3
/-- the empty pattern: find_last("θйμμο", "", 1) = find_last("héllo", "", 1) = 5, the number of code points -/
example : findLastFrom (.str [0xCE, 0xB8, 0xD0, 0xB9, 0xCE, 0xBC, 0xCE, 0xBC, 0xCE, 0xBF]) (.str [])
    (.num (.int .i64 1)) = .ok (.num (.int .i64 5)) :=
  find_from_rename shift_mono.toInj true hello [] hello_scalars hello'_scalars Scalars.nil Scalars.nil 1

/-- `find_first(s, p, start, finish)` / `find_last(…)`: same window bounds, same answer -/
theorem find_between_rename {f : Nat → Nat} (hf : Inj f) (last : Bool) (cs ps : List Nat) (hcs : Scalars cs)
    (hcs' : Scalars (cs.map f)) (hps : Scalars ps) (hps' : Scalars (ps.map f)) (i j : Int) :
    findBetween last (.str (encodeAll (cs.map f))) (.str (encodeAll (ps.map f))) (.num (.int .i64 i))
        (.num (.int .i64 j))
      = findBetween last (.str (encodeAll cs)) (.str (encodeAll ps)) (.num (.int .i64 i)) (.num (.int .i64 j)) :=
  C11R.find_between_rename hf last cs ps hcs hcs' hps hps' i j

/-- find_first("θйμμο", "ο", 0, 5) = find_first("héllo", "o", 0, 5) = 4; with finish 4 (exclusive) both are null -/
example : findFirstBetween (.str [0xCE, 0xB8, 0xD0, 0xB9, 0xCE, 0xBC, 0xCE, 0xBC, 0xCE, 0xBF]) (.str [0xCE, 0xBF])
    (.num (.int .i64 0)) (.num (.int .i64 5)) = .ok (.num (.int .i64 4)) :=
  find_between_rename shift_mono.toInj false hello [0x6F] hello_scalars hello'_scalars (by unfold Scalars; decide)
    (by unfold Scalars; decide) 0 5
example : findFirstBetween (.str [0xCE, 0xB8, 0xD0, 0xB9, 0xCE, 0xBC, 0xCE, 0xBC, 0xCE, 0xBF]) (.str [0xCE, 0xBF])
    (.num (.int .i64 0)) (.num (.int .i64 4)) = .ok .null :=
  find_between_rename shift_mono.toInj false hello [0x6F] hello_scalars hello'_scalars (by unfold Scalars; decide)
    (by unfold Scalars; decide) 0 4

/-- `starts_with` gives the same boolean on the renamed strings -/
theorem starts_with_rename {f : Nat → Nat} (hf : Inj f) (cs ps : List Nat) (hcs : Scalars cs)
    (hcs' : Scalars (cs.map f)) (hps : Scalars ps) (hps' : Scalars (ps.map f)) :
    startsWith (.str (encodeAll (cs.map f))) (.str (encodeAll (ps.map f)))
      = startsWith (.str (encodeAll cs)) (.str (encodeAll ps)) :=
  C11R.starts_with_rename hf cs ps hcs hcs' hps hps'

/-- starts_with("θйμμο", "θй") = starts_with("héllo", "hé") = true -/
example : startsWith (.str [0xCE, 0xB8, 0xD0, 0xB9, 0xCE, 0xBC, 0xCE, 0xBC, 0xCE, 0xBF]) (.str [0xCE, 0xB8, 0xD0, 0xB9])
    = .ok (.bool true) :=
  starts_with_rename shift_mono.toInj hello [0x68, 0xE9] hello_scalars hello'_scalars (by unfold Scalars; decide)
    (by unfold Scalars; decide)

/-- `ends_with` gives the same boolean on the renamed strings -/
theorem ends_with_rename {f : Nat → Nat} (hf : Inj f) (cs ps : List Nat) (hcs : Scalars cs)
    (hcs' : Scalars (cs.map f)) (hps : Scalars ps) (hps' : Scalars (ps.map f)) :
    endsWith (.str (encodeAll (cs.map f))) (.str (encodeAll (ps.map f)))
      = endsWith (.str (encodeAll cs)) (.str (encodeAll ps)) :=
  C11R.ends_with_rename hf cs ps hcs hcs' hps hps'

/-- ends_with("θйμμο", "μο") = ends_with("héllo", "lo") = true (the last 4 bytes there, the last 2 here) -/
example : endsWith (.str [0xCE, 0xB8, 0xD0, 0xB9, 0xCE, 0xBC, 0xCE, 0xBC, 0xCE, 0xBF]) (.str [0xCE, 0xBC, 0xCE, 0xBF])
    = .ok (.bool true) :=
  ends_with_rename shift_mono.toInj hello [0x6C, 0x6F] hello_scalars hello'_scalars (by unfold Scalars; decide)
    (by unfold Scalars; decide)

/-- `contains(string, string)` -/
theorem contains_rename {f : Nat → Nat} (hf : Inj f) (cs ps : List Nat) (hcs : Scalars cs)
    (hcs' : Scalars (cs.map f)) (hps : Scalars ps) (hps' : Scalars (ps.map f)) :
    contains (.str (encodeAll (cs.map f))) (.str (encodeAll (ps.map f)))
      = contains (.str (encodeAll cs)) (.str (encodeAll ps)) :=
  C11R.contains_rename hf cs ps hcs hcs' hps hps'

/-- contains("θйμμο", "йμ") = contains("héllo", "él") = true; the Latin "l" is not in the renamed string -/
example : contains (.str [0xCE, 0xB8, 0xD0, 0xB9, 0xCE, 0xBC, 0xCE, 0xBC, 0xCE, 0xBF]) (.str [0xD0, 0xB9, 0xCE, 0xBC])
    = .ok (.bool true) :=
  contains_rename shift_mono.toInj hello [0xE9, 0x6C] hello_scalars hello'_scalars (by unfold Scalars; decide)
    (by unfold Scalars; decide)
example : contains (.str [0xCE, 0xB8, 0xD0, 0xB9, 0xCE, 0xBC, 0xCE, 0xBC, 0xCE, 0xBF]) (.str [0x6C]) = .ok (.bool false) := by
  rfl

/-- padding the renamed string with the renamed pad character to the same width gives the renamed result (the
    width counts code points: the same number of pad characters is added) -/
theorem pad_rename (f : Nat → Nat) (left : Bool) (cs : List Nat) (hcs : Scalars cs) (hcs' : Scalars (cs.map f))
    (p : Nat) (hp : isScalar p = true) (hp' : isScalar (f p) = true) (w : Int) (hw : 0 ≤ w)
    (hlim : w - cs.length ≤ padLimit) (orig : Val) :
    padWith left (encodeAll (cs.map f)) w (encodeRune (f p)) (renV f orig)
      = mapRes (renV f) (padWith left (encodeAll cs) w (encodeRune p) orig) :=
  C11R.pad_rename f left cs hcs hcs' p hp hp' w hw hlim orig

/-- `pad_left(s, w, p)` with subject and pad character renamed: the renamed result, the width `w` (code points) unchanged -/
theorem padLeft_rename (f : Nat → Nat) (cs : List Nat) (hcs : Scalars cs) (hcs' : Scalars (cs.map f))
    (p : Nat) (hp : isScalar p = true) (hp' : isScalar (f p) = true) (w : Int) (hw : 0 ≤ w)
    (hlim : w - cs.length ≤ padLimit) :
    padLeft (.str (encodeAll (cs.map f))) (.num (.int .i64 w)) (.str (encodeRune (f p)))
      = mapRes (renV f) (padLeft (.str (encodeAll cs)) (.num (.int .i64 w)) (.str (encodeRune p))) :=
  C11R.padLeft_rename f cs hcs hcs' p hp hp' w hw hlim

/-- `pad_right(s, w, p)` likewise -/
theorem padRight_rename (f : Nat → Nat) (cs : List Nat) (hcs : Scalars cs) (hcs' : Scalars (cs.map f))
    (p : Nat) (hp : isScalar p = true) (hp' : isScalar (f p) = true) (w : Int) (hw : 0 ≤ w)
    (hlim : w - cs.length ≤ padLimit) :
    padRight (.str (encodeAll (cs.map f))) (.num (.int .i64 w)) (.str (encodeRune (f p)))
      = mapRes (renV f) (padRight (.str (encodeAll cs)) (.num (.int .i64 w)) (.str (encodeRune p))) :=
  C11R.padRight_rename f cs hcs hcs' p hp hp' w hw hlim

/-- pad_left("θйμμο", 7, "й") = "ййθйμμο" = renamed pad_left("héllo", 7, "é"): two pad characters in both -/
example : padLeft (.str [0xCE, 0xB8, 0xD0, 0xB9, 0xCE, 0xBC, 0xCE, 0xBC, 0xCE, 0xBF]) (.num (.int .i64 7)) (.str [0xD0, 0xB9])
    = .ok (.str [0xD0, 0xB9, 0xD0, 0xB9, 0xCE, 0xB8, 0xD0, 0xB9, 0xCE, 0xBC, 0xCE, 0xBC, 0xCE, 0xBF]) :=
  padLeft_rename shift hello hello_scalars hello'_scalars 0xE9 (by decide) (by decide) 7 (by decide) (by decide)
/-- pad_right("θйμμο", 5, "κ") is unchanged although the string has 10 bytes -/
example : padRight (.str [0xCE, 0xB8, 0xD0, 0xB9, 0xCE, 0xBC, 0xCE, 0xBC, 0xCE, 0xBF]) (.num (.int .i64 5)) (.str [0xCE, 0xBA])
    = .ok (.str [0xCE, 0xB8, 0xD0, 0xB9, 0xCE, 0xBC, 0xCE, 0xBC, 0xCE, 0xBF]) :=
  padRight_rename shift hello hello_scalars hello'_scalars 0x6A (by decide) (by decide) 5 (by decide) (by decide)

/-- `split(s, '')`: one piece per code point, each renamed -/
theorem split_empty_sep_rename (f : Nat → Nat) (cs : List Nat) (hcs : Scalars cs) (hcs' : Scalars (cs.map f)) :
    split (.str (encodeAll (cs.map f))) (.str []) = mapRes (renV f) (split (.str (encodeAll cs)) (.str [])) :=
  C11R.split_empty_sep_rename f cs hcs hcs'

/-- split("θйμμο", "") = ["θ", "й", "μ", "μ", "ο"] -/
example : split (.str [0xCE, 0xB8, 0xD0, 0xB9, 0xCE, 0xBC, 0xCE, 0xBC, 0xCE, 0xBF]) (.str []) =
    .ok (.arr .plain [.str [0xCE, 0xB8], .str [0xD0, 0xB9], .str [0xCE, 0xBC], .str [0xCE, 0xBC], .str [0xCE, 0xBF]]) :=
  split_empty_sep_rename shift hello hello_scalars hello'_scalars

/-- `split(s, '', n)`: the same number of cuts, the remainder kept whole -/
theorem split_count_empty_sep_rename (f : Nat → Nat) (cs : List Nat) (hcs : Scalars cs) (hcs' : Scalars (cs.map f))
    (hne : cs ≠ []) (n : Int) (hn : 0 < n) :
    splitCount (.str (encodeAll (cs.map f))) (.str []) (.num (.int .i64 n))
      = mapRes (renV f) (splitCount (.str (encodeAll cs)) (.str []) (.num (.int .i64 n))) :=
  C11R.split_count_empty_sep_rename f cs hcs hcs' hne n hn

/-- split("θйμμο", "", 2) = ["θ", "й", "μμο"] -/
example : splitCount (.str [0xCE, 0xB8, 0xD0, 0xB9, 0xCE, 0xBC, 0xCE, 0xBC, 0xCE, 0xBF]) (.str []) (.num (.int .i64 2)) =
    .ok (.arr .plain [.str [0xCE, 0xB8], .str [0xD0, 0xB9], .str [0xCE, 0xBC, 0xCE, 0xBC, 0xCE, 0xBF]]) :=
  split_count_empty_sep_rename shift hello hello_scalars hello'_scalars (by decide) 2 (by decide)

/-- `split(s, sep)` for every subject and every separator (empty ones included): the pieces are renamed, their
    number and order unchanged -/
theorem split_rename {f : Nat → Nat} (hf : Inj f) (cs ps : List Nat) (hcs : Scalars cs) (hcs' : Scalars (cs.map f))
    (hps : Scalars ps) (hps' : Scalars (ps.map f)) :
    split (.str (encodeAll (cs.map f))) (.str (encodeAll (ps.map f)))
      = mapRes (renV f) (split (.str (encodeAll cs)) (.str (encodeAll ps))) :=
  C11R.split_rename hf cs ps hcs hcs' hps hps'

/-- split("θйμμο", "μ") = ["θй", "", "ο"] = renamed split("héllo", "l") = ["hé", "", "o"] -/
example : split (.str [0xCE, 0xB8, 0xD0, 0xB9, 0xCE, 0xBC, 0xCE, 0xBC, 0xCE, 0xBF]) (.str [0xCE, 0xBC])
    = .ok (.arr .plain [.str [0xCE, 0xB8, 0xD0, 0xB9], .str [], .str [0xCE, 0xBF]]) :=
  split_rename shift_mono.toInj hello [0x6C] hello_scalars hello'_scalars (by unfold Scalars; decide)
    (by unfold Scalars; decide)

/-- `split(s, sep, n)` for every subject, separator and count -/
theorem split_count_rename {f : Nat → Nat} (hf : Inj f) (cs ps : List Nat) (hcs : Scalars cs)
    (hcs' : Scalars (cs.map f)) (hps : Scalars ps) (hps' : Scalars (ps.map f)) (n : Int) :
    splitCount (.str (encodeAll (cs.map f))) (.str (encodeAll (ps.map f))) (.num (.int .i64 n))
      = mapRes (renV f) (splitCount (.str (encodeAll cs)) (.str (encodeAll ps)) (.num (.int .i64 n))) :=
  C11R.split_count_rename hf cs ps hcs hcs' hps hps' n

/-- split("θйμμο", "μ", 1) = ["θй", "μο"] -/
example : splitCount (.str [0xCE, 0xB8, 0xD0, 0xB9, 0xCE, 0xBC, 0xCE, 0xBC, 0xCE, 0xBF]) (.str [0xCE, 0xBC]) (.num (.int .i64 1))
    = .ok (.arr .plain [.str [0xCE, 0xB8, 0xD0, 0xB9], .str [0xCE, 0xBC, 0xCE, 0xBF]]) :=
  split_count_rename shift_mono.toInj hello [0x6C] hello_scalars hello'_scalars (by unfold Scalars; decide)
    (by unfold Scalars; decide) 1

/-- `trim_left(s, cut)` with a non-empty cutset: subject and cutset renamed, result renamed -/
theorem trimLeft_rename {f : Nat → Nat} (hf : Inj f) (cs cut : List Nat) (hcs : Scalars cs)
    (hcs' : Scalars (cs.map f)) (hcut : Scalars cut) (hcut' : Scalars (cut.map f)) (hne : cut ≠ []) :
    trimLeft (.str (encodeAll (cs.map f))) (.str (encodeAll (cut.map f)))
      = mapRes (renV f) (trimLeft (.str (encodeAll cs)) (.str (encodeAll cut))) :=
  C11R.trimLeft_rename hf cs cut hcs hcs' hcut hcut' hne

/-- `trim_right(s, cut)` with subject and cutset renamed: the renamed result -/
theorem trimRight_rename {f : Nat → Nat} (hf : Inj f) (cs cut : List Nat) (hcs : Scalars cs)
    (hcs' : Scalars (cs.map f)) (hcut : Scalars cut) (hcut' : Scalars (cut.map f)) (hne : cut ≠ []) :
    trimRight (.str (encodeAll (cs.map f))) (.str (encodeAll (cut.map f)))
      = mapRes (renV f) (trimRight (.str (encodeAll cs)) (.str (encodeAll cut))) :=
  C11R.trimRight_rename hf cs cut hcs hcs' hcut hcut' hne

/-- `trim(s, cut)` with subject and cutset renamed: the renamed result -/
theorem trim_rename {f : Nat → Nat} (hf : Inj f) (cs cut : List Nat) (hcs : Scalars cs)
    (hcs' : Scalars (cs.map f)) (hcut : Scalars cut) (hcut' : Scalars (cut.map f)) (hne : cut ≠ []) :
    trim (.str (encodeAll (cs.map f))) (.str (encodeAll (cut.map f)))
      = mapRes (renV f) (trim (.str (encodeAll cs)) (.str (encodeAll cut))) :=
  C11R.trim_rename hf cs cut hcs hcs' hcut hcut' hne

/-- trim("θйμμο", "οθ") = "йμμ" = renamed trim("héllo", "oh") = "éll" -/
example : trim (.str [0xCE, 0xB8, 0xD0, 0xB9, 0xCE, 0xBC, 0xCE, 0xBC, 0xCE, 0xBF]) (.str [0xCE, 0xBF, 0xCE, 0xB8])
    = .ok (.str [0xD0, 0xB9, 0xCE, 0xBC, 0xCE, 0xBC]) :=
  trim_rename shift_mono.toInj hello [0x6F, 0x68] hello_scalars hello'_scalars (by unfold Scalars; decide)
    (by unfold Scalars; decide) (by decide)
/-- trim_left("θйμμο", "йθ") = "μμο" -/
example : trimLeft (.str [0xCE, 0xB8, 0xD0, 0xB9, 0xCE, 0xBC, 0xCE, 0xBC, 0xCE, 0xBF]) (.str [0xD0, 0xB9, 0xCE, 0xB8])
    = .ok (.str [0xCE, 0xBC, 0xCE, 0xBC, 0xCE, 0xBF]) :=
  trimLeft_rename shift_mono.toInj hello [0xE9, 0x68] hello_scalars hello'_scalars (by unfold Scalars; decide)
    (by unfold Scalars; decide) (by decide)

/-- `replace(s, old, new)`: all three renamed, result renamed (an empty `old` included: `new` goes between code
    points) -/
theorem replace_rename {f : Nat → Nat} (hf : Inj f) (cs os ns : List Nat) (hcs : Scalars cs)
    (hcs' : Scalars (cs.map f)) (hos : Scalars os) (hos' : Scalars (os.map f)) (hns : Scalars ns)
    (hns' : Scalars (ns.map f)) :
    replace (.str (encodeAll (cs.map f))) (.str (encodeAll (os.map f))) (.str (encodeAll (ns.map f)))
      = mapRes (renV f) (replace (.str (encodeAll cs)) (.str (encodeAll os)) (.str (encodeAll ns))) :=
  C11R.replace_rename hf cs os ns hcs hcs' hos hos' hns hns'

/-- `replace(s, old, new, count)` for every count (negative: invalid-value in both) -/
theorem replace_count_rename {f : Nat → Nat} (hf : Inj f) (cs os ns : List Nat) (hcs : Scalars cs)
    (hcs' : Scalars (cs.map f)) (hos : Scalars os) (hos' : Scalars (os.map f)) (hns : Scalars ns)
    (hns' : Scalars (ns.map f)) (k : Int) :
    replaceCount (.str (encodeAll (cs.map f))) (.str (encodeAll (os.map f))) (.str (encodeAll (ns.map f)))
        (.num (.int .i64 k))
      = mapRes (renV f) (replaceCount (.str (encodeAll cs)) (.str (encodeAll os)) (.str (encodeAll ns))
          (.num (.int .i64 k))) :=
  C11R.replace_count_rename hf cs os ns hcs hcs' hos hos' hns hns' k

/-- replace("θйμμο", "μ", "й") = "θйййο" = renamed replace("héllo", "l", "é") = "héééo" -/
example : replace (.str [0xCE, 0xB8, 0xD0, 0xB9, 0xCE, 0xBC, 0xCE, 0xBC, 0xCE, 0xBF]) (.str [0xCE, 0xBC]) (.str [0xD0, 0xB9])
    = .ok (.str [0xCE, 0xB8, 0xD0, 0xB9, 0xD0, 0xB9, 0xD0, 0xB9, 0xCE, 0xBF]) :=
  replace_rename shift_mono.toInj hello [0x6C] [0xE9] hello_scalars hello'_scalars (by unfold Scalars; decide)
    (by unfold Scalars; decide) (by unfold Scalars; decide) (by unfold Scalars; decide)
/-- replace("θйμμο", "", "α", 2) = "αθαйμμο": the empty string is found between code points in both -/
example : replaceCount (.str [0xCE, 0xB8, 0xD0, 0xB9, 0xCE, 0xBC, 0xCE, 0xBC, 0xCE, 0xBF]) (.str []) (.str [0xCE, 0xB1])
      (.num (.int .i64 2))
    = .ok (.str [0xCE, 0xB1, 0xCE, 0xB8, 0xCE, 0xB1, 0xD0, 0xB9, 0xCE, 0xBC, 0xCE, 0xBC, 0xCE, 0xBF]) :=
  replace_count_rename shift_mono.toInj hello [] [0x61] hello_scalars hello'_scalars Scalars.nil Scalars.nil
    (by unfold Scalars; decide) (by unfold Scalars; decide) 2

/-- `join(sep, array of strings)`: separator and elements renamed, result renamed (an array obtained by ranging over
    a Go map with two or more elements is order-dependent in both) -/
theorem join_rename (f : Nat → Nat) (t : ATag) (sep : List Nat) (css : List (List Nat)) (hsep : Scalars sep)
    (h : ∀ cs ∈ css, Scalars cs) :
    join (.str (encodeAll (sep.map f))) (.arr t ((css.map (fun cs => encodeAll (cs.map f))).map Val.str))
      = mapRes (renV f) (join (.str (encodeAll sep)) (.arr t ((css.map encodeAll).map Val.str))) :=
  C11R.join_rename f t sep css hsep h

/-- join("μ", ["θ", "й"]) = "θμй" = renamed join("l", ["h", "é"]) = "hlé" -/
example : join (.str [0xCE, 0xBC]) (.arr .plain [.str [0xCE, 0xB8], .str [0xD0, 0xB9]])
    = .ok (.str [0xCE, 0xB8, 0xCE, 0xBC, 0xD0, 0xB9]) :=
  join_rename shift .plain [0x6C] [[0x68], [0xE9]] (by unfold Scalars; decide) (by
    intro cs hcs
    rcases List.mem_cons.1 hcs with rfl | hcs
    · unfold Scalars; decide
    · rcases List.mem_cons.1 hcs with rfl | hcs
      · unfold Scalars; decide
      · cases hcs)

/-- Go's `<` on the renamed strings is Go's `<` on the original strings -/
theorem bytesLt_rename {f : Nat → Nat} (hm : Mono f) (as bs : List Nat) (ha : Scalars as) (ha' : Scalars (as.map f))
    (hb : Scalars bs) (hb' : Scalars (bs.map f)) :
    bytesLt (encodeAll (as.map f)) (encodeAll (bs.map f)) = bytesLt (encodeAll as) (encodeAll bs) :=
  C11R.bytesLt_rename hm as bs ha ha' hb hb'

/-- "z" < "é" and, renamed, "ϊ" (CF 8A) < "й" (D0 B9); "é" < "z" is false in both -/
example : bytesLt [0xCF, 0x8A] [0xD0, 0xB9] = bytesLt [0x7A] [0xC3, 0xA9] :=
  bytesLt_rename shift_mono [0x7A] [0xE9] (by unfold Scalars; decide) (by unfold Scalars; decide)
    (by unfold Scalars; decide) (by unfold Scalars; decide)
/-- monotonicity is needed: swapping `a` and `b` is injective but reverses "a" < "b" -/
example : bytesLt (encodeAll ([0x61].map (fun c => if c = 0x61 then 0x62 else if c = 0x62 then 0x61 else c)))
      (encodeAll ([0x62].map (fun c => if c = 0x61 then 0x62 else if c = 0x62 then 0x61 else c))) = false
    ∧ bytesLt (encodeAll [0x61]) (encodeAll [0x62]) = true := by decide

/-- the same, stated with `renB` for strings that can be renamed (`Renamable`) -/
theorem bytesLt_renB {f : Nat → Nat} (hm : Mono f) {a b : Bytes} (ha : Renamable f a) (hb : Renamable f b) :
    bytesLt (renB f a) (renB f b) = bytesLt a b :=
  C11R.bytesLt_renB hm ha hb

/-- `max()` of an array of strings: the renamed array has the renamed maximum -/
theorem arrayMax_rename {f : Nat → Nat} (hm : Mono f) (t : ATag) (ss : List Bytes) (h : ∀ s ∈ ss, Renamable f s) :
    arrayMax (.arr t ((ss.map (renB f)).map Val.str)) = mapRes (renV f) (arrayMax (.arr t (ss.map Val.str))) :=
  C11R.arrayMax_rename hm t ss h

/-- `min()` likewise -/
theorem arrayMin_rename {f : Nat → Nat} (hm : Mono f) (t : ATag) (ss : List Bytes) (h : ∀ s ∈ ss, Renamable f s) :
    arrayMin (.arr t ((ss.map (renB f)).map Val.str)) = mapRes (renV f) (arrayMin (.arr t (ss.map Val.str))) :=
  C11R.arrayMin_rename hm t ss h

/-- `sort()` of an array of strings: the renamed array sorts to the renamed sorted array (the same permutation) -/
theorem sortArray_rename {f : Nat → Nat} (hm : Mono f) (t : ATag) (ss : List Bytes) (h : ∀ s ∈ ss, Renamable f s) :
    sortArray (.arr t ((ss.map (renB f)).map Val.str)) = mapRes (renV f) (sortArray (.arr t (ss.map Val.str))) :=
  C11R.sortArray_rename hm t ss h

/-- sort(["z", "é", "a"]) = ["a", "z", "é"] and sort(["ϊ", "й", "α"]) = ["α", "ϊ", "й"] -/
example : sortArray (.arr .plain [.str [0xCF, 0x8A], .str [0xD0, 0xB9], .str [0xCE, 0xB1]])
    = .ok (.arr .plain [.str [0xCE, 0xB1], .str [0xCF, 0x8A], .str [0xD0, 0xB9]]) := by
  have := sortArray_rename shift_mono .plain [[0x7A], [0xC3, 0xA9], [0x61]] (by
    intro s hs
    rcases List.mem_cons.1 hs with rfl | hs
    · exact Renamable.mk (cs := [0x7A]) (by unfold Scalars; decide) (by unfold Scalars; decide)
    · rcases List.mem_cons.1 hs with rfl | hs
      · exact Renamable.mk (cs := [0xE9]) (by unfold Scalars; decide) (by unfold Scalars; decide)
      · rcases List.mem_cons.1 hs with rfl | hs
        · exact Renamable.mk (cs := [0x61]) (by unfold Scalars; decide) (by unfold Scalars; decide)
        · cases hs)
  have e : sortArray (.arr .plain ([[0x7A], [0xC3, 0xA9], [0x61]].map Val.str))
      = .ok (.arr .plain [.str [0x61], .str [0x7A], .str [0xC3, 0xA9]]) := by
    simp [sortArray, allStrings, List.mergeSort, bytesLt]
  rw [e] at this
  exact this



/-! ## F. counts, positions and widths in any accepted representation — for the theorems of D and E

  The theorems above fix numeric arguments as `int64`; by the `…_intArg` lemmas of section A they hold for every value
  `v` with `intArg v = .ok i` (JSON numbers, decimals, floats holding an integer, every Go integer kind). -/

/-- `split(s, sep, n)` on a non-empty separator, `n > 0` cuts at most, the count in any representation -/
theorem split_count_sep_codepoints_any (cs ps : List Nat) (hcs : Scalars cs) (hps : Scalars ps) (hc : cs ≠ [])
    (hp : ps ≠ []) {v : Val} {n : Int} (hv : intArg v = .ok n) (hn : 0 < n) :
    splitCount (.str (encodeAll cs)) (.str (encodeAll ps)) v
      = .ok (strsToArr ((splitOn cs ps (some n.toNat)).map encodeAll)) := by
  rw [splitCount_intArg _ _ hv, splitCount_str, if_neg (by omega), if_neg (by omega), isEmpty_encodeAll cs hc,
    isEmpty_encodeAll ps hp]
  simp only [Bool.false_eq_true, if_false]
  rw [C11S.splitOn_encodeAll cs ps hcs hps hp]

/-- split("héllo", "l", `1`) = ["hé", "lo"] -/
example : splitCount (.str (encodeAll hello)) (.str [0x6C]) (.num (.jnum [0x31]))
    = .ok (.arr .plain [.str [0x68, 0xC3, 0xA9], .str [0x6C, 0x6F]]) :=
  (split_count_sep_codepoints_any hello [0x6C] hello_scalars (by unfold Scalars; decide) (by decide) (by decide)
    (intArg_jnum (t := [0x31]) (i := 1) (by decide)) (by decide)).trans rfl

/-- `replace(s, old, new, count)`, the count in any representation (a negative one is `invalid-value`) -/
theorem replace_count_codepoints_any (cs os ns : List Nat) (hcs : Scalars cs) (hos : Scalars os) (hns : Scalars ns)
    {v : Val} {k : Int} (hv : intArg v = .ok k) :
    replaceCount (.str (encodeAll cs)) (.str (encodeAll os)) (.str (encodeAll ns)) v
      = if k < 0 then errValue else .ok (.str (encodeAll (cpReplace cs os ns (some k.toNat)))) := by
  rw [replaceCount_intArg _ _ _ hv, replaceCount_str]
  split
  · rfl
  · rw [C11S.stringsReplace_encodeAll cs os ns hcs hos hns]

/-- replace("héllo", "l", "ł", `1.0`) = "héłlo" -/
example : replaceCount (.str (encodeAll hello)) (.str [0x6C]) (.str [0xC5, 0x82]) (.num (.jnum [0x31, 0x2E, 0x30]))
    = .ok (.str [0x68, 0xC3, 0xA9, 0xC5, 0x82, 0x6C, 0x6F]) :=
  (replace_count_codepoints_any hello [0x6C] [0x142] hello_scalars (by unfold Scalars; decide)
    (by unfold Scalars; decide) (v := .num (.jnum [0x31, 0x2E, 0x30])) (k := 1) (by decide)).trans rfl

/-- renaming and `find_first/last(s, p, start)`, start in any representation -/
theorem find_from_rename_any {f : Nat → Nat} (hf : Inj f) (last : Bool) (cs ps : List Nat) (hcs : Scalars cs)
    (hcs' : Scalars (cs.map f)) (hps : Scalars ps) (hps' : Scalars (ps.map f)) {v : Val} {i : Int}
    (hv : intArg v = .ok i) :
    findFrom last (.str (encodeAll (cs.map f))) (.str (encodeAll (ps.map f))) v
      = findFrom last (.str (encodeAll cs)) (.str (encodeAll ps)) v := by
  rw [findFrom_intArg last _ _ hv, findFrom_intArg last _ _ hv]
  exact find_from_rename hf last cs ps hcs hcs' hps hps' i

/-- renaming and `find_first/last(s, p, start, finish)` -/
theorem find_between_rename_any {f : Nat → Nat} (hf : Inj f) (last : Bool) (cs ps : List Nat) (hcs : Scalars cs)
    (hcs' : Scalars (cs.map f)) (hps : Scalars ps) (hps' : Scalars (ps.map f)) {v w : Val} {i j : Int}
    (hv : intArg v = .ok i) (hw : intArg w = .ok j) :
    findBetween last (.str (encodeAll (cs.map f))) (.str (encodeAll (ps.map f))) v w
      = findBetween last (.str (encodeAll cs)) (.str (encodeAll ps)) v w := by
  rw [findBetween_intArg last _ _ hv hw, findBetween_intArg last _ _ hv hw]
  exact find_between_rename hf last cs ps hcs hcs' hps hps' i j

/-- find_first("θйμμο", "μ", `3`) = find_first("héllo", "l", `3`) -/
example : findFirstFrom (.str (encodeAll (hello.map shift))) (.str (encodeAll ([0x6C].map shift))) (.num (.jnum [0x33]))
    = findFirstFrom (.str (encodeAll hello)) (.str (encodeAll [0x6C])) (.num (.jnum [0x33])) :=
  find_from_rename_any shift_mono.toInj false hello [0x6C] hello_scalars hello'_scalars (by unfold Scalars; decide)
    (by unfold Scalars; decide) (intArg_jnum (t := [0x33]) (i := 3) (by decide))

/-- renaming and `pad_left` / `pad_right`, width in any representation -/
theorem pad_rename_any (f : Nat → Nat) (cs : List Nat) (hcs : Scalars cs) (hcs' : Scalars (cs.map f))
    (p : Nat) (hp : isScalar p = true) (hp' : isScalar (f p) = true) {v : Val} {w : Int} (hv : intArg v = .ok w)
    (hw : 0 ≤ w) (hlim : w - cs.length ≤ padLimit) :
    padLeft (.str (encodeAll (cs.map f))) v (.str (encodeRune (f p)))
        = mapRes (renV f) (padLeft (.str (encodeAll cs)) v (.str (encodeRune p))) ∧
    padRight (.str (encodeAll (cs.map f))) v (.str (encodeRune (f p)))
        = mapRes (renV f) (padRight (.str (encodeAll cs)) v (.str (encodeRune p))) := by
  rw [padLeft_intArg _ _ hv, padLeft_intArg _ _ hv, padRight_intArg _ _ hv, padRight_intArg _ _ hv]
  exact ⟨padLeft_rename f cs hcs hcs' p hp hp' w hw hlim, padRight_rename f cs hcs hcs' p hp hp' w hw hlim⟩

/-- renaming and `split(s, sep, n)` / `replace(s, old, new, n)`, count in any representation -/
theorem split_count_rename_any {f : Nat → Nat} (hf : Inj f) (cs ps : List Nat) (hcs : Scalars cs)
    (hcs' : Scalars (cs.map f)) (hps : Scalars ps) (hps' : Scalars (ps.map f)) {v : Val} {n : Int}
    (hv : intArg v = .ok n) :
    splitCount (.str (encodeAll (cs.map f))) (.str (encodeAll (ps.map f))) v
      = mapRes (renV f) (splitCount (.str (encodeAll cs)) (.str (encodeAll ps)) v) := by
  rw [splitCount_intArg _ _ hv, splitCount_intArg _ _ hv]
  exact split_count_rename hf cs ps hcs hcs' hps hps' n

theorem replace_count_rename_any {f : Nat → Nat} (hf : Inj f) (cs os ns : List Nat) (hcs : Scalars cs)
    (hcs' : Scalars (cs.map f)) (hos : Scalars os) (hos' : Scalars (os.map f)) (hns : Scalars ns)
    (hns' : Scalars (ns.map f)) {v : Val} {k : Int} (hv : intArg v = .ok k) :
    replaceCount (.str (encodeAll (cs.map f))) (.str (encodeAll (os.map f))) (.str (encodeAll (ns.map f))) v
      = mapRes (renV f) (replaceCount (.str (encodeAll cs)) (.str (encodeAll os)) (.str (encodeAll ns)) v) := by
  rw [replaceCount_intArg _ _ _ hv, replaceCount_intArg _ _ _ hv]
  exact replace_count_rename hf cs os ns hcs hcs' hos hos' hns hns' k

/-- split("θйμμο", "μ", `1`) is the renamed split("héllo", "l", `1`) -/
example : splitCount (.str (encodeAll (hello.map shift))) (.str (encodeAll ([0x6C].map shift))) (.num (.jnum [0x31]))
    = mapRes (renV shift) (splitCount (.str (encodeAll hello)) (.str (encodeAll [0x6C])) (.num (.jnum [0x31]))) :=
  split_count_rename_any shift_mono.toInj hello [0x6C] hello_scalars hello'_scalars (by unfold Scalars; decide)
    (by unfold Scalars; decide) (intArg_jnum (t := [0x31]) (i := 1) (by decide))

/-! ## G. given valid UTF-8 input every string in the result is valid UTF-8 — the search-level invariant

  `Val.Valid v` (`Jmes/Proofs/C11BValidLemmas.lean`): every string inside `v` — string values and, at any depth, object
  keys (`keys()`, `items()` expose them) — is valid UTF-8. `INode.ValidLits n`: every literal of the expression is such a
  value and the member keys of its multi-select hashes are valid UTF-8. The evaluator preserves `Valid`
  (`ieval_valid`: a closure proof over all node forms and all builtins, in the style of `Proofs/Invariants.lean`), and
  every compiled expression has `ValidLits` (`parse_validLits`, `Jmes/Proofs/C11BValidLemmas2.lean`: the lexer rejects
  ill-formed UTF-8, un-escaping preserves validity, `encoding/json` replaces invalid bytes by U+FFFD). Together:
  `search_valid_any` — NO hypothesis on the expression. -/

open Jmes.C11V hiding ieval_valid ievalList_valid ievalFields_valid ievalMerge_valid ievalNotNull_valid ievalZip_valid evaluate_valid search_valid search_valid' encode_valid valid_out_split valid_out_splitCount valid_out_replace valid_out_replaceCount valid_out_trim valid_out_trimLeft valid_out_trimRight valid_out_trimSpace valid_out_trimSpaceLeft valid_out_trimSpaceRight valid_out_join valid_out_lower valid_out_upper valid_out_toString valid_out_toString_nonstring valid_out_keys valid_out_items valid_out_fromItems parseStringLiteral_valid parseQuotedIdentifier_valid Json.decode_valid parseJSONLiteral_valid lexAll_valid parse_validLits compile_validLits search_valid_any compiled_search_valid

/-- **C11, valid in ⇒ valid out (evaluator step).** If the root, the current value and the variable bindings contain only
    valid UTF-8 strings (object keys included) and so do the literals of the expression, every string in a result is
    valid UTF-8. -/
theorem ieval_valid {root cur : Val} {env : Env} {n : INode} {r : Val} (hroot : root.Valid = true)
    (hcur : cur.Valid = true) (henv : Env.ValidVals env = true) (hn : n.ValidLits = true)
    (h : ieval root n cur env = .ok r) : r.Valid = true :=
  C11V.ieval_valid hroot hcur henv hn h

/-- argument lists / multi-select lists: every value valid -/
theorem ievalList_valid {root cur : Val} {env : Env} {ns : List INode} {rs : List Val} (hroot : root.Valid = true)
    (hcur : cur.Valid = true) (henv : Env.ValidVals env = true) (hn : INode.allL INode.validHead ns = true)
    (h : ievalList root ns cur env = .ok rs) : Val.ValidL rs = true :=
  C11V.ievalList_valid hroot hcur henv hn h

/-- members of a multi-select hash: valid values; the keys are keys of the expression -/
theorem ievalFields_valid {root cur : Val} {env : Env} {fs : List (Bytes × INode)} {kvs : List (Bytes × Val)}
    (hroot : root.Valid = true) (hcur : cur.Valid = true) (henv : Env.ValidVals env = true)
    (hn : INode.allF INode.validHead fs = true) (hk : fs.all (fun kn => validUTF8 kn.1) = true)
    (h : ievalFields root fs cur env = .ok kvs) : Val.ValidF kvs = true :=
  C11V.ievalFields_valid hroot hcur henv hn hk h

/-- `merge`: the merged object is valid when the accumulator is -/
theorem ievalMerge_valid {root cur : Val} {env : Env} {ns : List INode} {acc kvs : List (Bytes × Val)}
    (hroot : root.Valid = true) (hcur : cur.Valid = true) (henv : Env.ValidVals env = true)
    (hn : INode.allL INode.validHead ns = true) (hacc : Val.ValidF acc = true)
    (h : ievalMerge root ns cur env acc = .ok kvs) : Val.ValidF kvs = true :=
  C11V.ievalMerge_valid hroot hcur henv hn hacc h

/-- `not_null` -/
theorem ievalNotNull_valid {root cur : Val} {env : Env} {ns : List INode} {r : Val} (hroot : root.Valid = true)
    (hcur : cur.Valid = true) (henv : Env.ValidVals env = true) (hn : INode.allL INode.validHead ns = true)
    (h : ievalNotNull root ns cur env = .ok r) : r.Valid = true :=
  C11V.ievalNotNull_valid hroot hcur henv hn h

/-- `zip`: the argument arrays are valid -/
theorem ievalZip_valid {root cur : Val} {env : Env} {ns : List INode} {rs : List Val} (hroot : root.Valid = true)
    (hcur : cur.Valid = true) (henv : Env.ValidVals env = true) (hn : INode.allL INode.validHead ns = true)
    (h : ievalZip root ns cur env = .ok rs) : Val.ValidL rs = true :=
  C11V.ievalZip_valid hroot hcur henv hn h

/-- **C11, valid in ⇒ valid out (`Expression.Search`).** -/
theorem evaluate_valid {n : INode} {d r : Val} (hd : d.Valid = true) (hn : n.ValidLits = true)
    (h : evaluate n d = .ok r) : r.Valid = true :=
  C11V.evaluate_valid hd hn h

/-- **C11, valid in ⇒ valid out (`Search`).** The hypothesis on the compiled expression is about its literals only. -/
theorem search_valid {e : Bytes} {d r : Val} (hd : d.Valid = true)
    (hn : ∀ n, Parser.parse e = .ok n → n.ValidLits = true) (h : search e d = .ok r) : r.Valid = true :=
  C11V.search_valid hd hn h

/-- the same, with the compiled expression at hand -/
theorem search_valid' {e : Bytes} {n : INode} {d r : Val} (hd : d.Valid = true) (hp : compile e = .ok n)
    (hn : n.ValidLits = true) (h : search e d = .ok r) : r.Valid = true :=
  C11V.search_valid' hd hp hn h


/-- the hypotheses are satisfiable and the conclusion is what one expects: `split(@, 'ö')` on "héllo wörld" is
    ["héllo w", "rld"] -/
example : evaluate splitOnOe (.str helloWorldB) =
    .ok (.arr .plain [.str [0x68, 0xC3, 0xA9, 0x6C, 0x6C, 0x6F, 0x20, 0x77], .str [0x72, 0x6C, 0x64]]) := by
  with_unfolding_all rfl
example : ∀ r, evaluate splitOnOe (.str helloWorldB) = .ok r → r.Valid = true :=
  fun _ h => evaluate_valid (by decide) (by decide) h
/-- the hypothesis on the data matters: slicing the invalid string `C3 41` at `[0:1]` gives the lone byte `C3` -/
example : evaluate (.sliceCurrent 0 1) (.str [0xC3, 0x41]) = .ok (.str [0xC3]) := by with_unfolding_all rfl
example : (Val.str [0xC3, 0x41]).Valid = false ∧ (Val.str [0xC3]).Valid = false := by decide
/-- the hypothesis on the literals matters (for hand-made nodes; compiled ones always satisfy it): joining with an
    invalid separator -/
example : evaluate (.call .join [.lit (.str [0xFF]), .current]) (.arr .plain [.str [0x61], .str [0x62]]) =
    .ok (.str [0x61, 0xFF, 0x62]) := by with_unfolding_all rfl
example : (INode.call .join [.lit (.str [0xFF]), .current]).ValidLits = false := by decide
/-- object keys count: an object with an invalid key is not a valid value, `keys` would expose it as a string -/
example : (Val.obj [([0xFF], .null)]).Valid = false := by decide
example : keys (.obj [([0xFF], .null)]) = .ok (.arr .enum [.str [0xFF]]) := rfl

/-! ### per function (the functions not covered by `C11.valid_out_*`) -/

/-- `json.Marshal` (behind `to_string`) writes valid UTF-8 for ANY value: strings are copied code point by code point,
    an invalid byte becomes the escape `\ufffd`; numbers are ASCII -/
theorem encode_valid (v : Val) {b : Bytes} (h : Json.encode v = .ok b) : validUTF8 b = true := C11V.encode_valid v h

/-- to_string([<FF>]) is the valid text `["\ufffd"]` -/
example : toStringV (.arr .plain [.str [0xFF]]) = .ok (.str [0x5B, 0x22, 0x5C, 0x75, 0x66, 0x66, 0x66, 0x64, 0x22, 0x5D]) := by
  with_unfolding_all rfl

/-- `split(s, sep)`, any separator (empty or not): valid pieces -/
theorem valid_out_split {s p : Bytes} (hs : validUTF8 s = true) (hp : validUTF8 p = true) {r : Val}
    (h : split (.str s) (.str p) = .ok r) : r.Valid = true := C11V.valid_out_split hs hp h

/-- `split(s, sep, n)`, any count value -/
theorem valid_out_splitCount {s p : Bytes} (hs : validUTF8 s = true) (hp : validUTF8 p = true) (n : Val) {r : Val}
    (h : splitCount (.str s) (.str p) n = .ok r) : r.Valid = true := C11V.valid_out_splitCount hs hp n h

example : ∀ r, split (.str helloWorldB) (.str [0xC3, 0xB6]) = .ok r → r.Valid = true :=
  fun _ h => valid_out_split (by decide) (by decide) h
/-- the hypothesis on the separator matters: the invalid separator `A9` cuts "é" = `C3 A9` in two -/
example : split (.str [0xC3, 0xA9]) (.str [0xA9]) = .ok (.arr .plain [.str [0xC3], .str []]) := by
  with_unfolding_all rfl

/-- `replace(s, old, new)` -/
theorem valid_out_replace {s old new : Bytes} (hs : validUTF8 s = true) (ho : validUTF8 old = true)
    (hn : validUTF8 new = true) {r : Val} (h : replace (.str s) (.str old) (.str new) = .ok r) : r.Valid = true :=
  C11V.valid_out_replace hs ho hn h

/-- `replace(s, old, new, n)`, any count value -/
theorem valid_out_replaceCount {s old new : Bytes} (hs : validUTF8 s = true) (ho : validUTF8 old = true)
    (hn : validUTF8 new = true) (n : Val) {r : Val}
    (h : replaceCount (.str s) (.str old) (.str new) n = .ok r) : r.Valid = true :=
  C11V.valid_out_replaceCount hs ho hn n h

example : replace (.str [0x68, 0xC3, 0xA9]) (.str [0xC3, 0xA9]) (.str [0x65]) = .ok (.str [0x68, 0x65]) := by
  with_unfolding_all rfl
example : ∀ r, replace (.str [0x68, 0xC3, 0xA9]) (.str [0xC3, 0xA9]) (.str [0x65]) = .ok r → r.Valid = true :=
  fun _ h => valid_out_replace (by decide) (by decide) (by decide) h

/-- `trim(s, cut)` — the cutset may be any value: an invalid cutset cannot make the result invalid -/
theorem valid_out_trim {s : Bytes} (hs : validUTF8 s = true) (cut : Val) {r : Val}
    (h : trim (.str s) cut = .ok r) : r.Valid = true := C11V.valid_out_trim hs cut h
/-- `trim_left(s, cut)` -/
theorem valid_out_trimLeft {s : Bytes} (hs : validUTF8 s = true) (cut : Val) {r : Val}
    (h : trimLeft (.str s) cut = .ok r) : r.Valid = true := C11V.valid_out_trimLeft hs cut h
/-- `trim_right(s, cut)` -/
theorem valid_out_trimRight {s : Bytes} (hs : validUTF8 s = true) (cut : Val) {r : Val}
    (h : trimRight (.str s) cut = .ok r) : r.Valid = true := C11V.valid_out_trimRight hs cut h
/-- `trim(s)`, `trim_left(s)`, `trim_right(s)`: the default (Unicode white space) cutset -/
theorem valid_out_trimSpace {s : Bytes} (hs : validUTF8 s = true) {r : Val}
    (h : trimSpace (.str s) = .ok r) : r.Valid = true := C11V.valid_out_trimSpace hs h
theorem valid_out_trimSpaceLeft {s : Bytes} (hs : validUTF8 s = true) {r : Val}
    (h : trimSpaceLeft (.str s) = .ok r) : r.Valid = true := C11V.valid_out_trimSpaceLeft hs h
theorem valid_out_trimSpaceRight {s : Bytes} (hs : validUTF8 s = true) {r : Val}
    (h : trimSpaceRight (.str s) = .ok r) : r.Valid = true := C11V.valid_out_trimSpaceRight hs h

/-- trim("éhé", "é") = "h"; trim("\u00a0h\u2003") = "h" (no-break space `C2 A0`, em space `E2 80 83`) -/
example : trim (.str [0xC3, 0xA9, 0x68, 0xC3, 0xA9]) (.str [0xC3, 0xA9]) = .ok (.str [0x68]) := by
  with_unfolding_all rfl
example : trimSpace (.str [0xC2, 0xA0, 0x68, 0xE2, 0x80, 0x83]) = .ok (.str [0x68]) := by with_unfolding_all rfl
example : ∀ r, trimSpace (.str [0xC2, 0xA0, 0x68, 0xE2, 0x80, 0x83]) = .ok r → r.Valid = true :=
  fun _ h => valid_out_trimSpace (by decide) h
/-- the hypothesis matters: nothing is trimmed from this invalid string and it comes back as it is -/
example : trimSpace (.str [0xFF]) = .ok (.str [0xFF]) := by with_unfolding_all rfl

/-- `join(sep, array)` -/
theorem valid_out_join {sep : Bytes} {xs : Val} (hsep : validUTF8 sep = true) (hxs : xs.Valid = true) {r : Val}
    (h : join (.str sep) xs = .ok r) : r.Valid = true := C11V.valid_out_join hsep hxs h

example : ∀ r, join (.str [0xC3, 0xA9]) (.arr .plain [.str [0x61], .str [0xE2, 0x82, 0xAC]]) = .ok r → r.Valid = true :=
  fun _ h => valid_out_join (by decide) (by decide) h

/-- `lower` / `upper`: valid output whatever the input (outside the modelled alphabets the model answers
    `.unmodelled`, never a string) -/
theorem valid_out_lower (v : Val) {r : Val} (h : lower v = .ok r) : r.Valid = true := C11V.valid_out_lower v h
theorem valid_out_upper (v : Val) {r : Val} (h : upper v = .ok r) : r.Valid = true := C11V.valid_out_upper v h

/-- upper("é") = "É" (`C3 89`) -/
example : upper (.str [0xC3, 0xA9]) = .ok (.str [0xC3, 0x89]) := by with_unfolding_all rfl
example : ∀ r, upper (.str [0xC3, 0xA9]) = .ok r → r.Valid = true := fun _ h => valid_out_upper _ h

/-- `to_string`: a string argument is returned unchanged (so it must be valid); every other argument is serialised to
    JSON text, valid whatever the value contains (`valid_out_toString_nonstring`) -/
theorem valid_out_toString {v : Val} (hv : v.Valid = true) {r : Val} (h : toStringV v = .ok r) : r.Valid = true :=
  C11V.valid_out_toString hv h
theorem valid_out_toString_nonstring {v : Val} (hv : ∀ s, v ≠ .str s) {r : Val} (h : toStringV v = .ok r) :
    r.Valid = true := C11V.valid_out_toString_nonstring hv h

example : ∀ r, toStringV (.arr .plain [.str [0xFF]]) = .ok r → r.Valid = true :=
  fun _ h => valid_out_toString_nonstring (fun _ e => by cases e) h

/-- `keys`, `items`, `from_items`: object keys become strings and strings become keys -/
theorem valid_out_keys {v : Val} (hv : v.Valid = true) {r : Val} (h : keys v = .ok r) : r.Valid = true :=
  C11V.valid_out_keys hv h
theorem valid_out_items {v : Val} (hv : v.Valid = true) {r : Val} (h : items v = .ok r) : r.Valid = true :=
  C11V.valid_out_items hv h
theorem valid_out_fromItems {v : Val} (hv : v.Valid = true) {r : Val} (h : fromItems v = .ok r) : r.Valid = true :=
  C11V.valid_out_fromItems hv h

example : keys (.obj [([0xC3, 0xA9], .null)]) = .ok (.arr .enum [.str [0xC3, 0xA9]]) := rfl
example : ∀ r, keys (.obj [([0xC3, 0xA9], .null)]) = .ok r → r.Valid = true := fun _ h => valid_out_keys (by decide) h

/-! ### the expression side: every compiled expression has valid literals -/

/-- `parseStringLiteral` only removes backslashes: a valid token body gives a valid string -/
theorem parseStringLiteral_valid {s : Bytes} (h : validUTF8 (stripDelims s) = true) :
    validUTF8 (parseStringLiteral s) = true :=
  C11V.parseStringLiteral_valid h

/-- `'a\é'`: the backslash before a non-ASCII code point stays, the code point is not cut -/
example : parseStringLiteral [0x27, 0x61, 0x5C, 0xC3, 0xA9, 0x27] = [0x61, 0x5C, 0xC3, 0xA9] := by decide

/-- `parseQuotedIdentifier` un-escapes byte-wise between ASCII backslashes: a valid token body gives a valid name -/
theorem parseQuotedIdentifier_valid {s k : Bytes} (hs : validUTF8 (stripDelims s) = true)
    (h : parseQuotedIdentifier s = some k) : validUTF8 k = true :=
  C11V.parseQuotedIdentifier_valid hs h

/-- `"aéé"` is the name `aéé` -/
example : parseQuotedIdentifier [0x22, 0x61, 0x5C, 0x75, 0x30, 0x30, 0x65, 0x39, 0xC3, 0xA9, 0x22] =
    some [0x61, 0xC3, 0xA9, 0xC3, 0xA9] := by decide +kernel

/-- **every value decoded from JSON text is valid**, keys included, for any text -/
theorem Json.decode_valid {s : Bytes} {v : Val} (h : Json.decode s = some v) : v.Valid = true :=
  C11V.Json.decode_valid h

/-- the literal between backticks is a valid value -/
theorem parseJSONLiteral_valid {s : Bytes} {v : Val} (h : parseJSONLiteral s = some v) : v.Valid = true :=
  C11V.parseJSONLiteral_valid h

/-- the JSON text `"\ud800"` (a lone surrogate escape) decodes to U+FFFD -/
example : (match Json.decode [0x22, 0x5C, 0x75, 0x64, 0x38, 0x30, 0x30, 0x22] with
    | some (.str [0xEF, 0xBF, 0xBD]) => true
    | _ => false) = true := by decide +kernel

/-- **the lexer validates: every token it hands to the parser is valid UTF-8**, whatever the expression bytes -/
theorem lexAll_valid {e : Bytes} {ts : List Token} {err : Option LexErr} (h : lexAll e = (ts, err)) :
    ∀ t ∈ ts, validUTF8 t.value = true :=
  C11V.lexAll_valid h

/-- an invalid byte in the expression stops the lexer: no token is produced from it -/
example : lexAll [0x61, 0x20, 0xFF] = ([⟨.unquotedIdentifier, [0x61]⟩], some .invalidRune) := by decide +kernel

/-- **the literals (and multi-select keys) of a compiled expression are valid UTF-8, for ANY expression bytes**: the
    lexer rejects ill-formed UTF-8, the un-escaping routines preserve validity, `encoding/json` replaces what is left -/
theorem parse_validLits {expr : Bytes} {n : INode} (h : Parser.parse expr = .ok n) : n.ValidLits = true :=
  C11V.parse_validLits h

/-- the same for `compile` -/
theorem compile_validLits {expr : Bytes} {n : INode} (h : compile expr = .ok n) : n.ValidLits = true :=
  C11V.compile_validLits h

/-- **C11, valid in ⇒ valid out, with no hypothesis on the expression**: whatever bytes the expression consists of,
    if every string in the data (object keys included) is valid UTF-8, so is every string in the result. -/
theorem search_valid_any {e : Bytes} {d r : Val} (hd : d.Valid = true) (h : search e d = .ok r) : r.Valid = true :=
  C11V.search_valid_any hd h

/-- … and through a compiled expression -/
theorem compiled_search_valid {e : Bytes} {n : INode} {d r : Val} (hc : compile e = .ok n) (hd : d.Valid = true)
    (h : evaluate n d = .ok r) : r.Valid = true :=
  C11V.compiled_search_valid hc hd h


/-- ``split(@, 'ö')`` compiled from its text and run through `search` -/
example : ∀ r, search [0x73, 0x70, 0x6C, 0x69, 0x74, 0x28, 0x40, 0x2C, 0x20, 0x27, 0xC3, 0xB6, 0x27, 0x29]
    (.str helloWorldB) = .ok r → r.Valid = true := fun _ h => search_valid_any (by decide) h
/-- an expression with an ill-formed byte inside a raw string literal (`'\xFF'`) does not compile -/
example : (match compile [0x27, 0xFF, 0x27] with | .error _ => true | .ok _ => false) = true := by decide +kernel
/-- the JSON literal `` `"\ud800"` `` (a lone surrogate escape) compiles to the literal U+FFFD -/
example : (match compile [0x60, 0x22, 0x5C, 0x75, 0x64, 0x38, 0x30, 0x30, 0x22, 0x60] with
    | .ok (.lit (.str [0xEF, 0xBF, 0xBD])) => true
    | _ => false) = true := by decide +kernel
/-- the hypothesis on the data is still needed: `@` on an invalid string returns it -/
example : (match search [0x40] (.str [0xFF]) with | .ok (.str [0xFF]) => true | _ => false) = true := by decide +kernel

end Jmes.C11B

