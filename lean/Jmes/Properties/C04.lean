/-
  C04 — "Compile accepts exactly the JMESPath grammar and rejects everything else; a malformed expression is never
  silently reinterpreted as a different, valid one."

  What is proved here (model: `Model/Lexer.lean`, `Model/Json.lean`, `Model/Parser.lean`, `Model/Api.lean`;
  specification: `Spec/Lexical.lean`; helpers: `Proofs/Lex.lean`, `Proofs/JsonGrammar.lean`):

  1. `Lexical.TokShape` (in `Spec/Lexical.lean`): the lexical grammar, written independently of the lexer.
  2. `lexToken_shape`     — soundness of one lexer step: the token is a non-empty prefix of the input of the right shape.
  3. `lexAll_concat`      — the token stream is the input cut into tokens separated only by whitespace
                            (`Lexical.Lexes`), ending with the end marker (`lexAll_ends`), as a `render` (`lexAll_render`).
  4. `lexToken_maximal`   — longest match: what may not follow a token (identifier characters after identifiers, `=`
                            after `<`, …), and `[` is never followed by `*]`.
  5. `lex_complete_spaced`— completeness on the canonical rendering: any list of well-shaped tokens (ALL kinds, the
                            three delimited kinds included), written with single blanks, lexes back to itself.
  6. `lex_errors_are_syntax`, `compile_error_cats`, `invalidValue_only_sliceStep`, `invalidType_only_functionArgument`, …
     `compile_lex_error` — an expression on which the lexer fails never compiles (parser-wide invariant,
     `Proofs/ParserInv.lean`); `compile_ok_lexes` — whatever compiles is a whitespace-separated sequence of well-shaped
     tokens.
  7. `json_decode_sound`  — `Json.decode s = some v → JsonText s` (RFC 8259 on bytes);
     `json_decode_complete` — `JsonText s → s.length ≤ maxDepth → (Json.decode s).isSome` (the length bound implies the
                            nesting-depth bound of the decoder); `json_decode_iff`; `isValidNumber_iff`: the number
                            scanner accepts exactly the RFC 8259 number grammar; `parseJSONLiteral_sound`.
  8. regression witnesses `w_*`: concrete strings that used to compile to something else.
  9. `selectObjectLoop_bad_key`, `selectObjectLoop_no_colon`, `selectObjectLoop_bad_separator`,
     `selectObjectLoop_ok_inv`; `indexP` in three phases (`indexP_eq`, proved by `rfl`) with
     `stepPhase_unexpected`, `stepPhase_unexpected_after_int`, `stopPhase_*`, `indexP_*`, and the inversions
     `stepPhase_ok_inv`, `stopPhase_ok_inv`, `indexP_ok_inv` (success only on the grammar's bracket specifiers).

  NOT proved: a context-free grammar for whole expressions with `compile e = ok ↔ e ∈ grammar`; the statement is
  covered at the lexical level (2–5), for the JSON literal decoder (7), for the error classification (6) and at the
  two places where reinterpretation used to happen (9), plus witnesses (8).
-/
import Jmes.Spec.Lexical
import Jmes.Proofs.Lex
import Jmes.Proofs.JsonGrammar
import Jmes.Proofs.JsonComplete
import Jmes.Proofs.Pratt
import Jmes.Proofs.ParserInv
namespace Jmes.C04
open Jmes Jmes.Parser Jmes.Pratt Jmes.Lexical
set_option linter.unusedSimpArgs false

/-! ## 2. One lexer step is sound -/

/-- `lexToken` returns a non-empty prefix of its input, of the shape its token type prescribes. -/
theorem lexToken_shape {s : Bytes} {t : Token} {n : Nat} (h : lexToken s = .ok (t, n)) :
    0 < n ∧ n ≤ s.length ∧ t.value = s.take n ∧ TokShape t.type t.value :=
  let g := Lex.lexToken_good h
  ⟨g.pos, g.le, g.val, g.shape⟩

-- `<=x`: the token `<=`, two bytes
example : lexToken [0x3C, 0x3D, 0x78] = .ok (⟨.lessOrEqual, [0x3C, 0x3D]⟩, 2) := by rfl
example : TokShape .lessOrEqual [0x3C, 0x3D] := rfl
-- the specification is not vacuous the other way either: `<` alone is not a `<=`
example : ¬ TokShape .lessOrEqual [0x3C] := by simp [TokShape]
example : ¬ TokShape .unquotedIdentifier [0x6C, 0x65, 0x74] := by simp [TokShape, kwLet]
example : TokShape .unquotedIdentifier [0x6C, 0x65, 0x74, 0x73] :=
  ⟨⟨0x6C, [0x65, 0x74, 0x73], rfl, by decide, by decide⟩, by decide, by decide⟩

/-! ## 3. The token stream is the input cut at whitespace -/

/-- a successful `lexAll` cuts the input into the values of its tokens, separated only by whitespace runs over
    TAB/LF/CR/SPACE; every token has the shape of its type -/
theorem lexAll_concat {s : Bytes} {ts : List Token} (h : lexAll s = (ts, none)) : Lexes s ts :=
  Lex.lexAll_sound h

/-- … it ends with the end marker, and only there -/
theorem lexAll_ends {s : Bytes} {ts : List Token} (h : lexAll s = (ts, none)) :
    ∃ pre, ts = pre ++ [⟨.end, []⟩] ∧ ∀ t ∈ pre, TokShape t.type t.value :=
  Lex.Lexes.ends (Lex.lexAll_sound h)

/-- … and the input is `w0 ++ v0 ++ w1 ++ v1 ++ … ++ wk` (the last value, of the end marker, is empty) -/
theorem lexAll_render {s : Bytes} {ts : List Token} (h : lexAll s = (ts, none)) :
    ∃ ws : List Bytes, ws.length = ts.length ∧ (∀ w ∈ ws, Ws w) ∧ s = render ws (ts.map (·.value)) :=
  Lex.Lexes.render (Lex.lexAll_sound h)

-- ` a .b` (leading blank, blank before the dot)
example : lexAll [0x20, 0x61, 0x20, 0x2E, 0x62]
    = ([⟨.unquotedIdentifier, [0x61]⟩, ⟨.dot, [0x2E]⟩, ⟨.unquotedIdentifier, [0x62]⟩, ⟨.end, []⟩], none) := by decide
example : render [[0x20], [0x20], [], []] [[0x61], [0x2E], [0x62], []] = [0x20, 0x61, 0x20, 0x2E, 0x62] := rfl

/-! ## 4. Longest match -/

/-- after a token comes no byte that would have extended it (`forbiddenNext`), and `[` is not followed by `*]` -/
theorem lexToken_maximal {s : Bytes} {t : Token} {n : Nat} (h : lexToken s = .ok (t, n)) :
    (∀ b, (s.drop n).head? = some b → forbiddenNext t b = false) ∧
    (t.type = .openSqBrace → (s.drop n).take 2 ≠ [0x2A, 0x5D]) :=
  let g := Lex.lexToken_good h
  ⟨g.maxi, g.wild⟩

/-- an identifier, keyword or variable token is never followed by an identifier character -/
theorem ident_maximal {s : Bytes} {t : Token} {n : Nat} (h : lexToken s = .ok (t, n))
    (ht : t.type = .unquotedIdentifier ∨ t.type = .let ∨ t.type = .in ∨ t.type = .variable) (b : Nat)
    (hb : (s.drop n).head? = some b) : isIdCharB b = false := by
  have := (lexToken_maximal h).1 b hb
  unfold forbiddenNext at this
  rcases ht with ht | ht | ht | ht <;> simpa [ht] using this

/-- an integer token is never followed by a digit -/
theorem integer_maximal {s : Bytes} {t : Token} {n : Nat} (h : lexToken s = .ok (t, n))
    (ht : t.type = .integerLiteral) (b : Nat) (hb : (s.drop n).head? = some b) : isDigitB b = false := by
  have := (lexToken_maximal h).1 b hb
  unfold forbiddenNext at this
  simpa [ht] using this

/-- `<` followed by `=` is never lexed as `.less` (likewise `>`, `=`, `!`) -/
theorem less_not_before_eq {s : Bytes} {t : Token} {n : Nat} (h : lexToken s = .ok (t, n))
    (ht : t.type = .less ∨ t.type = .greater ∨ t.type = .assign ∨ t.type = .not) :
    (s.drop n).head? ≠ some 0x3D := by
  intro hb
  have := (lexToken_maximal h).1 _ hb
  unfold forbiddenNext at this
  rcases ht with ht | ht | ht | ht <;> simp [ht] at this

example : forbiddenNext ⟨.less, [0x3C]⟩ 0x3D = true := rfl
example : forbiddenNext ⟨.unquotedIdentifier, [0x61]⟩ 0x62 = true := rfl
-- `letx` is one identifier, not `let` and `x`
example : lexToken [0x6C, 0x65, 0x74, 0x78] = .ok (⟨.unquotedIdentifier, [0x6C, 0x65, 0x74, 0x78]⟩, 4) := by rfl

/-! ## 5. Completeness on the canonical rendering -/

/-- one step: a well-shaped token followed by nothing or by a blank is lexed as exactly that token -/
theorem lexToken_complete {ty : TokenType} {v : Bytes} (h : TokShape ty v) {rest : Bytes}
    (hs : rest = [] ∨ ∃ r, rest = 0x20 :: r) : lexToken (v ++ rest) = .ok (⟨ty, v⟩, v.length) :=
  Lex.lexToken_complete h hs

/-- any list of well-shaped tokens — all kinds, including quoted identifiers, raw strings and JSON literals —
    rendered with single blanks between the values, lexes back to the same list (plus the end marker) -/
theorem lex_complete_spaced (ts : List Token) (h : ∀ t ∈ ts, TokShape t.type t.value) :
    lexAll (spaced (ts.map (·.value))) = (ts ++ [⟨.end, []⟩], none) :=
  Lex.lexAll_spaced ts h

example : spaced [[0x61], [0x3C, 0x3D], [0x27, 0x62, 0x27]] = [0x61, 0x20, 0x3C, 0x3D, 0x20, 0x27, 0x62, 0x27] := rfl
example : lexAll [0x61, 0x20, 0x3C, 0x3D, 0x20, 0x27, 0x62, 0x27]
    = ([⟨.unquotedIdentifier, [0x61]⟩, ⟨.lessOrEqual, [0x3C, 0x3D]⟩, ⟨.stringLiteral, [0x27, 0x62, 0x27]⟩, ⟨.end, []⟩],
       none) := by decide
-- `'b'` has the shape of a raw string: delimiter, the code point `b`, closing delimiter
example : TokShape .stringLiteral [0x27, 0x62, 0x27] :=
  ⟨[0x62, 0x27], rfl, DelimBody.plain 0x62 [0x27] (by decide) (by decide) (by decide) DelimBody.close⟩

/-! ## 6. Error categories -/

/-- every lexical error is a syntax error -/
theorem lex_errors_are_syntax (e : LexErr) : parseCat (.lex e) = .syntax := rfl

/-- the categories `Compile` can report -/
theorem compile_error_cats {expr : Bytes} {e : PErr} (_h : compile expr = .error e) :
    parseCat e ∈ [Cat.syntax, .arity, .unknownFunction, .invalidType, .invalidValue] := by
  cases e <;> simp [parseCat]

theorem invalidValue_only_sliceStep (e : PErr) : parseCat e = .invalidValue ↔ e = .invalidSliceStep := by
  cases e <;> simp [parseCat]
theorem invalidType_only_functionArgument (e : PErr) : parseCat e = .invalidType ↔ e = .invalidFunctionArgument := by
  cases e <;> simp [parseCat]
theorem arity_only_functionCall (e : PErr) : parseCat e = .arity ↔ e = .invalidFunctionCall := by
  cases e <;> simp [parseCat]
theorem unknownFunction_only (e : PErr) : parseCat e = .unknownFunction ↔ e = .unknownFunction := by
  cases e <;> simp [parseCat]
/-- everything else — unexpected tokens, bad indices, bad JSON literals, bad quoted strings, lexical errors — is a
    syntax error -/
theorem syntax_otherwise (e : PErr) (h1 : e ≠ .invalidSliceStep) (h2 : e ≠ .invalidFunctionArgument)
    (h3 : e ≠ .invalidFunctionCall) (h4 : e ≠ .unknownFunction) : parseCat e = .syntax := by
  cases e <;> simp_all [parseCat]

example : parseCat (.lex (.unexpectedRune 0x23)) = .syntax := rfl
-- `#` is not in the alphabet
example : compile [0x23] = .error (.lex (.unexpectedRune 0x23)) := by
  have : Parser.parse [0x23] = .error (.lex (.unexpectedRune 0x23)) := by
    unfold Parser.parse
    have : lexAll [0x23] = ([], some (.unexpectedRune 0x23)) := by decide
    rw [this]
  exact this

/-- **an expression with a lexical error never compiles** (the parser cannot stop before the error: it only stops at
    the end marker, which the lexer does not produce once it has failed) -/
theorem compile_lex_error {s : Bytes} {ts : List Token} {e : LexErr} (h : lexAll s = (ts, some e)) :
    ∃ e', compile s = .error e' :=
  ParserInv.parse_lex_error h

/-- **every expression that compiles is a sequence of well-shaped tokens separated only by whitespace** -/
theorem compile_ok_lexes {s : Bytes} {n : INode} (h : compile s = .ok n) :
    ∃ ts, lexAll s = (ts, none) ∧ Lexes s ts := by
  cases hl : lexAll s with
  | mk ts eo =>
    cases eo with
    | none => exact ⟨ts, rfl, lexAll_concat hl⟩
    | some e =>
      obtain ⟨e', he⟩ := compile_lex_error hl
      rw [he] at h; cases h

-- `a #`: the lexer fails after the first token, the parser reports it
example : lexAll [0x61, 0x20, 0x23] = ([⟨.unquotedIdentifier, [0x61]⟩], some (.unexpectedRune 0x23)) := by decide
example : ∃ e', compile [0x61, 0x20, 0x23] = .error e' :=
  compile_lex_error (ts := [⟨.unquotedIdentifier, [0x61]⟩]) (e := .unexpectedRune 0x23) (by decide)

/-! ## 7. The JSON literal decoder accepts only JSON texts -/

/-- soundness of the decoder against RFC 8259 (on bytes).  No depth hypothesis is needed: beyond `Json.maxDepth` the
    decoder rejects. -/
theorem json_decode_sound {s : Bytes} {v : Val} (h : Json.decode s = some v) : JsonText s :=
  JsonGrammar.decode_sound h

/-- completeness of the decoder: every JSON text of at most `maxDepth` (= 10000) bytes — so of nesting depth at most
    `maxDepth` — is accepted -/
theorem json_decode_complete {s : Bytes} (h : JsonText s) (hlen : s.length ≤ Json.maxDepth) :
    (Json.decode s).isSome = true :=
  JsonGrammar.decode_complete h hlen

/-- on texts of at most `maxDepth` bytes the decoder accepts exactly the JSON texts -/
theorem json_decode_iff {s : Bytes} (hlen : s.length ≤ Json.maxDepth) : (Json.decode s).isSome = true ↔ JsonText s :=
  JsonGrammar.decode_isSome_iff hlen

/-- the number scanner accepts exactly the RFC 8259 number grammar -/
theorem isValidNumber_iff (s : Bytes) : Json.isValidNumber s = true ↔ JNumber s :=
  JsonGrammar.isValidNumber_iff s

/-- what goes between the backticks: a JSON literal that compiles contains a JSON text (after `` \` `` → `` ` ``) -/
theorem parseJSONLiteral_sound {tok : Bytes} {v : Val} (h : parseJSONLiteral tok = some v) :
    JsonText (unescapeBackticks (stripDelims tok)) := by
  unfold parseJSONLiteral at h
  simp only [] at h
  split at h
  · cases h
  · exact json_decode_sound h

-- ` [1, "a"] ` is a JSON text; `"abc` (unterminated) and `01` are rejected
example : (Json.decode [0x20, 0x5B, 0x31, 0x2C, 0x20, 0x22, 0x61, 0x22, 0x5D, 0x20]).isSome = true := by decide +kernel
example : Json.decode [0x22, 0x61, 0x62, 0x63] = none := by decide +kernel
example : Json.decode [0x30, 0x31] = none := by decide +kernel
-- `[]` is a JSON text, hence decoded
example : (Json.decode [0x5B, 0x5D]).isSome = true :=
  json_decode_complete ⟨[], [0x5B, 0x5D], [], rfl, (by intro b h; cases h), JValue.arrEmpty [] (by intro b h; cases h),
    (by intro b h; cases h)⟩ (by decide)
example : JsonText [0x31] :=
  ⟨[], [0x31], [], rfl, (by intro b h; cases h),
    JValue.num _ ((isValidNumber_iff _).1 (by decide)), (by intro b h; cases h)⟩

/-! ## 8. Regression witnesses -/

/-- the error of a compilation, if it failed -/
def errorOf : Except PErr INode → Option PErr
  | .error e => some e
  | .ok _ => none

theorem errorOf_eq {r : Except PErr INode} {e : PErr} (h : errorOf r = some e) : r = .error e := by
  cases r with
  | error e' => simp [errorOf] at h; rw [h]
  | ok _ => simp [errorOf] at h

/-- `{a: b c: d}`: a missing comma in a multi-select hash -/
theorem w_hash_missing_comma :
    compile [0x7B, 0x61, 0x3A, 0x20, 0x62, 0x20, 0x63, 0x3A, 0x20, 0x64, 0x7D] = .error .unexpectedToken :=
  errorOf_eq (by decide +kernel)
/-- `{@: a}`: a key that is not an identifier -/
theorem w_hash_bad_key : compile [0x7B, 0x40, 0x3A, 0x20, 0x61, 0x7D] = .error .unexpectedToken :=
  errorOf_eq (by decide +kernel)
/-- `[a[::, b]`: a slice without its closing bracket -/
theorem w_slice_unclosed : compile [0x5B, 0x61, 0x5B, 0x3A, 0x3A, 0x2C, 0x20, 0x62, 0x5D] = .error .unexpectedToken :=
  errorOf_eq (by decide +kernel)
/-- `` `"abc` ``: a JSON literal that starts with a quote but is not JSON -/
theorem w_json_unterminated_string : compile [0x60, 0x22, 0x61, 0x62, 0x63, 0x60] = .error .invalidJSONLiteral :=
  errorOf_eq (by decide +kernel)
/-- `"\uD83D\u!!!!"`: a surrogate escape followed by junk -/
theorem w_quoted_surrogate_junk :
    compile [0x22, 0x5C, 0x75, 0x44, 0x38, 0x33, 0x44, 0x5C, 0x75, 0x21, 0x21, 0x21, 0x21, 0x22]
      = .error .invalidQuotedString :=
  errorOf_eq (by decide +kernel)
/-- `"a<TAB>b"`: a raw control character in a quoted identifier -/
theorem w_quoted_raw_tab : compile [0x22, 0x61, 0x09, 0x62, 0x22] = .error .invalidQuotedString :=
  errorOf_eq (by decide +kernel)
/-- `a[1:2:0]` -/
theorem w_slice_step_zero : compile [0x61, 0x5B, 0x31, 0x3A, 0x32, 0x3A, 0x30, 0x5D] = .error .invalidSliceStep :=
  errorOf_eq (by decide +kernel)
/-- `abs()` -/
theorem w_abs_no_args : compile [0x61, 0x62, 0x73, 0x28, 0x29] = .error .invalidFunctionCall :=
  errorOf_eq (by decide +kernel)
/-- `abs(a, b)` -/
theorem w_abs_two_args : compile [0x61, 0x62, 0x73, 0x28, 0x61, 0x2C, 0x20, 0x62, 0x29] = .error .invalidFunctionCall :=
  errorOf_eq (by decide +kernel)
/-- `nosuch(a)` -/
theorem w_unknown_function : compile [0x6E, 0x6F, 0x73, 0x75, 0x63, 0x68, 0x28, 0x61, 0x29] = .error .unknownFunction :=
  errorOf_eq (by decide +kernel)
/-- `sort_by(a, b)`: the second argument must be an expression reference -/
theorem w_sort_by_no_expref :
    compile [0x73, 0x6F, 0x72, 0x74, 0x5F, 0x62, 0x79, 0x28, 0x61, 0x2C, 0x20, 0x62, 0x29]
      = .error .invalidFunctionArgument :=
  errorOf_eq (by decide +kernel)
/-- the well-formed neighbours do compile: `{a: b, c: d}`, `"a\tb"`, `` `"abc"` ``, `a[1:2:1]` -/
example : errorOf (compile [0x7B, 0x61, 0x3A, 0x20, 0x62, 0x2C, 0x20, 0x63, 0x3A, 0x20, 0x64, 0x7D]) = none := by
  decide +kernel
example : errorOf (compile [0x22, 0x61, 0x5C, 0x74, 0x62, 0x22]) = none := by decide +kernel
example : errorOf (compile [0x60, 0x22, 0x61, 0x62, 0x63, 0x22, 0x60]) = none := by decide +kernel
example : errorOf (compile [0x61, 0x5B, 0x31, 0x3A, 0x32, 0x3A, 0x31, 0x5D]) = none := by decide +kernel

/-! ## 9. No silent reinterpretation: the multi-select hash and the bracket specifier -/

/-! ### `indexP` in three phases -/

def mkSliceP (child : Option INode) (start stop : Int) : INode := match child with
  | none => .sliceCurrent start stop
  | some c => .slice c start stop

def atoiP : PM Int := do
  match parseInt64 (← currValue) with
  | some i => pure i
  | none => fail .invalidIndex

/-- after `start:stop:` -/
def stepPhase (child : Option INode) (haveStart haveStop : Bool) (start stop : Int) : PM (INode × Bool) := do
  let mut start := start
  let mut stop := stop
  let mut step : Int := 1
  if (← currType) == .integerLiteral then
    if (← nextType) != .closeSqBrace then fail .unexpectedToken
    step ← atoiP
    if step = 0 then fail .invalidSliceStep
    if step < 0 then
      if !haveStart then start := indexP.MaxIntP
      if !haveStop then stop := indexP.MinIntP
    advance2
  else if (← currType) == .closeSqBrace then advance
  else fail .unexpectedToken
  if step = 1 then return (mkSliceP child start stop, true)
  else match child with
    | none => return (.sliceStepCurrent start stop step, true)
    | some c => return (.sliceStep c start stop step, true)

/-- after `start:` -/
def stopPhase (child : Option INode) (haveStart : Bool) (start : Int) : PM (INode × Bool) := do
  let mut haveStop := false
  let mut stop : Int := indexP.MaxIntP
  if (← currType) == .integerLiteral then
    stop ← atoiP
    let nt ← nextType
    if nt == .closeSqBrace then
      advance2
      return (mkSliceP child start stop, true)
    else if nt == .colon then advance2
    else fail .unexpectedToken
    haveStop := true
  else if (← currType) == .closeSqBrace then
    advance
    return (mkSliceP child start indexP.MaxIntP, true)
  else if (← currType) == .colon then advance
  else fail .unexpectedToken
  stepPhase child haveStart haveStop start stop

def startPhase (child : Option INode) : PM (INode × Bool) := do
  let mut haveStart := false
  let mut start : Int := 0
  if (← currType) == .integerLiteral then
    start ← atoiP
    let nt ← nextType
    if nt == .closeSqBrace then
      advance2
      match child with
      | none =>
        if 0 ≤ start ∧ start ≤ 255 then return (.smallIndexCurrent start.toNat, false)
        else return (.indexCurrent start, false)
      | some c => return (.index c start, false)
    else if nt == .colon then advance2
    else fail .unexpectedToken
    haveStart := true
  else if (← currType) == .colon then advance
  else fail .unexpectedToken
  stopPhase child haveStart start

theorem indexP_eq (child : Option INode) : indexP child = startPhase child := rfl


theorem fail_run {α} (e : PErr) (s : PState) : (fail e : PM α) s = .error e := rfl
theorem currValue_run (s : PState) : currValue s = .ok (s.curr.value, s) := rfl

theorem map_run {α β} (f : α → β) (x : PM α) (s : PState) :
    (f <$> x) s = match x s with
      | .ok (a, s') => .ok (f a, s') | .error e => .error e := by
  show (StateT.map f x) s = _
  unfold StateT.map
  show (x s >>= _) = _
  cases x s <;> rfl

theorem stepPhase_unexpected (child : Option INode) (hs hp : Bool) (start stop : Int) (s : PState)
    (h1 : s.curr.type ≠ .integerLiteral) (h2 : s.curr.type ≠ .closeSqBrace) :
    stepPhase child hs hp start stop s = .error .unexpectedToken := by
  simp [stepPhase, bind_run, map_run, currType_run, fail_run, h1, h2]

theorem stepPhase_unexpected_after_int (child : Option INode) (hs hp : Bool) (start stop : Int) (s : PState)
    (h1 : s.curr.type = .integerLiteral) (h2 : s.next.type ≠ .closeSqBrace) :
    stepPhase child hs hp start stop s = .error .unexpectedToken := by
  simp [stepPhase, bind_run, map_run, currType_run, nextType_run, fail_run, h1, h2]


/-- the slice reaches its third part only through a colon -/
theorem stopPhase_colon (child : Option INode) (hs : Bool) (start : Int) (s s1 : PState)
    (h1 : s.curr.type = .colon) (ha : advance s = .ok ((), s1)) :
    stopPhase child hs start s = stepPhase child hs false start indexP.MaxIntP s1 := by
  simp [stopPhase, bind_run, map_run, currType_run, nextType_run, fail_run, h1, ha]

theorem stopPhase_int_colon (child : Option INode) (hs : Bool) (start i : Int) (s s1 : PState)
    (h1 : s.curr.type = .integerLiteral) (hi : parseInt64 s.curr.value = some i) (h2 : s.next.type = .colon)
    (ha : advance2 s = .ok ((), s1)) :
    stopPhase child hs start s = stepPhase child hs true start i s1 := by
  simp [stopPhase, atoiP, bind_run, map_run, currType_run, nextType_run, currValue_run, fail_run, pure_run, h1, h2, hi, ha]

theorem stopPhase_unexpected (child : Option INode) (hs : Bool) (start : Int) (s : PState)
    (h1 : s.curr.type ≠ .integerLiteral) (h2 : s.curr.type ≠ .closeSqBrace) (h3 : s.curr.type ≠ .colon) :
    stopPhase child hs start s = .error .unexpectedToken := by
  simp [stopPhase, bind_run, map_run, currType_run, fail_run, h1, h2, h3]

theorem stopPhase_unexpected_after_int (child : Option INode) (hs : Bool) (start i : Int) (s : PState)
    (h1 : s.curr.type = .integerLiteral) (hi : parseInt64 s.curr.value = some i)
    (h2 : s.next.type ≠ .closeSqBrace) (h3 : s.next.type ≠ .colon) :
    stopPhase child hs start s = .error .unexpectedToken := by
  simp [stopPhase, atoiP, bind_run, map_run, currType_run, nextType_run, currValue_run, fail_run, pure_run, h1, h2, h3, hi]

theorem indexP_colon (child : Option INode) (s s1 : PState) (h1 : s.curr.type = .colon)
    (ha : advance s = .ok ((), s1)) : indexP child s = stopPhase child false 0 s1 := by
  rw [indexP_eq]
  simp [startPhase, bind_run, map_run, currType_run, nextType_run, fail_run, h1, ha]

theorem indexP_int_colon (child : Option INode) (i : Int) (s s1 : PState)
    (h1 : s.curr.type = .integerLiteral) (hi : parseInt64 s.curr.value = some i) (h2 : s.next.type = .colon)
    (ha : advance2 s = .ok ((), s1)) : indexP child s = stopPhase child true i s1 := by
  rw [indexP_eq]
  simp [startPhase, atoiP, bind_run, map_run, currType_run, nextType_run, currValue_run, fail_run, pure_run, h1, h2, hi, ha]

theorem indexP_unexpected (child : Option INode) (s : PState)
    (h1 : s.curr.type ≠ .integerLiteral) (h2 : s.curr.type ≠ .colon) :
    indexP child s = .error .unexpectedToken := by
  rw [indexP_eq]
  simp [startPhase, bind_run, map_run, currType_run, fail_run, h1, h2]

theorem indexP_unexpected_after_int (child : Option INode) (i : Int) (s : PState)
    (h1 : s.curr.type = .integerLiteral) (hi : parseInt64 s.curr.value = some i)
    (h2 : s.next.type ≠ .closeSqBrace) (h3 : s.next.type ≠ .colon) :
    indexP child s = .error .unexpectedToken := by
  rw [indexP_eq]
  simp [startPhase, atoiP, bind_run, map_run, currType_run, nextType_run, currValue_run, fail_run, pure_run, h1, h2, h3, hi]

/-- a step of zero is `invalidSliceStep`, whatever precedes -/
theorem stepPhase_zero (child : Option INode) (hs hp : Bool) (start stop : Int) (s : PState)
    (h1 : s.curr.type = .integerLiteral) (h2 : s.next.type = .closeSqBrace) (hi : parseInt64 s.curr.value = some 0) :
    stepPhase child hs hp start stop s = .error .invalidSliceStep := by
  simp [stepPhase, atoiP, bind_run, map_run, currType_run, nextType_run, currValue_run, fail_run, pure_run, h1, h2, hi]

/-- **Inversion, third part of a slice**: after `start:stop:` the parser accepts only `]`, or an integer followed
    by `]` -/
theorem stepPhase_ok_inv (child : Option INode) (hs hp : Bool) (start stop : Int) (s : PState) (r : (INode × Bool) × PState)
    (h : stepPhase child hs hp start stop s = .ok r) :
    s.curr.type = .closeSqBrace ∨ (s.curr.type = .integerLiteral ∧ s.next.type = .closeSqBrace) := by
  by_cases h1 : s.curr.type = .integerLiteral
  · by_cases h2 : s.next.type = .closeSqBrace
    · exact Or.inr ⟨h1, h2⟩
    · rw [stepPhase_unexpected_after_int child hs hp start stop s h1 h2] at h; cases h
  · by_cases h2 : s.curr.type = .closeSqBrace
    · exact Or.inl h2
    · rw [stepPhase_unexpected child hs hp start stop s h1 h2] at h; cases h

theorem stopPhase_invalidIndex (child : Option INode) (hs : Bool) (start : Int) (s : PState)
    (h1 : s.curr.type = .integerLiteral) (hi : parseInt64 s.curr.value = none) :
    stopPhase child hs start s = .error .invalidIndex := by
  simp [stopPhase, atoiP, bind_run, map_run, currType_run, nextType_run, currValue_run, fail_run, pure_run, h1, hi]

/-- **Inversion, second part of a slice**: after `start:` the parser accepts only `]`, `:`, or an integer followed by
    `]` or `:` -/
theorem stopPhase_ok_inv (child : Option INode) (hs : Bool) (start : Int) (s : PState) (r : (INode × Bool) × PState)
    (h : stopPhase child hs start s = .ok r) :
    s.curr.type = .closeSqBrace ∨ s.curr.type = .colon ∨
      (s.curr.type = .integerLiteral ∧ (s.next.type = .closeSqBrace ∨ s.next.type = .colon)) := by
  by_cases h1 : s.curr.type = .integerLiteral
  · cases hi : parseInt64 s.curr.value with
    | none => rw [stopPhase_invalidIndex child hs start s h1 hi] at h; cases h
    | some i =>
      by_cases h2 : s.next.type = .closeSqBrace
      · exact Or.inr (Or.inr ⟨h1, Or.inl h2⟩)
      · by_cases h3 : s.next.type = .colon
        · exact Or.inr (Or.inr ⟨h1, Or.inr h3⟩)
        · rw [stopPhase_unexpected_after_int child hs start i s h1 hi h2 h3] at h; cases h
  · by_cases h2 : s.curr.type = .closeSqBrace
    · exact Or.inl h2
    · by_cases h3 : s.curr.type = .colon
      · exact Or.inr (Or.inl h3)
      · rw [stopPhase_unexpected child hs start s h1 h2 h3] at h; cases h

theorem indexP_invalidIndex (child : Option INode) (s : PState)
    (h1 : s.curr.type = .integerLiteral) (hi : parseInt64 s.curr.value = none) :
    indexP child s = .error .invalidIndex := by
  rw [indexP_eq]
  simp [startPhase, atoiP, bind_run, map_run, currType_run, nextType_run, currValue_run, fail_run, pure_run, h1, hi]

/-- **Inversion, first part**: a bracket specifier starts with `:` or with an integer followed by `]` or `:` -/
theorem indexP_ok_inv (child : Option INode) (s : PState) (r : (INode × Bool) × PState)
    (h : indexP child s = .ok r) :
    s.curr.type = .colon ∨ (s.curr.type = .integerLiteral ∧ (s.next.type = .closeSqBrace ∨ s.next.type = .colon)) := by
  by_cases h1 : s.curr.type = .integerLiteral
  · cases hi : parseInt64 s.curr.value with
    | none => rw [indexP_invalidIndex child s h1 hi] at h; cases h
    | some i =>
      by_cases h2 : s.next.type = .closeSqBrace
      · exact Or.inr ⟨h1, Or.inl h2⟩
      · by_cases h3 : s.next.type = .colon
        · exact Or.inr ⟨h1, Or.inr h3⟩
        · rw [indexP_unexpected_after_int child i s h1 hi h2 h3] at h; cases h
  · by_cases h2 : s.curr.type = .colon
    · exact Or.inl h2
    · rw [indexP_unexpected child s h1 h2] at h; cases h

/-! ### the multi-select hash -/

theorem selectObjectLoop_bad_key (fuel : Nat) (child : Option INode) (fields : List (Bytes × INode)) (s : PState)
    (h1 : s.curr.type ≠ .quotedIdentifier) (h2 : s.curr.type ≠ .unquotedIdentifier) :
    selectObjectLoop (fuel + 1) child fields s = .error .unexpectedToken := by
  rw [selectObjectLoop.eq_2, bind_ok (get_run s)]
  split
  · rename_i heq; exact absurd heq h1
  · rename_i heq; exact absurd heq h2
  · rfl

/-- the key the loop reads off the current token, when there is one -/
def keyOf (s : PState) : Option Bytes :=
  match s.curr.type with
  | .quotedIdentifier => parseQuotedIdentifier s.curr.value
  | .unquotedIdentifier => some s.curr.value
  | _ => none

theorem selectObjectLoop_no_colon (fuel : Nat) (child : Option INode) (fields : List (Bytes × INode)) (s : PState)
    (k : Bytes) (hk : keyOf s = some k) (h : s.next.type ≠ .colon) :
    selectObjectLoop (fuel + 1) child fields s = .error .unexpectedToken := by
  rw [selectObjectLoop.eq_2, bind_ok (get_run s)]
  unfold keyOf at hk
  split at hk
  · rename_i heq
    simp [bind_run, heq, hk, pure_run, fail_run, h]
  · rename_i heq
    simp [bind_run, heq, pure_run, fail_run, h]
  · cases hk

/-- **no silent reinterpretation**: once `key : expression` has been read, anything but `,` or `}` is an error -/
theorem selectObjectLoop_bad_separator (fuel : Nat) (child : Option INode) (fields : List (Bytes × INode))
    (s s1 s2 : PState) (k : Bytes) (f : INode) (hk : keyOf s = some k) (hc : s.next.type = .colon)
    (ha : advance2 s = .ok ((), s1)) (he : expression fuel 1 s1 = .ok (f, s2))
    (h1 : s2.curr.type ≠ .comma) (h2 : s2.curr.type ≠ .closeBrace) :
    selectObjectLoop (fuel + 1) child fields s = .error .unexpectedToken := by
  rw [selectObjectLoop.eq_2, bind_ok (get_run s)]
  have tail : (do
      let __do_lift ← currType
      match __do_lift with
        | TokenType.comma => do
          advance
          selectObjectLoop fuel child (assocInsert k f fields)
        | TokenType.closeBrace => do
          advance
          if fields.isEmpty = true then
              pure
                (match child with
                | none => INode.selectObjectSingleCurrent k f
                | some c => c.selectObjectSingle k f)
            else
              pure
                (match child with
                | none => INode.selectObjectCurrent (assocInsert k f fields)
                | some c => c.selectObject (assocInsert k f fields))
        | _ => fail PErr.unexpectedToken : PM INode) s2 = .error .unexpectedToken := by
    rw [bind_ok (currType_run s2)]
    cases ht : s2.curr.type <;> first | exact absurd ht h1 | exact absurd ht h2 | rfl
  unfold keyOf at hk
  split at hk
  · rename_i heq
    simp only [heq, hk, hc]
    rw [bind_ok (pure_run k s)]
    simp only [bne_self_eq_false, Bool.false_eq_true, if_false]
    rw [bind_ok ha, bind_ok he]
    exact tail
  · rename_i heq
    cases hk
    simp only [heq, hc]
    rw [bind_ok (pure_run _ s)]
    simp only [bne_self_eq_false, Bool.false_eq_true, if_false]
    rw [bind_ok ha, bind_ok he]
    exact tail
  · cases hk


/-- **Inversion**: the loop succeeds only on `key : expression` followed by `,` or `}` -/
theorem selectObjectLoop_ok_inv (fuel : Nat) (child : Option INode) (fields : List (Bytes × INode)) (s : PState)
    (r : INode × PState) (h : selectObjectLoop (fuel + 1) child fields s = .ok r) :
    ∃ k, keyOf s = some k ∧ s.next.type = .colon ∧ ∃ s1 f s2, advance2 s = .ok ((), s1) ∧
      expression fuel 1 s1 = .ok (f, s2) ∧ (s2.curr.type = .comma ∨ s2.curr.type = .closeBrace) := by
  cases hk : keyOf s with
  | none =>
    exfalso
    rw [selectObjectLoop.eq_2, bind_ok (get_run s)] at h
    unfold keyOf at hk
    split at hk
    · rename_i heq; simp [bind_run, heq, hk, fail_run] at h
    · cases hk
    · rename_i h1 h2
      have := selectObjectLoop_bad_key fuel child fields s h1 h2
      rw [selectObjectLoop.eq_2, bind_ok (get_run s)] at this
      rw [this] at h; cases h
  | some k =>
    refine ⟨k, rfl, ?_⟩
    by_cases hc : s.next.type = .colon
    · refine ⟨hc, ?_⟩
      cases ha : advance2 s with
      | error e =>
        exfalso
        rw [selectObjectLoop.eq_2, bind_ok (get_run s)] at h
        unfold keyOf at hk
        split at hk
        · rename_i heq; simp [bind_run, heq, hk, pure_run, hc, ha] at h
        · rename_i heq; simp [bind_run, heq, pure_run, hc, ha] at h
        · cases hk
      | ok x =>
        obtain ⟨⟨⟩, s1⟩ := x
        cases he : expression fuel 1 s1 with
        | error e =>
          exfalso
          rw [selectObjectLoop.eq_2, bind_ok (get_run s)] at h
          unfold keyOf at hk
          split at hk
          · rename_i heq; simp [bind_run, heq, hk, pure_run, hc, ha, he] at h
          · rename_i heq; simp [bind_run, heq, pure_run, hc, ha, he] at h
          · cases hk
        | ok y =>
          obtain ⟨f, s2⟩ := y
          refine ⟨s1, f, s2, rfl, he, ?_⟩
          by_cases h1 : s2.curr.type = .comma
          · exact Or.inl h1
          · by_cases h2 : s2.curr.type = .closeBrace
            · exact Or.inr h2
            · rw [selectObjectLoop_bad_separator fuel child fields s s1 s2 k f hk hc ha he h1 h2] at h
              cases h
    · rw [selectObjectLoop_no_colon fuel child fields s k hk hc] at h
      cases h


/-! ### non-vacuity of the lemmas of section 9 -/

/-- `a : b c : d }` (the state after `{`): the separator after `a: b` is the identifier `c` -/
example : selectObjectLoop 4 none []
    (stOf [⟨.unquotedIdentifier, [0x61]⟩, ⟨.colon, [0x3A]⟩, ⟨.unquotedIdentifier, [0x62]⟩,
           ⟨.unquotedIdentifier, [0x63]⟩, ⟨.colon, [0x3A]⟩, ⟨.unquotedIdentifier, [0x64]⟩, ⟨.closeBrace, [0x7D]⟩])
      = .error .unexpectedToken :=
  selectObjectLoop_bad_separator 3 none [] _ _ _ [0x61] (.field [0x62]) rfl rfl (advance2_stOf _ _ _)
    (operand_ident (t := ⟨.unquotedIdentifier, [0x62]⟩) rfl 1 _ ⟨by decide, by decide⟩) (by decide) (by decide)

/-- `@ : a }`: the key is `@` -/
example : selectObjectLoop 1 none []
    (stOf [⟨.current, [0x40]⟩, ⟨.colon, [0x3A]⟩, ⟨.unquotedIdentifier, [0x61]⟩, ⟨.closeBrace, [0x7D]⟩])
      = .error .unexpectedToken :=
  selectObjectLoop_bad_key 0 none [] _ (by decide) (by decide)

/-- `a b`: no colon after the key -/
example : selectObjectLoop 1 none [] (stOf [⟨.unquotedIdentifier, [0x61]⟩, ⟨.unquotedIdentifier, [0x62]⟩])
      = .error .unexpectedToken :=
  selectObjectLoop_no_colon 0 none [] _ [0x61] rfl (by decide)

/-- `: : , b ]` (after `[`): after `start:stop:` comes a comma -/
example : indexP none (stOf [⟨.colon, [0x3A]⟩, ⟨.colon, [0x3A]⟩, ⟨.comma, [0x2C]⟩, ⟨.unquotedIdentifier, [0x62]⟩,
      ⟨.closeSqBrace, [0x5D]⟩]) = .error .unexpectedToken := by
  rw [indexP_colon none _ _ rfl (advance_stOf _ _), stopPhase_colon none _ _ _ _ rfl (advance_stOf _ _)]
  exact stepPhase_unexpected _ _ _ _ _ _ (by decide) (by decide)

/-- `1 : 2 : 0 ]`: the step is zero -/
example : indexP none (stOf [⟨.integerLiteral, [0x31]⟩, ⟨.colon, [0x3A]⟩, ⟨.integerLiteral, [0x32]⟩, ⟨.colon, [0x3A]⟩,
      ⟨.integerLiteral, [0x30]⟩, ⟨.closeSqBrace, [0x5D]⟩]) = .error .invalidSliceStep := by
  rw [indexP_int_colon none 1 _ _ rfl (by decide) rfl (advance2_stOf _ _ _),
    stopPhase_int_colon none _ _ 2 _ _ rfl (by decide) rfl (advance2_stOf _ _ _)]
  exact stepPhase_zero _ _ _ _ _ _ rfl rfl (by decide)

/-- `: : 2 b`: an integer step not followed by `]` -/
example : indexP none (stOf [⟨.colon, [0x3A]⟩, ⟨.colon, [0x3A]⟩, ⟨.integerLiteral, [0x32]⟩,
      ⟨.unquotedIdentifier, [0x62]⟩]) = .error .unexpectedToken := by
  rw [indexP_colon none _ _ rfl (advance_stOf _ _), stopPhase_colon none _ _ _ _ rfl (advance_stOf _ _)]
  exact stepPhase_unexpected_after_int _ _ _ _ _ _ rfl (by decide)

end Jmes.C04
