/-
  Property C15 — "Evaluating the same expression on equal documents always yields equal outcomes … The only
  permitted variation is the order of elements in arrays obtained by enumerating an object's members (wildcard on
  objects, keys, values, items) and which fault is reported when several sub-expressions fail at once."

  The model is a function of `(expression, document)`; the variation Go exhibits (map iteration order) is made
  explicit in three places: the `enum` array tag, the outcome `nondet`, and error outcomes carrying more than one
  category. This file shows that none of the three can arise unless the expression enumerates an object:

  * `ieval_noenum` / `evaluate_noenum`: if the document, the literals, the current value and the environment contain
    no map-ordered array and the expression is `EnumFree`, the outcome is a single definite one: never `nondet`, an
    error names exactly one category, and a value again contains no map-ordered array.
  * `sort_nondet`: COUNTEREXAMPLE to the statement without a side condition on `sort`: the model gives `nondet` for
    `sort(@)` on `[1, 1.0]` (equal numbers of different representation, unstable sort), although nothing enumerates
    an object. `EnumFree` therefore also excludes the `sort` builtin.
  * `objectValues_perm`, `values_perm`, `keys_perm`, `items_perm`: the arrays produced by enumerating an object depend
    on the order of the member list only up to a permutation.
-/
import Jmes.Proofs.Invariants
namespace Jmes.C15
open Invar

/-- in strict mode the per-node requirement is: literals without map-ordered arrays, no enumerating construct -/
theorem nodeOk_true : nodeOk true = fun m => INode.litOk Val.NoEnum m && INode.noEnumHead m := by
  funext m
  show (INode.litOk Val.NoEnum m && (!true || INode.noEnumHead m)) = _
  simp

theorem all_nodeOk_true {n : INode} (hl : n.NoEnumLits = true) (he : n.EnumFree = true) :
    n.all (nodeOk true) = true := by
  rw [nodeOk_true, INode.all_and]
  simp only [INode.NoEnumLits, INode.LitsAll, INode.EnumFree] at hl he
  rw [hl, he]
  rfl

/-- **C15, strict part.** Without map-ordered arrays in the inputs and without object enumeration in the
    expression, the outcome is definite. -/
theorem ieval_noenum {root cur : Val} {env : Env} {n : INode}
    (hroot : root.NoEnum = true) (hcur : cur.NoEnum = true) (henv : Env.NoEnum env = true)
    (hl : n.NoEnumLits = true) (he : n.EnumFree = true) :
    ieval root n cur env ≠ .nondet ∧
    (∀ r, ieval root n cur env = .ok r → r.NoEnum = true) ∧
    (∀ cs, ieval root n cur env = .err cs → cs.length = 1) :=
  Sat.strict_iff.mp (ieval_sat (s := true) hroot n cur env (all_nodeOk_true hl he) hcur henv)

theorem evaluate_noenum {d : Val} {n : INode} (hd : d.NoEnum = true) (hl : n.NoEnumLits = true)
    (he : n.EnumFree = true) :
    evaluate n d ≠ .nondet ∧
    (∀ r, evaluate n d = .ok r → r.NoEnum = true) ∧
    (∀ cs, evaluate n d = .err cs → cs.length = 1) :=
  ieval_noenum hd hd rfl hl he

/-- the same through `search`, for an expression whose compiled form satisfies the two syntactic conditions -/
theorem search_noenum {expr : Bytes} {d : Val} (hd : d.NoEnum = true)
    (hn : ∀ n, compile expr = .ok n → n.NoEnumLits = true ∧ n.EnumFree = true) :
    search expr d ≠ .nondet ∧
    (∀ r, search expr d = .ok r → r.NoEnum = true) ∧
    (∀ cs, search expr d = .err cs → cs.length = 1) := by
  unfold search
  unfold compile at hn
  split
  · simp
  · simp
  · next n hp => exact evaluate_noenum hd (hn n hp).1 (hn n hp).2

/-! ### non-vacuity -/

/-- `1` and `1.0` as `json.Number`s -/
def one : Val := .num (.jnum [0x31])
def onePt : Val := .num (.jnum [0x31, 0x2E, 0x30])
/-- `{"a": [1, null], "b": 1.0}` -/
def doc : Val := .obj [([0x61], .arr .plain [one, .null]), ([0x62], onePt)]
/-- `a[*] | [0]`-like node: project the array under `a`, then prune -/
def prog : INode := .pruneArray (.projectArray (.field [0x61]) .current)

example : doc.NoEnum = true := by decide
example : prog.NoEnumLits = true := by decide
example : prog.EnumFree = true := by decide
example : evaluate prog doc ≠ .nondet := (evaluate_noenum (d := doc) (n := prog) (by decide) (by decide) (by decide)).1
example : evaluate prog doc = .ok (.arr .plain [one]) := rfl
/-- an expression that is *not* `EnumFree`, and whose result is a map-ordered array -/
example : (INode.objectValuesCurrent).EnumFree = false := by decide
example : evaluate .objectValuesCurrent doc = .ok (.arr .enum [.arr .plain [one, .null], onePt]) := rfl
example : (INode.selectObjectCurrent [([0x61], .current), ([0x62], .current)]).EnumFree = false := by decide
example : (INode.selectObjectCurrent [([0x61], .current)]).EnumFree = true := by decide
/-- two failing members of a multi-select hash: which fault is reported depends on the order (two categories) -/
example : evaluate (.selectObjectCurrent [([0x61], .call .abs [.lit (.str [])]), ([0x62], .variable [0x78])])
    doc = .err [Cat.undefinedVariable, Cat.invalidType] := rfl

/-! ### counterexample: `sort` is not definite on equal numbers of different representation -/

theorem toDecimal_one : toDecimal (.num (.jnum [0x31])) = some (.fin false 1 0) := by decide
theorem toDecimal_onePt : toDecimal (.num (.jnum [0x31, 0x2E, 0x30])) = some (.fin false 1 0) := by decide

theorem sortArray_tie : sortArray (.arr .plain [one, onePt]) = .nondet := by
  have c : Dec.compare (.fin false 1 0) (.fin false 1 0) = 0 := by decide
  have hs : Val.same (.num (.jnum [0x31])) (.num (.jnum [0x31, 0x2E, 0x30])) = false := by decide
  simp [sortArray, allDecimals, toDecimal_one, toDecimal_onePt, one, onePt, List.mergeSort,
    List.MergeSort.Internal.splitInTwo, hasAmbiguousTie, c, hs]

/-- COUNTEREXAMPLE: `sort(@)` on the JSON document `[1, 1.0]` is `nondet` in the model, although neither the
    document nor the expression involves a map-ordered array. So "no object enumeration ⇒ definite outcome" needs
    `sort` excluded (as `INode.EnumFree` does). -/
theorem sort_nondet :
    (Val.arr .plain [one, onePt]).NoEnum = true ∧
    (INode.call .sort [.current]).NoEnumLits = true ∧
    evaluate (.call .sort [.current]) (.arr .plain [one, onePt]) = .nondet := by
  refine ⟨by decide, by decide, ?_⟩
  have : evaluate (.call .sort [.current]) (.arr .plain [one, onePt]) = sortArray (.arr .plain [one, onePt]) := rfl
  rw [this, sortArray_tie]

example : (INode.call .sort [.current]).EnumFree = false := by decide

/-! ### E: enumerating an object depends on the member order only up to a permutation -/

theorem objectValues_perm {kvs kvs' : List (Bytes × Val)} (h : kvs'.Perm kvs) :
    ∃ xs xs', objectValues (.obj kvs') = .arr .enum xs' ∧ objectValues (.obj kvs) = .arr .enum xs ∧ xs'.Perm xs :=
  ⟨_, _, rfl, rfl, (h.map _).filter _⟩

theorem values_perm {kvs kvs' : List (Bytes × Val)} (h : kvs'.Perm kvs) :
    ∃ xs xs', values (.obj kvs') = .ok (.arr .enum xs') ∧ values (.obj kvs) = .ok (.arr .enum xs) ∧ xs'.Perm xs :=
  ⟨_, _, rfl, rfl, h.map _⟩

theorem keys_perm {kvs kvs' : List (Bytes × Val)} (h : kvs'.Perm kvs) :
    ∃ xs xs', keys (.obj kvs') = .ok (.arr .enum xs') ∧ keys (.obj kvs) = .ok (.arr .enum xs) ∧ xs'.Perm xs :=
  ⟨_, _, rfl, rfl, h.map _⟩

theorem items_perm {kvs kvs' : List (Bytes × Val)} (h : kvs'.Perm kvs) :
    ∃ xs xs', items (.obj kvs') = .ok (.arr .enum xs') ∧ items (.obj kvs) = .ok (.arr .enum xs) ∧ xs'.Perm xs :=
  ⟨_, _, rfl, rfl, h.map _⟩

/-- all four at once, in the shape of the task statement -/
theorem enum_only_permutes {kvs kvs' : List (Bytes × Val)} (h : kvs'.Perm kvs) :
    (∃ xs xs', objectValues (.obj kvs') = .arr .enum xs' ∧ objectValues (.obj kvs) = .arr .enum xs ∧ xs'.Perm xs) ∧
    (∃ xs xs', values (.obj kvs') = .ok (.arr .enum xs') ∧ values (.obj kvs) = .ok (.arr .enum xs) ∧ xs'.Perm xs) ∧
    (∃ xs xs', keys (.obj kvs') = .ok (.arr .enum xs') ∧ keys (.obj kvs) = .ok (.arr .enum xs) ∧ xs'.Perm xs) ∧
    (∃ xs xs', items (.obj kvs') = .ok (.arr .enum xs') ∧ items (.obj kvs) = .ok (.arr .enum xs) ∧ xs'.Perm xs) :=
  ⟨objectValues_perm h, values_perm h, keys_perm h, items_perm h⟩

example : ∃ xs xs', keys (.obj [([0x62], onePt), ([0x61], one)]) = .ok (.arr .enum xs') ∧
    keys (.obj [([0x61], one), ([0x62], onePt)]) = .ok (.arr .enum xs) ∧ xs'.Perm xs :=
  keys_perm (List.Perm.swap _ _ _)

end Jmes.C15
