/-
  C20B — gaps of C20 closed:

  1. `==` on JSON numbers compares the *rational values of the texts*: `ratVal` reads a number text independently of
     the decimal model; for texts with at most 34 significant digits (more precisely: digit string `≤ MAXSIG`) and
     exponents in range, `t1 == t2 ⟺ ratVal t1 = ratVal t2`.  Beyond that, both sides are first rounded half-even to
     the longest coefficient `≤ MAXSIG` (`round34`), and very small values are zero.
  2. `JsonVal` (the hypothesis of the equivalence laws of C20) holds of every decoded document whose numbers are in
     range, and is preserved by evaluation.
  3. `==` on map-ordered arrays: a definite answer never depends on the order.
-/
import Jmes.Proofs.C20BLemmas
import Jmes.Proofs.C20BClosureLemmas
import Jmes.Proofs.C20BDecodeLemmas
import Jmes.Properties.C20
namespace Jmes.C20B
open Jmes.Dec Jmes.C05 Jmes.C20

/-! ## 1. Numbers are compared by value -/

/-- **the rational value of a number text**, as a pair `(m, e)` meaning `m · 10^e`, in normal form (`10 ∤ m`, zero is
    `(0, 0)`).  `ratRaw` reads the text with its own little reader (sign, digits, `.` digits, `e±digits`); nothing
    of the decimal128 model is involved. -/
def ratVal (t : Bytes) : Int × Int := ratNorm (ratRaw t)

/-- the normal form is faithful: two texts have the same `ratVal` iff `m1 · 10^e1 = m2 · 10^e2` (both sides written
    at the smaller exponent, so that the statement stays in the integers) -/
theorem ratVal_eq_iff (t1 t2 : Bytes) : ratVal t1 = ratVal t2 ↔ RatEq (ratRaw t1) (ratRaw t2) :=
  ratNorm_eq_iff _ _

-- "1.0", "1", "10e-1", "1E0" all have the value (1, 0); "-0", "0.0" the value (0, 0); "2.50" is (25, -1)
example : ratVal [0x31, 0x2E, 0x30] = (1, 0) ∧ ratVal [0x31] = (1, 0) ∧ ratVal [0x31, 0x30, 0x65, 0x2D, 0x31] = (1, 0) ∧
    ratVal [0x31, 0x45, 0x30] = (1, 0) ∧ ratVal [0x2D, 0x30] = (0, 0) ∧ ratVal [0x30, 0x2E, 0x30] = (0, 0) ∧
    ratVal [0x32, 0x2E, 0x35, 0x30] = (25, -1) ∧ ratRaw [0x32, 0x2E, 0x35, 0x30] = (250, -2) ∧
    ratVal [0x2D, 0x31, 0x32, 0x2E, 0x35, 0x45, 0x2B, 0x33] = (-125, 2) := by decide

/-- a number text in the regular range: grammatical, exponent field at most 6189 (a larger field makes
    `decimal128.Parse` give up without looking at the digits, see `huge_exponent_field`), no underflow (`EMIN ≤` the
    exponent of the last digit) and no overflow: after rounding the exponent is `≤ EMAX`, or else the digit string
    still fits when the exponent is brought down to `EMAX` by appending zeros (`1e6144` is `10^33 · 10^6111`) -/
structure Regular (t : Bytes) : Prop where
  gram : Lexical.JNumber t
  efield : (numParts t).efield ≤ 6189
  lo : EMIN ≤ (ratRaw t).2
  hi : (round34 (ratRaw t)).2 + (if rhe (numParts t).mant (ndrop (numParts t).mant) ≤ MAXSIG then 0 else 1) ≤ EMAX ∨
    (numParts t).mant * 10 ^ ((ratRaw t).2 - EMAX).toNat ≤ MAXSIG

/-- …with a digit string that needs no rounding: `int ++ frac`, read as a number — and padded with zeros when the
    exponent of its last digit is above `EMAX` — is `≤ MAXSIG ≈ 1.29·10^34` -/
structure Fits (t : Bytes) : Prop where
  gram : Lexical.JNumber t
  efield : (numParts t).efield ≤ 6189
  lo : EMIN ≤ (ratRaw t).2
  room : (numParts t).mant * 10 ^ ((ratRaw t).2 - EMAX).toNat ≤ MAXSIG

/-- in particular the digit string itself is `≤ MAXSIG` -/
theorem Fits.mant {t : Bytes} (h : Fits t) : (numParts t).mant ≤ MAXSIG :=
  Nat.le_trans (Nat.le_mul_of_pos_right _ (Nat.pow_pos (by decide))) h.room

/-- the reader `ratRaw` on a text assembled from its components: signed digit string, exponent of the last digit -/
theorem ratRaw_numText (neg : Bool) (b : Nat) (ip fp : Bytes) (ex : Option (Bool × Option Bool × Bytes))
    (h : WF b ip fp ex) :
    ratRaw (numText neg (b :: ip) fp ex) =
      (if neg then -(dval 0 ((b :: ip) ++ fp) : Int) else (dval 0 ((b :: ip) ++ fp) : Int), numTextExp fp ex) := by
  simp only [ratRaw, numParts_numText neg b ip fp ex h, numTextExp_eq]

/-- a text that fits is regular (nothing to round) -/
theorem Fits.regular {t : Bytes} (h : Fits t) : Regular t := ⟨h.gram, h.efield, h.lo, Or.inr h.room⟩

/-- at most 34 significant digits (leading zeros do not count) with the last digit's exponent in `[EMIN, EMAX]`
    always fit -/
theorem Fits.of_34 {t : Bytes} (hg : Lexical.JNumber t) (he : (numParts t).efield ≤ 6189)
    (h34 : (numParts t).mant < 10 ^ 34) (lo : EMIN ≤ (ratRaw t).2) (hi : (ratRaw t).2 ≤ EMAX) : Fits t := by
  refine ⟨hg, he, lo, ?_⟩
  have : ((ratRaw t).2 - EMAX).toNat = 0 := by omega
  rw [this]
  simpa using lt_pow34_le_MAXSIG h34

/-- **what `toDecimal` makes of a regular number text**: the decimal whose pair is `round34 (ratRaw t)` -/
theorem toDecimal_regular {t : Bytes} (h : Regular t) :
    ∃ n c e, toDecimal (.num (.jnum t)) = some (normalize (.fin n c e)) ∧ decRat (.fin n c e) = round34 (ratRaw t) := by
  obtain ⟨neg, b, ip, fp, ex, rfl, hwf⟩ := jnumber_numText h.gram
  have hb : isDigit b = true := hwf.1 b (List.mem_cons_self ..)
  have hparts := numParts_numText neg b ip fp ex hwf
  have hraw := ratRaw_numText neg b ip fp ex hwf
  have hef := h.efield
  have hlo := h.lo
  have hhi := h.hi
  rw [hparts] at hef hhi
  rw [hraw] at hlo hhi
  rw [round34_signed] at hhi
  simp only [decRat] at hhi hlo hef
  generalize hVdef : dval 0 ((b :: ip) ++ fp) = V at *
  -- the case "exponent ≤ EMAX after rounding"
  have main : numTextExp fp ex + ((ndrop V : Nat) : Int) + (if rhe V (ndrop V) ≤ MAXSIG then 0 else 1) ≤ EMAX →
      ∃ n c e, toDecimal (.num (.jnum (numText neg (b :: ip) fp ex))) = some (normalize (.fin n c e)) ∧
        decRat (.fin n c e) = round34 (ratRaw (numText neg (b :: ip) fp ex)) := by
    intro hhi
    have hp := parseNumber_round neg true b ip fp ex hwf hef hlo (by rw [hVdef]; exact hhi)
    refine ⟨neg, rhe V (ndrop V), numTextExp fp ex + (ndrop V : Nat), ?_, ?_⟩
    · simp only [toDecimal]
      rw [parse_numText neg b ip fp ex hb, hp, hVdef]
    · rw [hraw, round34_signed]
  rcases hhi with hhi | hroom
  · exact main hhi
  · have hVm : V ≤ MAXSIG := Nat.le_trans (Nat.le_mul_of_pos_right _ (Nat.pow_pos (by decide))) hroom
    by_cases hE : numTextExp fp ex ≤ EMAX
    · apply main
      rw [ndrop_zero hVm, rhe_zero]
      simp only [hVm, if_true]
      omega
    · have hsmall : round34 (ratRaw (numText neg (b :: ip) fp ex)) = ratRaw (numText neg (b :: ip) fp ex) := by
        apply round34_small
        rw [hraw]; cases neg <;> simpa using hVm
      refine ⟨neg, V, numTextExp fp ex, ?_, by rw [hsmall, hraw]; rfl⟩
      simp only [toDecimal]
      rw [parse_numText neg b ip fp ex hb]
      by_cases hv0 : V = 0
      · rw [parseNumber_zero neg true b ip fp ex hwf (Or.inl (by rw [hVdef]; exact hv0)), hv0, normalize_zero]
      · have := parseNumber_high neg true b ip fp ex hwf hef (by rw [hVdef]; exact hVm) (by rw [hVdef]; exact hv0) (by omega)
        rw [this, hVdef]
        simp only [hroom, if_true]

/-- **numbers are compared by value, rounded to the format.**  For regular number texts,
    `t1 == t2` iff the values `ratRaw t1`, `ratRaw t2`, each rounded half-even to the longest coefficient `≤ MAXSIG`
    (`round34`; the identity on digit strings `≤ MAXSIG`), are the same rational. -/
theorem equal_jnum_iff {t1 t2 : Bytes} (h1 : Regular t1) (h2 : Regular t2) :
    equal (.num (.jnum t1)) (.num (.jnum t2)) = true ↔ ratNorm (round34 (ratRaw t1)) = ratNorm (round34 (ratRaw t2)) := by
  obtain ⟨n1, c1, e1, hd1, hr1⟩ := toDecimal_regular h1
  obtain ⟨n2, c2, e2, hd2, hr2⟩ := toDecimal_regular h2
  rw [equal_num_by_value, ← hr1, ← hr2, ← cmp_zero_iff_ratNorm, ← cmp_normalize_iff]
  constructor
  · rintro ⟨dx, dy, hx, hy, hc⟩
    rw [hd1] at hx; rw [hd2] at hy
    cases hx; cases hy; exact hc
  · intro hc
    exact ⟨_, _, hd1, hd2, hc⟩

/-- **`==` on number texts of at most 34 significant digits is equality of their rational values**
    (the digit string may be anything `≤ MAXSIG`; trailing and leading zeros, the position of the point, the case
    of `e`, `+` and leading zeros in the exponent, and the sign of zero do not matter) -/
theorem equal_jnum_iff_ratVal {t1 t2 : Bytes} (h1 : Fits t1) (h2 : Fits t2) :
    equal (.num (.jnum t1)) (.num (.jnum t2)) = true ↔ ratVal t1 = ratVal t2 := by
  have hm : ∀ t, Fits t → (ratRaw t).1.natAbs ≤ MAXSIG := by
    intro t h
    have : (ratRaw t).1.natAbs = (numParts t).mant := by simp only [ratRaw]; split <;> simp
    rw [this]; exact h.mant
  rw [equal_jnum_iff h1.regular h2.regular, round34_small (hm t1 h1), round34_small (hm t2 h2)]
  rfl

/-- the same with the equation between the values spelled out -/
theorem equal_jnum_iff_value {t1 t2 : Bytes} (h1 : Fits t1) (h2 : Fits t2) :
    equal (.num (.jnum t1)) (.num (.jnum t2)) = true ↔ RatEq (ratRaw t1) (ratRaw t2) := by
  rw [equal_jnum_iff_ratVal h1 h2, ratVal_eq_iff]

/-! ### the predicates are decidable, so concrete instances are checked by evaluation -/

/-- `Fits` as a conjunction of decidable checks (`Json.isValidNumber` decides the grammar) -/
theorem fits_iff (t : Bytes) : Fits t ↔ (Json.isValidNumber t = true ∧ (numParts t).efield ≤ 6189 ∧
    EMIN ≤ (ratRaw t).2 ∧ (numParts t).mant * 10 ^ ((ratRaw t).2 - EMAX).toNat ≤ MAXSIG) := by
  rw [JsonGrammar.isValidNumber_iff]
  exact ⟨fun h => ⟨h.gram, h.efield, h.lo, h.room⟩, fun ⟨a, b, c, d⟩ => ⟨a, b, c, d⟩⟩

instance (t : Bytes) : Decidable (Fits t) := decidable_of_iff _ (fits_iff t).symm

/-- `Regular` as a conjunction of decidable checks -/
theorem regular_iff (t : Bytes) : Regular t ↔ (Json.isValidNumber t = true ∧ (numParts t).efield ≤ 6189 ∧
    EMIN ≤ (ratRaw t).2 ∧ ((round34 (ratRaw t)).2 +
      (if rhe (numParts t).mant (ndrop (numParts t).mant) ≤ MAXSIG then 0 else 1) ≤ EMAX ∨
      (numParts t).mant * 10 ^ ((ratRaw t).2 - EMAX).toNat ≤ MAXSIG)) := by
  rw [JsonGrammar.isValidNumber_iff]
  exact ⟨fun h => ⟨h.gram, h.efield, h.lo, h.hi⟩, fun ⟨a, b, c, d⟩ => ⟨a, b, c, d⟩⟩

instance (t : Bytes) : Decidable (Regular t) := decidable_of_iff _ (regular_iff t).symm

/-! ### examples: different spellings, near misses -/

/-- `1.0`, `1`, `10e-1`, `1E0`, `0.1e+01`, `1.000e00` are all equal … -/
example : equal (.num (.jnum [0x31, 0x2E, 0x30])) (.num (.jnum [0x31])) = true ∧
    equal (.num (.jnum [0x31, 0x30, 0x65, 0x2D, 0x31])) (.num (.jnum [0x31, 0x45, 0x30])) = true ∧
    equal (.num (.jnum [0x30, 0x2E, 0x31, 0x65, 0x2B, 0x30, 0x31])) (.num (.jnum [0x31, 0x2E, 0x30, 0x30, 0x30, 0x65, 0x30, 0x30])) = true :=
  ⟨(equal_jnum_iff_ratVal (by decide) (by decide)).mpr (by decide),
   (equal_jnum_iff_ratVal (by decide) (by decide)).mpr (by decide),
   (equal_jnum_iff_ratVal (by decide) (by decide)).mpr (by decide)⟩

/-- … `-0` and `0.0` are equal, `-1` and `1` are not … -/
example : equal (.num (.jnum [0x2D, 0x30])) (.num (.jnum [0x30, 0x2E, 0x30])) = true ∧
    equal (.num (.jnum [0x2D, 0x31])) (.num (.jnum [0x31])) = false := by
  refine ⟨(equal_jnum_iff_ratVal (by decide) (by decide)).mpr (by decide), ?_⟩
  rw [Bool.eq_false_iff, Ne, equal_jnum_iff_ratVal (by decide) (by decide)]
  decide

/-- the 34-digit text `1.000000000000000000000000000000001` (1 and 33 decimals) -/
def onePlusUlp : Bytes := [0x31, 0x2E] ++ List.replicate 32 0x30 ++ [0x31]

/-- … and a near miss in the 34th digit is *not* equal: `1 == 1.000000000000000000000000000000001` is false -/
example : Fits onePlusUlp ∧ ratVal onePlusUlp = (1000000000000000000000000000000001, -33) ∧
    equal (.num (.jnum [0x31])) (.num (.jnum onePlusUlp)) = false := by
  refine ⟨by decide, by decide, ?_⟩
  rw [Bool.eq_false_iff, Ne, equal_jnum_iff_ratVal (by decide) (by decide)]
  decide

/-- above `EMAX` but still representable: `1e6144 == 1000e6141` -/
example : equal (.num (.jnum [0x31, 0x65, 0x36, 0x31, 0x34, 0x34])) (.num (.jnum [0x31, 0x30, 0x30, 0x30, 0x65, 0x36, 0x31, 0x34, 0x31])) = true :=
  (equal_jnum_iff_ratVal (by decide) (by decide)).mpr (by decide)

/-- `Fits.of_34` on the 34-digit text above -/
example : Fits onePlusUlp :=
  Fits.of_34 ((JsonGrammar.isValidNumber_iff _).mp (by decide)) (by decide) (by decide) (by decide) (by decide)

/-- the same inside containers, with reordered members: `{"a":[1.0,2],"b":-0}` == `{"b":0.0,"a":[1,20e-1]}` -/
example : equal
    (.obj [([0x61], .arr .plain [.num (.jnum [0x31, 0x2E, 0x30]), .num (.jnum [0x32])]), ([0x62], .num (.jnum [0x2D, 0x30]))])
    (.obj [([0x62], .num (.jnum [0x30, 0x2E, 0x30])),
           ([0x61], .arr .plain [.num (.jnum [0x31]), .num (.jnum [0x32, 0x30, 0x65, 0x2D, 0x31])])]) = true := by
  decide

/-! ## 2. Beyond 34 digits, below the smallest and above the largest number -/

/-- the text `t` as bytes of the digits of a natural number (for the examples) -/
def digits (n : Nat) : Bytes := Dec.natToBytes n

/-- **more than 34 digits: rounding.**  The exact rule is `toDecimal_regular` / `equal_jnum_iff`: the digit string
    `V` loses its `k = ndrop V` low digits — the fewest such that `V / 10^k ≤ MAXSIG = 12980742146337069071326240823050239`
    — and `V / 10^k` is rounded to nearest, ties to even (`rhe V k`); two texts are equal iff these rounded values are.
    So `1.00000000000000000000000000000000000001` (39 digits) equals `1` … -/
example : equal (.num (.jnum ([0x31, 0x2E] ++ List.replicate 37 0x30 ++ [0x31]))) (.num (.jnum [0x31])) = true :=
  (equal_jnum_iff (by decide) (by decide)).mpr (by decide)

/-- … the boundary is `MAXSIG`, not `10^34`: the 35-digit `12980742146337069071326240823050239` is still exact (it
    differs from `…238`), while `12980742146337069071326240823050241` is rounded to `…240` -/
example : equal (.num (.jnum (digits 12980742146337069071326240823050239))) (.num (.jnum (digits 12980742146337069071326240823050238))) = false ∧
    equal (.num (.jnum (digits 12980742146337069071326240823050241))) (.num (.jnum (digits 12980742146337069071326240823050240))) = true := by
  constructor
  · rw [Bool.eq_false_iff, Ne, equal_jnum_iff_ratVal (by decide) (by decide)]; decide
  · exact (equal_jnum_iff (by decide) (by decide)).mpr (by decide)

/-- … and ties go to the even neighbour: `100000000000000000000000000000000005` is `1e35`,
    `100000000000000000000000000000000015` is `100000000000000000000000000000000020`, not `…10` -/
example : equal (.num (.jnum (digits 100000000000000000000000000000000005))) (.num (.jnum [0x31, 0x65, 0x33, 0x35])) = true ∧
    equal (.num (.jnum (digits 100000000000000000000000000000000015))) (.num (.jnum (digits 100000000000000000000000000000000020))) = true ∧
    equal (.num (.jnum (digits 100000000000000000000000000000000015))) (.num (.jnum (digits 100000000000000000000000000000000010))) = false := by
  refine ⟨(equal_jnum_iff (by decide) (by decide)).mpr (by decide), (equal_jnum_iff (by decide) (by decide)).mpr (by decide), ?_⟩
  rw [Bool.eq_false_iff, Ne, equal_jnum_iff (by decide) (by decide)]; decide

example : round34 (100000000000000000000000000000000015, 0) = (10000000000000000000000000000000002, 1) ∧
    round34 (-12980742146337069071326240823050241, -3) = (-1298074214633706907132624082305024, -2) ∧
    round34 (12980742146337069071326240823050239, 7) = (12980742146337069071326240823050239, 7) := by decide

/-- a number text too small to be told from zero: a zero digit string, or an exponent field above 6189 with a minus
    sign, or a first digit more than 39 places below `10^EMIN` -/
structure Tiny (t : Bytes) : Prop where
  gram : Lexical.JNumber t
  small : (numParts t).mant = 0 ∨ (6189 < (numParts t).efield ∧ (numParts t).eneg = true) ∨
    ((numParts t).efield ≤ 6189 ∧ (ratRaw t).2 + ((numParts t).ndig : Int) < EMIN - 39)

/-- `Tiny` as a conjunction of decidable checks -/
theorem tiny_iff (t : Bytes) : Tiny t ↔ (Json.isValidNumber t = true ∧ ((numParts t).mant = 0 ∨
    (6189 < (numParts t).efield ∧ (numParts t).eneg = true) ∨
    ((numParts t).efield ≤ 6189 ∧ (ratRaw t).2 + ((numParts t).ndig : Int) < EMIN - 39))) := by
  rw [JsonGrammar.isValidNumber_iff]
  exact ⟨fun h => ⟨h.gram, h.small⟩, fun ⟨a, b⟩ => ⟨a, b⟩⟩

instance (t : Bytes) : Decidable (Tiny t) := decidable_of_iff _ (tiny_iff t).symm

/-- **underflow**: such a text is read as (signed) zero -/
theorem toDecimal_tiny {t : Bytes} (h : Tiny t) : toDecimal (.num (.jnum t)) = some (.fin (numParts t).neg 0 0) := by
  obtain ⟨neg, b, ip, fp, ex, rfl, hwf⟩ := jnumber_numText h.gram
  have hb : isDigit b = true := hwf.1 b (List.mem_cons_self ..)
  have hsm := h.small
  rw [ratRaw_numText neg b ip fp ex hwf, numParts_numText neg b ip fp ex hwf] at hsm
  simp only [] at hsm
  have hp := parseNumber_zero neg true b ip fp ex hwf hsm
  simp only [toDecimal]
  rw [parse_numText neg b ip fp ex hb, hp, numParts_numText neg b ip fp ex hwf]

/-- so it equals every other such text, `0` in particular: `1e-7000 == 0` is true although the values differ -/
theorem equal_tiny {t1 t2 : Bytes} (h1 : Tiny t1) (h2 : Tiny t2) : equal (.num (.jnum t1)) (.num (.jnum t2)) = true := by
  rw [equal_num_by_value]
  refine ⟨_, _, toDecimal_tiny h1, toDecimal_tiny h2, ?_⟩
  simp [cmp, cmpFin]

example : equal (.num (.jnum [0x31, 0x65, 0x2D, 0x37, 0x30, 0x30, 0x30])) (.num (.jnum [0x30])) = true ∧
    ratVal [0x31, 0x65, 0x2D, 0x37, 0x30, 0x30, 0x30] = (1, -7000) ∧ ratVal [0x30] = (0, 0) :=
  ⟨equal_tiny (by decide) (by decide), by decide, by decide⟩

/-- a tiny text equals a regular one only if the latter is a zero -/
theorem equal_tiny_regular {t1 t2 : Bytes} (h1 : Tiny t1) (h2 : Regular t2) :
    equal (.num (.jnum t1)) (.num (.jnum t2)) = true ↔ (numParts t2).mant = 0 := by
  obtain ⟨n2, c2, e2, hd2, hr2⟩ := toDecimal_regular h2
  have hm : (ratRaw t2).1 = 0 ↔ (numParts t2).mant = 0 := by simp only [ratRaw]; split <;> omega
  rw [equal_num_by_value, ← hm, ← round34_fst_eq_zero_iff, ← hr2, ← ratNorm_eq_zero_iff]
  have hz : ratNorm (decRat (.fin (numParts t1).neg 0 0)) = (0, 0) := by cases (numParts t1).neg <;> decide
  rw [← hz, eq_comm, ← cmp_zero_iff_ratNorm, ← cmp_normalize_iff, normalize_zero]
  constructor
  · rintro ⟨dx, dy, hx, hy, hc⟩
    rw [toDecimal_tiny h1] at hx; rw [hd2] at hy
    cases hx; cases hy; exact hc
  · intro hc
    exact ⟨_, _, toDecimal_tiny h1, hd2, hc⟩

/-- a number text too large for the format: a non-zero digit string with an exponent field above 6189 (no minus
    sign), or a last digit more than 39 places above `10^EMAX`, or a digit string `> MAXSIG` whose rounding ends
    above `EMAX` -/
structure Huge (t : Bytes) : Prop where
  gram : Lexical.JNumber t
  nz : (numParts t).mant ≠ 0
  big : (6189 < (numParts t).efield ∧ (numParts t).eneg = false) ∨
    ((numParts t).efield ≤ 6189 ∧ EMAX + 39 < (ratRaw t).2) ∨
    ((numParts t).efield ≤ 6189 ∧ EMIN ≤ (ratRaw t).2 ∧ MAXSIG < (numParts t).mant ∧
      EMAX < (round34 (ratRaw t)).2 + (if rhe (numParts t).mant (ndrop (numParts t).mant) ≤ MAXSIG then 0 else 1)) ∨
    ((numParts t).efield ≤ 6189 ∧ (numParts t).mant ≤ MAXSIG ∧ EMAX < (ratRaw t).2 ∧
      MAXSIG < (numParts t).mant * 10 ^ ((ratRaw t).2 - EMAX).toNat)

/-- **overflow** (known finding KF02 / F28): such a text is not a number for `toDecimal` … -/
theorem toDecimal_huge {t : Bytes} (h : Huge t) : toDecimal (.num (.jnum t)) = none := by
  obtain ⟨neg, b, ip, fp, ex, rfl, hwf⟩ := jnumber_numText h.gram
  have hb : isDigit b = true := hwf.1 b (List.mem_cons_self ..)
  have hnz := h.nz
  have hbig := h.big
  rw [ratRaw_numText neg b ip fp ex hwf, numParts_numText neg b ip fp ex hwf] at hbig
  rw [numParts_numText neg b ip fp ex hwf] at hnz
  rw [round34_signed] at hbig
  simp only [decRat] at hbig hnz
  simp only [toDecimal]
  rw [parse_numText neg b ip fp ex hb]
  rcases hbig with ⟨g1, g2⟩ | ⟨g1, g2⟩ | ⟨g1, g2, g3, g4⟩ | ⟨g1, g2, g3, g4⟩
  · rw [parseNumber_maxexp_range neg true b ip fp ex hwf hnz g1 g2]
  · rw [parseNumber_far_overflow neg true b ip fp ex hwf hnz g1 g2]
  · rw [parseNumber_overflow neg true b ip fp ex hwf g1 g2 g3 g4]
  · rw [parseNumber_high neg true b ip fp ex hwf g1 g2 hnz g3]
    simp only [Nat.not_le.mpr g4, if_false]

/-- … so it is equal to nothing, not even to itself -/
theorem equal_huge {t : Bytes} (h : Huge t) (x : Val) :
    equal (.num (.jnum t)) x = false ∧ equal x (.num (.jnum t)) = false := by
  have hd := toDecimal_huge h
  constructor
  · cases he : equal (.num (.jnum t)) x with
    | false => rfl
    | true =>
      obtain ⟨_, _, hx, _⟩ := (equal_num_left_iff _ x).mp he
      rw [hd] at hx; cases hx
  · cases x with
    | num n => exact equal_num_left_false n _ hd
    | _ => simp [equal, Val.isNull]

example : Huge [0x31, 0x65, 0x37, 0x30, 0x30, 0x30] ∧
    equal (.num (.jnum [0x31, 0x65, 0x37, 0x30, 0x30, 0x30])) (.num (.jnum [0x31, 0x65, 0x37, 0x30, 0x30, 0x30])) = false := by
  have h : Huge [0x31, 0x65, 0x37, 0x30, 0x30, 0x30] := ⟨(JsonGrammar.isValidNumber_iff _).mp (by decide), by decide, by decide⟩
  exact ⟨h, (equal_huge h _).1⟩

/-- **nothing in between**: a non-zero text with an exponent field `≤ 6189` and no underflow is either regular (and
    then compared by its rounded value) or huge (and then equal to nothing) -/
theorem regular_or_huge {t : Bytes} (hg : Lexical.JNumber t) (he : (numParts t).efield ≤ 6189) (hlo : EMIN ≤ (ratRaw t).2)
    (hnz : (numParts t).mant ≠ 0) : Regular t ∨ Huge t := by
  by_cases h1 : (round34 (ratRaw t)).2 + (if rhe (numParts t).mant (ndrop (numParts t).mant) ≤ MAXSIG then 0 else 1) ≤ EMAX
  · exact Or.inl ⟨hg, he, hlo, Or.inl h1⟩
  · by_cases h2 : (numParts t).mant * 10 ^ ((ratRaw t).2 - EMAX).toNat ≤ MAXSIG
    · exact Or.inl ⟨hg, he, hlo, Or.inr h2⟩
    · right
      refine ⟨hg, hnz, ?_⟩
      by_cases hm : (numParts t).mant ≤ MAXSIG
      · right; right; right
        refine ⟨he, hm, ?_, by omega⟩
        have hma : (ratRaw t).1.natAbs = (numParts t).mant := by simp only [ratRaw]; split <;> simp
        rw [round34_small (by rw [hma]; exact hm), ndrop_zero hm, rhe_zero] at h1
        simp only [hm, if_true] at h1
        omega
      · right; right; left
        exact ⟨he, hlo, by omega, by omega⟩

example : Huge [0x31, 0x65, 0x36, 0x31, 0x34, 0x36] ∧ Fits [0x31, 0x65, 0x36, 0x31, 0x34, 0x35] := by  -- 1e6146, 1e6145
  exact ⟨⟨(JsonGrammar.isValidNumber_iff _).mp (by decide), by decide, by decide⟩, by decide⟩

/-- `NumOk` (what `JsonVal` asks of a number) holds of regular and of tiny texts, fails for huge ones; a grammatical
    text can only fail by a range error -/
theorem numOk_regular {t : Bytes} (h : Regular t) : NumOk (.jnum t) := by
  obtain ⟨n, c, e, hd, _⟩ := toDecimal_regular h
  obtain ⟨c', e', hn⟩ := normalize_fin n c e
  exact ⟨_, hd, by rw [hn]; simp⟩

/-- a tiny text is a number (zero) -/
theorem numOk_tiny {t : Bytes} (h : Tiny t) : NumOk (.jnum t) := ⟨_, toDecimal_tiny h, by simp⟩

/-- a huge text is not a number -/
theorem not_numOk_huge {t : Bytes} (h : Huge t) : ¬ NumOk (.jnum t) := by
  rintro ⟨d, hd, _⟩
  rw [toDecimal_huge h] at hd; cases hd

/-- a text of the number grammar is a number unless `decimal128.Parse` reports a range error: never a syntax
    error, never NaN -/
theorem numOk_or_range {t : Bytes} (h : Lexical.JNumber t) :
    NumOk (.jnum t) ∨ Dec.parse t = .range (.inf (numParts t).neg) := by
  obtain ⟨neg, b, ip, fp, ex, rfl, hwf⟩ := jnumber_numText h
  have hb : isDigit b = true := hwf.1 b (List.mem_cons_self ..)
  rw [parse_numText neg b ip fp ex hb, numParts_numText neg b ip fp ex hwf]
  rcases parseNumber_total neg true b ip fp ex hwf with ⟨c, e, hp⟩ | hp
  · left
    refine ⟨.fin neg c e, ?_, by simp⟩
    simp only [toDecimal]
    rw [parse_numText neg b ip fp ex hb, hp]
  · exact Or.inr hp

/-- `1` followed by 100 zeros and `e-6200`: the value `10^-6100` -/
def bigFieldNeg : Bytes := [0x31] ++ List.replicate 100 0x30 ++ [0x65, 0x2D, 0x36, 0x32, 0x30, 0x30]
/-- `0.` followed by 899 zeros, `1e7000`: the value `10^6100` -/
def bigFieldPos : Bytes := [0x30, 0x2E] ++ List.replicate 899 0x30 ++ [0x31, 0x65, 0x37, 0x30, 0x30, 0x30]
/-- `1e-6100`, `1e6100` -/
def smallE : Bytes := [0x31, 0x65, 0x2D, 0x36, 0x31, 0x30, 0x30]
def largeE : Bytes := [0x31, 0x65, 0x36, 0x31, 0x30, 0x30]

set_option maxRecDepth 100000 in
/-- **(finding) the exponent field is judged before the digits.**  `decimal128.Parse` gives up on an exponent field
    above 6189 whatever the digits are, so a text whose *value* is an ordinary number is read as zero or rejected:
    `1000…0e-6200` (100 zeros) has the value of `1e-6100` but is `== 0` and `!= 1e-6100`; `0.000…01e7000`
    (899 zeros) has the value of `1e6100` but is not a number at all (not even equal to itself).  The Go program
    behaves the same way.  This is why `Regular`/`Fits` bound the exponent field. -/
theorem huge_exponent_field :
    ratVal bigFieldNeg = ratVal smallE ∧ ratVal bigFieldNeg = (1, -6100) ∧ Fits smallE ∧
    equal (.num (.jnum bigFieldNeg)) (.num (.jnum [0x30])) = true ∧
    equal (.num (.jnum bigFieldNeg)) (.num (.jnum smallE)) = false ∧
    ratVal bigFieldPos = ratVal largeE ∧ Fits largeE ∧
    equal (.num (.jnum bigFieldPos)) (.num (.jnum bigFieldPos)) = false := by
  refine ⟨by decide, by decide, by decide, equal_tiny (by decide) (by decide), ?_, by decide, by decide, ?_⟩
  · rw [Bool.eq_false_iff, Ne, equal_tiny_regular (by decide) (Fits.regular (by decide))]; decide
  have h : Huge bigFieldPos := ⟨(JsonGrammar.isValidNumber_iff _).mp (by decide), by decide, by decide⟩
  exact (equal_huge h _).1

/-! ## 3. `JsonVal` holds of decoded documents and of everything evaluated from them -/

/-- a number text of moderate size: its value is below `10^5900` (exponent of the last digit + number of digits
    `≤ 5900`; `EMAX = 6111`), and its exponent field is `≤ 6189` or negative.  No lower bound: tiny values are read
    as subnormals or zero.  `1e7000` (finding KF02) is excluded. -/
def Moderate (t : Bytes) : Prop :=
  ((numParts t).efield ≤ 6189 ∨ (numParts t).eneg = true) ∧ (ratRaw t).2 + ((numParts t).ndig : Int) ≤ 5900

instance (t : Bytes) : Decidable (Moderate t) := by unfold Moderate; exact inferInstance

/-- a moderate text of the number grammar is a number for `toDecimal`, hence for `==` -/
theorem numOk_moderate {t : Bytes} (hg : Lexical.JNumber t) (h : Moderate t) : NumOk (.jnum t) := by
  obtain ⟨neg, b, ip, fp, ex, rfl, hwf⟩ := jnumber_numText hg
  have hb : isDigit b = true := hwf.1 b (List.mem_cons_self ..)
  obtain ⟨h1, h2⟩ := h
  rw [ratRaw_numText neg b ip fp ex hwf, numParts_numText neg b ip fp ex hwf] at h2
  rw [numParts_numText neg b ip fp ex hwf] at h1
  obtain ⟨c, e, hp⟩ := parseNumber_moderate neg true b ip fp ex hwf h1 h2
  refine ⟨.fin neg c e, ?_, by simp⟩
  simp only [toDecimal]
  rw [parse_numText neg b ip fp ex hb, hp]

example : Moderate [0x31, 0x65, 0x2D, 0x37, 0x30, 0x30, 0x30] ∧ Moderate [0x35, 0x65, 0x2D, 0x36, 0x31, 0x37, 0x37] ∧
    ¬ Moderate [0x31, 0x65, 0x37, 0x30, 0x30, 0x30] ∧ Moderate [0x31, 0x65, 0x35, 0x38, 0x39, 0x39] := by decide

mutual
/-- every number text inside the value is of moderate size -/
def InRange : Val → Prop
  | .null => True
  | .bool _ => True
  | .str _ => True
  | .num (.jnum t) => Moderate t
  | .num _ => True
  | .arr _ xs => InRangeL xs
  | .obj kvs => InRangeF kvs
  | .foreign _ => True
def InRangeL : List Val → Prop
  | [] => True
  | x :: xs => InRange x ∧ InRangeL xs
def InRangeF : List (Bytes × Val) → Prop
  | [] => True
  | (_, x) :: kvs => InRange x ∧ InRangeF kvs
end

/-- `InRangeL` is "every element is `InRange`" -/
theorem InRangeL_iff : ∀ {xs : List Val}, InRangeL xs ↔ ∀ x ∈ xs, InRange x
  | [] => by simp [InRangeL]
  | x :: xs => by simp [InRangeL, InRangeL_iff (xs := xs)]

/-- `InRangeF` is "every member value is `InRange`" -/
theorem InRangeF_iff : ∀ {kvs : List (Bytes × Val)}, InRangeF kvs ↔ ∀ k x, (k, x) ∈ kvs → InRange x
  | [] => by simp [InRangeF]
  | (k, x) :: kvs => by
    simp only [InRangeF, InRangeF_iff (kvs := kvs), List.mem_cons, Prod.mk.injEq]
    constructor
    · rintro ⟨h1, h2⟩ k' x' (⟨_, rfl⟩ | hm)
      · exact h1
      · exact h2 k' x' hm
    · intro h
      exact ⟨h k x (Or.inl ⟨rfl, rfl⟩), fun k' x' hm => h k' x' (Or.inr hm)⟩

/-- a value of the shape `Json.decode` produces, with numbers of moderate size, is a `JsonVal` -/
theorem decoded_jsonVal : ∀ v : Val, Decoded v → InRange v → JsonVal v := by
  intro v
  induction v using Val.ind_mem with
  | null => intro _ _; trivial
  | bool b => intro _ _; trivial
  | str s => intro _ _; trivial
  | num n =>
    intro hd hr
    cases n with
    | jnum t => exact numOk_moderate hd hr
    | _ => simp [Decoded] at hd
  | arr t xs ih =>
    intro hd hr
    simp only [Decoded] at hd
    simp only [InRange] at hr
    simp only [JsonVal]
    exact JsonValL_iff.mpr fun x hx => ih x hx (DecodedL_iff.mp hd.2 x hx) (InRangeL_iff.mp hr x hx)
  | obj kvs ih =>
    intro hd hr
    simp only [Decoded] at hd
    simp only [InRange] at hr
    simp only [JsonVal]
    exact ⟨hd.1, JsonValF_iff.mpr fun k x hm => ih k x hm (DecodedF_iff.mp hd.2 k x hm) (InRangeF_iff.mp hr k x hm)⟩
  | foreign t => intro hd _; simp [Decoded] at hd

/-- **every decoded JSON document whose numbers are of moderate size is a `JsonVal`** (so `==` is reflexive,
    symmetric and transitive on such documents, C20 `equal_refl/symm/trans`), contains no map-ordered array (so
    `==`, `!=`, `contains` never decline on it) and no binary float -/
theorem decode_jsonVal {s : Bytes} {v : Val} (h : Json.decode s = some v) (hr : InRange v) :
    JsonVal v ∧ NoEnum v ∧ JV v := by
  have hd := decode_decoded h
  have hj := decoded_jsonVal v hd hr
  exact ⟨hj, decoded_noEnum hd, hj, decode_noFloat h⟩

/-- the same for a JSON literal `` `…` `` of an expression -/
theorem literal_jsonVal {s : Bytes} {v : Val} (h : parseJSONLiteral s = some v) (hr : InRange v) :
    JsonVal v ∧ NoEnum v ∧ JV v := by
  have hd := parseJSONLiteral_decoded h
  have hj := decoded_jsonVal v hd hr
  exact ⟨hj, decoded_noEnum hd, hj, parseJSONLiteral_noFloat h⟩

/-- **closure**: whatever an expression (whose literals are `JsonVal`s without floats) computes from such a
    document is again a `JsonVal` — the equivalence laws apply to results as well as to documents -/
theorem search_jsonVal {s expr : Bytes} {d r : Val} {n : INode} (hdoc : Json.decode s = some d) (hr : InRange d)
    (hp : Parser.parse expr = .ok n) (hl : INode.LitsJV n) (hs : search expr d = .ok r) :
    JsonVal r ∧ equal r r = true :=
  have hj := search_jv hp hl (decode_jsonVal hdoc hr).2.2 hs
  ⟨hj.1, equal_refl r hj.1⟩

/-- results of two searches on in-range documents are compared by an equivalence: symmetric and transitive -/
theorem search_results_equiv {a b c : Val} (ha : JV a) (hb : JV b) (hc : JV c) :
    equal a b = equal b a ∧ (equal a b = true → equal b c = true → equal a c = true) :=
  ⟨equal_symm a ha.1 b hb.1, equal_trans a ha.1 b hb.1 c hc.1⟩

/-! ### an end-to-end instance: text → document → search → the laws apply to the result -/

/-- the numbers of `{"a":[1,2.50,-0,1E2],"b":null}` are of moderate size -/
theorem inRange_docVal : InRange docVal := by
  simp only [docVal, InRange, InRangeF, InRangeL, and_true]
  decide

example : JsonVal docVal ∧ NoEnum docVal ∧ equal docVal docVal = true :=
  have h := decode_jsonVal decode_docText inRange_docVal
  ⟨h.1, h.2.1, equal_refl _ h.1⟩

/-- the expression `a` compiles to a field access -/
theorem parse_a : Parser.parse [0x61] = .ok (.field [0x61]) := by
  have h : (match Parser.parse [0x61] with
    | .ok (.field [0x61]) => true
    | _ => false) = true := by decide +kernel
  split at h
  · assumption
  · cases h

/-- `search("a", decode(text))` returns `[1, 2.50, -0, 1E2]`, a `JsonVal`, equal to itself -/
example : JsonVal (.arr .plain [.num (.jnum [0x31]), .num (.jnum [0x32, 0x2E, 0x35, 0x30]), .num (.jnum [0x2D, 0x30]),
    .num (.jnum [0x31, 0x45, 0x32])]) ∧ True :=
  ⟨(search_jsonVal decode_docText inRange_docVal parse_a (by simp [INode.LitsJV])
    (by unfold search; rw [parse_a]; rfl)).1, trivial⟩

/-- without the range hypothesis the conclusion fails: `[1e7000]` decodes, is not `InRange`, and is not equal to
    itself (finding KF02) -/
example : Json.decode [0x5B, 0x31, 0x65, 0x37, 0x30, 0x30, 0x30, 0x5D] = some (.arr .plain [.num (.jnum [0x31, 0x65, 0x37, 0x30, 0x30, 0x30])]) ∧
    ¬ InRange (.arr .plain [.num (.jnum [0x31, 0x65, 0x37, 0x30, 0x30, 0x30])]) ∧
    equal (.arr .plain [.num (.jnum [0x31, 0x65, 0x37, 0x30, 0x30, 0x30])]) (.arr .plain [.num (.jnum [0x31, 0x65, 0x37, 0x30, 0x30, 0x30])]) = false := by
  refine ⟨by rfl, ?_, by decide⟩
  simp only [InRange, InRangeL, and_true]
  decide

/-! ## 4. `==` and map-ordered arrays -/

/-- **a definite answer never depends on the order Go picks.**  `EnumPerm x x'`: `x'` is `x` with the elements of
    every map-ordered (`.enum`) array, at any depth, permuted in any way — what another run of the Go program could
    have produced.  If the model answers `==` / `!=` at all (it declines, `.nondet`, as soon as a map-ordered array
    with two or more elements occurs in an operand), every such re-ordering of both operands gets the same answer. -/
theorem eq_definite_order_free {op : BinOp} (hop : op = .eq ∨ op = .ne) {x y x' y' r : Val}
    (h : applyBinOp op x y = .ok r) (hx : EnumPerm x x') (hy : EnumPerm y y') : applyBinOp op x' y' = .ok r :=
  eq_ne_order_free hop h hx hy

/-- the same for `contains` (which looks through the order of its outer array: membership does not depend on it) -/
theorem contains_definite_order_free {x y x' y' r : Val} (h : contains x y = .ok r) (hx : EnumPerm x x')
    (hy : EnumPerm y y') : contains x' y' = .ok r :=
  contains_order_free h hx hy

/-- when exactly the model declines to answer `==` -/
theorem eq_nondet_iff (x y : Val) : applyBinOp .eq x y = .nondet ↔ (x.hasEnum2 = true ∨ y.hasEnum2 = true) := by
  rw [eq_spec]
  cases hx : x.hasEnum2 <;> cases hy : y.hasEnum2 <;> simp

/-- declining is justified: for the map-ordered `[1, 2]` (say `values(@)` of `{"a":1,"b":2}`) and its other order,
    `==` would be true for one run and false for another; a one-element `values(@)` is compared as usual -/
example : EnumPerm (.arr .enum [n1, n2]) (.arr .enum [n2, n1]) ∧
    equal (.arr .enum [n1, n2]) (.arr .enum [n1, n2]) = true ∧ equal (.arr .enum [n1, n2]) (.arr .enum [n2, n1]) = false ∧
    applyBinOp .eq (.arr .enum [n1, n2]) (.arr .enum [n1, n2]) = .nondet ∧
    applyBinOp .eq (.arr .enum [n1]) (.arr .plain [n1]) = .ok (.bool true) := by
  refine ⟨enumPerm_of_perm (List.Perm.swap ..), by decide, by decide, (eq_nondet_iff _ _).mpr (Or.inl (by decide)), ?_⟩
  rw [eq_spec]; rfl

/-- `values(@) == values(@)` on a two-member object is declined, on a one-member object it is `true` -/
example : ieval .null (.binop .eq (.objectValuesCurrent) (.objectValuesCurrent)) (.obj [([0x61], n1), ([0x62], n2)]) [] = .nondet ∧
    ieval .null (.binop .eq (.objectValuesCurrent) (.objectValuesCurrent)) (.obj [([0x61], n1)]) [] = .ok (.bool true) := by
  constructor <;> rfl

end Jmes.C20B
