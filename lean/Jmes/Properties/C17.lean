/-
  C17 — "Equivalent ways of writing a query give the same answer".

  The structural identities, each for ALL sub-expressions (arbitrary `INode` arguments), all current values, all
  root documents and all environments, stated on `ieval` over the Go-shaped nodes the parser builds.  Through
  `ieval_desugar` (Proofs/Refine.lean) every one of them is also a statement about the reference semantics `seval`
  of the desugared trees; a few are restated there (section "reference level").

    a. `current_forms`            every `…Current` node = its explicit form with child `.current`
    b. `dot_is_pipe`              `.pipe l r` (built for `a.b` and for `a | b`) = evaluate `r` on the value of `l`
    c. `fused_filter/flatten/values/prune`   fused node = projection with right-hand side `.current`
    d. `single_select`            `…Single` select = the list form with one member
    e. `projection_then_selector` `l[*].r1.r2` = `l[*].r1 | [*].r2` when `r2` maps null to null
    f. `multiselect_concat`, `hash_select`
    g. (`paren_pipe_stop` is a grammar fact, not in this file)
-/
import Jmes.Proofs.Refine
namespace Jmes.C17
open Jmes

/-! ## Small value facts -/

theorem isNull_eq {v : Val} (h : v.isNull = true) : v = .null := by
  cases v <;> first | rfl | (exact Bool.noConfusion h)

theorem derived_derived (t : ATag) : t.derived.derived = t.derived := by cases t <;> rfl

theorem widen_ok {α} (t : ATag) (xs : List Val) (fs : List (Val → Res Val)) (extra : List Cat) (a : α) :
    widen t xs fs extra (Res.ok a) = Res.ok a := rfl

/-! ## a. `…Current` forms -/

theorem filterCurrent_eq (root : Val) (f : INode) (cur : Val) (env : Env) :
    ieval root (.filterCurrent f) cur env = ieval root (.filter .current f) cur env := by
  simp only [ieval, Res.ok_bind]

theorem filterAndProjectCurrent_eq (root : Val) (f c : INode) (cur : Val) (env : Env) :
    ieval root (.filterAndProjectCurrent f c) cur env = ieval root (.filterAndProject .current f c) cur env := by
  simp only [ieval, Res.ok_bind]

theorem flattenCurrent_eq (root : Val) (cur : Val) (env : Env) :
    ieval root .flattenCurrent cur env = ieval root (.flatten .current) cur env := by
  simp only [ieval, Res.ok_bind, Res.pure_eq]

theorem flattenAndProjectCurrent_eq (root : Val) (c : INode) (cur : Val) (env : Env) :
    ieval root (.flattenAndProjectCurrent c) cur env = ieval root (.flattenAndProject .current c) cur env := by
  simp only [ieval, Res.ok_bind]

theorem indexCurrent_eq (root : Val) (i : Int) (cur : Val) (env : Env) :
    ieval root (.indexCurrent i) cur env = ieval root (.index .current i) cur env := by
  simp only [ieval, Res.ok_bind]

theorem smallIndexCurrent_eq (root : Val) (i : Nat) (cur : Val) (env : Env) :
    ieval root (.smallIndexCurrent i) cur env = ieval root (.index .current (i : Int)) cur env := by
  simp only [ieval, Res.ok_bind]

theorem objectValuesCurrent_eq (root : Val) (cur : Val) (env : Env) :
    ieval root .objectValuesCurrent cur env = ieval root (.objectValues .current) cur env := by
  simp only [ieval, Res.ok_bind, Res.pure_eq]

theorem projectArrayCurrent_eq (root : Val) (c : INode) (cur : Val) (env : Env) :
    ieval root (.projectArrayCurrent c) cur env = ieval root (.projectArray .current c) cur env := by
  simp only [ieval, Res.ok_bind]
  cases cur <;> rfl

theorem projectObjectCurrent_eq (root : Val) (c : INode) (cur : Val) (env : Env) :
    ieval root (.projectObjectCurrent c) cur env = ieval root (.projectObject .current c) cur env := by
  simp only [ieval, Res.ok_bind]

theorem pruneArrayCurrent_eq (root : Val) (cur : Val) (env : Env) :
    ieval root .pruneArrayCurrent cur env = ieval root (.pruneArray .current) cur env := by
  simp only [ieval, Res.ok_bind, Res.pure_eq]

theorem sliceCurrent_eq (root : Val) (a b : Int) (cur : Val) (env : Env) :
    ieval root (.sliceCurrent a b) cur env = ieval root (.slice .current a b) cur env := by
  simp only [ieval, Res.ok_bind]

theorem sliceStepCurrent_eq (root : Val) (a b s : Int) (cur : Val) (env : Env) :
    ieval root (.sliceStepCurrent a b s) cur env = ieval root (.sliceStep .current a b s) cur env := by
  simp only [ieval, Res.ok_bind]

theorem selectArrayCurrent_eq (root : Val) (fs : List INode) (cur : Val) (env : Env) :
    ieval root (.selectArrayCurrent fs) cur env = ieval root (.selectArray .current fs) cur env := by
  simp only [ieval, Res.ok_bind, Res.pure_eq]

theorem selectObjectCurrent_eq (root : Val) (fs : List (Bytes × INode)) (cur : Val) (env : Env) :
    ieval root (.selectObjectCurrent fs) cur env = ieval root (.selectObject .current fs) cur env := by
  simp only [ieval, Res.ok_bind, Res.pure_eq]

/-- The `…SingleCurrent` select forms skip the null check of the explicit forms: they agree on a non-null
    current node only (see the two `example`s below for the difference on null). -/
theorem selectArraySingleCurrent_eq (root : Val) (f : INode) (cur : Val) (env : Env) (h : cur.isNull = false) :
    ieval root (.selectArraySingleCurrent f) cur env = ieval root (.selectArraySingle .current f) cur env := by
  simp only [ieval, Res.ok_bind, h, Bool.false_eq_true, if_false]

theorem selectObjectSingleCurrent_eq (root : Val) (k : Bytes) (f : INode) (cur : Val) (env : Env)
    (h : cur.isNull = false) :
    ieval root (.selectObjectSingleCurrent k f) cur env = ieval root (.selectObjectSingle .current k f) cur env := by
  simp only [ieval, Res.ok_bind, h, Bool.false_eq_true, if_false]

/-- on a null current node the explicit form yields null, the `…SingleCurrent` form a one-element array -/
example : ieval .null (.selectArraySingleCurrent (.lit (.bool true))) .null [] = .ok (.arr .plain [.bool true]) ∧
    ieval .null (.selectArraySingle .current (.lit (.bool true))) .null [] = .ok .null := ⟨rfl, rfl⟩
example : ieval .null (.selectObjectSingleCurrent [97] (.lit (.bool true))) .null [] = .ok (.obj [([97], .bool true)]) ∧
    ieval .null (.selectObjectSingle .current [97] (.lit (.bool true))) .null [] = .ok .null := ⟨rfl, rfl⟩

/-- all `…Current` identities at once -/
theorem current_forms (root : Val) (cur : Val) (env : Env) :
    (∀ f, ieval root (.filterCurrent f) cur env = ieval root (.filter .current f) cur env) ∧
    (∀ f c, ieval root (.filterAndProjectCurrent f c) cur env = ieval root (.filterAndProject .current f c) cur env) ∧
    (ieval root .flattenCurrent cur env = ieval root (.flatten .current) cur env) ∧
    (∀ c, ieval root (.flattenAndProjectCurrent c) cur env = ieval root (.flattenAndProject .current c) cur env) ∧
    (∀ i, ieval root (.indexCurrent i) cur env = ieval root (.index .current i) cur env) ∧
    (∀ i : Nat, ieval root (.smallIndexCurrent i) cur env = ieval root (.index .current (i : Int)) cur env) ∧
    (ieval root .objectValuesCurrent cur env = ieval root (.objectValues .current) cur env) ∧
    (∀ c, ieval root (.projectArrayCurrent c) cur env = ieval root (.projectArray .current c) cur env) ∧
    (∀ c, ieval root (.projectObjectCurrent c) cur env = ieval root (.projectObject .current c) cur env) ∧
    (ieval root .pruneArrayCurrent cur env = ieval root (.pruneArray .current) cur env) ∧
    (∀ a b, ieval root (.sliceCurrent a b) cur env = ieval root (.slice .current a b) cur env) ∧
    (∀ a b s, ieval root (.sliceStepCurrent a b s) cur env = ieval root (.sliceStep .current a b s) cur env) ∧
    (∀ fs, ieval root (.selectArrayCurrent fs) cur env = ieval root (.selectArray .current fs) cur env) ∧
    (∀ fs, ieval root (.selectObjectCurrent fs) cur env = ieval root (.selectObject .current fs) cur env) ∧
    (cur.isNull = false → ∀ f,
      ieval root (.selectArraySingleCurrent f) cur env = ieval root (.selectArraySingle .current f) cur env) ∧
    (cur.isNull = false → ∀ k f,
      ieval root (.selectObjectSingleCurrent k f) cur env = ieval root (.selectObjectSingle .current k f) cur env) :=
  ⟨fun f => filterCurrent_eq root f cur env, fun f c => filterAndProjectCurrent_eq root f c cur env,
   flattenCurrent_eq root cur env, fun c => flattenAndProjectCurrent_eq root c cur env,
   fun i => indexCurrent_eq root i cur env, fun i => smallIndexCurrent_eq root i cur env,
   objectValuesCurrent_eq root cur env, fun c => projectArrayCurrent_eq root c cur env,
   fun c => projectObjectCurrent_eq root c cur env, pruneArrayCurrent_eq root cur env,
   fun a b => sliceCurrent_eq root a b cur env, fun a b s => sliceStepCurrent_eq root a b s cur env,
   fun fs => selectArrayCurrent_eq root fs cur env, fun fs => selectObjectCurrent_eq root fs cur env,
   fun h f => selectArraySingleCurrent_eq root f cur env h,
   fun h k f => selectObjectSingleCurrent_eq root k f cur env h⟩

/-- non-vacuity: `[?@]` on `[1, null, false]` both ways -/
example :
    ieval .null (.filterCurrent .current) (.arr .plain [.num (.int .int 1), .null, .bool false]) []
      = .ok (.arr .plain [.num (.int .int 1)]) ∧
    ieval .null (.filter .current .current) (.arr .plain [.num (.int .int 1), .null, .bool false]) []
      = .ok (.arr .plain [.num (.int .int 1)]) := ⟨rfl, rfl⟩
example :
    ieval .null (.smallIndexCurrent 1) (.arr .plain [.bool true, .bool false]) [] = .ok (.bool false) ∧
    ieval .null (.index .current 1) (.arr .plain [.bool true, .bool false]) [] = .ok (.bool false) := ⟨rfl, rfl⟩
/-- a string current node: `.projectArray .current c` does not take the slice-of-string route -/
example :
    ieval .null (.projectArrayCurrent .current) (.str [97]) [] = .ok .null ∧
    ieval .null (.projectArray .current .current) (.str [97]) [] = .ok .null := ⟨rfl, rfl⟩

/-! ## b. `a.b` and `a | b` -/

/-- `.pipe l r` — the node the parser builds both for `l.r` and for `l | r` — evaluates `r` on the value of `l` -/
theorem dot_is_pipe (root : Val) (l r : INode) (cur : Val) (env : Env) :
    ieval root (.pipe l r) cur env = (ieval root l cur env >>= fun a => ieval root r a env) := by
  simp only [ieval]

/-- `@ | r`, `l | @`, and `(a | b) | c` = `a | (b | c)` -/
theorem pipe_current_left (root : Val) (r : INode) (cur : Val) (env : Env) :
    ieval root (.pipe .current r) cur env = ieval root r cur env := by
  simp only [ieval, Res.ok_bind]

theorem pipe_current_right (root : Val) (l : INode) (cur : Val) (env : Env) :
    ieval root (.pipe l .current) cur env = ieval root l cur env := by
  simp only [ieval, Res.bind_ok]

theorem pipe_assoc (root : Val) (a b c : INode) (cur : Val) (env : Env) :
    ieval root (.pipe (.pipe a b) c) cur env = ieval root (.pipe a (.pipe b c)) cur env := by
  simp only [ieval, Res.bind_assoc]

example : ieval .null (.pipe (.field [97]) (.field [98])) (.obj [([97], .obj [([98], .bool true)])]) []
    = .ok (.bool true) := rfl

/-! ## c. fused nodes -/

theorem fused_filter (root : Val) (c f : INode) (cur : Val) (env : Env) :
    ieval root (.filter c f) cur env = ieval root (.filterAndProject c f .current) cur env := by
  simp only [ieval, filterArray_eq]

theorem fused_flatten (root : Val) (c : INode) (cur : Val) (env : Env) :
    ieval root (.flatten c) cur env = ieval root (.flattenAndProject c .current) cur env := by
  simp only [ieval, Res.pure_eq, flatten_eq]

theorem fused_values (root : Val) (c : INode) (cur : Val) (env : Env) :
    ieval root (.objectValues c) cur env = ieval root (.projectObject c .current) cur env := by
  simp only [ieval, Res.pure_eq, objectValues_eq]

example :
    ieval .null (.filter .current .current) (.arr .plain [.bool true, .null, .bool false]) []
      = .ok (.arr .plain [.bool true]) ∧
    ieval .null (.filterAndProject .current .current .current) (.arr .plain [.bool true, .null, .bool false]) []
      = .ok (.arr .plain [.bool true]) := ⟨rfl, rfl⟩
example :
    ieval .null (.flatten .current) (.arr .plain [.arr .plain [.bool true, .null], .null, .bool false]) []
      = .ok (.arr .plain [.bool true, .bool false]) ∧
    ieval .null (.flattenAndProject .current .current)
        (.arr .plain [.arr .plain [.bool true, .null], .null, .bool false]) []
      = .ok (.arr .plain [.bool true, .bool false]) := ⟨rfl, rfl⟩
example :
    ieval .null (.objectValues .current) (.obj [([97], .bool true), ([98], .null)]) []
      = .ok (.arr .enum [.bool true]) ∧
    ieval .null (.projectObject .current .current) (.obj [([97], .bool true), ([98], .null)]) []
      = .ok (.arr .enum [.bool true]) := ⟨rfl, rfl⟩

theorem filter_nonnull_self (xs : List Val) (h : xs.any Val.isNull = false) :
    xs.filter (fun x => !x.isNull) = xs := by
  induction xs with
  | nil => rfl
  | cons x xs ih =>
    simp only [List.any_cons, Bool.or_eq_false_iff] at h
    simp only [List.filter_cons, h.1, Bool.not_false, if_true, ih h.2]

/-- value level: the identity projection of an array is the pruned array (a nil slice `[]any(nil)` is returned
    as it is by `pruneArray` but copied into a fresh empty array by `projectArray`, whence the side condition) -/
theorem fused_prune (a r : Val) (hn : ∀ xs, a ≠ .arr .nil xs)
    (h : projectArray (fun v => Res.ok v) a = Res.ok r) : pruneArray a = r := by
  cases a with
  | arr t xs =>
    simp only [projectArray, mapPrune_ok, Res.ok_bind, Res.pure_eq, widen_ok, Res.ok.injEq] at h
    subst h
    simp only [pruneArray]
    cases hany : xs.any Val.isNull
    · simp only [Bool.false_eq_true, if_false, filter_nonnull_self xs hany]
      cases t
      · rfl
      · exact absurd rfl (hn xs)
      · rfl
    · simp only [if_true]
  | _ =>
    simp only [projectArray, Res.ok.injEq] at h
    subst h
    rfl

theorem projectArray_id (a : Val) (hn : ∀ xs, a ≠ .arr .nil xs) :
    projectArray (fun v => Res.ok v) a = Res.ok (pruneArray a) := by
  have : ∃ r, projectArray (fun v => Res.ok v) a = Res.ok r := by
    cases a <;> simp only [projectArray, mapPrune_ok, Res.ok_bind, Res.pure_eq, widen_ok] <;> exact ⟨_, rfl⟩
  obtain ⟨r, hr⟩ := this
  rw [hr, fused_prune a r hn hr]

/-- node level: `c[*]` = `c[*].@` whenever `c` is not a slice expression and its value is not a nil slice -/
theorem fused_prune_node (root : Val) (c : INode) (cur : Val) (env : Env) (hs : c.isSlice = false)
    (hn : ∀ xs, ieval root c cur env ≠ Res.ok (.arr .nil xs)) :
    ieval root (.pruneArray c) cur env = ieval root (.projectArray c .current) cur env := by
  simp only [ieval, hs, Bool.false_eq_true, if_false, Res.pure_eq]
  cases hc : ieval root c cur env with
  | ok a =>
    have hn' : ∀ xs, a ≠ .arr .nil xs := fun xs h => hn xs (by rw [hc, h])
    simp only [Res.ok_bind]
    rw [← projectArray_id a hn']
    cases a <;> rfl
  | _ => rfl

/-- …and for a slice expression as long as its value is not a string -/
theorem fused_prune_node' (root : Val) (c : INode) (cur : Val) (env : Env)
    (hstr : ∀ s, ieval root c cur env ≠ Res.ok (.str s))
    (hn : ∀ xs, ieval root c cur env ≠ Res.ok (.arr .nil xs)) :
    ieval root (.pruneArray c) cur env = ieval root (.projectArray c .current) cur env := by
  simp only [ieval, Res.pure_eq]
  cases hc : ieval root c cur env with
  | ok a =>
    have hn' : ∀ xs, a ≠ .arr .nil xs := fun xs h => hn xs (by rw [hc, h])
    simp only [Res.ok_bind]
    rw [← projectArray_id a hn']
    cases a with
    | str s => exact absurd (by rw [hc]) (hstr s)
    | _ => rfl
  | _ => rfl

example :
    ieval .null (.pruneArray .current) (.arr .plain [.bool true, .null]) [] = .ok (.arr .plain [.bool true]) ∧
    ieval .null (.projectArray .current .current) (.arr .plain [.bool true, .null]) []
      = .ok (.arr .plain [.bool true]) := ⟨rfl, rfl⟩
/-- the side condition of `fused_prune` is needed: the nil slice keeps its tag under `pruneArray` only -/
example : pruneArray (.arr .nil []) = .arr .nil [] ∧
    projectArray (fun v => Res.ok v) (.arr .nil []) = Res.ok (.arr .plain []) := ⟨rfl, rfl⟩
/-- the side condition `c.isSlice = false` is needed: a slice of a string followed by `.@` is the string -/
example :
    ieval .null (.pruneArray (.sliceCurrent 0 1)) (.str [97, 98]) [] = .ok .null ∧
    ieval .null (.projectArray (.sliceCurrent 0 1) .current) (.str [97, 98]) [] = .ok (.str [97]) := ⟨rfl, rfl⟩

/-! ## d. single-member selects -/

theorem single_select (root : Val) (c f : INode) (cur : Val) (env : Env) :
    ieval root (.selectArraySingle c f) cur env = ieval root (.selectArray c [f]) cur env := by
  simp only [ieval, ievalList, Res.pure_eq, Res.ok_bind, Res.bind_assoc]

theorem single_select_object (root : Val) (c : INode) (k : Bytes) (f : INode) (cur : Val) (env : Env) :
    ieval root (.selectObjectSingle c k f) cur env = ieval root (.selectObject c [(k, f)]) cur env := by
  simp only [ieval, ievalFields, combineUnordered_nil, Res.pure_eq, Res.ok_bind, Res.bind_assoc]

/-- the `…SingleCurrent` forms are the one-member list forms on a non-null current node -/
theorem single_select_current (root : Val) (f : INode) (cur : Val) (env : Env) (h : cur.isNull = false) :
    ieval root (.selectArraySingleCurrent f) cur env = ieval root (.selectArrayCurrent [f]) cur env := by
  simp only [ieval, ievalList, h, Bool.false_eq_true, if_false, Res.pure_eq, Res.ok_bind, Res.bind_assoc]

theorem single_select_object_current (root : Val) (k : Bytes) (f : INode) (cur : Val) (env : Env)
    (h : cur.isNull = false) :
    ieval root (.selectObjectSingleCurrent k f) cur env = ieval root (.selectObjectCurrent [(k, f)]) cur env := by
  simp only [ieval, ievalFields, combineUnordered_nil, h, Bool.false_eq_true, if_false, Res.pure_eq, Res.ok_bind,
    Res.bind_assoc]

example :
    ieval .null (.selectArraySingle .current .current) (.bool true) [] = .ok (.arr .plain [.bool true]) ∧
    ieval .null (.selectArray .current [.current]) (.bool true) [] = .ok (.arr .plain [.bool true]) := ⟨rfl, rfl⟩
example :
    ieval .null (.selectObjectSingle .current [97] .current) (.bool true) [] = .ok (.obj [([97], .bool true)]) ∧
    ieval .null (.selectObject .current [([97], .current)]) (.bool true) [] = .ok (.obj [([97], .bool true)]) :=
  ⟨rfl, rfl⟩

/-! ## e. a projection followed by selectors -/

/-- did the evaluation produce a value? -/
def isOk {α} : Res α → Bool
  | .ok _ => true
  | _ => false

/-- two outcomes agree: the same value, or both fail (possibly with different error reports — when the second
    selector fails on one element and the first selector on a later one, the fused loop and the two separate loops
    meet the failures in different orders) -/
def Agree {α} (x y : Res α) : Prop := (∃ b, x = Res.ok b ∧ y = Res.ok b) ∨ (isOk x = false ∧ isOk y = false)

theorem Agree.refl {α} (x : Res α) : Agree x x := by
  cases x
  · exact Or.inl ⟨_, rfl, rfl⟩
  all_goals exact Or.inr ⟨rfl, rfl⟩

theorem Agree.eq_of_ok {α} {x y : Res α} (h : Agree x y) (hx : isOk x = true) : x = y := by
  rcases h with ⟨b, h1, h2⟩ | ⟨h1, _⟩
  · rw [h1, h2]
  · rw [hx] at h1; exact Bool.noConfusion h1

theorem isOk_bind_left {α β} (x : Res α) (f : α → Res β) (h : isOk x = false) : isOk (x >>= f) = false := by
  cases x
  · exact Bool.noConfusion h
  all_goals rfl

theorem isOk_bind_right {α β} (x : Res α) (f : α → Res β) (h : ∀ a, isOk (f a) = false) : isOk (x >>= f) = false := by
  cases x
  · exact h _
  all_goals rfl

theorem isOk_widen {α} (t : ATag) (xs : List Val) (fs : List (Val → Res Val)) (extra : List Cat) (r : Res α) :
    isOk (widen t xs fs extra r) = isOk r := by
  cases r <;> simp only [widen] <;> try rfl
  split <;> (try split) <;> rfl

theorem Agree.bind {α β} (x : Res α) {f g : α → Res β} (h : ∀ a, Agree (f a) (g a)) : Agree (x >>= f) (x >>= g) := by
  cases x
  · exact h _
  all_goals exact Or.inr ⟨rfl, rfl⟩

theorem Agree.bind_same {α β} {x y : Res α} (h : Agree x y) (g : α → Res β) : Agree (x >>= g) (y >>= g) := by
  rcases h with ⟨b, h1, h2⟩ | ⟨h1, h2⟩
  · rw [h1, h2]; exact Agree.refl _
  · exact Or.inr ⟨isOk_bind_left _ _ h1, isOk_bind_left _ _ h2⟩

theorem bind_eq_ok {α β} {x : Res α} {f : α → Res β} {b : β} (h : (x >>= f) = Res.ok b) :
    ∃ a, x = Res.ok a ∧ f a = Res.ok b := by
  cases x with
  | ok a => exact ⟨a, rfl, h⟩
  | _ => exact absurd h (by simp)

/-- the loop of a projection whose right-hand side is `f1` followed by `f2`, against the two loops in sequence -/
theorem mapPrune_comp (f1 f2 : Val → Res Val) (h0 : f2 .null = Res.ok .null) (xs : List Val) :
    Agree (mapPrune (fun v => f1 v >>= f2) xs) (mapPrune f1 xs >>= mapPrune f2) := by
  induction xs with
  | nil => exact Or.inl ⟨[], rfl, rfl⟩
  | cons x rest ih =>
    simp only [mapPrune, Res.pure_eq]
    cases h1 : f1 x with
    | ok y =>
      simp only [Res.ok_bind, Res.bind_assoc]
      cases hy : y.isNull
      · -- a non-null intermediate value is visited by the second loop
        simp only [Bool.false_eq_true, if_false, mapPrune, Res.pure_eq]
        cases h2 : f2 y with
        | ok z =>
          simp only [Res.ok_bind]
          rw [← Res.bind_assoc]
          exact Agree.bind_same ih _
        | _ =>
          refine Or.inr ⟨rfl, isOk_bind_right _ _ fun a => rfl⟩
      · -- a null intermediate value is dropped by the first loop and mapped to null by the fused one
        have := isNull_eq hy
        subst this
        simp only [h0, Res.ok_bind, show Val.null.isNull = true from rfl, if_true, Res.bind_ok]
        exact ih
    | _ => exact Or.inr ⟨rfl, rfl⟩

/-- under the totality hypotheses the fused loop succeeds -/
theorem mapPrune_comp_ok (f1 f2 : Val → Res Val) (xs : List Val)
    (h1 : ∀ x ∈ xs, ∃ y, f1 x = Res.ok y) (h2 : ∀ x ∈ xs, ∀ y, f1 x = Res.ok y → ∃ z, f2 y = Res.ok z) :
    isOk (mapPrune (fun v => f1 v >>= f2) xs) = true := by
  induction xs with
  | nil => rfl
  | cons x rest ih =>
    obtain ⟨y, hy⟩ := h1 x (List.mem_cons_self ..)
    obtain ⟨z, hz⟩ := h2 x (List.mem_cons_self ..) y hy
    have ih' := ih (fun x hx => h1 x (List.mem_cons_of_mem _ hx)) (fun x hx => h2 x (List.mem_cons_of_mem _ hx))
    simp only [mapPrune, hy, Res.ok_bind, hz, Res.pure_eq]
    cases hr : mapPrune (fun v => f1 v >>= f2) rest with
    | ok r => rfl
    | _ => rw [hr] at ih'; exact Bool.noConfusion ih'

/-- value level, any input value `a` (array of any tag, or not an array at all): projecting with `f1` then `f2`
    in one loop agrees with projecting with `f1` and then projecting the result with `f2` -/
theorem projectArray_comp (f1 f2 : Val → Res Val) (h0 : f2 .null = Res.ok .null) (a : Val) :
    Agree (projectArray (fun v => f1 v >>= f2) a) (projectArray f1 a >>= fun b => projectArray f2 b) := by
  cases a with
  | arr t xs =>
    simp only [projectArray, Res.pure_eq]
    rcases mapPrune_comp f1 f2 h0 xs with ⟨r, hl, hr⟩ | ⟨hl, hr⟩
    · obtain ⟨r1, hr1, hr2⟩ := bind_eq_ok hr
      refine Or.inl ⟨.arr t.derived r, ?_, ?_⟩
      · rw [hl]; rfl
      · rw [hr1]
        simp only [Res.ok_bind, widen_ok, hr2, derived_derived]
    · refine Or.inr ⟨?_, ?_⟩
      · rw [isOk_widen]; exact isOk_bind_left _ _ hl
      · cases hm : mapPrune f1 xs with
        | ok r1 =>
          rw [hm] at hr
          simp only [Res.ok_bind, widen_ok]
          rw [isOk_widen]
          exact isOk_bind_left _ _ hr
        | _ =>
          apply isOk_bind_left
          rw [isOk_widen]
          rfl
  | _ => exact Or.inl ⟨.null, rfl, rfl⟩

/-- **projection_then_selector**, general form: for any input value, `…[*].r1.r2` and `…[*].r1 | [*].r2` give the
    same value or both fail -/
theorem projection_then_selector_agree (root : Val) (r1 r2 : INode) (env : Env)
    (h0 : ieval root r2 .null env = Res.ok .null) (a : Val) :
    Agree (projectArray (fun v => ieval root (.pipe r1 r2) v env) a)
      (projectArray (fun v => ieval root r1 v env) a >>= fun b => projectArray (fun v => ieval root r2 v env) b) := by
  have : (fun v => ieval root (.pipe r1 r2) v env) = (fun v => ieval root r1 v env >>= fun y => ieval root r2 y env) :=
    funext fun v => dot_is_pipe root r1 r2 v env
  rw [this]
  exact projectArray_comp _ _ h0 a

/-- **projection_then_selector**: when every selector evaluation involved succeeds, the two are equal -/
theorem projection_then_selector (root : Val) (r1 r2 : INode) (env : Env)
    (h0 : ieval root r2 .null env = Res.ok .null) (t : ATag) (xs : List Val)
    (h1 : ∀ x ∈ xs, ∃ y, ieval root r1 x env = Res.ok y)
    (h2 : ∀ y, ∃ z, ieval root r2 y env = Res.ok z) :
    projectArray (fun v => ieval root (.pipe r1 r2) v env) (.arr t xs) =
      (projectArray (fun v => ieval root r1 v env) (.arr t xs) >>= fun b =>
        projectArray (fun v => ieval root r2 v env) b) := by
  apply Agree.eq_of_ok (projection_then_selector_agree root r1 r2 env h0 _)
  have : (fun v => ieval root (.pipe r1 r2) v env) = (fun v => ieval root r1 v env >>= fun y => ieval root r2 y env) :=
    funext fun v => dot_is_pipe root r1 r2 v env
  rw [this]
  simp only [projectArray, Res.pure_eq]
  rw [isOk_widen]
  have hk := mapPrune_comp_ok (fun v => ieval root r1 v env) (fun y => ieval root r2 y env) xs h1
    (fun _ _ y _ => h2 y)
  cases hm : mapPrune (fun v => ieval root r1 v env >>= fun y => ieval root r2 y env) xs with
  | ok r => rfl
  | _ => rw [hm] at hk; exact Bool.noConfusion hk

/-- node level: `l[*].r1.r2` against `l[*].r1 | [*].r2` (`l` not a slice expression, or its value not a string) -/
theorem projection_then_selector_node (root : Val) (l r1 r2 : INode) (cur : Val) (env : Env)
    (h0 : ieval root r2 .null env = Res.ok .null) (hs : l.isSlice = false) :
    Agree (ieval root (.projectArray l (.pipe r1 r2)) cur env)
      (ieval root (.pipe (.projectArray l r1) (.projectArrayCurrent r2)) cur env) := by
  have e1 : ieval root (.projectArray l (.pipe r1 r2)) cur env =
      (ieval root l cur env >>= fun a => projectArray (fun v => ieval root (.pipe r1 r2) v env) a) := by
    rw [ieval]
    apply Res.bind_congr
    intro a
    cases a <;> simp only [hs, Bool.false_eq_true, if_false]
  have e2 : ieval root (.pipe (.projectArray l r1) (.projectArrayCurrent r2)) cur env =
      (ieval root l cur env >>= fun a => projectArray (fun v => ieval root r1 v env) a >>= fun b =>
        projectArray (fun v => ieval root r2 v env) b) := by
    rw [ieval, ieval, Res.bind_assoc]
    apply Res.bind_congr
    intro a
    have : ∀ b, ieval root (.projectArrayCurrent r2) b env = projectArray (fun v => ieval root r2 v env) b :=
      fun b => by rw [ieval]
    simp only [this]
    cases a <;> simp only [hs, Bool.false_eq_true, if_false]
  rw [e1, e2]
  exact Agree.bind _ fun a => projection_then_selector_agree root r1 r2 env h0 a

/-- non-vacuity: `[*].a.b` and `[*].a | [*].b` on `[{"a":{"b":true}}, {"a":null}, 1]` -/
example :
    projectArray (fun v => ieval .null (.pipe (.field [97]) (.field [98])) v [])
        (.arr .plain [.obj [([97], .obj [([98], .bool true)])], .obj [([97], .null)], .num (.int .int 1)])
      = .ok (.arr .plain [.bool true]) ∧
    (projectArray (fun v => ieval .null (.field [97]) v [])
        (.arr .plain [.obj [([97], .obj [([98], .bool true)])], .obj [([97], .null)], .num (.int .int 1)])
      >>= fun b => projectArray (fun v => ieval .null (.field [98]) v []) b)
      = .ok (.arr .plain [.bool true]) := ⟨rfl, rfl⟩
/-- the hypothesis on null is needed: with a selector that maps null to a non-null value (here the literal `true`)
    the fused loop maps the null intermediate value, the separate loops have dropped it -/
example :
    projectArray (fun v => ieval .null (.pipe (.field [97]) (.lit (.bool true))) v []) (.arr .plain [.null])
      = .ok (.arr .plain [.bool true]) ∧
    (projectArray (fun v => ieval .null (.field [97]) v []) (.arr .plain [.null])
      >>= fun b => projectArray (fun v => ieval .null (.lit (.bool true)) v []) b)
      = .ok (.arr .plain []) := ⟨rfl, rfl⟩
/-- without the totality hypotheses the two sides may fail differently: `r1 = $x` on element 2 (undefined variable),
    `r2 = abs(@)` on the value of element 1 (invalid type) -/
example :
    projectArray (fun v => ieval .null (.pipe (.and .current (.variable [120])) (.call .abs [.current])) v [])
        (.arr .plain [.bool false, .bool true]) = .err [Cat.invalidType] ∧
    (projectArray (fun v => ieval .null (.and .current (.variable [120])) v [])
        (.arr .plain [.bool false, .bool true])
      >>= fun b => projectArray (fun v => ieval .null (.call .abs [.current]) v []) b)
      = .err [Cat.undefinedVariable] := ⟨rfl, rfl⟩

/-! ## f. multi-selects -/

/-- `[e1, …, en]` on a non-null current node is the list of the values of the `ei` -/
theorem selectArrayCurrent_list (root : Val) (es : List INode) (cur : Val) (env : Env) (h : cur.isNull = false) :
    ieval root (.selectArrayCurrent es) cur env = (ievalList root es cur env >>= fun vs => Res.ok (.arr .plain vs)) := by
  simp only [ieval, h, Bool.false_eq_true, if_false, Res.pure_eq]

theorem ievalList_append (root : Val) (es1 es2 : List INode) (cur : Val) (env : Env) :
    ievalList root (es1 ++ es2) cur env =
      (ievalList root es1 cur env >>= fun v1 => ievalList root es2 cur env >>= fun v2 => Res.ok (v1 ++ v2)) := by
  induction es1 with
  | nil => simp only [List.nil_append, ievalList, Res.ok_bind, Res.bind_ok]
  | cons e es ih =>
    simp only [List.cons_append, ievalList, ih, Res.bind_assoc, Res.pure_eq, Res.ok_bind]

/-- the single selection `[e]` yields `[v]` exactly when `e` yields `v` -/
theorem single_selection (root : Val) (e : INode) (cur : Val) (env : Env) (h : cur.isNull = false) (v : Val) :
    ieval root (.selectArrayCurrent [e]) cur env = Res.ok (.arr .plain [v]) ↔ ieval root e cur env = Res.ok v := by
  simp only [ieval, ievalList, h, Bool.false_eq_true, if_false, Res.pure_eq, Res.ok_bind]
  cases ieval root e cur env <;> simp

/-- **multiselect_concat**, general form: `[es1…, es2…]` is the concatenation of `[es1…]` and `[es2…]` -/
theorem multiselect_concat_lists (root : Val) (es1 es2 : List INode) (cur : Val) (env : Env) (h : cur.isNull = false)
    (vs1 vs2 : List Val)
    (h1 : ieval root (.selectArrayCurrent es1) cur env = Res.ok (.arr .plain vs1))
    (h2 : ieval root (.selectArrayCurrent es2) cur env = Res.ok (.arr .plain vs2)) :
    ieval root (.selectArrayCurrent (es1 ++ es2)) cur env = Res.ok (.arr .plain (vs1 ++ vs2)) := by
  rw [selectArrayCurrent_list _ _ _ _ h] at h1 h2 ⊢
  obtain ⟨a1, ha1, hb1⟩ := bind_eq_ok h1
  obtain ⟨a2, ha2, hb2⟩ := bind_eq_ok h2
  simp only [Res.ok.injEq, Val.arr.injEq, true_and] at hb1 hb2
  subst hb1 hb2
  rw [ievalList_append, ha1, ha2]
  rfl

/-- **multiselect_concat**: `[e1, e2]` from the single selections `[e1]` and `[e2]` -/
theorem multiselect_concat (root : Val) (e1 e2 : INode) (cur : Val) (env : Env) (h : cur.isNull = false) (v1 v2 : Val)
    (h1 : ieval root (.selectArrayCurrent [e1]) cur env = Res.ok (.arr .plain [v1]))
    (h2 : ieval root (.selectArrayCurrent [e2]) cur env = Res.ok (.arr .plain [v2])) :
    ieval root (.selectArrayCurrent [e1, e2]) cur env = Res.ok (.arr .plain [v1, v2]) :=
  multiselect_concat_lists root [e1] [e2] cur env h [v1] [v2] h1 h2

/-- `[e1, …, en]` for any n: element-wise (`g e` is the value of `e`) -/
theorem multiselect_elementwise (root : Val) (cur : Val) (env : Env) (h : cur.isNull = false)
    (es : List INode) (g : INode → Val) (hall : ∀ e ∈ es, ieval root e cur env = Res.ok (g e)) :
    ieval root (.selectArrayCurrent es) cur env = Res.ok (.arr .plain (es.map g)) := by
  rw [selectArrayCurrent_list _ _ _ _ h]
  have : ievalList root es cur env = Res.ok (es.map g) := by
    induction es with
    | nil => rfl
    | cons e es ih =>
      simp only [ievalList, hall e (List.mem_cons_self ..), ih (fun e he => hall e (List.mem_cons_of_mem _ he)),
        Res.ok_bind, Res.pure_eq, List.map_cons]
  rw [this]
  rfl

example :
    ieval .null (.selectArrayCurrent [.field [97], .current]) (.obj [([97], .bool true)]) []
      = .ok (.arr .plain [.bool true, .obj [([97], .bool true)]]) ∧
    ieval .null (.selectArrayCurrent [.field [97]]) (.obj [([97], .bool true)]) [] = .ok (.arr .plain [.bool true]) ∧
    ieval .null (.selectArrayCurrent [.current]) (.obj [([97], .bool true)]) []
      = .ok (.arr .plain [.obj [([97], .bool true)]]) := ⟨rfl, rfl, rfl⟩

theorem objLookup_single (k : Bytes) (v : Val) : objLookup k [(k, v)] = some v := by
  simp only [objLookup, if_true]

/-- **hash_select**: `{k: e}.k` = `e` (the null check is not even needed for the `…SingleCurrent` node) -/
theorem hash_select (root : Val) (k : Bytes) (e : INode) (cur : Val) (env : Env) (v : Val)
    (h : ieval root e cur env = Res.ok v) :
    ieval root (.pipe (.selectObjectSingleCurrent k e) (.field k)) cur env = Res.ok v := by
  simp only [ieval, h, Res.ok_bind, Res.pure_eq, field, objLookup_single, Option.getD_some]

/-- the same for the list form of the hash, on a non-null current node -/
theorem hash_select_list (root : Val) (k : Bytes) (e : INode) (cur : Val) (env : Env) (v : Val)
    (hc : cur.isNull = false) (h : ieval root e cur env = Res.ok v) :
    ieval root (.pipe (.selectObjectCurrent [(k, e)]) (.field k)) cur env = Res.ok v := by
  simp only [ieval, ievalFields, combineUnordered_nil, hc, Bool.false_eq_true, if_false, h, Res.ok_bind, Res.pure_eq,
    field, objLookup_single, Option.getD_some]

/-- whatever `e` does, `{k: e}.k` and `e` agree (same value or the same failure) -/
theorem hash_select_eq (root : Val) (k : Bytes) (e : INode) (cur : Val) (env : Env) :
    ieval root (.pipe (.selectObjectSingleCurrent k e) (.field k)) cur env = ieval root e cur env := by
  simp only [ieval, Res.pure_eq, Res.bind_assoc, Res.ok_bind, field, objLookup_single, Option.getD_some, Res.bind_ok]

example :
    ieval .null (.pipe (.selectObjectSingleCurrent [107] (.field [97])) (.field [107])) (.obj [([97], .bool true)]) []
      = .ok (.bool true) ∧
    ieval .null (.field [97]) (.obj [([97], .bool true)]) [] = .ok (.bool true) := ⟨rfl, rfl⟩
/-- on a null current node the list form of the hash yields null, so `{k: e}.k` is null whatever `e` is -/
example : ieval .null (.pipe (.selectObjectCurrent [([107], .lit (.bool true))]) (.field [107])) .null [] = .ok .null := rfl

/-! ## h. Further identities named in the property text

  "for an array x, `x[*].e` equals `map(&e, x)` with nulls removed" and "filter, flatten and slice projections
  equal their unprojected result piped into `[*]`".  The first holds exactly.  The filter and flatten identities
  need the same side condition as (e) — the right-hand side maps null to null — because the fused loops project
  null elements while the unprojected filter / flatten result has already dropped them; the slice identity holds
  for every value except a string (the implementation's string slices are passed to the right-hand side whole). -/

theorem widen_bind_ok {α β} (t : ATag) (xs : List Val) (fs : List (Val → Res Val)) (extra : List Cat) (r : Res α)
    (g : α → β) :
    widen t xs fs extra (r >>= fun x => Res.ok (g x)) = (widen t xs fs extra r >>= fun x => Res.ok (g x)) := by
  cases r <;> simp only [Res.ok_bind, Res.err_bind, Res.panic_bind, Res.nondet_bind, Res.unmodelled_bind, widen]
  split <;> (try split) <;> rfl

theorem mapPrune_eq_mapAll (f : Val → Res Val) (xs : List Val) :
    mapPrune f xs = (mapAll f xs >>= fun r => Res.ok (r.filter (fun x => !x.isNull))) := by
  induction xs with
  | nil => rfl
  | cons x xs ih =>
    simp only [mapPrune, mapAll, ih, Res.bind_assoc, Res.pure_eq, Res.ok_bind, List.filter_cons]
    apply Res.bind_congr
    intro p
    apply Res.bind_congr
    intro r
    cases p.isNull <;> simp

theorem pruneArray_arr_derived (t : ATag) (r : List Val) :
    pruneArray (.arr t.derived r) = .arr t.derived (r.filter (fun x => !x.isNull)) := by
  simp only [pruneArray, derived_derived]
  cases h : r.any Val.isNull
  · simp only [Bool.false_eq_true, if_false, filter_nonnull_self r h]
  · simp only [if_true]

/-- value level: `x[*].e` on an array is `map(&e, x)` with its nulls removed -/
theorem star_is_map (f : Val → Res Val) (t : ATag) (xs : List Val) :
    projectArray f (.arr t xs) = (mapArray f (.arr t xs) >>= fun b => Res.ok (pruneArray b)) := by
  simp only [projectArray, mapArray, Res.pure_eq, mapPrune_eq_mapAll, Res.bind_assoc, Res.ok_bind]
  have : (fun a : List Val => Res.ok (Val.arr t.derived (a.filter (fun x => !x.isNull))))
      = (fun a : List Val => Res.ok (pruneArray (Val.arr t.derived a))) :=
    funext fun a => by rw [pruneArray_arr_derived]
  rw [this, ← widen_bind_ok t xs [f] [] (mapAll f xs >>= fun r => Res.ok (Val.arr t.derived r)) pruneArray,
    Res.bind_assoc]
  rfl

/-- node level: `x[*].e` = `map(&e, x)[*]` whenever the value of `x` is an array (on anything else `map` is a type
    error while the projection yields null) -/
theorem star_is_map_node (root : Val) (x e : INode) (cur : Val) (env : Env) (t : ATag) (xs : List Val)
    (hx : ieval root x cur env = Res.ok (.arr t xs)) :
    ieval root (.projectArray x e) cur env = ieval root (.pruneArray (.map e x)) cur env := by
  simp only [ieval, hx, Res.ok_bind, Res.pure_eq]
  exact star_is_map _ t xs

example :
    ieval .null (.projectArray .current (.field [97])) (.arr .plain [.obj [([97], .bool true)], .bool false]) []
      = .ok (.arr .plain [.bool true]) ∧
    ieval .null (.pruneArray (.map (.field [97]) .current)) (.arr .plain [.obj [([97], .bool true)], .bool false]) []
      = .ok (.arr .plain [.bool true]) := ⟨rfl, rfl⟩

/-- the fused filter-and-project loop against filter, then project -/
theorem filterMapPrune_comp (c f : Val → Res Val) (h0 : f .null = Res.ok .null) (xs : List Val) :
    Agree (filterMapPrune c f xs) (filterLoop c xs >>= mapPrune f) := by
  induction xs with
  | nil => exact Or.inl ⟨[], rfl, rfl⟩
  | cons x rest ih =>
    simp only [filterMapPrune, filterLoop, Res.pure_eq]
    cases hc : c x with
    | ok b =>
      simp only [Res.ok_bind, Res.bind_assoc]
      cases hb : isTrue b
      · simp only [Bool.false_eq_true, if_false, Bool.false_and]
        exact ih
      · cases hx : x.isNull
        · simp only [if_true, Bool.true_and, Bool.not_false, mapPrune, Res.pure_eq]
          cases hf : f x with
          | ok p =>
            simp only [Res.ok_bind]
            rw [← Res.bind_assoc]
            exact Agree.bind_same ih _
          | _ => exact Or.inr ⟨rfl, isOk_bind_right _ _ fun a => rfl⟩
        · have := isNull_eq hx
          subst this
          simp only [if_true, Bool.true_and, Bool.not_true, Bool.false_eq_true, if_false, h0, Res.ok_bind,
            show Val.null.isNull = true from rfl, Res.bind_ok]
          exact ih
    | _ => exact Or.inr ⟨rfl, rfl⟩

/-- value level: `a[?c].f` agrees with `a[?c] | [*].f` when `f` maps null to null -/
theorem filter_then_project (c f : Val → Res Val) (h0 : f .null = Res.ok .null) (a : Val) :
    Agree (filterAndProjectArray c f a) (filterArray c a >>= fun b => projectArray f b) := by
  cases a with
  | arr t xs =>
    simp only [filterAndProjectArray, filterArray, Res.pure_eq]
    rcases filterMapPrune_comp c f h0 xs with ⟨r, hl, hr⟩ | ⟨hl, hr⟩
    · obtain ⟨r1, hr1, hr2⟩ := bind_eq_ok hr
      refine Or.inl ⟨.arr t.derived r, ?_, ?_⟩
      · rw [hl]; rfl
      · rw [hr1]
        simp only [Res.ok_bind, widen_ok, projectArray, hr2, Res.pure_eq, derived_derived]
    · refine Or.inr ⟨?_, ?_⟩
      · rw [isOk_widen]; exact isOk_bind_left _ _ hl
      · cases hm : filterLoop c xs with
        | ok r1 =>
          rw [hm] at hr
          simp only [Res.ok_bind, widen_ok, projectArray, Res.pure_eq]
          rw [isOk_widen]
          exact isOk_bind_left _ _ hr
        | _ =>
          apply isOk_bind_left
          rw [isOk_widen]
          rfl
  | _ => exact Or.inl ⟨.null, rfl, rfl⟩

/-- node level: `l[?c].r` agrees with `l[?c] | [*].r` -/
theorem filter_then_project_node (root : Val) (l c r : INode) (cur : Val) (env : Env)
    (h0 : ieval root r .null env = Res.ok .null) :
    Agree (ieval root (.filterAndProject l c r) cur env)
      (ieval root (.pipe (.filter l c) (.projectArrayCurrent r)) cur env) := by
  have e2 : ieval root (.pipe (.filter l c) (.projectArrayCurrent r)) cur env =
      (ieval root l cur env >>= fun a => filterArray (fun v => ieval root c v env) a >>= fun b =>
        projectArray (fun v => ieval root r v env) b) := by
    simp only [ieval, Res.bind_assoc]
  rw [e2, ieval]
  exact Agree.bind _ fun a => filter_then_project _ _ h0 a

/-- the null condition is needed: `[null][?`true`].`true`` is `[true]`, `[null][?`true`] | [*].`true`` is `[]` -/
example :
    ieval .null (.filterAndProject .current (.lit (.bool true)) (.lit (.bool true))) (.arr .plain [.null]) []
      = .ok (.arr .plain [.bool true]) ∧
    ieval .null (.pipe (.filter .current (.lit (.bool true))) (.projectArrayCurrent (.lit (.bool true))))
        (.arr .plain [.null]) [] = .ok (.arr .plain []) := ⟨rfl, rfl⟩
example :
    ieval .null (.filterAndProject .current .current (.field [97]))
        (.arr .plain [.obj [([97], .bool true)], .null, .bool false]) [] = .ok (.arr .plain [.bool true]) ∧
    ieval .null (.pipe (.filter .current .current) (.projectArrayCurrent (.field [97])))
        (.arr .plain [.obj [([97], .bool true)], .null, .bool false]) [] = .ok (.arr .plain [.bool true]) := ⟨rfl, rfl⟩

theorem mapPrune_filter_nonnull (f : Val → Res Val) (h0 : f .null = Res.ok .null) (ys : List Val) :
    mapPrune f (ys.filter (fun x => !x.isNull)) = mapPrune f ys := by
  induction ys with
  | nil => rfl
  | cons y ys ih =>
    cases hy : y.isNull
    · simp only [List.filter_cons, hy, Bool.not_false, if_true, mapPrune, ih]
    · have := isNull_eq hy
      subst this
      simp only [List.filter_cons, show Val.null.isNull = true from rfl, Bool.not_true, Bool.false_eq_true, if_false,
        mapPrune, h0, Res.ok_bind, Res.pure_eq, if_true, Res.bind_ok, ih]

theorem flattenTag_derived (t : ATag) (xs : List Val) : (flattenTag t xs).derived = flattenTag t xs := by
  simp only [flattenTag]
  split <;> rfl

/-- value level: `a[].f` agrees with `a[] | [*].f` when `f` maps null to null -/
theorem flatten_then_project (f : Val → Res Val) (h0 : f .null = Res.ok .null) (a : Val) :
    Agree (flattenAndProjectArray f a) (projectArray f (flatten a)) := by
  cases a with
  | arr t xs =>
    simp only [flattenAndProjectArray, flatten, projectArray, Res.pure_eq, flattenTag_derived,
      ← flattenForProject_filter, mapPrune_filter_nonnull f h0]
    cases hm : mapPrune f (flattenForProject xs) with
    | ok r => exact Or.inl ⟨_, rfl, rfl⟩
    | _ =>
      refine Or.inr ⟨?_, ?_⟩ <;> rw [isOk_widen] <;> rfl
  | _ => exact Or.inl ⟨.null, rfl, rfl⟩

/-- node level: `l[].r` agrees with `l[] | [*].r` -/
theorem flatten_then_project_node (root : Val) (l r : INode) (cur : Val) (env : Env)
    (h0 : ieval root r .null env = Res.ok .null) :
    Agree (ieval root (.flattenAndProject l r) cur env)
      (ieval root (.pipe (.flatten l) (.projectArrayCurrent r)) cur env) := by
  have e2 : ieval root (.pipe (.flatten l) (.projectArrayCurrent r)) cur env =
      (ieval root l cur env >>= fun a => projectArray (fun v => ieval root r v env) (flatten a)) := by
    simp only [ieval, Res.bind_assoc, Res.pure_eq, Res.ok_bind]
  rw [e2, ieval]
  exact Agree.bind _ fun a => flatten_then_project _ h0 a

example :
    ieval .null (.flattenAndProject .current (.lit (.bool true))) (.arr .plain [.null]) []
      = .ok (.arr .plain [.bool true]) ∧
    ieval .null (.pipe (.flatten .current) (.projectArrayCurrent (.lit (.bool true)))) (.arr .plain [.null]) []
      = .ok (.arr .plain []) := ⟨rfl, rfl⟩
example :
    ieval .null (.flattenAndProject .current (.field [97]))
        (.arr .plain [.arr .plain [.obj [([97], .bool true)], .null], .null]) [] = .ok (.arr .plain [.bool true]) ∧
    ieval .null (.pipe (.flatten .current) (.projectArrayCurrent (.field [97])))
        (.arr .plain [.arr .plain [.obj [([97], .bool true)], .null], .null]) [] = .ok (.arr .plain [.bool true]) :=
  ⟨rfl, rfl⟩

/-- `l[a:b].r` = `l[a:b] | [*].r` for any left-hand node `l` (slice or not) whose value is not a string -/
theorem slice_then_project_node (root : Val) (l r : INode) (cur : Val) (env : Env)
    (hstr : ∀ s, ieval root l cur env ≠ Res.ok (.str s)) :
    ieval root (.projectArray l r) cur env = ieval root (.pipe l (.projectArrayCurrent r)) cur env := by
  simp only [ieval]
  cases hl : ieval root l cur env with
  | ok a =>
    cases a with
    | str s => exact absurd hl (hstr s)
    | _ => rfl
  | _ => rfl

/-- a string slice followed by a selector hands the whole string to the selector; piped into `[*]` it is null -/
example :
    ieval .null (.projectArray (.sliceCurrent 0 1) .current) (.str [97, 98]) [] = .ok (.str [97]) ∧
    ieval .null (.pipe (.sliceCurrent 0 1) (.projectArrayCurrent .current)) (.str [97, 98]) [] = .ok .null :=
  ⟨rfl, rfl⟩
example :
    ieval .null (.projectArray (.sliceCurrent 0 1) (.field [97])) (.arr .plain [.obj [([97], .bool true)], .null]) []
      = .ok (.arr .plain [.bool true]) ∧
    ieval .null (.pipe (.sliceCurrent 0 1) (.projectArrayCurrent (.field [97])))
        (.arr .plain [.obj [([97], .bool true)], .null]) [] = .ok (.arr .plain [.bool true]) := ⟨rfl, rfl⟩

/-! ## Reference level

  The same identities on the reference semantics: by `ieval_desugar` the two spellings of each identity desugar to
  trees with equal `seval`.  For most `…Current` forms the two trees are literally the same or differ by a
  `.sub .current _`; the laws of `.sub` are: -/

theorem sub_current_left (root : Val) (t : Tree) (cur : Val) (env : Env) :
    seval root (.sub .current t) cur env = seval root t cur env := by
  simp only [seval, Res.ok_bind]

theorem sub_current_right (root : Val) (t : Tree) (cur : Val) (env : Env) :
    seval root (.sub t .current) cur env = seval root t cur env := by
  simp only [seval, Res.bind_ok]

theorem sub_assoc (root : Val) (a b c : Tree) (cur : Val) (env : Env) :
    seval root (.sub (.sub a b) c) cur env = seval root (.sub a (.sub b c)) cur env := by
  simp only [seval, Res.bind_assoc]

/-- every `ieval` identity transports to `seval` of the desugared trees -/
theorem transport {root : Val} {n m : INode} {cur : Val} {env : Env}
    (h : ieval root n cur env = ieval root m cur env) :
    seval root (desugar n) cur env = seval root (desugar m) cur env := by
  rw [← ieval_desugar, ← ieval_desugar, h]

theorem fused_filter_spec (root : Val) (c f : INode) (cur : Val) (env : Env) :
    seval root (desugar (.filter c f)) cur env = seval root (desugar (.filterAndProject c f .current)) cur env :=
  transport (fused_filter root c f cur env)

theorem single_select_spec (root : Val) (c f : INode) (cur : Val) (env : Env) :
    seval root (desugar (.selectArraySingle c f)) cur env = seval root (desugar (.selectArray c [f])) cur env :=
  transport (single_select root c f cur env)

theorem index_current_spec (root : Val) (i : Int) (cur : Val) (env : Env) :
    seval root (.index i) cur env = seval root (.sub .current (.index i)) cur env :=
  transport (n := .indexCurrent i) (m := .index .current i) (indexCurrent_eq root i cur env)

end Jmes.C17
